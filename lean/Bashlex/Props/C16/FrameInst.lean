/-
  C16, part 9: the two instances of the tokenizer frame (`Props/C16/Frame.lean`), and with them
  the frame hypotheses `FrameHyp` of `Props/C16/Run.lean` as theorems.
-/
import Bashlex.Props.C16.Frame
import Bashlex.Props.C16.Depth

namespace Bashlex.C16
open Bashlex Bashlex.M
set_option linter.unusedSimpArgs false
set_option linter.unusedVariables false
set_option linter.unusedSectionVars false

/-! ## instance A: unlimited run versus limited run, standard relation between the environments -/

/-- the side condition of `St j b` -/
def Pjb (j : Int) (b : Bool) (s₁ s₂ : Side) : Prop :=
  s₁.limit = none ∧ s₂.limit = some j ∧
    (if b then s₁.cmdsubst = true ∧ s₂.cmdsubst = true else s₁.eofToken = none)

theorem St_iff_SF (j : Int) (b : Bool) (l₁ l₂ : Local) : St j b l₁ l₂ ↔ SF (Pjb j b) l₁ l₂ := Iff.rfl

section A
attribute [local instance] stdEnvRel

theorem Fr_ask_std {S : Local → Local → Prop} (q : Query) : Fr S (M.ask q) = True :=
  eq_true (Rel.ask q)

instance primsA (j : Int) (b : Bool) : Prims (Pjb j b) where
  getc rqn := by
    have hask := @Fr_ask_std (SF (Pjb j b))
    unfold getc Fr
    rel2
  ungetc c := by
    have hask := @Fr_ask_std (SF (Pjb j b))
    unfold ungetc Fr
    rel2
  curIdx := by
    have hask := @Fr_ask_std (SF (Pjb j b))
    unfold curIdx Fr
    rel2
  bumpIdx := by
    have hask := @Fr_ask_std (SF (Pjb j b))
    unfold bumpIdx Fr
    rel2
  tapeSource := by
    have hask := @Fr_ask_std (SF (Pjb j b))
    unfold tapeSource Fr
    rel2
  tapeLine := by
    have hask := @Fr_ask_std (SF (Pjb j b))
    unfold tapeLine Fr
    rel2
  tapeAdded := by
    have hask := @Fr_ask_std (SF (Pjb j b))
    unfold tapeAdded Fr
    rel2
  optStrict := by
    have hask := @Fr_ask_std (SF (Pjb j b))
    unfold optStrict Fr
    rel2
  syn c := by
    unfold syn
    exact Rel.ask _

end A

/-- the tokenizer entry points neither read nor write what the two runs disagree on -/
theorem frame_next (j : Int) (b : Bool) :
    @Rel stdEnvRel _ _ (St j b) (St j b) nextToken nextToken Eq :=
  @Fr_nextToken stdEnvRel (Pjb j b) (primsA j b)

theorem frame_gather (j : Int) (b : Bool) :
    @Rel stdEnvRel _ _ (St j b) (St j b) gatherheredocuments gatherheredocuments (fun _ _ => True) :=
  (@Rel.conseq stdEnvRel _ _ _ _ _ _ _ _
    (of_eq_true (@Fr_gatherheredocuments stdEnvRel (Pjb j b) (primsA j b))) (fun _ _ _ => trivial))

/-! ## instance B: a parser over its own tape, environments pinned to a reference -/

/-- both environments stay equal, up to the store, to the reference `e₀` -/
@[reducible] def pinEnvRel (e₀ : Env) : EnvRel := ⟨fun e₁ e₂ => EnvR e₁ e₀ ∧ EnvR e₂ e₀⟩

/-- same side; own tape, fixed options -/
def Pown (s₁ s₂ : Side) : Prop := s₁ = s₂ ∧ s₁.ownTape = true ∧ s₁.ownOpts = true

theorem own_tw {l₁ l₂ : Local} (h : SF Pown l₁ l₂) :
    ∃ t z, l₂ = tw l₁.limit l₁.ps.cmdsubst t z l₁ := by
  obtain ⟨hc, hs, _, _⟩ := h
  refine ⟨l₂.ps.eoftoken, l₂.ps.casestmt, ?_⟩
  have h1 : l₁.limit = l₂.limit := congrArg Side.limit hs
  have h2 : l₁.ps.cmdsubst = l₂.ps.cmdsubst := congrArg Side.cmdsubst hs
  rw [h1, h2]
  exact eq_tw_of_core hc

theorem envR_answer_syn (e : Env) (c : Char) : EnvR (e.answer (.syntab c)).2 e := by
  simp only [Env.answer]
  split <;> exact ⟨rfl, rfl, rfl⟩

section B
variable (e₀ : Env)

theorem rel_ask_syn_pin {S : Local → Local → Prop} (c : Char) :
    @Rel (pinEnvRel e₀) _ _ S S (M.ask (.syntab c)) (M.ask (.syntab c)) Eq := by
  intro l₁ l₂ e₁ e₂ hS hE a₁ l₁' e₁' hr
  have h1 : ∀ (l : Local) (e : Env), (M.ask (.syntab c)).run l e =
      (.ok ((e.answer (.syntab c)).1, l), (e.answer (.syntab c)).2) := fun l e => rfl
  rw [h1] at hr
  cases hr
  refine ⟨_, _, _, h1 _ _, rfl, hS, ?_, ?_⟩
  · exact (envR_answer_syn e₁ c).trans hE.1
  · exact (envR_answer_syn e₂ c).trans hE.2

theorem own_tape_none {l : Local} {α : Prop} (hT : (side l).ownTape = true) (h : l.tape = none) : α := by
  simp [side, h] at hT

theorem own_opts_none {l : Local} {α : Prop} (hO : (side l).ownOpts = true) (h : l.opts = none) : α := by
  simp [side, h] at hO

/-- opening of every primitive: read the state, write run 2's value as `tw … l₁` -/
macro "own_get" : tactic => `(tactic| (
  refine Rel.bind Rel.get ?_
  intro l₁ l₂ hl
  obtain ⟨t, z, h⟩ := own_tw hl
  subst h
  obtain ⟨_, _, hT, hO⟩ := hl
  dsimp only [tw]))

theorem primsB : @Prims (pinEnvRel e₀) Pown := by
  letI : EnvRel := pinEnvRel e₀
  refine { getc := ?_, ungetc := ?_, curIdx := ?_, bumpIdx := ?_, tapeSource := ?_, tapeLine := ?_,
           tapeAdded := ?_, optStrict := ?_, syn := ?_ }
  · intro rqn
    unfold getc Fr
    own_get
    rename_i l₁ _ _ _ _ hT hO
    cases h1 : l₁.eolLookahead with
    | some c => exact Rel.bindEqS (Rel.setU ⟨rfl, rfl, hT, hO⟩) (fun _ => Rel.pure rfl)
    | none =>
      simp only []
      cases h2 : l₁.tape with
      | none => exact own_tape_none hT h2
      | some tp =>
        simp only []
        cases tp.getc rqn (tp.line.length + 1) with
        | error u => exact Rel.foreign_left
        | ok v =>
          obtain ⟨c, t'⟩ := v
          exact Rel.bindEqS (Rel.setU ⟨rfl, rfl, rfl, hO⟩) (fun _ => Rel.pure rfl)
  · intro c
    unfold ungetc Fr
    own_get
    rename_i l₁ _ _ _ _ hT hO
    cases h2 : l₁.tape with
    | none => exact own_tape_none hT h2
    | some tp =>
      simp only []
      split
      · exact Rel.setU ⟨rfl, rfl, rfl, hO⟩
      · exact Rel.setU ⟨rfl, rfl, by simp [side, h2], hO⟩
  · unfold curIdx Fr
    own_get
    rename_i l₁ _ _ _ _ hT hO
    cases h2 : l₁.tape with
    | none => exact own_tape_none hT h2
    | some tp => exact Rel.pure rfl
  · unfold bumpIdx Fr
    own_get
    rename_i l₁ _ _ _ _ hT hO
    cases h2 : l₁.tape with
    | none => exact own_tape_none hT h2
    | some tp => exact Rel.setU ⟨rfl, rfl, rfl, hO⟩
  · unfold tapeSource Fr
    own_get
    rename_i l₁ _ _ _ _ hT hO
    cases h2 : l₁.tape with
    | none => exact own_tape_none hT h2
    | some tp => exact Rel.pure rfl
  · unfold tapeLine Fr
    own_get
    rename_i l₁ _ _ _ _ hT hO
    cases h2 : l₁.tape with
    | none => exact own_tape_none hT h2
    | some tp => exact Rel.pure rfl
  · unfold tapeAdded Fr
    own_get
    rename_i l₁ _ _ _ _ hT hO
    cases h2 : l₁.tape with
    | none => exact own_tape_none hT h2
    | some tp => exact Rel.pure rfl
  · unfold optStrict Fr
    own_get
    rename_i l₁ _ _ _ _ hT hO
    cases h2 : l₁.opts with
    | none => exact own_opts_none hO h2
    | some v => exact Rel.pure rfl
  · intro c
    unfold syn
    exact rel_ask_syn_pin e₀ c

theorem side_iu (l : Local) : side (iu l) = side l := by
  unfold iu; split <;> rfl

theorem sf_nested {o₁ o₂ : Local} (h : SF Pown o₁ o₂) (s : Str) (d : Bool) :
    SF Pown (nestedInit o₁ s d) (nestedInit o₂ s d) := by
  obtain ⟨hc, hs, hT, hO⟩ := h
  refine ⟨core_nestedInit hc s d, ?_, rfl, rfl⟩
  have h1 : o₁.limit = o₂.limit := congrArg Side.limit hs
  have h2 : o₁.ps.cmdsubst = o₂.ps.cmdsubst := congrArg Side.cmdsubst hs
  show (⟨o₁.limit.map (· - 1), (nestedInit o₁ s d).ps.cmdsubst, _, _, _⟩ : Side) =
    ⟨o₂.limit.map (· - 1), (nestedInit o₂ s d).ps.cmdsubst, _, _, _⟩
  have h3 : (nestedInit o₁ s d).ps.cmdsubst = (nestedInit o₂ s d).ps.cmdsubst := by
    unfold nestedInit; cases d <;> simp [h2]
  rw [h1, h3]
  rfl

theorem sf_restore {o₁ o₂ i₁ i₂ : Local} (ho : SF Pown o₁ o₂) (hi : SF Pown i₁ i₂) :
    SF Pown { o₁ with ps := i₁.ps } { o₂ with ps := i₂.ps } := by
  obtain ⟨hc, hs, hT, hO⟩ := ho
  obtain ⟨kc, ks, _, _⟩ := hi
  have hps := (core_fields kc).2.2.2.2.2.2.1
  refine ⟨?_, ?_, hT, hO⟩
  · show ({ core o₁ with ps := coreP i₁.ps } : Local) = { core o₂ with ps := coreP i₂.ps }
    rw [hc, hps]
  · have h1 : o₁.limit = o₂.limit := congrArg Side.limit hs
    have h2 : i₁.ps.cmdsubst = i₂.ps.cmdsubst := congrArg Side.cmdsubst ks
    have h3 : o₁.eofToken = o₂.eofToken := congrArg Side.eofToken hs
    have h4 : o₁.tape.isSome = o₂.tape.isSome := congrArg Side.ownTape hs
    have h5 : o₁.opts.isSome = o₂.opts.isSome := congrArg Side.ownOpts hs
    show (⟨o₁.limit, i₁.ps.cmdsubst, o₁.eofToken, o₁.tape.isSome, o₁.opts.isSome⟩ : Side) =
      ⟨o₂.limit, i₂.ps.cmdsubst, o₂.eofToken, o₂.tape.isSome, o₂.opts.isSome⟩
    rw [h1, h2, h3, h4, h5]

theorem sokB : @SOK (pinEnvRel e₀) (SF Pown) := by
  letI : EnvRel := pinEnvRel e₀
  haveI := primsB e₀
  refine { store := ?_, opts := ?_, tape := ?_, heredoc := ?_, inputunit := ?_, accept := ?_,
           next := Fr_nextToken, gather := ?_, optProceed := ?_ }
  · intro l₁ l₂ h; exact (core_fields h.1).2.2.1
  · intro l₁ l₂ h; exact (core_fields h.1).2.1
  · intro l₁ l₂ h; exact (core_fields h.1).1
  · intro l₁ l₂ c k h
    exact h.upd (updH c k) rfl rfl rfl rfl
  · intro l₁ l₂ h
    refine ⟨by rw [core_iu, core_iu]; exact h.1, ?_⟩
    rw [side_iu, side_iu]; exact h.2
  · intro l₁ l₂ h
    obtain ⟨hc, hs, _, _⟩ := h
    obtain ⟨_, _, _, _, he, hcur, _⟩ := core_fields hc
    have h2 : l₁.ps.cmdsubst = l₂.ps.cmdsubst := congrArg Side.cmdsubst hs
    unfold accCond
    rw [h2, he, hcur]
  · exact (of_eq_true Fr_gatherheredocuments).conseq (fun _ _ _ => trivial)
  · unfold optProceed
    refine Rel.bind Rel.get ?_
    intro l₁ l₂ hl
    rw [(core_fields hl.1).2.1]
    cases h2 : l₂.opts with
    | none =>
      have : l₁.opts = none := by rw [(core_fields hl.1).2.1]; exact h2
      exact own_opts_none hl.2.2.2 this
    | some v => exact Rel.pure rfl

/-- a parser over its own tape with fixed options, run twice from states that agree on the core
    and on the side, in environments that agree with `e₀` up to the store: same result, and both
    final environments still agree with `e₀` -/
theorem parserRun_own : ∀ d : Nat,
    @Rel (pinEnvRel e₀) _ _ (SF Pown) (SF Pown) (parserRun d) (parserRun d) Eq := by
  letI : EnvRel := pinEnvRel e₀
  intro d
  induction d with
  | zero => exact Rel.raise_left
  | succ d ih =>
    rw [parserRun_succ]
    have hnp : NPR (SF Pown) Eq (npPlain (parserRun d)) (npPlain (parserRun d)) := by
      intro string dolparen
      unfold npPlain
      refine Rel.bind Rel.get ?_
      intro o₁ o₂ ho
      refine Rel.bind (Rel.set (S' := SF Pown) (sf_nested ho string dolparen)) ?_
      intro _ _ _
      refine Rel.bind ih ?_
      rintro r _ rfl
      refine Rel.bind Rel.get ?_
      intro i₁ i₂ hi
      refine Rel.bind (Rel.set (S' := SF Pown) (sf_restore ho hi)) ?_
      intro _ _ _
      exact Rel.pure (orel_eq rfl)
    have hW : ∀ tok, Rel (SF Pown) (SF Pown) (expandword (npPlain (parserRun d)) tok)
        (expandword (npPlain (parserRun d)) tok) (WR idf idf) := by
      intro tok
      rw [expandword_eq]
      refine Rel.bind Rel.get ?_
      intro l₁ l₂ hl
      have h1 : l₁.limit = l₂.limit := congrArg Side.limit hl.2.1
      rw [h1]
      refine rel_expandwordWith nok_eq hnp tok _ _ _ rfl ?_ ?_
      · exact ⟨_, _, _, _, _, rfl, rfl, rfl⟩
      · intro ps₁ ps₂ w h
        have : ps₁ = ps₂ := forall2_eq (forall2_mono (fun _ _ => partR_eq) h)
        subst this
        exact ⟨_, _, _, _, _, rfl, rfl, rfl⟩
    exact (rel_level (sokB e₀) (f := idf) (g := idf) (fun _ _ => rfl) hW).conseq
      (fun _ _ h => orel_idf h)

end B

/-- **a parser that runs over its own tape with fixed options leaves the caller's tape alone** -/
theorem nestedEnv_thm (d : Nat) (l : Local) (e : Env) (r : Option Node) (l' : Local) (e' : Env)
    (hT : l.tape.isSome = true) (hO : l.opts.isSome = true)
    (hr : (parserRun d).run l e = (.ok (r, l'), e')) : EnvR e e' := by
  obtain ⟨_, _, _, _, _, _, hE⟩ := parserRun_own e d l l e e ⟨rfl, rfl, hT, hO⟩
    ⟨EnvR.refl e, EnvR.refl e⟩ r l' e' hr
  exact hE.1.symm

/-- **the frame hypotheses hold** -/
theorem frameHyp : FrameHyp where
  next := frame_next
  gather := frame_gather
  nestedEnv := nestedEnv_thm

end Bashlex.C16
