/-
  C16, part 4: the semantic actions are natural in the word results.  If the arguments of an
  action in the two runs have the same images under the word maps `f` / `g`, and `expandword`
  delivers words with the same images, then so does the action; the accept flag is the same.
-/
import Bashlex.Props.C16.Word
import Bashlex.Model.Actions

namespace Bashlex.C16
open Bashlex Bashlex.Spec Bashlex.Node Bashlex.M Bashlex.LR
set_option linter.unusedSimpArgs false
set_option linter.unusedVariables false
set_option linter.unusedSectionVars false

/-- `p_inputunit`'s effect on the state -/
def iu (l : Local) : Local :=
  if l.ps.cmdsubst then { l with ps := { l.ps with eoftoken := true } } else l

/-- the state part of `p_simple_list`'s accept condition -/
def accCond (l : Local) : Bool :=
  l.ps.cmdsubst &&
    (match l.eofToken with
     | some e => decide ({ l.currentToken with pos := none } = e)
     | none => false)

variable [EnvRel]

/-- what the actions and the engine need of the relation between the local states -/
structure SOK (S : Local → Local → Prop) : Prop where
  store : ∀ {l₁ l₂}, S l₁ l₂ → l₁.store = l₂.store
  opts : ∀ {l₁ l₂}, S l₁ l₂ → l₁.opts = l₂.opts
  tape : ∀ {l₁ l₂}, S l₁ l₂ → l₁.tape = l₂.tape
  heredoc : ∀ {l₁ l₂} (c : RedirCell) (k : Bool), S l₁ l₂ →
    S { l₁ with store := l₁.store ++ [c], redirstack := l₁.redirstack ++ [(l₁.store.length, k)] }
      { l₂ with store := l₂.store ++ [c], redirstack := l₂.redirstack ++ [(l₂.store.length, k)] }
  inputunit : ∀ {l₁ l₂}, S l₁ l₂ → S (iu l₁) (iu l₂)
  accept : ∀ {l₁ l₂}, S l₁ l₂ → accCond l₁ = accCond l₂
  next : Rel S S nextToken nextToken Eq
  gather : Rel S S gatherheredocuments gatherheredocuments (fun _ _ => True)
  optProceed : Rel S S optProceed optProceed Eq

abbrev ArgsR (f g : WF) := Forall2 (SR f g)

/-- relation between the results of an action -/
def ResR (f g : WF) (r₁ r₂ : SVal × Bool) : Prop := SR f g r₁.1 r₂.1 ∧ r₁.2 = r₂.2

section
variable {f g : WF} {S : Local → Local → Prop} {np₁ np₂ : NestedParse} {a₁ a₂ : List SVal}

theorem forall2_length' {α β} {R : α → β → Prop} {l₁ : List α} {l₂ : List β}
    (h : Forall2 R l₁ l₂) : l₁.length = l₂.length := by
  induction h with
  | nil => rfl
  | cons _ _ ih => simp [ih]

theorem forall2_getD {α β} {R : α → β → Prop} {d₁ : α} {d₂ : β} (hd : R d₁ d₂) :
    ∀ {l₁ : List α} {l₂ : List β}, Forall2 R l₁ l₂ → ∀ i, R (l₁.getD i d₁) (l₂.getD i d₂) := by
  intro l₁ l₂ h
  induction h with
  | nil => intro i; simpa using hd
  | cons h1 _ ih =>
    intro i
    cases i with
    | zero => simpa using h1
    | succ i => simpa using ih i

theorem len_eq (h : ArgsR f g a₁ a₂) : PCtx.len ⟨np₁, a₁⟩ = PCtx.len ⟨np₂, a₂⟩ := by
  simp [PCtx.len, forall2_length' h]

theorem slice_rel (h : ArgsR f g a₁ a₂) (i : Nat) :
    SR f g (PCtx.slice ⟨np₁, a₁⟩ i) (PCtx.slice ⟨np₂, a₂⟩ i) :=
  forall2_getD (d₁ := SVal.none) (d₂ := SVal.none) trivial h (i - 1)

theorem lexspan_eq (h : ArgsR f g a₁ a₂) (i : Nat) :
    PCtx.lexspan ⟨np₁, a₁⟩ i = PCtx.lexspan ⟨np₂, a₂⟩ i :=
  (slice_rel h i).lexspan

theorem isTok_eq (h : ArgsR f g a₁ a₂) (i : Nat) (ty : TokType) :
    PCtx.isTok ⟨np₁, a₁⟩ i ty = PCtx.isTok ⟨np₂, a₂⟩ i ty := by
  have := slice_rel (np₁ := np₁) (np₂ := np₂) h i
  unfold PCtx.isTok
  revert this
  cases PCtx.slice ⟨np₁, a₁⟩ i <;> cases PCtx.slice ⟨np₂, a₂⟩ i <;> simp [SR]
  intro h; rw [h]

theorem rel_tokAt (h : ArgsR f g a₁ a₂) (i : Nat) :
    Rel S S (PCtx.tokAt ⟨np₁, a₁⟩ i) (PCtx.tokAt ⟨np₂, a₂⟩ i) Eq := by
  have := slice_rel (np₁ := np₁) (np₂ := np₂) h i
  unfold PCtx.tokAt
  revert this
  cases PCtx.slice ⟨np₁, a₁⟩ i <;> cases PCtx.slice ⟨np₂, a₂⟩ i <;> simp [SR] <;>
    first | exact Rel.foreign_left | (intro h; first | exact Rel.foreign_left | exact Rel.pure h)

theorem rel_strAt (h : ArgsR f g a₁ a₂) (i : Nat) :
    Rel S S (PCtx.strAt ⟨np₁, a₁⟩ i) (PCtx.strAt ⟨np₂, a₂⟩ i) Eq := by
  unfold PCtx.strAt
  refine Rel.bind (rel_tokAt h i) ?_
  rintro t _ rfl
  exact Rel.pure rfl

theorem rel_nodeAt (h : ArgsR f g a₁ a₂) (i : Nat) (site : String) :
    Rel S S (PCtx.nodeAt ⟨np₁, a₁⟩ i site) (PCtx.nodeAt ⟨np₂, a₂⟩ i site) (NR f g) := by
  have := slice_rel (np₁ := np₁) (np₂ := np₂) h i
  unfold PCtx.nodeAt
  revert this
  cases PCtx.slice ⟨np₁, a₁⟩ i <;> cases PCtx.slice ⟨np₂, a₂⟩ i <;> simp [SR] <;>
    first | exact Rel.foreign_left | (intro h; first | exact Rel.foreign_left | exact Rel.pure h)

theorem rel_nodesAt (h : ArgsR f g a₁ a₂) (i : Nat) (site : String) :
    Rel S S (PCtx.nodesAt ⟨np₁, a₁⟩ i site) (PCtx.nodesAt ⟨np₂, a₂⟩ i site) (LR f g) := by
  have := slice_rel (np₁ := np₁) (np₂ := np₂) h i
  unfold PCtx.nodesAt
  revert this
  cases PCtx.slice ⟨np₁, a₁⟩ i <;> cases PCtx.slice ⟨np₂, a₂⟩ i <;> simp [SR] <;>
    first | exact Rel.foreign_left | (intro h; first | exact Rel.foreign_left | exact Rel.pure h)

theorem nr_reserved (p : Span) (w : Str) : NR f g (.reservedword p w) (.reservedword p w) := rfl
theorem nr_operator (p : Span) (w : Str) : NR f g (.operator p w) (.operator p w) := rfl
theorem nr_pipe (p : Span) (w : Str) : NR f g (.pipe p w) (.pipe p w) := rfl

theorem rel_reservedAt (h : ArgsR f g a₁ a₂) (i : Nat) :
    Rel S S (reservedAt ⟨np₁, a₁⟩ i) (reservedAt ⟨np₂, a₂⟩ i) (NR f g) := by
  unfold reservedAt
  refine Rel.bind (rel_strAt h i) ?_
  rintro t _ rfl
  rw [lexspan_eq h i]
  exact Rel.pure (nr_reserved _ _)

theorem rel_operatorAt (h : ArgsR f g a₁ a₂) (i : Nat) :
    Rel S S (operatorAt ⟨np₁, a₁⟩ i) (operatorAt ⟨np₂, a₂⟩ i) (NR f g) := by
  unfold operatorAt
  refine Rel.bind (rel_strAt h i) ?_
  rintro t _ rfl
  rw [lexspan_eq h i]
  exact Rel.pure (nr_operator _ _)

/-! ### positions -/

def nodePosK (k : Span × Option Nat) : M Span := do
  match k.2 with
  | some id =>
    match (← get).store[id]? with
    | some c => pure c.pos
    | none => pure k.1
  | none => pure k.1

theorem nodePos_eq (n : Node) : nodePos n = nodePosK (posKey n) := by
  cases n with
  | redirect p i t o oa h hid => cases hid <;> rfl
  | _ => rfl

theorem rel_nodePosK (hS : SOK S) (k : Span × Option Nat) :
    Rel S S (nodePosK k) (nodePosK k) Eq := by
  unfold nodePosK
  cases k.2 with
  | none => exact Rel.pure rfl
  | some id =>
    simp only []
    refine Rel.bind Rel.get ?_
    intro l₁ l₂ hl
    rw [hS.store hl]
    cases l₂.store[id]? with
    | none => exact Rel.pure rfl
    | some c => exact Rel.pure rfl

theorem rel_nodePos (hS : SOK S) {a b : Node} (h : NR f g a b) :
    Rel S S (nodePos a) (nodePos b) Eq := by
  rw [nodePos_eq, nodePos_eq, h.posKey]
  exact rel_nodePosK hS _

theorem rel_partsspan (hS : SOK S) {l l' : List Node} (h : LR f g l l') :
    Rel S S (partsspan l) (partsspan l') Eq := by
  unfold partsspan
  have h1 := LR.head? h
  have h2 := LR.getLast? h
  revert h1 h2
  cases l.head? <;> cases l'.head? <;> cases l.getLast? <;> cases l'.getLast? <;>
    simp only [] <;> intro h1 h2 <;>
    first
      | exact h1.elim
      | exact h2.elim
      | exact Rel.foreign_left
      | (refine Rel.bind (rel_nodePos hS h1) ?_
         rintro p _ rfl
         refine Rel.bind (rel_nodePos hS h2) ?_
         rintro q _ rfl
         exact Rel.pure rfl)

theorem rel_handleAssert (b : Bool) :
    Rel S S (handleAssert b) (handleAssert b) (fun _ _ => True) := by
  unfold handleAssert
  cases b
  · exact Rel.foreign_left
  · exact Rel.pure trivial

theorem rel_optProceed (hS : SOK S) : Rel S S optProceed optProceed Eq := hS.optProceed

/-! ### helpers of the actions -/

theorem rel_makeparts (hW : ∀ tok, Rel S S (expandword np₁ tok) (expandword np₂ tok) (NR f g))
    (h : ArgsR f g a₁ a₂) :
    Rel S S (makeparts ⟨np₁, a₁⟩) (makeparts ⟨np₂, a₂⟩) (LR f g) := by
  unfold makeparts
  simp only [bind_pure]
  refine Rel.forIn_list (A := SR f g) (I := LR f g) ?_ _ _ h _ _ LR.nil
  intro a b s t hab hst
  cases a <;> cases b <;> simp only [SR] at hab <;> try exact hab.elim
  · exact Rel.pure hst
  · subst hab
    simp only []
    refine Rel.ite' (fun _ => ?_) (fun _ => ?_)
    · refine Rel.bind (hW _) ?_
      intro w₁ w₂ hw
      exact Rel.pure (LR.append hst (LR.single hw))
    · exact Rel.pure (LR.append hst (LR.single (nr_reserved _ _)))
  · exact Rel.pure (LR.append hst (LR.single hab))
  · exact Rel.pure (LR.append hst hab)

theorem rel_handleNotImplemented (hS : SOK S)
    (hW : ∀ tok, Rel S S (expandword np₁ tok) (expandword np₂ tok) (NR f g))
    (h : ArgsR f g a₁ a₂) (ty : String) :
    Rel S S (handleNotImplemented ⟨np₁, a₁⟩ ty) (handleNotImplemented ⟨np₂, a₂⟩ ty) (SR f g) := by
  unfold handleNotImplemented
  refine Rel.bind (rel_optProceed hS) ?_
  rintro b _ rfl
  cases b
  · exact Rel.raise_left
  · simp only [if_true]
    refine Rel.bind (rel_makeparts hW h) ?_
    intro l l' hl
    refine Rel.bind (rel_partsspan hS hl) ?_
    rintro sp _ rfl
    refine Rel.pure ?_
    show NR f g _ _
    simp only [NR, mapW]; rw [hl]

theorem rel_addRedirects (hS : SOK S) {n n' : Node} {reds reds' : List Node}
    (hn : NR f g n n') (hr : LR f g reds reds') :
    Rel S S (addRedirects n reds) (addRedirects n' reds') (NR f g) := by
  unfold addRedirects
  rw [hn.isCompound]
  refine Rel.bind (rel_handleAssert _) ?_
  intro _ _ _
  cases n with
  | compound pos l r =>
    obtain ⟨l', r', rfl, hl, hrr⟩ := hn.compound_inv
    simp only []
    have hrr' : LR f g (r ++ reds) (r' ++ reds') := LR.append hrr hr
    have hlast := LR.getLast? hrr'
    revert hlast
    cases (r ++ reds).getLast? <;> cases (r' ++ reds').getLast? <;> simp only [] <;> intro hlast <;>
      first
        | exact hlast.elim
        | exact Rel.foreign_left
        | (refine Rel.bind (rel_nodePos hS hlast) ?_
           rintro e _ rfl
           refine Rel.bind (rel_handleAssert _) ?_
           intro _ _ _
           refine Rel.pure ?_
           show NR f g _ _
           simp only [NR, mapW]; rw [hl, hrr'])
  | _ => exact Rel.noRet (by cases n' <;> exact NoRet.foreign)

theorem rel_mkCompound1 (hS : SOK S) (inner : Span → List Node → Node)
    (hinner : ∀ sp l l', LR f g l l' → NR f g (inner sp l) (inner sp l'))
    {l l' : List Node} (h : LR f g l l') :
    Rel S S (mkCompound1 inner l) (mkCompound1 inner l') (SR f g) := by
  unfold mkCompound1
  refine Rel.bind (rel_partsspan hS h) ?_
  rintro sp _ rfl
  refine Rel.pure ?_
  show NR f g _ _
  have := hinner sp l l' h
  simp only [NR, mapW, mapWL_cons, mapWL_nil] at this ⊢
  rw [this]

theorem rel_joinLists (h : ArgsR f g a₁ a₂) (mk : Span → Str → Node)
    (hmk : ∀ sp w, NR f g (mk sp w) (mk sp w)) (site : String) :
    Rel S S (joinLists ⟨np₁, a₁⟩ mk site) (joinLists ⟨np₂, a₂⟩ mk site) (SR f g) := by
  unfold joinLists
  rw [len_eq (np₂ := np₂) h]
  refine Rel.ite' (fun _ => ?_) (fun _ => ?_)
  · refine Rel.bind (rel_nodeAt h _ _) ?_
    intro n n' hn
    exact Rel.pure (LR.single hn)
  · refine Rel.bind (rel_nodesAt h _ _) ?_
    intro l l' hl
    refine Rel.bind (rel_nodesAt h _ _) ?_
    intro r r' hr
    refine Rel.bind (rel_strAt h _) ?_
    rintro w _ rfl
    rw [lexspan_eq (np₂ := np₂) h]
    exact Rel.pure (LR.append (LR.append hl (LR.single (hmk _ _))) hr)

/-! ### the actions -/

/-- what `expandword` delivers in the two runs: word nodes with the same span and the same image -/
def WR (f g : WF) (w₁ w₂ : Node) : Prop :=
  ∃ sp v₁ ps₁ v₂ ps₂, w₁ = .word sp v₁ ps₁ ∧ w₂ = .word sp v₂ ps₂ ∧ f.word sp v₁ ps₁ = g.word sp v₂ ps₂

theorem WR.nr {w₁ w₂ : Node} (h : WR f g w₁ w₂) : NR f g w₁ w₂ := by
  obtain ⟨sp, v₁, ps₁, v₂, ps₂, rfl, rfl, h⟩ := h
  simp only [NR, mapW]; rw [h]

theorem WR.assignment {w₁ w₂ : Node} (h : WR f g w₁ w₂) :
    ∃ sp v₁ ps₁ v₂ ps₂, w₁ = .word sp v₁ ps₁ ∧ w₂ = .word sp v₂ ps₂ ∧
      NR f g (.assignment sp v₁ ps₁) (.assignment sp v₂ ps₂) := by
  obtain ⟨sp, v₁, ps₁, v₂, ps₂, rfl, rfl, h⟩ := h
  refine ⟨sp, v₁, ps₁, v₂, ps₂, rfl, rfl, ?_⟩
  simp only [NR, mapW]; rw [h]

/-- the two word maps agree on words without parts (here-document delimiters) -/
def WOK (f g : WF) : Prop := ∀ sp v, f.word sp v [] = g.word sp v []

theorem rel_ret {v v' : SVal} (h : SR f g v v') :
    Rel S S (pure (v, false) : M (SVal × Bool)) (pure (v', false)) (ResR f g) :=
  Rel.pure ⟨h, rfl⟩

theorem rel_ret_bind {m₁ m₂ : M SVal} (h : Rel S S m₁ m₂ (SR f g)) :
    Rel S S (do let v ← m₁; pure (v, false)) (do let v ← m₂; pure (v, false)) (ResR f g) :=
  Rel.bind h (fun _ _ hv => rel_ret hv)

def iuThen {α : Type} (K : M α) : M α := do
  if (← get).ps.cmdsubst then
    modify fun l => { l with ps := { l.ps with eoftoken := true } }
    K
  else K

theorem iuThen_run {α : Type} (K : M α) (l : Local) (e : Env) :
    (iuThen K).run l e = K.run (iu l) e := by
  unfold iu
  cases h : l.ps.cmdsubst
  · show Q.run (iuThen K l) e = Q.run (K _) e
    unfold iuThen
    simp [h, bind, StateT.bind, get, getThe, MonadStateOf.get, StateT.get, ExceptT.bind, ExceptT.mk,
      ExceptT.bindCont, pure, StateT.pure, ExceptT.pure, Q.bind, Q.run]
  · show Q.run (iuThen K l) e = Q.run (K _) e
    unfold iuThen
    simp [h, bind, StateT.bind, get, getThe, MonadStateOf.get, StateT.get, ExceptT.bind, ExceptT.mk,
      ExceptT.bindCont, pure, StateT.pure, ExceptT.pure, Q.bind, Q.run, modify, modifyGet,
      MonadStateOf.modifyGet, StateT.modifyGet]

theorem rel_iuThen {α β : Type} {R : α → β → Prop} (hS : SOK S) {K₁ : M α} {K₂ : M β}
    (hK : Rel S S K₁ K₂ R) : Rel S S (iuThen K₁) (iuThen K₂) R := by
  intro l₁ l₂ e₁ e₂ hl he a₁ l₁' e₁' hr
  rw [iuThen_run] at hr
  obtain ⟨a₂, l₂', e₂', h2, h3, h4, h5⟩ := hK _ _ _ _ (hS.inputunit hl) he _ _ _ hr
  exact ⟨a₂, l₂', e₂', by rw [iuThen_run]; exact h2, h3, h4, h5⟩

theorem rel_inputunit (hS : SOK S) (h : ArgsR f g a₁ a₂) :
    Rel S S (actionCore np₁ "p_inputunit" a₁) (actionCore np₂ "p_inputunit" a₂) (ResR f g) := by
  unfold actionCore; simp only []
  show Rel S S (iuThen _) (iuThen _) _
  refine rel_iuThen hS ?_
  have := slice_rel (np₁ := np₁) (np₂ := np₂) h 1
  revert this
  cases PCtx.slice ⟨np₁, a₁⟩ 1 <;> cases PCtx.slice ⟨np₂, a₂⟩ 1 <;> simp only [SR] <;> intro hs <;>
    first | exact hs.elim | exact Rel.pure ⟨trivial, rfl⟩ | exact Rel.pure ⟨hs, rfl⟩

theorem rel_word_list (hW : ∀ tok, Rel S S (expandword np₁ tok) (expandword np₂ tok) (WR f g))
    (h : ArgsR f g a₁ a₂) :
    Rel S S (actionCore np₁ "p_word_list" a₁) (actionCore np₂ "p_word_list" a₂) (ResR f g) := by
  unfold actionCore; simp only []
  rw [len_eq (np₂ := np₂) h]
  refine Rel.ite' (fun _ => ?_) (fun _ => ?_)
  · refine Rel.bind (rel_tokAt h _) ?_; rintro t _ rfl
    refine Rel.bind (hW t) ?_; intro w w' hw
    exact rel_ret (LR.single hw.nr)
  · refine Rel.bind (rel_nodesAt h _ _) ?_; intro l l' hl
    refine Rel.bind (rel_tokAt h _) ?_; rintro t _ rfl
    refine Rel.bind (hW t) ?_; intro w w' hw
    exact rel_ret (LR.append hl (LR.single hw.nr))

theorem nr_redirect {p i t oa h hid} {o o' : Option Node}
    (ho : mapWO f o = mapWO g o') :
    NR f g (.redirect p i t o oa h hid) (.redirect p i t o' oa h hid) := by
  simp only [NR, mapW]; rw [ho]

theorem rel_redirection_heredoc (hS : SOK S) (hfg : WOK f g) (h : ArgsR f g a₁ a₂) :
    Rel S S (actionCore np₁ "p_redirection_heredoc" a₁) (actionCore np₂ "p_redirection_heredoc" a₂)
      (ResR f g) := by
  unfold actionCore; simp only [pure_bind]
  rw [len_eq (np₂ := np₂) h]
  refine Rel.bind (rel_tokAt h _) ?_; rintro wtok _ rfl
  have fin : ∀ (input : RedirIn) (type : Str) (pos : Span), Rel S S
      (do let l ← get
          set { l with store := l.store ++ [({ pos := pos, delim := wtok.valueStr } : RedirCell)],
                       redirstack := l.redirstack ++ [(l.store.length,
                          !PCtx.isTok ⟨np₁, a₁⟩ (PCtx.len ⟨np₂, a₂⟩ - 2) TokType.LESS_LESS)] }
          pure (SVal.node (.redirect pos input type
            (some (.word (wtok.lexpos, wtok.endlexpos) wtok.valueStr [])) .none none (some l.store.length)),
            false) : M (SVal × Bool))
      (do let l ← get
          set { l with store := l.store ++ [({ pos := pos, delim := wtok.valueStr } : RedirCell)],
                       redirstack := l.redirstack ++ [(l.store.length,
                          !PCtx.isTok ⟨np₂, a₂⟩ (PCtx.len ⟨np₂, a₂⟩ - 2) TokType.LESS_LESS)] }
          pure (SVal.node (.redirect pos input type
            (some (.word (wtok.lexpos, wtok.endlexpos) wtok.valueStr [])) .none none (some l.store.length)),
            false) : M (SVal × Bool)) (ResR f g) := by
    intro input type pos
    refine Rel.bind Rel.get ?_
    intro l₁ l₂ hl
    rw [isTok_eq (np₂ := np₂) h]
    refine Rel.bind (Rel.set (hS.heredoc _ _ hl)) ?_
    intro _ _ _
    rw [hS.store hl]
    refine rel_ret (nr_redirect ?_)
    simp only [mapWO, mapW]
    rw [hfg]
  refine Rel.ite' (fun _ => ?_) (fun _ => ?_)
  · refine Rel.bind (rel_strAt h _) ?_; rintro ty _ rfl
    rw [lexspan_eq (np₂ := np₂) h 1, lexspan_eq (np₂ := np₂) h 2]
    exact fin _ _ _
  · refine Rel.bind (rel_tokAt h _) ?_; rintro t1 _ rfl
    refine Rel.bind (rel_strAt h _) ?_; rintro ty _ rfl
    rw [lexspan_eq (np₂ := np₂) h 1, lexspan_eq (np₂ := np₂) h 3]
    exact fin _ _ _


theorem rel_redirection (hW : ∀ tok, Rel S S (expandword np₁ tok) (expandword np₂ tok) (WR f g))
    (h : ArgsR f g a₁ a₂) :
    Rel S S (actionCore np₁ "p_redirection" a₁) (actionCore np₂ "p_redirection" a₂) (ResR f g) := by
  unfold actionCore; simp only [pure_bind, len_eq (np₁ := np₁) (np₂ := np₂) h, lexspan_eq (np₁ := np₁) (np₂ := np₂) h, isTok_eq (np₁ := np₁) (np₂ := np₂) h]
  refine Rel.bind (rel_tokAt h _) ?_; rintro otok _ rfl
  refine Rel.ite' (fun _ => ?_) (fun _ => ?_)
  · refine Rel.bind (hW _) ?_; intro w w' hw
    have ho : mapWO f (some w) = mapWO g (some w') := by simp only [mapWO]; rw [hw.nr]
    refine Rel.ite' (fun _ => ?_) (fun _ => ?_)
    · refine Rel.bind (rel_strAt h _) ?_; rintro ty _ rfl
      exact rel_ret (nr_redirect ho)
    · refine Rel.bind (rel_tokAt h _) ?_; rintro t1 _ rfl
      refine Rel.bind (rel_strAt h _) ?_; rintro ty _ rfl
      exact rel_ret (nr_redirect ho)
  · refine Rel.ite' (fun _ => ?_) (fun _ => ?_)
    · refine Rel.bind (rel_strAt h _) ?_; rintro ty _ rfl
      exact rel_ret (nr_redirect rfl)
    · refine Rel.bind (rel_tokAt h _) ?_; rintro t1 _ rfl
      refine Rel.bind (rel_strAt h _) ?_; rintro ty _ rfl
      exact rel_ret (nr_redirect rfl)

theorem rel_simple_command_element
    (hW : ∀ tok, Rel S S (expandword np₁ tok) (expandword np₂ tok) (WR f g))
    (h : ArgsR f g a₁ a₂) :
    Rel S S (actionCore np₁ "p_simple_command_element" a₁)
      (actionCore np₂ "p_simple_command_element" a₂) (ResR f g) := by
  unfold actionCore; simp only [pure_bind, len_eq (np₁ := np₁) (np₂ := np₂) h, lexspan_eq (np₁ := np₁) (np₂ := np₂) h, isTok_eq (np₁ := np₁) (np₂ := np₂) h]
  have key : Rel S S
      (do let t ← PCtx.tokAt ⟨np₁, a₁⟩ 1
          let w ← expandword np₁ t
          if t.is .ASSIGNMENT_WORD then
            match w with
            | .word pos s parts => pure (SVal.nodes [.assignment pos s parts], false)
            | _ => pure (SVal.nodes [w], false)
          else pure (SVal.nodes [w], false) : M (SVal × Bool))
      (do let t ← PCtx.tokAt ⟨np₂, a₂⟩ 1
          let w ← expandword np₂ t
          if t.is .ASSIGNMENT_WORD then
            match w with
            | .word pos s parts => pure (SVal.nodes [.assignment pos s parts], false)
            | _ => pure (SVal.nodes [w], false)
          else pure (SVal.nodes [w], false) : M (SVal × Bool)) (ResR f g) := by
    refine Rel.bind (rel_tokAt h _) ?_; rintro t _ rfl
    refine Rel.bind (hW t) ?_; intro w w' hw
    refine Rel.ite' (fun _ => ?_) (fun _ => rel_ret (LR.single hw.nr))
    obtain ⟨sp, v₁, ps₁, v₂, ps₂, rfl, rfl, ha⟩ := hw.assignment
    exact rel_ret (LR.single ha)
  have := slice_rel (np₁ := np₁) (np₂ := np₂) h 1
  revert this
  cases PCtx.slice ⟨np₁, a₁⟩ 1 <;> cases PCtx.slice ⟨np₂, a₂⟩ 1 <;> simp only [SR] <;> intro hs <;>
    first | exact hs.elim | exact key | exact rel_ret (LR.single hs)

theorem rel_redirection_list (h : ArgsR f g a₁ a₂) :
    Rel S S (actionCore np₁ "p_redirection_list" a₁) (actionCore np₂ "p_redirection_list" a₂)
      (ResR f g) := by
  unfold actionCore; simp only [pure_bind, len_eq (np₁ := np₁) (np₂ := np₂) h, lexspan_eq (np₁ := np₁) (np₂ := np₂) h, isTok_eq (np₁ := np₁) (np₂ := np₂) h]
  refine Rel.ite' (fun _ => ?_) (fun _ => ?_)
  · refine Rel.bind (rel_nodeAt h _ _) ?_; intro n n' hn
    exact rel_ret (LR.single hn)
  · refine Rel.bind (rel_nodesAt h _ _) ?_; intro l l' hl
    refine Rel.bind (rel_nodeAt h _ _) ?_; intro n n' hn
    exact rel_ret (LR.append hl (LR.single hn))

theorem rel_simple_command (h : ArgsR f g a₁ a₂) :
    Rel S S (actionCore np₁ "p_simple_command" a₁) (actionCore np₂ "p_simple_command" a₂)
      (ResR f g) := by
  unfold actionCore; simp only [pure_bind, len_eq (np₁ := np₁) (np₂ := np₂) h, lexspan_eq (np₁ := np₁) (np₂ := np₂) h, isTok_eq (np₁ := np₁) (np₂ := np₂) h]
  refine Rel.ite' (fun _ => ?_) (fun _ => rel_ret (slice_rel h 1))
  refine Rel.bind (rel_nodesAt h _ _) ?_; intro l l' hl
  refine Rel.bind (rel_nodesAt h _ _) ?_; intro r r' hr
  exact rel_ret (LR.append hl hr)

theorem nr_command {p : Span} {l l' : List Node} (h : LR f g l l') :
    NR f g (.command p l) (.command p l') := by
  simp only [NR, mapW]; rw [h]

theorem rel_command (hS : SOK S) (h : ArgsR f g a₁ a₂) :
    Rel S S (actionCore np₁ "p_command" a₁) (actionCore np₂ "p_command" a₂) (ResR f g) := by
  unfold actionCore; simp only [pure_bind, len_eq (np₁ := np₁) (np₂ := np₂) h, lexspan_eq (np₁ := np₁) (np₂ := np₂) h, isTok_eq (np₁ := np₁) (np₂ := np₂) h]
  have key : Rel S S
      (do let parts ← PCtx.nodesAt ⟨np₁, a₁⟩ 1 "_partsspan"
          let sp ← partsspan parts
          pure (SVal.node (.command sp parts), false) : M (SVal × Bool))
      (do let parts ← PCtx.nodesAt ⟨np₂, a₂⟩ 1 "_partsspan"
          let sp ← partsspan parts
          pure (SVal.node (.command sp parts), false) : M (SVal × Bool)) (ResR f g) := by
    refine Rel.bind (rel_nodesAt h _ _) ?_; intro l l' hl
    refine Rel.bind (rel_partsspan hS hl) ?_; rintro sp _ rfl
    exact rel_ret (nr_command hl)
  have := slice_rel (np₁ := np₁) (np₂ := np₂) h 1
  revert this
  cases PCtx.slice ⟨np₁, a₁⟩ 1 <;> cases PCtx.slice ⟨np₂, a₂⟩ 1 <;> simp only [SR] <;> intro hs <;>
    first
      | exact hs.elim
      | exact key
      | (refine Rel.ite' (fun _ => ?_) (fun _ => rel_ret hs)
         refine Rel.bind (rel_nodesAt h _ _) ?_; intro r r' hr
         refine Rel.bind (rel_addRedirects hS hs hr) ?_; intro n n' hn
         exact rel_ret hn)

/-- closing tactic for "same constructor, related children" -/
macro "nr_close" : tactic =>
  `(tactic| (simp only [NR, LR, SR, mapW, mapWL_cons, mapWL_nil, mapWL_append] at *; simp [*]))

theorem nr_compound1 {sp : Span} {l l' : List Node} (inner : Span → List Node → Node)
    (hinner : ∀ sp l l', LR f g l l' → NR f g (inner sp l) (inner sp l')) (h : LR f g l l') :
    NR f g (.compound sp [inner sp l] []) (.compound sp [inner sp l'] []) := by
  have := hinner sp l l' h
  nr_close

theorem nr_whileN : ∀ sp l l', LR f g l l' → NR f g (.whileN sp l) (.whileN sp l') := by
  intro sp l l' h; nr_close
theorem nr_untilN : ∀ sp l l', LR f g l l' → NR f g (.untilN sp l) (.untilN sp l') := by
  intro sp l l' h; nr_close
theorem nr_forN : ∀ sp l l', LR f g l l' → NR f g (.forN sp l) (.forN sp l') := by
  intro sp l l' h; nr_close
theorem nr_caseN : ∀ sp l l', LR f g l l' → NR f g (.caseN sp l) (.caseN sp l') := by
  intro sp l l' h; nr_close
theorem nr_ifN : ∀ sp l l', LR f g l l' → NR f g (.ifN sp l) (.ifN sp l') := by
  intro sp l l' h; nr_close

theorem rel_shell_command (hS : SOK S)
    (hW : ∀ tok, Rel S S (expandword np₁ tok) (expandword np₂ tok) (WR f g))
    (h : ArgsR f g a₁ a₂) :
    Rel S S (actionCore np₁ "p_shell_command" a₁) (actionCore np₂ "p_shell_command" a₂) (ResR f g) := by
  unfold actionCore; simp only [pure_bind, len_eq (np₁ := np₁) (np₂ := np₂) h, lexspan_eq (np₁ := np₁) (np₂ := np₂) h, isTok_eq (np₁ := np₁) (np₂ := np₂) h]
  refine Rel.ite' (fun _ => ?_) (fun _ => ?_)
  · refine Rel.bind (rel_nodeAt h _ _) ?_; intro n n' hn
    rw [hn.isCompound]
    refine Rel.bind (rel_handleAssert _) ?_; intro _ _ _
    exact rel_ret hn
  · refine Rel.bind (rel_makeparts (fun t => (hW t).conseq (fun _ _ => WR.nr)) h) ?_
    intro l l' hl
    have hh := LR.head? hl
    revert hh
    cases l.head? <;> cases l'.head? <;> simp only [] <;> intro hh <;>
      first | exact hh.elim | exact Rel.foreign_left | skip
    rename_i a b
    cases a <;> try exact Rel.foreign_left
    cases hh.reservedword_inv
    simp only []
    refine Rel.bind (rel_partsspan hS hl) ?_; rintro sp _ rfl
    refine Rel.ite' (fun _ => rel_ret (nr_compound1 _ nr_whileN hl)) (fun _ => ?_)
    refine Rel.ite' (fun _ => rel_ret (nr_compound1 _ nr_untilN hl)) (fun _ => Rel.foreign_left)

theorem mapWL_fix (f : WF) : ∀ l : List Node,
    mapWL f (actionCore.fix l) = actionCore.fix (mapWL f l) := by
  intro l
  induction l with
  | nil => rfl
  | cons n rest ih =>
    cases n <;> simp [actionCore.fix, mapW, ih]
    split <;> simp [mapW, ih]

theorem lr_fix {l l' : List Node} (h : LR f g l l') :
    LR f g (actionCore.fix l) (actionCore.fix l') := by
  unfold LR at *
  rw [mapWL_fix, mapWL_fix, h]

theorem rel_for_command (hS : SOK S)
    (hW : ∀ tok, Rel S S (expandword np₁ tok) (expandword np₂ tok) (WR f g))
    (h : ArgsR f g a₁ a₂) :
    Rel S S (actionCore np₁ "p_for_command" a₁) (actionCore np₂ "p_for_command" a₂) (ResR f g) := by
  unfold actionCore; simp only [pure_bind, len_eq (np₁ := np₁) (np₂ := np₂) h, lexspan_eq (np₁ := np₁) (np₂ := np₂) h, isTok_eq (np₁ := np₁) (np₂ := np₂) h]
  refine Rel.bind (rel_makeparts (fun t => (hW t).conseq (fun _ _ => WR.nr)) h) ?_
  intro l l' hl
  exact rel_ret_bind (rel_mkCompound1 hS _ nr_forN (lr_fix hl))

theorem rel_case_command (hS : SOK S)
    (hW : ∀ tok, Rel S S (expandword np₁ tok) (expandword np₂ tok) (WR f g))
    (h : ArgsR f g a₁ a₂) :
    Rel S S (actionCore np₁ "p_case_command" a₁) (actionCore np₂ "p_case_command" a₂) (ResR f g) := by
  unfold actionCore; simp only [pure_bind, len_eq (np₁ := np₁) (np₂ := np₂) h, lexspan_eq (np₁ := np₁) (np₂ := np₂) h, isTok_eq (np₁ := np₁) (np₂ := np₂) h]
  refine Rel.bind (rel_makeparts (fun t => (hW t).conseq (fun _ _ => WR.nr)) h) ?_
  intro l l' hl
  exact rel_ret_bind (rel_mkCompound1 hS _ nr_caseN hl)

theorem rel_if_command (hS : SOK S)
    (hW : ∀ tok, Rel S S (expandword np₁ tok) (expandword np₂ tok) (WR f g))
    (h : ArgsR f g a₁ a₂) :
    Rel S S (actionCore np₁ "p_if_command" a₁) (actionCore np₂ "p_if_command" a₂) (ResR f g) := by
  unfold actionCore; simp only [pure_bind, len_eq (np₁ := np₁) (np₂ := np₂) h, lexspan_eq (np₁ := np₁) (np₂ := np₂) h, isTok_eq (np₁ := np₁) (np₂ := np₂) h]
  refine Rel.bind (rel_makeparts (fun t => (hW t).conseq (fun _ _ => WR.nr)) h) ?_
  intro l l' hl
  exact rel_ret_bind (rel_mkCompound1 hS _ nr_ifN hl)

theorem rel_notimpl (hS : SOK S)
    (hW : ∀ tok, Rel S S (expandword np₁ tok) (expandword np₂ tok) (WR f g))
    (h : ArgsR f g a₁ a₂) (ty : String) :
    Rel S S (do let v ← handleNotImplemented ⟨np₁, a₁⟩ ty; pure (v, false))
      (do let v ← handleNotImplemented ⟨np₂, a₂⟩ ty; pure (v, false)) (ResR f g) :=
  rel_ret_bind (rel_handleNotImplemented hS (fun t => (hW t).conseq (fun _ _ => WR.nr)) h ty)

theorem rel_arith_for_command (hS : SOK S)
    (hW : ∀ tok, Rel S S (expandword np₁ tok) (expandword np₂ tok) (WR f g))
    (h : ArgsR f g a₁ a₂) :
    Rel S S (actionCore np₁ "p_arith_for_command" a₁) (actionCore np₂ "p_arith_for_command" a₂)
      (ResR f g) := by
  unfold actionCore; simp only []; exact rel_notimpl hS hW h _

theorem rel_select_command (hS : SOK S)
    (hW : ∀ tok, Rel S S (expandword np₁ tok) (expandword np₂ tok) (WR f g))
    (h : ArgsR f g a₁ a₂) :
    Rel S S (actionCore np₁ "p_select_command" a₁) (actionCore np₂ "p_select_command" a₂)
      (ResR f g) := by
  unfold actionCore; simp only []; exact rel_notimpl hS hW h _

theorem rel_coproc (hS : SOK S)
    (hW : ∀ tok, Rel S S (expandword np₁ tok) (expandword np₂ tok) (WR f g))
    (h : ArgsR f g a₁ a₂) :
    Rel S S (actionCore np₁ "p_coproc" a₁) (actionCore np₂ "p_coproc" a₂) (ResR f g) := by
  unfold actionCore; simp only []; exact rel_notimpl hS hW h _

theorem rel_arith_command (hS : SOK S)
    (hW : ∀ tok, Rel S S (expandword np₁ tok) (expandword np₂ tok) (WR f g))
    (h : ArgsR f g a₁ a₂) :
    Rel S S (actionCore np₁ "p_arith_command" a₁) (actionCore np₂ "p_arith_command" a₂) (ResR f g) := by
  unfold actionCore; simp only []; exact rel_notimpl hS hW h _

theorem rel_cond_command (hS : SOK S)
    (hW : ∀ tok, Rel S S (expandword np₁ tok) (expandword np₂ tok) (WR f g))
    (h : ArgsR f g a₁ a₂) :
    Rel S S (actionCore np₁ "p_cond_command" a₁) (actionCore np₂ "p_cond_command" a₂) (ResR f g) := by
  unfold actionCore; simp only []; exact rel_notimpl hS hW h _

theorem rel_timespec (hS : SOK S)
    (hW : ∀ tok, Rel S S (expandword np₁ tok) (expandword np₂ tok) (WR f g))
    (h : ArgsR f g a₁ a₂) :
    Rel S S (actionCore np₁ "p_timespec" a₁) (actionCore np₂ "p_timespec" a₂) (ResR f g) := by
  unfold actionCore; simp only []; exact rel_notimpl hS hW h _

theorem rel_function_def (hS : SOK S)
    (hW : ∀ tok, Rel S S (expandword np₁ tok) (expandword np₂ tok) (WR f g))
    (h : ArgsR f g a₁ a₂) :
    Rel S S (actionCore np₁ "p_function_def" a₁) (actionCore np₂ "p_function_def" a₂) (ResR f g) := by
  unfold actionCore; simp only [pure_bind, len_eq (np₁ := np₁) (np₂ := np₂) h, lexspan_eq (np₁ := np₁) (np₂ := np₂) h, isTok_eq (np₁ := np₁) (np₂ := np₂) h]
  refine Rel.bind (rel_makeparts (fun t => (hW t).conseq (fun _ _ => WR.nr)) h) ?_
  intro l l' hl
  have hlen := hl.length
  have he : l.isEmpty = l'.isEmpty := by
    cases l <;> cases l' <;> simp at hlen <;> rfl
  have hfi : ∀ P : Node → Bool, (∀ f n, P (mapW f n) = P n) → l.findIdx? P = l'.findIdx? P :=
    fun P hP => LR.findIdx hP hl
  rw [he, hlen, hfi _ (by intro f n; cases n <;> rfl)]
  refine Rel.ite' (fun _ => Rel.noRet (NoRet.bind_left NoRet.foreign)) (fun _ => ?_)
  refine Rel.bind (rel_partsspan hS hl) ?_; rintro sp _ rfl
  refine rel_ret ?_
  show NR f g _ _
  nr_close

theorem rel_function_body (hS : SOK S) (h : ArgsR f g a₁ a₂) :
    Rel S S (actionCore np₁ "p_function_body" a₁) (actionCore np₂ "p_function_body" a₂) (ResR f g) := by
  unfold actionCore; simp only [pure_bind, len_eq (np₁ := np₁) (np₂ := np₂) h, lexspan_eq (np₁ := np₁) (np₂ := np₂) h, isTok_eq (np₁ := np₁) (np₂ := np₂) h]
  refine Rel.bind (rel_nodeAt h _ _) ?_; intro n n' hn
  rw [hn.isCompound]
  refine Rel.bind (rel_handleAssert _) ?_; intro _ _ _
  refine Rel.ite' (fun _ => ?_) (fun _ => rel_ret hn)
  refine Rel.bind (rel_nodesAt h _ _) ?_; intro r r' hr
  refine Rel.bind (rel_addRedirects hS hn hr) ?_; intro m m' hm
  exact rel_ret hm

theorem rel_group (hS : SOK S) (h : ArgsR f g a₁ a₂) : Rel S S
    (do let l ← reservedAt ⟨np₁, a₁⟩ 1
        let r ← reservedAt ⟨np₁, a₁⟩ 3
        let mid ← PCtx.nodeAt ⟨np₁, a₁⟩ 2 "_partsspan"
        let sp ← partsspan [l, mid, r]
        pure (SVal.node (.compound sp [l, mid, r] []), false) : M (SVal × Bool))
    (do let l ← reservedAt ⟨np₂, a₂⟩ 1
        let r ← reservedAt ⟨np₂, a₂⟩ 3
        let mid ← PCtx.nodeAt ⟨np₂, a₂⟩ 2 "_partsspan"
        let sp ← partsspan [l, mid, r]
        pure (SVal.node (.compound sp [l, mid, r] []), false) : M (SVal × Bool)) (ResR f g) := by
  refine Rel.bind (rel_reservedAt h _) ?_; intro l l' hl
  refine Rel.bind (rel_reservedAt h _) ?_; intro r r' hr
  refine Rel.bind (rel_nodeAt h _ _) ?_; intro m m' hm
  have hp : LR f g [l, m, r] [l', m', r'] := LR.cons hl (LR.cons hm (LR.single hr))
  refine Rel.bind (rel_partsspan hS hp) ?_; rintro sp _ rfl
  refine rel_ret ?_
  show NR f g _ _
  nr_close

theorem rel_subshell (hS : SOK S) (h : ArgsR f g a₁ a₂) :
    Rel S S (actionCore np₁ "p_subshell" a₁) (actionCore np₂ "p_subshell" a₂) (ResR f g) := by
  unfold actionCore; simp only []; exact rel_group hS h

theorem rel_group_command (hS : SOK S) (h : ArgsR f g a₁ a₂) :
    Rel S S (actionCore np₁ "p_group_command" a₁) (actionCore np₂ "p_group_command" a₂) (ResR f g) := by
  unfold actionCore; simp only []; exact rel_group hS h

theorem rel_elif_clause (h : ArgsR f g a₁ a₂) :
    Rel S S (actionCore np₁ "p_elif_clause" a₁) (actionCore np₂ "p_elif_clause" a₂) (ResR f g) := by
  unfold actionCore; simp only [bind_pure]
  refine Rel.bind (P := LR f g) ?_ (fun l l' hl => rel_ret hl)
  refine Rel.forIn_list (A := SR f g) (I := LR f g) ?_ _ _ h _ _ LR.nil
  intro a b s t hab hst
  cases a <;> cases b <;> simp only [SR] at hab <;> try exact hab.elim
  · exact Rel.pure (LR.append hst (LR.single (nr_reserved _ _)))
  · subst hab
    exact Rel.pure (LR.append hst (LR.single (nr_reserved _ _)))
  · exact Rel.pure (LR.append hst (LR.single hab))
  · exact Rel.pure (LR.append hst hab)

theorem rel_case_clause (h : ArgsR f g a₁ a₂) :
    Rel S S (actionCore np₁ "p_case_clause" a₁) (actionCore np₂ "p_case_clause" a₂) (ResR f g) := by
  unfold actionCore; simp only [pure_bind, len_eq (np₁ := np₁) (np₂ := np₂) h, lexspan_eq (np₁ := np₁) (np₂ := np₂) h, isTok_eq (np₁ := np₁) (np₂ := np₂) h]
  refine Rel.ite' (fun _ => ?_) (fun _ => ?_)
  · refine Rel.bind (rel_nodeAt h _ _) ?_; intro n n' hn
    exact rel_ret (LR.single hn)
  · refine Rel.bind (rel_nodesAt h _ _) ?_; intro l l' hl
    refine Rel.bind (rel_nodeAt h _ _) ?_; intro n n' hn
    exact rel_ret (LR.append hl (LR.single hn))

theorem nr_pattern {sp : Span} {l l' : List Node} (h : LR f g l l') :
    NR f g (.pattern sp l) (.pattern sp l') := by nr_close

theorem rel_fin_compound (hS : SOK S) {l l' : List Node} (hl : LR f g l l') : Rel S S
    (do let sp ← partsspan l; pure (SVal.node (.compound sp l []), false) : M (SVal × Bool))
    (do let sp ← partsspan l'; pure (SVal.node (.compound sp l' []), false) : M (SVal × Bool))
    (ResR f g) := by
  refine Rel.bind (rel_partsspan hS hl) ?_; rintro sp _ rfl
  refine rel_ret ?_
  show NR f g _ _
  nr_close

theorem rel_pattern_list (hS : SOK S) (h : ArgsR f g a₁ a₂) :
    Rel S S (actionCore np₁ "p_pattern_list" a₁) (actionCore np₂ "p_pattern_list" a₂) (ResR f g) := by
  unfold actionCore; simp only [pure_bind, len_eq (np₁ := np₁) (np₂ := np₂) h, lexspan_eq (np₁ := np₁) (np₂ := np₂) h, isTok_eq (np₁ := np₁) (np₂ := np₂) h]
  refine Rel.ite' (fun _ => ?_) (fun _ => ?_)
  · refine Rel.bind (rel_nodesAt h _ _) ?_; intro pat pat' hpat
    refine Rel.bind (rel_partsspan hS hpat) ?_; rintro sp _ rfl
    refine Rel.bind (rel_reservedAt h _) ?_; intro r r' hr
    have hb : LR f g [.pattern sp pat, r] [.pattern sp pat', r'] := LR.cons (nr_pattern hpat) (LR.single hr)
    have hs := slice_rel (np₁ := np₁) (np₂ := np₂) h 4
    revert hs
    cases PCtx.slice ⟨np₁, a₁⟩ 4 <;> cases PCtx.slice ⟨np₂, a₂⟩ 4 <;> simp only [SR] <;> intro hs <;>
      first
        | exact hs.elim
        | exact rel_fin_compound hS hb
        | exact rel_fin_compound hS (LR.append hb (LR.single hs))
  · refine Rel.bind (rel_nodesAt h _ _) ?_; intro pat pat' hpat
    refine Rel.bind (rel_reservedAt h _) ?_; intro r0 r0' hr0
    refine Rel.bind (rel_partsspan hS hpat) ?_; rintro sp _ rfl
    refine Rel.bind (rel_reservedAt h _) ?_; intro r r' hr
    have hb : LR f g [r0, .pattern sp pat, r] [r0', .pattern sp pat', r'] :=
      LR.cons hr0 (LR.cons (nr_pattern hpat) (LR.single hr))
    have hs := slice_rel (np₁ := np₁) (np₂ := np₂) h 5
    revert hs
    cases PCtx.slice ⟨np₁, a₁⟩ 5 <;> cases PCtx.slice ⟨np₂, a₂⟩ 5 <;> simp only [SR] <;> intro hs <;>
      first
        | exact hs.elim
        | exact rel_fin_compound hS hb
        | exact rel_fin_compound hS (LR.append hb (LR.single hs))

theorem rel_case_clause_sequence (h : ArgsR f g a₁ a₂) :
    Rel S S (actionCore np₁ "p_case_clause_sequence" a₁) (actionCore np₂ "p_case_clause_sequence" a₂)
      (ResR f g) := by
  unfold actionCore; simp only [pure_bind, len_eq (np₁ := np₁) (np₂ := np₂) h, lexspan_eq (np₁ := np₁) (np₂ := np₂) h, isTok_eq (np₁ := np₁) (np₂ := np₂) h]
  refine Rel.ite' (fun _ => ?_) (fun _ => ?_)
  · refine Rel.bind (rel_nodeAt h _ _) ?_; intro n n' hn
    refine Rel.bind (rel_reservedAt h _) ?_; intro r r' hr
    exact rel_ret (LR.cons hn (LR.single hr))
  · refine Rel.bind (rel_nodesAt h _ _) ?_; intro l l' hl
    refine Rel.bind (rel_nodeAt h _ _) ?_; intro n n' hn
    refine Rel.bind (rel_reservedAt h _) ?_; intro r r' hr
    exact rel_ret (LR.append hl (LR.cons hn (LR.single hr)))

theorem rel_pattern (hW : ∀ tok, Rel S S (expandword np₁ tok) (expandword np₂ tok) (WR f g))
    (h : ArgsR f g a₁ a₂) :
    Rel S S (actionCore np₁ "p_pattern" a₁) (actionCore np₂ "p_pattern" a₂) (ResR f g) := by
  unfold actionCore; simp only [pure_bind, len_eq (np₁ := np₁) (np₂ := np₂) h, lexspan_eq (np₁ := np₁) (np₂ := np₂) h, isTok_eq (np₁ := np₁) (np₂ := np₂) h]
  refine Rel.ite' (fun _ => ?_) (fun _ => ?_)
  · refine Rel.bind (rel_tokAt h _) ?_; rintro t _ rfl
    refine Rel.bind (hW t) ?_; intro w w' hw
    exact rel_ret (LR.single hw.nr)
  · refine Rel.bind (rel_nodesAt h _ _) ?_; intro l l' hl
    refine Rel.bind (rel_reservedAt h _) ?_; intro r r' hr
    refine Rel.bind (rel_tokAt h _) ?_; rintro t _ rfl
    refine Rel.bind (hW t) ?_; intro w w' hw
    exact rel_ret (LR.append hl (LR.cons hr (LR.single hw.nr)))

theorem rel_list (h : ArgsR f g a₁ a₂) :
    Rel S S (actionCore np₁ "p_list" a₁) (actionCore np₂ "p_list" a₂) (ResR f g) := by
  unfold actionCore; simp only []
  exact rel_ret (slice_rel h 2)

theorem nr_list {sp : Span} {l l' : List Node} (h : LR f g l l') :
    NR f g (.list sp l) (.list sp l') := by nr_close

theorem rel_fin_list (hS : SOK S) {l l' : List Node} (hl : LR f g l l') : Rel S S
    (do let sp ← partsspan l; pure (SVal.node (.list sp l), false) : M (SVal × Bool))
    (do let sp ← partsspan l'; pure (SVal.node (.list sp l'), false) : M (SVal × Bool))
    (ResR f g) := by
  refine Rel.bind (rel_partsspan hS hl) ?_; rintro sp _ rfl
  exact rel_ret (nr_list hl)

theorem rel_head_or_fail {l l' : List Node} (hl : LR f g l l') (site : String) : Rel S S
    (match l.head? with
      | some n => (pure (SVal.node n, false) : M (SVal × Bool))
      | none => M.foreign "IndexError" site)
    (match l'.head? with
      | some n => (pure (SVal.node n, false) : M (SVal × Bool))
      | none => M.foreign "IndexError" site) (ResR f g) := by
  have hh := LR.head? hl
  revert hh
  cases l.head? <;> cases l'.head? <;> simp only [] <;> intro hh <;>
    first | exact hh.elim | exact Rel.foreign_left | exact rel_ret hh

theorem rel_compound_list (hS : SOK S) (h : ArgsR f g a₁ a₂) :
    Rel S S (actionCore np₁ "p_compound_list" a₁) (actionCore np₂ "p_compound_list" a₂) (ResR f g) := by
  unfold actionCore; simp only [pure_bind, len_eq (np₁ := np₁) (np₂ := np₂) h, lexspan_eq (np₁ := np₁) (np₂ := np₂) h, isTok_eq (np₁ := np₁) (np₂ := np₂) h]
  refine Rel.ite' (fun _ => rel_ret (slice_rel h 1)) (fun _ => ?_)
  refine Rel.bind (rel_nodesAt h _ _) ?_; intro l l' hl
  rw [hl.length]
  refine Rel.ite' (fun _ => rel_fin_list hS hl) (fun _ => rel_head_or_fail hl _)

theorem rel_list0 (hS : SOK S) (h : ArgsR f g a₁ a₂) :
    Rel S S (actionCore np₁ "p_list0" a₁) (actionCore np₂ "p_list0" a₂) (ResR f g) := by
  unfold actionCore; simp only [pure_bind, len_eq (np₁ := np₁) (np₂ := np₂) h, lexspan_eq (np₁ := np₁) (np₂ := np₂) h, isTok_eq (np₁ := np₁) (np₂ := np₂) h]
  refine Rel.bind (rel_nodesAt h _ _) ?_; intro l l' hl
  rw [hl.length]
  refine Rel.ite' (fun _ => ?_) (fun _ => rel_head_or_fail hl _)
  refine Rel.bind (rel_operatorAt h _) ?_; intro o o' ho
  exact rel_fin_list hS (LR.append hl (LR.single ho))

theorem rel_list1 (h : ArgsR f g a₁ a₂) :
    Rel S S (actionCore np₁ "p_list1" a₁) (actionCore np₂ "p_list1" a₂) (ResR f g) := by
  unfold actionCore; simp only []
  exact rel_ret_bind (rel_joinLists h _ nr_operator _)

theorem rel_simple_list1 (h : ArgsR f g a₁ a₂) :
    Rel S S (actionCore np₁ "p_simple_list1" a₁) (actionCore np₂ "p_simple_list1" a₂) (ResR f g) := by
  unfold actionCore; simp only []
  exact rel_ret_bind (rel_joinLists h _ nr_operator _)

theorem rel_pipeline (h : ArgsR f g a₁ a₂) :
    Rel S S (actionCore np₁ "p_pipeline" a₁) (actionCore np₂ "p_pipeline" a₂) (ResR f g) := by
  unfold actionCore; simp only []
  exact rel_ret_bind (rel_joinLists h _ nr_pipe _)

theorem rel_simple_list_terminator :
    Rel S S (actionCore np₁ "p_simple_list_terminator" a₁)
      (actionCore np₂ "p_simple_list_terminator" a₂) (ResR f g) := by
  unfold actionCore; simp only []
  exact rel_ret (f := f) (g := g) (v := .none) (v' := .none) trivial

theorem rel_newline_list :
    Rel S S (actionCore np₁ "p_newline_list" a₁) (actionCore np₂ "p_newline_list" a₂) (ResR f g) := by
  unfold actionCore; simp only []
  exact rel_ret (f := f) (g := g) (v := .none) (v' := .none) trivial

theorem rel_empty :
    Rel S S (actionCore np₁ "p_empty" a₁) (actionCore np₂ "p_empty" a₂) (ResR f g) := by
  unfold actionCore; simp only []
  exact rel_ret (f := f) (g := g) (v := .none) (v' := .none) trivial

theorem rel_list_terminator (h : ArgsR f g a₁ a₂) :
    Rel S S (actionCore np₁ "p_list_terminator" a₁) (actionCore np₂ "p_list_terminator" a₂)
      (ResR f g) := by
  unfold actionCore; simp only [pure_bind, len_eq (np₁ := np₁) (np₂ := np₂) h, lexspan_eq (np₁ := np₁) (np₂ := np₂) h, isTok_eq (np₁ := np₁) (np₂ := np₂) h]
  have hn : Rel S S (pure (SVal.none, false) : M (SVal × Bool)) (pure (SVal.none, false)) (ResR f g) :=
    rel_ret (f := f) (g := g) (v := .none) (v' := .none) trivial
  have := slice_rel (np₁ := np₁) (np₂ := np₂) h 1
  revert this
  cases PCtx.slice ⟨np₁, a₁⟩ 1 <;> cases PCtx.slice ⟨np₂, a₂⟩ 1 <;> simp only [SR] <;> intro hs <;>
    first
      | exact hs.elim
      | exact hn
      | (subst hs
         exact Rel.ite' (fun _ => rel_ret (nr_operator _ _)) (fun _ => hn))

theorem rel_accept (hS : SOK S) {v v' : SVal} (hv : SR f g v v') (b : Bool) : Rel S S
    (do let l ← get
        pure (v, b && l.ps.cmdsubst &&
          (match l.eofToken with
           | some e => decide ({ l.currentToken with pos := none } = e)
           | none => false)) : M (SVal × Bool))
    (do let l ← get
        pure (v', b && l.ps.cmdsubst &&
          (match l.eofToken with
           | some e => decide ({ l.currentToken with pos := none } = e)
           | none => false)) : M (SVal × Bool)) (ResR f g) := by
  refine Rel.bind Rel.get ?_
  intro l₁ l₂ hl
  refine Rel.pure ⟨hv, ?_⟩
  have := hS.accept hl
  unfold accCond at this
  simp only [Bool.and_assoc]
  rw [this]

theorem rel_simple_list (hS : SOK S) (h : ArgsR f g a₁ a₂) :
    Rel S S (actionCore np₁ "p_simple_list" a₁) (actionCore np₂ "p_simple_list" a₂) (ResR f g) := by
  unfold actionCore; simp only [pure_bind, len_eq (np₁ := np₁) (np₂ := np₂) h, lexspan_eq (np₁ := np₁) (np₂ := np₂) h, isTok_eq (np₁ := np₁) (np₂ := np₂) h]
  refine Rel.bind hS.gather ?_; intro _ _ _
  refine Rel.bind (rel_nodesAt h _ _) ?_; intro l l' hl
  rw [hl.length]
  refine Rel.ite' (fun _ => Rel.ite' (fun _ => ?_) (fun _ => ?_)) (fun _ => ?_)
  · refine Rel.bind (rel_operatorAt h _) ?_; intro o o' ho
    have hp := LR.append hl (LR.single ho)
    refine Rel.bind (rel_partsspan hS hp) ?_; rintro sp _ rfl
    exact rel_accept hS (v := .node _) (v' := .node _) (nr_list hp) _
  · refine Rel.bind (rel_partsspan hS hl) ?_; rintro sp _ rfl
    exact rel_accept hS (v := .node _) (v' := .node _) (nr_list hl) _
  · cases l with
    | nil => exact Rel.noRet (NoRet.bind_left NoRet.foreign)
    | cons n r =>
      obtain ⟨n', r', rfl, hn, hr⟩ := hl.cons_inv
      cases r with
      | nil =>
        cases hr.nil_inv
        exact rel_accept hS (v := .node _) (v' := .node _) hn _
      | cons m r2 => exact Rel.noRet (NoRet.bind_left NoRet.foreign)

/-- the `BANG …` branch of `p_pipeline_command` -/
def pcElse (bang : Node) (v : SVal) : M (SVal × Bool) :=
  match v with
  | .none => pure (.node (.pipeline bang.pos [bang]), false)
  | .node (.pipeline _ parts) =>
    match (bang :: parts).getLast? with
    | some b => do
      let q ← nodePos b
      pure (.node (.pipeline (bang.pos.1, q.2) (bang :: parts)), false)
    | none => M.foreign "IndexError" "p_pipeline_command"
  | .node n => do
    let q ← nodePos n
    pure (.node (.pipeline (bang.pos.1, q.2) [bang, n]), false)
  | _ => M.foreign "AttributeError" "p_pipeline_command"

theorem pcElse_node (bang : Node) {n : Node} (hn : isPipelineN n = false) :
    pcElse bang (.node n) = (do
      let q ← nodePos n
      pure (.node (.pipeline (bang.pos.1, q.2) [bang, n]), false)) := by
  cases n <;> first | rfl | simp [isPipelineN] at hn

theorem nr_pipeline {sp : Span} {l l' : List Node} (h : LR f g l l') :
    NR f g (.pipeline sp l) (.pipeline sp l') := by nr_close

theorem rel_pcElse (hS : SOK S) (p : Span) {v v' : SVal} (hv : SR f g v v') :
    Rel S S (pcElse (.reservedword p ['!']) v) (pcElse (.reservedword p ['!']) v') (ResR f g) := by
  have hb : NR f g (.reservedword p ['!']) (.reservedword p ['!']) := nr_reserved _ _
  cases v <;> cases v' <;> simp only [SR] at hv <;> try exact hv.elim
  · exact rel_ret (nr_pipeline (LR.single hb))
  · exact Rel.foreign_left
  · rename_i n n'
    by_cases hp : isPipelineN n = true
    · cases n <;> simp [isPipelineN] at hp
      obtain ⟨l', rfl, hl⟩ := hv.pipeline_inv
      simp only [pcElse]
      have hbl := LR.cons hb hl
      have hlast := LR.getLast? hbl
      revert hlast
      cases (reservedword p ['!'] :: _).getLast? <;> cases (reservedword p ['!'] :: l').getLast? <;>
        simp only [] <;> intro hlast <;>
        first
          | exact hlast.elim
          | exact Rel.foreign_left
          | (refine Rel.bind (rel_nodePos hS hlast) ?_; rintro q _ rfl
             exact rel_ret (nr_pipeline hbl))
    · have hp1 : isPipelineN n = false := by simpa using hp
      have hp2 : isPipelineN n' = false := by rw [← hv.isPipelineN]; exact hp1
      rw [pcElse_node _ hp1, pcElse_node _ hp2]
      refine Rel.bind (rel_nodePos hS hv) ?_; rintro q _ rfl
      exact rel_ret (nr_pipeline (LR.cons hb (LR.single hv)))
  · exact Rel.foreign_left

theorem rel_pipeline_command (hS : SOK S) (h : ArgsR f g a₁ a₂) :
    Rel S S (actionCore np₁ "p_pipeline_command" a₁) (actionCore np₂ "p_pipeline_command" a₂)
      (ResR f g) := by
  unfold actionCore; simp only [pure_bind, len_eq (np₁ := np₁) (np₂ := np₂) h, lexspan_eq (np₁ := np₁) (np₂ := np₂) h, isTok_eq (np₁ := np₁) (np₂ := np₂) h]
  refine Rel.ite' (fun _ => ?_) (fun _ => ?_)
  · refine Rel.bind (rel_nodesAt h _ _) ?_; intro l l' hl
    have hgen : ∀ {l l' : List Node}, LR f g l l' → Rel S S
        (match l.head?, l.getLast? with
          | some a, some b => (do
            let p ← nodePos a
            let q ← nodePos b
            pure (SVal.node (.pipeline (p.1, q.2) l), false) : M (SVal × Bool))
          | _, _ => M.foreign "IndexError" "p_pipeline_command")
        (match l'.head?, l'.getLast? with
          | some a, some b => (do
            let p ← nodePos a
            let q ← nodePos b
            pure (SVal.node (.pipeline (p.1, q.2) l'), false) : M (SVal × Bool))
          | _, _ => M.foreign "IndexError" "p_pipeline_command") (ResR f g) := by
      intro l l' hl
      have h1 := LR.head? hl
      have h2 := LR.getLast? hl
      revert h1 h2
      cases l.head? <;> cases l'.head? <;> cases l.getLast? <;> cases l'.getLast? <;>
        simp only [] <;> intro h1 h2 <;>
        first
          | exact h1.elim
          | exact h2.elim
          | exact Rel.foreign_left
          | (refine Rel.bind (rel_nodePos hS h1) ?_; rintro p _ rfl
             refine Rel.bind (rel_nodePos hS h2) ?_; rintro q _ rfl
             exact rel_ret (nr_pipeline hl))
    cases l with
    | nil => cases hl.nil_inv; exact hgen LR.nil
    | cons n r =>
      obtain ⟨n', r', rfl, hn, hr⟩ := hl.cons_inv
      cases r with
      | nil => cases hr.nil_inv; exact rel_ret hn
      | cons m r2 =>
        obtain ⟨m', r2', rfl, hm, hr2⟩ := hr.cons_inv
        exact hgen (LR.cons hn (LR.cons hm hr2))
  · show Rel S S (pcElse _ _) (pcElse _ _) _
    exact rel_pcElse hS _ (slice_rel h 2)

theorem rel_actionCore (hS : SOK S) (hfg : WOK f g)
    (hW : ∀ tok, Rel S S (expandword np₁ tok) (expandword np₂ tok) (WR f g))
    (h : ArgsR f g a₁ a₂) (fname : String) :
    Rel S S (actionCore np₁ fname a₁) (actionCore np₂ fname a₂) (ResR f g) := by
  have hdflt : Rel S S (M.foreign "NotModelled" ("action " ++ fname) : M (SVal × Bool))
      (actionCore np₂ fname a₂) (ResR f g) := Rel.foreign_left
  revert hdflt
  unfold actionCore
  simp only []
  split
  · intro _; exact rel_inputunit hS h
  · intro _; exact rel_word_list hW h
  · intro _; exact rel_redirection_heredoc hS hfg h
  · intro _; exact rel_redirection hW h
  · intro _; exact rel_simple_command_element hW h
  · intro _; exact rel_redirection_list h
  · intro _; exact rel_simple_command h
  · intro _; exact rel_command hS h
  · intro _; exact rel_shell_command hS hW h
  · intro _; exact rel_for_command hS hW h
  · intro _; exact rel_arith_for_command hS hW h
  · intro _; exact rel_select_command hS hW h
  · intro _; exact rel_case_command hS hW h
  · intro _; exact rel_function_def hS hW h
  · intro _; exact rel_function_body hS h
  · intro _; exact rel_subshell hS h
  · intro _; exact rel_group_command hS h
  · intro _; exact rel_coproc hS hW h
  · intro _; exact rel_if_command hS hW h
  · intro _; exact rel_arith_command hS hW h
  · intro _; exact rel_cond_command hS hW h
  · intro _; exact rel_elif_clause (np₁ := np₁) (np₂ := np₂) h
  · intro _; exact rel_case_clause h
  · intro _; exact rel_pattern_list hS h
  · intro _; exact rel_case_clause_sequence h
  · intro _; exact rel_pattern hW h
  · intro _; exact rel_list (np₁ := np₁) (np₂ := np₂) h
  · intro _; exact rel_compound_list hS h
  · intro _; exact rel_list0 hS h
  · intro _; exact rel_list1 h
  · intro _; exact rel_simple_list_terminator (np₁ := np₁) (np₂ := np₂) (a₁ := a₁) (a₂ := a₂)
  · intro _; exact rel_list_terminator h
  · intro _; exact rel_newline_list (np₁ := np₁) (np₂ := np₂) (a₁ := a₁) (a₂ := a₂)
  · intro _; exact rel_simple_list hS h
  · intro _; exact rel_simple_list1 h
  · intro _; exact rel_pipeline_command hS h
  · intro _; exact rel_pipeline h
  · intro _; exact rel_timespec hS hW h
  · intro _; exact rel_empty (np₁ := np₁) (np₂ := np₂) (a₁ := a₁) (a₂ := a₂)
  · intro hd; exact hd

/-- `action` is `actionCore` followed by a dead assertion -/
theorem rel_action (hS : SOK S) (hfg : WOK f g)
    (hW : ∀ tok, Rel S S (expandword np₁ tok) (expandword np₂ tok) (WR f g))
    (h : ArgsR f g a₁ a₂) (fname : String) :
    Rel S S (action np₁ fname a₁) (action np₂ fname a₂) (ResR f g) := by
  unfold action
  refine Rel.bind (rel_actionCore hS hfg hW h fname) ?_
  rintro ⟨v, b⟩ ⟨v', b'⟩ ⟨hv, hb⟩
  simp only [] at hv hb ⊢
  subst hb
  refine Rel.ite' (fun _ => Rel.foreign_left) (fun _ => Rel.pure ⟨hv, rfl⟩)

end
end Bashlex.C16
