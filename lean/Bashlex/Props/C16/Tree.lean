/-
  C16, part 2b: the tree facts the word level needs of the two relations between nested results
  (`pruneLimit k` above the cut, "same skeleton" one level below it): spans of the related tree
  are spans of the original tree, and both relations are stable under shifting.
-/
import Bashlex.Props.C16.MapW

namespace Bashlex.C16
open Bashlex Bashlex.Spec Bashlex.Node
set_option linter.unusedSimpArgs false
set_option linter.unusedVariables false

/-! ## `pruneLimit` and `mapPos` commute -/

theorem mapPosL_append (φ : Span → Span) (a b : List Node) :
    mapPosL φ (a ++ b) = mapPosL φ a ++ mapPosL φ b := by
  induction a with
  | nil => rfl
  | cons x xs ih => simp [mapPosL, ih]

mutual
theorem prune_mapPos (φ : Span → Span) :
    (n : Node) → (k : Nat) → pruneLimit k (mapPos φ n) = mapPos φ (pruneLimit k n)
  | .list _ ps, k | .pipeline _ ps, k | .ifN _ ps, k | .forN _ ps, k | .whileN _ ps, k
  | .untilN _ ps, k | .caseN _ ps, k | .pattern _ ps, k | .command _ ps, k
  | .unimplemented _ ps, k | .function _ _ _ ps, k => by
    simp [pruneLimit, mapPos, pruneL_mapPos φ ps k]
  | .compound _ l r, k => by simp [pruneLimit, mapPos, pruneL_mapPos φ l k, pruneL_mapPos φ r k]
  | .redirect _ _ _ o _ _ _, k => by simp [pruneLimit, mapPos, pruneO_mapPos φ o k]
  | .word _ _ ps, k | .assignment _ _ ps, k => by
    simp [pruneLimit, mapPos, pruneParts_mapPos φ ps k]
  | .commandsubstitution _ c, k | .processsubstitution _ c, k => by
    cases k with
    | zero => simp [pruneLimit, mapPos]
    | succ k' => simp [pruneLimit, mapPos, prune_mapPos φ c k']
  | .operator .., _ | .reservedword .., _ | .pipe .., _ | .parameter .., _ | .tilde .., _
  | .heredoc .., _ => by simp [pruneLimit, mapPos]
theorem pruneL_mapPos (φ : Span → Span) :
    (l : List Node) → (k : Nat) → pruneLimitL k (mapPosL φ l) = mapPosL φ (pruneLimitL k l)
  | [], _ => by simp [pruneLimitL, mapPosL]
  | n :: ns, k => by simp [pruneLimitL, mapPosL, prune_mapPos φ n k, pruneL_mapPos φ ns k]
theorem pruneO_mapPos (φ : Span → Span) :
    (o : Option Node) → (k : Nat) → pruneLimitO k (mapPosO φ o) = mapPosO φ (pruneLimitO k o)
  | none, _ => by simp [pruneLimitO, mapPosO]
  | some n, k => by simp [pruneLimitO, mapPosO, prune_mapPos φ n k]
theorem pruneParts_mapPos (φ : Span → Span) :
    (l : List Node) → (k : Nat) → pruneParts k (mapPosL φ l) = mapPosL φ (pruneParts k l)
  | [], _ => by simp [pruneParts, mapPosL]
  | n :: ns, k => by
    have ih := pruneParts_mapPos φ ns k
    have ihn := prune_mapPos φ n k
    cases n <;> simp only [pruneParts, mapPosL, mapPos, mapPosL_append, ih, List.singleton_append,
      List.nil_append, List.cons_append] <;>
      (cases k <;> simp_all [pruneLimit, mapPos, mapPosL])
end

theorem prune_shift (k b : Nat) (n : Node) : pruneLimit k (n.shift b) = (pruneLimit k n).shift b :=
  prune_mapPos _ n k

/-! ## spans of the pruned tree are spans of the tree -/

mutual
theorem prune_all (P : Span → Bool) :
    (n : Node) → (k : Nat) → (n.preorder.all fun m => P m.pos) = true →
      ((pruneLimit k n).preorder.all fun m => P m.pos) = true
  | .list _ ps, k, h | .pipeline _ ps, k, h | .ifN _ ps, k, h | .forN _ ps, k, h | .whileN _ ps, k, h
  | .untilN _ ps, k, h | .caseN _ ps, k, h | .pattern _ ps, k, h | .command _ ps, k, h
  | .unimplemented _ ps, k, h | .function _ _ _ ps, k, h => by
    simp only [pruneLimit, preorder, List.all_cons, Bool.and_eq_true, Node.pos] at h ⊢
    exact ⟨h.1, pruneL_all P ps k h.2⟩
  | .compound _ l r, k, h => by
    simp only [pruneLimit, preorder, List.all_cons, List.all_append, Bool.and_eq_true, Node.pos] at h ⊢
    exact ⟨h.1, pruneL_all P l k h.2.1, pruneL_all P r k h.2.2⟩
  | .redirect _ _ _ o _ hd _, k, h => by
    simp only [pruneLimit, preorder, List.all_cons, List.all_append, Bool.and_eq_true, Node.pos] at h ⊢
    exact ⟨h.1, pruneO_all P o k h.2.1, h.2.2⟩
  | .word _ _ ps, k, h | .assignment _ _ ps, k, h => by
    simp only [pruneLimit, preorder, List.all_cons, Bool.and_eq_true, Node.pos] at h ⊢
    exact ⟨h.1, pruneParts_all P ps k h.2⟩
  | .commandsubstitution _ c, k, h | .processsubstitution _ c, k, h => by
    cases k with
    | zero => simpa [pruneLimit] using h
    | succ k' =>
      simp only [pruneLimit, preorder, List.all_cons, Bool.and_eq_true, Node.pos] at h ⊢
      exact ⟨h.1, prune_all P c k' h.2⟩
  | .operator .., _, h | .reservedword .., _, h | .pipe .., _, h | .parameter .., _, h
  | .tilde .., _, h | .heredoc .., _, h => by simpa [pruneLimit] using h
theorem pruneL_all (P : Span → Bool) :
    (l : List Node) → (k : Nat) → ((preorderL l).all fun m => P m.pos) = true →
      ((preorderL (pruneLimitL k l)).all fun m => P m.pos) = true
  | [], _, h => by simpa [pruneLimitL] using h
  | n :: ns, k, h => by
    simp only [pruneLimitL, preorderL, List.all_append, Bool.and_eq_true] at h ⊢
    exact ⟨prune_all P n k h.1, pruneL_all P ns k h.2⟩
theorem pruneO_all (P : Span → Bool) :
    (o : Option Node) → (k : Nat) → ((preorderO o).all fun m => P m.pos) = true →
      ((preorderO (pruneLimitO k o)).all fun m => P m.pos) = true
  | none, _, h => by simpa [pruneLimitO] using h
  | some n, k, h => by
    simp only [pruneLimitO, preorderO] at h ⊢
    exact prune_all P n k h
theorem pruneParts_all (P : Span → Bool) :
    (l : List Node) → (k : Nat) → ((preorderL l).all fun m => P m.pos) = true →
      ((preorderL (pruneParts k l)).all fun m => P m.pos) = true
  | [], _, h => by simpa [pruneParts] using h
  | n :: ns, k, h => by
    simp only [preorderL, List.all_append, Bool.and_eq_true] at h
    have ih := pruneParts_all P ns k h.2
    have ihn := prune_all P n k h.1
    have key : ∀ l : List Node, ((preorderL l).all fun m => P m.pos) = true →
        ((preorderL (l ++ pruneParts k ns)).all fun m => P m.pos) = true := by
      intro l hl
      have : ∀ a b : List Node, preorderL (a ++ b) = preorderL a ++ preorderL b := by
        intro a b; induction a with
        | nil => rfl
        | cons x xs ihx => simp [preorderL, ihx]
      rw [this, List.all_append, hl, ih]; rfl
    cases n <;> simp only [pruneParts] <;>
      first
        | exact key _ (by simpa [preorderL] using h.1)
        | (split
           · exact key _ (by simp [preorderL])
           · exact key _ (by simpa [preorderL] using ihn))
end

/-! ## word maps in general -/

mutual
theorem mapW_mapPos (f : WF) (φ : Span → Span)
    (hw : ∀ p w ps, f.word (φ p) w (mapPosL φ ps) = ((f.word p w ps).1, mapPosL φ (f.word p w ps).2))
    (hs : ∀ c, f.sub (mapPos φ c) = mapPos φ (f.sub c)) :
    (n : Node) → mapW f (mapPos φ n) = mapPos φ (mapW f n)
  | .list _ ps | .pipeline _ ps | .ifN _ ps | .forN _ ps | .whileN _ ps | .untilN _ ps
  | .caseN _ ps | .pattern _ ps | .command _ ps | .unimplemented _ ps | .function _ _ _ ps => by
    simp [mapW, mapPos, mapWL_mapPos f φ hw hs ps]
  | .compound _ l r => by
    simp [mapW, mapPos, mapWL_mapPos f φ hw hs l, mapWL_mapPos f φ hw hs r]
  | .redirect _ _ _ o _ _ _ => by simp [mapW, mapPos, mapWO_mapPos f φ hw hs o]
  | .word p w ps | .assignment p w ps => by simp [mapW, mapPos, hw]
  | .commandsubstitution _ c | .processsubstitution _ c => by simp [mapW, mapPos, hs]
  | .operator .. | .reservedword .. | .pipe .. | .parameter .. | .tilde .. | .heredoc .. => by
    simp [mapW, mapPos]
theorem mapWL_mapPos (f : WF) (φ : Span → Span)
    (hw : ∀ p w ps, f.word (φ p) w (mapPosL φ ps) = ((f.word p w ps).1, mapPosL φ (f.word p w ps).2))
    (hs : ∀ c, f.sub (mapPos φ c) = mapPos φ (f.sub c)) :
    (l : List Node) → mapWL f (mapPosL φ l) = mapPosL φ (mapWL f l)
  | [] => by simp [mapPosL]
  | n :: ns => by simp [mapPosL, mapW_mapPos f φ hw hs n, mapWL_mapPos f φ hw hs ns]
theorem mapWO_mapPos (f : WF) (φ : Span → Span)
    (hw : ∀ p w ps, f.word (φ p) w (mapPosL φ ps) = ((f.word p w ps).1, mapPosL φ (f.word p w ps).2))
    (hs : ∀ c, f.sub (mapPos φ c) = mapPos φ (f.sub c)) :
    (o : Option Node) → mapWO f (mapPosO φ o) = mapPosO φ (mapWO f o)
  | none => by simp [mapPosO, mapWO]
  | some n => by simp [mapPosO, mapWO, mapW_mapPos f φ hw hs n]
end

/- spans of the image are spans of the tree, when this holds of the rewritten word parts -/
mutual
theorem mapW_all (f : WF) (P : Span → Bool)
    (hw : ∀ p w ps, ((preorderL ps).all fun m => P m.pos) = true →
      ((preorderL (f.word p w ps).2).all fun m => P m.pos) = true)
    (hs : ∀ c, ((preorder c).all fun m => P m.pos) = true →
      ((preorder (f.sub c)).all fun m => P m.pos) = true) :
    (n : Node) → (n.preorder.all fun m => P m.pos) = true →
      ((mapW f n).preorder.all fun m => P m.pos) = true
  | .list _ ps, h | .pipeline _ ps, h | .ifN _ ps, h | .forN _ ps, h | .whileN _ ps, h
  | .untilN _ ps, h | .caseN _ ps, h | .pattern _ ps, h | .command _ ps, h
  | .unimplemented _ ps, h | .function _ _ _ ps, h => by
    simp only [mapW, preorder, List.all_cons, Bool.and_eq_true, Node.pos] at h ⊢
    exact ⟨h.1, mapWL_all f P hw hs ps h.2⟩
  | .compound _ l r, h => by
    simp only [mapW, preorder, List.all_cons, List.all_append, Bool.and_eq_true, Node.pos] at h ⊢
    exact ⟨h.1, mapWL_all f P hw hs l h.2.1, mapWL_all f P hw hs r h.2.2⟩
  | .redirect _ _ _ o _ hd _, h => by
    simp only [mapW, preorder, List.all_cons, List.all_append, Bool.and_eq_true, Node.pos] at h ⊢
    exact ⟨h.1, mapWO_all f P hw hs o h.2.1, h.2.2⟩
  | .word p w ps, h | .assignment p w ps, h => by
    simp only [mapW, preorder, List.all_cons, Bool.and_eq_true, Node.pos] at h ⊢
    exact ⟨h.1, hw p w ps h.2⟩
  | .commandsubstitution _ c, h | .processsubstitution _ c, h => by
    simp only [mapW, preorder, List.all_cons, Bool.and_eq_true, Node.pos] at h ⊢
    exact ⟨h.1, hs c h.2⟩
  | .operator .., h | .reservedword .., h | .pipe .., h | .parameter .., h
  | .tilde .., h | .heredoc .., h => by simpa [mapW] using h
theorem mapWL_all (f : WF) (P : Span → Bool)
    (hw : ∀ p w ps, ((preorderL ps).all fun m => P m.pos) = true →
      ((preorderL (f.word p w ps).2).all fun m => P m.pos) = true)
    (hs : ∀ c, ((preorder c).all fun m => P m.pos) = true →
      ((preorder (f.sub c)).all fun m => P m.pos) = true) :
    (l : List Node) → ((preorderL l).all fun m => P m.pos) = true →
      ((preorderL (mapWL f l)).all fun m => P m.pos) = true
  | [], h => by simpa using h
  | n :: ns, h => by
    simp only [mapWL_cons, preorderL, List.all_append, Bool.and_eq_true] at h ⊢
    exact ⟨mapW_all f P hw hs n h.1, mapWL_all f P hw hs ns h.2⟩
theorem mapWO_all (f : WF) (P : Span → Bool)
    (hw : ∀ p w ps, ((preorderL ps).all fun m => P m.pos) = true →
      ((preorderL (f.word p w ps).2).all fun m => P m.pos) = true)
    (hs : ∀ c, ((preorder c).all fun m => P m.pos) = true →
      ((preorder (f.sub c)).all fun m => P m.pos) = true) :
    (o : Option Node) → ((preorderO o).all fun m => P m.pos) = true →
      ((preorderO (mapWO f o)).all fun m => P m.pos) = true
  | none, h => by simpa [mapWO] using h
  | some n, h => by
    simp only [mapWO, preorderO] at h ⊢
    exact mapW_all f P hw hs n h
end

/- … and conversely when the word parts are not made smaller -/
mutual
theorem mapW_all_back (f : WF) (P : Span → Bool)
    (hw : ∀ p w ps, ((preorderL (f.word p w ps).2).all fun m => P m.pos) = true →
      ((preorderL ps).all fun m => P m.pos) = true)
    (hs : ∀ c, ((preorder (f.sub c)).all fun m => P m.pos) = true →
      ((preorder c).all fun m => P m.pos) = true) :
    (n : Node) → ((mapW f n).preorder.all fun m => P m.pos) = true →
      (n.preorder.all fun m => P m.pos) = true
  | .list _ ps, h | .pipeline _ ps, h | .ifN _ ps, h | .forN _ ps, h | .whileN _ ps, h
  | .untilN _ ps, h | .caseN _ ps, h | .pattern _ ps, h | .command _ ps, h
  | .unimplemented _ ps, h | .function _ _ _ ps, h => by
    simp only [mapW, preorder, List.all_cons, Bool.and_eq_true, Node.pos] at h ⊢
    exact ⟨h.1, mapWL_all_back f P hw hs ps h.2⟩
  | .compound _ l r, h => by
    simp only [mapW, preorder, List.all_cons, List.all_append, Bool.and_eq_true, Node.pos] at h ⊢
    exact ⟨h.1, mapWL_all_back f P hw hs l h.2.1, mapWL_all_back f P hw hs r h.2.2⟩
  | .redirect _ _ _ o _ hd _, h => by
    simp only [mapW, preorder, List.all_cons, List.all_append, Bool.and_eq_true, Node.pos] at h ⊢
    exact ⟨h.1, mapWO_all_back f P hw hs o h.2.1, h.2.2⟩
  | .word p w ps, h | .assignment p w ps, h => by
    simp only [mapW, preorder, List.all_cons, Bool.and_eq_true, Node.pos] at h ⊢
    exact ⟨h.1, hw p w ps h.2⟩
  | .commandsubstitution _ c, h | .processsubstitution _ c, h => by
    simp only [mapW, preorder, List.all_cons, Bool.and_eq_true, Node.pos] at h ⊢
    exact ⟨h.1, hs c h.2⟩
  | .operator .., h | .reservedword .., h | .pipe .., h | .parameter .., h
  | .tilde .., h | .heredoc .., h => by simpa [mapW] using h
theorem mapWL_all_back (f : WF) (P : Span → Bool)
    (hw : ∀ p w ps, ((preorderL (f.word p w ps).2).all fun m => P m.pos) = true →
      ((preorderL ps).all fun m => P m.pos) = true)
    (hs : ∀ c, ((preorder (f.sub c)).all fun m => P m.pos) = true →
      ((preorder c).all fun m => P m.pos) = true) :
    (l : List Node) → ((preorderL (mapWL f l)).all fun m => P m.pos) = true →
      ((preorderL l).all fun m => P m.pos) = true
  | [], h => by simpa using h
  | n :: ns, h => by
    simp only [mapWL_cons, preorderL, List.all_append, Bool.and_eq_true] at h ⊢
    exact ⟨mapW_all_back f P hw hs n h.1, mapWL_all_back f P hw hs ns h.2⟩
theorem mapWO_all_back (f : WF) (P : Span → Bool)
    (hw : ∀ p w ps, ((preorderL (f.word p w ps).2).all fun m => P m.pos) = true →
      ((preorderL ps).all fun m => P m.pos) = true)
    (hs : ∀ c, ((preorder (f.sub c)).all fun m => P m.pos) = true →
      ((preorder c).all fun m => P m.pos) = true) :
    (o : Option Node) → ((preorderO (mapWO f o)).all fun m => P m.pos) = true →
      ((preorderO o).all fun m => P m.pos) = true
  | none, h => by simpa [mapWO] using h
  | some n, h => by
    simp only [mapWO, preorderO] at h ⊢
    exact mapW_all_back f P hw hs n h
end

/-! ## the skeleton relation (one level below the cut) -/

/-- forget the value and the parts of every word -/
def eraseAll : WF := ⟨fun _ _ _ => ([], []), id⟩
/-- forget the value of every word, keep its parts -/
def eraseVal : WF := ⟨fun _ _ ps => ([], ps), id⟩

/-- `Skel a b`: `b` is `a` with every word replaced by a word without parts (and some value) -/
abbrev Skel : Node → Node → Prop := NR eraseAll eraseVal

theorem skel_bound {a b : Node} (h : Skel a b) (P : Span → Bool)
    (ha : (a.preorder.all fun m => P m.pos) = true) : (b.preorder.all fun m => P m.pos) = true := by
  refine mapW_all_back eraseVal P (fun _ _ _ h => h) (fun _ h => h) b ?_
  rw [← h]
  exact mapW_all eraseAll P (fun _ _ _ _ => rfl) (fun _ h => h) a ha

theorem skel_shift {a b : Node} (h : Skel a b) (k : Nat) : Skel (a.shift k) (b.shift k) := by
  unfold Skel NR Node.shift at *
  rw [mapW_mapPos eraseAll _ (fun _ _ _ => rfl) (fun _ => rfl),
    mapW_mapPos eraseVal _ (fun _ _ _ => rfl) (fun _ => rfl), h]

end Bashlex.C16
