/-
  C16, part 8: the tokenizer neither reads nor writes what the two runs may disagree on.

  `SF P l₁ l₂`: the states agree on `core` (everything but `limit`, `ps.cmdsubst`, `ps.eoftoken`,
  `ps.casestmt`) and their "sides" are related by `P`.  `Fr S m`: the program `m`,
  run twice from `S`-related states, returns the same result and `S`-related states.

  The walk through `Model/Tokenizer.lean` is generic in `P` and in the relation between the
  environments (`EnvRel`); it needs the frame property of the ten tape / option / table primitives
  of `Model/Monad.lean` only (`Prims`).  Two instances:
    * `St j b` with the standard environment relation  →  `FrameHyp.next`, `FrameHyp.gather`;
    * "own tape, fixed options", environments pinned to a reference  →  `FrameHyp.nestedEnv`.
-/
import Bashlex.Props.C16.Run
import Bashlex.Props.C16.FrAttr

namespace Bashlex.C16
open Bashlex Bashlex.M
set_option linter.unusedSimpArgs false
set_option linter.unusedVariables false
set_option linter.unusedSectionVars false

/-- the part of the state the frame does not constrain (plus what decides where the tape and
    the options live) -/
structure Side where
  limit : Option Int
  cmdsubst : Bool
  eofToken : Option Token
  ownTape : Bool
  ownOpts : Bool

def side (l : Local) : Side := ⟨l.limit, l.ps.cmdsubst, l.eofToken, l.tape.isSome, l.opts.isSome⟩

def SF (P : Side → Side → Prop) (l₁ l₂ : Local) : Prop := core l₁ = core l₂ ∧ P (side l₁) (side l₂)

/-- closure under every update whose effect on the core depends on the core only and which
    leaves the side alone -/
theorem SF.upd {P : Side → Side → Prop} {l₁ l₂ : Local} (h : SF P l₁ l₂) (U : Local → Local)
    (h1 : core (U l₁) = core (U (core l₁))) (h2 : core (U l₂) = core (U (core l₂)))
    (s1 : side (U l₁) = side l₁) (s2 : side (U l₂) = side l₂) : SF P (U l₁) (U l₂) := by
  refine ⟨?_, ?_⟩
  · rw [h1, h2, h.1]
  · rw [s1, s2]; exact h.2

/-- run 2's state is run 1's state with four fields overwritten -/
def tw (x : Option Int) (c t z : Bool) (l : Local) : Local :=
  { l with limit := x, ps := { l.ps with cmdsubst := c, eoftoken := t, casestmt := z } }

theorem eq_tw_of_core {l₁ l₂ : Local} (h : core l₁ = core l₂) :
    l₂ = tw l₂.limit l₂.ps.cmdsubst l₂.ps.eoftoken l₂.ps.casestmt l₁ := by
  obtain ⟨tp, op, eol, tta, tbt, lrt, ct, ps, obc, en, ds, pos, eof, rs, st, lim⟩ := l₁
  obtain ⟨tp', op', eol', tta', tbt', lrt', ct', ps', obc', en', ds', pos', eof', rs', st', lim'⟩ := l₂
  obtain ⟨a1, a2, a3, a4, a5, a6, a7, a8, a9, a10, a11, a12, a13⟩ := ps
  obtain ⟨b1, b2, b3, b4, b5, b6, b7, b8, b9, b10, b11, b12, b13⟩ := ps'
  simp only [core, coreP, Local.mk.injEq, PState.mk.injEq] at h
  simp only [tw, Local.mk.injEq, PState.mk.injEq]
  simp_all

theorem SF.tw {P : Side → Side → Prop} {l₁ l₂ : Local} (h : SF P l₁ l₂) :
    ∃ x c t z, l₂ = C16.tw x c t z l₁ := ⟨_, _, _, _, eq_tw_of_core h.1⟩

section
variable [EnvRel] {S : Local → Local → Prop} {α β : Type}

/-- `m` respects the frame -/
def Fr (S : Local → Local → Prop) (m : M α) : Prop := Rel S S m m Eq

@[fr] theorem Fr_pure (a : α) : Fr S (pure a : M α) = True := eq_true (Rel.pure rfl)
@[fr] theorem Fr_raise (x : Exn) : Fr S (M.raise x : M α) = True := eq_true Rel.raise_left
@[fr] theorem Fr_foreign (a b : String) : Fr S (M.foreign a b : M α) = True :=
  eq_true Rel.foreign_left
@[fr] theorem Fr_ite (c : Prop) [Decidable c] (a b : M α) :
    Fr S (if c then a else b) = (if c then Fr S a else Fr S b) := by
  split <;> rfl

theorem Fr.bind {m : M α} {f : α → M β} (hm : Fr S m) (hf : ∀ a, Fr S (f a)) : Fr S (m >>= f) :=
  Rel.bind hm (fun a b hab => by subst hab; exact hf a)

@[fr] theorem Fr_bind (m : M α) (f : α → M β) (hm : Fr S m) (hf : ∀ a, Fr S (f a)) :
    Fr S (m >>= f) = True := eq_true (Fr.bind hm hf)

theorem Fr.loop {σ : Type} {site : String} {body : σ → M (σ ⊕ α)} (h : ∀ s, Fr S (body s))
    (fuel : Nat) (s : σ) : Fr S (M.loop site body fuel s) := by
  refine Rel.loop (I := Eq) (R := Eq) ?_ fuel s s rfl
  rintro s _ rfl
  refine (h s).conseq ?_
  rintro a _ rfl
  cases a <;> exact rfl

@[fr] theorem Fr_loop {σ : Type} (site : String) (body : σ → M (σ ⊕ α)) (fuel : Nat) (s : σ)
    (h : ∀ s, Fr S (body s)) : Fr S (M.loop site body fuel s) = True := eq_true (Fr.loop h fuel s)

theorem Fr.ite {c : Prop} [Decidable c] {a b : M α} (ha : c → Fr S a) (hb : ¬ c → Fr S b) :
    Fr S (if c then a else b) := by
  split
  · exact ha ‹_›
  · exact hb ‹_›

/-- structural walk: `simp` with the frame lemmas closes everything it can see through (join
    points are shared); binds, conditionals and matches it cannot open are taken apart one step
    at a time -/
macro "fr_auto" : tactic => `(tactic| repeat' (first
   | (simp (config := { maxDischargeDepth := 40 }) only [fr, ite_self, forall_const, implies_true, *]; done)
   | (refine Fr.bind ?_ (fun _ => ?_))
   | (refine Fr.loop (fun _ => ?_) _ _)
   | (refine Fr.ite (fun _ => ?_) (fun _ => ?_))
   | split
   | (dsimp only [])))

end

/-! ## the primitives of `Model/Monad.lean` -/

section walk
variable [EnvRel]

/-- the frame property of the primitives that touch the tape, the options or the table -/
class Prims (P : Side → Side → Prop) : Prop where
  getc : ∀ rqn, Fr (SF P) (getc rqn)
  ungetc : ∀ c, Fr (SF P) (ungetc c)
  curIdx : Fr (SF P) curIdx
  bumpIdx : Fr (SF P) bumpIdx
  tapeSource : Fr (SF P) tapeSource
  tapeLine : Fr (SF P) tapeLine
  tapeAdded : Fr (SF P) tapeAdded
  optStrict : Fr (SF P) optStrict
  syn : ∀ c, Fr (SF P) (syn c)

variable {P : Side → Side → Prop} [Prims P]

@[fr] theorem Fr_getc (rqn : Bool) : Fr (SF P) (getc rqn) = True := eq_true (Prims.getc rqn)
@[fr] theorem Fr_ungetc (c : Option Char) : Fr (SF P) (ungetc c) = True := eq_true (Prims.ungetc c)
@[fr] theorem Fr_curIdx : Fr (SF P) curIdx = True := eq_true Prims.curIdx
@[fr] theorem Fr_bumpIdx : Fr (SF P) bumpIdx = True := eq_true Prims.bumpIdx
@[fr] theorem Fr_tapeSource : Fr (SF P) tapeSource = True := eq_true Prims.tapeSource
@[fr] theorem Fr_tapeLine : Fr (SF P) tapeLine = True := eq_true Prims.tapeLine
@[fr] theorem Fr_tapeAdded : Fr (SF P) tapeAdded = True := eq_true Prims.tapeAdded
@[fr] theorem Fr_optStrict : Fr (SF P) optStrict = True := eq_true Prims.optStrict
@[fr] theorem Fr_syn (c : Char) : Fr (SF P) (syn c) = True := eq_true (Prims.syn c)

omit [Prims P] in
/-- `modify` by an update that respects the core and leaves the side alone -/
theorem Fr.modify (U : Local → Local) (h1 : ∀ l, core (U l) = core (U (core l)))
    (hs : ∀ l, side (U l) = side l) : Fr (SF P) (modify U : M Unit) :=
  (Rel.modify (fun l₁ l₂ h => h.upd U (h1 _) (h1 _) (hs _) (hs _))).conseq (fun _ _ _ => rfl)

@[fr] theorem Fr_shellmeta (c : Char) : Fr (SF P) (shellmeta c) = True :=
  eq_true (by unfold shellmeta; fr_auto)
@[fr] theorem Fr_shellquote (c : Char) : Fr (SF P) (shellquote c) = True :=
  eq_true (by unfold shellquote; fr_auto)
@[fr] theorem Fr_shellexp (c : Char) : Fr (SF P) (shellexp c) = True :=
  eq_true (by unfold shellexp; fr_auto)
@[fr] theorem Fr_shellbreak (c : Char) : Fr (SF P) (shellbreak c) = True :=
  eq_true (by unfold shellbreak; fr_auto)
@[fr] theorem Fr_peekc (rqn : Bool) : Fr (SF P) (peekc rqn) = True :=
  eq_true (by unfold peekc; fr_auto)
@[fr] theorem Fr_matchedPairError (c : Char) : Fr (SF P) (matchedPairError c : M α) = True :=
  eq_true (by unfold matchedPairError; fr_auto)

@[fr] theorem Fr_recordpos (rel : Nat) : Fr (SF P) (recordpos rel) = True := by
  refine eq_true ?_
  unfold recordpos
  refine Fr.bind Prims.curIdx (fun i => ?_)
  exact Fr.modify _ (fun _ => rfl) (fun _ => rfl)

@[fr] theorem Fr_loopFuel : Fr (SF P) loopFuel = True := eq_true (by unfold loopFuel; fr_auto)
@[fr] theorem Fr_depthFuel : Fr (SF P) depthFuel = True := eq_true (by unfold depthFuel; fr_auto)

/-! ## tokenizer.readline, the delimiter stack -/

@[fr] theorem Fr_readline (b : Bool) : Fr (SF P) (readline b) = True :=
  eq_true (by unfold readline; fr_auto)

@[fr] theorem Fr_pushDelimiter (c : Char) : Fr (SF P) (pushDelimiter c) = True :=
  eq_true (Fr.modify _ (fun _ => rfl) (fun _ => rfl))

omit [Prims P] in
theorem Fr.get_bind {k : Local → M α}
    (h : ∀ l₁ l₂, SF P l₁ l₂ → Rel (SF P) (SF P) (k l₁) (k l₂) Eq) :
    Fr (SF P) (MonadState.get >>= k) := Rel.bind Rel.get h

omit [Prims P] in
theorem Rel.setU {a b : Local} (h : SF P a b) :
    Rel (SF P) (SF P) (MonadStateOf.set a : M Unit) (MonadStateOf.set b : M Unit) Eq :=
  (Rel.set h).conseq (fun _ _ _ => rfl)

@[fr] theorem Fr_popDelimiter : Fr (SF P) popDelimiter = True := by
  refine eq_true ?_
  unfold popDelimiter
  refine Fr.get_bind ?_
  intro l₁ l₂ hl
  obtain ⟨x, c, t, z, rfl⟩ := hl.tw
  dsimp only [tw]
  refine Rel.ite' (fun _ => Rel.noRet (NoRet.bind_left NoRet.foreign)) (fun _ => ?_)
  exact Rel.setU ⟨rfl, hl.2⟩

@[fr] theorem Fr_currentDelimiter : Fr (SF P) currentDelimiter = True := by
  refine eq_true ?_
  unfold currentDelimiter
  refine Fr.get_bind ?_
  intro l₁ l₂ hl
  obtain ⟨x, c, t, z, rfl⟩ := hl.tw
  exact Rel.pure rfl

/-! ## `_parse_matched_pair`, `_parse_comsub` -/

@[fr] theorem Fr_mpInit (Q : MPParams) : Fr (SF P) (mpInit Q) = True :=
  eq_true (by unfold mpInit; fr_auto)

@[fr] theorem Fr_mpPre (Q : MPParams) (b : Bool) (st : MPState) : Fr (SF P) (mpPre Q b st) = True :=
  eq_true (by unfold mpPre; fr_auto)

@[fr] theorem Fr_handledollarword {pmp : MPParams → M Str} {pcs : CSParams → M Str}
    (hpmp : ∀ Q, Fr (SF P) (pmp Q)) (hpcs : ∀ Q, Fr (SF P) (pcs Q)) (Q : MPParams) (rd : Bool)
    (c : Char) : Fr (SF P) (handledollarword pmp pcs Q rd c) = True :=
  eq_true (by unfold handledollarword; fr_auto)

@[fr] theorem Fr_mpPost {pmp : MPParams → M Str} {pcs : CSParams → M Str}
    (hpmp : ∀ Q, Fr (SF P) (pmp Q)) (hpcs : ∀ Q, Fr (SF P) (pcs Q)) (Q : MPParams) (rd : Bool)
    (st : MPState) (c : Char) : Fr (SF P) (mpPost pmp pcs Q rd st c) = True :=
  eq_true (by unfold mpPost; fr_auto)

@[fr] theorem Fr_csDelimMatches (st : CSState) : Fr (SF P) (csDelimMatches st) = True :=
  eq_true (by unfold csDelimMatches; fr_auto)

@[fr] theorem Fr_csA (Q : CSParams) (st : CSState) : Fr (SF P) (csA Q st) = True :=
  eq_true (by unfold csA; fr_auto)

@[fr] theorem Fr_csB (b : Bool) (st : CSState) (c : Char) : Fr (SF P) (csB b st c) = True :=
  eq_true (by unfold csB; fr_auto)

@[fr] theorem Fr_csC (Q : CSParams) (b : Bool) (st : CSState) (c : Char) :
    Fr (SF P) (csC Q b st c) = True :=
  eq_true (by unfold csC; fr_auto)

@[fr] theorem Fr_csD (Q : CSParams) (st : CSState) (c : Char) : Fr (SF P) (csD Q st c) = True :=
  eq_true (by unfold csD; fr_auto)

@[fr] theorem Fr_csPre (Q : CSParams) (b : Bool) (st : CSState) : Fr (SF P) (csPre Q b st) = True :=
  eq_true (by unfold csPre; fr_auto)

@[fr] theorem Fr_csPost {pmp : MPParams → M Str} {pcs : CSParams → M Str}
    (hpmp : ∀ Q, Fr (SF P) (pmp Q)) (hpcs : ∀ Q, Fr (SF P) (pcs Q)) (Q : CSParams)
    (st : CSState) (c : Char) : Fr (SF P) (csPost pmp pcs Q st c) = True :=
  eq_true (by unfold csPost; fr_auto)

theorem Fr_parse_pair : ∀ fuel : Nat,
    (∀ Q, Fr (SF P) (parseMatchedPair fuel Q)) ∧ (∀ Q, Fr (SF P) (parseComsub fuel Q)) := by
  intro fuel
  induction fuel with
  | zero =>
    refine ⟨fun Q => ?_, fun Q => ?_⟩
    · rw [parseMatchedPair]; exact Rel.raise_left
    · rw [parseComsub]; exact Rel.raise_left
  | succ fuel ih =>
    obtain ⟨ih1, ih2⟩ := ih
    refine ⟨fun Q => ?_, fun Q => ?_⟩
    · rw [parseMatchedPair]
      fr_auto
    · rw [parseComsub]
      fr_auto

@[fr] theorem Fr_parseMatchedPair (fuel : Nat) (Q : MPParams) :
    Fr (SF P) (parseMatchedPair fuel Q) = True := eq_true ((Fr_parse_pair fuel).1 Q)
@[fr] theorem Fr_parseComsub (fuel : Nat) (Q : CSParams) :
    Fr (SF P) (parseComsub fuel Q) = True := eq_true ((Fr_parse_pair fuel).2 Q)

/-! ## functions that read or write the state directly -/

omit [Prims P] in
theorem Rel.bindEq {S S' S'' : Local → Local → Prop} {m₁ m₂ : M α} {f g : α → M β}
    {R : β → β → Prop} (hm : Rel S S' m₁ m₂ Eq) (hf : ∀ a, Rel S' S'' (f a) (g a) R) :
    Rel S S'' (m₁ >>= f) (m₂ >>= g) R :=
  Rel.bind hm (fun a b h => by subst h; exact hf a)

omit [Prims P] in
theorem Rel.bindEqS {S : Local → Local → Prop} {m₁ m₂ : M α} {f g : α → M β}
    {R : β → β → Prop} (hm : Rel S S m₁ m₂ Eq) (hf : ∀ a, Rel S S (f a) (g a) R) :
    Rel S S (m₁ >>= f) (m₂ >>= g) R := Rel.bindEq hm hf

omit [Prims P] in
theorem Rel.loopS {σ : Type} {S : Local → Local → Prop} {site : String} {body : σ → M (σ ⊕ α)}
    (h : ∀ s, Rel S S (body s) (body s) Eq) (fuel : Nat) (s : σ) :
    Rel S S (M.loop site body fuel s) (M.loop site body fuel s) Eq := Fr.loop h fuel s

/-- read the state: run 2's value is run 1's with four fields overwritten; after `dsimp` the two
    programs differ in the arguments of `set` only -/
macro "fr_get" : tactic => `(tactic| (
  refine Rel.bind Rel.get ?_
  intro l₁ l₂ hl
  obtain ⟨x, c, t, z, h⟩ := SF.tw hl
  subst h
  have hP := hl.2
  dsimp only [tw]))

open Lean Elab Tactic Meta in
/-- succeed iff the first program of the goal `Rel S S' m₁ m₂ R` has head constant `n` -/
elab "prog_head " n:ident : tactic => do
  let g := (← instantiateMVars (← getMainTarget)).cleanupAnnotations
  let args := g.getAppArgs
  unless g.getAppFn.isConstOf ``Rel && args.size == 8 do throwError "not a Rel goal"
  let m₁ := args[5]!.cleanupAnnotations
  let c ← realizeGlobalConstNoOverloadWithInfo n
  unless m₁.getAppFn.isConstOf c do throwError "head mismatch"

open Lean Elab Tactic Meta in
/-- succeed iff the first program is `m >>= f` and `m` has head constant `n` -/
elab "bind_head " n:ident : tactic => do
  let g := (← instantiateMVars (← getMainTarget)).cleanupAnnotations
  let args := g.getAppArgs
  unless g.getAppFn.isConstOf ``Rel && args.size == 8 do throwError "not a Rel goal"
  let m₁ := args[5]!.cleanupAnnotations
  unless m₁.getAppFn.isConstOf ``Bind.bind && m₁.getAppNumArgs == 6 do throwError "not a bind"
  let m := m₁.getAppArgs[4]!.cleanupAnnotations
  let c ← realizeGlobalConstNoOverloadWithInfo n
  unless m.getAppFn.isConstOf c do throwError "head mismatch"

open Lean Elab Tactic Meta in
/-- instantiate the `have`s at the head of the two programs (and nothing below) -/
elab "zeta_head" : tactic => do
  let g := (← instantiateMVars (← getMainTarget)).cleanupAnnotations
  let args := g.getAppArgs
  unless g.getAppFn.isConstOf ``Rel && args.size == 8 do throwError "not a Rel goal"
  let strip (e : Expr) : Expr :=
    match e.cleanupAnnotations with
    | .letE _ _ v b _ => (b.instantiate1 v).headBeta
    | e' => e'.headBeta
  let m₁ := args[5]!.cleanupAnnotations
  unless m₁.isLet || m₁.isHeadBetaTarget do throwError "no let or beta-redex at the head"
  let args := (args.set! 5 (strip args[5]!)).set! 6 (strip args[6]!)
  let g' := mkAppN g.getAppFn args
  let mv ← (← getMainGoal).change g'
  replaceMainGoal [mv]

/-- one step of the two-sided walk -/
macro "rel2s" : tactic => `(tactic| (first
  | (prog_head Pure.pure; exact Rel.pure rfl)
  | (prog_head M.raise; exact Rel.raise_left)
  | (prog_head M.foreign; exact Rel.foreign_left)
  | (prog_head MonadStateOf.set; exact Rel.setU ⟨rfl, by assumption⟩)
  | (prog_head modify; refine Fr.modify _ ?_ ?_ <;> (intro _; rfl))
  | (prog_head ite; refine Rel.ite' (fun _ => ?_) (fun _ => ?_))
  | (bind_head M.foreign; exact Rel.noRet (NoRet.bind_left NoRet.foreign))
  | (bind_head M.raise; exact Rel.noRet (NoRet.bind_left NoRet.raise))
  | (bind_head MonadStateOf.set
     refine Rel.bind (Rel.setU ?_) ?_
     (exact ⟨rfl, by assumption⟩)
     (rintro _ _ _))
  | (bind_head modify
     refine Rel.bindEq (Fr.modify _ ?_ ?_) (fun _ => ?_)
     (intro _; rfl)
     (intro _; rfl))
  | (bind_head MonadState.get; fr_get)
  | (prog_head Bind.bind; refine Rel.bindEqS ?_ (fun _ => ?_))
  | (prog_head M.loop; refine Rel.loopS (fun _ => ?_) _ _)
  | zeta_head
  | split
  | (show Fr (SF _) _
     simp (config := { maxDischargeDepth := 40 }) only [fr, ite_self, forall_const, implies_true, *]
     done)))

/-- two-sided walk: dispatch on the head of the first program -/
macro "rel2" : tactic => `(tactic| repeat' rel2s)

/-! ## tokens -/

@[fr] theorem Fr_createtoken (ty : TokType) (v : TVal) (fl : WordFlags) :
    Fr (SF P) (createtoken ty v fl) = True := by
  refine eq_true ?_
  unfold createtoken Fr
  rel2

@[fr] theorem Fr_isAssignment (v : Str) : Fr (SF P) (isAssignment v) = True :=
  eq_true (by unfold isAssignment; fr_auto)
@[fr] theorem Fr_specialcasetokens (v : Str) : Fr (SF P) (specialcasetokens v) = True := by
  refine eq_true ?_
  unfold specialcasetokens Fr
  rel2

@[fr] theorem Fr_handleshellquote (st : RWState) (c : Char) :
    Fr (SF P) (handleshellquote st c) = True :=
  eq_true (by unfold handleshellquote; fr_auto)

@[fr] theorem Fr_handleshellexp (st : RWState) (c : Char) (cd : Option Char) :
    Fr (SF P) (handleshellexp st c cd) = True :=
  eq_true (by unfold handleshellexp; fr_auto)

@[fr] theorem Fr_readtokenwordStep (st : RWState) : Fr (SF P) (readtokenwordStep st) = True :=
  eq_true (by unfold readtokenwordStep; fr_auto)

@[fr] theorem Fr_finishWord (st : RWState) : Fr (SF P) (finishWord st) = True := by
  refine eq_true ?_
  unfold finishWord Fr
  rel2

@[fr] theorem Fr_readtokenword (c : Char) : Fr (SF P) (readtokenword c) = True :=
  eq_true (by unfold readtokenword; fr_auto)

@[fr] theorem Fr_discardUntil (c : Char) : Fr (SF P) (discardUntil c) = True :=
  eq_true (by unfold discardUntil; fr_auto)

@[fr] theorem Fr_tokentypeOfChar (c : Char) : Fr (SF P) (tokentypeOfChar c) = True :=
  eq_true (by unfold tokentypeOfChar; fr_auto)


/-! ## here-documents -/

@[fr] theorem Fr_makeheredoc (id : Nat) (k : Bool) : Fr (SF P) (makeheredoc id k) = True := by
  refine eq_true ?_
  unfold makeheredoc Fr
  rel2

@[fr] theorem Fr_gatherheredocuments : Fr (SF P) gatherheredocuments = True := by
  refine eq_true ?_
  unfold gatherheredocuments Fr
  rel2

/-! ## `_readtoken`, `token` -/

@[fr] theorem Fr_readtokenMeta (ch : Char) : Fr (SF P) (readtokenMeta ch) = True := by
  refine eq_true ?_
  unfold readtokenMeta Fr
  rel2

@[fr] theorem Fr_readtoken : Fr (SF P) readtoken = True := by
  refine eq_true ?_
  unfold readtoken Fr
  rel2

theorem Fr_nextToken : Fr (SF P) nextToken := by
  unfold nextToken Fr
  rel2

end walk

end Bashlex.C16
