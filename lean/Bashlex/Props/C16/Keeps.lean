/-
  C16, part 6a: programs that leave the local state (up to the flags no tokenizer function reads)
  and the environment (up to the shared store) alone.  Used one level below the cut, where the
  limited run does not expand words at all while the unlimited run does.
-/
import Bashlex.Props.C16.Run

namespace Bashlex.C16
open Bashlex Bashlex.Spec Bashlex.Node Bashlex.M Bashlex.LR
set_option linter.unusedSimpArgs false
set_option linter.unusedVariables false
attribute [local instance] stdEnvRel

/-- the local state after is the state before, up to CMDSUBST (which may get set) and EOFTOKEN -/
def Pres (l l' : Local) : Prop :=
  core l = core l' ∧ l.limit = l'.limit ∧ (l.ps.cmdsubst = true → l'.ps.cmdsubst = true)

theorem Pres.refl (l : Local) : Pres l l := ⟨rfl, rfl, id⟩
theorem Pres.trans {a b c : Local} (h : Pres a b) (h' : Pres b c) : Pres a c :=
  ⟨h.1.trans h'.1, h.2.1.trans h'.2.1, fun x => h'.2.2 (h.2.2 x)⟩

/-- started in an unlimited parser, a normal return of `m` keeps state and environment and
    satisfies `P` -/
def Keeps {α : Type} (m : M α) (P : α → Prop) : Prop :=
  ∀ l e a l' e', l.limit = none → m.run l e = (.ok (a, l'), e') → Pres l l' ∧ EnvR e e' ∧ P a

variable {α β : Type}

theorem Keeps.pure {P : α → Prop} {a : α} (h : P a) : Keeps (Pure.pure a : M α) P := by
  intro l e a' l' e' _ hr
  rw [run_pure] at hr; cases hr
  exact ⟨Pres.refl _, EnvR.refl _, h⟩

theorem Keeps.noRet {m : M α} {P : α → Prop} (h : NoRet m) : Keeps m P := by
  intro l e a l' e' _ hr
  exact absurd hr (h _ _ _ _ _)

theorem Keeps.bind {m : M α} {f : α → M β} {P : α → Prop} {Q : β → Prop}
    (hm : Keeps m P) (hf : ∀ a, P a → Keeps (f a) Q) : Keeps (m >>= f) Q := by
  intro l e b l'' e'' hl hr
  rw [run_bind] at hr
  rcases h1 : m.run l e with ⟨r, e'⟩
  rw [h1] at hr
  cases r with
  | error x => cases hr
  | ok v =>
    obtain ⟨a, l'⟩ := v
    simp only [] at hr
    obtain ⟨p1, q1, pa⟩ := hm l e a l' e' hl h1
    obtain ⟨p2, q2, pb⟩ := hf a pa l' e' b l'' e'' (by rw [← p1.2.1]; exact hl) hr
    exact ⟨p1.trans p2, q1.trans q2, pb⟩

theorem Keeps.weaken {m : M α} {P Q : α → Prop} (h : Keeps m P) (hPQ : ∀ a, P a → Q a) :
    Keeps m Q := by
  intro l e a l' e' hl hr
  obtain ⟨p, q, pa⟩ := h l e a l' e' hl hr
  exact ⟨p, q, hPQ a pa⟩

theorem Keeps.get_bind {f : Local → M β} {Q : β → Prop}
    (hf : ∀ l, l.limit = none → Keeps (f l) Q) : Keeps (MonadState.get >>= f) Q := by
  intro l e b l' e' hl hr
  rw [run_bind] at hr
  have : (MonadState.get : M Local).run l e = (.ok (l, l), e) := rfl
  rw [this] at hr
  exact hf l hl l e b l' e' hl hr

theorem Keeps.ite {c : Prop} [Decidable c] {a b : M α} {P : α → Prop}
    (ha : c → Keeps a P) (hb : ¬ c → Keeps b P) : Keeps (if c then a else b) P := by
  split
  · exact ha ‹_›
  · exact hb ‹_›

theorem Keeps.loop {σ : Type} {site : String} {body : σ → M (σ ⊕ α)} {P : α → Prop}
    (hbody : ∀ s, Keeps (body s) (Sum.elim (fun _ => True) P)) :
    ∀ fuel s, Keeps (M.loop site body fuel s) P := by
  intro fuel
  induction fuel with
  | zero => intro s; exact Keeps.noRet NoRet.raise
  | succ n ih =>
    intro s
    show Keeps (body s >>= _) P
    refine Keeps.bind (hbody s) ?_
    intro r hr
    cases r with
    | inl s' => exact ih s'
    | inr a => exact Keeps.pure hr

/-! ### word expansion over a nested parser that keeps everything -/

def NPKeeps (np : NestedParse) : Prop := ∀ s d, Keeps (np s d) (fun _ => True)

theorem keeps_adjustpositions (n : Node) (base lim : Nat) :
    Keeps (adjustpositions n base lim) (fun _ => True) := by
  unfold adjustpositions
  split
  · exact Keeps.pure trivial
  · exact Keeps.noRet NoRet.foreign

theorem keeps_recursiveparse {np : NestedParse} (hnp : NPKeeps np) (base : Str) (si : Nat) (d : Bool) :
    Keeps (recursiveparse np base si d) (fun _ => True) := by
  unfold recursiveparse
  refine Keeps.bind (hnp _ _) (fun r _ => ?_)
  cases r with
  | none => exact Keeps.noRet NoRet.foreign
  | some node =>
    simp only []
    exact Keeps.bind (keeps_adjustpositions _ _ _) (fun _ _ => Keeps.pure trivial)

theorem keeps_parsedolparen {np : NestedParse} (hnp : NPKeeps np) (base : Str) (si : Nat) :
    Keeps (parsedolparen np base si) (fun _ => True) := by
  unfold parsedolparen
  simp only []
  refine Keeps.bind (keeps_recursiveparse hnp _ _ _) (fun r _ => ?_)
  obtain ⟨node, endp⟩ := r
  simp only []
  split
  · exact Keeps.noRet NoRet.foreign
  · exact Keeps.pure trivial

theorem keeps_paramexpand {np : NestedParse} (hnp : NPKeeps np) (string : Str) (si : Nat) :
    Keeps (paramexpand np string si) (fun _ => True) := by
  unfold paramexpand
  simp only []
  split
  · exact Keeps.pure trivial
  · refine Keeps.ite (fun _ => Keeps.pure trivial) (fun _ => ?_)
    refine Keeps.ite (fun _ => ?_) (fun _ => ?_)
    · split <;> exact Keeps.pure trivial
    refine Keeps.ite (fun _ => ?_) (fun _ => ?_)
    · split
      · exact Keeps.noRet NoRet.foreign
      · refine Keeps.ite (fun _ => Keeps.noRet NoRet.raise) (fun _ => ?_)
        exact Keeps.bind (keeps_parsedolparen hnp _ _) (fun _ _ => Keeps.pure trivial)
    exact Keeps.ite (fun _ => Keeps.noRet NoRet.raise) (fun _ => Keeps.pure trivial)

theorem keeps_expandStep {np : NestedParse} (hnp : NPKeeps np) (tok : Token) (string : Str)
    (qd : Bool) (st : ExpSt) :
    Keeps (expandStep np tok string qd st) (Sum.elim (fun _ => True) (fun _ => True)) := by
  unfold expandStep
  simp only []
  have tt : ∀ x : ExpSt ⊕ (List Node × Str × Bool),
      Sum.elim (fun _ => True) (fun _ => True) x := by intro x; cases x <;> trivial
  have hp : ∀ x : ExpSt ⊕ (List Node × Str × Bool),
      Keeps (Pure.pure x : M _) (Sum.elim (fun _ => True) (fun _ => True)) :=
    fun x => Keeps.pure (tt x)
  refine Keeps.ite (fun _ => hp _) (fun _ => ?_)
  split
  · exact Keeps.noRet NoRet.foreign
  refine Keeps.ite (fun _ => Keeps.ite (fun _ => hp _) (fun _ => ?_)) (fun _ => ?_)
  · exact Keeps.bind (keeps_parsedolparen hnp _ _) (fun _ _ => hp _)
  refine Keeps.ite (fun _ => Keeps.ite (fun _ => hp _) (fun _ => hp _)) (fun _ => ?_)
  refine Keeps.ite (fun _ => ?_) (fun _ => ?_)
  · exact Keeps.bind (keeps_paramexpand hnp _ _) (fun _ _ => hp _)
  refine Keeps.ite (fun _ => Keeps.ite (fun _ => hp _) (fun _ => ?_)) (fun _ => ?_)
  · split
    · exact Keeps.noRet (NoRet.bind_right (fun _ => NoRet.raise))
    · refine Keeps.bind (keeps_recursiveparse hnp _ _ _) (fun _ _ => ?_)
      exact Keeps.bind (keeps_adjustpositions _ _ _) (fun _ _ => hp _)
  refine Keeps.ite (fun _ => hp _) (fun _ => ?_)
  refine Keeps.ite (fun _ => hp _) (fun _ => ?_)
  exact Keeps.ite (fun _ => Keeps.ite (fun _ => hp _) (fun _ => Keeps.ite (fun _ => hp _)
    (fun _ => hp _))) (fun _ => hp _)

theorem keeps_expandwordinternal {np : NestedParse} (hnp : NPKeeps np) (tok : Token) (qd : Bool) :
    Keeps (expandwordinternal np tok qd) (fun _ => True) := by
  unfold expandwordinternal
  simp only []
  refine Keeps.bind (Keeps.loop (P := fun _ => True)
    (fun st => keeps_expandStep hnp tok _ qd st) _ _) ?_
  rintro ⟨parts, istring, early⟩ _
  simp only []
  refine Keeps.ite (fun _ => Keeps.pure trivial) (fun _ => Keeps.ite (fun _ => ?_)
    (fun _ => Keeps.pure trivial))
  exact Keeps.noRet (NoRet.bind_left NoRet.foreign)

/-- the unlimited `expandword` over such a nested parser -/
theorem keeps_expandword {np : NestedParse} (hnp : NPKeeps np) (tok : Token) :
    Keeps (expandword np tok)
      (fun w => ∃ v ps, w = .word (tok.lexpos, tok.endlexpos) v ps) := by
  rw [expandword_eq]
  refine Keeps.get_bind ?_
  intro l hl
  rw [hl]
  unfold expandwordWith
  simp only []
  have hfin : ∀ qd, Keeps (do
      let x ← expandwordinternal np tok qd
      Pure.pure (word (tok.lexpos, tok.endlexpos) x.snd
        (if ((none : Option Int) == some 0) = true then List.filter (fun n => !isSubstitution n) x.fst
         else x.fst)) : M Node)
      (fun w => ∃ v ps, w = .word (tok.lexpos, tok.endlexpos) v ps) := by
    intro qd
    exact Keeps.bind (keeps_expandwordinternal hnp tok qd) (fun r _ => Keeps.pure ⟨_, _, rfl⟩)
  refine Keeps.ite (fun h => by simp at h) (fun _ => ?_)
  refine Keeps.ite (fun _ => ?_) (fun _ => ?_)
  · split
    · exact Keeps.noRet (NoRet.bind_left NoRet.foreign)
    · exact Keeps.bind (Keeps.pure (P := fun _ => True) trivial) (fun _ _ => hfin _)
  · exact Keeps.bind (Keeps.pure (P := fun _ => True) trivial) (fun _ _ => hfin _)

/-! ### the checked nested parser keeps everything -/

theorem run_get (l : Local) (e : Env) : (MonadState.get : M Local).run l e = (.ok (l, l), e) := rfl
theorem run_set (k l : Local) (e : Env) : (MonadStateOf.set k : M Unit).run l e = (.ok ((), k), e) := rfl

theorem npI_run_inv {chk : Bool} {rec : M (Option Node)} {s : Str} {d : Bool} {l l' : Local}
    {e e' : Env} {r : Option Node} (h : (npI chk rec s d).run l e = (.ok (r, l'), e')) :
    ∃ inner, rec.run (nestedInit l s d) e = (.ok (r, inner), e') ∧
      (chk = true → flagsKept l.ps inner.ps = true) ∧ l' = { l with ps := inner.ps } := by
  unfold npI at h
  rw [run_bind, run_get] at h
  simp only [] at h
  rw [run_bind, run_set] at h
  simp only [] at h
  rw [run_bind] at h
  rcases h1 : rec.run (nestedInit l s d) e with ⟨x, e1⟩
  rw [h1] at h
  cases x with
  | error x => cases h
  | ok v =>
    obtain ⟨r1, inner⟩ := v
    simp only [] at h
    rw [run_bind, run_get] at h
    simp only [] at h
    by_cases hc : (chk && !flagsKept l.ps inner.ps) = true
    · rw [if_pos hc, run_bind] at h
      have : (M.foreign "FlagLeak" "nested parse below the limit" : M PUnit).run inner e1 =
        (.error (.foreign "FlagLeak" "nested parse below the limit"), e1) := rfl
      rw [this] at h
      cases h
    · rw [if_neg hc, run_bind, run_set] at h
      simp only [] at h
      rw [run_pure] at h
      cases h
      refine ⟨inner, rfl, ?_, rfl⟩
      intro hchk
      subst hchk
      simpa using hc

theorem pres_of_flagsKept {l : Local} {p : PState} (h : flagsKept l.ps p = true) :
    Pres l { l with ps := p } := by
  unfold flagsKept at h
  simp only [Bool.and_eq_true, beq_iff_eq, Bool.or_eq_true, Bool.not_eq_true'] at h
  refine ⟨?_, rfl, ?_⟩
  · show core l = { core l with ps := coreP p }
    rw [h.1]
    rfl
  · intro hc
    rcases h.2 with h2 | h2
    · rw [hc] at h2; cases h2
    · exact h2

/-- with the check on, the nested parser keeps state and environment -/
theorem npI_keeps (hF : FrameHyp) (j : Int) (depth : Nat) : NPKeeps (npI true (parserRunI j depth)) := by
  intro s d l e r l' e' hl hr
  obtain ⟨inner, h1, h2, rfl⟩ := npI_run_inv hr
  refine ⟨pres_of_flagsKept (h2 rfl), ?_, trivial⟩
  obtain ⟨r2, l2, e2, h3, _, _, h4⟩ :=
    parserRunI_plain depth j _ _ e e rfl (EnvR.refl e) _ _ _ h1
  have := hF.nestedEnv depth _ e r2 l2 e2 rfl rfl h3
  exact this.trans h4.symm

end Bashlex.C16
