/-
  C16, part 6: one parser run at every nesting depth, in the unlimited (instrumented) run and in
  the run with `expansionlimit`.
-/
import Bashlex.Props.C16.Actions
import Bashlex.Props.C16.Engine
import Bashlex.Props.C16.Tree
import Bashlex.Model.Parse

namespace Bashlex.C16
open Bashlex Bashlex.Spec Bashlex.Node Bashlex.M Bashlex.LR
set_option linter.unusedSimpArgs false
set_option linter.unusedVariables false

/-! ## the relation between the local states of the two runs -/

/-- erase the three flags no tokenizer function reads (`eoftoken` is only ever reset, `casestmt`
    only ever written) -/
def coreP (p : PState) : PState :=
  { p with cmdsubst := false, eoftoken := false, casestmt := false }

/-- what the two runs agree on: everything but `limit`, `ps.cmdsubst`, `ps.eoftoken`,
    `ps.casestmt` -/
def core (l : Local) : Local := { l with limit := none, ps := coreP l.ps }

/-- `St j b`: run 1 is unlimited, run 2 has `expansionlimit = j`; the states agree on `core`;
    `b = true`: a `$(…)` parser or a parser nested in one (CMDSUBST set in both runs);
    `b = false`: no end-of-input token (top level, back-quote parsers outside any `$(…)`) -/
def St (j : Int) (b : Bool) (l₁ l₂ : Local) : Prop :=
  core l₁ = core l₂ ∧ l₁.limit = none ∧ l₂.limit = some j ∧
    (if b then l₁.ps.cmdsubst = true ∧ l₂.ps.cmdsubst = true else l₁.eofToken = none)

section stdA
attribute [local instance] stdEnvRel

/-- the frame facts on the tokenizer (proved: `frameHyp`, `Props/C16/FrameInst.lean`) -/
structure FrameHyp : Prop where
  /-- `nextToken` neither reads nor writes `limit`, `ps.cmdsubst`; it only resets `ps.eoftoken` -/
  next : ∀ j b, Rel (St j b) (St j b) nextToken nextToken Eq
  gather : ∀ j b, Rel (St j b) (St j b) gatherheredocuments gatherheredocuments (fun _ _ => True)
  /-- a parser that runs over its own tape with fixed options leaves the caller's tape alone -/
  nestedEnv : ∀ d l e r l' e', l.tape.isSome = true → l.opts.isSome = true →
    (parserRun d).run l e = (.ok (r, l'), e') → EnvR e e'

theorem core_fields {l₁ l₂ : Local} (h : core l₁ = core l₂) :
    l₁.tape = l₂.tape ∧ l₁.opts = l₂.opts ∧ l₁.store = l₂.store ∧ l₁.redirstack = l₂.redirstack ∧
    l₁.eofToken = l₂.eofToken ∧ l₁.currentToken = l₂.currentToken ∧ coreP l₁.ps = coreP l₂.ps ∧
    l₁.lastReadToken = l₂.lastReadToken ∧ l₁.tokenBeforeThat = l₂.tokenBeforeThat ∧
    l₁.twoTokensAgo = l₂.twoTokensAgo := by
  have h1 : (core l₁).tape = (core l₂).tape := by rw [h]
  have h2 : (core l₁).opts = (core l₂).opts := by rw [h]
  have h3 : (core l₁).store = (core l₂).store := by rw [h]
  have h4 : (core l₁).redirstack = (core l₂).redirstack := by rw [h]
  have h5 : (core l₁).eofToken = (core l₂).eofToken := by rw [h]
  have h6 : (core l₁).currentToken = (core l₂).currentToken := by rw [h]
  have h7 : (core l₁).ps = (core l₂).ps := by rw [h]
  have h8 : (core l₁).lastReadToken = (core l₂).lastReadToken := by rw [h]
  have h9 : (core l₁).tokenBeforeThat = (core l₂).tokenBeforeThat := by rw [h]
  have h10 : (core l₁).twoTokensAgo = (core l₂).twoTokensAgo := by rw [h]
  exact ⟨h1, h2, h3, h4, h5, h6, h7, h8, h9, h10⟩

/-- `p_redirection_heredoc`'s effect on the state -/
def updH (c : RedirCell) (k : Bool) (l : Local) : Local :=
  { l with store := l.store ++ [c], redirstack := l.redirstack ++ [(l.store.length, k)] }

theorem core_updH (c : RedirCell) (k : Bool) (l : Local) : core (updH c k l) = updH c k (core l) := rfl

theorem core_iu (l : Local) : core (iu l) = core l := by
  unfold iu
  split <;> rfl

theorem rel_optProceed_std {S : Local → Local → Prop}
    (hopts : ∀ {l₁ l₂}, S l₁ l₂ → l₁.opts = l₂.opts) : Rel S S optProceed optProceed Eq := by
  unfold optProceed
  refine Rel.bind Rel.get ?_
  intro l₁ l₂ hl
  rw [hopts hl]
  cases l₂.opts with
  | none => exact Rel.ask _
  | some v => exact Rel.pure rfl

theorem St.sok (hF : FrameHyp) (j : Int) (b : Bool) : SOK (St j b) where
  store h := (core_fields h.1).2.2.1
  opts h := (core_fields h.1).2.1
  tape h := (core_fields h.1).1
  heredoc c k h := by
    obtain ⟨h1, h2, h3, h4⟩ := h
    show St j b (updH c k _) (updH c k _)
    refine ⟨?_, h2, h3, h4⟩
    rw [core_updH, core_updH, h1]
  inputunit h := by
    obtain ⟨h1, h2, h3, h4⟩ := h
    refine ⟨by rw [core_iu, core_iu, h1], ?_, ?_, ?_⟩
    · unfold iu; split <;> exact h2
    · unfold iu; split <;> exact h3
    · cases b
      · simp only [Bool.false_eq_true, if_false] at h4 ⊢
        unfold iu; split <;> exact h4
      · simp only [if_true] at h4 ⊢
        refine ⟨?_, ?_⟩
        · unfold iu; split <;> exact h4.1
        · unfold iu; split <;> exact h4.2
  accept h := by
    obtain ⟨h1, h2, h3, h4⟩ := h
    obtain ⟨_, _, _, _, he, hc, _⟩ := core_fields h1
    unfold accCond
    cases b
    · simp only [Bool.false_eq_true, if_false] at h4
      rw [← he, h4]; simp
    · simp only [if_true] at h4
      rw [h4.1, h4.2, he, hc]
  next := hF.next j b
  gather := hF.gather j b
  optProceed := rel_optProceed_std (fun h => (core_fields h.1).2.1)

theorem sok_eq : SOK (Eq : Local → Local → Prop) where
  store h := by rw [h]
  opts h := by rw [h]
  tape h := by rw [h]
  heredoc c k h := by rw [h]
  inputunit h := by rw [h]
  accept h := by rw [h]
  next := Rel.same _
  gather := (Rel.same _).conseq (fun _ _ _ => trivial)
  optProceed := Rel.same _

end stdA

/-! ## one parser run, generic in the nested parser -/

/-- the state a nested parser starts in -/
def nestedInit (outer : Local) (string : Str) (dolparen : Bool) : Local :=
  { tape := some (Tape.ofInput string), opts := some (true, false)
    lastReadToken := outer.lastReadToken, tokenBeforeThat := outer.tokenBeforeThat
    twoTokensAgo := outer.twoTokensAgo
    ps := if dolparen then { outer.ps with cmdsubst := true, eoftoken := true } else outer.ps
    eofToken := if dolparen then some rparenEofToken else none
    limit := outer.limit.map (· - 1) }

/-- the nested parser of `parserRun` over an arbitrary recursive call -/
def npPlain (rec : M (Option Node)) : NestedParse := fun string dolparen => do
  let outer ← get
  let ps := if dolparen then { outer.ps with cmdsubst := true, eoftoken := true } else outer.ps
  set ({ tape := some (Tape.ofInput string), opts := some (true, false)
         lastReadToken := outer.lastReadToken, tokenBeforeThat := outer.tokenBeforeThat
         twoTokensAgo := outer.twoTokensAgo, ps := ps
         eofToken := if dolparen then some rparenEofToken else none
         limit := outer.limit.map (· - 1) } : Local)
  let r ← rec
  let inner ← get
  set { outer with ps := inner.ps }
  pure r

/-- the body of `parserRun (depth + 1)` -/
def level (np : NestedParse) : M (Option Node) := do
  let res ← LR.run LR.realTables (lrHooks np) 1073741824
  let store := (← get).store
  match res with
  | .accepted (.node n) _ _ _ => pure (some (resolve store n))
  | _ => pure none

theorem parserRun_succ (d : Nat) : parserRun (d + 1) = level (npPlain (parserRun d)) := rfl

/-- the shared parser-state flags after a nested parse are the flags before it, up to the two
    flags the tokenizer does not read; CMDSUBST is not lost -/
def flagsKept (o i : PState) : Bool := coreP i == coreP o && (!o.cmdsubst || i.cmdsubst)

/-- the nested parser with a run-time check: when `chk`, a nested parse that changes the shared
    flags raises `FlagLeak` -/
def npI (chk : Bool) (rec : M (Option Node)) : NestedParse := fun string dolparen => do
  let outer ← get
  set (nestedInit outer string dolparen)
  let r ← rec
  let inner ← get
  if chk && !flagsKept outer.ps inner.ps then M.foreign "FlagLeak" "nested parse below the limit"
  set { outer with ps := inner.ps }
  pure r

/-- **the instrumented unlimited parser**: `parserRun`, except that every nested parse started
    by a parser whose counterpart in the limited run has `expansionlimit = -1` (or is itself
    skipped) is checked to leave the shared flags alone.  `j` is the limit of the counterpart. -/
def parserRunI : Int → Nat → M (Option Node)
  | _, 0 => M.raise (.outOfFuel "nesting")
  | j, depth + 1 => level (npI (decide (j ≤ -1)) (parserRunI (j - 1) depth))

theorem npPlain_eq (rec : M (Option Node)) : npPlain rec = npI false rec := by
  funext string dolparen
  simp [npPlain, npI, nestedInit]

section gen
variable [EnvRel]

theorem hooksR {S : Local → Local → Prop} (hS : SOK S) {f g : WF} (hfg : WOK f g)
    {np₁ np₂ : NestedParse}
    (hW : ∀ tok, Rel S S (expandword np₁ tok) (expandword np₂ tok) (WR f g)) :
    HooksR S (SR f g) (lrHooks np₁) (lrHooks np₂) where
  next := by
    show Rel S S (nextToken >>= fun t => pure (symOfTok t, SVal.tok t))
      (nextToken >>= fun t => pure (symOfTok t, SVal.tok t)) _
    refine Rel.bind hS.next ?_
    rintro t _ rfl
    exact Rel.pure ⟨rfl, rfl⟩
  act p args₁ args₂ h := rel_action hS hfg hW h _
  isNl v₁ v₂ h := by
    cases v₁ <;> cases v₂ <;> simp only [SR] at h <;> first | exact h.elim | rfl | skip
    subst h; rfl

theorem rel_level {S : Local → Local → Prop} (hS : SOK S) {f g : WF} (hfg : WOK f g)
    {np₁ np₂ : NestedParse}
    (hW : ∀ tok, Rel S S (expandword np₁ tok) (expandword np₂ tok) (WR f g)) :
    Rel S S (level np₁) (level np₂) (ORel (NR f g)) := by
  unfold level
  refine Rel.bind (rel_run _ (hooksR hS hfg hW) _) ?_
  intro r₁ r₂ hr
  refine Rel.bind Rel.get ?_
  intro l₁ l₂ hl
  rw [hS.store hl]
  cases r₁ with
  | blank n c =>
    cases r₂ with
    | blank n' c' => exact Rel.pure trivial
    | accepted v' t' c' b' => exact hr.elim
  | accepted v t c b =>
    cases r₂ with
    | blank n' c' => exact hr.elim
    | accepted v' t' c' b' =>
      obtain ⟨hv, _, _, _⟩ := hr
      cases v <;> cases v' <;> simp only [SR] at hv <;>
        first
          | exact hv.elim
          | exact Rel.pure trivial
          | skip
      refine Rel.pure ?_
      show NR f g _ _
      unfold NR at *
      rw [mapW_resolve, mapW_resolve, hv]

end gen

section stdB
attribute [local instance] stdEnvRel

/-! ## the instrumented run agrees with the plain run whenever it returns -/

theorem nok_eq : NOK (Eq : Node → Node → Prop) where
  pos h := by rw [h]
  bound h P ha := by rw [← h]; exact ha
  shift h k := by rw [h]

theorem partR_eq {a b : Node} (h : PartR Eq a b) : a = b := by
  cases a with
  | commandsubstitution p c => obtain ⟨c', rfl, rfl⟩ := h; rfl
  | processsubstitution p c => obtain ⟨c', rfl, rfl⟩ := h; rfl
  | _ => exact h.symm

theorem forall2_eq {α} {l₁ l₂ : List α} (h : Forall2 Eq l₁ l₂) : l₁ = l₂ := by
  induction h with
  | nil => rfl
  | cons h1 _ ih => rw [h1, ih]

theorem forall2_mono {α β} {R R' : α → β → Prop} (hRR : ∀ a b, R a b → R' a b)
    {l₁ : List α} {l₂ : List β} (h : Forall2 R l₁ l₂) : Forall2 R' l₁ l₂ := by
  induction h with
  | nil => exact .nil
  | cons h1 _ ih => exact .cons (hRR _ _ h1) ih

theorem orel_eq {r₁ r₂ : Option Node} (h : r₁ = r₂) : ORel Eq r₁ r₂ := by
  subst h; cases r₁ <;> simp [ORel]

theorem orel_idf {r₁ r₂ : Option Node} (h : ORel (NR idf idf) r₁ r₂) : r₁ = r₂ := by
  cases r₁ <;> cases r₂ <;> simp only [ORel] at h <;> first | rfl | exact h.elim | skip
  unfold NR at h
  rw [mapW_id, mapW_id] at h
  rw [h]

theorem rel_expandword_eq {np₁ np₂ : NestedParse} (hnp : NPR Eq Eq np₁ np₂) (tok : Token) :
    Rel Eq Eq (expandword np₁ tok) (expandword np₂ tok) (WR idf idf) := by
  rw [expandword_eq, expandword_eq]
  refine Rel.bind Rel.get ?_
  rintro l _ rfl
  refine rel_expandwordWith nok_eq hnp tok _ _ _ rfl ?_ ?_
  · exact ⟨_, _, _, _, _, rfl, rfl, rfl⟩
  · intro ps₁ ps₂ w h
    have : ps₁ = ps₂ := forall2_eq (forall2_mono (fun _ _ => partR_eq) h)
    subst this
    exact ⟨_, _, _, _, _, rfl, rfl, rfl⟩

theorem rel_np_eq {rec₁ rec₂ : M (Option Node)} (hrec : Rel Eq Eq rec₁ rec₂ Eq) (chk : Bool) :
    NPR Eq Eq (npI chk rec₁) (npPlain rec₂) := by
  rw [npPlain_eq]
  intro string dolparen
  unfold npI
  refine Rel.bind Rel.get ?_
  rintro outer _ rfl
  refine Rel.bind (Rel.set rfl) ?_
  intro _ _ _
  refine Rel.bind hrec ?_
  rintro r _ rfl
  refine Rel.bind Rel.get ?_
  rintro inner _ rfl
  by_cases hc : (chk && !flagsKept outer.ps inner.ps) = true
  · simp only [hc, if_true]
    exact Rel.noRet (NoRet.bind_left NoRet.foreign)
  · simp only [hc, Bool.false_and, Bool.false_eq_true, if_false, pure_bind]
    refine Rel.bind (Rel.set rfl) ?_
    intro _ _ _
    exact Rel.pure (orel_eq rfl)

theorem parserRunI_plain : ∀ (d : Nat) (j : Int), Rel Eq Eq (parserRunI j d) (parserRun d) Eq := by
  intro d
  induction d with
  | zero => intro j; exact Rel.raise_left
  | succ d ih =>
    intro j
    rw [parserRun_succ]
    show Rel Eq Eq (level _) (level _) Eq
    refine (rel_level sok_eq (f := idf) (g := idf) (fun _ _ => rfl)
      (rel_expandword_eq (rel_np_eq (ih (j - 1)) _))).conseq ?_
    intro a b h
    exact orel_idf h

end stdB

end Bashlex.C16
