/-
  C16, part 5: the LR engine in two runs.  Control depends on the terminal numbers only; with the
  same tokens, related semantic values and equal accept flags the two runs proceed in lock step.
-/
import Bashlex.Props.C16.Rel
import Bashlex.LR.Engine

namespace Bashlex.C16
open Bashlex Bashlex.M Bashlex.LR
set_option linter.unusedSimpArgs false
set_option linter.unusedVariables false
set_option linter.unusedSectionVars false

variable [EnvRel] {V : Type} {VR : V → V → Prop} {S : Local → Local → Prop}

/-- related stack entries: same state, same ghost tree, related payloads -/
def ER (VR : V → V → Prop) (e₁ e₂ : Entry V) : Prop :=
  e₁.state = e₂.state ∧ e₁.tree = e₂.tree ∧ VR e₁.val e₂.val

def LaR (VR : V → V → Prop) : Option (Nat × V) → Option (Nat × V) → Prop
  | none, none => True
  | some a, some b => a.1 = b.1 ∧ VR a.2 b.2
  | _, _ => False

def CfgR (VR : V → V → Prop) (c₁ c₂ : Cfg V) : Prop :=
  Forall2 (ER VR) c₁.stack c₂.stack ∧ LaR VR c₁.la c₂.la ∧ c₁.nlShifted = c₂.nlShifted ∧
    c₁.consumed = c₂.consumed

def ResRel (VR : V → V → Prop) : Res V → Res V → Prop
  | .accepted v t c b, .accepted v' t' c' b' => VR v v' ∧ t = t' ∧ c = c' ∧ b = b'
  | .blank n c, .blank n' c' => n = n' ∧ c = c'
  | _, _ => False

/-- related hooks -/
structure HooksR (S : Local → Local → Prop) (VR : V → V → Prop) (H₁ H₂ : Hooks V) : Prop where
  next : Rel S S H₁.next H₂.next (fun a b => a.1 = b.1 ∧ VR a.2 b.2)
  act : ∀ p args₁ args₂, Forall2 VR args₁ args₂ →
    Rel S S (H₁.act p args₁) (H₂.act p args₂) (fun r₁ r₂ => VR r₁.1 r₂.1 ∧ r₁.2 = r₂.2)
  isNl : ∀ v₁ v₂, VR v₁ v₂ → H₁.isNl v₁ = H₂.isNl v₂

theorem topState_eq {s₁ s₂ : Stack V} (h : Forall2 (ER VR) s₁ s₂) : topState s₁ = topState s₂ := by
  cases h with
  | nil => rfl
  | cons h1 _ => exact h1.1

theorem forall2_append' {α β} {R : α → β → Prop} {l₁ l₁' : List α} {l₂ l₂' : List β}
    (h : Forall2 R l₁ l₂) (h' : Forall2 R l₁' l₂') : Forall2 R (l₁ ++ l₁') (l₂ ++ l₂') := by
  induction h with
  | nil => exact h'
  | cons h1 _ ih => exact .cons h1 ih

theorem popN_rel : ∀ (n : Nat) {s₁ s₂ : Stack V}, Forall2 (ER VR) s₁ s₂ →
    match popN n s₁, popN n s₂ with
    | none, none => True
    | some (es₁, r₁), some (es₂, r₂) => Forall2 (ER VR) es₁ es₂ ∧ Forall2 (ER VR) r₁ r₂
    | _, _ => False := by
  intro n
  induction n with
  | zero => intro s₁ s₂ h; exact ⟨.nil, h⟩
  | succ k ih =>
    intro s₁ s₂ h
    cases h with
    | nil => trivial
    | @cons e₁ e₂ r₁ r₂ he hr =>
      have := ih hr
      simp only [popN]
      revert this
      cases popN k r₁ <;> cases popN k r₂ <;> simp only [Option.map] <;> intro this
      · trivial
      · exact this
      · exact this
      · exact ⟨forall2_append' this.1 (.cons he .nil), this.2⟩

theorem forall2_map_val {es₁ es₂ : List (Entry V)} (h : Forall2 (ER VR) es₁ es₂) :
    Forall2 VR (es₁.map (·.val)) (es₂.map (·.val)) := by
  induction h with
  | nil => exact .nil
  | cons h1 _ ih => exact .cons h1.2.2 ih

theorem map_tree_eq {es₁ es₂ : List (Entry V)} (h : Forall2 (ER VR) es₁ es₂) :
    es₁.map (·.tree) = es₂.map (·.tree) := by
  induction h with
  | nil => rfl
  | cons h1 _ ih => simp [h1.2.1, ih]

theorem forall2_all_isNl {H₁ H₂ : Hooks V} (hH : HooksR S VR H₁ H₂) {s₁ s₂ : Stack V}
    (h : Forall2 (ER VR) s₁ s₂) :
    s₁.all (fun e => H₁.isNl e.val) = s₂.all (fun e => H₂.isNl e.val) := by
  induction h with
  | nil => rfl
  | cons h1 _ ih => simp [List.all_cons, hH.isNl _ _ h1.2.2, ih]

theorem rel_doReduce (T : Tables) {H₁ H₂ : Hooks V} (hH : HooksR S VR H₁ H₂) {c₁ c₂ : Cfg V}
    (hc : CfgR VR c₁ c₂) (p : Nat) :
    Rel S S (doReduce T H₁ c₁ p) (doReduce T H₂ c₂ p) (SumR (CfgR VR) (ResRel VR)) := by
  unfold doReduce
  cases T.prods[p]? with
  | none => exact Rel.foreign_left
  | some pr =>
    obtain ⟨lhs, rhs⟩ := pr
    simp only []
    have hp := popN_rel (VR := VR) rhs.length hc.1
    revert hp
    cases popN rhs.length c₁.stack <;> cases popN rhs.length c₂.stack <;> simp only [] <;> intro hp
    · exact Rel.foreign_left
    · exact Rel.foreign_left
    · exact hp.elim
    · rename_i x₁ x₂
      obtain ⟨es₁, r₁⟩ := x₁
      obtain ⟨es₂, r₂⟩ := x₂
      simp only [] at hp ⊢
      refine Rel.bind (hH.act p _ _ (forall2_map_val hp.1)) ?_
      rintro ⟨v₁, a₁⟩ ⟨v₂, a₂⟩ ⟨hv, ha⟩
      simp only [] at hv ha ⊢
      subst ha
      rw [topState_eq hp.2, map_tree_eq hp.1]
      cases T.goto (topState r₂) lhs with
      | none => exact Rel.foreign_left
      | some t =>
        simp only []
        refine Rel.ite' (fun _ => Rel.pure ?_) (fun _ => Rel.pure ?_)
        · exact ⟨hv, rfl, hc.2.2.2, rfl⟩
        · exact ⟨.cons ⟨rfl, rfl, hv⟩ hp.2, hc.2.1, hc.2.2.1, hc.2.2.2⟩

theorem rel_step (T : Tables) {H₁ H₂ : Hooks V} (hH : HooksR S VR H₁ H₂) {c₁ c₂ : Cfg V}
    (hc : CfgR VR c₁ c₂) :
    Rel S S (step T H₁ c₁) (step T H₂ c₂) (SumR (CfgR VR) (ResRel VR)) := by
  unfold step
  simp only []
  rw [topState_eq hc.1]
  cases T.dflt (topState c₂.stack) with
  | some p => exact rel_doReduce T hH hc p
  | none =>
    simp only []
    refine Rel.bind (S' := S) (P := fun a b => a.1 = b.1 ∧ VR a.2 b.2) ?_ ?_
    · have hla := hc.2.1
      revert hla
      cases c₁.la <;> cases c₂.la <;> simp only [LaR] <;> intro hla
      · exact hH.next
      · exact hla.elim
      · exact hla.elim
      · exact Rel.pure hla
    · rintro ⟨s₁, v₁⟩ ⟨s₂, v₂⟩ ⟨hs, hv⟩
      simp only [] at hs hv ⊢
      subst hs
      rw [forall2_all_isNl hH hc.1, hc.2.2.1, hc.2.2.2]
      refine Rel.ite' (fun _ => Rel.pure ⟨rfl, rfl⟩) (fun _ => ?_)
      cases T.action (topState c₂.stack) s₁ with
      | none => exact Rel.noRet (NoRet.bind_right (fun _ => NoRet.foreign))
      | some a =>
        cases a with
        | shift t =>
          simp only []
          refine Rel.ite' (fun _ => Rel.pure ?_) (fun _ => Rel.pure ?_)
          · exact ⟨hc.1, trivial, rfl, rfl⟩
          · exact ⟨.cons ⟨rfl, rfl, hv⟩ hc.1, trivial, rfl, rfl⟩
        | reduce p =>
          refine rel_doReduce T hH ?_ p
          unfold CfgR
          refine ⟨hc.1, ?_, ?_, ?_⟩
          · simp only [LaR, true_and]; exact hv
          · first | rfl | exact hc.2.2.1
          · first | rfl | exact hc.2.2.2
        | accept =>
          simp only []
          have hst := hc.1
          revert hst
          cases c₁.stack <;> cases c₂.stack <;> intro hst
          · exact Rel.pure ⟨rfl, rfl⟩
          · cases hst
          · cases hst
          · cases hst with
            | cons he _ => exact Rel.pure ⟨he.2.2, he.2.1, rfl, rfl⟩

theorem rel_run (T : Tables) {H₁ H₂ : Hooks V} (hH : HooksR S VR H₁ H₂) (fuel : Nat) :
    Rel S S (LR.run T H₁ fuel) (LR.run T H₂ fuel) (ResRel VR) := by
  unfold LR.run
  exact Rel.loop (I := CfgR VR) (fun c₁ c₂ hc => rel_step T hH hc) fuel _ _
    ⟨.nil, trivial, rfl, rfl⟩

end Bashlex.C16
