/-
  C01, the `nesting` marker: the exception walk of `Props/C01Engine/ActExn.lean` with the measure
  "number of opener characters" (`ops`: backquote, `$`, `<`, `>`) in place of the length:
  `act_exn : Sat (action np f args) ⊤ (AE (argsBound args) np)` — a semantic action raises
  `outOfFuel "nesting"` only if the nested parser does, on a string holding FEWER opener characters
  than one of the token values among its arguments (the opener the scan stands on is dropped).
-/
import Bashlex.Props.C01.Tokenizer
import Bashlex.Model.Actions

namespace Bashlex.C01E.Nest
open Bashlex Bashlex.M Bashlex.C01
set_option linter.unusedSimpArgs false
set_option linter.unusedVariables false

/-- a character that can open a substitution: backquote, `$`, `<`, `>` -/
def isOp (c : Char) : Bool := c == '`' || c == '$' || c == '<' || c == '>'

/-- the number of such characters -/
def ops (s : Str) : Nat := s.countP isOp

theorem ops_append (a b : Str) : ops (a ++ b) = ops a + ops b := List.countP_append

theorem ops_take_drop (s : Str) (k : Nat) : ops (s.take k) + ops (s.drop k) = ops s := by
  rw [← ops_append, List.take_append_drop]

theorem ops_drop_le (s : Str) (k : Nat) : ops (s.drop k) ≤ ops s := by
  have := ops_take_drop s k; omega

theorem ops_take_le (s : Str) (k : Nat) : ops (s.take k) ≤ ops s := by
  have := ops_take_drop s k; omega

theorem ops_slice_le (s : Str) (a b : Nat) : ops (Str.slice s a b) ≤ ops (s.drop a) := by
  unfold Str.slice
  rw [List.drop_take]
  exact ops_take_le _ _

/-- dropping a prefix that holds an opener character lowers the count -/
theorem ops_drop_lt {s : Str} {i k : Nat} {c : Char} (hc : s[i]? = some c) (hop : isOp c = true)
    (hik : i < k) : ops (s.drop k) < ops s := by
  have h1 := ops_take_drop s k
  have hmem : c ∈ s.take k := by
    have hi : i < s.length := (List.getElem?_eq_some_iff.mp hc).1
    have h2 : (s.take k)[i]? = some c := by
      rw [List.getElem?_take_of_lt hik]; exact hc
    exact List.mem_of_getElem? h2
  have : 0 < ops (s.take k) := List.countP_pos_iff.mpr ⟨c, hmem, hop⟩
  omega

/-- anything but the marker of the nesting depth -/
def NoLRFuel (x : Exn) : Prop := x ≠ .outOfFuel "nesting"

theorem noLRFuel_site {site : String} (h : site ≠ "nesting") :
    NoLRFuel (.outOfFuel site) := fun h' => h (Exn.outOfFuel.inj h')

theorem noLRFuel_tokExn {x : Exn} (h : TokExn x) : NoLRFuel x := by
  rcases h with ⟨m, s, p, rfl⟩ | h | ⟨site, rfl, h⟩
  · intro h'; cases h'
  · intro h'; subst h'; simp [tokForeign] at h
  · refine noLRFuel_site ?_
    intro h'; subst h'; simp [tokFuel] at h

/-- an exception some call of the nested parser on a string SHORTER than `B` raises -/
def NpExn (B : Nat) (np : NestedParse) (x : Exn) : Prop :=
  ∃ s b l e e', ops s < B ∧ (np s b).run l e = (.error x, e')

/-- not the marker, or raised by the nested parser on a string shorter than `B` -/
def AE (B : Nat) (np : NestedParse) (x : Exn) : Prop := NoLRFuel x ∨ NpExn B np x

theorem AE.mono {B B' : Nat} {np : NestedParse} {x : Exn} (h : AE B np x) (hB : B ≤ B') :
    AE B' np x := by
  rcases h with h | ⟨s, b, l, e, e', h1, h2⟩
  · exact Or.inl h
  · exact Or.inr ⟨s, b, l, e, e', by omega, h2⟩

abbrev ASat (B : Nat) (np : NestedParse) {α : Type} (m : M α) : Prop :=
  Sat m (fun _ => True) (AE B np)

theorem ASat.mono {B B' : Nat} {np : NestedParse} {α : Type} {m : M α} (h : ASat B np m)
    (hB : B ≤ B') : ASat B' np m :=
  h.weaken (fun _ h => h) (fun _ h => h.mono hB)

variable {np : NestedParse} {B : Nat}

theorem ae_mkParsingError {m s p} : AE B np (mkParsingError m s p) := by
  unfold mkParsingError
  split <;> exact Or.inl (by intro h; cases h)

theorem asat_np (s : Str) (b : Bool) (h : ops s < B) : ASat B np (np s b) := by
  intro l e
  rcases hr : (np s b).run l e with ⟨r, e'⟩
  cases r with
  | ok v => exact True.intro
  | error x => exact Or.inr ⟨s, b, l, e, e', h, hr⟩

theorem asat_of_tok {α : Type} {m : M α} (h : TSat m) : ASat B np m :=
  h.weaken (fun _ h => h) (fun _ h => Or.inl (noLRFuel_tokExn h))

theorem asat_gather : ASat B np gatherheredocuments := asat_of_tok tok_gatherheredocuments

theorem asat_forIn {α β : Type} {f : α → β → M (ForInStep β)} :
    ∀ (l : List α) (b : β), (∀ a, a ∈ l → ∀ b, ASat B np (f a b)) → ASat B np (forIn l b f)
  | [], b, _ => by rw [List.forIn_nil]; exact Sat.pure True.intro
  | a :: rest, b, h => by
    rw [List.forIn_cons]
    refine sat_bindE (h a List.mem_cons_self b) (fun r => ?_)
    cases r with
    | done b' => exact Sat.pure True.intro
    | yield b' => exact asat_forIn rest b' (fun a' ha' => h a' (List.mem_cons_of_mem _ ha'))

theorem asat_map {α β : Type} {m : M α} {f : α → β} (h : ASat B np m) : ASat B np (f <$> m) := by
  rw [map_eq_pure_bind]
  exact sat_bindE h (fun _ => Sat.pure True.intro)

/-- discharge `AE B np x` for a literal `x` -/
macro "aeexn" : tactic => `(tactic| first
  | exact ae_mkParsingError
  | exact Or.inl (by intro h; cases h)
  | exact Or.inl (noLRFuel_site (by decide)))

/-- side conditions "the nested string is shorter" -/
macro "npside" : tactic => `(tactic| first
  | assumption
  | (simp only [List.length_drop, List.length_take, Str.slice]; omega))

/-- known callees (extended after each lemma) -/
syntax "nf_atom" : tactic
macro_rules | `(tactic| nf_atom) => `(tactic| assumption)
macro_rules | `(tactic| nf_atom) => `(tactic| exact NoExn.sat noExn_get)
macro_rules | `(tactic| nf_atom) => `(tactic| exact NoExn.sat (noExn_set _))
macro_rules | `(tactic| nf_atom) => `(tactic| exact NoExn.sat (noExn_modify _))
macro_rules | `(tactic| nf_atom) => `(tactic| exact NoExn.sat (noExn_ask _))
macro_rules | `(tactic| nf_atom) => `(tactic| exact NoExn.sat noExn_curIdx)
macro_rules | `(tactic| nf_atom) => `(tactic| exact NoExn.sat noExn_tapeSource)
macro_rules | `(tactic| nf_atom) => `(tactic| exact NoExn.sat noExn_tapeLine)
macro_rules | `(tactic| nf_atom) => `(tactic| exact NoExn.sat noExn_optStrict)
macro_rules | `(tactic| nf_atom) => `(tactic| exact NoExn.sat noExn_optProceed)
macro_rules | `(tactic| nf_atom) => `(tactic| exact NoExn.sat (noExn_pure _))
macro_rules | `(tactic| nf_atom) => `(tactic| exact NoExn.sat (noExn_nodePos _))
macro_rules | `(tactic| nf_atom) => `(tactic| exact asat_gather)

/-- walk through a program: post-condition `True`, exceptions `AE B np` -/
macro "nf_walk" : tactic => `(tactic| repeat' (first
  | with_reducible exact Sat.pure True.intro
  | with_reducible refine Sat.ite (fun _ => ?_) (fun _ => ?_)
  | with_reducible nf_atom
  | with_reducible refine sat_bindE ?_ (fun _ => ?_)
  | with_reducible refine asat_map ?_
  | with_reducible refine asat_forIn _ _ (fun _ _ _ => ?_)
  | ((with_reducible refine Sat.raise ?_); aeexn)
  | ((with_reducible refine Sat.foreign ?_); aeexn)
  | ((with_reducible refine sat_loopT ?_ (fun _ => ?_) _ _); focus aeexn)
  | split))

/-! ## word expansion -/

theorem asat_adjustpositions (n : Node) (a b : Nat) : ASat B np (adjustpositions n a b) := by
  unfold adjustpositions; (try simp only []); nf_walk
macro_rules | `(tactic| nf_atom) => `(tactic| exact asat_adjustpositions _ _ _)

theorem asat_recursiveparse (base : Str) (i : Nat) (b : Bool) (h : ops (base.drop i) < B) :
    ASat B np (recursiveparse np base i b) := by
  unfold recursiveparse; (try simp only [])
  refine sat_bindE (asat_np _ _ h) (fun _ => ?_)
  nf_walk
macro_rules | `(tactic| nf_atom) => `(tactic| exact asat_recursiveparse _ _ _ (by assumption))

theorem asat_parsedolparen (base : Str) (i : Nat) (h : ops (base.drop i) < B) :
    ASat B np (parsedolparen np base i) := by
  unfold parsedolparen; (try simp only []); nf_walk
macro_rules | `(tactic| nf_atom) => `(tactic| exact asat_parsedolparen _ _ (by assumption))

theorem asat_paramexpand (s : Str) (i : Nat) (hc : s[i]? = some '$') :
    ASat (ops s) np (paramexpand np s i) := by
  have hlt : ops (s.drop (i + 1 + 1)) < ops s := ops_drop_lt hc (by decide) (by omega)
  have hd := asat_parsedolparen (np := np) s (i + 1 + 1) hlt
  unfold paramexpand; (try simp only []); nf_walk

set_option hygiene false in
macro_rules | `(tactic| nf_atom) => `(tactic| exact hr _)

theorem asat_expandStep (tok : Token) (s : Str) (qd : Bool) (st : ExpSt) :
    ASat (ops s) np (expandStep np tok s qd st) := by
  unfold expandStep
  simp only []
  refine Sat.ite (fun _ => Sat.pure True.intro) (fun _ => ?_)
  split
  · exact Sat.foreign (Or.inl (by intro h; cases h))
  · rename_i c hc
    refine Sat.ite (fun h1 => ?_) (fun _ => ?_)
    · -- `<(` / `>(`
      have hop : isOp c = true := by
        simp only [Bool.or_eq_true, beq_iff_eq] at h1
        rcases h1 with h | h <;> (subst h; decide)
      have hd := asat_parsedolparen (np := np) s (st.sindex + 2)
        (ops_drop_lt hc hop (by omega))
      nf_walk
    refine Sat.ite (fun _ => ?_) (fun _ => ?_)
    · nf_walk
    refine Sat.ite (fun h2 => ?_) (fun _ => ?_)
    · -- `$`
      have hc' : s[st.sindex]? = some '$' := by
        simp only [Bool.and_eq_true, beq_iff_eq] at h2
        rw [hc, h2.1]
      have hp := asat_paramexpand (np := np) s st.sindex hc'
      nf_walk
    refine Sat.ite (fun h3 => ?_) (fun _ => ?_)
    · -- backquote
      have hc' : s[st.sindex]? = some '`' := by
        simp only [beq_iff_eq] at h3
        rw [hc, h3]
      have hr : ∀ x, ASat (ops s) np
          (recursiveparse np (Str.slice s (st.sindex + 1) x) 0 false) := by
        intro x
        refine asat_recursiveparse _ _ _ ?_
        rw [List.drop_zero]
        exact Nat.lt_of_le_of_lt (ops_slice_le _ _ _) (ops_drop_lt hc' (by decide) (by omega))
      nf_walk
    nf_walk
macro_rules | `(tactic| nf_atom) => `(tactic| exact asat_expandStep _ _ _ _)

theorem asat_expandwordinternal (tok : Token) (qd : Bool) :
    ASat (ops tok.valueStr) np (expandwordinternal np tok qd) := by
  unfold expandwordinternal; (try simp only []); nf_walk
macro_rules | `(tactic| nf_atom) => `(tactic| exact asat_expandwordinternal _ _)

theorem asat_expandword (tok : Token) : ASat (ops tok.valueStr) np (expandword np tok) := by
  unfold expandword; (try simp only []); nf_walk

/-! ## the actions -/

/-- the largest opener count of a token value among the arguments -/
def argsBound : List SVal → Nat
  | [] => 0
  | .tok t :: rest => max (ops t.valueStr) (argsBound rest)
  | _ :: rest => argsBound rest

theorem argsBound_mem {t : Token} : ∀ {args : List SVal}, SVal.tok t ∈ args →
    ops t.valueStr ≤ argsBound args
  | [], h => by cases h
  | a :: rest, h => by
    rcases List.mem_cons.mp h with h | h
    · subst h; simp only [argsBound]; exact Nat.le_max_left _ _
    · have := argsBound_mem h
      cases a <;> simp only [argsBound] <;> omega

theorem asat_expandword_mem {args : List SVal} {t : Token} (h : SVal.tok t ∈ args) :
    ASat (argsBound args) np (expandword np t) :=
  (asat_expandword t).mono (argsBound_mem h)
macro_rules | `(tactic| nf_atom) => `(tactic| exact asat_expandword_mem (by assumption))

theorem asat_partsspan (parts : List Node) : ASat B np (partsspan parts) := by
  unfold partsspan; (try simp only []); nf_walk
macro_rules | `(tactic| nf_atom) => `(tactic| exact asat_partsspan _)

/-- the token of a terminal position is one of the arguments -/
theorem asat_tokAt_mem (p : PCtx) (i : Nat) :
    Sat (p.tokAt i) (fun t => SVal.tok t ∈ p.args) (AE B np) := by
  unfold PCtx.tokAt PCtx.slice
  split
  · rename_i t ht
    refine Sat.pure ?_
    have h1 : p.args.getD (i - 1) .none = .tok t := ht
    rw [List.getD_eq_getElem?_getD] at h1
    cases hg : p.args[i - 1]? with
    | none => rw [hg] at h1; simp at h1
    | some v =>
      rw [hg] at h1
      simp only [Option.getD_some] at h1
      subst h1
      exact List.mem_of_getElem? hg
  · exact Sat.foreign (Or.inl (by intro h; cases h))

theorem asat_tokAt (p : PCtx) (i : Nat) : ASat B np (p.tokAt i) :=
  (asat_tokAt_mem p i).weaken (fun _ _ => True.intro) (fun _ h => h)
macro_rules | `(tactic| nf_atom) => `(tactic| exact asat_tokAt _ _)

theorem asat_strAt (p : PCtx) (i : Nat) : ASat B np (p.strAt i) := by
  unfold PCtx.strAt; (try simp only []); nf_walk
macro_rules | `(tactic| nf_atom) => `(tactic| exact asat_strAt _ _)

theorem asat_nodeAt (p : PCtx) (i : Nat) (s : String) : ASat B np (p.nodeAt i s) := by
  unfold PCtx.nodeAt; (try simp only []); nf_walk
macro_rules | `(tactic| nf_atom) => `(tactic| exact asat_nodeAt _ _ _)

theorem asat_nodesAt (p : PCtx) (i : Nat) (s : String) : ASat B np (p.nodesAt i s) := by
  unfold PCtx.nodesAt; (try simp only []); nf_walk
macro_rules | `(tactic| nf_atom) => `(tactic| exact asat_nodesAt _ _ _)

theorem asat_reservedAt (p : PCtx) (i : Nat) : ASat B np (reservedAt p i) := by
  unfold reservedAt; (try simp only []); nf_walk
macro_rules | `(tactic| nf_atom) => `(tactic| exact asat_reservedAt _ _)

theorem asat_operatorAt (p : PCtx) (i : Nat) : ASat B np (operatorAt p i) := by
  unfold operatorAt; (try simp only []); nf_walk
macro_rules | `(tactic| nf_atom) => `(tactic| exact asat_operatorAt _ _)

theorem asat_handleAssert (b : Bool) : ASat B np (handleAssert b) := by
  unfold handleAssert; (try simp only []); nf_walk
macro_rules | `(tactic| nf_atom) => `(tactic| exact asat_handleAssert _)

theorem asat_addRedirects (n : Node) (reds : List Node) : ASat B np (addRedirects n reds) := by
  unfold addRedirects; (try simp only []); nf_walk
macro_rules | `(tactic| nf_atom) => `(tactic| exact asat_addRedirects _ _)

theorem asat_mkCompound1 (inner : Span → List Node → Node) (parts : List Node) :
    ASat B np (mkCompound1 inner parts) := by
  unfold mkCompound1; (try simp only []); nf_walk
macro_rules | `(tactic| nf_atom) => `(tactic| exact asat_mkCompound1 _ _)

theorem asat_joinLists (p : PCtx) (mk : Span → Str → Node) (s : String) :
    ASat B np (joinLists p mk s) := by
  unfold joinLists; (try simp only []); nf_walk
macro_rules | `(tactic| nf_atom) => `(tactic| exact asat_joinLists _ _ _)

theorem asat_makeparts (args : List SVal) :
    ASat (argsBound args) np (makeparts ⟨np, args⟩) := by
  unfold makeparts; (try simp only []); nf_walk
macro_rules | `(tactic| nf_atom) => `(tactic| exact asat_makeparts _)

theorem asat_handleNotImplemented (args : List SVal) (ty : String) :
    ASat (argsBound args) np (handleNotImplemented ⟨np, args⟩ ty) := by
  unfold handleNotImplemented; (try simp only []); nf_walk
macro_rules | `(tactic| nf_atom) => `(tactic| exact asat_handleNotImplemented _ _)

/-- walk with the rule "the token of a terminal position is an argument" first -/
macro "nf_walk_args" : tactic => `(tactic| repeat' (first
  | with_reducible exact Sat.pure True.intro
  | with_reducible refine Sat.ite (fun _ => ?_) (fun _ => ?_)
  | with_reducible nf_atom
  | with_reducible refine Sat.bind (asat_tokAt_mem _ _) (fun _ _ => ?_)
  | with_reducible refine sat_bindE ?_ (fun _ => ?_)
  | with_reducible refine asat_map ?_
  | with_reducible refine asat_forIn _ _ (fun _ _ _ => ?_)
  | ((with_reducible refine Sat.raise ?_); aeexn)
  | ((with_reducible refine Sat.foreign ?_); aeexn)
  | ((with_reducible refine sat_loopT ?_ (fun _ => ?_) _ _); focus aeexn)
  | split))

set_option maxHeartbeats 2000000 in
/-- **every action function raises the engine's fuel marker only if the nested parser does, on a
    string shorter than one of the token values among its arguments** -/
theorem asat_actionCore (fname : String) (args : List SVal) :
    ASat (argsBound args) np (actionCore np fname args) := by
  unfold actionCore
  simp only []
  split
  all_goals nf_walk_args

theorem act_exn (fname : String) (args : List SVal) :
    ASat (argsBound args) np (action np fname args) := by
  unfold action; (try simp only [])
  refine sat_bindE (asat_actionCore _ _) (fun _ => ?_)
  nf_walk

end Bashlex.C01E.Nest
