/-
  C01, the `nesting` marker: lift to `parserRun`, `runParser`, `parse`, `parsesingle`.

  Every token on the LR stack has a value with at most `ops line` opener characters
  (`C04.tokText`: the value is the spanned text with line continuations deleted), a semantic action
  passes to the nested parser a string with FEWER opener characters than a token value among its
  arguments (`Nest.act_exn`), so by induction on the nesting fuel:
  **`parserRun_noNest`**: `ops s < d → parserRun d` over `s` does not raise `outOfFuel "nesting"`.
-/
import Bashlex.Props.C01Loops.NestExn
import Bashlex.Props.C01Engine
import Bashlex.Props.C03.RootEndsProof

namespace Bashlex.C01E.Nest
open Bashlex Bashlex.Spec Bashlex.Node Bashlex.M Bashlex.LR Bashlex.C12 Bashlex.C03 Bashlex.C10
  Bashlex.C01
set_option linter.unusedSimpArgs false
set_option linter.unusedVariables false

/-! ## opener characters of a token value -/

theorem ops_cons (c : Char) (s : Str) : ops (c :: s) = ops s + (if isOp c then 1 else 0) := by
  unfold ops
  rw [List.countP_cons]

theorem del_ops_le {s w : Str} (h : C04.Del s w) : ops w ≤ ops s := by
  induction h with
  | nil => exact Nat.le_refl _
  | keep c _ ih => rw [ops_cons, ops_cons]; omega
  | skip _ ih =>
    rw [ops_cons, ops_cons]
    have h1 : isOp '\\' = false := by decide
    have h2 : isOp '\n' = false := by decide
    rw [h1, h2]; simpa using ih

/-- **the value of a delivered token has no more opener characters than the line** -/
theorem tt_ops {line : Str} {t : Token} (h : C04.TT line t) : ops t.valueStr ≤ ops line := by
  cases hv : t.value with
  | none => simp [Token.valueStr, hv, ops]
  | int k => simp [Token.valueStr, hv, ops]
  | str v =>
    have hvs : t.valueStr = v := by simp [Token.valueStr, hv]
    rw [hvs]
    obtain ⟨a, e, _, _, _, _, _, _, _, hcase⟩ := h.str hv
    rcases hcase with ⟨_, _, _, r, _, hrel⟩ | hnl
    · have hd : C04.Del (Str.slice line a e) (v ++ r) := C04.Del.of_delB _ _ hrel
      have h1 := del_ops_le hd
      rw [ops_append] at h1
      have h2 := ops_slice_le line a e
      have h3 := ops_drop_le line a
      omega
    · unfold C04.nlOver at hnl
      simp only [Bool.and_eq_true, beq_iff_eq] at hnl
      rw [hnl.1.2]
      have : ops ['\n'] = 0 := by decide
      omega

theorem ops_ofInput (s : Str) : ops (Tape.ofInput s).line = ops s := by
  unfold Tape.ofInput
  split
  · rfl
  · split
    · rfl
    · simp only []
      rw [ops_append]
      have : ops ['\n'] = 0 := by decide
      omega

/-! ## token values on the stack -/

def TokOps (Bd : Nat) (vs : List (Nat × SVal)) (la : Option (Nat × SVal)) : Prop :=
  (∀ x ∈ vs, ∀ t, x.2 = .tok t → ops t.valueStr ≤ Bd) ∧
  (∀ x, la = some x → ∀ t, x.2 = .tok t → ops t.valueStr ≤ Bd)

theorem argsBound_le {Bd : Nat} : ∀ {args : List SVal},
    (∀ v ∈ args, ∀ t, v = .tok t → ops t.valueStr ≤ Bd) → argsBound args ≤ Bd
  | [], _ => Nat.zero_le _
  | a :: rest, h => by
    have ih := argsBound_le (args := rest) (fun v hv => h v (List.mem_cons_of_mem _ hv))
    cases a with
    | tok t =>
      simp only [argsBound]
      have := h (.tok t) List.mem_cons_self t rfl
      omega
    | none => simpa only [argsBound] using ih
    | node n => simpa only [argsBound] using ih
    | nodes l => simpa only [argsBound] using ih

/-- the stack invariant: C03's (for the tokenizer invariant `TIg g n`), plus "token values have at
    most `Bd` opener characters" -/
def SIo (g : C11.Ghost) (Bd len n : Nat) (vs : List (Nat × SVal)) (la : Option (Nat × SVal))
    (l : Local) (e : Env) : Prop :=
  SI (TIg g n) len vs la l e ∧ TokOps Bd vs la

theorem nextTok_exn {B : Nat} {np : NestedParse} :
    Sat (lrHooks np).next (fun _ => True) (AE B np) := by
  show Sat (nextToken >>= fun t => pure (symOfTok t, SVal.tok t)) _ _
  exact sat_bindE (asat_of_tok tok_nextToken) (fun _ => Sat.pure True.intro)

theorem onError_ae {B : Nat} {np : NestedParse} (la : Nat × SVal) :
    Sat ((lrHooks np).onError la) (fun _ => True) (AE B np) := by
  obtain ⟨sym, v⟩ := la
  show Sat (match v with
    | .tok t => pError t
    | _ => M.foreign "AssertionError" "p_error") _ _
  split
  · unfold pError
    refine sat_bindN noExn_tapeSource (fun src => ?_)
    split
    · exact Sat.raise ae_mkParsingError
    · exact Sat.raise ae_mkParsingError
  · exact Sat.foreign (Or.inl (by intro h; cases h))

/-- the look-ahead delivered from a state of the family has a value with few opener characters -/
theorem next_ops (g : C11.Ghost) (hg : C11.WFG g) {len n : Nat} {np : NestedParse}
    (vs : List (Nat × SVal)) :
    SatS (lrHooks np).next (SI (TIg g n) len vs none)
      (fun la _ _ => ∀ t, la.2 = .tok t → ops t.valueStr ≤ ops g.line) := by
  refine SatS.intro_state ?_
  rintro l0 e0 ⟨⟨_, F, _, _, hti, _⟩, _⟩
  show SatS (nextToken >>= fun t => pure (symOfTok t, SVal.tok t)) _ _
  have hT := satS_of_HT (C04.tokText.next g hg)
  refine SatS.bind (hT.pre (by rintro l e ⟨rfl, rfl⟩; exact ⟨hti.2, ti_eol hti.1.1⟩))
    (fun t => SatS.pure ?_)
  rintro l e ⟨htt, _⟩ t' ht'
  cases ht'
  exact tt_ops htt

/-- `token()` keeps every member of the family (no index shift; no bound on the input length:
    the budget part of `TIb` is conditional on it) -/
theorem next_TIg_fixed (g : C11.Ghost) (n len F : Nat) (st : List RedirCell) :
    SatS nextToken (fun l e => TIg g n len F l e ∧ l.store = st)
      (fun t l e => ∃ a b, F ≤ a ∧ TokAt len t a b ∧ TIg g n len b l e ∧
        StoreStep len F false st l.store) := by
  by_cases hlen : len + 1 < 1073741824
  · refine ((budFam_TIg g len hlen).next n F st).post ?_
    rintro t l e ⟨a, b, h1, h2, ⟨n', hn', h3⟩, h4⟩
    exact ⟨a, b, h1, h2, (budFam_TIg g len hlen).mono n n' b l e h3 (by omega), h4⟩
  · have hA := tokSpans.next len F st
    have hB : SatS nextToken (C11.Good g [])
        (fun t l e => C11.TF g t ∧ C11.Good g [] l e) :=
      satS_of_HT (C11.nextToken_good (g := g))
    refine (SatS.and (hA.pre (P' := fun l e => TIg g n len F l e ∧ l.store = st)
      (fun l e h => ⟨h.1.1.1, h.2⟩)) (hB.pre (fun l e h => h.1.2))).post ?_
    rintro t l e ⟨⟨a, b, h1, h2, h3, h4⟩, _, hg⟩
    exact ⟨a, b, h1, h2, ⟨⟨h3, fun h => absurd h hlen⟩, hg⟩, h4⟩

theorem hooksOrd_TIg (g : C11.Ghost) (n len d : Nat) :
    HooksOrd realTables (lrHooks (npOf (parserRun d))) (SI (TIg g n) len) (Fin len)
      (fun _ => True) :=
  spans_hooks_core (fun F st => next_TIg_fixed g n len F st) (tokAct_TIg g n) (npok_npOf d)
    (wordContract_act (tokAct_TIg g n) _ (npSpans_fam (tokAct_TIg g n) rootEnds d) len)

/-- **the hooks of the real parser keep `SIo`, and raise `outOfFuel "nesting"` only if the nested
    parser does on a string with fewer opener characters than the line** -/
theorem real_hooksOrd_o (g : C11.Ghost) (hg : C11.WFG g) (d len n : Nat) :
    HooksOrd realTables (lrHooks (npOf (parserRun d))) (SIo g (ops g.line) len n) (Fin len)
      (AE (ops g.line) (npOf (parserRun d))) := by
  have hbase := hooksOrd_TIg g n len d
  refine ⟨?_, ?_, ?_, ?_, ?_, fun la => onError_ae la⟩
  · intro vs
    refine satS_exn ?_ nextTok_exn
    have h1 := satS_with_pure (C := TokOps (ops g.line) vs none) (hbase.next vs)
    have h2 := (next_ops g hg (n := n) (len := len) (np := npOf (parserRun d)) vs).pre
      (P' := fun l e => SI (TIg g n) len vs none l e ∧ TokOps (ops g.line) vs none)
      (fun _ _ h => h.1)
    refine (SatS.and h1 h2).post ?_
    rintro la l e ⟨⟨hsi, htl⟩, hv⟩
    exact ⟨hsi, ⟨htl.1, (fun x hx t ht => by cases hx; exact hv t ht)⟩⟩
  · rintro vs la l e ⟨hsi, htl⟩
    refine ⟨hbase.shift vs la l e hsi, ⟨?_, (fun x hx => by cases hx)⟩⟩
    intro x hx t ht
    rcases List.mem_append.mp hx with hx | hx
    · exact htl.1 x hx t ht
    · simp only [List.mem_singleton] at hx; subst hx; exact htl.2 _ rfl t ht
  · rintro la l e ⟨hsi, htl⟩
    exact ⟨hbase.shiftNl la l e hsi, ⟨(fun x hx => by cases hx), (fun x hx => by cases hx)⟩⟩
  · intro p lhs rhs rest args la hprod hargs hrest hla
    have hb := hbase.act p lhs rhs rest args la hprod hargs hrest hla
    rw [lrHooks_act] at hb ⊢
    refine SatS.pre (P := fun l e => TokOps (ops g.line) (rest ++ args) la ∧
      SI (TIg g n) len (rest ++ args) la l e) ?_ (fun l e h => ⟨h.2, h.1⟩)
    refine SatS.assume (fun htl => ?_)
    have hex : Sat (action (npOf (parserRun d)) (fn p) (args.map (·.2))) (fun _ => True)
        (AE (ops g.line) (npOf (parserRun d))) := by
      have hle : argsBound (args.map (·.2)) ≤ ops g.line := by
        refine argsBound_le ?_
        intro v hv t hvt
        obtain ⟨x, hx, rfl⟩ := List.mem_map.mp hv
        exact htl.1 x (List.mem_append_right _ hx) t hvt
      have hex0 := act_exn (np := npOf (parserRun d)) (fn p) (args.map (·.2))
      exact Sat.weaken hex0 (fun _ h => h) (fun x hx => AE.mono hx hle)
    refine (satS_exn hb hex).post ?_
    intro r l e h1
    by_cases hacc : r.2 = true
    · simp only [hacc, if_true] at h1 ⊢; exact h1
    · simp only [hacc, if_false] at h1 ⊢
      refine ⟨h1, ⟨?_, htl.2⟩⟩
      intro x hx t ht
      rcases List.mem_append.mp hx with hx | hx
      · exact htl.1 x (List.mem_append_left _ hx) t ht
      · simp only [List.mem_singleton] at hx
        subst hx
        have hvi : VI lhs r.1 := h1.2.1 (lhs, r.1) (by simp)
        exact absurd ht (vi_lhs_not_tok hprod hvi t)
  · rintro vs x la l e ⟨hsi, _⟩
    exact hbase.accept vs x la l e hsi

/-- **`outOfFuel "nesting"` needs as many opener characters as the nesting fuel**: a parser run
    with nesting fuel `d` over an input with fewer than `d` opener characters (backquote, `$`,
    `<`, `>`) does not raise it -/
theorem parserRun_noNest :
    ∀ d s, ops s < d →
      SatS (parserRun d) (InitState s) (fun _ _ _ => True) NoLRFuel := by
  intro d
  induction d with
  | zero => intro s h; exact absurd h (Nat.not_lt_zero _)
  | succ d ih =>
    intro s hs
    rw [parserRun_succ]
    refine SatS.intro_state (fun l0 e0 hinit0 => ?_)
    let g := initGhost s l0 e0
    have hgl : ops g.line = ops s := ops_ofInput s
    have hH := real_hooksOrd_o g (initGhost_wf s l0 e0) d s.length (s.length + 1)
    have hrun := run_sound_ord real_WF _ hH 1073741824
    have hexn : ∀ x, EngineExn (AE (ops g.line) (npOf (parserRun d))) x → NoLRFuel x := by
      rintro x ((hx | ⟨s', b, l, e, e', hlt, hr⟩) | hx | hx)
      · exact hx
      · rw [run_npOf] at hr
        have hin := ih s' (by omega) (C11.nestedLocal l s' b) e
          ⟨rfl, rfl, rfl, rfl, Or.inl rfl⟩
        rcases hr2 : M.run (parserRun d) (C11.nestedLocal l s' b) e with ⟨r, e2⟩
        rw [hr2] at hr hin
        cases r with
        | ok v => obtain ⟨r, l'⟩ := v; simp only [] at hr; cases hr
        | error y =>
          simp only [] at hr
          cases hr
          exact hin
      · rw [hx]; exact noLRFuel_site (by decide)
      · rw [hx]; intro h; cases h
    refine SatS.bind (Q := fun _ _ _ => True) (SatS.weaken hrun ?_ (fun _ _ _ _ => True.intro) hexn)
      (fun res => ?_)
    · rintro l e ⟨rfl, rfl⟩
      refine ⟨⟨⟨0, 0, Nat.le_refl 0, Nat.le_refl 0,
        ⟨⟨tokSpans.init s l e hinit0, fun _ => rem_init hinit0⟩, good_init hinit0⟩, ?_⟩, ?_, ?_⟩,
        ?_, ?_⟩
      · intro x hx; cases hx
      · intro x hx; cases hx
      · intro x hx; cases hx
      · intro x hx; cases hx
      · intro x hx; cases hx
    · refine SatS.of_sat (sat_bindN noExn_get (fun l => ?_)) _
      split <;> exact Sat.pure trivial

end Bashlex.C01E.Nest
