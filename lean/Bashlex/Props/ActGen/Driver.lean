/-
  ActGen, the top-level driver.  `parse()`, `parsesingle()`, `_parser.parse()` and `_endfinder` of
  parser.py are NOT expressed in the statement language of the actions (a `while` over a string
  index with an early `break`, three visitor objects, `copy.copy(yaccparser)`): the translator
  checks their bodies against fixed skeletons (`DRIVER_*` in tools/extract.py; it raises on any
  deviation) and emits the two numeric constants of `parse()`.  Here:
    `parseD floor step` — `Model/Parse.lean`'s `parse` with the two constants as parameters;
    `parseD_gen`        — with the generated constants it IS `parse`;
    `driver_pieces`     — what the skeleton's three visitor uses compute, from the GENERATED visitor
                          (`Props/C15Gen`): `_endfinder` gives `Node.lastHeredocEnd` (hence
                          `max(part.pos[1], ef.end)` is `nextIndex`), `posshifter(index)` gives
                          `Node.shift index`; `posconverter` only re-presents spans (the model leaves it
                          to the driver program).
-/
import Bashlex.Model.Parse
import Bashlex.Gen.Actions
import Bashlex.Props.C15Gen

namespace Bashlex.ActGen
open Bashlex

/-- the `while index < len(s)` loop of `parse()` with `index + step` as the least advance -/
def parseLoopD (step : Nat) (s : Str) (o : Opts) :
    Nat → Nat → List Node → List Char → Except Exn (List Node) × List Char
  | 0, _, _, touched => (.error (.outOfFuel "parse"), touched)
  | fuel + 1, index, parts, touched =>
    if index < s.length then
      match runParser (s.drop index) o touched with
      | (.error e, t) => (.error e, t)
      | (.ok none, t) => (.ok parts, t)
      | (.ok (some part), t) =>
        let part := part.shift index
        parseLoopD step s o fuel (max (nextIndex part) (index + step)) (parts ++ [part]) t
    else (.ok parts, touched)

/-- `parse()` with its two constants as parameters -/
def parseD (floor step : Nat) (s : Str) (o : Opts := {}) : Outcome × List Char :=
  match runParser s o [] with
  | (.error e, t) => (.exn e, t)
  | (.ok none, t) => (.parts [], t)
  | (.ok (some first), t) =>
    match parseLoopD step s o (s.length + 1) (max (nextIndex first) floor) [first] t with
    | (.error e, t) => (.exn e, t)
    | (.ok parts, t) => (.parts parts, t)

theorem parseLoopD_one (s : Str) (o : Opts) : ∀ fuel index parts touched,
    parseLoopD 1 s o fuel index parts touched = parseLoop s o fuel index parts touched
  | 0, _, _, _ => rfl
  | fuel + 1, index, parts, touched => by
    unfold parseLoopD parseLoop
    split
    · split <;> simp_all [parseLoopD_one s o fuel]
    · rfl

/-- **with the constants the translator read off `parse()`, the parametrised driver is the model's** -/
theorem parseD_gen (s : Str) (o : Opts) : parseD Gen.parseFirstFloor Gen.parseStep s o = parse s o := by
  unfold parseD parse
  split <;> simp_all [Gen.parseFirstFloor, Gen.parseStep, parseLoopD_one]
  rfl

/-- the visitor objects of the skeleton, computed by the visitor GENERATED from ast.py -/
theorem driver_pieces (part : Node) (index : Nat) :
    -- `ef = _endfinder(); ef.visit(part); max(part.pos[1], ef.end)`
    nextIndex part =
      (match Props.endfinderRun (Props.EvT.evs (Props.visitT Gen.visitDispatch (fun _ => false) part)) with
       | some e => max part.pos.2 e
       | none => part.pos.2) ∧
    -- `ast.posshifter(index).visit(part)`
    Props.mapT Gen.visitDispatch (fun p => some (p.1 + index, p.2 + index)) part =
      some (part.shift index) := by
  refine ⟨?_, Props.posshifter_eq_shift index part⟩
  rw [Props.endfinder_gen, nextIndex]
  rfl

end Bashlex.ActGen
