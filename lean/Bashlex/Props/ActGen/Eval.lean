/-
  ActGen: an interpreter for the action terms `Gen.AProg` that `tools/extract.py` (`gen_actions`)
  translates from the Python AST of the `p_*` functions of parser.py (`Gen/Actions.lean`).

  The interpreter knows no action by name.  Values are the model's `SVal`; Python's dynamic typing
  shows up as coercions at the places where the code USES a value, with the failure the hand
  model uses at the same place (site = the name of the action function):
    `p[i]` as an element of a list / argument of `append`   → `PCtx.nodeAt i f`   (AttributeError)
    `p[i]` as a list (`p[0] = p[i]` before `append`/`extend`, `extend(p[i])`) → `PCtx.nodesAt i f` (TypeError)
    `p.slice[i]` handed to `_expandword`, `p[i]` as a string attribute       → `PCtx.tokAt i` / `PCtx.strAt i`
  (in Python a wrongly-typed value would travel on and fail later or not at all; the typed AST cannot
  hold it.  The LR soundness theorem with the sorts of C12 shows no such slice reaches an action.)
-/
import Bashlex.Model.Actions
import Bashlex.Gen.Actions
import Bashlex.Proofs.Hoare

namespace Bashlex.ActGen
open Bashlex Bashlex.Gen

/-- local variables of an action (`"0"` is `p[0]`) -/
abbrev Env := List (String × SVal)

def notModelled {α : Type} (what : String) : M α := M.foreign "NotModelled" ("ActGen " ++ what)

def getNode (env : Env) (x : String) : M Node :=
  match env.lookup x with
  | some (.node n) => pure n
  | _ => notModelled ("node variable " ++ x)

def getList (env : Env) (x : String) : M (List Node) :=
  match env.lookup x with
  | some (.nodes l) => pure l
  | _ => notModelled ("list variable " ++ x)

/-- a string-valued local variable is kept as a token that carries just that value -/
def strVal (w : Str) : SVal := .tok { value := .str w }

def getStr (env : Env) (x : String) : M Str :=
  match env.lookup x with
  | some (.tok t) => pure t.valueStr
  | _ => notModelled ("string variable " ++ x)

/-- an index into a list kept in a local variable (`function.name`, `function.body`) -/
def idxVal (k : Nat) : SVal := .tok { value := .int k }

def getIdx (env : Env) (x : String) : M Nat :=
  match env.lookup x with
  | some (.tok { value := .int k, .. }) => pure k
  | _ => notModelled ("index variable " ++ x)

/-- `tokenizer.tokentype.T` by name -/
def tokTypeOf (t : String) : Option TokType := TokType.all.find? (fun ty => ty.name == t)

/-- the kinds with one string attribute, and its name -/
def leafKind (kind : String) : Option (String × (Span → Str → Node)) :=
  if kind = "reservedword" then some ("word", .reservedword)
  else if kind = "operator" then some ("op", .operator)
  else if kind = "pipe" then some ("pipe", .pipe)
  else none

/-! ### `for i in range(1, len(p))` loops that fill a list -/

def testHolds (v : SVal) : ATest → Bool
  | .isNode => v.isNode
  | .isList => match v with | .nodes _ => true | _ => false
  | .isToken => match v with | .tok _ => true | _ => false
  | .ttypeEq t => match v, tokTypeOf t with | .tok tk, some ty => tk.is ty | _, _ => false

/-- the first arm all of whose tests hold -/
def findArmC (arms : List (List ATest × AElem)) (v : SVal) : Option AElem :=
  match arms with
  | [] => none
  | (ts, e) :: rest => if ts.all (testHolds v) then some e else findArmC rest v

/-- what the iteration for the slot value `v` appends -/
def contrib (np : NestedParse) (arms : List (List ATest × AElem)) (v : SVal) : M (List Node) :=
  match findArmC arms v with
  | none => pure []
  | some .skip => pure []
  | some .nodeArg => match v with | .node n => pure [n] | _ => notModelled "append of a non-node"
  | some .listArg => match v with | .nodes l => pure l | _ => notModelled "extend by a non-list"
  | some .expand =>
    match v with
    | .tok t => do pure [← expandword np t]
    | _ => M.foreign "AttributeError" "p.slice"
  | some (.leaf kind attr) =>
    match leafKind kind with
    | some (a, c) =>
      if a = attr then
        -- `word=p[i]`: the value of the token (`str()` of it in the node; `p[i]` of an empty slot is None)
        pure [c v.lexspan (match v with | .tok t => tvalStr t.value | _ => "None".toList)]
      else notModelled ("attributes of " ++ kind)
    | none => notModelled ("kind " ++ kind)

/-- the loop: one contribution per slot, in order -/
def collectFrom (np : NestedParse) (arms : List (List ATest × AElem)) :
    List Node → List SVal → M (List Node)
  | acc, [] => pure acc
  | acc, a :: as => do
    let c ← contrib np arms a
    collectFrom np arms (acc ++ c) as

/-- a string attribute of a node, by name -/
def nodeStrAttr (n : Node) (attr : String) : Option Str :=
  match n with
  | .operator _ s => if attr = "op" then some s else none
  | .reservedword _ s => if attr = "word" then some s else none
  | .pipe _ s => if attr = "pipe" then some s else none
  | _ => none

/-- replace the first element `test` accepts -/
def replaceFirstL (test : Node → Bool) (mk : Node → Node) : List Node → List Node
  | [] => []
  | n :: rest => if test n then mk n :: rest else n :: replaceFirstL test mk rest

section
variable (np : NestedParse) (f : String) (p : PCtx)

def evalNode (env : Env) : ANode → M Node
  | .arg i => p.nodeAt i f
  | .var x => getNode env x
  | .expand i => do expandword np (← p.tokAt i)
  | .head x => do
    match (← getList env x).head? with
    | some n => pure n
    | none => M.foreign "IndexError" f
  | .argHead i => do
    match (← p.nodesAt i f).head? with
    | some n => pure n
    | none => M.foreign "IndexError" f

def evalNodes (env : Env) : List ANode → M (List Node)
  | [] => pure []
  | e :: es => do
    let n ← evalNode np f p env e
    let ns ← evalNodes env es
    pure (n :: ns)

def evalList (env : Env) : AList → M (List Node)
  | .arg i => p.nodesAt i f
  | .argLast => p.nodesAt (p.len - 1) f
  | .var x => getList env x
  | .lit es => evalNodes np f p env es
  | .makeparts => makeparts p

def evalSpan (env : Env) : ASpan → M Span
  | .lexspan i => pure (p.lexspan i)
  | .partsspan l => do partsspan (← evalList np f p env l)
  | .pair i j => pure ((p.lexspan i).1, (p.lexspan j).2)
  | .lexspanEnd k => pure (p.lexspan (p.len - k))
  | .ends l => do
    let l ← evalList np f p env l
    match l.head?, l.getLast? with
    | some a, some b => pure ((← nodePos a).1, (← nodePos b).2)
    | _, _ => M.foreign "IndexError" f
  | .between a b => do
    let a ← evalNode np f p env a
    let b ← evalNode np f p env b
    pure ((← nodePos a).1, (← nodePos b).2)
  | .posOf a => do nodePos (← evalNode np f p env a)

/-- a string-valued attribute -/
def evalStr : AAttr → M Str
  | .tokval i => p.strAt i
  | .tokvalEnd k => p.strAt (p.len - k)
  | .str s => pure s.toList
  | _ => notModelled "string attribute"

/-- `input`/`output` of a redirect when it is no node: None, a number or a string -/
def redirInOf (v : TVal) : RedirIn :=
  match v with | .int k => .num k | .str s => .str s | .none => .none

/-- the `input` attribute of a redirect -/
def evalInput : AAttr → M RedirIn
  | .none => pure .none
  | .tokraw i => do
    let t ← p.tokAt i
    pure (redirInOf t.value)
  | _ => notModelled "input attribute"

/-- the `output` attribute of a redirect: a node, or a token value (`p[i]` of a non-token has no
    value: the failure of `p.slice[i]`'s users) -/
def evalOutput (env : Env) : AAttr → M (Option Node × RedirIn)
  | .var x =>
    match env.lookup x with
    | some (.node w) => pure (some w, .none)
    | some (.tok t) => pure (none, redirInOf t.value)
    | _ => M.foreign "AttributeError" "p.slice"
  | _ => notModelled "output attribute"

/-- a list-valued attribute -/
def evalListAttr (env : Env) : AAttr → M (List Node)
  | .list l => evalList np f p env l
  | _ => notModelled "list attribute"

/-- the kinds whose only attribute is `parts` -/
def partsKind (kind : String) : Option (Span → List Node → Node) :=
  if kind = "list" then some .list else if kind = "pipeline" then some .pipeline
  else if kind = "if" then some .ifN else if kind = "for" then some .forN
  else if kind = "while" then some .whileN else if kind = "until" then some .untilN
  else if kind = "case" then some .caseN else if kind = "pattern" then some .pattern
  else if kind = "command" then some .command else if kind = "unimplemented" then some .unimplemented
  else none

/-- `ast.node(kind=K, a₁=v₁, …, pos=s)`: the attributes are evaluated first, `pos` last -/
def mkNode (env : Env) (kind : String) (attrs : List (String × AAttr)) (pos : ASpan) : M Node :=
  match leafKind kind with
  | some (a, c) =>
    match attrs with
    | [(a', v)] =>
      if a' = a then do
        let s ← evalStr p v
        let sp ← evalSpan np f p env pos
        pure (c sp s)
      else notModelled ("attributes of " ++ kind)
    | _ => notModelled ("attributes of " ++ kind)
  | none =>
    match partsKind kind with
    | some c =>
      match attrs with
      | [(a', v)] =>
        if a' = "parts" then do
          let l ← evalListAttr np f p env v
          let sp ← evalSpan np f p env pos
          pure (c sp l)
        else notModelled ("attributes of " ++ kind)
      | _ => notModelled ("attributes of " ++ kind)
    | none =>
      if kind = "compound" then
        match attrs with
        | [(a1, v1), (a2, v2)] =>
          if a1 = "list" ∧ a2 = "redirects" then do
            let l ← evalListAttr np f p env v1
            let r ← evalListAttr np f p env v2
            let sp ← evalSpan np f p env pos
            pure (.compound sp l r)
          else if a1 = "redirects" ∧ a2 = "list" then do
            let r ← evalListAttr np f p env v1
            let l ← evalListAttr np f p env v2
            let sp ← evalSpan np f p env pos
            pure (.compound sp l r)
          else notModelled "attributes of compound"
        | _ => notModelled "attributes of compound"
      else if kind = "word" then
        match attrs with
        | [(a1, v1), (a2, v2)] =>
          if a1 = "word" ∧ a2 = "parts" then do
            let w ← evalStr p v1
            let l ← evalListAttr np f p env v2
            let sp ← evalSpan np f p env pos
            pure (.word sp w l)
          else notModelled "attributes of word"
        | _ => notModelled "attributes of word"
      else if kind = "redirect" then
        match attrs with
        | [(a1, v1), (a2, v2), (a3, v3), (a4, v4)] =>
          if a1 = "input" ∧ a2 = "type" ∧ a3 = "heredoc" ∧ a4 = "output" ∧ v3 = .none then do
            let i ← evalInput p v1
            let t ← evalStr p v2
            let o ← evalOutput env v4
            let sp ← evalSpan np f p env pos
            pure (.redirect sp i t o.1 o.2 none none)
          else notModelled "attributes of redirect"
        | _ => notModelled "attributes of redirect"
      else notModelled ("kind " ++ kind)

def exec (env : Env) : AStmt → M Env
  | .ret i => pure (("0", p.slice i) :: env)
  | .setList x e => do
    let l ← evalList np f p env e
    pure ((x, .nodes l) :: env)
  | .setNode x e => do
    let n ← evalNode np f p env e
    pure ((x, .node n) :: env)
  | .setRaw x i => pure ((x, p.slice i) :: env)
  | .mk x kind attrs pos => do
    let n ← mkNode np f p env kind attrs pos
    pure ((x, .node n) :: env)
  | .append x e => do
    let l ← getList env x
    let n ← evalNode np f p env e
    pure ((x, .nodes (l ++ [n])) :: env)
  | .extend x e => do
    let l ← getList env x
    let r ← evalList np f p env e
    pure ((x, .nodes (l ++ r)) :: env)
  | .setKind x kind => do
    -- re-kinding is modelled for the one use the sources have, word → assignment; as in the hand
    -- model any other first element is left as it is (`_expandword` only returns word nodes)
    match ← getList env x with
    | [] => M.foreign "IndexError" f
    | n :: rest =>
      if kind = "assignment" then
        match n with
        | .word pos s parts => pure ((x, .nodes (.assignment pos s parts :: rest)) :: env)
        | _ => pure ((x, .nodes (n :: rest)) :: env)
      else notModelled ("kind assignment " ++ kind)
  | .setWord v x => do
    -- `x[0].word`: the hand model has ONE failure for "no first element" and "the first element has no
    -- `.word`" (AttributeError; Python raises IndexError for the former)
    match (← getList env x).head? with
    | some (.reservedword _ w) => pure ((v, strVal w) :: env)
    | _ => M.foreign "AttributeError" f
  | .assertIn v ss => do
    let w ← getStr env v
    if ss.contains (String.ofList w) then pure env else M.foreign "AssertionError" f
  | .mkDyn x v parts pos => do
    let w ← getStr env v
    match partsKind (String.ofList w) with
    | some c => do
      let l ← evalList np f p env parts
      let sp ← evalSpan np f p env pos
      pure ((x, .node (c sp l)) :: env)
    | none => notModelled ("kind " ++ String.ofList w)
  | .collect x arms => do
    let l ← getList env x
    let l' ← collectFrom np arms l p.args
    pure ((x, .nodes l') :: env)
  | .replaceFirst x kind attr val kind2 attr2 val2 => do
    let l ← getList env x
    match leafKind kind2 with
    | some (a, c) =>
      if a = attr2 then
        pure ((x, .nodes (replaceFirstL
          (fun n => n.kind == kind && nodeStrAttr n attr == some val.toList)
          (fun n => c n.pos val2.toList) l)) :: env)
      else notModelled ("attributes of " ++ kind2)
    | none => notModelled ("kind " ++ kind2)
  | .setLast v x => do
    let l ← getList env x
    if l.isEmpty then M.foreign "IndexError" f else pure ((v, idxVal (l.length - 1)) :: env)
  | .setFirstKind v x kind => do
    let l ← getList env x
    if l.isEmpty then M.foreign "IndexError" f
    else pure ((v, idxVal (match l.findIdx? (fun n => n.kind == kind) with
      | some i => i
      | none => l.length - 1)) :: env)
  | .mkFunction y n b x => do
    let l ← getList env x
    let ni ← getIdx env n
    let bi ← getIdx env b
    let sp ← partsspan l
    pure ((y, .node (.function sp ni bi l)) :: env)
  | .flagIfAdd a b =>
    -- the two flags of `flags.parser` the translated actions touch
    if a = "CMDSUBST" ∧ b = "EOFTOKEN" then do
      if (← get).ps.cmdsubst then modify fun l => { l with ps := { l.ps with eoftoken := true } }
      pure env
    else notModelled ("parser flags " ++ a ++ " " ++ b)
  | .accept => pure (("%accept", .none) :: env)
  | .prependPart x e => do
    let n ← getNode env x
    let e ← evalNode np f p env e
    match n with
    | .pipeline _ parts =>
      let parts' := e :: parts
      match parts'.head?, parts'.getLast? with
      | some a, some b =>
        pure ((x, .node (.pipeline ((← nodePos a).1, (← nodePos b).2) parts')) :: env)
      | _, _ => M.foreign "IndexError" f
    | _ => notModelled "insert into the parts of a node that is no pipeline"
  | .pushRedir x kill => do
    -- the model keeps the mutable part of a pending here-document redirect (its `pos`, later its
    -- body) in the store, under the index the node carries; the stack holds (index, kill flag)
    match ← getNode env x with
    | .redirect pos i t (some (.word wp delim wps)) oa none none => do
      let l ← get
      let id := l.store.length
      set { l with store := l.store ++ [({ pos := pos, delim := delim } : RedirCell)],
                   redirstack := l.redirstack ++ [(id, kill)] }
      pure ((x, .node (.redirect pos i t (some (.word wp delim wps)) oa none (some id))) :: env)
    | _ => notModelled "redirstack.append of something else than a fresh here-document redirect"
  | .gather => do
    gatherheredocuments
    pure env
  | .assertLenArg i n => do
    if (← p.nodesAt i f).length == n then pure env else M.foreign "AssertionError" f
  | .assertKind e kind => do
    let n ← evalNode np f p env e
    handleAssert (n.kind == kind)
    pure env
  | .extendRedirects x l => do
    let n ← getNode env x
    let reds ← evalList np f p env l
    match n with
    | .compound pos li r =>
      let r' := r ++ reds
      match r'.getLast? with
      | none => M.foreign "IndexError" f
      | some last => do
        let e := (← nodePos last).2
        handleAssert (pos.1 < e)
        pure ((x, .node (.compound (pos.1, e) li r')) :: env)
    | _ => M.foreign "AttributeError" f        -- `.redirects` of a node that has none
  | .notImplemented what => do
    let v ← handleNotImplemented p what
    pure (("0", v) :: env)

def execs (env : Env) : List AStmt → M Env
  | [] => pure env
  | s :: ss => do
    let env' ← exec np f p env s
    execs env' ss

/-- conditions; `p.slice[i].ttype` of a non-token is an AttributeError (`PCtx.tokAt`) -/
def evalCond (env : Env) : ACond → M Bool
  | .lenEq n => pure (p.len == n)
  | .valEq i s => pure (match p.slice i with | .tok t => t.value == .str s.toList | _ => false)
  | .lenGt x n => do pure ((← getList env x).length > n)
  | .isNode i => pure (p.slice i).isNode
  | .ttypeNe i t =>
    match tokTypeOf t with
    | some ty => do pure (!((← p.tokAt i).is ty))
    | none => notModelled ("token type " ++ t)
  | .ttypeEq i t =>
    match tokTypeOf t with
    | some ty => do pure ((← p.tokAt i).is ty)
    | none => notModelled ("token type " ++ t)
  | .ttypeEqEnd k t =>
    match tokTypeOf t with
    | some ty => do pure ((← p.tokAt (p.len - k)).is ty)
    | none => notModelled ("token type " ++ t)
  | .or a b => do
    if ← evalCond env a then pure true else evalCond env b
  | .and a b => do
    if ← evalCond env a then evalCond env b else pure false
  | .lenGtArg i n => do pure ((← p.nodesAt i f).length > n)
  | .lenEqArg i n => do pure ((← p.nodesAt i f).length == n)
  | .isNone i => pure (match p.slice i with | .none => true | _ => false)
  | .kindEq i kind => do pure ((← p.nodeAt i f).kind == kind)
  | .flag fl =>
    if fl = "CMDSUBST" then do pure (← get).ps.cmdsubst
    else if fl = "EOFTOKEN" then do pure (← get).ps.eoftoken
    else notModelled ("parser flag " ++ fl)
  | .atEofToken => do
    let l ← get
    pure (match l.eofToken with
      | some e => decide ({ l.currentToken with pos := none } = e)
      | none => false)

/-- run a function body and read `p[0]` (None if never assigned) and whether `p.accept()` was called -/
def evalProg (env : Env) : AProg → M (SVal × Bool)
  | .done => pure ((env.lookup "0").getD .none, (env.lookup "%accept").isSome)
  | .seq ss k => do
    let env' ← execs np f p env ss
    evalProg env' k
  | .ite c t e => do
    if ← evalCond f p env c then evalProg env t else evalProg env e

end

/-- **the interpreter**: the action `f` given by the term `prog`, on the slice `args` -/
def evalAct (np : NestedParse) (f : String) (prog : AProg) (args : List SVal) : M (SVal × Bool) :=
  evalProg np f { np := np, args := args } [] prog

end Bashlex.ActGen
