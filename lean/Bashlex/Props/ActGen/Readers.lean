/-
  ActGen, helpers: `_partsspan` only reads the state (the redirect store), so evaluating it twice
  is evaluating it once — the translated `p_if_command`/`p_case_command` call it twice, as the
  Python does (`pos=_partsspan(parts)` in the inner and in the outer `ast.node`), the hand model once.
-/
import Bashlex.Props.ActGen.Eval

namespace Bashlex.ActGen
open Bashlex Bashlex.Gen
set_option linter.unusedSimpArgs false

/-- the `pos` of a node in a given parser state -/
def posOf (s : Local) (n : Node) : Span :=
  match n with
  | .redirect p _ _ _ _ _ (some id) => match s.store[id]? with | some c => c.pos | none => p
  | _ => n.pos

theorem nodePos_eq (n : Node) : nodePos n = (do let s ← get; pure (posOf s n)) := by
  apply StateT.ext; intro s
  cases n <;> simp [nodePos, posOf]
  case redirect p i t o oa h hid =>
    cases hid <;> simp
    split <;> simp [*]

theorem raise_bind {α β : Type} (e : Exn) (k : α → M β) : (M.raise e >>= k) = M.raise e := by
  apply StateT.ext; intro s
  simp [M.raise, StateT.run, bind, StateT.bind, ExceptT.bind, ExceptT.mk, ExceptT.bindCont]
  rfl

/-- `_partsspan` twice is `_partsspan` once -/
theorem partsspan_dup {β : Type} (ps : List Node) (k : Span → Span → M β) :
    (partsspan ps >>= fun x => partsspan ps >>= fun y => k x y) = (partsspan ps >>= fun x => k x x) := by
  unfold partsspan
  cases h1 : ps.head? <;> cases h2 : ps.getLast? <;> simp [M.foreign, raise_bind]
  simp only [nodePos_eq]
  apply StateT.ext; intro s
  simp

theorem partsspan_dup' {β : Type} (ps : List Node) (g : Span → Span → β) :
    (partsspan ps >>= fun x => g x <$> partsspan ps) = (fun x => g x x) <$> partsspan ps := by
  have h := partsspan_dup ps (fun x y => (pure (g x y) : M β))
  simp only [map_eq_pure_bind]
  exact h


theorem raise_map {α β : Type} (e : Exn) (g : α → β) : g <$> (M.raise e : M α) = M.raise e := by
  rw [map_eq_pure_bind, raise_bind]

/-! ### a slot is a token or it is not (rewriting lemmas; `rw` also rewrites the instances of `ite`) -/

theorem tok_or_not (v : SVal) : (∃ t, v = .tok t) ∨ (∀ t, v ≠ .tok t) := by cases v <;> simp

theorem tokAt_tok {p : PCtx} {i : Nat} {t : Token} (h : p.slice i = .tok t) : p.tokAt i = pure t := by
  simp [PCtx.tokAt, h]

theorem tokAt_not {p : PCtx} {i : Nat} (h : ∀ t, p.slice i ≠ .tok t) :
    p.tokAt i = M.foreign "AttributeError" "p.slice" := by
  unfold PCtx.tokAt
  split
  · exact absurd ‹_› (h _)
  · rfl

theorem strAt_tok {p : PCtx} {i : Nat} {t : Token} (h : p.slice i = .tok t) :
    p.strAt i = pure t.valueStr := by
  simp [PCtx.strAt, tokAt_tok h]

theorem strAt_not {p : PCtx} {i : Nat} (h : ∀ t, p.slice i ≠ .tok t) :
    p.strAt i = M.foreign "AttributeError" "p.slice" := by
  simp [PCtx.strAt, tokAt_not h, M.foreign, raise_bind, raise_map]

theorem isTok_tok {p : PCtx} {i : Nat} {t : Token} (h : p.slice i = .tok t) (ty : TokType) :
    p.isTok i ty = t.is ty := by
  simp [PCtx.isTok, h]

theorem isTok_not {p : PCtx} {i : Nat} (h : ∀ t, p.slice i ≠ .tok t) (ty : TokType) :
    p.isTok i ty = false := by
  unfold PCtx.isTok
  split
  · exact absurd ‹_› (h _)
  · rfl

end Bashlex.ActGen
