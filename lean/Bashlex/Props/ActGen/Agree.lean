/-
  ActGen: for every translated action function, the interpreter on the generated term IS the
  corresponding arm of the hand-written `actionCore` — an equation between computations of the model
  monad (same queries, same state changes, same results, same exceptions) for ALL stack slices, except
  for ten functions (nine here, `p_redirection_heredoc` in `Loops.lean`) where the two sides differ only on ill-typed or ill-sized slices (which the LR
  engine never builds: C12 `parserRun_ok`) and only in WHICH foreign exception is raised.  Each of
  those is stated with its explicit, decidable condition (`sliceOK` in `All.lean`):
    `p_list1`, `p_simple_list1`, `p_pipeline`: the Python builds the operator node from `p[2]` before it
      touches `p[len(p)-1]`; the hand model (`joinLists`) coerces `p[len(p)-1]` first.  Equal unless BOTH
      are ill-typed (`p[2]` no token and `p[len(p)-1]` no list).
    `p_subshell`, `p_group_command`: the hand model names the failure site of a non-node `p[2]`
      `_partsspan`, the interpreter names it after the action.  Equal when `p[2]` is a node.
    `p_pattern_list`: the same for the pattern list (`p[2]`, resp. `p[3]`), which the hand model also
      coerces before `p[2]`'s token value is read.  Equal when it is a list.
    `p_redirection`: for `len(p) != 3` the Python reads `p[3]`, the hand model `p[len(p)-1]`: equal for
      the two lengths the grammar has (3 and 4); on a non-token operand both raise the same AttributeError.
    `p_function_body`: the hand model's `addRedirects` names the IndexError of an EMPTY redirect list
      after the site `p_command` whoever calls it.  Equal unless `p[2]` is the empty list.
    `p_command`: the hand model coerces `p[2]` before it asserts `kind == 'compound'` (Python: after),
      and names the site of a non-list `p[1]` `_partsspan`.  Equal when `p[1]` is a node (and `p[2]` a
      list if `len(p) == 3`) or a list.
  Two facts about `_partsspan` carry the cases where the Python calls it twice and the hand model
  once, or the hand model calls it before an assert fails: it only reads the state
  (`partsspan_dup`, `partsspan_discard`).
-/
import Bashlex.Props.ActGen.Readers

namespace Bashlex.ActGen
open Bashlex Bashlex.Gen
set_option linter.unusedSimpArgs false

/-- `p[i]` as the model sees it (`PCtx.slice`) -/
def slot (args : List SVal) (i : Nat) : SVal := args.getD (i - 1) .none
def isTokV : SVal → Bool | .tok _ => true | _ => false
def isNodesV : SVal → Bool | .nodes _ => true | _ => false

theorem slice_eq (np : NestedParse) (args : List SVal) (i : Nat) :
    PCtx.slice { np := np, args := args } i = slot args i := rfl

/-- unfold the arm of `actionCore` and the interpreter on the concrete term, normalise both with the
    monad laws -/
macro "actgen" : tactic => `(tactic|
  (unfold actionCore; simp only []
   simp [evalAct, evalProg, evalCond, execs, exec, List.lookup, evalList, evalNodes, evalNode, getList, getNode,
     mkNode, leafKind, partsKind, evalStr, evalSpan, evalListAttr, reservedAt, operatorAt, joinLists,
     mkCompound1]))

theorem actgen_p_word_list (np : NestedParse) (args : List SVal) :
    evalAct np "p_word_list" act_p_word_list args = actionCore np "p_word_list" args := by
  unfold act_p_word_list; actgen

theorem actgen_p_redirection_list (np : NestedParse) (args : List SVal) :
    evalAct np "p_redirection_list" act_p_redirection_list args = actionCore np "p_redirection_list" args := by
  unfold act_p_redirection_list; actgen

theorem actgen_p_simple_command (np : NestedParse) (args : List SVal) :
    evalAct np "p_simple_command" act_p_simple_command args = actionCore np "p_simple_command" args := by
  unfold act_p_simple_command; actgen

theorem actgen_p_case_clause (np : NestedParse) (args : List SVal) :
    evalAct np "p_case_clause" act_p_case_clause args = actionCore np "p_case_clause" args := by
  unfold act_p_case_clause; actgen

theorem actgen_p_case_clause_sequence (np : NestedParse) (args : List SVal) :
    evalAct np "p_case_clause_sequence" act_p_case_clause_sequence args = actionCore np "p_case_clause_sequence" args := by
  unfold act_p_case_clause_sequence; actgen

theorem actgen_p_pattern (np : NestedParse) (args : List SVal) :
    evalAct np "p_pattern" act_p_pattern args = actionCore np "p_pattern" args := by
  unfold act_p_pattern; actgen

theorem actgen_p_list (np : NestedParse) (args : List SVal) :
    evalAct np "p_list" act_p_list args = actionCore np "p_list" args := by
  unfold act_p_list; actgen

theorem actgen_p_simple_list_terminator (np : NestedParse) (args : List SVal) :
    evalAct np "p_simple_list_terminator" act_p_simple_list_terminator args = actionCore np "p_simple_list_terminator" args := by
  unfold act_p_simple_list_terminator; actgen

theorem actgen_p_newline_list (np : NestedParse) (args : List SVal) :
    evalAct np "p_newline_list" act_p_newline_list args = actionCore np "p_newline_list" args := by
  unfold act_p_newline_list; actgen

theorem actgen_p_empty (np : NestedParse) (args : List SVal) :
    evalAct np "p_empty" act_p_empty args = actionCore np "p_empty" args := by
  unfold act_p_empty; actgen

theorem actgen_p_arith_for_command (np : NestedParse) (args : List SVal) :
    evalAct np "p_arith_for_command" act_p_arith_for_command args = actionCore np "p_arith_for_command" args := by
  unfold act_p_arith_for_command; actgen

theorem actgen_p_select_command (np : NestedParse) (args : List SVal) :
    evalAct np "p_select_command" act_p_select_command args = actionCore np "p_select_command" args := by
  unfold act_p_select_command; actgen

theorem actgen_p_coproc (np : NestedParse) (args : List SVal) :
    evalAct np "p_coproc" act_p_coproc args = actionCore np "p_coproc" args := by
  unfold act_p_coproc; actgen

theorem actgen_p_arith_command (np : NestedParse) (args : List SVal) :
    evalAct np "p_arith_command" act_p_arith_command args = actionCore np "p_arith_command" args := by
  unfold act_p_arith_command; actgen

theorem actgen_p_cond_command (np : NestedParse) (args : List SVal) :
    evalAct np "p_cond_command" act_p_cond_command args = actionCore np "p_cond_command" args := by
  unfold act_p_cond_command; actgen

theorem actgen_p_timespec (np : NestedParse) (args : List SVal) :
    evalAct np "p_timespec" act_p_timespec args = actionCore np "p_timespec" args := by
  unfold act_p_timespec; actgen

theorem actgen_p_if_command (np : NestedParse) (args : List SVal) :
    evalAct np "p_if_command" act_p_if_command args = actionCore np "p_if_command" args := by
  unfold act_p_if_command; actgen
  simp only [partsspan_dup']

theorem actgen_p_case_command (np : NestedParse) (args : List SVal) :
    evalAct np "p_case_command" act_p_case_command args = actionCore np "p_case_command" args := by
  unfold act_p_case_command; actgen
  simp only [partsspan_dup']

theorem actgen_p_list1 (np : NestedParse) (args : List SVal)
    (h : isTokV (slot args 2) = true ∨ isNodesV (slot args args.length) = true) :
    evalAct np "p_list1" act_p_list1 args = actionCore np "p_list1" args := by
  unfold act_p_list1; actgen
  split
  · simp
  · simp only [PCtx.strAt, PCtx.tokAt, PCtx.nodesAt, slice_eq, PCtx.len, Nat.add_sub_cancel]
    cases hi : slot args 2 <;> cases hj : slot args args.length <;>
      simp [hi, hj, isTokV, isNodesV, M.foreign, raise_bind] at h ⊢

theorem actgen_p_simple_list1 (np : NestedParse) (args : List SVal)
    (h : isTokV (slot args 2) = true ∨ isNodesV (slot args args.length) = true) :
    evalAct np "p_simple_list1" act_p_simple_list1 args = actionCore np "p_simple_list1" args := by
  unfold act_p_simple_list1; actgen
  split
  · simp
  · simp only [PCtx.strAt, PCtx.tokAt, PCtx.nodesAt, slice_eq, PCtx.len, Nat.add_sub_cancel]
    cases hi : slot args 2 <;> cases hj : slot args args.length <;>
      simp [hi, hj, isTokV, isNodesV, M.foreign, raise_bind] at h ⊢

theorem actgen_p_pipeline (np : NestedParse) (args : List SVal)
    (h : isTokV (slot args 2) = true ∨ isNodesV (slot args args.length) = true) :
    evalAct np "p_pipeline" act_p_pipeline args = actionCore np "p_pipeline" args := by
  unfold act_p_pipeline; actgen
  split
  · simp
  · simp only [PCtx.strAt, PCtx.tokAt, PCtx.nodesAt, slice_eq, PCtx.len, Nat.add_sub_cancel]
    cases hi : slot args 2 <;> cases hj : slot args args.length <;>
      simp [hi, hj, isTokV, isNodesV, M.foreign, raise_bind] at h ⊢

theorem actgen_p_subshell (np : NestedParse) (args : List SVal) (h : (slot args 2).isNode = true) :
    evalAct np "p_subshell" act_p_subshell args = actionCore np "p_subshell" args := by
  unfold act_p_subshell; actgen
  simp only [PCtx.nodeAt, slice_eq]
  cases hi : slot args 2 <;> simp [hi, SVal.isNode] at h ⊢

theorem actgen_p_group_command (np : NestedParse) (args : List SVal) (h : (slot args 2).isNode = true) :
    evalAct np "p_group_command" act_p_group_command args = actionCore np "p_group_command" args := by
  unfold act_p_group_command; actgen
  simp only [PCtx.nodeAt, slice_eq]
  cases hi : slot args 2 <;> simp [hi, SVal.isNode] at h ⊢

theorem tokTypeOf_NEWLINE : tokTypeOf "NEWLINE" = some .NEWLINE := by decide

theorem actgen_p_list_terminator (np : NestedParse) (args : List SVal) :
    evalAct np "p_list_terminator" act_p_list_terminator args = actionCore np "p_list_terminator" args := by
  unfold act_p_list_terminator; actgen
  split <;> simp_all

theorem actgen_p_compound_list (np : NestedParse) (args : List SVal) :
    evalAct np "p_compound_list" act_p_compound_list args = actionCore np "p_compound_list" args := by
  unfold act_p_compound_list; actgen
  split
  · rfl
  · congr 1; funext a
    split
    · rfl
    · cases a.head? <;> simp [M.foreign, raise_map]

theorem actgen_p_list0 (np : NestedParse) (args : List SVal) :
    evalAct np "p_list0" act_p_list0 args = actionCore np "p_list0" args := by
  unfold act_p_list0; actgen
  simp only [tokTypeOf_NEWLINE]
  congr 1; funext a
  by_cases h : 1 < a.length <;> simp [h]
  rcases tok_or_not (PCtx.slice { np := np, args := args } 2) with ⟨t, ht⟩ | hn
  · rw [tokAt_tok ht, strAt_tok ht, isTok_tok ht]
    cases hb : t.is TokType.NEWLINE <;> cases a.head? <;> simp [hb, M.foreign, raise_map]
  · rw [tokAt_not hn, strAt_not hn, isTok_not hn]
    simp [M.foreign, raise_bind]

theorem actgen_p_pattern_list (np : NestedParse) (args : List SVal)
    (h : isNodesV (slot args (if args.length + 1 = 5 then 2 else 3)) = true) :
    evalAct np "p_pattern_list" act_p_pattern_list args = actionCore np "p_pattern_list" args := by
  unfold act_p_pattern_list; actgen
  simp only [PCtx.len] at *
  by_cases h5 : args.length + 1 = 5
  · simp only [h5, if_true] at h ⊢
    simp only [PCtx.nodesAt, PCtx.nodeAt]
    generalize PCtx.slice { np := np, args := args } 4 = x4
    rw [slice_eq]
    cases h2 : slot args 2 <;> simp [h2, isNodesV] at h ⊢
    cases x4 <;> simp [SVal.isNode]
  · simp only [h5, if_false] at h ⊢
    simp only [PCtx.nodesAt, PCtx.nodeAt]
    generalize PCtx.slice { np := np, args := args } 5 = x5
    rw [slice_eq]
    cases h3 : slot args 3 <;> simp [h3, isNodesV] at h ⊢
    cases x5 <;> simp [SVal.isNode]

theorem tokTypeOf_WORD : tokTypeOf "WORD" = some .WORD := by decide

theorem actgen_p_redirection (np : NestedParse) (args : List SVal)
    (h : args.length = 2 ∨ args.length = 3) :
    evalAct np "p_redirection" act_p_redirection args = actionCore np "p_redirection" args := by
  unfold act_p_redirection; actgen
  simp only [tokTypeOf_WORD, evalInput, evalOutput, redirInOf, List.lookup, PCtx.len, Nat.add_sub_cancel]
  rcases h with hl | hl
  · simp only [hl, if_true]
    rcases tok_or_not (PCtx.slice { np := np, args := args } 2) with ⟨t, ht⟩ | hn
    · rw [tokAt_tok ht, ht]
      cases hb : t.is TokType.WORD <;> simp [hb] <;> rfl
    · rw [tokAt_not hn]
      simp [M.foreign, raise_bind]
  · simp only [hl, show ¬ (3 + 1 = 3) by omega, if_false]
    rcases tok_or_not (PCtx.slice { np := np, args := args } 3) with ⟨t, ht⟩ | hn
    · rw [tokAt_tok ht, ht]
      cases hb : t.is TokType.WORD <;> simp [hb] <;> rfl
    · rw [tokAt_not hn]
      simp [M.foreign, raise_bind]
theorem tokTypeOf_ASSIGNMENT_WORD : tokTypeOf "ASSIGNMENT_WORD" = some .ASSIGNMENT_WORD := by decide

theorem actgen_p_simple_command_element (np : NestedParse) (args : List SVal) :
    evalAct np "p_simple_command_element" act_p_simple_command_element args =
      actionCore np "p_simple_command_element" args := by
  unfold act_p_simple_command_element; actgen
  simp only [tokTypeOf_ASSIGNMENT_WORD, PCtx.nodeAt]
  generalize hx : PCtx.slice { np := np, args := args } 1 = x
  cases x <;> simp [SVal.isNode]
  all_goals
    rcases tok_or_not (PCtx.slice { np := np, args := args } 1) with ⟨t, ht⟩ | hn
    · rw [tokAt_tok ht]
      simp only [pure_bind]
      congr 1; funext w
      split
      · cases w <;> simp [List.lookup]
      · rfl
    · rw [tokAt_not hn]
      simp [M.foreign, raise_bind]
theorem kind_compound (n : Node) : (n.kind == "compound") = isCompound n := by
  cases n <;> simp [Node.kind, isCompound]

theorem actgen_p_function_body (np : NestedParse) (args : List SVal) (h : slot args 2 ≠ .nodes []) :
    evalAct np "p_function_body" act_p_function_body args = actionCore np "p_function_body" args := by
  unfold act_p_function_body; actgen
  simp only [kind_compound, addRedirects, PCtx.nodeAt]
  generalize PCtx.slice { np := np, args := args } 1 = x
  cases x <;> simp [M.foreign, raise_bind]
  rename_i n
  cases n <;> simp [isCompound, handleAssert, M.foreign, raise_bind, raise_map]
  rename_i pos li r
  split
  · simp only [PCtx.nodesAt, slice_eq]
    cases h2 : slot args 2 <;> simp [h2, M.foreign, raise_bind] at h ⊢
    rename_i l
    cases hl : l.getLast? with
    | none => exact absurd (List.getLast?_eq_none_iff.1 hl) h
    | some last =>
      simp [hl, List.lookup]
  · rfl

/-- `p_command`: slot 1 is a node (and then, for `len(p) == 3`, slot 2 is a list) or slot 1 is a list -/
def commandOK (args : List SVal) : Bool :=
  ((slot args 1).isNode && (args.length + 1 != 3 || isNodesV (slot args 2))) || isNodesV (slot args 1)

theorem actgen_p_command (np : NestedParse) (args : List SVal) (h : commandOK args = true) :
    evalAct np "p_command" act_p_command args = actionCore np "p_command" args := by
  unfold act_p_command; actgen
  simp only [kind_compound, addRedirects, PCtx.nodeAt, PCtx.nodesAt, PCtx.len, slice_eq, commandOK] at h ⊢
  cases h1 : slot args 1 <;> simp [h1, SVal.isNode, isNodesV, M.foreign, raise_bind] at h ⊢
  rename_i n
  by_cases hl : args.length = 2 <;> simp [hl] at h ⊢
  cases h2 : slot args 2 <;> simp [h2] at h ⊢
  rename_i l
  cases n <;> simp [isCompound, handleAssert, M.foreign, raise_bind, raise_map]
  rename_i pos li r
  cases l.getLast?.or r.getLast? <;> simp [raise_map, List.lookup]
theorem ofList_eq_iff (w : List Char) (s : String) : String.ofList w = s ↔ w = s.toList := by
  constructor
  · intro h; subst h; simp
  · intro h; subst h; simp

theorem while_chars : "while".toList = ['w', 'h', 'i', 'l', 'e'] := by decide
theorem until_chars : "until".toList = ['u', 'n', 't', 'i', 'l'] := by decide
theorem ofList_while : String.ofList ['w', 'h', 'i', 'l', 'e'] = "while" := by decide
theorem ofList_until : String.ofList ['u', 'n', 't', 'i', 'l'] = "until" := by decide

/-- `_partsspan` of a non-empty list cannot fail and changes nothing: it can be dropped -/
theorem partsspan_discard {β : Type} (ps : List Node) (a : Node) (h : ps.head? = some a) (m : M β) :
    (partsspan ps >>= fun _ => m) = m := by
  unfold partsspan
  have hl : ∃ b, ps.getLast? = some b := by
    cases hb : ps.getLast? with
    | none => rw [List.getLast?_eq_none_iff] at hb; subst hb; simp at h
    | some b => exact ⟨b, rfl⟩
  obtain ⟨b, hb⟩ := hl
  simp only [h, hb, nodePos_eq]
  apply StateT.ext; intro s
  simp

theorem actgen_p_shell_command (np : NestedParse) (args : List SVal) :
    evalAct np "p_shell_command" act_p_shell_command args = actionCore np "p_shell_command" args := by
  unfold act_p_shell_command; actgen
  simp only [kind_compound, getStr, strVal, List.lookup]
  split
  · rfl
  · congr 1; funext parts
    cases hh : parts.head? with
    | none => simp [M.foreign, raise_bind]
    | some n =>
      cases n <;> simp [M.foreign, raise_bind]
      rename_i pos w
      by_cases hw : w = ['w', 'h', 'i', 'l', 'e']
      · subst hw
        simp [Token.valueStr, ofList_while, isCompound, handleAssert, List.lookup, partsspan_dup']
      · by_cases hu : w = ['u', 'n', 't', 'i', 'l']
        · subst hu
          simp [Token.valueStr, ofList_until, isCompound, handleAssert, List.lookup, partsspan_dup']
        · have h1 : String.ofList w ≠ "while" := by rw [Ne, ofList_eq_iff, while_chars]; exact hw
          have h2 : String.ofList w ≠ "until" := by rw [Ne, ofList_eq_iff, until_chars]; exact hu
          simp [Token.valueStr, h1, h2, hw, hu, M.foreign, raise_bind]
          exact (partsspan_discard parts _ hh _).symm
end Bashlex.ActGen
