/-
  ActGen, the loops: `for i in range(1, len(p))` filling a list (`AStmt.collect`; the helper `_makeparts`
  itself is translated: `makeparts_gen`), `p_elif_clause`, `p_for_command`, `p_function_def`, and the state-touching
  actions `p_inputunit`, `p_simple_list`, `p_pipeline_command`, `p_redirection_heredoc`.  All for all slices, except
  `p_redirection_heredoc`: the hand model's test of `p.slice[len(p)-2].ttype` is total (`PCtx.isTok`), Python's raises
  on a non-token: equal when that slot is a token.
-/
import Bashlex.Props.ActGen.Agree
namespace Bashlex.ActGen
open Bashlex Bashlex.Gen
set_option linter.unusedSimpArgs false

/-- the body of the loop of the hand-written `makeparts` -/
def makepartsBody (np : NestedParse) (a : SVal) (parts : List Node) : M (ForInStep (List Node)) :=
  match a with
  | .node n => pure (.yield (parts ++ [n]))
  | .nodes l => pure (.yield (parts ++ l))
  | .tok t =>
    if t.is .WORD then do pure (.yield (parts ++ [← expandword np t]))
    else pure (.yield (parts ++ [.reservedword (t.lexpos, t.endlexpos) (tvalStr t.value)]))
  | .none => pure (.yield parts)

theorem makeparts_body (p : PCtx) : makeparts p = (forIn p.args [] (makepartsBody p.np) >>= pure) := by
  unfold makeparts
  rfl

theorem step_makeparts (np : NestedParse) (a : SVal) (acc : List Node) :
    (do let c ← contrib np fn_makeparts a; pure (ForInStep.yield (acc ++ c))) = makepartsBody np a acc := by
  cases a <;> simp [contrib, fn_makeparts, findArmC, testHolds, SVal.isNode, tokTypeOf_WORD, leafKind,
    SVal.lexspan, makepartsBody]
  rename_i t
  cases t.is TokType.WORD <;> simp

theorem collect_forIn (np : NestedParse) (arms : List (List ATest × AElem))
    (body : SVal → List Node → M (ForInStep (List Node)))
    (hstep : ∀ a acc, (do let c ← contrib np arms a; pure (ForInStep.yield (acc ++ c))) = body a acc) :
    ∀ (args : List SVal) (acc : List Node), collectFrom np arms acc args = forIn args acc body
  | [], acc => by simp [collectFrom]
  | a :: as, acc => by
    rw [collectFrom, List.forIn_cons, ← hstep]
    simp only [bind_assoc, pure_bind]
    congr 1; funext c
    exact collect_forIn np arms body hstep as _

/-- **the helper `_makeparts` by translation** -/
theorem makeparts_gen (p : PCtx) : collectFrom p.np fn_makeparts [] p.args = makeparts p := by
  rw [makeparts_body, collect_forIn p.np fn_makeparts _ (step_makeparts p.np)]
  simp
/-- the body of the loop of the hand-written `p_elif_clause` -/
def elifBody (a : SVal) (parts : List Node) : M (ForInStep (List Node)) :=
  match a with
  | .node n => pure (.yield (parts ++ [n]))
  | .nodes l => pure (.yield (parts ++ l))
  | .tok t => pure (.yield (parts ++ [.reservedword (t.lexpos, t.endlexpos) (tvalStr t.value)]))
  | .none => pure (.yield (parts ++ [.reservedword (0, 0) "None".toList]))

theorem step_elif (np : NestedParse) (arms) (h : arms = [([ATest.isNode], AElem.nodeArg), ([.isList], .listArg), ([], .leaf "reservedword" "word")])
    (a : SVal) (acc : List Node) :
    (do let c ← contrib np arms a; pure (ForInStep.yield (acc ++ c))) = elifBody a acc := by
  subst h
  cases a <;> simp [contrib, findArmC, testHolds, SVal.isNode, leafKind, SVal.lexspan, elifBody]

theorem actgen_p_elif_clause (np : NestedParse) (args : List SVal) :
    evalAct np "p_elif_clause" act_p_elif_clause args = actionCore np "p_elif_clause" args := by
  unfold act_p_elif_clause; actgen
  rw [collect_forIn np _ elifBody (step_elif np _ rfl)]
  congr 1

theorem replaceFirst_fix (l : List Node) :
    replaceFirstL (fun n => n.kind == "operator" && nodeStrAttr n "op" == some [';'])
      (fun n => Node.reservedword n.pos [';']) l = actionCore.fix l := by
  induction l with
  | nil => simp [replaceFirstL, actionCore.fix]
  | cons n rest ih =>
    simp only [replaceFirstL, ih]
    cases n <;> simp [actionCore.fix, Node.kind, nodeStrAttr, Node.pos]

theorem actgen_p_for_command (np : NestedParse) (args : List SVal) :
    evalAct np "p_for_command" act_p_for_command args = actionCore np "p_for_command" args := by
  unfold act_p_for_command; actgen
  simp only [replaceFirst_fix, partsspan_dup']

theorem kind_word : (fun n : Node => n.kind == "word") =
    (fun n => match n with | .word .. => true | _ => false) := by
  funext n; cases n <;> simp [Node.kind]

theorem actgen_p_function_def (np : NestedParse) (args : List SVal) :
    evalAct np "p_function_def" act_p_function_def args = actionCore np "p_function_def" args := by
  unfold act_p_function_def; actgen
  simp [getIdx, idxVal, List.lookup]
  congr 1; funext parts
  by_cases h : parts = []
  · simp [h, M.foreign, raise_bind]
  · simp [h, List.lookup, kind_word]
    rfl
theorem actgen_p_inputunit (np : NestedParse) (args : List SVal) :
    evalAct np "p_inputunit" act_p_inputunit args = actionCore np "p_inputunit" args := by
  unfold act_p_inputunit; actgen
  congr 1; funext s
  generalize PCtx.slice { np := np, args := args } 1 = x
  cases x <;> cases s.ps.cmdsubst <;> simp [SVal.isNode, List.lookup]
theorem nodes_or_not (v : SVal) : (∃ l, v = .nodes l) ∨ (∀ l, v ≠ .nodes l) := by cases v <;> simp

theorem nodesAt_nodes {p : PCtx} {i : Nat} {l : List Node} (h : p.slice i = .nodes l) (site : String) :
    p.nodesAt i site = pure l := by
  simp [PCtx.nodesAt, h]

theorem nodesAt_not {p : PCtx} {i : Nat} (h : ∀ l, p.slice i ≠ .nodes l) (site : String) :
    p.nodesAt i site = M.foreign "TypeError" site := by
  unfold PCtx.nodesAt
  split
  · exact absurd ‹_› (h _)
  · rfl

/-- the tail of `p_simple_list`: `if len(p) == 2 and CMDSUBST and at the eof token: p.accept()` -/
theorem accept_tail (n : Nat) (v : SVal) (F : Local → Bool) :
    (do let b ← (if n = 2 then (do let a ← (get : M Local); if a.ps.cmdsubst = true then F <$> (get : M Local) else pure false)
                  else pure false)
        if b = true then pure (v, true) else pure (v, false)) =
      (fun a => (v, n == 2 && a.ps.cmdsubst && F a)) <$> (get : M Local) := by
  apply StateT.ext; intro s
  by_cases h : n = 2
  · cases hc : s.ps.cmdsubst <;> simp [h, hc]
    cases F s <;> simp
  · have hb : (n == 2) = false := beq_eq_false_iff_ne.2 h
    cases hc : s.ps.cmdsubst <;> simp [h, hc, hb]

theorem actgen_p_simple_list (np : NestedParse) (args : List SVal) :
    evalAct np "p_simple_list" act_p_simple_list args = actionCore np "p_simple_list" args := by
  unfold act_p_simple_list; actgen
  congr 1; funext u
  rcases nodes_or_not (PCtx.slice { np := np, args := args } 1) with ⟨l, hl⟩ | hn
  · simp only [nodesAt_nodes hl, pure_bind, map_pure]
    by_cases h3 : PCtx.len { np := np, args := args } = 3
    · simp only [h3, if_true, true_or, pure_bind, accept_tail]
      rfl
    · simp only [h3, if_false, false_or, pure_bind]
      by_cases h1 : 1 < l.length
      · simp only [h1, decide_true, if_true, accept_tail]
        rfl
      · simp only [h1, decide_false, if_false]
        rcases l with _ | ⟨n, _ | ⟨m, rest⟩⟩
        · simp [M.foreign, raise_bind]
        · simp only [List.length_singleton, if_true, pure_bind, List.head?_cons, List.lookup, Option.isSome_none,
            Bool.false_eq_true, if_false, accept_tail]
          rfl
        · simp [M.foreign, raise_bind]
  · simp only [nodesAt_not hn]
    by_cases h3 : PCtx.len { np := np, args := args } = 3 <;> simp [h3, M.foreign, raise_bind, raise_map]
theorem nodePos_reservedword (p : Span) (w : Str) : nodePos (.reservedword p w) = pure p := rfl

theorem actgen_p_pipeline_command (np : NestedParse) (args : List SVal) :
    evalAct np "p_pipeline_command" act_p_pipeline_command args = actionCore np "p_pipeline_command" args := by
  unfold act_p_pipeline_command; actgen
  by_cases h2 : PCtx.len { np := np, args := args } = 2
  · simp only [h2, if_true]
    rcases nodes_or_not (PCtx.slice { np := np, args := args } 1) with ⟨l, hl⟩ | hn
    · simp only [nodesAt_nodes hl, pure_bind]
      rcases l with _ | ⟨n, _ | ⟨m, rest⟩⟩ <;> simp [M.foreign, raise_map]
      cases (m :: rest).getLast? <;> simp [raise_map]
    · simp [nodesAt_not hn, M.foreign, raise_bind]
  · simp only [h2, if_false]
    cases hx : PCtx.slice { np := np, args := args } 2 with
    | none => simp [nodePos_reservedword, Node.pos]
    | tok t => simp [PCtx.nodeAt, hx, M.foreign, raise_bind]
    | nodes l => simp [PCtx.nodeAt, hx, M.foreign, raise_bind]
    | node n =>
      simp only [PCtx.nodeAt, hx, pure_bind]
      cases n <;> simp [Node.kind, nodePos_reservedword, Node.pos, List.lookup]
      rename_i pos parts
      cases (Node.reservedword (PCtx.lexspan { np := np, args := args } 1) ['!'] :: parts).getLast? <;>
        simp [M.foreign, raise_map, List.lookup, nodePos_reservedword]
theorem tokTypeOf_LESS_LESS : tokTypeOf "LESS_LESS" = some .LESS_LESS := by decide

theorem lexspan_tok {p : PCtx} {i : Nat} {t : Token} (h : p.slice i = .tok t) :
    p.lexspan i = (t.lexpos, t.endlexpos) := by
  simp [PCtx.lexspan, SVal.lexspan, h]

theorem actgen_p_redirection_heredoc (np : NestedParse) (args : List SVal)
    (h : isTokV (slot args (args.length - 1)) = true) :
    evalAct np "p_redirection_heredoc" act_p_redirection_heredoc args =
      actionCore np "p_redirection_heredoc" args := by
  unfold act_p_redirection_heredoc; actgen
  simp only [tokTypeOf_LESS_LESS, evalInput, evalOutput, redirInOf, List.lookup, PCtx.len, Nat.add_sub_cancel]
  have hidx : args.length + 1 - 2 = args.length - 1 := by omega
  simp only [hidx]
  obtain ⟨t2, ht2⟩ : ∃ t, PCtx.slice { np := np, args := args } (args.length - 1) = .tok t := by
    rw [slice_eq]; cases hs : slot args (args.length - 1) <;> simp [hs, isTokV] at h ⊢
  rw [tokAt_tok ht2, isTok_tok ht2]
  rcases tok_or_not (PCtx.slice { np := np, args := args } args.length) with ⟨w, hw⟩ | hn
  · rw [strAt_tok hw, tokAt_tok hw, lexspan_tok hw]
    by_cases h3 : args.length + 1 = 3
    · simp only [h3, if_true, beq_self_eq_true]
      cases hb : t2.is TokType.LESS_LESS <;> simp [hb, List.lookup]
    · simp only [h3, if_false]
      cases hb : t2.is TokType.LESS_LESS <;> simp [hb, List.lookup] <;> rfl
  · rw [strAt_not hn, tokAt_not hn]
    by_cases h3 : args.length + 1 = 3 <;> simp [h3, M.foreign, raise_bind]
end Bashlex.ActGen
