/-
  ActGen: the per-function equations collected (`actgen_agree`), and the coverage of the grammar's
  action functions by `Gen.actions` ++ `Gen.untranslated` (`actgen_covered`).
-/
import Bashlex.Props.ActGen.Loops
import Bashlex.Gen.Tables

namespace Bashlex.ActGen
open Bashlex Bashlex.Gen
set_option linter.unusedSimpArgs false

/-- the condition under which the equation is proved (true for every function but ten) -/
def sliceOK (f : String) (args : List SVal) : Bool :=
  if f = "p_list1" ∨ f = "p_simple_list1" ∨ f = "p_pipeline" then
    isTokV (slot args 2) || isNodesV (slot args args.length)
  else if f = "p_subshell" ∨ f = "p_group_command" then (slot args 2).isNode
  else if f = "p_pattern_list" then isNodesV (slot args (if args.length + 1 = 5 then 2 else 3))
  else if f = "p_redirection" then args.length == 2 || args.length == 3
  else if f = "p_function_body" then (match slot args 2 with | .nodes [] => false | _ => true)
  else if f = "p_command" then commandOK args
  else if f = "p_redirection_heredoc" then isTokV (slot args (args.length - 1))
  else true

attribute [local irreducible] evalAct actionCore in
/-- **every translated action is its arm of `actionCore`** -/
theorem actgen_agree (np : NestedParse) :
    ∀ fp ∈ Gen.actions, ∀ args, sliceOK fp.1 args = true →
      evalAct np fp.1 fp.2 args = actionCore np fp.1 args := by
  intro fp hmem args hok
  simp only [Gen.actions, List.mem_cons, List.not_mem_nil, or_false] at hmem
  rcases hmem with rfl | rfl | rfl | rfl | rfl | rfl | rfl | rfl | rfl | rfl | rfl | rfl | rfl | rfl | rfl | rfl | rfl | rfl | rfl | rfl | rfl | rfl | rfl | rfl | rfl | rfl | rfl | rfl | rfl | rfl | rfl | rfl | rfl | rfl | rfl | rfl | rfl | rfl | rfl
  all_goals first
    | exact actgen_p_word_list np args | exact actgen_p_redirection_list np args
    | exact actgen_p_simple_command np args | exact actgen_p_case_clause np args
    | exact actgen_p_case_clause_sequence np args | exact actgen_p_pattern np args
    | exact actgen_p_list np args | exact actgen_p_simple_list_terminator np args
    | exact actgen_p_newline_list np args | exact actgen_p_empty np args
    | exact actgen_p_arith_for_command np args | exact actgen_p_select_command np args
    | exact actgen_p_coproc np args | exact actgen_p_arith_command np args
    | exact actgen_p_cond_command np args | exact actgen_p_timespec np args
    | exact actgen_p_if_command np args | exact actgen_p_case_command np args
    | exact actgen_p_list_terminator np args | exact actgen_p_compound_list np args
    | exact actgen_p_list0 np args
    | exact actgen_p_simple_command_element np args
    | exact actgen_p_shell_command np args
    | exact actgen_p_elif_clause np args | exact actgen_p_for_command np args
    | exact actgen_p_function_def np args | exact actgen_p_inputunit np args
    | exact actgen_p_simple_list np args | exact actgen_p_pipeline_command np args
    | exact actgen_p_list1 np args (by simpa [sliceOK] using hok)
    | exact actgen_p_simple_list1 np args (by simpa [sliceOK] using hok)
    | exact actgen_p_pipeline np args (by simpa [sliceOK] using hok)
    | exact actgen_p_subshell np args (by simpa [sliceOK] using hok)
    | exact actgen_p_group_command np args (by simpa [sliceOK] using hok)
    | exact actgen_p_pattern_list np args (by simpa [sliceOK] using hok)
    | exact actgen_p_redirection np args (by simpa [sliceOK] using hok)
    | exact actgen_p_command np args (by simpa [sliceOK] using hok)
    | exact actgen_p_redirection_heredoc np args (by simpa [sliceOK] using hok)
    | exact actgen_p_function_body np args (by
        intro h2; simp [sliceOK, h2] at hok)

/-- every action function a production of the grammar names (`Gen.prodFuncs`, regenerated from the
    parser tables) is either translated or listed as untranslated, and none is both: nothing is
    silently skipped -/
theorem actgen_covered :
    (Gen.prodFuncs.drop 1).all (fun f =>
      (Gen.actions.map (·.1)).contains f || Gen.untranslated.contains f) = true ∧
    (Gen.actions.map (·.1)).all (fun f => !Gen.untranslated.contains f) = true := by decide

end Bashlex.ActGen
