/-
  C07, part 4: protected text yields no substitution, parameter or tilde node.

  * `wordSpec_wholeSQ`: a wholly single-quoted word has no parts (that is all the protection
    single quotes give: D6).
  * `Reach.escaped_not_head`: the character after a backslash at which the scan stands is never a
    scan head, so no part starts there (local form, any word).
  * `wordSpec_escaped`: a word in which every `$`, backquote, `<`, `>`, `~` is preceded by such a
    backslash (`escOK`) has no parts.
  None of these needs anything of the nested parser (it is not called).
-/
import Bashlex.Props.C07.Trace

namespace Bashlex.C07
open Bashlex Bashlex.M
set_option linter.unusedSimpArgs false
set_option linter.unusedVariables false

variable {R : Str → Bool → Node → Prop} {v : Str} {q : Bool} {fl0 : WordFlags}

/-! ### wholly single-quoted words -/

theorem wholeSQ_no_visit (hw : wholeSQ v = true) {fl : WordFlags} {out : Option Node} {i' : Nat}
    {fl' : WordFlags} : ¬ Visit R v q 0 fl out i' fl' := by
  simp only [wholeSQ, C06.wholeSQ, Bool.and_eq_true, beq_iff_eq] at hw
  have hc : v[0]? = some '\'' := by rw [← List.head?_eq_getElem?]; exact hw.1
  have ho : opener v q 0 fl = none := by
    unfold opener; rw [hc]; simp
  have hp : plainStep v q 0 fl = none := by
    unfold plainStep; rw [hc]; simp [hw.2]
  intro h
  cases h with
  | procsub h1 _ => rw [ho] at h1; cases h1
  | comsub h1 _ _ => rw [ho] at h1; cases h1
  | backquote h1 _ _ _ _ => rw [ho] at h1; cases h1
  | plain h1 => rw [hp] at h1; cases h1

theorem Reach.of_no_first {i : Nat} {fl : WordFlags} {tr : List (Nat × Option Node)}
    (h : Reach R v q fl0 i fl tr)
    (hno : ∀ out i' fl', ¬ Visit R v q 0 fl0 out i' fl') : tr = [] ∧ i = 0 ∧ fl = fl0 := by
  induction h with
  | start => exact ⟨rfl, rfl, rfl⟩
  | step hr hv ih =>
    obtain ⟨_, rfl, rfl⟩ := ih
    exact absurd hv (hno _ _ _)

/-- **single quotes**: a wholly single-quoted word has no parts -/
theorem wordSpec_wholeSQ {k kend : Nat} {parts : List Node} (hw : wholeSQ v = true)
    (h : WordSpec R v q fl0 k kend parts) : parts = [] := by
  rcases h with ⟨_, h⟩ | ⟨fl, tr, hr, _, hp⟩
  · exact h
  · have := (hr.of_no_first (fun _ _ _ => wholeSQ_no_visit hw)).1
    rw [hp, this]; rfl

/-! ### backslashes -/

theorem opener_backslash {i : Nat} (fl : WordFlags) (h : v[i]? = some '\\') : opener v q i fl = none := by
  unfold opener; rw [h]; simp

theorem plainStep_backslash {i : Nat} (fl : WordFlags) (h : v[i]? = some '\\') :
    plainStep v q i fl = some (none, i + 2, fl) := by
  unfold plainStep; rw [h]; simp

/-- standing on a backslash the scan emits nothing and skips the next character -/
theorem Visit.backslash {i : Nat} {fl : WordFlags} {out : Option Node} {i' : Nat} {fl' : WordFlags}
    (hv : Visit R v q i fl out i' fl') (h : v[i]? = some '\\') : out = none ∧ i' = i + 2 := by
  cases hv with
  | procsub h1 _ => rw [opener_backslash fl h] at h1; cases h1
  | comsub h1 _ _ => rw [opener_backslash fl h] at h1; cases h1
  | backquote h1 _ _ _ _ => rw [opener_backslash fl h] at h1; cases h1
  | plain h1 =>
    rw [plainStep_backslash fl h] at h1
    simp only [Option.some.injEq, Prod.mk.injEq] at h1
    exact ⟨h1.1.symm, h1.2.1.symm⟩

theorem Reach.skip_escaped {i : Nat} {fl : WordFlags} {tr : List (Nat × Option Node)}
    (h : Reach R v q fl0 i fl tr) :
    ∀ e ∈ tr, v[e.1]? = some '\\' → e.2 = none ∧ e.1 + 2 ≤ i := by
  induction h with
  | start => intro e he; cases he
  | step hr hv ih =>
    intro e he hb
    rcases List.mem_append.mp he with he | he
    · have := ih e he hb
      have := hv.spec.2.1
      exact ⟨‹_ ∧ _›.1, by omega⟩
    · simp only [List.mem_singleton] at he
      subst he
      have := hv.backslash hb
      exact ⟨this.1, by omega⟩

/-- **backslash, local form**: the character after a backslash on which the scan stands is never
    a scan head — whatever it is (`$`, backquote, `<`, `>`, `~`), no part starts there -/
theorem Reach.escaped_not_head {i : Nat} {fl : WordFlags} {tr : List (Nat × Option Node)}
    (h : Reach R v q fl0 i fl tr) {hd : Nat} {out : Option Node} (he : (hd, out) ∈ tr)
    (hb : v[hd]? = some '\\') : out = none ∧ ∀ out', (hd + 1, out') ∉ tr := by
  refine ⟨(h.skip_escaped _ he hb).1, ?_⟩
  intro out' he'
  -- look at the trace when `hd + 1` was visited
  induction h with
  | start => cases he
  | step hr hv ih =>
    rename_i i fl tr o i' fl'
    rcases List.mem_append.mp he' with h1 | h1
    · rcases List.mem_append.mp he with h2 | h2
      · exact ih h2 h1
      · simp only [List.mem_singleton, Prod.mk.injEq] at h2
        have := (hr.sorted.2 _ h1).1
        simp only [] at this
        omega
    · simp only [List.mem_singleton, Prod.mk.injEq] at h1
      rcases List.mem_append.mp he with h2 | h2
      · have := (hr.skip_escaped _ h2 hb).2
        simp only [] at this
        omega
      · simp only [List.mem_singleton, Prod.mk.injEq] at h2
        omega

/-- every expansion character is escaped by a backslash the scan stands on
    (`esc` = the previous character was such a backslash) -/
def escGo : Bool → Str → Bool
  | _, [] => true
  | true, _ :: r => escGo false r
  | false, c :: r => if c == '\\' then escGo true r else !C06.isExpChar c && escGo false r

/-- **decidable form**: all of `$`, backquote, `<`, `>`, `~` in the word are backslash-escaped -/
def escOK (v : Str) : Bool := escGo false v

theorem drop_cons_of_getElem? {i : Nat} {c : Char} (h : v[i]? = some c) :
    v.drop i = c :: v.drop (i + 1) := by
  obtain ⟨hi, hc⟩ := List.getElem?_eq_some_iff.mp h
  rw [List.drop_eq_getElem_cons hi, hc]

theorem Reach.escaped {i : Nat} {fl : WordFlags} {tr : List (Nat × Option Node)}
    (h : Reach R v q fl0 i fl tr) (hv : escOK v = true) :
    partsOf tr = [] ∧ escGo false (v.drop i) = true := by
  induction h with
  | start => exact ⟨rfl, hv⟩
  | step hr hvis ih =>
    rename_i i fl tr out i' fl'
    obtain ⟨hparts, hesc⟩ := ih
    have hi := hvis.spec.1
    obtain ⟨c, hc⟩ : ∃ c, v[i]? = some c := ⟨v[i], List.getElem?_eq_getElem hi⟩
    rw [drop_cons_of_getElem? hc] at hesc
    rw [partsOf_snoc, hparts]
    by_cases hb : c = '\\'
    · subst hb
      obtain ⟨rfl, rfl⟩ := hvis.backslash hc
      refine ⟨rfl, ?_⟩
      simp only [escGo, beq_self_eq_true, if_true] at hesc
      by_cases hi1 : i + 1 < v.length
      · have hc1 : v[i + 1]? = some v[i + 1] := List.getElem?_eq_getElem hi1
        rw [drop_cons_of_getElem? hc1] at hesc
        simpa [escGo] using hesc
      · rw [List.drop_eq_nil_of_le (by omega)]; rfl
    · have hbeq : (c == '\\') = false := by simpa using hb
      simp only [escGo, hbeq, Bool.false_eq_true, if_false, Bool.and_eq_true, Bool.not_eq_true'] at hesc
      obtain ⟨hexp, hrest⟩ := hesc
      simp only [C06.isExpChar, Bool.or_eq_false_iff, beq_eq_false_iff_ne, ne_eq] at hexp
      obtain ⟨⟨⟨⟨e1, e2⟩, e3⟩, e4⟩, e5⟩ := hexp
      have ho : opener v q i fl = none := by
        unfold opener; rw [hc]; simp [e1, e2, e3, e4, e5]
      cases hvis with
      | procsub h1 _ => rw [ho] at h1; cases h1
      | comsub h1 _ _ => rw [ho] at h1; cases h1
      | backquote h1 _ _ _ _ => rw [ho] at h1; cases h1
      | plain h1 =>
        unfold plainStep at h1
        rw [hc] at h1
        simp [e1, e2, e3, e4, e5, hb] at h1
        obtain ⟨_, rfl, rfl, rfl⟩ := h1
        exact ⟨rfl, hrest⟩

/-- **backslash, whole-word form**: a word all of whose expansion characters are escaped has no
    parts -/
theorem wordSpec_escaped {k kend : Nat} {parts : List Node} (hv : escOK v = true)
    (h : WordSpec R v q fl0 k kend parts) : parts = [] := by
  rcases h with ⟨_, h⟩ | ⟨fl, tr, hr, _, hp⟩
  · exact h
  · rw [hp, (hr.escaped hv).1]; rfl

end Bashlex.C07
