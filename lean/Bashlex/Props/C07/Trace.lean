/-
  C07, part 3: what a scan trace says.

  * `Visit.spec`: every iteration advances the cursor, a part emitted at head `i` has the span
    `(i, next cursor)`, flags stay or become `[ITILDE]`.
  * `Visit.subst_iff`: a substitution node is emitted at a head **iff** the head is an opener.
  * `Visit.substNode`: the substitution node emitted at an opener (`SubstNode0`): kind, span,
    `R`-answer, shift.
  * `Reach.*`: heads strictly increase; the parts tile the word in order; every entry is a visit.
  * spans: `dolEnd_tight` / `dolEnd_loose` (D27, D9), `stringextract_first` (backquotes: the
    first backquote after the opener closes, escaped or not).
-/
import Bashlex.Props.C07.Word

namespace Bashlex.C07
open Bashlex Bashlex.M
set_option linter.unusedSimpArgs false
set_option linter.unusedVariables false

variable {R : Str → Bool → Node → Prop}

/-! ### the end of a `$(…)` / `<(…)` substitution -/

theorem dolEnd_le (body : Str) (endp : Nat) : dolEnd body endp ≤ endp := by
  unfold dolEnd
  split
  · exact Nat.le_refl _
  · exact C01.backOverNewlines_le body endp

/-- the nested node ends exactly at the closing parenthesis: the scan takes that parenthesis -/
theorem dolEnd_tight {body : Str} {endp : Nat} (h : body[endp]? = some ')') :
    dolEnd body endp = endp := by
  unfold dolEnd; rw [if_pos h]

/-- D27 / D9: the nested node ends before the closing parenthesis (blanks, or further lines that
    the nested parser did not read): the end is `endp` moved back over newlines -/
theorem dolEnd_loose {body : Str} {endp : Nat} (h : body[endp]? ≠ some ')') :
    dolEnd body endp = backOverNewlines body endp := by
  unfold dolEnd; rw [if_neg h]

theorem DolParen.bounds {v : Str} {s : Nat} {node : Node} {e : Nat} (h : DolParen R v s node e) :
    s ≤ e ∧ e < v.length := by
  cases h with
  | mk n hR hfit hlt =>
    have := dolEnd_le (v.drop s) n.pos.2
    omega

/-! ### backquotes -/

theorem stringextract_go_first (s : Str) (ch : Char) (hch : ch ≠ '\\') : ∀ fuel i k,
    stringextract.go s ch fuel i = some k →
      s[k]? = some ch ∧ ∀ j, i ≤ j → j < k → s[j]? ≠ some ch := by
  intro fuel
  induction fuel with
  | zero => intro i k h; simp [stringextract.go] at h
  | succ f ih =>
    intro i k h
    unfold stringextract.go at h
    split at h
    · cases h
    · rename_i c hc
      split at h
      · rename_i hbs
        have hcb : c = '\\' := by simpa using hbs
        split at h
        · obtain ⟨h1, h2⟩ := ih _ _ h
          refine ⟨h1, fun j hij hjk => ?_⟩
          rcases Nat.eq_or_lt_of_le hij with rfl | hlt
          · rw [hc, hcb]; intro h'; exact hch (Option.some.inj h').symm
          · exact h2 j hlt hjk
        · cases h
      · split at h
        · rename_i heq
          cases h
          have : c = ch := by simpa using heq
          exact ⟨by rw [hc, this], fun j hij hjk => by omega⟩
        · rename_i hne
          obtain ⟨h1, h2⟩ := ih _ _ h
          refine ⟨h1, fun j hij hjk => ?_⟩
          rcases Nat.eq_or_lt_of_le hij with rfl | hlt
          · rw [hc]; intro h'; have := Option.some.inj h'; simp [this] at hne
          · exact h2 j hlt hjk

/-- the closing backquote is the FIRST backquote after the opener — a backslash does not protect
    it (`_stringextract` steps over the backslash only) -/
theorem stringextract_first {v : Str} {s x : Nat} (h : stringextract v s '`' = some x) :
    v[x]? = some '`' ∧ s ≤ x ∧ x < v.length ∧ ∀ j, s ≤ j → j < x → v[j]? ≠ some '`' := by
  have h1 := stringextract_go_first v '`' (by decide) _ _ _ h
  have h2 := C01.stringextract_spec h
  exact ⟨h1.1, h2.1, h2.2, h1.2⟩

theorem slice_length (v : Str) (a b : Nat) (hb : b ≤ v.length) : (Str.slice v a b).length = b - a := by
  unfold Str.slice
  simp [List.length_drop, List.length_take, Nat.min_eq_left hb]

/-! ### one visit -/

def isParamOrTilde (n : Node) : Bool :=
  match n with
  | .parameter .. | .tilde .. => true
  | _ => false

theorem paramPlain_spec {v : Str} {i : Nat} {out : Option Node} {j : Nat}
    (h : paramPlain v i = some (out, j)) :
    i < j ∧ ∀ p, out = some p → p.pos = (i, j) ∧ isParamOrTilde p = true := by
  unfold paramPlain at h
  have hsn := C01.scanName_ge v (v.length + 1) (i + 1)
  split at h
  · simp only [Option.some.injEq, Prod.mk.injEq] at h
    obtain ⟨rfl, rfl⟩ := h
    exact ⟨by omega, fun p hp => by cases hp; exact ⟨rfl, rfl⟩⟩
  · split at h
    · simp only [Option.some.injEq, Prod.mk.injEq] at h
      obtain ⟨rfl, rfl⟩ := h
      exact ⟨by omega, fun p hp => by cases hp; exact ⟨rfl, rfl⟩⟩
    · split at h
      · split at h
        · simp only [Option.some.injEq, Prod.mk.injEq] at h
          obtain ⟨rfl, rfl⟩ := h
          exact ⟨by omega, fun p hp => by cases hp⟩
        · rename_i z hz
          have := (C01.findFrom_spec hz).1
          simp only [Option.some.injEq, Prod.mk.injEq] at h
          obtain ⟨rfl, rfl⟩ := h
          exact ⟨by omega, fun p hp => by cases hp; exact ⟨rfl, rfl⟩⟩
      · split at h
        · cases h
        · split at h
          · cases h
          · simp only [Option.some.injEq, Prod.mk.injEq] at h
            obtain ⟨rfl, rfl⟩ := h
            exact ⟨by omega, fun p hp => by cases hp; exact ⟨rfl, rfl⟩⟩

theorem paramPlain_not_paren {v : Str} {i : Nat} {r : Option Node × Nat}
    (h : paramPlain v i = some r) : v[i + 1]? ≠ some '(' := by
  intro hc
  unfold paramPlain at h
  rw [hc] at h
  simp at h

/-- a plain iteration: progress, span of the part, flags; and the head is not an opener -/
theorem plainStep_spec {v : Str} {q : Bool} {i : Nat} {fl : WordFlags} {out : Option Node}
    {i' : Nat} {fl' : WordFlags} (h : plainStep v q i fl = some (out, i', fl')) :
    i < v.length ∧ i < i' ∧ (fl' = fl ∨ fl' = [.ITILDE]) ∧
    (∀ p, out = some p → p.pos = (i, i') ∧ isParamOrTilde p = true) ∧
    opener v q i fl = none := by
  unfold plainStep at h
  unfold opener
  split at h
  · cases h
  rename_i c hc
  have hi : i < v.length := (List.getElem?_eq_some_iff.mp hc).1
  refine ⟨hi, ?_⟩
  have nopart : ∀ p : Node, (none : Option Node) = some p → p.pos = (i, i') ∧ isParamOrTilde p = true :=
    fun p hp => by cases hp
  split at h
  · rename_i hlt
    rw [if_pos hlt]
    split at h
    · rename_i hcond
      rw [if_pos hcond]
      simp only [Option.some.injEq, Prod.mk.injEq] at h
      obtain ⟨rfl, rfl, rfl⟩ := h
      exact ⟨by omega, Or.inl rfl, nopart, rfl⟩
    · cases h
  rename_i hlt
  rw [if_neg hlt]
  split at h
  · rename_i hct
    rw [if_pos hct]
    have hc' : v[i]? = some '~' := by
      have : c = '~' := by simpa using hct
      rw [← this]; exact hc
    split at h
    · simp only [Option.some.injEq, Prod.mk.injEq] at h
      obtain ⟨rfl, rfl, rfl⟩ := h
      exact ⟨by omega, Or.inr rfl, nopart, rfl⟩
    · simp only [Option.some.injEq, Prod.mk.injEq] at h
      obtain ⟨rfl, rfl, rfl⟩ := h
      have hadv := C01.tildeScan_tilde v
        (fl.contains .ASSIGNRHS || fl.contains .ASSIGNMENT || fl.contains .TILDEEXP) v.length i hc'
      refine ⟨hadv, Or.inl rfl, ?_, rfl⟩
      intro p hp
      split at hp
      · cases hp; exact ⟨rfl, rfl⟩
      · cases hp
  rename_i hct
  rw [if_neg hct]
  split at h
  · rename_i hd
    rw [if_pos hd]
    cases hpp : paramPlain v i with
    | none => rw [hpp] at h; cases h
    | some r =>
      rw [hpp] at h
      simp only [Option.map_some, Option.some.injEq, Prod.mk.injEq] at h
      obtain ⟨rfl, rfl, rfl⟩ := h
      have hs := paramPlain_spec (out := r.1) (j := r.2) hpp
      have hnp := paramPlain_not_paren hpp
      refine ⟨hs.1, Or.inl rfl, hs.2, ?_⟩
      have : (v[i + 1]? == some '(') = false := by simpa using hnp
      rw [this]; rfl
  rename_i hd
  rw [if_neg hd]
  split at h
  · rename_i hbq
    rw [if_pos hbq]
    split at h
    · rename_i hbb
      rw [if_pos hbb]
      simp only [Option.some.injEq, Prod.mk.injEq] at h
      obtain ⟨rfl, rfl, rfl⟩ := h
      exact ⟨by omega, Or.inl rfl, nopart, rfl⟩
    · cases h
  rename_i hbq
  rw [if_neg hbq]
  split at h
  · simp only [Option.some.injEq, Prod.mk.injEq] at h
    obtain ⟨rfl, rfl, rfl⟩ := h
    exact ⟨by omega, Or.inl rfl, nopart, rfl⟩
  split at h
  · cases h
  · simp only [Option.some.injEq, Prod.mk.injEq] at h
    obtain ⟨rfl, rfl, rfl⟩ := h
    exact ⟨by omega, Or.inl rfl, nopart, rfl⟩

/-- every iteration that continues: the head is inside the word, the cursor advances, a part
    emitted at head `i` has span `(i, next cursor)`, the flags stay or become `[ITILDE]` -/
theorem Visit.spec {v : Str} {q : Bool} {i : Nat} {fl : WordFlags} {out : Option Node} {i' : Nat}
    {fl' : WordFlags} (h : Visit R v q i fl out i' fl') :
    i < v.length ∧ i < i' ∧ (fl' = fl ∨ fl' = [.ITILDE]) ∧
    ∀ p, out = some p → p.pos = (i, i') := by
  have hhead : ∀ {k}, opener v q i fl = some k → i < v.length := by
    intro k ho
    unfold opener at ho
    split at ho
    · cases ho
    · rename_i c hc; exact (List.getElem?_eq_some_iff.mp hc).1
  cases h with
  | procsub ho h =>
    have := h.bounds
    exact ⟨hhead ho, by omega, Or.inl rfl, fun p hp => by cases hp; rfl⟩
  | comsub ho hna h =>
    have := h.bounds
    exact ⟨hhead ho, by omega, Or.inl rfl, fun p hp => by cases hp; rfl⟩
  | backquote ho hx hR hfit0 hfit =>
    have := stringextract_first hx
    exact ⟨hhead ho, by omega, Or.inl rfl, fun p hp => by cases hp; rfl⟩
  | plain h =>
    obtain ⟨h1, h2, h3, h4, _⟩ := plainStep_spec h
    exact ⟨h1, h2, h3, fun p hp => (h4 p hp).1⟩

/-- **a substitution node is emitted at a head iff the head is an opener**; every other part is a
    parameter or tilde node -/
theorem Visit.subst_iff {v : Str} {q : Bool} {i : Nat} {fl : WordFlags} {out : Option Node} {i' : Nat}
    {fl' : WordFlags} (h : Visit R v q i fl out i' fl') :
    ((∃ p, out = some p ∧ isSubstitution p = true) ↔ (opener v q i fl).isSome = true) ∧
    (∀ p, out = some p → isSubstitution p = false → isParamOrTilde p = true) := by
  cases h with
  | procsub ho h => rw [ho]; exact ⟨⟨fun _ => rfl, fun _ => ⟨_, rfl, rfl⟩⟩, fun p hp hs => by cases hp; cases hs⟩
  | comsub ho hna h => rw [ho]; exact ⟨⟨fun _ => rfl, fun _ => ⟨_, rfl, rfl⟩⟩, fun p hp hs => by cases hp; cases hs⟩
  | backquote ho hx hR hfit0 hfit =>
    rw [ho]; exact ⟨⟨fun _ => rfl, fun _ => ⟨_, rfl, rfl⟩⟩, fun p hp hs => by cases hp; cases hs⟩
  | plain h =>
    obtain ⟨_, _, _, h4, h5⟩ := plainStep_spec h
    rw [h5]
    refine ⟨⟨?_, fun h => by cases h⟩, fun p hp _ => (h4 p hp).2⟩
    rintro ⟨p, hp, hs⟩
    have := (h4 p hp).2
    cases p <;> simp [isSubstitution, isParamOrTilde] at hs this

/-- the substitution node emitted at an opener, in word-relative offsets -/
inductive SubstNode0 (R : Str → Bool → Node → Prop) (v : Str) (q : Bool) : Nat → Node → Prop
  /-- `$(`: the nested parser got the rest of the word after `$(` -/
  | dollar {i : Nat} {fl : WordFlags} {n : Node} (ho : opener v q i fl = some .dollar)
      (hR : R (v.drop (i + 2)) true n) (hfit : Fits n (i + 2) v.length)
      (hlt : i + 2 + n.pos.2 < v.length) :
      SubstNode0 R v q i (.commandsubstitution (i, i + 2 + dolEnd (v.drop (i + 2)) n.pos.2 + 1)
        (n.shift (i + 2)))
  /-- `<(`, `>(` -/
  | proc {i : Nat} {fl : WordFlags} {n : Node} (ho : opener v q i fl = some .proc)
      (hR : R (v.drop (i + 2)) true n) (hfit : Fits n (i + 2) v.length)
      (hlt : i + 2 + n.pos.2 < v.length) :
      SubstNode0 R v q i (.processsubstitution (i, i + 2 + dolEnd (v.drop (i + 2)) n.pos.2 + 1)
        (n.shift (i + 2)))
  /-- backquotes: the nested parser got exactly the text between the backquotes -/
  | backquote {i : Nat} {fl : WordFlags} {x : Nat} {n : Node} (ho : opener v q i fl = some .backquote)
      (hx : stringextract v (i + 1) '`' = some x) (hR : R (Str.slice v (i + 1) x) false n)
      (hfit0 : Fits n 0 (x - (i + 1))) :
      SubstNode0 R v q i (.commandsubstitution (i, x + 1) (n.shift (i + 1)))

theorem Visit.substNode {v : Str} {q : Bool} {i : Nat} {fl : WordFlags} {p : Node} {i' : Nat}
    {fl' : WordFlags} (h : Visit R v q i fl (some p) i' fl') (hs : isSubstitution p = true) :
    SubstNode0 R v q i p := by
  generalize ho : some p = out at h
  cases h with
  | procsub hop h =>
    cases ho
    cases h with
    | mk n hR hfit hlt => exact SubstNode0.proc hop hR hfit hlt
  | comsub hop hna h =>
    cases ho
    cases h with
    | mk n hR hfit hlt => exact SubstNode0.dollar hop hR hfit hlt
  | backquote hop hx hR hfit0 hfit =>
    cases ho
    have hb := stringextract_first hx
    rw [slice_length _ _ _ (by omega)] at hfit0
    exact SubstNode0.backquote hop hx hR hfit0
  | plain h =>
    obtain ⟨_, _, _, h4, _⟩ := plainStep_spec h
    have := (h4 p ho.symm).2
    cases p <;> simp [isSubstitution, isParamOrTilde] at hs this

/-! ### traces -/

variable {v : Str} {q : Bool} {fl0 : WordFlags}

/-- every entry of a trace is a visit from its head, under flags that are the token's or
    `[ITILDE]`, to a cursor at most the current one -/
theorem Reach.mem {i : Nat} {fl : WordFlags} {tr : List (Nat × Option Node)}
    (h : Reach R v q fl0 i fl tr) :
    (fl = fl0 ∨ fl = [.ITILDE]) ∧
    ∀ e ∈ tr, ∃ fle i' fl', (fle = fl0 ∨ fle = [.ITILDE]) ∧ Visit R v q e.1 fle e.2 i' fl' ∧ i' ≤ i := by
  induction h with
  | start => exact ⟨Or.inl rfl, fun e he => by cases he⟩
  | step hr hv ih =>
    rename_i i fl tr out i' fl'
    obtain ⟨hfl, hmem⟩ := ih
    have hs := hv.spec
    refine ⟨?_, ?_⟩
    · rcases hs.2.2.1 with h | h
      · rw [h]; exact hfl
      · exact Or.inr h
    · intro e he
      rcases List.mem_append.mp he with he | he
      · obtain ⟨fle, j, flj, h1, h2, h3⟩ := hmem e he
        exact ⟨fle, j, flj, h1, h2, by omega⟩
      · simp only [List.mem_singleton] at he
        subst he
        exact ⟨fl, i', fl', hfl, hv, Nat.le_refl _⟩

/-- the heads of a trace strictly increase and the parts tile the word: a part starts at its head
    and ends at or before the next head -/
theorem Reach.sorted {i : Nat} {fl : WordFlags} {tr : List (Nat × Option Node)}
    (h : Reach R v q fl0 i fl tr) :
    tr.Pairwise (fun a b => a.1 < b.1 ∧ ∀ p, a.2 = some p → p.pos.2 ≤ b.1) ∧
    ∀ e ∈ tr, e.1 < i ∧ ∀ p, e.2 = some p → p.pos.1 = e.1 ∧ p.pos.2 ≤ i := by
  induction h with
  | start => exact ⟨List.Pairwise.nil, fun e he => by cases he⟩
  | step hr hv ih =>
    rename_i i fl tr out i' fl'
    obtain ⟨hpw, hlt⟩ := ih
    have hs := hv.spec
    refine ⟨?_, ?_⟩
    · rw [List.pairwise_append]
      refine ⟨hpw, List.pairwise_singleton _ _, ?_⟩
      intro a ha b hb
      simp only [List.mem_singleton] at hb
      subst hb
      exact ⟨(hlt a ha).1, fun p hp => ((hlt a ha).2 p hp).2⟩
    · intro e he
      rcases List.mem_append.mp he with he | he
      · have := hlt e he
        exact ⟨by omega, fun p hp => ⟨(this.2 p hp).1, by have := (this.2 p hp).2; omega⟩⟩
      · simp only [List.mem_singleton] at he
        subst he
        refine ⟨hs.2.1, fun p hp => ?_⟩
        have := hs.2.2.2 p hp
        rw [this]; exact ⟨rfl, Nat.le_refl _⟩

/-- the parts of a trace come from its entries -/
theorem mem_partsOf {tr : List (Nat × Option Node)} {p : Node} (h : p ∈ partsOf tr) :
    ∃ i, (i, some p) ∈ tr := by
  unfold partsOf at h
  obtain ⟨e, he, hp⟩ := List.mem_filterMap.mp h
  obtain ⟨i, out⟩ := e
  simp only [] at hp
  subst hp
  exact ⟨i, he⟩

end Bashlex.C07
