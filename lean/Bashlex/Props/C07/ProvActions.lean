/-
  C07, part 8: one lemma per semantic action — the value returned has only good word-like nodes.
-/
import Bashlex.Props.C07.Prov

namespace Bashlex.C07
open Bashlex Bashlex.M Bashlex.Node
set_option linter.unusedSimpArgs false
set_option linter.unusedVariables false

variable {W : Node → Prop} {T : Token → Prop} {np : NestedParse} {args : List SVal}

section actions
variable (hC : Ctx W T np) (ha : ∀ a ∈ args, GV W T a)
include hC ha
set_option linter.unusedSectionVars false

theorem sound_inputunit : Sat (actionCore np "p_inputunit" args) (Post W T) := by
  c07_walk W T np hC ha

theorem sound_word_list : Sat (actionCore np "p_word_list" args) (Post W T) := by
  c07_walk W T np hC ha

theorem sound_redirection_list : Sat (actionCore np "p_redirection_list" args) (Post W T) := by
  c07_walk W T np hC ha

theorem sound_simple_command : Sat (actionCore np "p_simple_command" args) (Post W T) := by
  c07_walk W T np hC ha

theorem sound_command : Sat (actionCore np "p_command" args) (Post W T) := by
  c07_walk W T np hC ha

theorem sound_shell_command : Sat (actionCore np "p_shell_command" args) (Post W T) := by
  c07_walk W T np hC ha

theorem sound_arith_for_command : Sat (actionCore np "p_arith_for_command" args) (Post W T) := by
  c07_walk W T np hC ha

theorem sound_select_command : Sat (actionCore np "p_select_command" args) (Post W T) := by
  c07_walk W T np hC ha

theorem sound_case_command : Sat (actionCore np "p_case_command" args) (Post W T) := by
  c07_walk W T np hC ha

theorem sound_function_def : Sat (actionCore np "p_function_def" args) (Post W T) := by
  c07_walk W T np hC ha

theorem sound_function_body : Sat (actionCore np "p_function_body" args) (Post W T) := by
  c07_walk W T np hC ha

theorem sound_subshell : Sat (actionCore np "p_subshell" args) (Post W T) := by
  c07_walk W T np hC ha

theorem sound_group_command : Sat (actionCore np "p_group_command" args) (Post W T) := by
  c07_walk W T np hC ha

theorem sound_coproc : Sat (actionCore np "p_coproc" args) (Post W T) := by
  c07_walk W T np hC ha

theorem sound_if_command : Sat (actionCore np "p_if_command" args) (Post W T) := by
  c07_walk W T np hC ha

theorem sound_arith_command : Sat (actionCore np "p_arith_command" args) (Post W T) := by
  c07_walk W T np hC ha

theorem sound_cond_command : Sat (actionCore np "p_cond_command" args) (Post W T) := by
  c07_walk W T np hC ha

theorem sound_case_clause : Sat (actionCore np "p_case_clause" args) (Post W T) := by
  c07_walk W T np hC ha

theorem sound_case_clause_sequence : Sat (actionCore np "p_case_clause_sequence" args) (Post W T) := by
  c07_walk W T np hC ha

theorem sound_pattern : Sat (actionCore np "p_pattern" args) (Post W T) := by
  c07_walk W T np hC ha

theorem sound_list : Sat (actionCore np "p_list" args) (Post W T) := by
  c07_walk W T np hC ha

theorem sound_compound_list : Sat (actionCore np "p_compound_list" args) (Post W T) := by
  c07_walk W T np hC ha
  exact G_of_head? ‹_› ‹_›

theorem sound_list0 : Sat (actionCore np "p_list0" args) (Post W T) := by
  c07_walk W T np hC ha
  exact G_of_head? ‹_› ‹_›

theorem sound_list1 : Sat (actionCore np "p_list1" args) (Post W T) := by
  c07_walk W T np hC ha

theorem sound_simple_list_terminator : Sat (actionCore np "p_simple_list_terminator" args) (Post W T) := by
  c07_walk W T np hC ha

theorem sound_list_terminator : Sat (actionCore np "p_list_terminator" args) (Post W T) := by
  c07_walk W T np hC ha

theorem sound_newline_list : Sat (actionCore np "p_newline_list" args) (Post W T) := by
  c07_walk W T np hC ha

theorem sound_simple_list1 : Sat (actionCore np "p_simple_list1" args) (Post W T) := by
  c07_walk W T np hC ha

theorem sound_pipeline_command : Sat (actionCore np "p_pipeline_command" args) (Post W T) := by
  c07_walk W T np hC ha

theorem sound_pipeline : Sat (actionCore np "p_pipeline" args) (Post W T) := by
  c07_walk W T np hC ha

theorem sound_timespec : Sat (actionCore np "p_timespec" args) (Post W T) := by
  c07_walk W T np hC ha

theorem sound_empty : Sat (actionCore np "p_empty" args) (Post W T) := by
  c07_walk W T np hC ha

theorem sound_redirection_heredoc : Sat (actionCore np "p_redirection_heredoc" args) (Post W T) := by
  c07_walk W T np hC ha
  all_goals (simp_all [Post]; try exact G_bare hC ‹_›)


theorem sound_simple_command_element :
    Sat (actionCore np "p_simple_command_element" args) (Post W T) := by
  c07_walk W T np hC ha
  simp only [Post, GV_nodes, GL_cons, GL_nil, and_true]
  exact G_asg_of_word hC ‹_›

theorem sound_redirection : Sat (actionCore np "p_redirection" args) (Post W T) := by
  c07_walk W T np hC ha

omit hC ha in
theorem GL_fix {l : List Node} (h : GL W l) : GL W (actionCore.fix l) := by
  induction l with
  | nil => simp [actionCore.fix]
  | cons n rest ih =>
    simp only [GL_cons] at h
    cases n <;> simp only [actionCore.fix] <;> try (simp [h.1, ih h.2])
    split <;> simp [h.2, ih h.2]

theorem sound_for_command : Sat (actionCore np "p_for_command" args) (Post W T) := by
  unfold actionCore; simp only [pure_bind]
  refine Sat.bind (sat_makeparts hC ha) (fun parts hp => ?_)
  have hfix := GL_fix hp
  repeat' c07_walk_step W T hC ha
  all_goals simp_all [Post]

theorem sound_elif_clause : Sat (actionCore np "p_elif_clause" args) (Post W T) := by
  unfold actionCore; simp only []
  refine Sat.bind (P := GL W) ?_ (fun parts hp => Sat.pure hp)
  refine Sat.forIn_list (I := fun rest acc => (∀ a ∈ rest, GV W T a) ∧ GL W acc) ?_ ?_ args []
    ⟨ha, GL_nil⟩
  · rintro a rest b ⟨hrest, hb⟩
    have hr : ∀ a' ∈ rest, GV W T a' := fun a' h => hrest a' (List.mem_cons_of_mem _ h)
    have hav : GV W T a := hrest a List.mem_cons_self
    split <;> exact Sat.pure ⟨hr, by simp_all⟩
  · rintro b ⟨_, hb⟩; exact hb

theorem sound_pattern_list : Sat (actionCore np "p_pattern_list" args) (Post W T) := by
  c07_walk W T np hC ha

theorem sound_simple_list : Sat (actionCore np "p_simple_list" args) (Post W T) := by
  c07_walk W T np hC ha

end actions

end Bashlex.C07
