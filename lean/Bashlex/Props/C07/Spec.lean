/-
  C07, part 0: the specification vocabulary.

  The statement is about ONE word token (value `v`, position `k = tok.lexpos`) and an ARBITRARY
  nested parser `np`, of which only `NPSpec R np` is assumed: whatever node `np body dolparen`
  returns satisfies `R body dolparen`.  The scan of `_expandwordinternal` over `v` is described by
  a relation `Reach`: a trace of *scan heads* (cursor positions at which the loop stands), each
  with the part emitted there.  At a head that is an *opener* (`opener v q i fl ≠ none`) the scan
  emits a substitution node built from an `R`-answer on a piece of `v`; at every other head the
  scan is the pure function `plainStep` (parameter and tilde nodes, quote characters, escapes).

  Where a substitution ends is NOT a function of `v`: for `$(`, `<(`, `>(` the nested parser is
  handed the whole rest of the word `v.drop (i+2)` and the end is computed from the span of the
  node it returns (`dolEnd`, defects D27/D9 live there); only for backquotes is the body delimited
  first (`stringextract`: the first backquote, escaped or not).
-/
import Bashlex.Model.Subst
import Bashlex.Proofs.Hoare
import Bashlex.Props.C06.Strip

namespace Bashlex.C07
open Bashlex Bashlex.M

/-- what is assumed of the nested parser: every node it returns on `body` (in any state of the
    parser object, any environment) is an `R`-answer for `body`; nothing is assumed about the
    exceptions it raises or about its effect on the state -/
def NPSpec (R : Str → Bool → Node → Prop) (np : NestedParse) : Prop :=
  ∀ body dp, Sat (np body dp) (fun r => ∀ n, r = some n → R body dp n)

/-- every span of `n`, moved by `base`, ends within `lim` (the assertion of `_adjustpositions`) -/
def Fits (n : Node) (base lim : Nat) : Prop := ∀ m ∈ n.preorder, m.pos.2 + base ≤ lim

/-- the end offset `_parsedolparen` computes from the end `endp` of the nested parser's node,
    relative to the start of the body: `endp` itself if the body has its `)` there, otherwise
    (D27: blanks before `)`, D9: further lines) `endp` moved back over newlines -/
def dolEnd (body : Str) (endp : Nat) : Nat :=
  if body[endp]? = some ')' then endp else backOverNewlines body endp

/-- `_parsedolparen np v s` returned `(node, e)`: the node is an `R`-answer on the rest of the
    word from `s`, shifted by `s`; `e` is the offset the scan takes for the closing parenthesis -/
inductive DolParen (R : Str → Bool → Node → Prop) (v : Str) (s : Nat) : Node → Nat → Prop
  | mk (n : Node) (hR : R (v.drop s) true n) (hfit : Fits n s v.length)
      (hlt : s + n.pos.2 < v.length) :
      DolParen R v s (n.shift s) (s + dolEnd (v.drop s) n.pos.2)

inductive SubKind where
  | dollar      -- `$(`
  | proc        -- `<(` or `>(`
  | backquote
  deriving DecidableEq, Repr

/-- **the rule of the implementation for "the shell expands here"**, at a scan head `i` with the
    word's current flags `fl`; `q` = the token is QUOTED and starts with a double quote.
    There is no quote *state*: that is D6 (`x'$(a)'`) and its double-quote twin
    (`a"<(b)"` gets a process substitution, `"a"<(b)` gets none). -/
def opener (v : Str) (q : Bool) (i : Nat) (fl : WordFlags) : Option SubKind :=
  match v[i]? with
  | none => none
  | some c =>
    if c == '<' || c == '>' then
      if v[i + 1]? != some '(' || q || fl.contains .DQUOTE || fl.contains .NOPROCSUB then none
      else some .proc
    else if c == '~' then none
    else if c == '$' && v.length > 1 then
      if v[i + 1]? == some '(' then some .dollar else none
    else if c == '`' then
      if v[i + 1]? == some '`' then none else some .backquote
    else none

/-- the pure part of `_paramexpand` (everything but `$(` and the unimplemented `$[`):
    the parameter node, if any, and the next cursor -/
def paramPlain (v : Str) (i : Nat) : Option (Option Node × Nat) :=
  match v[i + 1]? with
  | none =>
    let z := scanName v (v.length + 1) (i + 1)
    some (some (.parameter (i, z) ((v.take z).drop (i + 1))), z)
  | some c =>
    if "0123456789$#?-!*@".toList.contains c then some (some (.parameter (i, i + 2) [c]), i + 2)
    else if c == '{' then
      match Str.findFrom v '}' (i + 2) with
      | none => some (none, i + 1)
      | some z => some (some (.parameter (i, z + 1) (Str.slice v (i + 2) z)), z + 1)
    else if c == '(' then none
    else if c == '[' then none
    else
      let z := scanName v (v.length + 1) (i + 1)
      some (some (.parameter (i, z) ((v.take z).drop (i + 1))), z)

/-- one iteration of the scan at a head that is not an opener: emitted part, next cursor, flags.
    `none`: the head is an opener, or the iteration leaves the loop / raises -/
def plainStep (v : Str) (q : Bool) (i : Nat) (fl : WordFlags) :
    Option (Option Node × Nat × WordFlags) :=
  match v[i]? with
  | none => none
  | some c =>
    if c == '<' || c == '>' then
      if v[i + 1]? != some '(' || q || fl.contains .DQUOTE || fl.contains .NOPROCSUB then
        some (none, i + 1, fl)
      else none
    else if c == '~' then
      if fl.contains .NOTILDE || fl.contains .DQUOTE || (decide (i > 0) && !fl.contains .NOTILDE) || q then
        some (none, i + 1, [.ITILDE])
      else
        let r := tildeScan v (fl.contains .ASSIGNRHS || fl.contains .ASSIGNMENT || fl.contains .TILDEEXP)
          (v.length + 1) i
        some (if decide (r.1 > i) && r.2 then some (.tilde (i, r.1) (Str.slice v i r.1)) else none, r.1, fl)
    else if c == '$' && v.length > 1 then
      (paramPlain v i).map fun r => (r.1, r.2, fl)
    else if c == '`' then
      if v[i + 1]? == some '`' then some (none, i + 2, fl) else none
    else if c == '\\' then some (none, i + 2, fl)
    else if c == '\'' && i == 0 && v.getLast? == some '\'' then none
    else some (none, i + 1, fl)

/-- one iteration of the scan that continues: at head `i` with flags `fl` it emits `out` and
    moves to `i'` with flags `fl'` -/
inductive Visit (R : Str → Bool → Node → Prop) (v : Str) (q : Bool) :
    Nat → WordFlags → Option Node → Nat → WordFlags → Prop
  /-- `<(…)`, `>(…)` -/
  | procsub {i : Nat} {fl : WordFlags} {node : Node} {e : Nat}
      (ho : opener v q i fl = some .proc) (h : DolParen R v (i + 2) node e) :
      Visit R v q i fl (some (.processsubstitution (i, e + 1) node)) (e + 1) fl
  /-- `$(…)` -/
  | comsub {i : Nat} {fl : WordFlags} {node : Node} {e : Nat}
      (ho : opener v q i fl = some .dollar) (hna : v[i + 2]? ≠ some '(')
      (h : DolParen R v (i + 2) node e) :
      Visit R v q i fl (some (.commandsubstitution (i, e + 1) node)) (e + 1) fl
  /-- backquotes: the body is `v[i+1:x]`, `x` the first backquote after `i` -/
  | backquote {i : Nat} {fl : WordFlags} {x : Nat} {n : Node}
      (ho : opener v q i fl = some .backquote) (hx : stringextract v (i + 1) '`' = some x)
      (hR : R (Str.slice v (i + 1) x) false n)
      (hfit0 : Fits n 0 (Str.slice v (i + 1) x).length) (hfit : Fits n (i + 1) v.length) :
      Visit R v q i fl (some (.commandsubstitution (i, x + 1) (n.shift (i + 1)))) (x + 1) fl
  /-- every other head: no nested parse -/
  | plain {i : Nat} {fl : WordFlags} {out : Option Node} {i' : Nat} {fl' : WordFlags}
      (h : plainStep v q i fl = some (out, i', fl')) : Visit R v q i fl out i' fl'

/-- the trace of the scan: `Reach … i fl tr` = starting at cursor 0 with flags `fl0` the loop
    stands at cursor `i` with flags `fl`, having visited the heads `tr.map (·.1)` in this order
    and emitted there `tr.map (·.2)` -/
inductive Reach (R : Str → Bool → Node → Prop) (v : Str) (q : Bool) (fl0 : WordFlags) :
    Nat → WordFlags → List (Nat × Option Node) → Prop
  | start : Reach R v q fl0 0 fl0 []
  | step {i : Nat} {fl : WordFlags} {tr : List (Nat × Option Node)} {out : Option Node} {i' : Nat}
      {fl' : WordFlags} (h : Reach R v q fl0 i fl tr) (hv : Visit R v q i fl out i' fl') :
      Reach R v q fl0 i' fl' (tr ++ [(i, out)])

/-- the parts a trace emitted, in order -/
def partsOf (tr : List (Nat × Option Node)) : List Node := tr.filterMap (·.2)

theorem partsOf_append (a b : List (Nat × Option Node)) : partsOf (a ++ b) = partsOf a ++ partsOf b := by
  simp [partsOf, List.filterMap_append]

theorem partsOf_snoc (tr : List (Nat × Option Node)) (i : Nat) (out : Option Node) :
    partsOf (tr ++ [(i, out)]) = partsOf tr ++ out.toList := by
  rw [partsOf_append]
  cases out <;> simp [partsOf]

export Bashlex.C06 (wholeSQ)

/-- the result of `_expandwordinternal` on the token value `v` at position `k` (word ending at
    `kend`): a wholly single-quoted word has no parts; otherwise the scan ran to the end of `v`
    and the parts are those of its trace, shifted by `k` -/
def WordSpec (R : Str → Bool → Node → Prop) (v : Str) (q : Bool) (fl0 : WordFlags) (k kend : Nat)
    (parts : List Node) : Prop :=
  (wholeSQ v = true ∧ parts = []) ∨
  ∃ fl tr, Reach R v q fl0 v.length fl tr ∧ (∀ p ∈ partsOf tr, Fits p k kend) ∧
    parts = (partsOf tr).map (Node.shift k)

end Bashlex.C07
