/-
  C07, part 7: the parts of the word node built from one token (`PartsOK`, `C07_word`),
  exactness (`C07_exact`), protected text (`C07_protected`), the real nested parser (`C07_nested`).
  See `Props/C07.lean` for the overview.
-/
import Bashlex.Props.C07.Nested
import Bashlex.Props.C07.Cover
import Bashlex.Props.C12.Tree

namespace Bashlex.C07
open Bashlex Bashlex.M
set_option linter.unusedSimpArgs false
set_option linter.unusedVariables false

variable {R : Str → Bool → Node → Prop} {np : NestedParse}

/-! ### substitution nodes in absolute offsets -/

theorem shift_comsub (k a b : Nat) (c : Node) :
    Node.shift k (.commandsubstitution (a, b) c) = .commandsubstitution (a + k, b + k) (c.shift k) := by
  simp [Node.shift, Node.mapPos]

theorem shift_procsub (k a b : Nat) (c : Node) :
    Node.shift k (.processsubstitution (a, b) c) = .processsubstitution (a + k, b + k) (c.shift k) := by
  simp [Node.shift, Node.mapPos]

theorem isSubstitution_shift (k : Nat) (p : Node) : isSubstitution (p.shift k) = isSubstitution p := by
  cases p <;> simp [Node.shift, Node.mapPos, isSubstitution]

theorem isParamOrTilde_shift (k : Nat) (p : Node) : isParamOrTilde (p.shift k) = isParamOrTilde p := by
  cases p <;> simp [Node.shift, Node.mapPos, isParamOrTilde]

/-- **the substitution node of a word at absolute position `k`** (`v` the token value):
    kind, span, and the command = the nested parser's `R`-answer on the enclosed text, shifted
    to the absolute offset of that text -/
inductive SubstNode (R : Str → Bool → Node → Prop) (v : Str) (q : Bool) (k : Nat) : Node → Prop
  | dollar {i : Nat} {fl : WordFlags} {n : Node} (ho : opener v q i fl = some .dollar)
      (hR : R (v.drop (i + 2)) true n) (hfit : Fits n (i + 2) v.length)
      (hlt : i + 2 + n.pos.2 < v.length) :
      SubstNode R v q k (.commandsubstitution
        (i + k, i + 2 + dolEnd (v.drop (i + 2)) n.pos.2 + 1 + k) (n.shift (i + 2 + k)))
  | proc {i : Nat} {fl : WordFlags} {n : Node} (ho : opener v q i fl = some .proc)
      (hR : R (v.drop (i + 2)) true n) (hfit : Fits n (i + 2) v.length)
      (hlt : i + 2 + n.pos.2 < v.length) :
      SubstNode R v q k (.processsubstitution
        (i + k, i + 2 + dolEnd (v.drop (i + 2)) n.pos.2 + 1 + k) (n.shift (i + 2 + k)))
  | backquote {i : Nat} {fl : WordFlags} {x : Nat} {n : Node}
      (ho : opener v q i fl = some .backquote) (hx : stringextract v (i + 1) '`' = some x)
      (hR : R (Str.slice v (i + 1) x) false n) (hfit0 : Fits n 0 (x - (i + 1))) :
      SubstNode R v q k (.commandsubstitution (i + k, x + 1 + k) (n.shift (i + 1 + k)))

theorem SubstNode0.shift {v : Str} {q : Bool} {i : Nat} {p : Node} (h : SubstNode0 R v q i p)
    (k : Nat) : SubstNode R v q k (p.shift k) := by
  cases h with
  | dollar ho hR hfit hlt =>
    rw [shift_comsub, Node.shift_shift]; exact SubstNode.dollar ho hR hfit hlt
  | proc ho hR hfit hlt =>
    rw [shift_procsub, Node.shift_shift]; exact SubstNode.proc ho hR hfit hlt
  | backquote ho hx hR hfit0 =>
    rw [shift_comsub, Node.shift_shift]; exact SubstNode.backquote ho hx hR hfit0

/-- a substitution node moved with its word stays the substitution node of that word -/
theorem SubstNode.shift {v : Str} {q : Bool} {k : Nat} {p : Node} (h : SubstNode R v q k p)
    (j : Nat) : SubstNode R v q (k + j) (p.shift j) := by
  cases h with
  | dollar ho hR hfit hlt =>
    rw [shift_comsub, Node.shift_shift]
    have := SubstNode.dollar (k := k + j) ho hR hfit hlt
    simpa [Nat.add_assoc] using this
  | proc ho hR hfit hlt =>
    rw [shift_procsub, Node.shift_shift]
    have := SubstNode.proc (k := k + j) ho hR hfit hlt
    simpa [Nat.add_assoc] using this
  | backquote ho hx hR hfit0 =>
    rw [shift_comsub, Node.shift_shift]
    have := SubstNode.backquote (k := k + j) ho hx hR hfit0
    simpa [Nat.add_assoc] using this

/-! ### spans of `$(…)`, `<(…)`, `>(…)` -/

/-- the nested node ends at the closing parenthesis: the substitution spans from its opener
    through that parenthesis, and the enclosed text `v[i+2 : i+2+n.pos.2]` is covered by `n` -/
theorem dollar_span_tight {v : Str} {i : Nat} {n : Node} (h : v[i + 2 + n.pos.2]? = some ')') :
    i + 2 + dolEnd (v.drop (i + 2)) n.pos.2 + 1 = i + 2 + n.pos.2 + 1 := by
  rw [dolEnd_tight (by rw [List.getElem?_drop]; exact h)]

/-- D27 / D9: the nested node ends before the closing parenthesis (witnesses `$(a )`,
    `$(a\nb)`): the span ends one past the nested node's end moved back over newlines; the
    closing parenthesis is outside the span and is scanned as a plain character -/
theorem dollar_span_loose {v : Str} {i : Nat} {n : Node} (h : v[i + 2 + n.pos.2]? ≠ some ')') :
    i + 2 + dolEnd (v.drop (i + 2)) n.pos.2 + 1 =
      i + 2 + backOverNewlines (v.drop (i + 2)) n.pos.2 + 1 ∧
    backOverNewlines (v.drop (i + 2)) n.pos.2 ≤ n.pos.2 := by
  rw [dolEnd_loose (by rw [List.getElem?_drop]; exact h)]
  exact ⟨rfl, C01.backOverNewlines_le _ _⟩

/-! ### the parts of a word -/

/-- what C07 says about the parts of one word node (token value `v`, span `(k, kend)`) -/
structure PartsOK (R : Str → Bool → Node → Prop) (v : Str) (q : Bool) (k kend : Nat)
    (parts : List Node) : Prop where
  /-- compositional core -/
  subst : ∀ p ∈ parts, isSubstitution p = true → SubstNode R v q k p
  other : ∀ p ∈ parts, isSubstitution p = false → isParamOrTilde p = true
  /-- in scan order, pairwise disjoint -/
  ordered : parts.Pairwise (fun a b => a.pos.2 ≤ b.pos.1)
  inside : ∀ p ∈ parts, k ≤ p.pos.1 ∧ p.pos.1 < p.pos.2 ∧ p.pos.2 ≤ kend

theorem PartsOK.nil {v : Str} {q : Bool} {k kend : Nat} : PartsOK R v q k kend [] :=
  ⟨fun _ h => absurd h List.not_mem_nil, fun _ h => absurd h List.not_mem_nil, List.Pairwise.nil,
   fun _ h => absurd h List.not_mem_nil⟩

theorem PartsOK.filter {v : Str} {q : Bool} {k kend : Nat} {parts : List Node}
    (h : PartsOK R v q k kend parts) (f : Node → Bool) : PartsOK R v q k kend (parts.filter f) :=
  ⟨fun p hp => h.subst p (List.mem_filter.mp hp).1, fun p hp => h.other p (List.mem_filter.mp hp).1,
   h.ordered.sublist List.filter_sublist, fun p hp => h.inside p (List.mem_filter.mp hp).1⟩

theorem partsOK_of_wordSpec {v : Str} {q : Bool} {fl0 : WordFlags} {k kend : Nat}
    {parts : List Node} (h : WordSpec R v q fl0 k kend parts) : PartsOK R v q k kend parts := by
  rcases h with ⟨_, rfl⟩ | ⟨fl, tr, hr, hfits, rfl⟩
  · exact PartsOK.nil
  have key : ∀ p0 ∈ partsOf tr, ∃ i fle i' fl', Visit R v q i fle (some p0) i' fl' := by
    intro p0 hp0
    obtain ⟨i, hi⟩ := mem_partsOf hp0
    obtain ⟨fle, i', fl', _, hv, _⟩ := hr.mem.2 _ hi
    exact ⟨i, fle, i', fl', hv⟩
  refine ⟨?_, ?_, ?_, ?_⟩
  · intro p hp hs
    obtain ⟨p0, hp0, rfl⟩ := List.mem_map.mp hp
    rw [isSubstitution_shift] at hs
    obtain ⟨i, fle, i', fl', hv⟩ := key p0 hp0
    exact (hv.substNode hs).shift k
  · intro p hp hs
    obtain ⟨p0, hp0, rfl⟩ := List.mem_map.mp hp
    rw [isSubstitution_shift] at hs
    rw [isParamOrTilde_shift]
    obtain ⟨i, fle, i', fl', hv⟩ := key p0 hp0
    exact hv.subst_iff.2 p0 rfl hs
  · rw [List.pairwise_map]
    have hs := hr.sorted
    have h1 : tr.Pairwise (fun a b => ∀ p ∈ a.2, ∀ p' ∈ b.2, p.pos.2 ≤ p'.pos.1) := by
      refine List.Pairwise.imp_of_mem ?_ hs.1
      intro a b ha hb hab p hp p' hp'
      have h2 := (hs.2 b hb).2 p' (Option.mem_def.mp hp')
      have h3 := hab.2 p (Option.mem_def.mp hp)
      omega
    have h2 := List.Pairwise.filterMap (f := fun e : Nat × Option Node => e.2)
      (S := fun p p' : Node => p.pos.2 ≤ p'.pos.1) (fun a a' h b hb b' hb' => h b hb b' hb') h1
    refine h2.imp ?_
    intro a b hab
    rw [Node.pos_shift, Node.pos_shift]
    simp only []
    omega
  · intro p hp
    obtain ⟨p0, hp0, rfl⟩ := List.mem_map.mp hp
    obtain ⟨i, fle, i', fl', hv⟩ := key p0 hp0
    have hpos := hv.spec.2.2.2 p0 rfl
    have hlt := hv.spec.2.1
    have hfit := hfits p0 hp0 p0 (C12.self_mem_preorder p0)
    rw [Node.pos_shift, hpos]
    rw [hpos] at hfit
    simp only [] at hfit ⊢
    omega

/-- **C07, word level**: for every nested parser with `NPSpec R`, every token: the word node
    `_expandword` returns has parts `PartsOK` — each substitution part is the nested parser's
    answer on the enclosed text, shifted to its offset (`SubstNode`), all other parts are
    parameter / tilde nodes, the parts are ordered, disjoint and inside the word.
    (With `expansionlimit` 0 the substitution parts are filtered out, with -1 there are none.) -/
theorem C07_word (hnp : NPSpec R np) (tok : Token) :
    Sat (expandword np tok) (fun w => ∃ expanded parts,
      w = .word (tok.lexpos, tok.endlexpos) expanded parts ∧
      PartsOK R tok.valueStr (qOf tok) tok.lexpos tok.endlexpos parts) := by
  refine (sat_expandword hnp tok).weaken ?_ (fun _ h => h)
  rintro w ⟨expanded, parts, rfl, h⟩
  refine ⟨expanded, parts, rfl, ?_⟩
  rcases h with rfl | ⟨full, hfull, rfl | rfl⟩
  · exact PartsOK.nil
  · exact partsOK_of_wordSpec hfull
  · exact (partsOK_of_wordSpec hfull).filter _

/-! ### exactness: substitution nodes exactly at the opener heads -/

/-- **C07, where**: in a scan trace, a substitution node is emitted at a head iff the head is an
    opener under the flags in force there (the token's flags, or `[ITILDE]` once a `~` was passed
    that did not start a tilde prefix) -/
theorem C07_exact {v : Str} {q : Bool} {fl0 fl : WordFlags} {i : Nat} {tr : List (Nat × Option Node)}
    (h : Reach R v q fl0 i fl tr) :
    ∀ e ∈ tr, ∃ fle, (fle = fl0 ∨ fle = [.ITILDE]) ∧
      ((∃ p, e.2 = some p ∧ isSubstitution p = true) ↔ (opener v q e.1 fle).isSome = true) := by
  intro e he
  obtain ⟨fle, i', fl', hfle, hv, _⟩ := h.mem.2 e he
  exact ⟨fle, hfle, hv.subst_iff.1⟩

/-- `C07_exact` for a token without the flags DQUOTE / NOPROCSUB: the rule is a function of the
    word's text, the head, and `q` alone -/
theorem C07_exact' {v : Str} {q : Bool} {fl0 fl : WordFlags} {i : Nat} {tr : List (Nat × Option Node)}
    (h : Reach R v q fl0 i fl tr)
    (h1 : fl0.contains .DQUOTE = false) (h2 : fl0.contains .NOPROCSUB = false) :
    ∀ e ∈ tr, ((∃ p, e.2 = some p ∧ isSubstitution p = true) ↔ (opener v q e.1 []).isSome = true) := by
  intro e he
  obtain ⟨fle, hfle, hiff⟩ := C07_exact h e he
  rcases hfle with rfl | rfl
  · rw [← opener_flags h1 h2]; exact hiff
  · rw [← opener_flags (fl := [.ITILDE]) (by decide) (by decide)]; exact hiff

/-! ### protected text -/

theorem npspec_true (np : NestedParse) : NPSpec (fun _ _ _ => True) np :=
  fun body dp => (Sat.trivial (np body dp)).weaken (fun _ _ _ _ => trivial) (fun _ h => h)

/-- **C07, protected text** (`protected_no_parts`): a wholly single-quoted word, and a word in
    which every `$`, backquote, `<`, `>`, `~` is escaped by a backslash, has no parts at all —
    no substitution, parameter or tilde node — whatever the nested parser is.
    Single quotes inside a partly quoted word do NOT protect (D6, witness `x'$(a)'`). -/
theorem C07_protected (np : NestedParse) (tok : Token)
    (h : wholeSQ tok.valueStr = true ∨ escOK tok.valueStr = true) :
    Sat (expandword np tok) (fun w => ∃ expanded,
      w = .word (tok.lexpos, tok.endlexpos) expanded []) := by
  refine (sat_expandword (npspec_true np) tok).weaken ?_ (fun _ h => h)
  rintro w ⟨expanded, parts, rfl, hp⟩
  refine ⟨expanded, ?_⟩
  have hfull : ∀ full, WordSpec (fun _ _ _ => True) tok.valueStr (qOf tok) tok.flags tok.lexpos
      tok.endlexpos full → full = [] := by
    intro full hf
    rcases h with h | h
    · exact wordSpec_wholeSQ h hf
    · exact wordSpec_escaped h hf
  rcases hp with rfl | ⟨full, hf, rfl | rfl⟩
  · rfl
  · rw [hfull _ hf]
  · rw [hfull _ hf]; rfl

/-- the same for `_expandwordinternal` (used by `split`) -/
theorem C07_protected_internal (np : NestedParse) (tok : Token) (q : Bool)
    (h : wholeSQ tok.valueStr = true ∨ escOK tok.valueStr = true) :
    Sat (expandwordinternal np tok q) (fun r => r.1 = []) := by
  refine (sat_expandwordinternal (npspec_true np) tok q).weaken ?_ (fun _ h => h)
  intro r hr
  rcases h with h | h
  · exact wordSpec_wholeSQ h hr
  · exact wordSpec_escaped h hr

/-! ### the real nested parser -/

/-- **C07 for the parser the real actions use**: in `parserRun (d+1)` (see `parserRun_succ`)
    every word node is built by `expandword (nestedOf d) tok`; each of its substitution parts
    holds the result of `parserRun d` on the enclosed text from the state `nestedStart`, shifted
    to the absolute offset of that text -/
theorem C07_nested (d : Nat) (tok : Token) :
    Sat (expandword (nestedOf d) tok) (fun w => ∃ expanded parts,
      w = .word (tok.lexpos, tok.endlexpos) expanded parts ∧
      PartsOK (RNested d) tok.valueStr (qOf tok) tok.lexpos tok.endlexpos parts) :=
  C07_word (npspec_nested d) tok


/-! ### moving a word with its parts -/

theorem PartsOK.shift {v : Str} {q : Bool} {k kend : Nat} {parts : List Node}
    (h : PartsOK R v q k kend parts) (j : Nat) :
    PartsOK R v q (k + j) (kend + j) (parts.map (Node.shift j)) := by
  refine ⟨?_, ?_, ?_, ?_⟩
  · intro p hp hs
    obtain ⟨p0, hp0, rfl⟩ := List.mem_map.mp hp
    rw [isSubstitution_shift] at hs
    exact (h.subst p0 hp0 hs).shift j
  · intro p hp hs
    obtain ⟨p0, hp0, rfl⟩ := List.mem_map.mp hp
    rw [isSubstitution_shift] at hs
    rw [isParamOrTilde_shift]
    exact h.other p0 hp0 hs
  · rw [List.pairwise_map]
    refine h.ordered.imp ?_
    intro a b hab
    rw [Node.pos_shift, Node.pos_shift]
    simp only []
    omega
  · intro p hp
    obtain ⟨p0, hp0, rfl⟩ := List.mem_map.mp hp
    have := h.inside p0 hp0
    rw [Node.pos_shift]
    simp only []
    omega

theorem shift_word (j k kend : Nat) (e : Str) (parts : List Node) :
    Node.shift j (.word (k, kend) e parts) = .word (k + j, kend + j) e (parts.map (Node.shift j)) := by
  simp [Node.shift, Node.mapPos, Node.mapPosL_eq_map]

theorem shift_assignment (j k kend : Nat) (e : Str) (parts : List Node) :
    Node.shift j (.assignment (k, kend) e parts) =
      .assignment (k + j, kend + j) e (parts.map (Node.shift j)) := by
  simp [Node.shift, Node.mapPos, Node.mapPosL_eq_map]

end Bashlex.C07
