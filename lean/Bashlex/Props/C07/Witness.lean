/-
  C07: the exclusions of `Props/C07.lean` are really produced by the model (kernel-evaluated runs
  of `parse`; the same outputs were observed on the Python implementation).
-/
import Bashlex.Model.Parse

namespace Bashlex.C07
open Bashlex

/-- (kind, span, kind and span of the command) of the parts of every word node of the trees
    `parse` returns, in visiting order; `[]` if it does not return trees -/
def wordParts (s : Str) (o : Opts := {}) : List (List (String × Span × Option (String × Span))) :=
  match (parse s o).1 with
  | .parts ps =>
    (ps.flatMap Node.preorder).filterMap fun n =>
      match n with
      | .word _ _ parts => some (parts.map fun p =>
          (p.kind, p.pos, match p with
            | .commandsubstitution _ c | .processsubstitution _ c => some (c.kind, c.pos)
            | _ => none))
      | _ => none
  | _ => []

/-- D6: `x'$(a)'` — single quotes inside a partly quoted word do not protect -/
theorem witness_D6 :
    (wordParts ['x', '\'', '$', '(', 'a', ')', '\''] ==
      [[("commandsubstitution", (2, 6), some ("command", (4, 5)))], []]) = true := by decide +kernel

/-- D6, double-quote twin: `a"<(b)"` — a process substitution inside double quotes -/
theorem witness_D6_dquote_proc :
    (wordParts ['a', '"', '<', '(', 'b', ')', '"'] ==
      [[("processsubstitution", (2, 6), some ("command", (4, 5)))], []]) = true := by decide +kernel

/-- D6-leading-dquote: `"a"<(b)` — no process substitution after a leading double quote -/
theorem witness_D6_leading_dquote :
    (wordParts ['"', 'a', '"', '<', '(', 'b', ')'] == [[]]) = true := by decide +kernel

/-- D27: `$(a )` — the span `(0,4)` stops before the closing parenthesis -/
theorem witness_D27 :
    (wordParts ['$', '(', 'a', ' ', ')'] ==
      [[("commandsubstitution", (0, 4), some ("command", (2, 3)))], []]) = true := by decide +kernel

/-- D9: `$(a⏎b)` — only the first line is parsed, the span `(0,4)` ends early -/
theorem witness_D9 :
    (wordParts ['$', '(', 'a', '\n', 'b', ')'] ==
      [[("commandsubstitution", (0, 4), some ("command", (2, 3)))], []]) = true := by decide +kernel

/-- a tilde prefix swallows a substitution: `~$(a)"x"` -/
theorem witness_tilde_swallow :
    (wordParts ['~', '$', '(', 'a', ')', '"', 'x', '"'] == [[]]) = true := by decide +kernel

/-- nothing inside `${…}` is expanded: `${x:-$(a)}` -/
theorem witness_brace :
    (wordParts ['$', '{', 'x', ':', '-', '$', '(', 'a', ')', '}'] ==
      [[("parameter", (0, 10), none)]]) = true := by decide +kernel

/-- the tight case: `x$(a)y` + backquotes + process substitution, spans through the closers -/
theorem witness_tight :
    (wordParts ['x', '$', '(', 'a', ')', 'y', '`', 'b', '`', '<', '(', 'c', ')'] ==
      [[("commandsubstitution", (1, 5), some ("command", (3, 4))),
        ("commandsubstitution", (6, 9), some ("command", (7, 8))),
        ("processsubstitution", (9, 13), some ("command", (11, 12)))], [], [], []]) = true := by
  decide +kernel

/-- protected: `'$(a)'` and `a\`b\`` have no parts -/
theorem witness_protected :
    (wordParts ['\'', '$', '(', 'a', ')', '\''] == [[]] &&
     wordParts ['a', '\\', '`', 'b', '\\', '`'] == [[]]) = true := by decide +kernel

end Bashlex.C07
