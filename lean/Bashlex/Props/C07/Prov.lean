/-
  C07, part 7: the semantic actions preserve "every word-like node of the value is good".

  `W` is any predicate on word / assignment nodes with: `expandword np tok` returns trees all of
  whose word-like nodes are `W`; `W` passes from a word node to the assignment node built from
  it; a word node without parts is `W` (here-document delimiters).  Then every semantic action
  maps values whose word-like nodes are `W` to such a value (`sat_action`).  Nothing else is
  needed of the grammar or the tables: the invariant is the same for every grammar symbol.
-/
import Bashlex.Props.C12.Tree
import Bashlex.Model.Actions
import Bashlex.Proofs.Hoare

namespace Bashlex.C07
open Bashlex Bashlex.M Bashlex.Node
set_option linter.unusedSimpArgs false
set_option linter.unusedVariables false

/-- the nodes that carry expansion parts -/
def isWordLike : Node → Bool
  | .word .. | .assignment .. => true
  | _ => false

section
variable (W : Node → Prop)

/-- every word-like node of the tree is `W` -/
def G (n : Node) : Prop := ∀ w ∈ n.preorder, isWordLike w = true → W w
def GL (l : List Node) : Prop := ∀ n ∈ l, G W n
/-- the invariant of a semantic value: nodes are good trees, tokens satisfy `T` -/
def GV (T : Token → Prop) : SVal → Prop
  | .node n => G W n
  | .nodes l => GL W l
  | .tok t => T t
  | .none => True
end

variable {W : Node → Prop} {T : Token → Prop}

theorem G_iff {n : Node} : G W n ↔ (isWordLike n = true → W n) ∧ GL W n.children := by
  unfold G GL G
  rw [C12.preorder_eq]
  constructor
  · intro h
    refine ⟨h n List.mem_cons_self, fun c hc w hw => h w (List.mem_cons_of_mem _ ?_)⟩
    exact C12.mem_preorderL.mpr ⟨c, hc, hw⟩
  · rintro ⟨h1, h2⟩ w hw
    rcases List.mem_cons.mp hw with rfl | hw
    · exact h1
    · obtain ⟨c, hc, hwc⟩ := C12.mem_preorderL.mp hw
      exact h2 c hc w hwc

@[simp] theorem GL_nil : GL W [] := fun _ h => absurd h List.not_mem_nil
@[simp] theorem GL_cons {n : Node} {l : List Node} : GL W (n :: l) ↔ G W n ∧ GL W l := by
  simp [GL]
@[simp] theorem GL_append {a b : List Node} : GL W (a ++ b) ↔ GL W a ∧ GL W b := by
  simp only [GL, List.mem_append]
  exact ⟨fun h => ⟨fun n hn => h n (Or.inl hn), fun n hn => h n (Or.inr hn)⟩,
    fun h n hn => hn.elim (h.1 n) (h.2 n)⟩

@[simp] theorem G_operator {p a} : G W (.operator p a) := by rw [G_iff]; simp [isWordLike, children]
@[simp] theorem G_reservedword {p a} : G W (.reservedword p a) := by rw [G_iff]; simp [isWordLike, children]
@[simp] theorem G_pipe {p a} : G W (.pipe p a) := by rw [G_iff]; simp [isWordLike, children]
@[simp] theorem G_parameter {p a} : G W (.parameter p a) := by rw [G_iff]; simp [isWordLike, children]
@[simp] theorem G_tilde {p a} : G W (.tilde p a) := by rw [G_iff]; simp [isWordLike, children]
@[simp] theorem G_heredoc {p a} : G W (.heredoc p a) := by rw [G_iff]; simp [isWordLike, children]
@[simp] theorem G_list {p ps} : G W (.list p ps) ↔ GL W ps := by rw [G_iff]; simp [isWordLike, children]
@[simp] theorem G_pipeline {p ps} : G W (.pipeline p ps) ↔ GL W ps := by rw [G_iff]; simp [isWordLike, children]
@[simp] theorem G_ifN {p ps} : G W (.ifN p ps) ↔ GL W ps := by rw [G_iff]; simp [isWordLike, children]
@[simp] theorem G_forN {p ps} : G W (.forN p ps) ↔ GL W ps := by rw [G_iff]; simp [isWordLike, children]
@[simp] theorem G_whileN {p ps} : G W (.whileN p ps) ↔ GL W ps := by rw [G_iff]; simp [isWordLike, children]
@[simp] theorem G_untilN {p ps} : G W (.untilN p ps) ↔ GL W ps := by rw [G_iff]; simp [isWordLike, children]
@[simp] theorem G_caseN {p ps} : G W (.caseN p ps) ↔ GL W ps := by rw [G_iff]; simp [isWordLike, children]
@[simp] theorem G_pattern {p ps} : G W (.pattern p ps) ↔ GL W ps := by rw [G_iff]; simp [isWordLike, children]
@[simp] theorem G_command {p ps} : G W (.command p ps) ↔ GL W ps := by rw [G_iff]; simp [isWordLike, children]
@[simp] theorem G_unimplemented {p ps} : G W (.unimplemented p ps) ↔ GL W ps := by
  rw [G_iff]; simp [isWordLike, children]
@[simp] theorem G_function {p a b ps} : G W (.function p a b ps) ↔ GL W ps := by
  rw [G_iff]; simp [isWordLike, children]
@[simp] theorem G_compound {p l r} : G W (.compound p l r) ↔ GL W l ∧ GL W r := by
  rw [G_iff]; simp [isWordLike, children]
@[simp] theorem G_redirect {p i t o oa h hid} :
    G W (.redirect p i t o oa h hid) ↔ GL W o.toList ∧ GL W h.toList := by
  rw [G_iff]; simp [isWordLike, children]
@[simp] theorem G_commandsubstitution {p c} : G W (.commandsubstitution p c) ↔ G W c := by
  rw [G_iff]; simp [isWordLike, children]
@[simp] theorem G_processsubstitution {p c} : G W (.processsubstitution p c) ↔ G W c := by
  rw [G_iff]; simp [isWordLike, children]
theorem G_word {p s ps} : G W (.word p s ps) ↔ W (.word p s ps) ∧ GL W ps := by
  rw [G_iff]; simp [isWordLike, children]
theorem G_assignment {p s ps} : G W (.assignment p s ps) ↔ W (.assignment p s ps) ∧ GL W ps := by
  rw [G_iff]; simp [isWordLike, children]

@[simp] theorem GV_none : GV W T .none := trivial
@[simp] theorem GV_tok {t} : GV W T (.tok t) ↔ T t := Iff.rfl
@[simp] theorem GV_node {n} : GV W T (.node n) ↔ G W n := Iff.rfl
@[simp] theorem GV_nodes {l} : GV W T (.nodes l) ↔ GL W l := Iff.rfl

/-- what the walk needs of `W` and of the nested parser -/
structure Ctx (W : Node → Prop) (T : Token → Prop) (np : NestedParse) : Prop where
  /-- words are built from tokens satisfying `T` only -/
  word : ∀ tok, T tok → Sat (expandword np tok) (G W)
  asg : ∀ p s ps, W (.word p s ps) → W (.assignment p s ps)
  /-- the delimiter word of a here-document redirect -/
  bare : ∀ tok, T tok → W (.word (tok.lexpos, tok.endlexpos) tok.valueStr [])

variable {np : NestedParse} {args : List SVal}

theorem slice_ok (ha : ∀ a ∈ args, GV W T a) (i : Nat) : GV W T (PCtx.slice ⟨np, args⟩ i) := by
  unfold PCtx.slice
  simp only [List.getD_eq_getElem?_getD]
  cases h : args[i - 1]? with
  | none => exact trivial
  | some a => exact ha a (List.mem_of_getElem? h)

theorem sat_nodeAt (ha : ∀ a ∈ args, GV W T a) (i : Nat) (site : String) :
    Sat (PCtx.nodeAt ⟨np, args⟩ i site) (G W) := by
  unfold PCtx.nodeAt
  have := slice_ok (np := np) ha i
  split
  · rename_i n h; rw [h] at this; exact Sat.pure this
  · exact Sat.foreign trivial

theorem sat_nodesAt (ha : ∀ a ∈ args, GV W T a) (i : Nat) (site : String) :
    Sat (PCtx.nodesAt ⟨np, args⟩ i site) (GL W) := by
  unfold PCtx.nodesAt
  have := slice_ok (np := np) ha i
  split
  · rename_i n h; rw [h] at this; exact Sat.pure this
  · exact Sat.foreign trivial

theorem sat_tokAt (ha : ∀ a ∈ args, GV W T a) (i : Nat) :
    Sat (PCtx.tokAt ⟨np, args⟩ i) T := by
  unfold PCtx.tokAt
  have := slice_ok (np := np) ha i
  split
  · rename_i t h; rw [h] at this; exact Sat.pure this
  · exact Sat.foreign trivial

theorem sat_reservedAt (p : PCtx) (i : Nat) : Sat (reservedAt p i) (G W) := by
  unfold reservedAt
  exact Sat.bind_any (fun _ => Sat.pure G_reservedword)

theorem sat_operatorAt (p : PCtx) (i : Nat) : Sat (operatorAt p i) (G W) := by
  unfold operatorAt
  exact Sat.bind_any (fun _ => Sat.pure G_operator)

theorem sat_makeparts (hC : Ctx W T np) (ha : ∀ a ∈ args, GV W T a) :
    Sat (makeparts ⟨np, args⟩) (GL W) := by
  unfold makeparts
  simp only [bind_pure]
  refine Sat.forIn_list (I := fun rest acc => (∀ a ∈ rest, GV W T a) ∧ GL W acc) ?_ ?_ args []
    ⟨ha, GL_nil⟩
  · rintro a rest b ⟨hrest, hb⟩
    have hr : ∀ a' ∈ rest, GV W T a' := fun a' h => hrest a' (List.mem_cons_of_mem _ h)
    have hav : GV W T a := hrest a List.mem_cons_self
    split
    · exact Sat.pure ⟨hr, by simp_all⟩
    · exact Sat.pure ⟨hr, by simp_all⟩
    · split
      · exact Sat.bind (hC.word _ hav) (fun w hw => Sat.pure ⟨hr, by simp_all⟩)
      · exact Sat.pure ⟨hr, by simp_all⟩
    · exact Sat.pure ⟨hr, hb⟩
  · rintro b ⟨_, hb⟩; exact hb


theorem sat_addRedirects {n : Node} {reds : List Node} (hn : G W n) (hr : GL W reds) :
    Sat (addRedirects n reds) (G W) := by
  unfold addRedirects
  refine Sat.bind_any (fun _ => ?_)
  split
  · simp only []
    split
    · exact Sat.foreign trivial
    · refine Sat.bind_any (fun _ => Sat.bind_any (fun _ => Sat.pure ?_))
      simp_all
  · exact Sat.foreign trivial

theorem sat_mkCompound1 {inner : Span → List Node → Node} {parts : List Node}
    (hi : ∀ sp, G W (inner sp parts)) : Sat (mkCompound1 inner parts) (GV W T) := by
  unfold mkCompound1
  exact Sat.bind_any (fun sp => Sat.pure (by simp [hi sp]))

theorem sat_joinLists (ha : ∀ a ∈ args, GV W T a) {mk : Span → Str → Node} (site : String)
    (hmk : ∀ sp s, G W (mk sp s)) : Sat (joinLists ⟨np, args⟩ mk site) (GV W T) := by
  unfold joinLists
  refine Sat.ite (fun _ => ?_) (fun _ => ?_)
  · exact Sat.bind (sat_nodeAt ha _ _) (fun n hn => Sat.pure (by simp [hn]))
  · refine Sat.bind (sat_nodesAt ha _ _) (fun l hl => Sat.bind (sat_nodesAt ha _ _) (fun r hr => ?_))
    exact Sat.bind_any (fun s => Sat.pure (by simp [hl, hr, hmk]))

theorem sat_handleNotImplemented (hC : Ctx W T np) (ha : ∀ a ∈ args, GV W T a) (ty : String) :
    Sat (handleNotImplemented ⟨np, args⟩ ty) (GV W T) := by
  unfold handleNotImplemented
  refine Sat.bind_any (fun b => ?_)
  split
  · exact Sat.bind (sat_makeparts hC ha) (fun parts hp => Sat.bind_any (fun sp => Sat.pure (by simp [hp])))
  · exact Sat.raise trivial

theorem G_asg_of_word (hC : Ctx W T np) {p s ps} (h : G W (.word p s ps)) : G W (.assignment p s ps) := by
  rw [G_word] at h
  rw [G_assignment]
  exact ⟨hC.asg p s ps h.1, h.2⟩

theorem G_bare (hC : Ctx W T np) {tok : Token} (ht : T tok) :
    G W (.word (tok.lexpos, tok.endlexpos) tok.valueStr []) := by
  rw [G_word]; exact ⟨hC.bare tok ht, GL_nil⟩

theorem G_of_head? {l : List Node} {n : Node} (hl : GL W l) (h : l.head? = some n) : G W n :=
  hl n (List.mem_of_head? h)

/-- one step of the walk through an action -/
macro "c07_walk_step" W:ident T:ident hC:ident ha:ident : tactic => `(tactic| first
  | exact Sat.foreign trivial
  | exact Sat.raise trivial
  | refine Sat.pure ?_
  | refine Sat.map ?_
  | refine Sat.bind (sat_nodeAt (W := $W) $ha _ _) (fun _ _ => ?_)
  | refine Sat.bind (sat_nodesAt (W := $W) $ha _ _) (fun _ _ => ?_)
  | refine Sat.bind (sat_reservedAt (W := $W) _ _) (fun _ _ => ?_)
  | refine Sat.bind (sat_operatorAt (W := $W) _ _) (fun _ _ => ?_)
  | refine Sat.bind (sat_makeparts (W := $W) $hC $ha) (fun _ _ => ?_)
  | refine Sat.bind (sat_handleNotImplemented (W := $W) $hC $ha _) (fun _ _ => ?_)
  | refine Sat.bind (sat_tokAt (W := $W) $ha _) (fun _ _ => ?_)
  | refine Sat.bind (Ctx.word (W := $W) $hC _ (by simp_all)) (fun _ _ => ?_)
  | refine Sat.bind (sat_addRedirects (W := $W) (by simp_all) (by simp_all)) (fun _ _ => ?_)
  | refine Sat.bind (sat_mkCompound1 (W := $W) (T := $T) (by intro sp; simp_all)) (fun _ _ => ?_)
  | refine Sat.bind (sat_joinLists (W := $W) $ha _ (by intro sp s; simp)) (fun _ _ => ?_)
  | refine Sat.bind_any (fun _ => ?_)
  | refine Sat.ite (fun _ => ?_) (fun _ => ?_)
  | refine Sat.weaken (sat_nodeAt (W := $W) $ha _ _) (fun _ _ => ?_) (fun _ h => h)
  | refine Sat.weaken (sat_nodesAt (W := $W) $ha _ _) (fun _ _ => ?_) (fun _ h => h)
  | refine Sat.weaken (sat_reservedAt (W := $W) _ _) (fun _ _ => ?_) (fun _ h => h)
  | refine Sat.weaken (sat_operatorAt (W := $W) _ _) (fun _ _ => ?_) (fun _ h => h)
  | refine Sat.weaken (sat_makeparts (W := $W) $hC $ha) (fun _ _ => ?_) (fun _ h => h)
  | refine Sat.weaken (sat_handleNotImplemented (W := $W) $hC $ha _) (fun _ _ => ?_) (fun _ h => h)
  | refine Sat.weaken (sat_tokAt (W := $W) $ha _) (fun _ _ => ?_) (fun _ h => h)
  | refine Sat.weaken (Ctx.word (W := $W) $hC _ (by simp_all)) (fun _ _ => ?_) (fun _ h => h)
  | refine Sat.weaken (sat_addRedirects (W := $W) (by simp_all) (by simp_all)) (fun _ _ => ?_) (fun _ h => h)
  | refine Sat.weaken (sat_mkCompound1 (W := $W) (T := $T) (by intro sp; simp_all)) (fun _ _ => ?_) (fun _ h => h)
  | refine Sat.weaken (sat_joinLists (W := $W) $ha _ (by intro sp s; simp)) (fun _ _ => ?_) (fun _ h => h)
  | (show M.Sat _ _ _; split)
  | refine Sat.weaken (Sat.trivial _) (fun _ _ => ?_) (fun _ h => h))

/-- the post-condition of an action -/
abbrev Post (W : Node → Prop) (T : Token → Prop) (r : SVal × Bool) : Prop := GV W T r.1

/-- the whole walk, for the actions without a value-carrying conditional -/
macro "c07_walk" W:ident T:ident np:ident hC:ident ha:ident : tactic => `(tactic|
  (unfold actionCore; simp only [pure_bind]
   have h1 := slice_ok (W := $W) (np := $np) $ha 1
   have h2 := slice_ok (W := $W) (np := $np) $ha 2
   have h3 := slice_ok (W := $W) (np := $np) $ha 3
   have h4 := slice_ok (W := $W) (np := $np) $ha 4
   have h5 := slice_ok (W := $W) (np := $np) $ha 5
   repeat' c07_walk_step $W $T $hC $ha
   all_goals try (first | (simp_all [Post]; done) | (split <;> simp_all [Post]; done))))

end Bashlex.C07
