/-
  C07, part 6: completeness of the scan.  Every position of the word is a scan head, or is
  skipped for one of four reasons (`Skipped`): it follows a backslash head; it is the second of a
  bare pair of backquotes; it lies inside the span of a part emitted earlier (the body of a
  substitution — the nested parser's business — or the inside of `${…}` / a `$name`); or it was
  swallowed by a tilde-prefix scan.  Hence (`Reach.opener_accounted`) an opener occurrence either
  carries a substitution node or is skipped for one of these reasons.
  Also: `opener` spelled out textually (`opener_dollar_iff`, `opener_backquote_iff`,
  `opener_proc_iff`).
-/
import Bashlex.Props.C07.Protected

namespace Bashlex.C07
open Bashlex Bashlex.M
set_option linter.unusedSimpArgs false
set_option linter.unusedVariables false

variable {R : Str → Bool → Node → Prop} {v : Str} {q : Bool} {fl0 : WordFlags}

/-! ### `opener`, textually -/

theorem opener_dollar_iff {i : Nat} {fl : WordFlags} :
    opener v q i fl = some .dollar ↔ v[i]? = some '$' ∧ v[i + 1]? = some '(' := by
  unfold opener
  constructor
  · intro h
    split at h
    · cases h
    · rename_i c hc
      split at h
      · split at h <;> cases h
      · split at h
        · cases h
        · split at h
          · rename_i hd
            split at h
            · rename_i hp
              simp only [Bool.and_eq_true, beq_iff_eq] at hd
              exact ⟨by rw [hc, hd.1], by simpa using hp⟩
            · cases h
          · split at h
            · split at h <;> cases h
            · cases h
  · rintro ⟨h1, h2⟩
    have hlen : 1 < v.length := by
      have := (List.getElem?_eq_some_iff.mp h2).1; omega
    rw [h1]
    simp [h2, hlen]

theorem opener_backquote_iff {i : Nat} {fl : WordFlags} :
    opener v q i fl = some .backquote ↔ v[i]? = some '`' ∧ v[i + 1]? ≠ some '`' := by
  unfold opener
  constructor
  · intro h
    split at h
    · cases h
    · rename_i c hc
      split at h
      · split at h <;> cases h
      · split at h
        · cases h
        · split at h
          · split at h <;> cases h
          · split at h
            · rename_i hb
              split at h
              · cases h
              · rename_i hne
                have : c = '`' := by simpa using hb
                exact ⟨by rw [hc, this], by simpa using hne⟩
            · cases h
  · rintro ⟨h1, h2⟩
    rw [h1]
    simp [h2]

theorem opener_proc_iff {i : Nat} {fl : WordFlags} :
    opener v q i fl = some .proc ↔
      (v[i]? = some '<' ∨ v[i]? = some '>') ∧ v[i + 1]? = some '(' ∧ q = false ∧
      fl.contains .DQUOTE = false ∧ fl.contains .NOPROCSUB = false := by
  unfold opener
  constructor
  · intro h
    split at h
    · cases h
    · rename_i c hc
      split at h
      · rename_i hlt
        split at h
        · cases h
        · rename_i hcond
          simp only [Bool.or_eq_true, not_or, Bool.not_eq_true, bne_eq_false_iff_eq] at hcond
          obtain ⟨⟨⟨a, b⟩, c'⟩, d⟩ := hcond
          refine ⟨?_, a, b, c', d⟩
          simp only [Bool.or_eq_true, beq_iff_eq] at hlt
          rcases hlt with rfl | rfl
          · exact Or.inl hc
          · exact Or.inr hc
      · split at h
        · cases h
        · split at h
          · split at h <;> cases h
          · split at h
            · split at h <;> cases h
            · cases h
  · rintro ⟨h1, h2, h3, h4, h5⟩
    have h4' : WordFlag.DQUOTE ∉ fl := by simpa using h4
    have h5' : WordFlag.NOPROCSUB ∉ fl := by simpa using h5
    rcases h1 with h1 | h1 <;> · rw [h1]; simp [h2, h3, h4', h5']

/-- the flags matter to `opener` only through DQUOTE and NOPROCSUB (which the tokenizer never
    sets) -/
theorem opener_flags {i : Nat} {fl : WordFlags}
    (h1 : fl.contains .DQUOTE = false) (h2 : fl.contains .NOPROCSUB = false) :
    opener v q i fl = opener v q i [] := by
  unfold opener
  simp only [h1, h2, List.contains_nil, Bool.or_false]

/-! ### where the cursor goes -/

theorem paramPlain_next {i : Nat} {out : Option Node} {j : Nat}
    (h : paramPlain v i = some (out, j)) : j = i + 1 ∨ ∃ p, out = some p := by
  unfold paramPlain at h
  split at h
  · simp only [Option.some.injEq, Prod.mk.injEq] at h
    exact Or.inr ⟨_, h.1.symm⟩
  · split at h
    · simp only [Option.some.injEq, Prod.mk.injEq] at h
      exact Or.inr ⟨_, h.1.symm⟩
    · split at h
      · split at h
        · simp only [Option.some.injEq, Prod.mk.injEq] at h
          exact Or.inl h.2.symm
        · simp only [Option.some.injEq, Prod.mk.injEq] at h
          exact Or.inr ⟨_, h.1.symm⟩
      · split at h
        · cases h
        · split at h
          · cases h
          · simp only [Option.some.injEq, Prod.mk.injEq] at h
            exact Or.inr ⟨_, h.1.symm⟩

/-- why a position `j` after a head `h` (which emitted `out`) is not itself a head -/
inductive Skipped (v : Str) (h : Nat) (out : Option Node) (j : Nat) : Prop
  /-- protected by a backslash -/
  | escaped (h1 : v[h]? = some '\\') (h2 : j = h + 1)
  /-- the second of a bare pair of backquotes -/
  | barePair (h1 : v[h]? = some '`') (h2 : v[h + 1]? = some '`') (h3 : j = h + 1)
  /-- inside the span of the part emitted at `h` (substitution body, `${…}`, `$name`, tilde prefix) -/
  | inPart (p : Node) (h1 : out = some p) (h2 : j < p.pos.2)
  /-- swallowed by a tilde-prefix scan that did not yield a tilde node (it met a quote character) -/
  | tilde (h1 : v[h]? = some '~')

theorem plainStep_next {i : Nat} {fl : WordFlags} {out : Option Node} {i' : Nat} {fl' : WordFlags}
    (h : plainStep v q i fl = some (out, i', fl')) :
    i' = i + 1 ∨ (v[i]? = some '\\' ∧ i' = i + 2) ∨
    (v[i]? = some '`' ∧ v[i + 1]? = some '`' ∧ i' = i + 2) ∨ (∃ p, out = some p) ∨
    v[i]? = some '~' := by
  unfold plainStep at h
  split at h
  · cases h
  rename_i c hc
  split at h
  · split at h
    · simp only [Option.some.injEq, Prod.mk.injEq] at h
      exact Or.inl h.2.1.symm
    · cases h
  split at h
  · rename_i hct
    have : c = '~' := by simpa using hct
    exact Or.inr (Or.inr (Or.inr (Or.inr (by rw [hc, this]))))
  split at h
  · cases hpp : paramPlain v i with
    | none => rw [hpp] at h; cases h
    | some r =>
      rw [hpp] at h
      simp only [Option.map_some, Option.some.injEq, Prod.mk.injEq] at h
      obtain ⟨rfl, rfl, rfl⟩ := h
      rcases paramPlain_next (out := r.1) (j := r.2) hpp with h1 | h1
      · exact Or.inl h1
      · exact Or.inr (Or.inr (Or.inr (Or.inl h1)))
  split at h
  · rename_i hbq
    have hcb : c = '`' := by simpa using hbq
    split at h
    · rename_i hbb
      simp only [Option.some.injEq, Prod.mk.injEq] at h
      exact Or.inr (Or.inr (Or.inl ⟨by rw [hc, hcb], by simpa using hbb, h.2.1.symm⟩))
    · cases h
  split at h
  · rename_i hbs
    have hcb : c = '\\' := by simpa using hbs
    simp only [Option.some.injEq, Prod.mk.injEq] at h
    exact Or.inr (Or.inl ⟨by rw [hc, hcb], h.2.1.symm⟩)
  split at h
  · cases h
  · simp only [Option.some.injEq, Prod.mk.injEq] at h
    exact Or.inl h.2.1.symm

theorem Visit.next {i : Nat} {fl : WordFlags} {out : Option Node} {i' : Nat} {fl' : WordFlags}
    (h : Visit R v q i fl out i' fl') :
    i' = i + 1 ∨ (v[i]? = some '\\' ∧ i' = i + 2) ∨
    (v[i]? = some '`' ∧ v[i + 1]? = some '`' ∧ i' = i + 2) ∨ (∃ p, out = some p) ∨
    v[i]? = some '~' := by
  cases h with
  | procsub _ _ => exact Or.inr (Or.inr (Or.inr (Or.inl ⟨_, rfl⟩)))
  | comsub _ _ _ => exact Or.inr (Or.inr (Or.inr (Or.inl ⟨_, rfl⟩)))
  | backquote _ _ _ _ _ => exact Or.inr (Or.inr (Or.inr (Or.inl ⟨_, rfl⟩)))
  | plain h => exact plainStep_next h

/-- **coverage**: every position before the cursor is a head of the trace, or is skipped by an
    earlier head for one of the four reasons -/
theorem Reach.cover {i : Nat} {fl : WordFlags} {tr : List (Nat × Option Node)}
    (h : Reach R v q fl0 i fl tr) :
    ∀ j, j < i → ∃ e ∈ tr, e.1 = j ∨ (e.1 < j ∧ Skipped v e.1 e.2 j) := by
  induction h with
  | start => intro j hj; cases hj
  | step hr hv ih =>
    rename_i i fl tr out i' fl'
    intro j hj
    by_cases hji : j < i
    · obtain ⟨e, he, h⟩ := ih j hji
      exact ⟨e, List.mem_append_left _ he, h⟩
    · refine ⟨(i, out), List.mem_append_right _ (List.mem_singleton.mpr rfl), ?_⟩
      by_cases hje : i = j
      · exact Or.inl hje
      · refine Or.inr ⟨by simp only []; omega, ?_⟩
        have hpos := hv.spec.2.2.2
        rcases hv.next with h1 | ⟨h1, h2⟩ | ⟨h1, h2, h3⟩ | ⟨p, hp⟩ | h1
        · omega
        · exact Skipped.escaped h1 (by omega)
        · exact Skipped.barePair h1 h2 (by omega)
        · refine Skipped.inPart p hp ?_
          rw [hpos p hp]; exact hj
        · exact Skipped.tilde h1

/-- **completeness**: after a full scan, an opener occurrence at `j` either carries a substitution
    node starting at `j`, or `j` was skipped by an earlier head (escaped by a backslash; inside an
    earlier part — a substitution body, `${…}`; second of a bare pair of backquotes; swallowed by a
    tilde prefix).  (`q`/flags: as in `C07_exact'`; quote STATE plays no role — D6.) -/
theorem Reach.opener_accounted {fl : WordFlags} {tr : List (Nat × Option Node)}
    (h : Reach R v q fl0 v.length fl tr)
    (h1 : fl0.contains .DQUOTE = false) (h2 : fl0.contains .NOPROCSUB = false)
    {j : Nat} (hj : (opener v q j []).isSome = true) :
    (∃ p, (j, some p) ∈ tr ∧ isSubstitution p = true) ∨
    ∃ e ∈ tr, e.1 < j ∧ Skipped v e.1 e.2 j := by
  have hjl : j < v.length := by
    unfold opener at hj
    split at hj
    · cases hj
    · rename_i c hc; exact (List.getElem?_eq_some_iff.mp hc).1
  obtain ⟨e, he, hcase⟩ := h.cover j hjl
  rcases hcase with rfl | hs
  · left
    obtain ⟨fle, i', fl', hfle, hv, _⟩ := h.mem.2 e he
    have hop : opener v q e.1 fle = opener v q e.1 [] := by
      rcases hfle with rfl | rfl
      · exact opener_flags h1 h2
      · exact opener_flags (fl := [.ITILDE]) (by decide) (by decide)
    obtain ⟨p, hp, hsub⟩ := hv.subst_iff.1.mpr (by rw [hop]; exact hj)
    refine ⟨p, ?_, hsub⟩
    rw [← hp]; exact he
  · exact Or.inr ⟨e, he, hs⟩

end Bashlex.C07
