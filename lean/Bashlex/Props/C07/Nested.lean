/-
  C07, part 5: the real nested parser.  `parserRun (d+1)` runs the LR engine with the nested parser
  `nestedOf d`: a fresh parser object over `Tape.ofInput body` (strict, not `proceedonerror`),
  inheriting the three last tokens, the parser-state flags (plus CMDSUBST, EOFTOKEN and the
  end-of-input token `)` when called from `_parsedolparen`) and the expansion limit minus one, on
  which `parserRun d` runs.  `RNested d body dolparen n` says exactly that: `n` is what
  `parserRun d` returned from such a start state.
-/
import Bashlex.Props.C07.Protected
import Bashlex.Props.C10.Tape

namespace Bashlex.C07
open Bashlex Bashlex.M

/-- the state of the fresh parser object `_recursiveparse` builds from the outer one -/
def nestedStart (outer : Local) (body : Str) (dolparen : Bool) : Local :=
  { tape := some (Tape.ofInput body), opts := some (true, false)
    lastReadToken := outer.lastReadToken, tokenBeforeThat := outer.tokenBeforeThat
    twoTokensAgo := outer.twoTokensAgo
    ps := if dolparen then { outer.ps with cmdsubst := true, eoftoken := true } else outer.ps
    eofToken := if dolparen then some rparenEofToken else none
    limit := outer.limit.map (· - 1) }

/-- the nested parser of `parserRun (d + 1)` -/
def nestedOf (d : Nat) : NestedParse := fun string dolparen => do
  let outer ← get
  set (nestedStart outer string dolparen)
  let r ← parserRun d
  let inner ← get
  set { outer with ps := inner.ps }
  pure r

/-- `parserRun (d + 1)` is the LR engine over the real tables with `nestedOf d` as nested parser -/
theorem parserRun_succ (d : Nat) :
    parserRun (d + 1) = (do
      let res ← LR.run LR.realTables (lrHooks (nestedOf d)) 1073741824
      let store := (← get).store
      match res with
      | .accepted (.node n) _ _ _ => pure (some (resolve store n))
      | _ => pure none) := rfl

/-- `n` is the result of a parser run of nesting budget `d` over `body`, started as
    `_recursiveparse` starts it from some outer parser object, in some environment -/
def RNested (d : Nat) (body : Str) (dolparen : Bool) (n : Node) : Prop :=
  ∃ outer e l' e', (parserRun d).run (nestedStart outer body dolparen) e = (.ok (some n, l'), e')

theorem npspec_nested (d : Nat) : NPSpec (RNested d) (nestedOf d) := by
  intro body dp l e
  unfold nestedOf
  rw [M.run_bind, C10.run_get]
  simp only []
  rw [M.run_bind, C10.run_set]
  simp only []
  rw [M.run_bind]
  rcases h : (parserRun d).run (nestedStart l body dp) e with ⟨r, e2⟩
  cases r with
  | error x => simp only []
  | ok a =>
    obtain ⟨r, l2⟩ := a
    simp only []
    rw [M.run_bind, C10.run_get]
    simp only []
    rw [M.run_bind, C10.run_set]
    simp only []
    rw [M.run_pure]
    simp only []
    intro n hn
    subst hn
    exact ⟨l, e, l2, e2, h⟩

end Bashlex.C07
