/-
  C07, part 1: one iteration of the loop of `_expandwordinternal`, for an arbitrary nested parser
  with `NPSpec R`: the helpers (`_adjustpositions`, `_recursiveparse`, `_parsedolparen`,
  `_paramexpand`) and `expandStep` against the relation `Visit`.
-/
import Bashlex.Props.C07.Spec
import Bashlex.Props.C01.Expand
import Bashlex.Props.C13.Shift

namespace Bashlex.C07
open Bashlex Bashlex.M
set_option linter.unusedSimpArgs false
set_option linter.unusedVariables false

variable {R : Str → Bool → Node → Prop} {np : NestedParse}

theorem sat_adjustpositions (n : Node) (base lim : Nat) :
    Sat (adjustpositions n base lim) (fun r => Fits n base lim ∧ r = n.shift base) := by
  unfold adjustpositions
  split
  · rename_i h
    refine Sat.pure ⟨?_, rfl⟩
    intro m hm
    have := List.all_eq_true.mp h m hm
    simpa using this
  · exact Sat.foreign trivial

theorem sat_recursiveparse (hnp : NPSpec R np) (base : Str) (sindex : Nat) (dp : Bool) :
    Sat (recursiveparse np base sindex dp) (fun r => ∃ n, R (base.drop sindex) dp n ∧
      Fits n sindex base.length ∧ r = (n.shift sindex, n.pos.2)) := by
  unfold recursiveparse
  refine Sat.bind (hnp _ _) (fun r hr => ?_)
  split
  · exact Sat.foreign trivial
  · rename_i node
    simp only []
    refine Sat.bind (sat_adjustpositions _ _ _) (fun n' hn' => Sat.pure ?_)
    exact ⟨node, hr node rfl, hn'.1, by rw [hn'.2]⟩

theorem dolEnd_of {body : Str} {endp : Nat} {c : Char} (h : body[endp]? = some c) :
    (if (c != ')') = true then backOverNewlines body endp else endp) = dolEnd body endp := by
  unfold dolEnd
  rw [h]
  by_cases hc : c = ')'
  · subst hc; simp
  · have : ¬ (some c = some ')') := by intro h'; exact hc (Option.some.inj h')
    simp [hc, this]

theorem sat_parsedolparen (hnp : NPSpec R np) (v : Str) (s : Nat) :
    Sat (parsedolparen np v s) (fun r => DolParen R v s r.1 r.2) := by
  unfold parsedolparen
  simp only []
  refine Sat.bind (sat_recursiveparse hnp _ _ _) (fun r hr => ?_)
  obtain ⟨n, hR, hfit, rfl⟩ := hr
  simp only []
  split
  · exact Sat.foreign trivial
  · rename_i c hc
    have hlt : n.pos.2 < (v.drop s).length := (List.getElem?_eq_some_iff.mp hc).1
    simp only [List.length_drop] at hlt
    refine Sat.pure ?_
    show DolParen R v s (n.shift s) (s + _)
    rw [dolEnd_of hc]
    exact DolParen.mk n hR hfit (by omega)

/-- what `_paramexpand` returns at a `$` -/
def ParamSpec (R : Str → Bool → Node → Prop) (v : Str) (i : Nat) (r : Option Node × Nat) : Prop :=
  paramPlain v i = some r ∨
  (v[i + 1]? = some '(' ∧ v[i + 2]? ≠ some '(' ∧
    ∃ node e, DolParen R v (i + 2) node e ∧ r = (some (.commandsubstitution (i, e + 1) node), e + 1))

theorem sat_paramexpand (hnp : NPSpec R np) (v : Str) (i : Nat) :
    Sat (paramexpand np v i) (ParamSpec R v i) := by
  unfold paramexpand
  simp only []
  split
  · rename_i hc
    refine Sat.pure (Or.inl ?_)
    simp only [paramPlain, hc]
  · rename_i c hc
    have hz : i + 1 < v.length := (List.getElem?_eq_some_iff.mp hc).1
    split
    · rename_i hsp
      refine Sat.pure (Or.inl ?_)
      simp only [paramPlain, hc, hsp, if_true, hz]
    · rename_i hsp
      split
      · rename_i hbr
        split
        · rename_i hf
          refine Sat.pure (Or.inl ?_)
          simp only [paramPlain, hc, hsp, hbr, if_true, hf]
          simp
        · rename_i z hf
          have hzl := (C01.findFrom_spec hf).2
          refine Sat.pure (Or.inl ?_)
          simp only [paramPlain, hc, hsp, hbr, if_true, hf, hzl]
          simp
      · rename_i hbr
        split
        · rename_i hpar
          have hc' : v[i + 1]? = some '(' := by
            have : c = '(' := by simpa using hpar
            rw [← this]; exact hc
          split
          · exact Sat.foreign trivial
          · rename_i d hd
            split
            · exact Sat.raise trivial
            · rename_i hdd
              refine Sat.bind (sat_parsedolparen hnp _ _) (fun r hr => Sat.pure (Or.inr ⟨hc', ?_, ?_⟩))
              · rw [hd]; intro h; have := Option.some.inj h; simp [this] at hdd
              · refine ⟨r.1, r.2, hr, ?_⟩
                show (some (Node.commandsubstitution (i + 1 + 1 - 2, r.2 + 1) r.1), r.2 + 1) = _
                have : i + 1 + 1 - 2 = i := by omega
                rw [this]
        · rename_i hpar
          split
          · exact Sat.raise trivial
          · rename_i hsq
            refine Sat.pure (Or.inl ?_)
            simp only [paramPlain, hc, hsp, hbr, hpar, hsq, if_false, Bool.false_eq_true]

/-- what one iteration of the loop of `_expandwordinternal` does to cursor, flags and parts -/
def StepSpec (R : Str → Bool → Node → Prop) (v : Str) (q : Bool) (st : ExpSt) :
    ExpSt ⊕ (List Node × Str × Bool) → Prop
  | .inl st' => ∃ out, Visit R v q st.sindex st.flags out st'.sindex st'.flags ∧
      st'.parts = st.parts ++ out.toList
  | .inr r => (st.sindex = v.length ∧ r.1 = st.parts ∧ r.2.2 = false) ∨
      (wholeSQ v = true ∧ r.1 = [] ∧ r.2.2 = true)

theorem sat_expandStep (hnp : NPSpec R np) (tok : Token) (v : Str) (q : Bool) (st : ExpSt) :
    Sat (expandStep np tok v q st) (StepSpec R v q st) := by
  unfold expandStep
  simp only []
  refine Sat.ite (fun hend => Sat.pure (Or.inl ⟨by simpa using hend, rfl, rfl⟩)) (fun _ => ?_)
  split
  · exact Sat.foreign trivial
  rename_i c hc
  -- a plain iteration
  have plain : ∀ (st' : ExpSt) (out : Option Node),
      plainStep v q st.sindex st.flags = some (out, st'.sindex, st'.flags) →
      st'.parts = st.parts ++ out.toList → StepSpec R v q st (.inl st') :=
    fun st' out h hp => ⟨out, Visit.plain h, hp⟩
  refine Sat.ite (fun hlt => Sat.ite (fun hcond => Sat.pure ?_) (fun hcond => ?_)) (fun hlt => ?_)
  · refine plain _ none ?_ (by simp)
    simp only [plainStep, hc, hlt, hcond, if_true]
  · refine Sat.bind (sat_parsedolparen hnp _ _) (fun r hr => Sat.pure ?_)
    have ho : opener v q st.sindex st.flags = some .proc := by
      simp only [opener, hc, hlt, hcond, if_true, if_false, Bool.false_eq_true]
    have h2 : st.sindex + 2 - 2 = st.sindex := by omega
    refine ⟨some (.processsubstitution (st.sindex, r.2 + 1) r.1), ?_, ?_⟩
    · exact Visit.procsub ho hr
    · show st.parts ++ [Node.processsubstitution (st.sindex + 2 - 2, r.2 + 1) r.1] = _
      rw [h2]; rfl
  refine Sat.ite (fun hct => Sat.ite (fun hcond => Sat.pure ?_) (fun hcond => Sat.pure ?_)) (fun hct => ?_)
  · refine plain _ none ?_ (by simp)
    simp only [plainStep, hc, hlt, hct, hcond, if_true, if_false, Bool.false_eq_true]
  · simp only [Bool.not_eq_true] at hcond
    have hps : plainStep v q st.sindex st.flags =
        (let r := tildeScan v (st.flags.contains .ASSIGNRHS || st.flags.contains .ASSIGNMENT ||
            st.flags.contains .TILDEEXP) (v.length + 1) st.sindex
         some (if decide (r.1 > st.sindex) && r.2 then
            some (.tilde (st.sindex, r.1) (Str.slice v st.sindex r.1)) else none, r.1, st.flags)) := by
      simp only [plainStep, hc, hlt, hct, hcond, if_true, if_false, Bool.false_eq_true]
    generalize tildeScan v (st.flags.contains .ASSIGNRHS || st.flags.contains .ASSIGNMENT ||
            st.flags.contains .TILDEEXP) (v.length + 1) st.sindex = r at hps ⊢
    simp only [] at hps
    refine plain _ _ hps ?_
    simp only []
    split <;> simp
  refine Sat.ite (fun hd => ?_) (fun hd => ?_)
  · refine Sat.bind (sat_paramexpand hnp _ _) (fun r hr => Sat.pure ?_)
    rcases hr with hp | ⟨hp1, hp2, node, e, hdp, rfl⟩
    · refine plain _ r.1 ?_ ?_
      · simp only [plainStep, hc, hlt, hct, hd, if_true, if_false, Bool.false_eq_true, hp, Option.map_some]
      · cases r.1 <;> simp
    · have ho : opener v q st.sindex st.flags = some .dollar := by
        simp only [opener, hc, hlt, hct, hd, hp1, if_true, if_false, Bool.false_eq_true, beq_self_eq_true]
      exact ⟨_, Visit.comsub ho hp2 hdp, rfl⟩
  refine Sat.ite (fun hbq => Sat.ite (fun hbb => Sat.pure ?_) (fun hbb => ?_)) (fun hbq => ?_)
  · refine plain _ none ?_ (by simp)
    simp only [plainStep, hc, hlt, hct, hd, hbq, hbb, if_true, if_false, Bool.false_eq_true]
  · split
    · exact Sat.bind_any (fun _ => Sat.raise trivial)
    · rename_i x hx
      refine Sat.bind (sat_recursiveparse hnp _ _ _) (fun r hr => ?_)
      obtain ⟨n, hR, hfit0, rfl⟩ := hr
      simp only [Node.shift_zero]
      refine Sat.bind (sat_adjustpositions _ _ _) (fun cmd hcmd => Sat.pure ?_)
      obtain ⟨hfit, rfl⟩ := hcmd
      have ho : opener v q st.sindex st.flags = some .backquote := by
        simp only [opener, hc, hlt, hct, hd, hbq, hbb, if_true, if_false, Bool.false_eq_true]
      have hR' : R (Str.slice v (st.sindex + 1) x) false n := by simpa using hR
      exact ⟨_, Visit.backquote ho hx hR' hfit0 hfit, rfl⟩
  refine Sat.ite (fun hbs => Sat.pure ?_) (fun hbs => ?_)
  · refine plain _ none ?_ (by simp)
    simp only [plainStep, hc, hlt, hct, hd, hbq, hbs, if_true, if_false, Bool.false_eq_true]
  refine Sat.ite (fun hdq => Sat.pure ?_) (fun hdq => ?_)
  · refine plain _ none ?_ (by simp)
    have hsq : (c == '\'') = false := by
      have : c = '"' := by simpa using hdq
      subst this; decide
    simp only [plainStep, hc, hlt, hct, hd, hbq, hbs, hsq, if_true, if_false, Bool.false_eq_true,
      Bool.false_and]
  refine Sat.ite (fun hsq => Sat.ite (fun hw => Sat.pure ?_) (fun hw => ?_)) (fun hsq => Sat.pure ?_)
  · refine Or.inr ⟨?_, rfl, rfl⟩
    simp only [Bool.and_eq_true, beq_iff_eq] at hw
    have hc0 : v[0]? = some '\'' := by
      have : c = '\'' := by simpa using hsq
      rw [← this, ← hw.1]; exact hc
    simp only [wholeSQ, Bool.and_eq_true, beq_iff_eq]
    exact ⟨by rw [List.head?_eq_getElem?]; exact hc0, hw.2⟩
  · have hps : plainStep v q st.sindex st.flags = some (none, st.sindex + 1, st.flags) := by
      have hw' : (c == '\'' && st.sindex == 0 && v.getLast? == some '\'') = false := by
        simp only [Bool.and_assoc]
        simpa [hsq] using hw
      simp only [plainStep, hc, hlt, hct, hd, hbq, hbs, hw', if_true, if_false, Bool.false_eq_true]
    exact Sat.ite (fun _ => Sat.pure (plain _ none hps (by simp))) (fun _ => Sat.pure (plain _ none hps (by simp)))
  · refine plain _ none ?_ (by simp)
    simp only [Bool.not_eq_true] at hsq
    simp only [plainStep, hc, hlt, hct, hd, hbq, hbs, hsq, if_true, if_false, Bool.false_eq_true,
      Bool.false_and]

end Bashlex.C07
