/-
  C07, part 2: the loop of `_expandwordinternal`, the final shift by the word's position, and
  `parser._expandword` — for an arbitrary nested parser with `NPSpec R`.
-/
import Bashlex.Props.C07.Step

namespace Bashlex.C07
open Bashlex Bashlex.M
set_option linter.unusedSimpArgs false
set_option linter.unusedVariables false

variable {R : Str → Bool → Node → Prop} {np : NestedParse}

/-- loop invariant: the state is the end of a trace -/
def Inv (R : Str → Bool → Node → Prop) (v : Str) (q : Bool) (fl0 : WordFlags) (st : ExpSt) : Prop :=
  ∃ tr, Reach R v q fl0 st.sindex st.flags tr ∧ st.parts = partsOf tr

/-- what the loop returns -/
def LoopPost (R : Str → Bool → Node → Prop) (v : Str) (q : Bool) (fl0 : WordFlags)
    (r : List Node × Str × Bool) : Prop :=
  (wholeSQ v = true ∧ r.1 = [] ∧ r.2.2 = true) ∨
  (∃ fl tr, Reach R v q fl0 v.length fl tr ∧ r.1 = partsOf tr ∧ r.2.2 = false)

theorem sat_loop (hnp : NPSpec R np) (tok : Token) (v : Str) (q : Bool) (fl0 : WordFlags)
    (fuel : Nat) :
    Sat (M.loop "_expandwordinternal" (expandStep np tok v q) fuel { flags := fl0 })
      (LoopPost R v q fl0) := by
  refine Sat.loop (I := Inv R v q fl0) trivial ?_ fuel _ ⟨[], Reach.start, rfl⟩
  intro st hst
  refine (sat_expandStep hnp tok v q st).weaken ?_ (fun _ h => h)
  intro r hr
  obtain ⟨tr, hreach, hparts⟩ := hst
  cases r with
  | inl st' =>
    obtain ⟨out, hv, hp⟩ := hr
    refine ⟨tr ++ [(st.sindex, out)], Reach.step hreach hv, ?_⟩
    rw [hp, hparts, partsOf_snoc]
  | inr res =>
    rcases hr with ⟨h1, h2, h3⟩ | ⟨h1, h2, h3⟩
    · exact Or.inr ⟨st.flags, tr, h1 ▸ hreach, by rw [h2, hparts], h3⟩
    · exact Or.inl ⟨h1, h2, h3⟩

/-- **the word-level theorem**: the parts `_expandwordinternal` returns are those of a scan trace
    over the token value, every nested answer an `R`-answer, shifted by the token's position -/
theorem sat_expandwordinternal (hnp : NPSpec R np) (tok : Token) (q : Bool) :
    Sat (expandwordinternal np tok q)
      (fun r => WordSpec R tok.valueStr q tok.flags tok.lexpos tok.endlexpos r.1) := by
  unfold expandwordinternal
  simp only []
  refine Sat.bind (sat_loop hnp tok _ q tok.flags _) ?_
  rintro ⟨parts, istring, early⟩ hpost
  simp only [] at hpost ⊢
  rcases hpost with ⟨hw, hp, he⟩ | ⟨fl, tr, hreach, hp, he⟩
  · simp only [] at hp he
    subst hp he
    simp only [Bool.true_or, if_true]
    exact Sat.pure (Or.inl ⟨hw, rfl⟩)
  · simp only [] at hp he
    subst hp he
    refine Sat.ite (fun hemp => Sat.pure (Or.inr ⟨fl, tr, hreach, ?_, ?_⟩)) (fun hne => ?_)
    · have : partsOf tr = [] := by simpa using hemp
      rw [this]; intro p hp; cases hp
    · have : partsOf tr = [] := by simpa using hemp
      simp only [this, List.map_nil]
    · refine Sat.ite (fun hnok => ?_) (fun hok => Sat.pure (Or.inr ⟨fl, tr, hreach, ?_, rfl⟩))
      · exact Sat.bind (P := fun _ => False) (Sat.foreign trivial) (fun _ h => h.elim)
      · simp only [Bool.not_eq_true, Bool.not_eq_false'] at hok
        intro p hp m hm
        have := List.all_eq_true.mp (List.all_eq_true.mp hok p hp) m hm
        simpa using this

/-- `qdoublequotes` as `_expandword` computes it -/
def qOf (tok : Token) : Bool := tok.flags.contains .QUOTED && tok.valueStr.head? == some '"'

/-- the word node `_expandword` returns for a token -/
def WordNodeSpec (R : Str → Bool → Node → Prop) (tok : Token) (w : Node) : Prop :=
  ∃ expanded parts, w = .word (tok.lexpos, tok.endlexpos) expanded parts ∧
    (parts = [] ∨
     ∃ full, WordSpec R tok.valueStr (qOf tok) tok.flags tok.lexpos tok.endlexpos full ∧
       (parts = full ∨ parts = full.filter (fun n => !isSubstitution n)))

theorem sat_expandword (hnp : NPSpec R np) (tok : Token) :
    Sat (expandword np tok) (WordNodeSpec R tok) := by
  unfold expandword
  simp only []
  refine Sat.bind_any (fun l => ?_)
  have hfin : ∀ qd, qd = qOf tok → Sat (do
      let x ← expandwordinternal np tok qd
      pure (Node.word (tok.lexpos, tok.endlexpos) x.snd
        (if (l.limit == some 0) = true then List.filter (fun n => !isSubstitution n) x.fst
         else x.fst)) : M Node) (WordNodeSpec R tok) := by
    intro qd hqd
    subst hqd
    refine Sat.bind (sat_expandwordinternal hnp tok _) (fun r hr => Sat.pure ⟨_, _, rfl, Or.inr ⟨r.1, hr, ?_⟩⟩)
    split
    · exact Or.inr rfl
    · exact Or.inl rfl
  refine Sat.ite (fun _ => Sat.pure ⟨_, _, rfl, Or.inl rfl⟩) (fun _ => ?_)
  refine Sat.ite (fun hq => ?_) (fun hq => ?_)
  · split
    · exact Sat.bind (P := fun _ => False) (Sat.foreign trivial) (fun _ h => h.elim)
    · rename_i c hc
      refine Sat.bind (P := fun b => b = qOf tok) (Sat.pure ?_) (fun b hb => hfin b hb)
      rw [qOf, hq, hc]; simp
  · refine Sat.bind (P := fun b => b = qOf tok) (Sat.pure ?_) (fun b hb => hfin b hb)
    simp only [Bool.not_eq_true] at hq
    rw [qOf, hq]; simp

end Bashlex.C07
