/-
  C07, part 9: from word tokens to trees.

  `sat_action`: every semantic action preserves "all word-like nodes are `W`" (dispatch over the
  39 action functions the generated grammar uses: `prodFuncs_known`, kernel `decide`).
  `run_sound` (LR engine, any token source) then gives the same for the accepted value;
  `G_resolve`: resolving pending here-document redirects does not touch word-like nodes;
  induction over the nesting budget: `parserRun_G`; lift to `parse` / `parsesingle`: `C07_partial`.
-/
import Bashlex.Props.C07.ProvActions
import Bashlex.Props.C07.Parts
import Bashlex.LR.Real

namespace Bashlex.C07
open Bashlex Bashlex.M Bashlex.Node Bashlex.LR
set_option linter.unusedSimpArgs false
set_option linter.unusedVariables false
set_option linter.unnecessarySimpa false

variable {W : Node → Prop} {T : Token → Prop} {np : NestedParse} {args : List SVal} {d : Nat}

/-- the action functions of parser.py -/
def knownActions : List String := ["p_arith_command", "p_arith_for_command", "p_case_clause", "p_case_clause_sequence", "p_case_command", "p_command", "p_compound_list", "p_cond_command", "p_coproc", "p_elif_clause", "p_empty", "p_for_command", "p_function_body", "p_function_def", "p_group_command", "p_if_command", "p_inputunit", "p_list", "p_list0", "p_list1", "p_list_terminator", "p_newline_list", "p_pattern", "p_pattern_list", "p_pipeline", "p_pipeline_command", "p_redirection", "p_redirection_heredoc", "p_redirection_list", "p_select_command", "p_shell_command", "p_simple_command", "p_simple_command_element", "p_simple_list", "p_simple_list1", "p_simple_list_terminator", "p_subshell", "p_timespec", "p_word_list"]

theorem sat_actionCore (hC : Ctx W T np) (ha : ∀ a ∈ args, GV W T a) {fname : String}
    (h : fname ∈ knownActions) : Sat (actionCore np fname args) (Post W T) := by
  simp only [knownActions, List.mem_cons, List.mem_nil_iff, or_false] at h
  rcases h with rfl | rfl | rfl | rfl | rfl | rfl | rfl | rfl | rfl | rfl | rfl | rfl | rfl | rfl | rfl | rfl | rfl | rfl | rfl | rfl | rfl | rfl | rfl | rfl | rfl | rfl | rfl | rfl | rfl | rfl | rfl | rfl | rfl | rfl | rfl | rfl | rfl | rfl | rfl
  · exact sound_arith_command hC ha
  · exact sound_arith_for_command hC ha
  · exact sound_case_clause hC ha
  · exact sound_case_clause_sequence hC ha
  · exact sound_case_command hC ha
  · exact sound_command hC ha
  · exact sound_compound_list hC ha
  · exact sound_cond_command hC ha
  · exact sound_coproc hC ha
  · exact sound_elif_clause hC ha
  · exact sound_empty hC ha
  · exact sound_for_command hC ha
  · exact sound_function_body hC ha
  · exact sound_function_def hC ha
  · exact sound_group_command hC ha
  · exact sound_if_command hC ha
  · exact sound_inputunit hC ha
  · exact sound_list hC ha
  · exact sound_list0 hC ha
  · exact sound_list1 hC ha
  · exact sound_list_terminator hC ha
  · exact sound_newline_list hC ha
  · exact sound_pattern hC ha
  · exact sound_pattern_list hC ha
  · exact sound_pipeline hC ha
  · exact sound_pipeline_command hC ha
  · exact sound_redirection hC ha
  · exact sound_redirection_heredoc hC ha
  · exact sound_redirection_list hC ha
  · exact sound_select_command hC ha
  · exact sound_shell_command hC ha
  · exact sound_simple_command hC ha
  · exact sound_simple_command_element hC ha
  · exact sound_simple_list hC ha
  · exact sound_simple_list1 hC ha
  · exact sound_simple_list_terminator hC ha
  · exact sound_subshell hC ha
  · exact sound_timespec hC ha
  · exact sound_word_list hC ha

/-- every production of the generated grammar names one of them (or none) -/
theorem prodFuncs_check :
    (Gen.prodFuncs.all fun f => f == "" || knownActions.contains f) = true := by decide +kernel

theorem prodFuncs_known : ∀ f ∈ Gen.prodFuncs, f = "" ∨ f ∈ knownActions := by
  intro f hf
  have := List.all_eq_true.mp prodFuncs_check f hf
  simpa using this

theorem sat_action (hC : Ctx W T np) (ha : ∀ a ∈ args, GV W T a) (p : Nat) :
    Sat (action np (Gen.prodFuncs.getD p "") args) (Post W T) := by
  have hmem : Gen.prodFuncs.getD p "" = "" ∨ Gen.prodFuncs.getD p "" ∈ knownActions := by
    rw [List.getD_eq_getElem?_getD]
    cases h : Gen.prodFuncs[p]? with
    | none => exact Or.inl rfl
    | some f => exact prodFuncs_known f (List.mem_of_getElem? h)
  unfold action
  rcases hmem with h | h
  · rw [h]
    refine Sat.bind (P := fun _ => False) ?_ (fun _ hf => hf.elim)
    unfold actionCore; simp only []
    exact Sat.foreign trivial
  · refine Sat.bind (sat_actionCore hC ha h) (fun r hr => ?_)
    split
    · exact Sat.foreign trivial
    · exact Sat.pure hr


/-! ### the LR engine -/

theorem forall2_all {rhs : List Nat} {args : List SVal}
    (h : Forall2 (fun (_ : Nat) (v : SVal) => GV W T v) rhs args) : ∀ a ∈ args, GV W T a := by
  induction h with
  | nil => intro a ha; cases ha
  | cons h1 _ ih =>
    intro a ha
    rcases List.mem_cons.mp ha with rfl | ha
    · exact h1
    · exact ih a ha

theorem hooks_G (hT : Sat nextToken T) (hC : Ctx W T np) :
    HooksRaise realTables (lrHooks np) (fun _ v => GV W T v) (fun _ => True) := by
  refine ⟨?_, ?_, fun la => Sat.trivial _⟩
  · show Sat (nextToken >>= fun t => pure (symOfTok t, SVal.tok t)) _
    exact Sat.bind (hT.weaken (fun _ h => h) (fun _ _ => trivial)) (fun t ht => Sat.pure ht)
  · intro p lhs rhs args _ hargs
    exact sat_action hC (forall2_all hargs) p

/-! ### `resolve` -/

mutual
theorem G_resolve (st : List RedirCell) : (n : Node) → G W n → G W (resolve st n)
  | .list p ps, h => by simp only [resolve, G_list] at h ⊢; exact GL_resolveL st ps h
  | .pipeline p ps, h => by simp only [resolve, G_pipeline] at h ⊢; exact GL_resolveL st ps h
  | .ifN p ps, h => by simp only [resolve, G_ifN] at h ⊢; exact GL_resolveL st ps h
  | .forN p ps, h => by simp only [resolve, G_forN] at h ⊢; exact GL_resolveL st ps h
  | .whileN p ps, h => by simp only [resolve, G_whileN] at h ⊢; exact GL_resolveL st ps h
  | .untilN p ps, h => by simp only [resolve, G_untilN] at h ⊢; exact GL_resolveL st ps h
  | .caseN p ps, h => by simp only [resolve, G_caseN] at h ⊢; exact GL_resolveL st ps h
  | .pattern p ps, h => by simp only [resolve, G_pattern] at h ⊢; exact GL_resolveL st ps h
  | .command p ps, h => by simp only [resolve, G_command] at h ⊢; exact GL_resolveL st ps h
  | .unimplemented p ps, h => by
    simp only [resolve, G_unimplemented] at h ⊢; exact GL_resolveL st ps h
  | .function p a b ps, h => by simp only [resolve, G_function] at h ⊢; exact GL_resolveL st ps h
  | .compound p l r, h => by
    simp only [resolve, G_compound] at h ⊢
    exact ⟨GL_resolveL st l h.1, GL_resolveL st r h.2⟩
  | .redirect p i t o oa hd hid, h => by
    simp only [G_redirect] at h
    cases hid with
    | none => simp only [resolve, G_redirect]; exact h
    | some id =>
      simp only [resolve]
      cases hs : st[id]? with
      | none => simp only [G_redirect]; exact h
      | some cell =>
        simp only [G_redirect]
        refine ⟨h.1, ?_⟩
        cases cell.heredoc <;> simp
  | .operator .., h | .reservedword .., h | .pipe .., h | .word .., h | .assignment .., h
  | .parameter .., h | .tilde .., h | .heredoc .., h | .commandsubstitution .., h
  | .processsubstitution .., h => by simpa [resolve] using h
theorem GL_resolveL (st : List RedirCell) : (l : List Node) → GL W l → GL W (resolveL st l)
  | [], _ => by simp [resolveL]
  | n :: ns, h => by
    simp only [resolveL, GL_cons] at h ⊢
    exact ⟨G_resolve st n h.1, GL_resolveL st ns h.2⟩
end

/-- one run of the LR engine with its `resolve`: all word-like nodes of the returned tree are `W` -/
theorem sat_parserRun_of_ctx (hT : Sat nextToken T) (hC : Ctx W T (nestedOf d)) :
    Sat (parserRun (d + 1)) (fun r => ∀ n, r = some n → G W n) := by
  rw [parserRun_succ]
  refine Sat.bind ((run_sound real_WF (lrHooks (nestedOf d)) (hooks_G hT hC) _).weaken
    (fun _ h => h) (fun _ _ => trivial)) (fun res hres => ?_)
  refine Sat.bind_any (fun l => ?_)
  split
  · rename_i n _ _ _
    refine Sat.pure ?_
    intro m hm
    cases hm
    exact G_resolve _ n hres.2
  · exact Sat.pure (fun n hn => by cases hn)

/-! ### the word predicate of C07 -/

/-- `tok` is a token the tokenizer delivers (in some state of the parser object, in some
    environment): every fact `P` with `Sat nextToken P` holds of it (`Delivered.sat`) -/
def Delivered (tok : Token) : Prop := ∃ l e l' e', nextToken.run l e = (.ok (tok, l'), e')

theorem sat_delivered : Sat nextToken Delivered := by
  intro l e
  rcases h : nextToken.run l e with ⟨r, e'⟩
  cases r with
  | ok v => obtain ⟨t, l'⟩ := v; exact ⟨l, e, l', e', h⟩
  | error x => trivial

theorem Delivered.sat {tok : Token} (h : Delivered tok) {P : Token → Prop} {E : Exn → Prop}
    (hP : Sat nextToken P E) : P tok := by
  obtain ⟨l, e, l', e', hr⟩ := h
  exact hP.ok hr

/-- C07 for one word-like node (word or assignment), in whatever coordinates it is expressed:
    it was built from a token `tok` the tokenizer delivered, it sits at the token's span moved by
    some `j`, and its parts are `PartsOK` with respect to the token's value and the nested parser
    of some level `d' < d` -/
def WordC07 (d : Nat) (w : Node) : Prop :=
  ∃ d' tok j expanded parts, d' < d ∧ Delivered tok ∧
    (w = .word (tok.lexpos + j, tok.endlexpos + j) expanded parts ∨
     w = .assignment (tok.lexpos + j, tok.endlexpos + j) expanded parts) ∧
    PartsOK (RNested d') tok.valueStr (qOf tok) (tok.lexpos + j) (tok.endlexpos + j) parts

/-- C07 for every word-like node of a tree, at any depth (substitution commands included) -/
abbrev TreeC07 (d : Nat) (n : Node) : Prop := G (WordC07 d) n

theorem WordC07.mono {d e : Nat} (h : d ≤ e) {w : Node} (hw : WordC07 d w) : WordC07 e w := by
  obtain ⟨d', tok, j, ex, parts, hd, ht, hw, hp⟩ := hw
  exact ⟨d', tok, j, ex, parts, by omega, ht, hw, hp⟩

theorem WordC07.shift {d : Nat} {w : Node} (h : WordC07 d w) (j : Nat) : WordC07 d (w.shift j) := by
  obtain ⟨d', tok, i, e, parts, hd, ht, hw, hp⟩ := h
  refine ⟨d', tok, i + j, e, parts.map (Node.shift j), hd, ht, ?_, ?_⟩
  · rcases hw with rfl | rfl
    · left; rw [shift_word]; simp only [Nat.add_assoc]
    · right; rw [shift_assignment]; simp only [Nat.add_assoc]
  · have := hp.shift j
    simpa only [Nat.add_assoc] using this

theorem G_mono {W' : Node → Prop} (h : ∀ w, W w → W' w) {n : Node} (hn : G W n) : G W' n :=
  fun w hw hww => h w (hn w hw hww)

theorem isWordLike_shift (j : Nat) (w : Node) : isWordLike (w.shift j) = isWordLike w := by
  cases w <;> simp [Node.shift, Node.mapPos, isWordLike]

theorem G_shift (hW : ∀ w j, W w → W (Node.shift j w)) {n : Node} (hn : G W n) (j : Nat) :
    G W (n.shift j) := by
  intro w hw hww
  rw [Node.shift, Node.preorder_mapPos_eq] at hw
  obtain ⟨w0, hw0, rfl⟩ := List.mem_map.mp hw
  have hww' : isWordLike w0 = true := by
    have := isWordLike_shift j w0
    rw [Node.shift] at this; rw [← this]; exact hww
  exact hW w0 j (hn w0 hw0 hww')

theorem TreeC07.shift {d : Nat} {n : Node} (h : TreeC07 d n) (j : Nat) : TreeC07 d (n.shift j) :=
  G_shift (fun w j hw => hw.shift j) h j

/-- the parts of a good word are good trees: substitution commands by the induction hypothesis
    on the nesting budget, parameter and tilde nodes trivially -/
theorem GL_parts {d : Nat} (ih : Sat (parserRun d) (fun r => ∀ n, r = some n → TreeC07 d n))
    {v : Str} {q : Bool} {k kend : Nat} {parts : List Node}
    (hp : PartsOK (RNested d) v q k kend parts) : GL (WordC07 (d + 1)) parts := by
  intro p hpm
  cases hs : isSubstitution p with
  | true =>
    have hnode : ∀ {body : Str} {dp : Bool} {n : Node} (j : Nat), RNested d body dp n →
        G (WordC07 (d + 1)) (n.shift j) := by
      intro body dp n j hR
      obtain ⟨outer, e, l', e', hrun⟩ := hR
      have := ih.ok hrun n rfl
      exact TreeC07.shift (G_mono (fun w hw => hw.mono (Nat.le_succ d)) this) j
    cases hp.subst p hpm hs with
    | dollar ho hR hfit hlt => rw [G_commandsubstitution]; exact hnode _ hR
    | proc ho hR hfit hlt => rw [G_processsubstitution]; exact hnode _ hR
    | backquote ho hx hR hfit0 => rw [G_commandsubstitution]; exact hnode _ hR
  | false =>
    have := hp.other p hpm hs
    cases p <;> simp [isParamOrTilde] at this <;> simp

theorem ctx_C07 {d : Nat} (ih : Sat (parserRun d) (fun r => ∀ n, r = some n → TreeC07 d n)) :
    Ctx (WordC07 (d + 1)) Delivered (nestedOf d) := by
  refine ⟨?_, ?_, ?_⟩
  · intro tok ht
    refine (C07_nested d tok).weaken ?_ (fun _ h => h)
    rintro w ⟨expanded, parts, rfl, hp⟩
    rw [G_word]
    exact ⟨⟨d, tok, 0, expanded, parts, Nat.lt_succ_self d, ht, Or.inl rfl, hp⟩, GL_parts ih hp⟩
  · rintro ⟨k, kend⟩ s ps ⟨d', tok, j, e, parts, hd, ht, hw, hp⟩
    refine ⟨d', tok, j, e, parts, hd, ht, ?_, hp⟩
    rcases hw with h | h
    · cases h; exact Or.inr rfl
    · cases h
  · intro tok ht
    exact ⟨0, tok, 0, tok.valueStr, [], Nat.succ_pos d, ht, Or.inl rfl, PartsOK.nil⟩

/-- **every parser run, at every nesting budget**: all word-like nodes of the returned tree —
    at any depth — satisfy C07 -/
theorem parserRun_G : ∀ d, Sat (parserRun d) (fun r => ∀ n, r = some n → TreeC07 d n) := by
  intro d
  induction d with
  | zero => exact Sat.raise trivial
  | succ d ih => exact sat_parserRun_of_ctx sat_delivered (ctx_C07 ih)

/-! ### the entry points -/

theorem runParser_G {s : Str} {o : Opts} {t : List Char} {n : Node}
    (h : (runParser s o t).1 = .ok (some n)) : TreeC07 maxDepth n := by
  unfold runParser at h
  simp only [] at h
  rcases hrun : (parserRun maxDepth).run { limit := o.limit }
      { tape := Tape.ofInput s, strict := o.strict, proceed := o.proceed, touched := t } with ⟨r, env'⟩
  rw [hrun] at h
  simp only [] at h
  cases r with
  | error x => cases h
  | ok v =>
    obtain ⟨a, l'⟩ := v
    have ha : a = some n := by
      simp only [Except.map] at h
      cases h; rfl
    exact (parserRun_G maxDepth).ok hrun n ha

theorem parseLoop_G (s : Str) (o : Opts) :
    ∀ (fuel index : Nat) (parts : List Node) (touched : List Char) (ps : List Node),
      (∀ n, n ∈ parts → TreeC07 maxDepth n) → (parseLoop s o fuel index parts touched).1 = .ok ps →
      ∀ n, n ∈ ps → TreeC07 maxDepth n := by
  intro fuel
  induction fuel with
  | zero => intro index parts touched ps _ h; simp [parseLoop] at h
  | succ fuel ih =>
    intro index parts touched ps hparts h
    unfold parseLoop at h
    split at h
    · rcases hr : runParser (s.drop index) o touched with ⟨r, t⟩
      rw [hr] at h
      cases r with
      | error e => simp only [] at h; cases h
      | ok v =>
        cases v with
        | none => simp only [] at h; cases h; exact hparts
        | some part =>
          simp only [] at h
          have hp : TreeC07 maxDepth part := runParser_G (by rw [hr])
          refine ih _ _ _ ps ?_ h
          intro n hn
          rcases List.mem_append.mp hn with hn | hn
          · exact hparts n hn
          · simp at hn; subst hn; exact hp.shift _
    · cases h; exact hparts

/-- **C07 for `parse`** (all inputs, all options): every word-like node of every returned tree,
    at top level and inside substitutions at any depth, has parts `PartsOK` -/
theorem parse_G (s : Str) (o : Opts) (parts : List Node)
    (h : (parse s o).1 = .parts parts) : ∀ n ∈ parts, TreeC07 maxDepth n := by
  unfold parse at h
  rcases hr : runParser s o [] with ⟨r, t⟩
  rw [hr] at h
  cases r with
  | error e => simp only [] at h; cases h
  | ok v =>
    cases v with
    | none => simp only [] at h; cases h; intro n hn; cases hn
    | some first =>
      simp only [] at h
      have hp : TreeC07 maxDepth first := runParser_G (by rw [hr])
      rcases hl : parseLoop s o (s.length + 1) (max (nextIndex first) 1) [first] t with ⟨r2, t2⟩
      rw [hl] at h
      cases r2 with
      | error e => simp only [] at h; cases h
      | ok ps =>
        simp only [] at h
        cases h
        exact parseLoop_G s o (s.length + 1) (max (nextIndex first) 1) [first] t _
          (by intro n hn; simp at hn; subst hn; exact hp)
          (by rw [hl])

theorem parsesingle_G (s : Str) (o : Opts) (n : Node)
    (h : (parsesingle s o).1 = .single (some n)) : TreeC07 maxDepth n := by
  unfold parsesingle at h
  rcases hr : runParser s o [] with ⟨r, t⟩
  rw [hr] at h
  cases r with
  | error e => simp only [] at h; cases h
  | ok v =>
    simp only [] at h
    cases h
    exact runParser_G (by rw [hr])

end Bashlex.C07
