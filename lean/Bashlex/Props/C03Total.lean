/-
  Property C03 ("spans are well-formed") at model level, with the hypothesis on the token source
  DISCHARGED for the real tokenizer (`Props/C03/TokSpans.lean`: `tokSpans : TokSpans TI`).

  What remains a hypothesis is `RootEnds` alone (`Props/C03/Run.lean`): "the root a nested parser
  returns for `s` does not end in two newline characters when it is not followed by `)`" -- a
  statement about the TEXT under a span (`_parsedolparen` steps back over newlines before the end
  it reports), which needs the relation between a token's span and the characters it covers; the
  span argument here never looks at characters other than the first of a token.

  Files (token source):
    C03/TokInv.lean        invariant `W` (line, cursor inside the line with a lower bound `k`,
                           empty look-ahead slot, position stack, store, queue); two-invariant
                           logic `SatW`; `_getc` / `_ungetc` (cursor discipline, D31 / D32)
    C03/TokWalk.lean       the automatic walk `w_walk` (two levels of the lower bound; join
                           points are proved once: `jp_step`, `use_hyp`)
    C03/TokTokenizer.lean  every function below `_readtoken` keeps `W` at every `k < len(line)`
    C03/TokWord.lean       `q_walk` (arbitrary post-condition); the loop of `_readtokenword`
    C03/TokFinish.lean     position stack, `_createtoken`, the end of `_readtokenword`
    C03/TokHeredoc.lean    `readline(False)`, `makeheredoc`, `gatherheredocuments`
    C03/TokRead.lean       `_readtoken`
    C03/TokNext.lean       `token()`
    C03/TokWNE.lean        a delivered WORD token is not empty (state-agnostic)
    C03/TokSpans.lean      the ghost invariant `TI`, the six fields, `tokSpans`
-/
import Bashlex.Props.C03
import Bashlex.Props.C03.TokSpans

namespace Bashlex.C03
open Bashlex Bashlex.Spec Bashlex.Node Bashlex.M Bashlex.LR

/-- the token-source half of `TokSpansAll`, unconditionally -/
theorem tokSpans_exists : ∃ TI : Nat → Nat → Local → Env → Prop, TokSpans TI := ⟨TI, tokSpans⟩

/-- `TokSpansAll` from its second half -/
theorem tokSpansAll_of_rootEnds (hR : RootEnds) : TokSpansAll := ⟨tokSpans_exists, hR⟩

/-- **C03 (model level), `parse`**, for the real tokenizer: for every input and all options, every
    clause of `Spec.spansWF` violated by a returned tree is a known defect
    (`empty-span:reservedword` (D19), or marked `+emptydesc` (D19), or marked `+heredoc` (D11)).
    The only hypothesis left is `RootEnds`. -/
theorem C03_total_conditional (hR : RootEnds) (s : Str) (o : Opts) (parts : List Node)
    (h : (parse s o).1 = .parts parts) :
    ∀ n ∈ parts, ∀ v ∈ Spec.spansWF s.length n, C03_known v = true :=
  C03_partial s o parts (tokSpansAll_of_rootEnds hR) h

/-- **C03 (model level), `parsesingle`**, for the real tokenizer -/
theorem C03_total_single_conditional (hR : RootEnds) (s : Str) (o : Opts) (n : Node)
    (h : (parsesingle s o).1 = .single (some n)) :
    ∀ v ∈ Spec.spansWF s.length n, C03_known v = true :=
  C03_partial_single s o n (tokSpansAll_of_rootEnds hR) h

/-- one parser run (top-level or nested, any nesting fuel), for the real tokenizer -/
theorem parserRun_strict_real (hR : RootEnds) (d : Nat) (s : Str) :
    SatS (parserRun d) (InitState s) (fun r _ _ => ∀ n, r = some n → Strict s.length n) :=
  parserRun_strict tokSpans hR d s

end Bashlex.C03

#print axioms Bashlex.C03.tokSpans
#print axioms Bashlex.C03.sat_nextToken_w
#print axioms Bashlex.C03.C03_total_conditional
#print axioms Bashlex.C03.C03_total_single_conditional
