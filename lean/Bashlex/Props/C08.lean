/-
  Property C08 (ill-formed command lines are rejected) -- theorems.

  RUNNING LOG (kept current; the tool refused to write REPORT.md, so the log lives here)
  ------------------------------------------------------------------------------------
  DONE, building (no sorry, no new axiom):
  1. no prefix acceptance / every token accounted for
     * C08/Accept.lean: `engine_good`, `topRun`, `runParser_topRun`, `RunSentence`, `RunStops`,
       `Tiling`, **`C08_accept_derivable`**, `Tiling.split`, `C08_rest_rejected`.
     * C08/Consumed.lean: `Logged`, **`run_consumed`** (consumed = delivered minus look-ahead,
       any tables, any logged token source).
  2. unbalanced quotes
     * C08/Unterminated.lean: `sat_matchedPairError`, **`mpPre_eof`**, **`csA_eof`**,
       `loop_raises`, **`parseMatchedPair_closes`**, `sq_scan`, `parseMatchedPair_sq_raises`.
     * C08/Text.lean: `rwStep_plain`, `rwStep_quote`, `rwLoop_raises`, `readtoken_raises`,
       `nextToken_raises`, `unterminated_quote` (generic in the quote character),
       **`C08_unterminated_squote`** (all lengths, all options).
     * C08/DQuote.lean: `dq_scan`, `parseMatchedPair_dq_raises`, **`C08_unterminated_dquote`**.
     * C08/BQuote.lean: `bq_scan`, `parseMatchedPair_bq_raises`, **`C08_unterminated_bquote`**.
     * C08/RParen.lean (tokenizer + tables + `p_error`, end to end): `peek_unget_top`,
       `readtokenMeta_rparen_returns`, `nextToken_rparen`, **`C08_leading_rparen`**: every input
       that starts with `)` raises ParsingError("unexpected token ')'", s, 0).
     * C08/LeadOp.lean: `getc_top`, `MetaOK`, `nextToken_op`, `leading_op` (generic in the leading
       operator character), **`C08_leading_bar`** (`|…` is rejected: `||`, `|&` or `|`).
     * C08/LeadSemi.lean: `peek_unget_top'`, `metaOK_semi`, **`C08_leading_semi`** (`;…` is rejected).
  3. token-level rejection families
     * C08/Reject.lean: `Stream`, `step_error`, `step_shift`, `step_nl`, `loop_skip_nl`,
       `leadingRejected(_names/_spec)`, `pairRejected(_spec)`, **`redir_pairs`**, **`ctrl_pairs`**,
       **`loop_rejects_pair`**, **`run_rejects_leading`**, **`run_rejects_first_pair`**.
     * C08/Instances.lean: `pError_raises`, `real_errRaises`, `listHooks_stream` (non-vacuity),
       `listHooks_rejects_leading`, `listHooks_rejects_redir`.
  4. here-documents
     * C08/Heredoc.lean: `NoDelimLine`, `noDelim_iff`, **`C08_heredoc_unterminated`**,
       **`C08_heredoc_strict`**.
  OPEN (not proved): pairs where the state after the first operator REDUCES on the second
  (`; ;`, `& ;` …: the error is found after reductions); text-level corollaries for
  `$(`, `${` (nested scanners) and for other leading operators than `)`; a non-node accepted value (`RunStops`, second disjunct) is not
  excluded; character-level tiling rests on C03's `RootEnds` (see `C05Chars`).
-/
import Bashlex.Props.C08.Reject
import Bashlex.Props.C08.Instances
import Bashlex.Props.C08.Accept
import Bashlex.Props.C08.Consumed
import Bashlex.Props.C08.Unterminated
import Bashlex.Props.C08.Text
import Bashlex.Props.C08.DQuote
import Bashlex.Props.C08.BQuote
import Bashlex.Props.C08.RParen
import Bashlex.Props.C08.LeadOp
import Bashlex.Props.C08.LeadSemi
import Bashlex.Props.C08.Heredoc

#print axioms Bashlex.C08.C08_accept_derivable
#print axioms Bashlex.C08.C08_rest_rejected
#print axioms Bashlex.C08.engine_good
#print axioms Bashlex.C08.run_consumed
#print axioms Bashlex.C08.mpPre_eof
#print axioms Bashlex.C08.csA_eof
#print axioms Bashlex.C08.parseMatchedPair_closes
#print axioms Bashlex.C08.parseMatchedPair_sq_raises
#print axioms Bashlex.C08.C08_unterminated_squote
#print axioms Bashlex.C08.C08_unterminated_dquote
#print axioms Bashlex.C08.C08_unterminated_bquote
#print axioms Bashlex.C08.C08_leading_rparen
#print axioms Bashlex.C08.C08_leading_bar
#print axioms Bashlex.C08.C08_leading_semi
#print axioms Bashlex.C08.C08_accept_derivable_single
#print axioms Bashlex.C08.run_rejects_leading
#print axioms Bashlex.C08.loop_rejects_pair
#print axioms Bashlex.C08.run_rejects_first_pair
#print axioms Bashlex.C08.redir_pairs
#print axioms Bashlex.C08.ctrl_pairs
#print axioms Bashlex.C08.leadingRejected_names
#print axioms Bashlex.C08.listHooks_rejects_leading
#print axioms Bashlex.C08.listHooks_rejects_redir
#print axioms Bashlex.C08.C08_heredoc_unterminated
#print axioms Bashlex.C08.C08_heredoc_strict
