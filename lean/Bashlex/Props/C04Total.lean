/-
  Property C04 ("span text fidelity") at model level, with the hypothesis on the token source
  DISCHARGED for the real tokenizer: `tokText : TokText` (`Props/C04/TokTextProof.lean`, files
  `Props/C04/TT*.lean`: a ghost-text argument through the whole tokenizer — operators,
  `_readtokenword`, `_parse_matched_pair`, `_parse_comsub`, `gatherheredocuments`).

  What remains a hypothesis is C03's `RootEnds` alone (`Props/C03/Run.lean`; it only enters
  through "the span lies in the input", `C03.TokSpansAll`).  The theorems of `Props/C04.lean`
  that need `TokText` only are unconditional here.

  NOTE on the statement of `TokText`: the first version of `TT` (validated by evaluation only) was
  FALSE of the model; see the header of `Props/C04/TokText.lean` for the corrected relation and
  the witnesses (`"\\\⏎⏎"`, `<()<\`).
-/
import Bashlex.Props.C04
import Bashlex.Props.C04.TokTextProof
import Bashlex.Props.C03Total

namespace Bashlex.C04
open Bashlex Bashlex.M Bashlex.Node Bashlex.Spec

/-- **C04, provenance**, for the real tokenizer (no hypotheses) -/
theorem C04_prov_total (s : Str) (o : Opts) (parts : List Node)
    (h : (parse s o).1 = .parts parts) :
    ∀ n ∈ parts, ∃ J, J ≤ s.length ∧
      (∀ m ∈ n.preorder, isTextual m = true → NodeOK (s.drop J) J m) ∧
      (∀ m ∈ spine n, isTextual m = true → LeafOK (Tape.ofInput (s.drop J)).line J m) :=
  C04_prov tokText s o parts h

/-- **C04, reserved-word / operator / pipe nodes**, for the real tokenizer (no hypotheses) -/
theorem C04_leaf_text_total (s : Str) (o : Opts) (parts : List Node)
    (h : (parse s o).1 = .parts parts) :
    ∀ n ∈ parts, ∀ m ∈ n.preorder, ∀ p w,
      (m = .reservedword p w ∨ m = .operator p w ∨ m = .pipe p w) →
      (m = .reservedword p ['!'] ∧ p.1 = p.2) ∨
      ∃ J fr, J ≤ s.length ∧ Src (s.drop J) fr ∧ fr.off + J ≤ p.1 ∧ p.1 < p.2 ∧
        w.contains '\\' = false ∧
        TokTextAt fr.line (p.2 - (fr.off + J))
          (Str.slice fr.line (p.1 - (fr.off + J)) (p.2 - (fr.off + J))) w ∧
        (fr.cont = false → p.2 ≤ s.length →
          Str.slice s p.1 p.2 = Str.slice fr.line (p.1 - (fr.off + J)) (p.2 - (fr.off + J))) ∧
        (fr.nested = false →
          fr.line = (Tape.ofInput (s.drop J)).line ∧ fr.off = 0 ∧ fr.cont = false) :=
  C04_leaf_text tokText s o parts h

/-- **C04, operator nodes outside words**, for the real tokenizer (no hypotheses) -/
theorem C04_spine_operator_total (s : Str) (o : Opts) (parts : List Node)
    (h : (parse s o).1 = .parts parts) :
    ∀ n ∈ parts, ∀ m ∈ spine n, ∀ p op, m = .operator p op → p.2 ≤ s.length →
      ∀ v ∈ localTextViol s m, v = "newline-operator-extended-over-heredoc" ∨
        v = "operator-span-includes-final-backslash" :=
  C04_spine_operator tokText s o parts h

/-- **C04, pipe nodes outside words**, for the real tokenizer (no hypotheses) -/
theorem C04_spine_pipe_total (s : Str) (o : Opts) (parts : List Node)
    (h : (parse s o).1 = .parts parts) :
    ∀ n ∈ parts, ∀ m ∈ spine n, ∀ p w, m = .pipe p w → p.2 ≤ s.length →
      ∀ v ∈ localTextViol s m, v = "operator-span-includes-final-backslash" :=
  C04_spine_pipe tokText s o parts h

/-- **C04 (model level), the clauses linked to `Spec.localTextViol`**, for the real tokenizer
    (no hypotheses) -/
theorem C04_partial_total (s : Str) (o : Opts) (parts : List Node)
    (h : (parse s o).1 = .parts parts) :
    ∀ n ∈ parts, ∀ m ∈ n.preorder, ∀ p w,
      (m = .reservedword p w ∨ m = .operator p w ∨ m = .pipe p w) → p.2 ≤ s.length →
      (∀ v ∈ localTextViol s m, C04_known v = true) ∨ DeepDefect s p w :=
  C04_partial_conditional tokText s o parts h

/-- **C04 (model level)**, for the real tokenizer: for every input and all options, every
    signature `Spec.textOK` raises on a tree returned by `parse` is a recorded defect
    (`C04_known`), or is `Unlinked`.  The only hypothesis left is C03's `RootEnds`. -/
theorem C04_total_conditional (hR : C03.RootEnds) (s : Str) (o : Opts) (parts : List Node)
    (h : (parse s o).1 = .parts parts) :
    ∀ n ∈ parts, ∀ v ∈ Spec.textOK s n, C04_known v = true ∨ Unlinked s n v :=
  C04_partial tokText (C03.tokSpansAll_of_rootEnds hR) s o parts h

/-- nodes outside words, for the real tokenizer; the only hypothesis left is `RootEnds` -/
theorem C04_total_spine_conditional (hR : C03.RootEnds) (s : Str) (o : Opts) (parts : List Node)
    (h : (parse s o).1 = .parts parts) :
    ∀ n ∈ parts, ∀ m ∈ spine n, ∀ p w,
      (m = .reservedword p w ∨ m = .operator p w ∨ m = .pipe p w) →
      ∀ v ∈ localTextViol s m, C04_known v = true :=
  C04_partial_spine tokText (C03.tokSpansAll_of_rootEnds hR) s o parts h

end Bashlex.C04

#print axioms Bashlex.C04.tokText
#print axioms Bashlex.C04.C04_prov_total
#print axioms Bashlex.C04.C04_leaf_text_total
#print axioms Bashlex.C04.C04_spine_operator_total
#print axioms Bashlex.C04.C04_spine_pipe_total
#print axioms Bashlex.C04.C04_partial_total
#print axioms Bashlex.C04.C04_total_conditional
#print axioms Bashlex.C04.C04_total_spine_conditional
