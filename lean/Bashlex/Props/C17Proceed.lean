/-
  Property C17 at model level: **`C17_proceed_only_NI`**.  For all inputs and options with
  `proceed = false`: if `parse` (`parsesingle`) does not end in a `NotImplementedError`, then
  switching `proceedonerror` on changes nothing (same outcome, same syntax-table growth).
  The walk is in `Props/C17Proceed/Walk.lean` (`PI`, `pi_action`, `pi_nextToken`, …); here: the LR
  engine for arbitrary proceed-insensitive hooks, `parserRun` by induction on the nesting fuel,
  `runParser`, the loop of `parse`, the entry points.  Kernel-checked examples:
  `Props/C17Proceed/Examples.lean`.
-/
import Bashlex.Props.C17Proceed.Walk
import Bashlex.LR.RealTables

namespace Bashlex.C17
open Bashlex Bashlex.M Bashlex.LR
set_option linter.unusedSimpArgs false
set_option linter.unusedVariables false

/-! ## the LR engine -/

section engine
variable {V : Type} {T : Tables} {H : Hooks V}
  (hnext : PI H.next) (hact : ∀ p args, PI (H.act p args)) (herr : ∀ la, PI (H.onError la))
include hact in
theorem pi_doReduce (c : Cfg V) (p : Nat) : PI (doReduce T H c p) := by
  unfold doReduce; (try simp only []); pi_walk

include hnext hact herr in
theorem pi_step (c : Cfg V) : PI (step T H c) := by
  have hr := pi_doReduce (T := T) hact
  unfold step; (try simp only [])
  split
  · exact hr _ _
  · refine PI.bind ?_ (fun la => ?_)
    · split
      · exact PI.pure _
      · exact hnext
    · pi_walk
      all_goals first | exact hr _ _ | skip

include hnext hact herr in
theorem pi_run (fuel : Nat) : PI (LR.run T H fuel) := by
  unfold LR.run
  exact PI.loop (fun c => pi_step hnext hact herr c) _ _
end engine

/-! ## one parser run -/

theorem pi_pError (t : Token) : PI (pError t) := by
  unfold pError; (try simp only []); pi_walk

theorem pi_parserRun : ∀ d, PI (parserRun d)
  | 0 => PI.raise _
  | d + 1 => by
    unfold parserRun
    simp only []
    have hnp : ∀ s b, PI ((fun string dolparen => do
        let outer ← get
        let ps := if dolparen then { outer.ps with cmdsubst := true, eoftoken := true } else outer.ps
        set ({ tape := some (Tape.ofInput string), opts := some (true, false)
               lastReadToken := outer.lastReadToken, tokenBeforeThat := outer.tokenBeforeThat
               twoTokensAgo := outer.twoTokensAgo, ps := ps
               eofToken := if dolparen then some rparenEofToken else none
               limit := outer.limit.map (· - 1) } : Local)
        let r ← parserRun d
        let inner ← get
        set { outer with ps := inner.ps }
        pure r : NestedParse) s b) := by
      intro s b
      have ih := pi_parserRun d
      simp only []
      pi_walk
    refine PI.bind (pi_run (H := lrHooks _) ?_ ?_ ?_ _) (fun res => ?_)
    · show PI (nextToken >>= fun t => pure (symOfTok t, SVal.tok t))
      exact PI.bind pi_nextToken (fun _ => PI.pure _)
    · intro p args
      exact pi_action hnp _ _
    · rintro ⟨sym, v⟩
      show PI (match v with
        | .tok t => pError t
        | _ => M.foreign "AssertionError" "p_error")
      split
      · exact pi_pError _
      · exact PI.foreign _ _
    · pi_walk

/-! ## the entry points -/

def isNI : Except Exn (Option Node) → Prop
  | .error (.notImplemented _) => True
  | _ => False

/-- one top-level run: unless it ends in a `NotImplementedError`, the option is irrelevant -/
theorem runParser_proceed (s : Str) (o : Opts) (t : List Char) (ho : o.proceed = false)
    (h : ¬ isNI (runParser s o t).1) :
    runParser s { o with proceed := true } t = runParser s o t := by
  unfold runParser at h ⊢
  simp only [] at h ⊢
  have hpi := pi_parserRun maxDepth { limit := o.limit }
    { tape := Tape.ofInput s, strict := o.strict, proceed := o.proceed, touched := t } ho
  rcases hr : (parserRun maxDepth).run { limit := o.limit }
      { tape := Tape.ofInput s, strict := o.strict, proceed := o.proceed, touched := t } with ⟨r, e1⟩
  rw [hr] at hpi h
  rcases hpi.2 with ⟨w, hw⟩ | h2
  · exfalso; apply h
    simp only [] at hw
    rw [hw]; exact True.intro
  · have h3 : (parserRun maxDepth).run { limit := o.limit }
        { tape := Tape.ofInput s, strict := o.strict, proceed := true, touched := t } =
        (r, setP e1) := h2
    rw [h3]
    rfl

theorem parseLoop_proceed (s : Str) (o : Opts) (ho : o.proceed = false) :
    ∀ (fuel index : Nat) (parts : List Node) (t : List Char),
      (∀ w, (parseLoop s o fuel index parts t).1 ≠ .error (.notImplemented w)) →
      parseLoop s { o with proceed := true } fuel index parts t = parseLoop s o fuel index parts t := by
  intro fuel
  induction fuel with
  | zero => intro index parts t _; rfl
  | succ fuel ih =>
    intro index parts t h
    unfold parseLoop at h ⊢
    split
    · rename_i hidx
      rw [if_pos hidx] at h
      have hrp : ¬ isNI (runParser (s.drop index) o t).1 := by
        intro hni
        rcases hr : runParser (s.drop index) o t with ⟨r, u⟩
        rw [hr] at hni h
        cases r with
        | ok v => exact hni
        | error x =>
          cases x with
          | notImplemented w => exact h w rfl
          | parsing a b c => exact hni
          | foreign a b => exact hni
          | outOfFuel a => exact hni
      rw [runParser_proceed (s.drop index) o t ho hrp]
      rcases hr : runParser (s.drop index) o t with ⟨r, u⟩
      rw [hr] at h
      cases r with
      | error x => rfl
      | ok v =>
        cases v with
        | none => rfl
        | some part =>
          simp only [] at h ⊢
          exact ih _ _ _ h
    · rfl

/-- **C17 (model level)**: with `proceedonerror = False`, unless `parse` raises
    `NotImplementedError`, `parse` with `proceedonerror = True` is the same (outcome and growth of
    the syntax table); and the same for `parsesingle`.  (So the option changes an outcome only by
    replacing a `NotImplementedError`; what it is replaced by is the `unimplemented` node of
    `handleNotImplemented`, or D18's `AssertionError`.) -/
theorem C17_proceed_only_NI (s : Str) (o : Opts) (ho : o.proceed = false) :
    ((∀ w, (parse s o).1 ≠ .exn (.notImplemented w)) →
      parse s { o with proceed := true } = parse s o) ∧
    ((∀ w, (parsesingle s o).1 ≠ .exn (.notImplemented w)) →
      parsesingle s { o with proceed := true } = parsesingle s o) := by
  constructor
  · intro h
    unfold parse at h ⊢
    have hrp : ¬ isNI (runParser s o []).1 := by
      intro hni
      rcases hr : runParser s o [] with ⟨r, u⟩
      rw [hr] at hni h
      cases r with
      | ok v => exact hni
      | error x =>
        cases x with
        | notImplemented w => exact h w rfl
        | parsing a b c => exact hni
        | foreign a b => exact hni
        | outOfFuel a => exact hni
    rw [runParser_proceed s o [] ho hrp]
    rcases hr : runParser s o [] with ⟨r, u⟩
    rw [hr] at h
    cases r with
    | error x => rfl
    | ok v =>
      cases v with
      | none => rfl
      | some first =>
        simp only [] at h ⊢
        have hl : ∀ w, (parseLoop s o (s.length + 1) (max (nextIndex first) 1) [first] u).1 ≠
            .error (.notImplemented w) := by
          intro w hw
          apply h w
          rcases hl : parseLoop s o (s.length + 1) (max (nextIndex first) 1) [first] u with ⟨r2, t2⟩
          rw [hl] at hw
          simp only [] at hw
          rw [hw]
        rw [parseLoop_proceed s o ho _ _ _ _ hl]
  · intro h
    unfold parsesingle at h ⊢
    have hrp : ¬ isNI (runParser s o []).1 := by
      intro hni
      rcases hr : runParser s o [] with ⟨r, u⟩
      rw [hr] at hni h
      cases r with
      | ok v => exact hni
      | error x =>
        cases x with
        | notImplemented w => exact h w rfl
        | parsing a b c => exact hni
        | foreign a b => exact hni
        | outOfFuel a => exact hni
    rw [runParser_proceed s o [] ho hrp]

end Bashlex.C17

#print axioms Bashlex.C17.pi_parserRun
#print axioms Bashlex.C17.C17_proceed_only_NI
