/-
  HeredocGen: `bashlex/heredoc.py` (`gatherheredocuments`, `makeheredoc`) and `tokenizer.readline`, tied
  to the source by the SKELETON route: `tools/extract.py` (`gen_heredoc`) matches the three bodies
  against fixed skeletons (`HD_GATHER`, `HD_MAKE`, `HD_READLINE`; it raises on any deviation) and emits
  every constant and every choice the code makes as `Gen.heredocDesc` (`Gen/Heredoc.lean`).
  (A statement language was not used: the two nested loops run over the tape through
  `tokenizer.readline`, whose loop the model reproduces with fuel; an interpreter would only copy
  that.)  Here:
    `makeheredocP d`, `gatherP d` — the model's reader (`Model/Tokenizer.lean`) with those data as
        parameters: which slice of the line is compared and appended, whether tabs are stripped iff
        `killleading`, the arguments of `readline`, the `-1` of the end position, the `+1` of the
        adjacency test, the text of the EOF error, first-in-first-out or last-in-first-out service of
        the stack, the non-strict skip and its `+= 1`;
    `makeheredoc_gen`, `gather_gen` — at the generated values they ARE `makeheredoc` and
        `gatherheredocuments` (equations of computations of the model monad);
    `heredoc_choices` — the choices that are not parameters of the computation but of the
        representation (the delimiter is `redirnode.output.word`, the word as the tokenizer
        delivered it: no quote removal; `lineno` is 0), decided on the generated data.
  `Props/C10*.lean` proves `makeheredoc`/`gatherheredocuments` equal to pure specifications; with the
  two equations here those are statements about the parametrised reader at the source's values.
-/
import Bashlex.Model.Tokenizer
import Bashlex.Gen.Heredoc
import Bashlex.Proofs.Hoare

namespace Bashlex.HeredocGen
open Bashlex Bashlex.Gen

/-- `tokenizer._shell_input_line_index += n` -/
def bumpN : Nat → M Unit
  | 0 => pure ()
  | n + 1 => do
    bumpIdx
    bumpN n

/-- `stack.pop(0)` / `stack.pop()` -/
def popEntry {α : Type} (front : Bool) (st : List α) : Option (α × List α) :=
  if front then
    match st with
    | [] => none
    | x :: rest => some (x, rest)
  else
    match st.getLast? with
    | none => none
    | some x => some (x, st.dropLast)

/-- `makeheredoc` with the choices of `d` -/
def makeheredocP (d : HeredocDesc) (id : Nat) (killleading : Bool) : M Unit := do
  let l ← get
  let cell ← match l.store[id]? with
    | some c => pure c
    | none => M.foreign "IndexError" "makeheredoc"
  let redirword := cell.delim
  let startpos ← curIdx
  let first ← readline d.readFirst
  let fuel ← loopFuel
  let fin ← M.loop "makeheredoc" (fun (st : HDState) => do
    if !strTruthy st.fullline then return .inr st
    let mut fullline : Str := st.fullline.getD []
    if (if d.stripGuarded then killleading else true) then
      match stripLeadingTabs fullline with
      | none => M.foreign "IndexError" "makeheredoc"
      | some f => fullline := f
    if fullline.isEmpty then return .inl { st with fullline := some fullline }
    if pyDropLastN fullline d.cmpDrop == redirword then
      match fullline[redirword.length]? with
      | none => M.foreign "IndexError" "makeheredoc"
      | some ch =>
        if ch == '\n' then
          return .inr { fullline := some fullline, document := st.document ++ pyDropLastN fullline d.docDrop }
    let document := st.document ++ fullline
    let next ← readline d.readNext
    return .inl { fullline := next, document := document }) fuel { fullline := first }
  if !strTruthy fin.fullline then
    let line ← tapeLine
    let i ← curIdx
    M.raise (mkParsingError
      (d.msg0 ++ toString d.lineno ++ d.msg1 ++ pyReprStr redirword ++ d.msg2)
      line (i : Int))
  let document := fin.document
  let endpos := (← curIdx) - d.endOff
  let l ← get
  let pos := if cell.pos.2 + d.adjOff == startpos then (cell.pos.1, endpos) else cell.pos
  let cell' : RedirCell :=
    { cell with heredoc := some ((startpos, endpos), document), pos := pos }
  set { l with store := l.store.set id cell' }

/-- one iteration of `while tokenizer.redirstack:` with the choices of `d` -/
def gatherBodyP (d : HeredocDesc) (_ : Unit) : M (Unit ⊕ Unit) := do
  let l ← get
  match popEntry d.popFront l.redirstack with
  | none => return .inr ()
  | some ((id, kill), rest) =>
    let p ← peekc
    if p.isNone then
      let skip ← if d.strictCheck then (do pure (!(← optStrict))) else pure true
      if skip then
        bumpN d.skipBump
        return .inr ()
    modify fun l => { l with redirstack := rest }
    makeheredocP d id kill
    return .inl ()

/-- `gatherheredocuments` with the choices of `d` -/
def gatherP (d : HeredocDesc) : M Unit := do
  let fuel := (← get).redirstack.length + 1
  M.loop "gatherheredocuments" (gatherBodyP d) fuel ()

/-- the body of the loop of the hand-written `gatherheredocuments` -/
def gatherBody (_ : Unit) : M (Unit ⊕ Unit) := do
  let l ← get
  match l.redirstack with
  | [] => return .inr ()
  | (id, kill) :: rest =>
    let p ← peekc
    if p.isNone then
      if !(← optStrict) then
        bumpIdx
        return .inr ()
    modify fun l => { l with redirstack := rest }
    makeheredoc id kill
    return .inl ()

theorem gather_body : gatherheredocuments = (do
    let fuel := (← get).redirstack.length + 1
    M.loop "gatherheredocuments" gatherBody fuel ()) := rfl

theorem msg_gen (w : String) :
    heredocDesc.msg0 ++ toString heredocDesc.lineno ++ heredocDesc.msg1 ++ w ++ heredocDesc.msg2 =
      "here-document at line 0 delimited by end-of-file (wanted " ++ w ++ ")" := by
  simp only [heredocDesc]
  have h : ("here-document at line " ++ toString 0 ++ " delimited by end-of-file (wanted " : String) =
      "here-document at line 0 delimited by end-of-file (wanted " := by decide
  rw [h]

/-- **`makeheredoc` is the parametrised reader at the values read off heredoc.py** -/
theorem makeheredoc_gen (id : Nat) (killleading : Bool) :
    makeheredocP heredocDesc id killleading = makeheredoc id killleading := by
  unfold makeheredocP makeheredoc
  simp only [msg_gen]
  rfl

theorem bumpN_one : bumpN 1 = bumpIdx := by
  simp [bumpN]

theorem gatherBody_gen : gatherBodyP heredocDesc = gatherBody := by
  funext u
  unfold gatherBodyP gatherBody
  apply bind_congr; intro l
  cases hs : l.redirstack with
  | nil => simp [popEntry, heredocDesc]
  | cons e rest =>
    obtain ⟨id, kill⟩ := e
    simp [popEntry, heredocDesc, bumpN_one, makeheredoc_gen]
    rfl

/-- **`gatherheredocuments` is the parametrised one at the values read off heredoc.py** -/
theorem gather_gen : gatherP heredocDesc = gatherheredocuments := by
  rw [gather_body, gatherP, gatherBody_gen]

/-- the choices that concern the representation, not the computation -/
theorem heredoc_choices :
    heredocDesc.delimiter = "output.word" ∧ heredocDesc.lineno = 0 ∧ heredocDesc.popFront = true ∧
    heredocDesc.strictCheck = true ∧ heredocDesc.stripGuarded = true := by decide

#print axioms makeheredoc_gen
#print axioms gather_gen
#print axioms heredoc_choices

end Bashlex.HeredocGen
