/-
  C02 (round trip), part 16: from the engine to one top-level parser run, for sequences with
  mixed operators `;`, `&&`, `||`.
-/
import Bashlex.Props.C02.SeqOps
import Bashlex.Props.C02.SeqGlue

namespace Bashlex.C02
open Bashlex Bashlex.M Bashlex.LR
set_option linter.unusedSimpArgs false
set_option linter.unusedVariables false

theorem orestNodes_allSeq : ∀ (cs : List (Op × SCmd)) (a : Nat), AllSeq (orestNodes a cs)
  | [], _ => fun _ h => by cases h
  | (o, c) :: cs, a => by
    intro n hn
    simp only [orestNodes, List.mem_cons] at hn
    rcases hn with rfl | rfl | hn
    · exact Or.inr (Or.inl ⟨_, _, rfl⟩)
    · exact Or.inl ⟨_, _, rfl, cmdNode_words _ _ _ _⟩
    · exact orestNodes_allSeq cs _ n hn

theorem opsNodes_allSeq (c1 : SCmd) (cs : List (Op × SCmd)) (i a : Nat) :
    AllSeq (c1.node i :: orestNodes a cs) := by
  intro n hn
  simp only [List.mem_cons] at hn
  rcases hn with rfl | hn
  · exact Or.inl ⟨_, _, rfl, cmdNode_words _ _ _ _⟩
  · exact orestNodes_allSeq cs a n hn

/-- the AST of `c₁ op₂ c₂ …` (n ≥ 2) whose text starts at offset `i`: ONE flat list node -/
def opsNode (i : Nat) (c1 : SCmd) (cs : List (Op × SCmd)) : Node :=
  Node.list (i + c1.lead.length, olastEnd (c1.endPos i) (i + c1.text.length) cs)
    (c1.node i :: orestNodes (i + c1.text.length) cs)

theorem mkSeq_ops_of_ne (i : Nat) (c1 : SCmd) {cs : List (Op × SCmd)} (h : cs ≠ []) :
    mkSeq (i + c1.lead.length) (olastEnd (c1.endPos i) (i + c1.text.length) cs)
      (c1.node i :: orestNodes (i + c1.text.length) cs) = opsNode i c1 cs := by
  cases cs with
  | nil => exact absurd rfl h
  | cons oc cs' => obtain ⟨o, c⟩ := oc; rfl

theorem resolve_opsNode (store : List RedirCell) (i : Nat) (c1 : SCmd) (cs : List (Op × SCmd)) :
    resolve store (opsNode i c1 cs) = opsNode i c1 cs := by
  unfold opsNode
  rw [resolve, resolveL_seq _ _ (opsNodes_allSeq c1 cs i _)]

theorem nextIndex_opsNode (i : Nat) (c1 : SCmd) (cs : List (Op × SCmd)) :
    nextIndex (opsNode i c1 cs) = olastEnd (c1.endPos i) (i + c1.text.length) cs := by
  unfold opsNode
  rw [nextIndex_list (opsNodes_allSeq c1 cs i _)]

/-- the text -/
def opsText (c1 : SCmd) (cs : List (Op × SCmd)) : Str := c1.text ++ orestText cs

theorem op_noNL (o : Op) : ∀ x ∈ o.txt, x ≠ '\n' := by
  cases o <;> decide

theorem orestText_noNL : ∀ (cs : List (Op × SCmd)), (∀ x ∈ cs, x.2.OK) →
    ∀ x ∈ orestText cs, x ≠ '\n'
  | [], _ => fun x hx => by cases hx
  | (o, c) :: cs, h => by
    intro x hx
    have hc := h (o, c) (List.mem_cons_self ..)
    simp only [orestText, List.mem_append] at hx
    rcases hx with hx | hx | hx
    · exact op_noNL o x hx
    · exact lineText_noNL hc.lead hc.w1 hc.items hc.trail x hx
    · exact orestText_noNL cs (fun y hy => h y (List.mem_cons_of_mem _ hy)) x hx

/-- `_parser.parse()` on such a line (n ≥ 2) -/
theorem tot_parserRun_ops {L : Str} {adn : Bool} {c1 : SCmd} {cs : List (Op × SCmd)} {l : Local}
    {i d : Nat} {nlr : Str}
    (hlen : L.length + 2 ≤ 1073741824) (hc1 : c1.OK) (hcs : ∀ x ∈ cs, x.2.OK) (hne : cs ≠ [])
    (hl : POK l) (hcur : histOK l.currentToken = true)
    (hL : L.drop i = c1.text ++ (orestText cs ++ '\n' :: nlr))
    (hf : ocost 0 cs + (3 * c1.items.length + 6) + 2 ≤ 1073741824) :
    Tot (parserRun (d + 1)) l ⟨L, i, adn⟩ (fun r _ _ => r = some (opsNode i c1 cs)) := by
  rw [C07.parserRun_succ]
  refine Tot.bind ?_
  obtain ⟨f, hf'⟩ : ∃ f, 1073741824 = (f + ocost 0 cs) + (3 * c1.items.length + 6) + 1 :=
    ⟨1073741824 - (ocost 0 cs + (3 * c1.items.length + 6) + 1), by omega⟩
  show Tot (engineLoop (C07.nestedOf d) 1073741824 {}) _ _ _
  rw [hf']
  refine run_seqO (nlr := nlr) hlen hc1 hcs hl hcur hL ?_
  intro r l' T' hr
  rw [mkSeq_ops_of_ne i c1 hne] at hr
  exact finish_parserRun (N := opsNode i c1 cs) hr (fun st => resolve_opsNode st i c1 cs)

/-- one top-level parser run on such a line -/
theorem runParser_ops {c1 : SCmd} {cs : List (Op × SCmd)} (o : Opts) (t : List Char)
    (hc1 : c1.OK) (hcs : ∀ x ∈ cs, x.2.OK) (hne : cs ≠ [])
    (hsz : (opsText c1 cs).length + 3 ≤ 1073741824)
    (hf : ocost 0 cs + (3 * c1.items.length + 6) + 2 ≤ 1073741824) :
    ∃ t', runParser (opsText c1 cs) o t = (.ok (some (opsNode 0 c1 cs)), t') := by
  have hw : 0 < c1.w1.length := List.length_pos_iff.mpr hc1.w1.1
  have hne' : opsText c1 cs ≠ [] := by
    have : 0 < (opsText c1 cs).length := by
      simp [opsText, SCmd.text, lineText]; omega
    exact List.length_pos_iff.mp this
  have hnl : ∀ x ∈ opsText c1 cs, x ≠ '\n' := by
    intro x hx
    simp only [opsText, List.mem_append] at hx
    rcases hx with hx | hx
    · exact lineText_noNL hc1.lead hc1.w1 hc1.items hc1.trail x hx
    · exact orestText_noNL cs hcs x hx
  have hof := ofInput_noNL hne' hnl
  have key := tot_parserRun_ops (L := opsText c1 cs ++ ['\n']) (adn := true) (i := 0) (d := 63)
    (l := { limit := o.limit }) (nlr := []) (by simp; omega) hc1 hcs hne (initial_POK _) rfl
    (by simp [opsText]) hf
  obtain ⟨a, l', e', hrun, ha⟩ := key.elim
    { tape := Tape.ofInput (opsText c1 cs), strict := o.strict, proceed := o.proceed,
      touched := t } hof
  refine ⟨e'.touched, ?_⟩
  have hrun' : (parserRun maxDepth).run { limit := o.limit }
      { tape := Tape.ofInput (opsText c1 cs), strict := o.strict, proceed := o.proceed,
        touched := t } = (.ok (a, l'), e') := hrun
  unfold runParser
  simp only [hrun', ha]
  rfl

/-- the AST of a line `c₁ op₂ c₂ …` (n ≥ 1): the command node or the flat list node -/
def olineNode (i : Nat) (c1 : SCmd) (cs : List (Op × SCmd)) : Node :=
  mkSeq (i + c1.lead.length) (olastEnd (c1.endPos i) (i + c1.text.length) cs)
    (c1.node i :: orestNodes (i + c1.text.length) cs)

theorem olineNode_nil (i : Nat) (c1 : SCmd) : olineNode i c1 [] = c1.node i := rfl

theorem olineNode_of_ne (i : Nat) (c1 : SCmd) {cs : List (Op × SCmd)} (h : cs ≠ []) :
    olineNode i c1 cs = opsNode i c1 cs := mkSeq_ops_of_ne i c1 h

theorem resolve_olineNode (store : List RedirCell) (i : Nat) (c1 : SCmd) (cs : List (Op × SCmd)) :
    resolve store (olineNode i c1 cs) = olineNode i c1 cs := by
  cases cs with
  | nil =>
    rw [olineNode_nil]
    unfold SCmd.node cmdNode
    rw [resolve, resolveL_words _ _ (cmdNode_words i c1.lead c1.w1 c1.items)]
  | cons c cs' =>
    rw [olineNode_of_ne i c1 (List.cons_ne_nil _ _)]
    exact resolve_opsNode store i c1 _

theorem nextIndex_olineNode (i : Nat) (c1 : SCmd) (cs : List (Op × SCmd)) :
    nextIndex (olineNode i c1 cs) = olastEnd (c1.endPos i) (i + c1.text.length) cs := by
  cases cs with
  | nil =>
    rw [olineNode_nil]
    unfold SCmd.node cmdNode
    rw [nextIndex_command (cmdNode_words i c1.lead c1.w1 c1.items)]
    rfl
  | cons c cs' =>
    rw [olineNode_of_ne i c1 (List.cons_ne_nil _ _)]
    exact nextIndex_opsNode i c1 _

/-- `_parser.parse()` on a line with mixed operators (n ≥ 1); any text may follow the newline -/
theorem tot_parserRun_opsG {L : Str} {adn : Bool} {c1 : SCmd} {cs : List (Op × SCmd)} {l : Local}
    {i d : Nat} {nlr : Str}
    (hlen : L.length + 2 ≤ 1073741824) (hc1 : c1.OK) (hcs : ∀ x ∈ cs, x.2.OK)
    (hl : POK l) (hcur : histOK l.currentToken = true)
    (hL : L.drop i = c1.text ++ (orestText cs ++ '\n' :: nlr))
    (hf : ocost 0 cs + (3 * c1.items.length + 6) + 2 ≤ 1073741824) :
    Tot (parserRun (d + 1)) l ⟨L, i, adn⟩ (fun r _ _ => r = some (olineNode i c1 cs)) := by
  rw [C07.parserRun_succ]
  refine Tot.bind ?_
  obtain ⟨f, hf'⟩ : ∃ f, 1073741824 = (f + ocost 0 cs) + (3 * c1.items.length + 6) + 1 :=
    ⟨1073741824 - (ocost 0 cs + (3 * c1.items.length + 6) + 1), by omega⟩
  show Tot (engineLoop (C07.nestedOf d) 1073741824 {}) _ _ _
  rw [hf']
  refine run_seqO (nlr := nlr) hlen hc1 hcs hl hcur hL ?_
  intro r l' T' hr
  exact finish_parserRun (N := olineNode i c1 cs) hr (fun st => resolve_olineNode st i c1 cs)

/-- the same after the trailing blanks and the newline of the previous line -/
theorem tot_parserRun_opsG_nl {L : Str} {adn : Bool} {c1 : SCmd} {cs : List (Op × SCmd)} {l : Local}
    {i d : Nat} {nlr pre : Str}
    (hlen : L.length + 2 ≤ 1073741824) (hc1 : c1.OK) (hcs : ∀ x ∈ cs, x.2.OK)
    (hl : POK l) (hcur : histOK l.currentToken = true) (hpre : Blank pre)
    (hL : L.drop i = pre ++ '\n' :: (c1.text ++ (orestText cs ++ '\n' :: nlr)))
    (hf : ocost 0 cs + (3 * c1.items.length + 6) + 2 ≤ 1073741824) :
    Tot (parserRun (d + 1)) l ⟨L, i, adn⟩
      (fun r _ _ => r = some (olineNode (i + pre.length + 1) c1 cs)) := by
  rw [C07.parserRun_succ]
  refine Tot.bind ?_
  obtain ⟨f, hf'⟩ : ∃ f, 1073741824 = ((f + ocost 0 cs) + (3 * c1.items.length + 6) + 1) + 1 :=
    ⟨1073741824 - (ocost 0 cs + (3 * c1.items.length + 6) + 2), by omega⟩
  show Tot (engineLoop (C07.nestedOf d) 1073741824 {}) _ _ _
  rw [hf']
  refine Tot.loop_step ?_
  refine R_fetch0 ?_
  refine tot_nextToken_nl hl.wok hpre hL hlen ?_
  rw [symOfTok_nl]
  rw [step_nl0 (c := { stack := [], la := some (55, _), nlShifted := 0, consumed := [] })
    (la := (55, _)) rfl Tab.d0 rfl (show ((55 : Nat) == Tab.T.endTok) = false by decide)
    (show ((55 : Nat) == Tab.T.nlTok) = true by decide) Tab.a0n]
  refine Tot.pure ?_
  have hL2 : L.drop (i + pre.length + 1) = c1.text ++ (orestText cs ++ '\n' :: nlr) := by
    have := congrArg (List.drop (pre.length + 1)) hL
    rw [List.drop_drop] at this
    rw [Nat.add_assoc, this]
    simp
  refine run_seqO (nlr := nlr) hlen hc1 hcs (hl.afterNL hcur _) rfl hL2 ?_
  intro r l' T' hr
  exact finish_parserRun (N := olineNode (i + pre.length + 1) c1 cs) hr
    (fun st => resolve_olineNode st _ c1 cs)

end Bashlex.C02
