/-
  C02 (round trip), part 2: the real tokenizer on a plain word.

  From a cursor standing on the blanks before a plain word `w` that is followed by a break
  character, `tokenizer.token()` delivers `WORD w` with the exact span and leaves the cursor right
  after the word; the token history is shifted by one.
-/
import Bashlex.Props.C02.Tot
import Bashlex.Props.C10.Entry
import Bashlex.Props.C04.TTWord

namespace Bashlex.C02
open Bashlex Bashlex.M
set_option linter.unusedSimpArgs false
set_option linter.unusedVariables false

/-! ## the safe character class -/

/-- letters, digits and `_ - . / , : + @ %`: no quoting, expansion, glob-brace, `=`, `~`, `#`,
    `!`, `{`, `}`, blank or operator character -/
def plainChar (c : Char) : Bool :=
  isAlnum c || c == '_' || c == '-' || c == '.' || c == '/' || c == ',' || c == ':' || c == '+'
    || c == '@' || c == '%'

theorem plain_ne {c d : Char} (hd : plainChar d = false) (hc : plainChar c = true) :
    (c == d) = false := by
  cases h : c == d with
  | false => rfl
  | true =>
    have := eq_of_beq h
    subst this
    rw [hd] at hc; cases hc

theorem plain_ne' {c d : Char} (hd : plainChar d = false) (hc : plainChar c = true) : c ≠ d := by
  intro h; subst h; rw [hd] at hc; cases hc

theorem plain_syn {c : Char} (hc : plainChar c = true) : synClass c = {} := by
  simp only [synClass,
    plain_ne (by decide : plainChar '\\' = false) hc, plain_ne (by decide : plainChar '`' = false) hc,
    plain_ne (by decide : plainChar '$' = false) hc, plain_ne (by decide : plainChar '"' = false) hc,
    plain_ne (by decide : plainChar '\n' = false) hc, plain_ne (by decide : plainChar '(' = false) hc,
    plain_ne (by decide : plainChar ')' = false) hc, plain_ne (by decide : plainChar '<' = false) hc,
    plain_ne (by decide : plainChar '>' = false) hc, plain_ne (by decide : plainChar ';' = false) hc,
    plain_ne (by decide : plainChar '&' = false) hc, plain_ne (by decide : plainChar '|' = false) hc,
    plain_ne (by decide : plainChar '\'' = false) hc, plain_ne (by decide : plainChar ' ' = false) hc,
    plain_ne (by decide : plainChar '\t' = false) hc, Bool.or_self]

theorem plain_blank {c : Char} (hc : plainChar c = true) : shellblank c = false := by
  simp only [shellblank, plain_ne (by decide : plainChar ' ' = false) hc,
    plain_ne (by decide : plainChar '\t' = false) hc, Bool.or_self]

/-! ## list helpers -/

theorem drop_head {L : Str} {i : Nat} {x : Char} {xs : Str} (h : L.drop i = x :: xs) :
    L[i]? = some x := by
  have := congrArg List.head? h
  simpa [List.head?_drop] using this

theorem drop_tail {L : Str} {i : Nat} {x : Char} {xs : Str} (h : L.drop i = x :: xs) :
    L.drop (i + 1) = xs := by
  have := congrArg (List.drop 1) h
  simpa [List.drop_drop, Nat.add_comm] using this

theorem drop_lt {L : Str} {i : Nat} {x : Char} {xs : Str} (h : L.drop i = x :: xs) :
    i < L.length := by
  rcases Nat.lt_or_ge i L.length with h1 | h1
  · exact h1
  · rw [List.drop_eq_nil_of_le h1] at h; cases h

/-! ## the loop of `_readtokenword` on plain characters -/

/-- a character that ends a word without further ado: a break character that is neither a quote
    nor an expansion character (blank, tab, newline, `; & | ( )`) -/
def endChar (b : Char) : Bool :=
  (synClass b).brk && !(synClass b).quote && !(synClass b).exp && b != '\\'

/-- the loop state while a plain word is read -/
def rwSt (c : Option Char) (ad : Bool) (tw : Str) : RWState :=
  { c := c, allDigit := ad, tokenword := tw }

theorem currentDelimiter_tot {l : Local} {T : Tape} {P : Option Char → Local → Tape → Prop}
    (h : P l.dstack.getLast? l T) : Tot currentDelimiter l T P := by
  unfold currentDelimiter
  exact Tot.bind (Tot.get (Tot.pure h))

/-- one iteration on a plain character followed by another character `d` (not a backslash) -/
theorem step_plain {l : Local} {L : Str} {i : Nat} {adn : Bool} {c d : Char} {ad : Bool} {tw : Str}
    {P : RWState ⊕ RWState → Local → Tape → Prop}
    (ht : l.tape = none) (hl : l.eolLookahead = none) (hc : plainChar c = true)
    (hd : L[i]? = some d) (hdb : d ≠ '\\')
    (h : P (.inl (rwSt (some d) (ad && isDigit c) (tw ++ [c]))) l ⟨L, i + 1, adn⟩) :
    Tot (readtokenwordStep (rwSt (some c) ad tw)) l ⟨L, i, adn⟩ P := by
  rw [C04.TTP.readtokenwordStep_eq]
  simp only [rwSt, Bool.false_eq_true, if_false]
  refine Tot.bind (currentDelimiter_tot ?_)
  simp only [plain_ne (by decide : plainChar '\\' = false) hc, Bool.false_eq_true, if_false]
  refine Tot.bind (tot_shellquote ?_)
  simp only [plain_syn hc, Bool.false_eq_true, if_false]
  refine Tot.bind (tot_shellexp ?_)
  simp only [plain_syn hc, Bool.false_eq_true, if_false]
  unfold C04.TTP.rwBreak
  simp only [Bool.not_false, if_true]
  refine Tot.bind (tot_shellbreak ?_)
  simp only [plain_syn hc, Bool.false_eq_true, if_false]
  unfold C04.TTP.rwTail
  refine Tot.bind (currentDelimiter_tot ?_)
  refine Tot.bind (tot_getc ht hl hd hdb ?_)
  refine Tot.pure ?_
  simp only [handleescapedchar, Bool.not_false, if_true,
    plain_ne (by decide : plainChar '$' = false) hc]
  exact h

/-- the iteration on the character that ends the word -/
theorem step_end {l : Local} {L : Str} {i : Nat} {adn : Bool} {b : Char} {ad : Bool} {tw : Str}
    {P : RWState ⊕ RWState → Local → Tape → Prop}
    (ht : l.tape = none) (hb : endChar b = true) (hi : i < L.length)
    (h : P (.inr (rwSt (some b) ad tw)) l ⟨L, i, adn⟩) :
    Tot (readtokenwordStep (rwSt (some b) ad tw)) l ⟨L, i + 1, adn⟩ P := by
  simp only [endChar, Bool.and_eq_true, Bool.not_eq_true', bne_iff_ne, ne_eq] at hb
  obtain ⟨⟨⟨h1, h2⟩, h3⟩, h4⟩ := hb
  have h4' : (b == '\\') = false := by simpa using h4
  rw [C04.TTP.readtokenwordStep_eq]
  simp only [rwSt, Bool.false_eq_true, if_false]
  refine Tot.bind (currentDelimiter_tot ?_)
  simp only [h4', Bool.false_eq_true, if_false]
  refine Tot.bind (tot_shellquote ?_)
  simp only [h2, Bool.false_eq_true, if_false]
  refine Tot.bind (tot_shellexp ?_)
  simp only [h3, Bool.false_eq_true, if_false]
  unfold C04.TTP.rwBreak
  simp only [Bool.not_false, if_true]
  refine Tot.bind (tot_shellbreak ?_)
  simp only [h1, if_true]
  refine Tot.bind (tot_ungetc ht hi ?_)
  exact Tot.pure h

theorem endChar_ne_bs {b : Char} (hb : endChar b = true) : b ≠ '\\' := by
  simp only [endChar, Bool.and_eq_true, bne_iff_ne, ne_eq] at hb
  exact hb.2

/-- **the loop of `_readtokenword`** over a plain word: it collects exactly the word and stops on
    the character after it, which is put back -/
theorem tot_wordLoop {l : Local} {L : Str} {adn : Bool} {b : Char} {rest : Str}
    {P : RWState → Local → Tape → Prop}
    (ht : l.tape = none) (hl : l.eolLookahead = none) (hb : endChar b = true) :
    ∀ (w' : Str) (tw : Str) (c : Char) (i : Nat) (ad : Bool) (fuel : Nat),
      L.drop i = c :: (w' ++ b :: rest) → plainChar c = true → (∀ x ∈ w', plainChar x = true) →
      w'.length + 2 ≤ fuel →
      (∀ ad1, P (rwSt (some b) ad1 (tw ++ c :: w')) l ⟨L, i + 1 + w'.length, adn⟩) →
      Tot (M.loop "_readtokenword" readtokenwordStep fuel (rwSt (some c) ad tw)) l ⟨L, i + 1, adn⟩ P := by
  intro w'
  induction w' with
  | nil =>
    intro tw c i ad fuel hL hc hw hf h
    obtain ⟨f1, rfl⟩ : ∃ f1, fuel = f1 + 1 := ⟨fuel - 1, by omega⟩
    refine Tot.loop_step ?_
    have hL1 := drop_tail hL
    refine step_plain ht hl hc (drop_head hL1) (endChar_ne_bs hb) ?_
    obtain ⟨f2, rfl⟩ : ∃ f2, f1 = f2 + 1 := ⟨f1 - 1, by simp at hf; omega⟩
    refine Tot.loop_step ?_
    refine step_end ht hb (drop_lt hL1) ?_
    exact h _
  | cons c' w'' ih =>
    intro tw c i ad fuel hL hc hw hf h
    obtain ⟨f1, rfl⟩ : ∃ f1, fuel = f1 + 1 := ⟨fuel - 1, by omega⟩
    refine Tot.loop_step ?_
    have hL1 := drop_tail hL
    have hc' : plainChar c' = true := hw c' (List.mem_cons_self ..)
    refine step_plain ht hl hc (drop_head hL1) (plain_ne' (by decide) hc') ?_
    refine ih (tw ++ [c]) c' (i + 1) _ f1 hL1 hc' (fun x hx => hw x (List.mem_cons_of_mem _ hx))
      (by simp at hf; omega) ?_
    intro ad1
    have := h ad1
    simp only [List.length_cons, List.append_assoc, List.singleton_append] at this ⊢
    have e : i + 1 + 1 + w''.length = i + 1 + (w''.length + 1) := by omega
    rw [e]; exact this

/-! ## what the tokenizer needs of the parser object -/

/-- the parser object is in the plain state: top-level tape, empty look-ahead slot, empty position
    stack, no pending here-document, no `case`/`[[`/function-brace bookkeeping pending -/
structure WOK (l : Local) : Prop where
  tape : l.tape = none
  eol : l.eolLookahead = none
  pos : l.positions = []
  regexp : l.ps.regexp = false
  esacs : l.esacsNeeded = 0
  brc : l.ps.allowopnbrc = false
  redir : l.redirstack = []

/-- token types that may sit in the token history while plain commands are read -/
def histOK (t : Token) : Bool :=
  match t.ttype with
  | none => true
  | some ty => ty == .WORD || ty == .ASSIGNMENT_WORD || ty == .SEMICOLON || ty == .AND_AND
      || ty == .OR_OR || ty == .BAR || ty == .NEWLINE || ty == .AMPERSAND || ty == .GREATER
      || ty == .LESS || ty == .GREATER_GREATER || ty == .NUMBER

theorem histOK_is {t : Token} (h : histOK t = true) :
    t.is .FOR = false ∧ t.is .CASE = false ∧ t.is .SELECT = false ∧ t.is .ARITH_FOR_EXPRS = false ∧
    t.is .TIME = false ∧ t.is .TIMEOPT = false ∧ t.is .FUNCTION = false ∧ t.is .LESS_AND = false ∧
    t.is .GREATER_AND = false := by
  unfold histOK at h
  unfold Token.is
  revert h
  rcases t.ttype with _ | x
  · decide
  · cases x <;> decide

/-- the history shift at the head of `tokenizer.token()` -/
def shiftH (l : Local) : Local :=
  { l with twoTokensAgo := l.tokenBeforeThat, tokenBeforeThat := l.lastReadToken,
           lastReadToken := l.currentToken }

/-- the parser object after `tokenizer.token()` delivered `tok` -/
def afterTok (l : Local) (tok : Token) : Local :=
  { shiftH l with currentToken := tok, ps := { l.ps with eoftoken := false } }

/-- the parser-state flags the assignment bookkeeping reads -/
structure PSOK (l : Local) : Prop where
  cp : l.ps.casepat = false
  rl : l.ps.redirlist = false
  ca : l.ps.compassign = false

theorem WOK.shiftH {l : Local} (h : WOK l) : WOK (shiftH l) :=
  ⟨h.tape, h.eol, h.pos, h.regexp, h.esacs, h.brc, h.redir⟩

/-! ## skipping blanks -/

def skipBody (c : Option Char) : M (Option Char ⊕ Option Char) := do
  match c with
  | some ch => if shellblank ch then return .inl (← getc true) else return .inr c
  | none => return .inr c

theorem blank_ne_bs {x : Char} (h : shellblank x = true) : x ≠ '\\' := by
  intro hx; subst hx; revert h; decide

theorem tot_skipLoop {l : Local} {L : Str} {adn : Bool} {c : Char} {rest : Str}
    {P : Option Char → Local → Tape → Prop}
    (ht : l.tape = none) (hl : l.eolLookahead = none) (hc : shellblank c = false) (hcb : c ≠ '\\') :
    ∀ (g : Str) (x : Char) (i fuel : Nat), L.drop i = g ++ c :: rest → shellblank x = true →
      (∀ y ∈ g, shellblank y = true) → g.length + 2 ≤ fuel →
      P (some c) l ⟨L, i + g.length + 1, adn⟩ →
      Tot (M.loop "_readtoken" skipBody fuel (some x)) l ⟨L, i, adn⟩ P := by
  intro g
  induction g with
  | nil =>
    intro x i fuel hL hx hg hf h
    obtain ⟨f1, rfl⟩ : ∃ f1, fuel = f1 + 1 := ⟨fuel - 1, by omega⟩
    refine Tot.loop_step ?_
    simp only [skipBody, hx, if_true]
    refine Tot.bind (tot_getc ht hl (drop_head hL) hcb ?_)
    refine Tot.pure ?_
    obtain ⟨f2, rfl⟩ : ∃ f2, f1 = f2 + 1 := ⟨f1 - 1, by simp at hf; omega⟩
    refine Tot.loop_step ?_
    simp only [skipBody, hc, Bool.false_eq_true, if_false]
    exact Tot.pure h
  | cons y g' ih =>
    intro x i fuel hL hx hg hf h
    obtain ⟨f1, rfl⟩ : ∃ f1, fuel = f1 + 1 := ⟨fuel - 1, by omega⟩
    refine Tot.loop_step ?_
    simp only [skipBody, hx, if_true]
    have hy : shellblank y = true := hg y (List.mem_cons_self ..)
    refine Tot.bind (tot_getc ht hl (drop_head hL) (blank_ne_bs hy) ?_)
    refine Tot.pure ?_
    refine ih y (i + 1) f1 (drop_tail hL) hy (fun z hz => hg z (List.mem_cons_of_mem _ hz))
      (by simp at hf; omega) ?_
    have e : i + 1 + g'.length + 1 = i + (y :: g').length + 1 := by simp; omega
    rw [e]; exact h

/-- the head of `_readtoken`: blanks are skipped, the first other character is in hand -/
theorem tot_readtokenHead {l : Local} {L : Str} {adn : Bool} {c : Char} {rest g : Str} {i : Nat}
    {P : Option Char → Local → Tape → Prop}
    (ht : l.tape = none) (hl : l.eolLookahead = none) (hc : shellblank c = false) (hcb : c ≠ '\\')
    (hch : c ≠ '#') (hL : L.drop i = g ++ c :: rest) (hg : ∀ y ∈ g, shellblank y = true)
    (hlen : g.length + 2 ≤ 1073741824)
    (h : P (some c) l ⟨L, i + g.length + 1, adn⟩) :
    Tot C10.readtokenHead l ⟨L, i, adn⟩ P := by
  unfold C10.readtokenHead loopFuel
  refine Tot.bind (Tot.pure ?_)
  have hch' : (c == '#') = false := by simpa using hch
  have fin : Tot (match some c with
      | none => (pure none : M (Option Char))
      | some ch => if (ch == '#') = true then (do discardUntil '\n'; let _ ← getc false; pure (some '\n'))
                   else pure (some ch)) l ⟨L, i + g.length + 1, adn⟩ P := by
    simp only [hch', Bool.false_eq_true, if_false]
    exact Tot.pure h
  cases g with
  | nil =>
    refine Tot.bind (tot_getc ht hl (drop_head hL) hcb ?_)
    refine Tot.bind ?_
    show Tot (M.loop "_readtoken" skipBody (1073741823 + 1) (some c)) _ _ _
    refine Tot.loop_step ?_
    simp only [skipBody, hc, Bool.false_eq_true, if_false]
    exact Tot.pure fin
  | cons y g' =>
    have hy : shellblank y = true := hg y (List.mem_cons_self ..)
    refine Tot.bind (tot_getc ht hl (drop_head hL) (blank_ne_bs hy) ?_)
    refine Tot.bind ?_
    refine tot_skipLoop ht hl hc hcb g' y (i + 1) _ (drop_tail hL) hy
      (fun z hz => hg z (List.mem_cons_of_mem _ hz)) (by simp at hlen; omega) ?_
    have e : i + 1 + g'.length + 1 = i + (y :: g').length + 1 := by simp; omega
    rw [e]; exact fin

/-! ## plain words -/

/-- a non-empty word over the safe class -/
def PlainWord (w : Str) : Prop := w ≠ [] ∧ ∀ x ∈ w, plainChar x = true

instance (w : Str) : Decidable (PlainWord w) := by unfold PlainWord; exact inferInstance

theorem isAssignmentLoop_plain : ∀ (w : Str), (∀ x ∈ w, plainChar x = true) → isAssignmentLoop w = false
  | [], _ => rfl
  | c :: r, h => by
    have hc : plainChar c = true := h c (List.mem_cons_self ..)
    have ih := isAssignmentLoop_plain r (fun x hx => h x (List.mem_cons_of_mem _ hx))
    have hr : (r.head? == some '=') = false := by
      cases r with
      | nil => rfl
      | cons d r' =>
        have hd : plainChar d = true := h d (List.mem_cons_of_mem _ (List.mem_cons_self ..))
        simp only [List.head?_cons]
        have := plain_ne' (by decide : plainChar '=' = false) hd
        simpa using this
    unfold isAssignmentLoop
    simp only [plain_ne (by decide : plainChar '=' = false) hc, Bool.false_eq_true, if_false, hr,
      Bool.and_false, ih]
    split <;> rfl

theorem isAssignment_plain {w : Str} (hw : PlainWord w) : isAssignment w = pure false := by
  obtain ⟨hne, hp⟩ := hw
  cases w with
  | nil => exact absurd rfl hne
  | cons c r =>
    unfold isAssignment
    simp only [isAssignmentLoop_plain _ hp]
    split <;> rfl

theorem plain_ne_single {w : Str} (hw : PlainWord w) {d : Char} (hd : plainChar d = false) :
    (w == [d]) = false := by
  cases h : w == [d] with
  | false => rfl
  | true =>
    have := eq_of_beq h
    subst this
    have := hw.2 d (List.mem_cons_self ..)
    rw [hd] at this; cases this

theorem plain_ne_pair {w : Str} (hw : PlainWord w) {d d' : Char} (hd : plainChar d = false) :
    (w == [d, d']) = false := by
  cases h : w == [d, d'] with
  | false => rfl
  | true =>
    have := eq_of_beq h
    subst this
    have := hw.2 d (List.mem_cons_self ..)
    rw [hd] at this; cases this

/-- `_specialcasetokens` does nothing on a plain word in the plain state -/
theorem tot_special {l : Local} {T : Tape} {w : Str} {P : Option TokType → Local → Tape → Prop}
    (hke : l.esacsNeeded = 0) (hkb : l.ps.allowopnbrc = false)
    (h1 : histOK l.lastReadToken = true) (h2 : histOK l.tokenBeforeThat = true)
    (hw : PlainWord w) (h : P none l T) : Tot (specialcasetokens w) l T P := by
  obtain ⟨a1, a2, a3, a4, a5, a6, a7, a8, a9⟩ := histOK_is h1
  obtain ⟨b1, b2, b3, b4, b5, b6, b7, b8, b9⟩ := histOK_is h2
  unfold specialcasetokens
  refine Tot.bind (Tot.get ?_)
  simp only [b1, b2, b3, Bool.or_self, Bool.and_false, Bool.false_and, Bool.false_eq_true, if_false,
    hke, bne_self_eq_false, a4, a5, a6,
    plain_ne_single hw (by decide : plainChar '}' = false),
    plain_ne_single hw (by decide : plainChar '{' = false),
    plain_ne_pair hw (d' := ']') (by decide : plainChar ']' = false)]
  refine Tot.bind (Tot.get ?_)
  simp only [hkb, Bool.false_eq_true, if_false]
  refine Tot.bind (Tot.get ?_)
  exact Tot.pure h

/-- the token `_readtokenword` builds for a plain word -/
def wordTok (a k : Nat) (w : Str) : Token :=
  { ttype := some .WORD, value := .str w, pos := some (a, k), flags := [] }

theorem endChar_not_redir {b : Char} (hb : endChar b = true) :
    (some b == some '<' || some b == some '>') = false := by
  cases h1 : (some b == some '<') with
  | true =>
    have : b = '<' := by simpa using h1
    subst this; revert hb; decide
  | false =>
    cases h2 : (some b == some '>') with
    | true =>
      have : b = '>' := by simpa using h2
      subst this; revert hb; decide
    | false => rfl

theorem tot_createtoken {l : Local} {T : Tape} {ty : TokType} {v : TVal} {fl : WordFlags}
    {a k : Nat} {P : Token → Local → Tape → Prop} (hp : l.positions = [a, k]) (hak : a < k)
    (h : P { ttype := some ty, value := v, pos := some (a, k), flags := fl }
      { l with positions := [] } T) : Tot (createtoken ty v fl) l T P := by
  unfold createtoken
  refine Tot.bind (Tot.get ?_)
  simp only [hp, List.length_cons, List.length_nil, Nat.lt_irrefl, if_false]
  refine Tot.bind (Tot.set ?_)
  simp only [List.getLast?_cons_cons, List.getLast?_singleton, Option.getD_some, List.dropLast,
    hak, not_true_eq_false, Bool.not_true, Bool.false_eq_true, if_false, decide_true]
  exact Tot.pure h

theorem plain_head_brace {w : Str} (hw : PlainWord w) : (w.head? == some '{') = false := by
  obtain ⟨hne, hp⟩ := hw
  cases w with
  | nil => rfl
  | cons c r =>
    simp only [List.head?_cons]
    have := plain_ne' (by decide : plainChar '{' = false) (hp c (List.mem_cons_self ..))
    simpa using this

theorem pos_eta (l0 : Local) (h : l0.positions = []) : { l0 with positions := [] } = l0 := by
  cases l0; cases h; rfl

/-- the part of `_readtokenword` after `# got_token`, on a plain word -/
theorem tot_finishWord {l0 : Local} {T : Tape} {b : Char} {ad1 : Bool} {w : Str} {a : Nat}
    {P : Token → Local → Tape → Prop}
    (hk : WOK l0) (h1 : histOK l0.lastReadToken = true) (h2 : histOK l0.tokenBeforeThat = true)
    (hw : PlainWord w) (hb : endChar b = true) (hak : a < T.idx)
    (hres : reservedWordAcceptable l0 l0.lastReadToken = true →
      reservedFirstCommandChars.lookup w = none)
    (h : P (wordTok a T.idx w) l0 T) :
    Tot (finishWord (rwSt (some b) ad1 w)) { l0 with positions := [a] } T P := by
  obtain ⟨a1, a2, a3, a4, a5, a6, a7, a8, a9⟩ := histOK_is h1
  unfold finishWord
  refine Tot.bind (tot_recordpos hk.tape ?_)
  refine Tot.bind (Tot.get ?_)
  simp only [rwSt, endChar_not_redir hb, a8, a9, Bool.or_self, Bool.and_false, Bool.false_and,
    Bool.false_eq_true, if_false, List.singleton_append, Nat.sub_zero]
  refine Tot.bind (tot_special (l := { l0 with positions := [a, T.idx] })
    hk.esacs hk.brc h1 h2 hw ?_)
  simp only []
  refine Tot.bind (Tot.get ?_)
  have hres' : reservedWordAcceptable { l0 with positions := [a, T.idx] } l0.lastReadToken = true →
      reservedFirstCommandChars.lookup w = none := hres
  have fin : Tot (pure (wordTok a T.idx w) : M Token) { l0 with positions := [] } T P := by
    rw [pos_eta l0 hk.pos]; exact Tot.pure h
  by_cases hr : reservedWordAcceptable { l0 with positions := [a, T.idx] } l0.lastReadToken = true
  · simp only [hr, hres' hr, Bool.not_false, Bool.and_self, if_true]
    refine Tot.bind (tot_createtoken rfl hak ?_)
    refine Tot.bind (Tot.get ?_)
    rw [isAssignment_plain hw]
    refine Tot.bind (Tot.pure ?_)
    simp only [Bool.false_eq_true, if_false, plain_head_brace hw, Bool.false_and, a7,
      List.contains_nil, List.contains]
    exact fin
  · simp only [hr, Bool.and_false, Bool.false_eq_true, if_false]
    refine Tot.bind (tot_createtoken rfl hak ?_)
    refine Tot.bind (Tot.get ?_)
    rw [isAssignment_plain hw]
    refine Tot.bind (Tot.pure ?_)
    simp only [Bool.false_eq_true, if_false, plain_head_brace hw, Bool.false_and, a7,
      List.contains_nil, List.contains]
    exact fin

/-- `_readtokenword(c)` on a plain word `c :: w'` followed by an end character -/
theorem tot_readtokenword {l0 : Local} {L : Str} {adn : Bool} {b c : Char} {w' rest : Str} {a : Nat}
    {P : Token → Local → Tape → Prop}
    (hk : WOK l0) (h1 : histOK l0.lastReadToken = true) (h2 : histOK l0.tokenBeforeThat = true)
    (hw : PlainWord (c :: w')) (hb : endChar b = true)
    (hL : L.drop a = c :: (w' ++ b :: rest)) (hlen : w'.length + 2 ≤ 1073741824)
    (hres : reservedWordAcceptable l0 l0.lastReadToken = true →
      reservedFirstCommandChars.lookup (c :: w') = none)
    (h : P (wordTok a (a + 1 + w'.length) (c :: w')) l0 ⟨L, a + 1 + w'.length, adn⟩) :
    Tot (readtokenword c) { l0 with positions := [a] } ⟨L, a + 1, adn⟩ P := by
  unfold readtokenword loopFuel
  refine Tot.bind (Tot.pure ?_)
  refine Tot.bind ?_
  show Tot (M.loop "_readtokenword" readtokenwordStep 1073741824 (rwSt (some c) (isDigit c) []))
    { l0 with positions := [a] } ⟨L, a + 1, adn⟩ _
  refine tot_wordLoop (l := { l0 with positions := [a] }) hk.tape hk.eol hb w' [] c a _ _ hL
    (hw.2 c (List.mem_cons_self ..)) (fun x hx => hw.2 x (List.mem_cons_of_mem _ hx)) hlen ?_
  intro ad1
  simp only [List.nil_append]
  exact tot_finishWord (T := ⟨L, a + 1 + w'.length, adn⟩) hk h1 h2 hw hb
    (by show a < a + 1 + w'.length; omega) hres h

/-- `_readtoken` on blanks followed by a plain word -/
theorem tot_readtoken_word {l0 : Local} {L : Str} {adn : Bool} {b c : Char} {g w' rest : Str} {i : Nat}
    {P : TokType ⊕ Token → Local → Tape → Prop}
    (hk : WOK l0) (h1 : histOK l0.lastReadToken = true) (h2 : histOK l0.tokenBeforeThat = true)
    (hw : PlainWord (c :: w')) (hb : endChar b = true) (hg : ∀ y ∈ g, shellblank y = true)
    (hL : L.drop i = g ++ c :: (w' ++ b :: rest)) (hlen : L.length + 2 ≤ 1073741824)
    (hres : reservedWordAcceptable l0 l0.lastReadToken = true →
      reservedFirstCommandChars.lookup (c :: w') = none)
    (h : P (.inr (wordTok (i + g.length) (i + g.length + 1 + w'.length) (c :: w'))) l0
      ⟨L, i + g.length + 1 + w'.length, adn⟩) :
    Tot readtoken l0 ⟨L, i, adn⟩ P := by
  have hc : plainChar c = true := hw.2 c (List.mem_cons_self ..)
  obtain ⟨a1, a2, a3, a4, a5, a6, a7, a8, a9⟩ := histOK_is h1
  have hlenL : (L.drop i).length ≤ L.length := by rw [List.length_drop]; omega
  have hlen2 : g.length + (w'.length + 2) ≤ L.length := by
    rw [hL] at hlenL; simp at hlenL; omega
  rw [C10.readtoken_eq]
  refine Tot.bind (tot_readtokenHead hk.tape hk.eol (plain_blank hc)
    (plain_ne' (by decide) hc) (plain_ne' (by decide) hc) hL hg (by omega) ?_)
  simp only []
  unfold C10.readtokenTail
  refine Tot.bind (tot_recordpos hk.tape ?_)
  simp only [plain_ne (by decide : plainChar '\n' = false) hc, Bool.false_eq_true, if_false,
    hk.pos, List.nil_append, Nat.add_sub_cancel]
  refine Tot.bind (Tot.get ?_)
  simp only [hk.regexp, Bool.false_eq_true, if_false]
  refine Tot.bind (tot_shellmeta ?_)
  refine Tot.bind (Tot.get ?_)
  simp only [plain_syn hc, Bool.false_and, Bool.false_eq_true, if_false]
  refine Tot.bind (Tot.get ?_)
  simp only [a8, a9, Bool.or_self, Bool.and_false, Bool.false_eq_true, if_false]
  have hLa : L.drop (i + g.length) = c :: (w' ++ b :: rest) := by
    have := congrArg (List.drop g.length) hL
    simpa [List.drop_drop, Nat.add_comm] using this
  refine Tot.bind (tot_readtokenword hk h1 h2 hw hb hLa (by omega) hres ?_)
  exact Tot.pure h

/-- **`tokenizer.token()` on blanks followed by a plain word**: `WORD w` with the exact span; the
    cursor stands right after the word; the history is shifted -/
theorem tot_nextToken_word {l : Local} {L : Str} {adn : Bool} {b : Char} {g w rest : Str} {i : Nat}
    {P : Token → Local → Tape → Prop}
    (hk : WOK l) (h1 : histOK l.currentToken = true) (h2 : histOK l.lastReadToken = true)
    (hw : PlainWord w) (hb : endChar b = true) (hg : ∀ y ∈ g, shellblank y = true)
    (hL : L.drop i = g ++ w ++ b :: rest) (hlen : L.length + 2 ≤ 1073741824)
    (hres : reservedWordAcceptable (shiftH l) l.currentToken = true →
      reservedFirstCommandChars.lookup w = none)
    (h : P (wordTok (i + g.length) (i + g.length + w.length) w)
      (afterTok l (wordTok (i + g.length) (i + g.length + w.length) w))
      ⟨L, i + g.length + w.length, adn⟩) :
    Tot nextToken l ⟨L, i, adn⟩ P := by
  obtain ⟨hne, hp⟩ := hw
  cases w with
  | nil => exact absurd rfl hne
  | cons c w' =>
    unfold nextToken
    refine Tot.bind (Tot.modify ?_)
    have hL' : L.drop i = g ++ c :: (w' ++ b :: rest) := by
      rw [hL]; simp
    have e : i + g.length + (c :: w').length = i + g.length + 1 + w'.length := by
      simp only [List.length_cons]; omega
    rw [e] at h
    refine Tot.bind (tot_readtoken_word (l0 := shiftH l) hk.shiftH h1 h2 ⟨hne, hp⟩ hb hg hL'
      hlen hres ?_)
    simp only []
    refine Tot.bind (Tot.pure ?_)
    refine Tot.bind (Tot.modify ?_)
    refine Tot.bind (Tot.modify ?_)
    exact Tot.pure h

/-- the parser object after `tokenizer.token()` delivered the NEWLINE token `tok` -/
def afterNL (l : Local) (tok : Token) : Local :=
  { shiftH l with currentToken := tok, ps := { l.ps with assignok := false, eoftoken := false } }

def nlTok (a : Nat) : Token :=
  { ttype := some .NEWLINE, value := .str ['\n'], pos := some (a, a + 1), flags := [] }

/-- **`tokenizer.token()` on blanks followed by a newline** (no here-document pending) -/
theorem tot_nextToken_nl {l : Local} {L : Str} {adn : Bool} {g rest : Str} {i : Nat}
    {P : Token → Local → Tape → Prop}
    (hk : WOK l) (hg : ∀ y ∈ g, shellblank y = true)
    (hL : L.drop i = g ++ '\n' :: rest) (hlen : L.length + 2 ≤ 1073741824)
    (h : P (nlTok (i + g.length)) (afterNL l (nlTok (i + g.length))) ⟨L, i + g.length + 1, adn⟩) :
    Tot nextToken l ⟨L, i, adn⟩ P := by
  have hlenL : (L.drop i).length ≤ L.length := by rw [List.length_drop]; omega
  have hlen2 : g.length + 1 ≤ L.length := by
    rw [hL] at hlenL; simp at hlenL; omega
  have hr := hk.redir
  have hp := hk.pos
  cases l
  simp only at hr hp
  subst hr
  subst hp
  unfold nextToken
  refine Tot.bind (Tot.modify ?_)
  rw [C10.readtoken_eq]
  refine Tot.bind (Tot.bind (tot_readtokenHead hk.tape hk.eol (by decide)
    (by decide) (by decide) hL hg (by omega) ?_))
  simp only []
  unfold C10.readtokenTail
  refine Tot.bind (tot_recordpos hk.tape ?_)
  simp only [beq_self_eq_true, if_true]
  refine Tot.bind ?_
  · unfold gatherheredocuments
    refine Tot.bind (Tot.get ?_)
    show Tot (M.loop "gatherheredocuments" _ (0 + 1) ()) _ _ _
    refine Tot.loop_step ?_
    refine Tot.bind (Tot.get ?_)
    simp only [shiftH]
    refine Tot.pure ?_
    refine Tot.bind (Tot.modify ?_)
    unfold tokentypeOfChar
    simp only [TokType.ofChar]
    refine Tot.bind (Tot.pure ?_)
    refine Tot.pure ?_
    simp only []
    refine Tot.bind (tot_recordpos hk.tape ?_)
    simp only [List.nil_append, Nat.add_sub_cancel, Nat.sub_zero, List.cons_append]
    refine Tot.bind (tot_createtoken rfl (by omega) ?_)
    refine Tot.bind (Tot.modify ?_)
    refine Tot.bind (Tot.modify ?_)
    refine Tot.pure ?_
    exact h

def eofTok : Token := { ttype := some .EOF, value := .none }

/-- **`tokenizer.token()` at the end of the input**: the EOF token (no span) -/
theorem tot_nextToken_eof {l : Local} {L : Str} {adn : Bool} {i : Nat}
    {P : Token → Local → Tape → Prop}
    (hk : WOK l) (hi : L.length ≤ i)
    (h : P eofTok (afterTok l eofTok) ⟨L, i, adn⟩) :
    Tot nextToken l ⟨L, i, adn⟩ P := by
  unfold nextToken
  refine Tot.bind (Tot.modify ?_)
  rw [C10.readtoken_eq]
  refine Tot.bind (Tot.bind ?_)
  · unfold C10.readtokenHead loopFuel
    refine Tot.bind (Tot.pure ?_)
    refine Tot.bind (tot_getc_end hk.tape hk.eol hi ?_)
    refine Tot.bind ?_
    show Tot (M.loop "_readtoken" skipBody (1073741823 + 1) none) _ _ _
    refine Tot.loop_step ?_
    simp only [skipBody]
    refine Tot.pure ?_
    simp only []
    refine Tot.pure ?_
    simp only []
    refine Tot.pure ?_
    simp only []
    refine Tot.bind (Tot.pure ?_)
    refine Tot.bind (Tot.modify ?_)
    refine Tot.bind (Tot.modify ?_)
    exact Tot.pure h

end Bashlex.C02
