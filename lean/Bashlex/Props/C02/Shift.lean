/-
  C02 (round trip), part 12: `posshifter` on the expected ASTs — shifting the AST of a line by `k`
  gives the AST of the line spelled `k` characters further right.
-/
import Bashlex.Props.C02.SeqGlue
import Bashlex.Props.C02.OpsGlue

namespace Bashlex.C02
open Bashlex
set_option linter.unusedSimpArgs false
set_option linter.unusedVariables false

abbrev sh (k : Nat) : Span → Span := fun p => (p.1 + k, p.2 + k)

theorem nodesI_shift (k : Nat) : ∀ (items : List (Str × Str)) (off : Nat),
    Node.mapPosL (sh k) (nodesI off items) = nodesI (off + k) items
  | [], _ => by simp [nodesI, Node.mapPosL]
  | (g, w) :: r, off => by
    have ih := nodesI_shift k r (off + g.length + w.length)
    have e1 : off + g.length + w.length + k = off + k + g.length + w.length := by omega
    have e2 : off + g.length + k = off + k + g.length := by omega
    simp only [nodesI, Node.mapPosL, Node.mapPos, sh, ih, e1, e2]

theorem endI_shift (k : Nat) (items : List (Str × Str)) (off : Nat) :
    endI (off + k) items = endI off items + k := by
  rw [endI_eq, endI_eq]; omega

theorem cmdNode_shift (k off : Nat) (g1 w1 : Str) (items : List (Str × Str)) :
    (cmdNode off g1 w1 items).shift k = cmdNode (off + k) g1 w1 items := by
  have ih := nodesI_shift k items (off + g1.length + w1.length)
  have e1 : off + g1.length + w1.length + k = off + k + g1.length + w1.length := by omega
  have e2 : off + g1.length + k = off + k + g1.length := by omega
  have e3 := endI_shift k items (off + g1.length + w1.length)
  simp only [Node.shift, cmdNode, Node.mapPos, Node.mapPosL, ih, e1, e2, ← e3]

theorem endPos_shift (c : SCmd) (k off : Nat) : c.endPos (off + k) = c.endPos off + k := by
  unfold SCmd.endPos
  rw [endI_eq, endI_eq]; omega

theorem restNodes_shift (k : Nat) : ∀ (cs : List SCmd) (a : Nat),
    Node.mapPosL (sh k) (restNodes a cs) = restNodes (a + k) cs
  | [], _ => by simp [restNodes, Node.mapPosL]
  | c :: cs, a => by
    have ih := restNodes_shift k cs (a + 1 + c.text.length)
    have hc := cmdNode_shift k (a + 1) c.lead c.w1 c.items
    have e1 : a + 1 + c.text.length + k = a + k + 1 + c.text.length := by omega
    have e2 : a + 1 + k = a + k + 1 := by omega
    simp only [Node.shift] at hc
    simp only [restNodes, Node.mapPosL, Node.mapPos, sh, SCmd.node, hc, ih, e1, e2]

theorem lastEnd_shift (k : Nat) : ∀ (cs : List SCmd) (e a : Nat),
    lastEnd (e + k) (a + k) cs = lastEnd e a cs + k
  | [], _, _ => rfl
  | c :: cs, e, a => by
    have ih := lastEnd_shift k cs (c.endPos (a + 1)) (a + 1 + c.text.length)
    have e1 : a + k + 1 + c.text.length = a + 1 + c.text.length + k := by omega
    have e2 : a + k + 1 = a + 1 + k := by omega
    show lastEnd (c.endPos (a + k + 1)) (a + k + 1 + c.text.length) cs =
      lastEnd (c.endPos (a + 1)) (a + 1 + c.text.length) cs + k
    rw [e1, e2, endPos_shift c k (a + 1)]
    exact ih

theorem mkSeq_shift (k s e : Nat) : ∀ (ns : List Node),
    (mkSeq s e ns).shift k = mkSeq (s + k) (e + k) (Node.mapPosL (sh k) ns)
  | [] => by simp [mkSeq, Node.shift, Node.mapPos, Node.mapPosL]
  | [n] => by simp [mkSeq, Node.shift, Node.mapPosL]
  | a :: b :: r => by simp [mkSeq, Node.shift, Node.mapPos, Node.mapPosL]

/-- **shifting the AST of a line** -/
theorem lineNode_shift (k i : Nat) (c1 : SCmd) (cs : List SCmd) :
    (lineNode i c1 cs).shift k = lineNode (i + k) c1 cs := by
  have hc := cmdNode_shift k i c1.lead c1.w1 c1.items
  simp only [Node.shift] at hc
  have hr := restNodes_shift k cs (i + c1.text.length)
  have hl := lastEnd_shift k cs (c1.endPos i) (i + c1.text.length)
  have e1 : i + c1.text.length + k = i + k + c1.text.length := by omega
  have e2 : i + c1.lead.length + k = i + k + c1.lead.length := by omega
  unfold lineNode
  rw [mkSeq_shift]
  simp only [Node.mapPosL, SCmd.node, hc, hr, ← hl, endPos_shift, e1, e2]

theorem orestNodes_shift (k : Nat) : ∀ (cs : List (Op × SCmd)) (a : Nat),
    Node.mapPosL (sh k) (orestNodes a cs) = orestNodes (a + k) cs
  | [], _ => by simp [orestNodes, Node.mapPosL]
  | (o, c) :: cs, a => by
    have ih := orestNodes_shift k cs (a + o.txt.length + c.text.length)
    have hc := cmdNode_shift k (a + o.txt.length) c.lead c.w1 c.items
    have e1 : a + o.txt.length + c.text.length + k = a + k + o.txt.length + c.text.length := by omega
    have e2 : a + o.txt.length + k = a + k + o.txt.length := by omega
    simp only [Node.shift] at hc
    simp only [orestNodes, Node.mapPosL, Node.mapPos, sh, SCmd.node, hc, ih, e1, e2]

theorem olastEnd_shift (k : Nat) : ∀ (cs : List (Op × SCmd)) (e a : Nat),
    olastEnd (e + k) (a + k) cs = olastEnd e a cs + k
  | [], _, _ => rfl
  | (o, c) :: cs, e, a => by
    have ih := olastEnd_shift k cs (c.endPos (a + o.txt.length)) (a + o.txt.length + c.text.length)
    have e1 : a + k + o.txt.length + c.text.length = a + o.txt.length + c.text.length + k := by omega
    have e2 : a + k + o.txt.length = a + o.txt.length + k := by omega
    show olastEnd (c.endPos (a + k + o.txt.length)) (a + k + o.txt.length + c.text.length) cs =
      olastEnd (c.endPos (a + o.txt.length)) (a + o.txt.length + c.text.length) cs + k
    rw [e1, e2, endPos_shift c k (a + o.txt.length)]
    exact ih

/-- **shifting the AST of a line with mixed operators** -/
theorem olineNode_shift (k i : Nat) (c1 : SCmd) (cs : List (Op × SCmd)) :
    (olineNode i c1 cs).shift k = olineNode (i + k) c1 cs := by
  have hc := cmdNode_shift k i c1.lead c1.w1 c1.items
  simp only [Node.shift] at hc
  have hr := orestNodes_shift k cs (i + c1.text.length)
  have hl := olastEnd_shift k cs (c1.endPos i) (i + c1.text.length)
  have e1 : i + c1.text.length + k = i + k + c1.text.length := by omega
  have e2 : i + c1.lead.length + k = i + k + c1.lead.length := by omega
  unfold olineNode
  rw [mkSeq_shift]
  simp only [Node.mapPosL, SCmd.node, hc, hr, ← hl, endPos_shift, e1, e2]

end Bashlex.C02
