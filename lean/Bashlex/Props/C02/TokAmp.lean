/-
  C02 (round trip), groundwork for step (5): the real tokenizer on the single `&`.
  Not yet used by a round-trip theorem.
-/
import Bashlex.Props.C02.TokOp

namespace Bashlex.C02
open Bashlex Bashlex.M
set_option linter.unusedSimpArgs false
set_option linter.unusedVariables false

def ampTok (a : Nat) : Token :=
  { ttype := some .AMPERSAND, value := .str ['&'], pos := some (a, a + 1), flags := [] }

/-- **`tokenizer.token()` on blanks followed by a single `&`** (the next character is neither `&`
    nor `>` nor a backslash) -/
theorem tot_nextToken_amp {l : Local} {L : Str} {adn : Bool} {g rest : Str} {d : Char} {i : Nat}
    {P : Token → Local → Tape → Prop}
    (hk : WOK l) (hdp : l.ps.dblparen = false) (hg : ∀ y ∈ g, shellblank y = true)
    (hL : L.drop i = g ++ '&' :: d :: rest) (hd1 : d ≠ '&') (hd2 : d ≠ '>') (hd3 : d ≠ '\\')
    (hlen : L.length + 2 ≤ 1073741824)
    (h : P (ampTok (i + g.length)) (afterNL l (ampTok (i + g.length))) ⟨L, i + g.length + 1, adn⟩) :
    Tot nextToken l ⟨L, i, adn⟩ P := by
  have hlenL : (L.drop i).length ≤ L.length := by rw [List.length_drop]; omega
  have hlen2 : g.length + 2 ≤ L.length := by
    rw [hL] at hlenL; simp at hlenL; omega
  have hLa : L.drop (i + g.length) = '&' :: d :: rest := by
    have := congrArg (List.drop g.length) hL
    simpa [List.drop_drop, Nat.add_comm] using this
  have hLd : L[i + g.length + 1]? = some d := drop_head (drop_tail hLa)
  have hlt : i + g.length + 1 < L.length := drop_lt (drop_tail hLa)
  have hp := hk.pos
  have hreg := hk.regexp
  cases l
  simp only at hp hdp hreg
  subst hp
  unfold nextToken
  refine Tot.bind (Tot.modify ?_)
  rw [C10.readtoken_eq]
  refine Tot.bind (Tot.bind (tot_readtokenHead hk.tape hk.eol (by decide)
    (by decide) (by decide) hL hg (by omega) ?_))
  simp only []
  unfold C10.readtokenTail
  refine Tot.bind (tot_recordpos hk.tape ?_)
  simp only [show ('&' == '\n') = false by decide, Bool.false_eq_true, if_false]
  refine Tot.bind (Tot.get ?_)
  simp only [shiftH, hreg, Bool.false_eq_true, if_false]
  refine Tot.bind (tot_shellmeta ?_)
  refine Tot.bind (Tot.get ?_)
  simp only [show (synClass '&').metac = true by decide, hdp, Bool.not_false, Bool.and_self, if_true]
  refine Tot.bind ?_
  · unfold readtokenMeta
    refine Tot.bind (Tot.modify ?_)
    refine Tot.bind (tot_getc hk.tape hk.eol hLd hd3 ?_)
    have e1 : (some d == some '&') = false := by simpa using hd1
    have e2 : (some d == some '>') = false := by simpa using hd2
    simp only [e1, e2, show ('&' == '<') = false by decide, show ('&' == '>') = false by decide,
      show ('&' == ';') = false by decide, show ('&' == '|') = false by decide,
      show ('&' == ')') = false by decide, show ('&' == '(') = false by decide,
      Bool.false_and, Bool.and_false, Bool.false_eq_true, if_false, beq_self_eq_true, Bool.true_and]
    refine Tot.bind (tot_ungetc hk.tape hlt ?_)
    refine Tot.bind (Tot.get ?_)
    refine Tot.bind (Tot.get ?_)
    simp only [Bool.or_self, Bool.not_false, Bool.true_or, if_true]
    unfold tokentypeOfChar
    simp only [TokType.ofChar]
    refine Tot.bind (Tot.pure ?_)
    refine Tot.pure ?_
    simp only []
    refine Tot.pure ?_
    simp only []
    refine Tot.bind (tot_recordpos hk.tape ?_)
    simp only [List.nil_append, Nat.add_sub_cancel, Nat.sub_zero, List.cons_append]
    refine Tot.bind (tot_createtoken rfl (by omega) ?_)
    refine Tot.bind (Tot.modify ?_)
    refine Tot.bind (Tot.modify ?_)
    refine Tot.pure ?_
    exact h


end Bashlex.C02
