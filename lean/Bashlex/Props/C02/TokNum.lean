/-
  C02 (round trip), step (4b): the real tokenizer on a file-descriptor prefix — a non-empty run of
  digits directly followed by `>` or `<` is the token NUMBER.
-/
import Bashlex.Props.C02.TokRedir

namespace Bashlex.C02
open Bashlex Bashlex.M
set_option linter.unusedSimpArgs false
set_option linter.unusedVariables false

/-- a non-empty run of digits -/
def DigWord (w : Str) : Prop := w ≠ [] ∧ ∀ c ∈ w, isDigit c = true
instance (w : Str) : Decidable (DigWord w) := by unfold DigWord; exact inferInstance

theorem digit_plain {c : Char} (h : isDigit c = true) : plainChar c = true := by
  simp [plainChar, isAlnum, h]

def numTok (a k : Nat) (w : Str) : Token :=
  { ttype := some .NUMBER, value := .int (digitsToNat w), pos := some (a, k), flags := [] }

def redirChar (b : Char) : Bool := b == '>' || b == '<'

/-- the iteration on the `>`/`<` that ends a number: `handleshellexp` peeks one character and puts
    it back, the character itself is put back -/
theorem step_rend {l : Local} {L : Str} {i : Nat} {adn : Bool} {b d : Char} {ad : Bool} {tw : Str}
    {P : RWState ⊕ RWState → Local → Tape → Prop}
    (ht : l.tape = none) (hl : l.eolLookahead = none) (hb : redirChar b = true)
    (hd : L[i + 1]? = some d) (hdb : d ≠ '\\') (hdp : d ≠ '(')
    (h : P (.inr (rwSt (some b) ad tw)) l ⟨L, i, adn⟩) :
    Tot (readtokenwordStep (rwSt (some b) ad tw)) l ⟨L, i + 1, adn⟩ P := by
  have hi : i + 1 < L.length := by
    rcases Nat.lt_or_ge (i + 1) L.length with h1 | h1
    · exact h1
    · rw [List.getElem?_eq_none h1] at hd; cases hd
  have hbs : (b == '\\') = false := by
    simp only [redirChar, Bool.or_eq_true, beq_iff_eq] at hb
    rcases hb with rfl | rfl <;> rfl
  have hq : (synClass b).quote = false := by
    simp only [redirChar, Bool.or_eq_true, beq_iff_eq] at hb
    rcases hb with rfl | rfl <;> rfl
  have he : (synClass b).exp = true := by
    simp only [redirChar, Bool.or_eq_true, beq_iff_eq] at hb
    rcases hb with rfl | rfl <;> rfl
  have hk : (synClass b).brk = true := by
    simp only [redirChar, Bool.or_eq_true, beq_iff_eq] at hb
    rcases hb with rfl | rfl <;> rfl
  have hdol : (b == '$') = false := by
    simp only [redirChar, Bool.or_eq_true, beq_iff_eq] at hb
    rcases hb with rfl | rfl <;> rfl
  have hdp' : (some d == some '(') = false := by simpa using hdp
  rw [C04.TTP.readtokenwordStep_eq]
  simp only [rwSt, Bool.false_eq_true, if_false]
  refine Tot.bind (currentDelimiter_tot ?_)
  simp only [hbs, Bool.false_eq_true, if_false]
  refine Tot.bind (tot_shellquote ?_)
  simp only [hq, Bool.false_eq_true, if_false]
  refine Tot.bind (tot_shellexp ?_)
  simp only [he, if_true]
  refine Tot.bind ?_
  unfold handleshellexp
  refine Tot.bind (tot_getc ht hl hd hdb ?_)
  simp only [hdp', hdol, Bool.false_and, Bool.or_self, Bool.false_eq_true, if_false]
  refine Tot.bind (tot_ungetc ht hi ?_)
  refine Tot.pure ?_
  unfold C04.TTP.rwBreak
  simp only [Bool.not_true, Bool.not_false, if_true]
  refine Tot.bind (tot_shellbreak ?_)
  simp only [hk, if_true]
  refine Tot.bind (tot_ungetc ht (by omega) ?_)
  exact Tot.pure h

theorem redir_ne_bs {b : Char} (hb : redirChar b = true) : b ≠ '\\' := by
  simp only [redirChar, Bool.or_eq_true, beq_iff_eq] at hb
  rcases hb with rfl | rfl <;> decide

/-- **the loop of `_readtokenword`** over digits followed by `>`/`<`: `all_digit_token` stays true -/
theorem tot_digLoop {l : Local} {L : Str} {adn : Bool} {b d : Char} {rest : Str}
    {P : RWState → Local → Tape → Prop}
    (ht : l.tape = none) (hl : l.eolLookahead = none) (hb : redirChar b = true)
    (hdb : d ≠ '\\') (hdp : d ≠ '(') :
    ∀ (w' : Str) (tw : Str) (c : Char) (i : Nat) (fuel : Nat),
      L.drop i = c :: (w' ++ b :: d :: rest) → isDigit c = true → (∀ x ∈ w', isDigit x = true) →
      w'.length + 2 ≤ fuel →
      P (rwSt (some b) true (tw ++ c :: w')) l ⟨L, i + 1 + w'.length, adn⟩ →
      Tot (M.loop "_readtokenword" readtokenwordStep fuel (rwSt (some c) true tw)) l ⟨L, i + 1, adn⟩ P := by
  intro w'
  induction w' with
  | nil =>
    intro tw c i fuel hL hc hw hf h
    obtain ⟨f1, rfl⟩ : ∃ f1, fuel = f1 + 1 := ⟨fuel - 1, by omega⟩
    refine Tot.loop_step ?_
    have hL1 := drop_tail hL
    refine step_plain ht hl (digit_plain hc) (drop_head hL1) (redir_ne_bs hb) ?_
    obtain ⟨f2, rfl⟩ : ∃ f2, f1 = f2 + 1 := ⟨f1 - 1, by simp at hf; omega⟩
    refine Tot.loop_step ?_
    simp only [hc, Bool.and_self]
    refine step_rend ht hl hb (drop_head (drop_tail hL1)) hdb hdp ?_
    exact h
  | cons c' w'' ih =>
    intro tw c i fuel hL hc hw hf h
    obtain ⟨f1, rfl⟩ : ∃ f1, fuel = f1 + 1 := ⟨fuel - 1, by omega⟩
    refine Tot.loop_step ?_
    have hL1 := drop_tail hL
    have hc' : isDigit c' = true := hw c' (List.mem_cons_self ..)
    refine step_plain ht hl (digit_plain hc) (drop_head hL1) (plain_ne' (by decide) (digit_plain hc')) ?_
    simp only [hc, Bool.and_self]
    refine ih (tw ++ [c]) c' (i + 1) f1 hL1 hc' (fun x hx => hw x (List.mem_cons_of_mem _ hx))
      (by simp at hf; omega) ?_
    simp only [List.length_cons, List.append_assoc, List.singleton_append] at h ⊢
    have e : i + 1 + 1 + w''.length = i + 1 + (w''.length + 1) := by omega
    rw [e]; exact h

theorem dig_legal {w : Str} (hw : DigWord w) : legalNumber w = true := by
  obtain ⟨hne, hp⟩ := hw
  cases w with
  | nil => exact absurd rfl hne
  | cons c r =>
    simp only [legalNumber, List.isEmpty_cons, Bool.not_false, Bool.true_and, List.all_eq_true]
    exact hp

theorem redir_isRedir {b : Char} (hb : redirChar b = true) :
    (some b == some '<' || some b == some '>') = true := by
  simp only [redirChar, Bool.or_eq_true, beq_iff_eq] at hb
  rcases hb with rfl | rfl <;> rfl

/-- the part of `_readtokenword` after `# got_token`, on digits before `>`/`<` -/
theorem tot_finishNum {l0 : Local} {T : Tape} {b : Char} {w : Str} {a : Nat}
    {P : Token → Local → Tape → Prop}
    (hk : WOK l0) (hw : DigWord w) (hb : redirChar b = true) (hak : a < T.idx)
    (h : P (numTok a T.idx w) l0 T) :
    Tot (finishWord (rwSt (some b) true w)) { l0 with positions := [a] } T P := by
  unfold finishWord
  refine Tot.bind (tot_recordpos hk.tape ?_)
  refine Tot.bind (Tot.get ?_)
  simp only [rwSt, redir_isRedir hb, Bool.true_or, Bool.and_self, Bool.true_and, dig_legal hw,
    if_true, List.singleton_append, Nat.sub_zero]
  refine tot_createtoken (l := { l0 with positions := [a, T.idx] }) rfl hak ?_
  rw [pos_eta l0 hk.pos]
  exact h

/-- `_readtokenword(c)` on digits `c :: w'` followed by `>`/`<` -/
theorem tot_readtokenword_num {l0 : Local} {L : Str} {adn : Bool} {b c d : Char} {w' rest : Str} {a : Nat}
    {P : Token → Local → Tape → Prop}
    (hk : WOK l0) (hw : DigWord (c :: w')) (hb : redirChar b = true) (hdb : d ≠ '\\') (hdp : d ≠ '(')
    (hL : L.drop a = c :: (w' ++ b :: d :: rest)) (hlen : w'.length + 2 ≤ 1073741824)
    (h : P (numTok a (a + 1 + w'.length) (c :: w')) l0 ⟨L, a + 1 + w'.length, adn⟩) :
    Tot (readtokenword c) { l0 with positions := [a] } ⟨L, a + 1, adn⟩ P := by
  unfold readtokenword loopFuel
  refine Tot.bind (Tot.pure ?_)
  refine Tot.bind ?_
  have hc : isDigit c = true := hw.2 c (List.mem_cons_self ..)
  rw [hc]
  show Tot (M.loop "_readtokenword" readtokenwordStep 1073741824 (rwSt (some c) true []))
    { l0 with positions := [a] } ⟨L, a + 1, adn⟩ _
  refine tot_digLoop (l := { l0 with positions := [a] }) hk.tape hk.eol hb hdb hdp w' [] c a _ hL
    hc (fun x hx => hw.2 x (List.mem_cons_of_mem _ hx)) hlen ?_
  simp only [List.nil_append]
  exact tot_finishNum (T := ⟨L, a + 1 + w'.length, adn⟩) hk hw hb
    (by show a < a + 1 + w'.length; omega) h

/-- `_readtoken` on blanks followed by digits and `>`/`<` -/
theorem tot_readtoken_num {l0 : Local} {L : Str} {adn : Bool} {b c d : Char} {g w' rest : Str} {i : Nat}
    {P : TokType ⊕ Token → Local → Tape → Prop}
    (hk : WOK l0) (h1 : histOK l0.lastReadToken = true)
    (hw : DigWord (c :: w')) (hb : redirChar b = true) (hdb : d ≠ '\\') (hdp : d ≠ '(')
    (hg : ∀ y ∈ g, shellblank y = true)
    (hL : L.drop i = g ++ c :: (w' ++ b :: d :: rest)) (hlen : L.length + 2 ≤ 1073741824)
    (h : P (.inr (numTok (i + g.length) (i + g.length + 1 + w'.length) (c :: w'))) l0
      ⟨L, i + g.length + 1 + w'.length, adn⟩) :
    Tot readtoken l0 ⟨L, i, adn⟩ P := by
  have hc : plainChar c = true := digit_plain (hw.2 c (List.mem_cons_self ..))
  obtain ⟨a1, a2, a3, a4, a5, a6, a7, a8, a9⟩ := histOK_is h1
  have hlenL : (L.drop i).length ≤ L.length := by rw [List.length_drop]; omega
  have hlen2 : g.length + (w'.length + 2) ≤ L.length := by
    rw [hL] at hlenL; simp at hlenL; omega
  rw [C10.readtoken_eq]
  refine Tot.bind (tot_readtokenHead hk.tape hk.eol (plain_blank hc)
    (plain_ne' (by decide) hc) (plain_ne' (by decide) hc) hL hg (by omega) ?_)
  simp only []
  unfold C10.readtokenTail
  refine Tot.bind (tot_recordpos hk.tape ?_)
  simp only [plain_ne (by decide : plainChar '\n' = false) hc, Bool.false_eq_true, if_false,
    hk.pos, List.nil_append, Nat.add_sub_cancel]
  refine Tot.bind (Tot.get ?_)
  simp only [hk.regexp, Bool.false_eq_true, if_false]
  refine Tot.bind (tot_shellmeta ?_)
  refine Tot.bind (Tot.get ?_)
  simp only [plain_syn hc, Bool.false_and, Bool.false_eq_true, if_false]
  refine Tot.bind (Tot.get ?_)
  simp only [a8, a9, Bool.or_self, Bool.and_false, Bool.false_eq_true, if_false]
  have hLa : L.drop (i + g.length) = c :: (w' ++ b :: d :: rest) := by
    have := congrArg (List.drop g.length) hL
    simpa [List.drop_drop, Nat.add_comm] using this
  refine Tot.bind (tot_readtokenword_num hk hw hb hdb hdp hLa (by omega) ?_)
  exact Tot.pure h

/-- **`tokenizer.token()` on blanks followed by digits and `>`/`<`**: `NUMBER n` with the exact span -/
theorem tot_nextToken_num {l : Local} {L : Str} {adn : Bool} {b d : Char} {g w rest : Str} {i : Nat}
    {P : Token → Local → Tape → Prop}
    (hk : WOK l) (h1 : histOK l.currentToken = true)
    (hw : DigWord w) (hb : redirChar b = true) (hdb : d ≠ '\\') (hdp : d ≠ '(')
    (hg : ∀ y ∈ g, shellblank y = true)
    (hL : L.drop i = g ++ w ++ b :: d :: rest) (hlen : L.length + 2 ≤ 1073741824)
    (h : P (numTok (i + g.length) (i + g.length + w.length) w)
      (afterTok l (numTok (i + g.length) (i + g.length + w.length) w))
      ⟨L, i + g.length + w.length, adn⟩) :
    Tot nextToken l ⟨L, i, adn⟩ P := by
  obtain ⟨hne, hp⟩ := hw
  cases w with
  | nil => exact absurd rfl hne
  | cons c w' =>
    unfold nextToken
    refine Tot.bind (Tot.modify ?_)
    have hL' : L.drop i = g ++ c :: (w' ++ b :: d :: rest) := by
      rw [hL]; simp
    have e : i + g.length + (c :: w').length = i + g.length + 1 + w'.length := by
      simp only [List.length_cons]; omega
    rw [e] at h
    refine Tot.bind (tot_readtoken_num (l0 := shiftH l) hk.shiftH h1 ⟨hne, hp⟩ hb hdb hdp hg hL'
      hlen ?_)
    simp only []
    refine Tot.bind (Tot.pure ?_)
    refine Tot.bind (Tot.modify ?_)
    refine Tot.bind (Tot.modify ?_)
    exact Tot.pure h

end Bashlex.C02
