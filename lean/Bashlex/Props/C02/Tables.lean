/-
  C02 (round trip), part 3: the entries of the REAL tables (`LR.realTables`, regenerated from the
  implementation) that the engine consults on `WORD^n NEWLINE`; each is decided by the kernel.
-/
import Bashlex.Model.Parse

namespace Bashlex.C02.Tab
open Bashlex Bashlex.LR

abbrev T := realTables

theorem endTok : T.endTok = 0 := rfl
theorem nlTokE : T.nlTok = 55 := rfl
theorem symWORD : TokType.WORD.sym = 24 := by decide
theorem symNL : TokType.NEWLINE.sym = 55 := by decide

theorem d0 : T.dflt 0 = none := by decide
theorem d29 : T.dflt 29 = none := by decide
theorem d17 : T.dflt 17 = none := by decide
theorem d13 : T.dflt 13 = none := by decide
theorem d75 : T.dflt 75 = none := by decide
theorem d74 : T.dflt 74 = none := by decide
theorem d11 : T.dflt 11 = none := by decide
theorem d8 : T.dflt 8 = none := by decide
theorem d7 : T.dflt 7 = none := by decide
theorem d6 : T.dflt 6 = none := by decide
theorem d2 : T.dflt 2 = none := by decide
theorem d57 : T.dflt 57 = some 141 := by decide
theorem d56 : T.dflt 56 = some 1 := by decide

theorem a0w : T.action 0 24 = some (.shift 29) := by decide
theorem a0n : T.action 0 55 = some (.shift 3) := by decide
theorem a29w : T.action 29 24 = some (.reduce 51) := by decide
theorem a29n : T.action 29 55 = some (.reduce 51) := by decide
theorem a17w : T.action 17 24 = some (.reduce 56) := by decide
theorem a17n : T.action 17 55 = some (.reduce 56) := by decide
theorem a13w : T.action 13 24 = some (.shift 75) := by decide
theorem a13n : T.action 13 55 = some (.reduce 58) := by decide
theorem a75w : T.action 75 24 = some (.reduce 51) := by decide
theorem a75n : T.action 75 55 = some (.reduce 51) := by decide
theorem a74w : T.action 74 24 = some (.reduce 57) := by decide
theorem a74n : T.action 74 55 = some (.reduce 57) := by decide
theorem a11n : T.action 11 55 = some (.reduce 163) := by decide
theorem a8n : T.action 8 55 = some (.reduce 156) := by decide
theorem a7n : T.action 7 55 = some (.reduce 155) := by decide
theorem a6n : T.action 6 55 = some (.reduce 148) := by decide
theorem a2n : T.action 2 55 = some (.shift 57) := by decide

theorem p51 : T.prods[51]? = some (63, [24]) := by decide
theorem p56 : T.prods[56]? = some (65, [63]) := by decide
theorem p57 : T.prods[57]? = some (65, [65, 63]) := by decide
theorem p58 : T.prods[58]? = some (66, [65]) := by decide
theorem p163 : T.prods[163]? = some (95, [66]) := by decide
theorem p156 : T.prods[156]? = some (94, [95]) := by decide
theorem p155 : T.prods[155]? = some (93, [94]) := by decide
theorem p148 : T.prods[148]? = some (92, [93]) := by decide
theorem p141 : T.prods[141]? = some (89, [55]) := by decide
theorem p1 : T.prods[1]? = some (60, [92, 89]) := by decide

theorem g0_63 : T.goto 0 63 = some 17 := by decide
theorem g0_65 : T.goto 0 65 = some 13 := by decide
theorem g13_63 : T.goto 13 63 = some 74 := by decide
theorem g0_66 : T.goto 0 66 = some 11 := by decide
theorem g0_95 : T.goto 0 95 = some 8 := by decide
theorem g0_94 : T.goto 0 94 = some 7 := by decide
theorem g0_93 : T.goto 0 93 = some 6 := by decide
theorem g0_92 : T.goto 0 92 = some 2 := by decide
theorem g2_89 : T.goto 2 89 = some 56 := by decide
theorem g0_60 : T.goto 0 60 = some 1 := by decide

theorem f51 : Gen.prodFuncs.getD 51 "" = "p_simple_command_element" := by decide
theorem f56 : Gen.prodFuncs.getD 56 "" = "p_simple_command" := by decide
theorem f57 : Gen.prodFuncs.getD 57 "" = "p_simple_command" := by decide
theorem f58 : Gen.prodFuncs.getD 58 "" = "p_command" := by decide
theorem f163 : Gen.prodFuncs.getD 163 "" = "p_pipeline" := by decide
theorem f156 : Gen.prodFuncs.getD 156 "" = "p_pipeline_command" := by decide
theorem f155 : Gen.prodFuncs.getD 155 "" = "p_simple_list1" := by decide
theorem f148 : Gen.prodFuncs.getD 148 "" = "p_simple_list" := by decide
theorem f141 : Gen.prodFuncs.getD 141 "" = "p_simple_list_terminator" := by decide
theorem f1 : Gen.prodFuncs.getD 1 "" = "p_inputunit" := by decide

/-! entries for `;` (terminal 53) and the states 61 (after `simple_list1 ;`), 133 -/
theorem symSEMI : TokType.SEMICOLON.sym = 53 := by decide
theorem d61 : T.dflt 61 = none := by decide
theorem d133 : T.dflt 133 = none := by decide
theorem a29s : T.action 29 53 = some (.reduce 51) := by decide
theorem a17s : T.action 17 53 = some (.reduce 56) := by decide
theorem a13s : T.action 13 53 = some (.reduce 58) := by decide
theorem a75s : T.action 75 53 = some (.reduce 51) := by decide
theorem a74s : T.action 74 53 = some (.reduce 57) := by decide
theorem a11s : T.action 11 53 = some (.reduce 163) := by decide
theorem a8s : T.action 8 53 = some (.reduce 156) := by decide
theorem a7s : T.action 7 53 = some (.reduce 155) := by decide
theorem a6s : T.action 6 53 = some (.shift 61) := by decide
theorem a61w : T.action 61 24 = some (.shift 29) := by decide
theorem a133s : T.action 133 53 = some (.reduce 154) := by decide
theorem a133n : T.action 133 55 = some (.reduce 154) := by decide
theorem p154 : T.prods[154]? = some (93, [93, 53, 93]) := by decide
theorem g61_63 : T.goto 61 63 = some 17 := by decide
theorem g61_65 : T.goto 61 65 = some 13 := by decide
theorem g61_66 : T.goto 61 66 = some 11 := by decide
theorem g61_95 : T.goto 61 95 = some 8 := by decide
theorem g61_94 : T.goto 61 94 = some 7 := by decide
theorem g61_93 : T.goto 61 93 = some 133 := by decide
theorem f154 : Gen.prodFuncs.getD 154 "" = "p_simple_list1" := by decide

/-! entries for `|` (terminal 52) and the states 64, 81, 136, 195 -/
theorem symBAR : TokType.BAR.sym = 52 := by decide
theorem d64 : T.dflt 64 = none := by decide
theorem d81 : T.dflt 81 = none := by decide
theorem d136 : T.dflt 136 = none := by decide
theorem d195 : T.dflt 195 = none := by decide
theorem a29b : T.action 29 52 = some (.reduce 51) := by decide
theorem a17b : T.action 17 52 = some (.reduce 56) := by decide
theorem a75b : T.action 75 52 = some (.reduce 51) := by decide
theorem a74b : T.action 74 52 = some (.reduce 57) := by decide
theorem a13b : T.action 13 52 = some (.reduce 58) := by decide
theorem a11b : T.action 11 52 = some (.reduce 163) := by decide
theorem a8b : T.action 8 52 = some (.shift 64) := by decide
theorem a195b : T.action 195 52 = some (.shift 64) := by decide
theorem a195n : T.action 195 55 = some (.reduce 161) := by decide
theorem a64w : T.action 64 24 = some (.reduce 167) := by decide
theorem a81w : T.action 81 24 = some (.reduce 146) := by decide
theorem a136w : T.action 136 24 = some (.shift 29) := by decide
theorem p167 : T.prods[167]? = some (97, []) := by decide
theorem p146 : T.prods[146]? = some (91, [97]) := by decide
theorem p161 : T.prods[161]? = some (95, [95, 52, 91, 95]) := by decide
theorem g64_97 : T.goto 64 97 = some 81 := by decide
theorem g64_91 : T.goto 64 91 = some 136 := by decide
theorem g136_63 : T.goto 136 63 = some 17 := by decide
theorem g136_65 : T.goto 136 65 = some 13 := by decide
theorem g136_66 : T.goto 136 66 = some 11 := by decide
theorem g136_95 : T.goto 136 95 = some 195 := by decide
theorem f167 : Gen.prodFuncs.getD 167 "" = "p_empty" := by decide
theorem f146 : Gen.prodFuncs.getD 146 "" = "p_newline_list" := by decide
theorem f161 : Gen.prodFuncs.getD 161 "" = "p_pipeline" := by decide

/-! entries for `&&` (31) and `||` (32) and the states 62, 63, 134, 135, 193, 194 -/
theorem symAND : TokType.AND_AND.sym = 31 := by decide
theorem symOR : TokType.OR_OR.sym = 32 := by decide
theorem d62 : T.dflt 62 = none := by decide
theorem d63 : T.dflt 63 = none := by decide
theorem d134 : T.dflt 134 = none := by decide
theorem d135 : T.dflt 135 = none := by decide
theorem d193 : T.dflt 193 = none := by decide
theorem d194 : T.dflt 194 = none := by decide
theorem a29a : T.action 29 31 = some (.reduce 51) := by decide
theorem a17a : T.action 17 31 = some (.reduce 56) := by decide
theorem a75a : T.action 75 31 = some (.reduce 51) := by decide
theorem a74a : T.action 74 31 = some (.reduce 57) := by decide
theorem a13a : T.action 13 31 = some (.reduce 58) := by decide
theorem a11a : T.action 11 31 = some (.reduce 163) := by decide
theorem a8a : T.action 8 31 = some (.reduce 156) := by decide
theorem a7a : T.action 7 31 = some (.reduce 155) := by decide
theorem a29o : T.action 29 32 = some (.reduce 51) := by decide
theorem a17o : T.action 17 32 = some (.reduce 56) := by decide
theorem a75o : T.action 75 32 = some (.reduce 51) := by decide
theorem a74o : T.action 74 32 = some (.reduce 57) := by decide
theorem a13o : T.action 13 32 = some (.reduce 58) := by decide
theorem a11o : T.action 11 32 = some (.reduce 163) := by decide
theorem a8o : T.action 8 32 = some (.reduce 156) := by decide
theorem a7o : T.action 7 32 = some (.reduce 155) := by decide
theorem a6a : T.action 6 31 = some (.shift 62) := by decide
theorem a6o : T.action 6 32 = some (.shift 63) := by decide
theorem a133a : T.action 133 31 = some (.shift 62) := by decide
theorem a133o : T.action 133 32 = some (.shift 63) := by decide
theorem a62w : T.action 62 24 = some (.reduce 167) := by decide
theorem a63w : T.action 63 24 = some (.reduce 167) := by decide
theorem g62_97 : T.goto 62 97 = some 81 := by decide
theorem g63_97 : T.goto 63 97 = some 81 := by decide
theorem g62_91 : T.goto 62 91 = some 134 := by decide
theorem g63_91 : T.goto 63 91 = some 135 := by decide
theorem a134w : T.action 134 24 = some (.shift 29) := by decide
theorem a135w : T.action 135 24 = some (.shift 29) := by decide
theorem g134_63 : T.goto 134 63 = some 17 := by decide
theorem g134_65 : T.goto 134 65 = some 13 := by decide
theorem g134_66 : T.goto 134 66 = some 11 := by decide
theorem g134_95 : T.goto 134 95 = some 8 := by decide
theorem g134_94 : T.goto 134 94 = some 7 := by decide
theorem g134_93 : T.goto 134 93 = some 193 := by decide
theorem g135_63 : T.goto 135 63 = some 17 := by decide
theorem g135_65 : T.goto 135 65 = some 13 := by decide
theorem g135_66 : T.goto 135 66 = some 11 := by decide
theorem g135_95 : T.goto 135 95 = some 8 := by decide
theorem g135_94 : T.goto 135 94 = some 7 := by decide
theorem g135_93 : T.goto 135 93 = some 194 := by decide
theorem a193a : T.action 193 31 = some (.reduce 151) := by decide
theorem a193o : T.action 193 32 = some (.reduce 151) := by decide
theorem a193s : T.action 193 53 = some (.reduce 151) := by decide
theorem a193n : T.action 193 55 = some (.reduce 151) := by decide
theorem a194a : T.action 194 31 = some (.reduce 152) := by decide
theorem a194o : T.action 194 32 = some (.reduce 152) := by decide
theorem a194s : T.action 194 53 = some (.reduce 152) := by decide
theorem a194n : T.action 194 55 = some (.reduce 152) := by decide
theorem p151 : T.prods[151]? = some (93, [93, 31, 91, 93]) := by decide
theorem p152 : T.prods[152]? = some (93, [93, 32, 91, 93]) := by decide
theorem f151 : Gen.prodFuncs.getD 151 "" = "p_simple_list1" := by decide
theorem f152 : Gen.prodFuncs.getD 152 "" = "p_simple_list1" := by decide

/-! state 195 (`pipeline | newline_list pipeline .`) on the list-level terminators -/
theorem a195s : T.action 195 53 = some (.reduce 161) := by decide
theorem a195a : T.action 195 31 = some (.reduce 161) := by decide
theorem a195o : T.action 195 32 = some (.reduce 161) := by decide
theorem a8a' : T.action 8 31 = some (.reduce 156) := by decide

/-! entries for ASSIGNMENT_WORD (terminal 25) and state 33 -/
theorem symAW : TokType.ASSIGNMENT_WORD.sym = 25 := by decide
theorem d33 : T.dflt 33 = none := by decide
theorem p52 : T.prods[52]? = some (63, [25]) := by decide
theorem f52 : Gen.prodFuncs.getD 52 "" = "p_simple_command_element" := by decide
theorem a0A : T.action 0 25 = some (.shift 33) := by decide
theorem a61A : T.action 61 25 = some (.shift 33) := by decide
theorem a134A : T.action 134 25 = some (.shift 33) := by decide
theorem a135A : T.action 135 25 = some (.shift 33) := by decide
theorem a136A : T.action 136 25 = some (.shift 33) := by decide
theorem a13A : T.action 13 25 = some (.shift 33) := by decide
theorem a33w : T.action 33 24 = some (.reduce 52) := by decide
theorem a33A : T.action 33 25 = some (.reduce 52) := by decide
theorem a33n : T.action 33 55 = some (.reduce 52) := by decide
theorem a33s : T.action 33 53 = some (.reduce 52) := by decide
theorem a33b : T.action 33 52 = some (.reduce 52) := by decide
theorem a33a : T.action 33 31 = some (.reduce 52) := by decide
theorem a33o : T.action 33 32 = some (.reduce 52) := by decide
theorem a29A : T.action 29 25 = some (.reduce 51) := by decide
theorem a17A : T.action 17 25 = some (.reduce 56) := by decide
theorem a75A : T.action 75 25 = some (.reduce 51) := by decide
theorem a74A : T.action 74 25 = some (.reduce 57) := by decide
theorem a62A : T.action 62 25 = some (.reduce 167) := by decide
theorem a63A : T.action 63 25 = some (.reduce 167) := by decide
theorem a64A : T.action 64 25 = some (.reduce 167) := by decide
theorem a81A : T.action 81 25 = some (.reduce 146) := by decide

/-! redirections `>` (57: 46, 118, p13), `<` (56: 47, 119, p14), `>>` (33: 48, 120, p19); state 34, p53 -/
theorem symGT : TokType.GREATER.sym = 57 := by decide
theorem symLT : TokType.LESS.sym = 56 := by decide
theorem symGG : TokType.GREATER_GREATER.sym = 33 := by decide
theorem g13_62 : T.goto 13 62 = some 34 := by decide
theorem d34 : T.dflt 34 = none := by decide
theorem p53 : T.prods[53]? = some (63, [62]) := by decide
theorem f53 : Gen.prodFuncs.getD 53 "" = "p_simple_command_element" := by decide
theorem a13r57 : T.action 13 57 = some (.shift 46) := by decide
theorem d46 : T.dflt 46 = none := by decide
theorem d118 : T.dflt 118 = none := by decide
theorem a46w : T.action 46 24 = some (.shift 118) := by decide
theorem p13 : T.prods[13]? = some (62, [57, 24]) := by decide
theorem f13 : Gen.prodFuncs.getD 13 "" = "p_redirection" := by decide
theorem a118w : T.action 118 24 = some (.reduce 13) := by decide
theorem a118A : T.action 118 25 = some (.reduce 13) := by decide
theorem a118g : T.action 118 57 = some (.reduce 13) := by decide
theorem a118l : T.action 118 56 = some (.reduce 13) := by decide
theorem a118G : T.action 118 33 = some (.reduce 13) := by decide
theorem a118n : T.action 118 55 = some (.reduce 13) := by decide
theorem a118s : T.action 118 53 = some (.reduce 13) := by decide
theorem a118b : T.action 118 52 = some (.reduce 13) := by decide
theorem a118a : T.action 118 31 = some (.reduce 13) := by decide
theorem a118o : T.action 118 32 = some (.reduce 13) := by decide
theorem a13r56 : T.action 13 56 = some (.shift 47) := by decide
theorem d47 : T.dflt 47 = none := by decide
theorem d119 : T.dflt 119 = none := by decide
theorem a47w : T.action 47 24 = some (.shift 119) := by decide
theorem p14 : T.prods[14]? = some (62, [56, 24]) := by decide
theorem f14 : Gen.prodFuncs.getD 14 "" = "p_redirection" := by decide
theorem a119w : T.action 119 24 = some (.reduce 14) := by decide
theorem a119A : T.action 119 25 = some (.reduce 14) := by decide
theorem a119g : T.action 119 57 = some (.reduce 14) := by decide
theorem a119l : T.action 119 56 = some (.reduce 14) := by decide
theorem a119G : T.action 119 33 = some (.reduce 14) := by decide
theorem a119n : T.action 119 55 = some (.reduce 14) := by decide
theorem a119s : T.action 119 53 = some (.reduce 14) := by decide
theorem a119b : T.action 119 52 = some (.reduce 14) := by decide
theorem a119a : T.action 119 31 = some (.reduce 14) := by decide
theorem a119o : T.action 119 32 = some (.reduce 14) := by decide
theorem a13r33 : T.action 13 33 = some (.shift 48) := by decide
theorem d48 : T.dflt 48 = none := by decide
theorem d120 : T.dflt 120 = none := by decide
theorem a48w : T.action 48 24 = some (.shift 120) := by decide
theorem p19 : T.prods[19]? = some (62, [33, 24]) := by decide
theorem f19 : Gen.prodFuncs.getD 19 "" = "p_redirection" := by decide
theorem a120w : T.action 120 24 = some (.reduce 19) := by decide
theorem a120A : T.action 120 25 = some (.reduce 19) := by decide
theorem a120g : T.action 120 57 = some (.reduce 19) := by decide
theorem a120l : T.action 120 56 = some (.reduce 19) := by decide
theorem a120G : T.action 120 33 = some (.reduce 19) := by decide
theorem a120n : T.action 120 55 = some (.reduce 19) := by decide
theorem a120s : T.action 120 53 = some (.reduce 19) := by decide
theorem a120b : T.action 120 52 = some (.reduce 19) := by decide
theorem a120a : T.action 120 31 = some (.reduce 19) := by decide
theorem a120o : T.action 120 32 = some (.reduce 19) := by decide
theorem a34w : T.action 34 24 = some (.reduce 53) := by decide
theorem a34A : T.action 34 25 = some (.reduce 53) := by decide
theorem a34g : T.action 34 57 = some (.reduce 53) := by decide
theorem a34l : T.action 34 56 = some (.reduce 53) := by decide
theorem a34G : T.action 34 33 = some (.reduce 53) := by decide
theorem a34n : T.action 34 55 = some (.reduce 53) := by decide
theorem a34s : T.action 34 53 = some (.reduce 53) := by decide
theorem a34b : T.action 34 52 = some (.reduce 53) := by decide
theorem a34a : T.action 34 31 = some (.reduce 53) := by decide
theorem a34o : T.action 34 32 = some (.reduce 53) := by decide
theorem a29g : T.action 29 57 = some (.reduce 51) := by decide
theorem a17g : T.action 17 57 = some (.reduce 56) := by decide
theorem a75g : T.action 75 57 = some (.reduce 51) := by decide
theorem a74g : T.action 74 57 = some (.reduce 57) := by decide
theorem a33g : T.action 33 57 = some (.reduce 52) := by decide
theorem a29l : T.action 29 56 = some (.reduce 51) := by decide
theorem a17l : T.action 17 56 = some (.reduce 56) := by decide
theorem a75l : T.action 75 56 = some (.reduce 51) := by decide
theorem a74l : T.action 74 56 = some (.reduce 57) := by decide
theorem a33l : T.action 33 56 = some (.reduce 52) := by decide
theorem a29G : T.action 29 33 = some (.reduce 51) := by decide
theorem a17G : T.action 17 33 = some (.reduce 56) := by decide
theorem a75G : T.action 75 33 = some (.reduce 51) := by decide
theorem a74G : T.action 74 33 = some (.reduce 57) := by decide
theorem a33G : T.action 33 33 = some (.reduce 52) := by decide

/-! first-item redirections -/
theorem a0g : T.action 0 57 = some (.shift 46) := by decide
theorem a0l : T.action 0 56 = some (.shift 47) := by decide
theorem a0G : T.action 0 33 = some (.shift 48) := by decide
theorem g0_62 : T.goto 0 62 = some 34 := by decide
theorem a61g : T.action 61 57 = some (.shift 46) := by decide
theorem a61l : T.action 61 56 = some (.shift 47) := by decide
theorem a61G : T.action 61 33 = some (.shift 48) := by decide
theorem g61_62 : T.goto 61 62 = some 34 := by decide
theorem a134g : T.action 134 57 = some (.shift 46) := by decide
theorem a134l : T.action 134 56 = some (.shift 47) := by decide
theorem a134G : T.action 134 33 = some (.shift 48) := by decide
theorem g134_62 : T.goto 134 62 = some 34 := by decide
theorem a135g : T.action 135 57 = some (.shift 46) := by decide
theorem a135l : T.action 135 56 = some (.shift 47) := by decide
theorem a135G : T.action 135 33 = some (.shift 48) := by decide
theorem g135_62 : T.goto 135 62 = some 34 := by decide
theorem a136g : T.action 136 57 = some (.shift 46) := by decide
theorem a136l : T.action 136 56 = some (.shift 47) := by decide
theorem a136G : T.action 136 33 = some (.shift 48) := by decide
theorem g136_62 : T.goto 136 62 = some 34 := by decide
theorem a62g : T.action 62 57 = some (.reduce 167) := by decide
theorem a62l : T.action 62 56 = some (.reduce 167) := by decide
theorem a62G : T.action 62 33 = some (.reduce 167) := by decide
theorem a63g : T.action 63 57 = some (.reduce 167) := by decide
theorem a63l : T.action 63 56 = some (.reduce 167) := by decide
theorem a63G : T.action 63 33 = some (.reduce 167) := by decide
theorem a64g : T.action 64 57 = some (.reduce 167) := by decide
theorem a64l : T.action 64 56 = some (.reduce 167) := by decide
theorem a64G : T.action 64 33 = some (.reduce 167) := by decide
theorem a81g : T.action 81 57 = some (.reduce 146) := by decide
theorem a81l : T.action 81 56 = some (.reduce 146) := by decide
theorem a81G : T.action 81 33 = some (.reduce 146) := by decide

/-! file-descriptor prefixes -/
theorem a29N : T.action 29 27 = some (.reduce 51) := by decide
theorem a33N : T.action 33 27 = some (.reduce 52) := by decide
theorem a75N : T.action 75 27 = some (.reduce 51) := by decide
theorem a74N : T.action 74 27 = some (.reduce 57) := by decide
theorem a17N : T.action 17 27 = some (.reduce 56) := by decide
theorem a34N : T.action 34 27 = some (.reduce 53) := by decide
theorem a118N : T.action 118 27 = some (.reduce 13) := by decide
theorem a119N : T.action 119 27 = some (.reduce 14) := by decide
theorem a120N : T.action 120 27 = some (.reduce 19) := by decide
theorem a165w : T.action 165 24 = some (.reduce 15) := by decide
theorem a165A : T.action 165 25 = some (.reduce 15) := by decide
theorem a165n : T.action 165 55 = some (.reduce 15) := by decide
theorem a165s : T.action 165 53 = some (.reduce 15) := by decide
theorem a165b : T.action 165 52 = some (.reduce 15) := by decide
theorem a165a : T.action 165 31 = some (.reduce 15) := by decide
theorem a165o : T.action 165 32 = some (.reduce 15) := by decide
theorem a165g : T.action 165 57 = some (.reduce 15) := by decide
theorem a165l : T.action 165 56 = some (.reduce 15) := by decide
theorem a165G : T.action 165 33 = some (.reduce 15) := by decide
theorem a165N : T.action 165 27 = some (.reduce 15) := by decide
theorem d165 : T.dflt 165 = none := by decide
theorem a166w : T.action 166 24 = some (.reduce 16) := by decide
theorem a166A : T.action 166 25 = some (.reduce 16) := by decide
theorem a166n : T.action 166 55 = some (.reduce 16) := by decide
theorem a166s : T.action 166 53 = some (.reduce 16) := by decide
theorem a166b : T.action 166 52 = some (.reduce 16) := by decide
theorem a166a : T.action 166 31 = some (.reduce 16) := by decide
theorem a166o : T.action 166 32 = some (.reduce 16) := by decide
theorem a166g : T.action 166 57 = some (.reduce 16) := by decide
theorem a166l : T.action 166 56 = some (.reduce 16) := by decide
theorem a166G : T.action 166 33 = some (.reduce 16) := by decide
theorem a166N : T.action 166 27 = some (.reduce 16) := by decide
theorem d166 : T.dflt 166 = none := by decide
theorem a167w : T.action 167 24 = some (.reduce 20) := by decide
theorem a167A : T.action 167 25 = some (.reduce 20) := by decide
theorem a167n : T.action 167 55 = some (.reduce 20) := by decide
theorem a167s : T.action 167 53 = some (.reduce 20) := by decide
theorem a167b : T.action 167 52 = some (.reduce 20) := by decide
theorem a167a : T.action 167 31 = some (.reduce 20) := by decide
theorem a167o : T.action 167 32 = some (.reduce 20) := by decide
theorem a167g : T.action 167 57 = some (.reduce 20) := by decide
theorem a167l : T.action 167 56 = some (.reduce 20) := by decide
theorem a167G : T.action 167 33 = some (.reduce 20) := by decide
theorem a167N : T.action 167 27 = some (.reduce 20) := by decide
theorem d167 : T.dflt 167 = none := by decide
theorem a0N : T.action 0 27 = some (.shift 43) := by decide
theorem a61N : T.action 61 27 = some (.shift 43) := by decide
theorem a134N : T.action 134 27 = some (.shift 43) := by decide
theorem a135N : T.action 135 27 = some (.shift 43) := by decide
theorem a136N : T.action 136 27 = some (.shift 43) := by decide
theorem a13N : T.action 13 27 = some (.shift 43) := by decide
theorem a62N : T.action 62 27 = some (.reduce 167) := by decide
theorem a63N : T.action 63 27 = some (.reduce 167) := by decide
theorem a64N : T.action 64 27 = some (.reduce 167) := by decide
theorem a81N : T.action 81 27 = some (.reduce 146) := by decide
theorem d43 : T.dflt 43 = none := by decide
theorem a43g : T.action 43 57 = some (.shift 99) := by decide
theorem d99 : T.dflt 99 = none := by decide
theorem a99w : T.action 99 24 = some (.shift 165) := by decide
theorem a43l : T.action 43 56 = some (.shift 100) := by decide
theorem d100 : T.dflt 100 = none := by decide
theorem a100w : T.action 100 24 = some (.shift 166) := by decide
theorem a43G : T.action 43 33 = some (.shift 101) := by decide
theorem d101 : T.dflt 101 = none := by decide
theorem a101w : T.action 101 24 = some (.shift 167) := by decide
theorem p15 : T.prods[15]? = some (62, [27, 57, 24]) := by decide
theorem f15 : Gen.prodFuncs.getD 15 "" = "p_redirection" := by decide
theorem p16 : T.prods[16]? = some (62, [27, 56, 24]) := by decide
theorem f16 : Gen.prodFuncs.getD 16 "" = "p_redirection" := by decide
theorem p20 : T.prods[20]? = some (62, [27, 33, 24]) := by decide
theorem f20 : Gen.prodFuncs.getD 20 "" = "p_redirection" := by decide
theorem symNUM : TokType.NUMBER.sym = 27 := by decide

end Bashlex.C02.Tab
