/-
  C02 (round trip), part 15: sequences with MIXED operators `;`, `&&`, `||` between simple
  commands.  `&&` and `||` bind tighter than `;` (and are left-associative): while an and-or group
  after a `;` is under construction the engine keeps `simple_list1 ;` below it (state 133), and
  folds it into the flat list when the next `;` or the newline arrives.
-/
import Bashlex.Props.C02.Seq

namespace Bashlex.C02
open Bashlex Bashlex.M Bashlex.LR
set_option linter.unusedSimpArgs false
set_option linter.unusedVariables false

inductive Op where
  | semi | andand | oror
  deriving DecidableEq, Repr

namespace Op
def txt : Op → Str
  | semi => [';'] | andand => ['&', '&'] | oror => ['|', '|']
def sym : Op → Nat
  | semi => 53 | andand => 31 | oror => 32
def tok (o : Op) (a : Nat) : Token :=
  match o with
  | semi => semiTok a | andand => andTok a | oror => orTok a

theorem tok_lexpos (o : Op) (a : Nat) : (o.tok a).lexpos = a := by cases o <;> rfl
theorem tok_endlexpos (o : Op) (a : Nat) : (o.tok a).endlexpos = a + o.txt.length := by
  cases o <;> rfl
theorem tok_valueStr (o : Op) (a : Nat) : (o.tok a).valueStr = o.txt := by cases o <;> rfl
theorem tok_sym (o : Op) (a : Nat) : symOfTok (o.tok a) = o.sym := by
  cases o
  · exact Tab.symSEMI
  · exact Tab.symAND
  · exact Tab.symOR
theorem tok_hist (o : Op) (a : Nat) : histOK (o.tok a) = true := by cases o <;> rfl
theorem txt_pos (o : Op) : 0 < o.txt.length := by cases o <;> decide
end Op

theorem termAND : TermOK 31 :=
  ⟨Tab.a29a, Tab.a17a, Tab.a75a, Tab.a74a, Tab.a13a, Tab.a11a, Tab.a8a, Tab.a7a⟩
theorem termOR : TermOK 32 :=
  ⟨Tab.a29o, Tab.a17o, Tab.a75o, Tab.a74o, Tab.a13o, Tab.a11o, Tab.a8o, Tab.a7o⟩
theorem Op.term (o : Op) : TermOK o.sym := by
  cases o
  · exact termSEMI
  · exact termAND
  · exact termOR

/-- the text `op₂ c₂ op₃ c₃ …` -/
def orestText : List (Op × SCmd) → Str
  | [] => []
  | (o, c) :: cs => o.txt ++ (c.text ++ orestText cs)

/-- its nodes, the first operator at offset `a` -/
def orestNodes (a : Nat) : List (Op × SCmd) → List Node
  | [] => []
  | (o, c) :: cs =>
    Node.operator (a, a + o.txt.length) o.txt :: c.node (a + o.txt.length) ::
      orestNodes (a + o.txt.length + c.text.length) cs

def olastEnd (e a : Nat) : List (Op × SCmd) → Nat
  | [] => e
  | (o, c) :: cs => olastEnd (c.endPos (a + o.txt.length)) (a + o.txt.length + c.text.length) cs

section
variable {L : Str} {adn : Bool}

theorem fetchTerm_op (hlen : L.length + 2 ≤ 1073741824) (o : Op) {trail rest : Str} {d : Char}
    (htrail : Blank trail) {e : Nat} (hL : L.drop e = trail ++ (o.txt ++ d :: rest))
    (hd1 : d ≠ ';') (hd2 : d ≠ '&') (hd3 : d ≠ '\\') :
    FetchTerm L adn (o.tok (e + trail.length)) e (e + trail.length + o.txt.length) := by
  intro l0 Q hl0 hc hQ
  cases o with
  | semi =>
    exact tot_nextToken_semi hl0.wok hl0.dp htrail (by simpa [Op.txt] using hL) hd1 hd2 hd3 hlen
      (hQ _ (hl0.afterNL hc _) rfl)
  | andand =>
    exact tot_nextToken_and hl0.wok hl0.dp htrail (by simpa [Op.txt] using hL) hlen
      (hQ _ (hl0.afterNL hc _) rfl)
  | oror =>
    exact tot_nextToken_or hl0.wok hl0.dp htrail (by simpa [Op.txt] using hL) hlen
      (hQ _ (hl0.afterNL hc _) rfl)

theorem op_endChar (o : Op) : ∃ x r, o.txt = x :: r ∧ endChar x = true := by
  cases o
  · exact ⟨';', [], rfl, by decide⟩
  · exact ⟨'&', ['&'], rfl, by decide⟩
  · exact ⟨'|', ['|'], rfl, by decide⟩

theorem Op.a193 (o : Op) : Tab.T.action 193 o.sym = some (.reduce 151) := by
  cases o
  · exact Tab.a193s
  · exact Tab.a193a
  · exact Tab.a193o
theorem Op.a194 (o : Op) : Tab.T.action 194 o.sym = some (.reduce 152) := by
  cases o
  · exact Tab.a194s
  · exact Tab.a194a
  · exact Tab.a194o

/-- what follows a command: trailing blanks, then NEWLINE (last command) or an operator -/
theorem next_termO (hlen : L.length + 2 ≤ 1073741824) (cs : List (Op × SCmd))
    (hcs : ∀ x ∈ cs, x.2.OK) {trail nlr : Str} (htrail : Blank trail) {e : Nat}
    (hL : L.drop e = trail ++ (orestText cs ++ '\n' :: nlr)) :
    ∃ (ts : Nat) (term : Token) (b0 : Char) (r0 : Str) (iT : Nat), TermOK ts ∧ symOfTok term = ts ∧
      Tab.T.action 193 ts = some (.reduce 151) ∧ Tab.T.action 194 ts = some (.reduce 152) ∧
      trail ++ (orestText cs ++ '\n' :: nlr) = b0 :: r0 ∧ endChar b0 = true ∧
      FetchTerm L adn term e iT ∧ histOK term = true ∧
      (cs = [] → ts = 55) ∧
      (∀ o c cs', cs = (o, c) :: cs' → ts = o.sym ∧ term = o.tok (e + trail.length) ∧
          iT = e + trail.length + o.txt.length ∧
          L.drop iT = c.text ++ (orestText cs' ++ '\n' :: nlr)) := by
  cases cs with
  | nil =>
    have hL' : L.drop e = trail ++ '\n' :: nlr := by simpa [orestText] using hL
    obtain ⟨b0, r0, h0, hb0⟩ := head_app htrail (x := '\n') (by decide) nlr
    exact ⟨55, nlTok (e + trail.length), b0, r0, e + trail.length + 1, termNL, symOfTok_nl _,
      Tab.a193n, Tab.a194n, by simpa [orestText] using h0, hb0, fetchTerm_nl hlen htrail hL', rfl,
      fun _ => rfl, fun o c cs' h => by cases h⟩
  | cons oc cs' =>
    obtain ⟨o, c⟩ := oc
    obtain ⟨d, r, hd, hd1, hd2, hd3⟩ := text_head (hcs (o, c) (List.mem_cons_self ..))
    obtain ⟨x, xr, hx, hxe⟩ := op_endChar o
    have hL' : L.drop e = trail ++ (o.txt ++ d :: (r ++ (orestText cs' ++ '\n' :: nlr))) := by
      rw [hL]; simp [orestText, hd]
    have hnext : L.drop (e + trail.length + o.txt.length) =
        c.text ++ (orestText cs' ++ '\n' :: nlr) := by
      have := congrArg (List.drop (trail.length + o.txt.length)) hL'
      rw [List.drop_drop] at this
      rw [Nat.add_assoc, this, hd]
      have e2 : trail ++ (o.txt ++ d :: (r ++ (orestText cs' ++ '\n' :: nlr))) =
          (trail ++ o.txt) ++ (d :: (r ++ (orestText cs' ++ '\n' :: nlr))) := by simp
      rw [e2, List.drop_left' (by simp)]
      simp
    obtain ⟨b0, r0, h0, hb0⟩ := head_app htrail (x := x) hxe
      (xr ++ d :: (r ++ (orestText cs' ++ '\n' :: nlr)))
    refine ⟨o.sym, o.tok (e + trail.length), b0, r0, e + trail.length + o.txt.length, o.term,
      Op.tok_sym o _, o.a193, o.a194, ?_, hb0, fetchTerm_op hlen o htrail hL' hd1 hd2 hd3,
      Op.tok_hist o _, fun h => (by cases h), ?_⟩
    · rw [← h0]; simp [orestText, hd, hx]
    · intro o2 c2 cs2 h
      cases h
      exact ⟨rfl, rfl, rfl, hnext⟩

variable {np : NestedParse} {P : Res SVal → Local → Tape → Prop} {nlr : Str}

/-- what lies under the and-or group under construction: nothing, or `simple_list1 ;` -/
abbrev Under := Option (List Node × Token × Tree × Tree)

def bstack : Under → Stack SVal
  | none => []
  | some (Lacc, s, t1, t2) => [⟨61, t2, .tok s⟩, ⟨6, t1, .nodes Lacc⟩]

def slOf : Under → Nat
  | none => 6
  | some _ => 133

/-- the flat list so far -/
def total : Under → List Node → List Node
  | none, G => G
  | some (Lacc, s, _, _), G => Lacc ++ [Node.operator (s.lexpos, s.endlexpos) s.valueStr] ++ G

def bcost : Under → Nat
  | none => 0
  | some _ => 1

theorem goto_bstack (B : Under) : Tab.T.goto (topState (bstack B)) 93 = some (slOf B) := by
  cases B with
  | none => exact Tab.g0_93
  | some x => exact Tab.g61_93

theorem slOf_dflt (B : Under) : Tab.T.dflt (slOf B) = none := by
  cases B with
  | none => exact Tab.d6
  | some x => exact Tab.d133

theorem slOf_ne0 (B : Under) : (slOf B == 0) = false := by cases B <;> rfl

/-- fold `simple_list1 ; group` into the flat list (on `;` or NEWLINE) -/
theorem collapse {l : Local} {Tp : Tape} {B : Under} {G : List Node} {tr : Tree} {ts : Nat}
    {term : Token} {nl : Nat} {cons : List Nat} {f' : Nat}
    (hts : Tab.T.action 133 ts = some (.reduce 154))
    (hk : ∀ tr', Tot (engineLoop np f'
      { stack := [⟨6, tr', .nodes (total B G)⟩], la := some (ts, .tok term), nlShifted := nl,
        consumed := cons }) l Tp P) :
    Tot (engineLoop np (f' + bcost B)
      { stack := ⟨slOf B, tr, .nodes G⟩ :: bstack B, la := some (ts, .tok term), nlShifted := nl,
        consumed := cons }) l Tp P := by
  cases B with
  | none => exact hk tr
  | some x =>
    obtain ⟨Lacc, s, t1, t2⟩ := x
    show Tot (engineLoop np (f' + 1) _) _ _ _
    refine Tot.loop_step ?_
    refine R_reduce Tab.d133 rfl hts Tab.p154 rfl Tab.g0_93 Tab.f154 ?_
    refine act_simple_list1_3 ?_
    simp only [Bool.false_eq_true, if_false]
    exact hk _

/-- the table entries for an and-or operator -/
structure AOF (o : Op) (s1 s2 s3 prod : Nat) : Prop where
  a6 : Tab.T.action 6 o.sym = some (.shift s1)
  a133 : Tab.T.action 133 o.sym = some (.shift s1)
  d1 : Tab.T.dflt s1 = none
  n1 : (s1 == 0) = false
  aw : Tab.T.action s1 24 = some (.reduce 167)
  g97 : Tab.T.goto s1 97 = some 81
  g91 : Tab.T.goto s1 91 = some s2
  d2 : Tab.T.dflt s2 = none
  n2 : (s2 == 0) = false
  a2w : Tab.T.action s2 24 = some (.shift 29)
  base : BaseOK s2 s3
  d3 : Tab.T.dflt s3 = none
  n3 : (s3 == 0) = false
  p : Tab.T.prods[prod]? = some (93, [93, o.sym, 91, 93])
  f : Gen.prodFuncs.getD prod "" = "p_simple_list1"

theorem aofAnd : AOF .andand 62 134 193 151 :=
  ⟨Tab.a6a, Tab.a133a, Tab.d62, rfl, Tab.a62w, Tab.g62_97, Tab.g62_91, Tab.d134, rfl, Tab.a134w,
   ⟨Tab.g134_63, Tab.g134_65, Tab.g134_66, Tab.g134_95, Tab.g134_94, Tab.g134_93⟩, Tab.d193, rfl,
   Tab.p151, Tab.f151⟩
theorem aofOr : AOF .oror 63 135 194 152 :=
  ⟨Tab.a6o, Tab.a133o, Tab.d63, rfl, Tab.a63w, Tab.g63_97, Tab.g63_91, Tab.d135, rfl, Tab.a135w,
   ⟨Tab.g135_63, Tab.g135_65, Tab.g135_66, Tab.g135_95, Tab.g135_94, Tab.g135_93⟩, Tab.d194, rfl,
   Tab.p152, Tab.f152⟩

theorem slOf_shift {o : Op} {s1 s2 s3 prod : Nat} (hA : AOF o s1 s2 s3 prod) (B : Under) :
    Tab.T.action (slOf B) o.sym = some (.shift s1) := by
  cases B with
  | none => exact hA.a6
  | some x => exact hA.a133

/-- **one and-or step**: `op` in hand on top of the group `G`; the next command is read and the
    group becomes `G ++ [op, cmd]` -/
theorem andor_step (hlen : L.length + 2 ≤ 1073741824) {o : Op} {s1 s2 s3 prod : Nat}
    (hA : AOF o s1 s2 s3 prod) {B : Under} {G : List Node} {c : SCmd} {l : Local} {a f' nl : Nat}
    {cons : List Nat} {tr : Tree} {ts' : Nat} {term' : Token} {iT : Nat} {X : Str} {b0 : Char}
    {r0 : Str}
    (hc : c.OK) (hl : POK l) (hcur : l.currentToken = o.tok a)
    (hLc : L.drop (a + o.txt.length) = c.text ++ X)
    (hT' : TermOK ts') (hts' : symOfTok term' = ts')
    (h3 : Tab.T.action s3 ts' = some (.reduce prod))
    (hR : c.trail ++ X = b0 :: r0) (hb0 : endChar b0 = true)
    (hfetch' : FetchTerm L adn term' (c.endPos (a + o.txt.length)) iT)
    (hk : ∀ tr' nl' cons' l', POK l' → l'.currentToken = term' → Tot (engineLoop np f'
      { stack := ⟨slOf B, tr', .nodes (G ++ [Node.operator (a, a + o.txt.length) o.txt] ++
          [c.node (a + o.txt.length)])⟩ :: bstack B,
        la := some (ts', .tok term'), nlShifted := nl', consumed := cons' }) l' ⟨L, iT, adn⟩ P) :
    Tot (engineLoop np (f' + (5 + (3 * c.items.length + 6)))
      { stack := ⟨slOf B, tr, .nodes G⟩ :: bstack B, la := some (o.sym, .tok (o.tok a)),
        nlShifted := nl, consumed := cons }) l ⟨L, a + o.txt.length, adn⟩ P := by
  obtain ⟨bb, r', hbr, hb⟩ := after_word' c.items hc.items hR hb0
  have hLw := drop_text hLc
  have hL1 : L.drop (a + o.txt.length) = c.lead ++ c.w1 ++ bb :: r' := by
    rw [hLc, ← hbr]; simp [SCmd.text, lineText]
  have e : f' + (5 + (3 * c.items.length + 6)) = ((f' + 1) + (3 * c.items.length + 6)) + 4 := by omega
  rw [e]
  have hcurh : histOK l.currentToken = true := by rw [hcur]; exact Op.tok_hist o a
  refine Tot.loop_step ?_
  refine R_shift (slOf_dflt B) (slOf_ne0 B) (slOf_shift hA B) ?_
  refine Tot.loop_step ?_
  refine R_fetch hA.d1 ?_
  refine tot_nextToken_word hl.wok hcurh hl.hist hc.w1 hb hc.lead hL1 hlen (fun _ => hc.nr) ?_
  rw [symOfTok_word]
  refine R_reduce hA.d1 hA.n1 hA.aw Tab.p167 rfl hA.g97 Tab.f167 ?_
  refine act_empty ?_
  simp only [Bool.false_eq_true, if_false]
  refine Tot.loop_step ?_
  refine R_reduce Tab.d81 rfl Tab.a81w Tab.p146 rfl hA.g91 Tab.f146 ?_
  refine act_newline_list ?_
  simp only [Bool.false_eq_true, if_false]
  refine Tot.loop_step ?_
  refine R_shift hA.d2 hA.n2 hA.a2w ?_
  refine cmd_run (b := s2) (g93 := s3) rfl hA.base hT' hts' hlen hR hb0 hc.items hc.w1
    (hl.afterTok hcurh _) rfl hLw hfetch' rfl ?_
  intro tr' nl' cons' l' hl' hcur'
  refine Tot.loop_step ?_
  refine R_reduce hA.d3 hA.n3 h3 hA.p rfl (goto_bstack B) hA.f ?_
  refine act_simple_list1_4 ?_
  simp only [Bool.false_eq_true, if_false]
  have hk' := fun tr'' => hk tr'' nl' cons' l' hl' hcur'
  simp only [SCmd.node, cmdNode, SCmd.endPos] at hk'
  rw [Op.tok_lexpos, Op.tok_endlexpos, Op.tok_valueStr]
  exact hk' _

/-- **one `;` step** from the flat configuration: the next command is read over `simple_list1 ;` -/
theorem semi_step (hlen : L.length + 2 ≤ 1073741824) {acc : List Node} {c : SCmd} {l : Local}
    {a f' nl : Nat} {cons : List Nat} {tr : Tree} {ts' : Nat} {term' : Token} {iT : Nat} {X : Str}
    {b0 : Char} {r0 : Str}
    (hc : c.OK) (hl : POK l) (hcur : l.currentToken = semiTok a)
    (hLc : L.drop (a + 1) = c.text ++ X)
    (hT' : TermOK ts') (hts' : symOfTok term' = ts')
    (hR : c.trail ++ X = b0 :: r0) (hb0 : endChar b0 = true)
    (hfetch' : FetchTerm L adn term' (c.endPos (a + 1)) iT)
    (hk : ∀ tr' t2 nl' cons' l', POK l' → l'.currentToken = term' → Tot (engineLoop np f'
      { stack := ⟨slOf (some (acc, semiTok a, tr, t2)), tr', .nodes [c.node (a + 1)]⟩ ::
          bstack (some (acc, semiTok a, tr, t2)),
        la := some (ts', .tok term'), nlShifted := nl', consumed := cons' }) l' ⟨L, iT, adn⟩ P) :
    Tot (engineLoop np (f' + (2 + (3 * c.items.length + 6)))
      { stack := [⟨6, tr, .nodes acc⟩], la := some (53, .tok (semiTok a)),
        nlShifted := nl, consumed := cons }) l ⟨L, a + 1, adn⟩ P := by
  obtain ⟨bb, r', hbr, hb⟩ := after_word' c.items hc.items hR hb0
  have hLw := drop_text hLc
  have hL1 : L.drop (a + 1) = c.lead ++ c.w1 ++ bb :: r' := by
    rw [hLc, ← hbr]; simp [SCmd.text, lineText]
  have e : f' + (2 + (3 * c.items.length + 6)) = (f' + (3 * c.items.length + 6)) + 2 := by omega
  rw [e]
  have hcurh : histOK l.currentToken = true := by rw [hcur]; rfl
  refine Tot.loop_step ?_
  refine R_shift Tab.d6 rfl Tab.a6s ?_
  refine Tot.loop_step ?_
  refine R_fetch Tab.d61 ?_
  refine tot_nextToken_word hl.wok hcurh hl.hist hc.w1 hb hc.lead hL1 hlen (fun _ => hc.nr) ?_
  rw [symOfTok_word]
  refine R_shift Tab.d61 rfl Tab.a61w ?_
  refine cmd_run (b := 61) (g93 := 133) rfl base61 hT' hts' hlen hR hb0 hc.items hc.w1
    (hl.afterTok hcurh _) rfl hLw hfetch' rfl ?_
  intro tr' nl' cons' l' hl' hcur'
  have hk' := fun tr'' t2 => hk tr'' t2 nl' cons' l' hl' hcur'
  simp only [SCmd.node, cmdNode, SCmd.endPos, slOf, bstack] at hk'
  exact hk' _ _

def ocost : Nat → List (Op × SCmd) → Nat
  | k, [] => k + 4
  | k, (o, c) :: cs =>
    match o with
    | .semi => k + (2 + (3 * c.items.length + 6)) + ocost 1 cs
    | _ => (5 + (3 * c.items.length + 6)) + ocost k cs

theorem total_last {B : Under} {G : List Node} {x : Node} (h : G.getLast? = some x) :
    (total B G).getLast? = some x := by
  cases B with
  | none => exact h
  | some y =>
    obtain ⟨Lacc, s, t1, t2⟩ := y
    have hne : G ≠ [] := by intro h0; rw [h0] at h; cases h
    simp only [total]
    rw [List.getLast?_append, h]
    rfl

theorem total_append (B : Under) (G X : List Node) : total B (G ++ X) = total B G ++ X := by
  cases B with
  | none => rfl
  | some y => obtain ⟨Lacc, s, t1, t2⟩ := y; simp [total]

/-- **the commands after the first**, operators `;`, `&&`, `||` mixed -/
theorem run_restO (hlen : L.length + 2 ≤ 1073741824) {pF : Span} {nF : List Node} :
    ∀ (cs : List (Op × SCmd)) (B : Under) (G : List Node) (ts : Nat) (term : Token) (l : Local)
      (idx a f nl : Nat) (cons : List Nat) (tr : Tree) (pL : Span) (nL : List Node),
      (∀ x ∈ cs, x.2.OK) → POK l → l.currentToken = term → histOK term = true → symOfTok term = ts →
      (cs = [] → ts = 55) →
      (∀ o c cs', cs = (o, c) :: cs' → ts = o.sym ∧ term = o.tok a ∧ idx = a + o.txt.length ∧
        L.drop idx = c.text ++ (orestText cs' ++ '\n' :: nlr)) →
      (total B G).head? = some (Node.command pF nF) → G.getLast? = some (Node.command pL nL) →
      (∀ r l' T', ResIs (mkSeq pF.1 (olastEnd pL.2 a cs) (total B G ++ orestNodes a cs)) r →
        P r l' T') →
      Tot (engineLoop np (f + ocost (bcost B) cs)
        { stack := ⟨slOf B, tr, .nodes G⟩ :: bstack B, la := some (ts, .tok term), nlShifted := nl,
          consumed := cons }) l ⟨L, idx, adn⟩ P := by
  intro cs
  induction cs with
  | nil =>
    intro B G ts term l idx a f nl cons tr pL nL hcs hl hcur hhist hts hnil hcons hh hla h
    have := hnil rfl
    subst this
    have e : f + ocost (bcost B) [] = (f + 4) + bcost B := by simp only [ocost]; omega
    rw [e]
    refine collapse Tab.a133n ?_
    intro tr'
    refine run_rest (nlr := nlr) hlen [] (total B G) 55 term l idx a f nl cons tr' pF pL nF nL
      (fun _ h => by cases h) hl hcur hhist hts (fun _ => rfl) (fun c cs' h => by cases h) hh
      (total_last hla) ?_
    intro r l' T' hr
    exact h r l' T' (by simpa [restNodes, lastEnd, orestNodes, olastEnd] using hr)
  | cons oc cs' ih =>
    intro B G ts term l idx a f nl cons tr pL nL hcs hl hcur hhist hts hnil hcons hh hla h
    obtain ⟨o, c⟩ := oc
    obtain ⟨rfl, rfl, rfl, hLc⟩ := hcons o c cs' rfl
    have hc : c.OK := hcs (o, c) (List.mem_cons_self ..)
    have hcs' : ∀ x ∈ cs', x.2.OK := fun x hx => hcs x (List.mem_cons_of_mem _ hx)
    have hLend := drop_text_end hLc
    obtain ⟨ts', term', b0, r0, iT, hT', hts', h193, h194, hR, hb0, hfetch', hhist', hnil', hcons'⟩ :=
      next_termO (adn := adn) hlen cs' hcs' hc.trail hLend
    have ea : c.endPos (a + o.txt.length) + c.trail.length = a + o.txt.length + c.text.length :=
      endPos_trail c (a + o.txt.length)
    have hcons'' : ∀ o2 c2 cs2, cs' = (o2, c2) :: cs2 → ts' = o2.sym ∧
        term' = o2.tok (c.endPos (a + o.txt.length) + c.trail.length) ∧
        iT = c.endPos (a + o.txt.length) + c.trail.length + o2.txt.length ∧
        L.drop iT = c2.text ++ (orestText cs2 ++ '\n' :: nlr) := hcons'
    cases o with
    | semi =>
      have e : f + ocost (bcost B) ((Op.semi, c) :: cs') =
          ((f + ocost 1 cs') + (2 + (3 * c.items.length + 6))) + bcost B := by
        simp only [ocost]; omega
      rw [e]
      refine collapse Tab.a133s ?_
      intro tr'
      refine semi_step hlen hc hl hcur hLc hT' hts' hR hb0 hfetch' ?_
      intro tr2 t2 nl' cons' l' hl' hcur'
      refine ih (some (total B G, semiTok a, tr', t2)) [c.node (a + 1)] ts' term' l' iT
        (c.endPos (a + 1) + c.trail.length) f nl' cons' tr2
        (a + 1 + c.lead.length, c.endPos (a + 1)) _ hcs' hl' hcur' hhist' hts' hnil' hcons''
        (head_append_ne (head_append_ne hh)) (by simp [SCmd.node, cmdNode, SCmd.endPos]; rfl) ?_
      intro r l'' T'' hr
      refine h r l'' T'' ?_
      have ea' : c.endPos (a + 1) + c.trail.length = a + 1 + c.text.length := ea
      rw [ea'] at hr
      simpa [total, orestNodes, olastEnd, Op.txt, semiTok, Token.lexpos, Token.endlexpos,
        Token.valueStr, List.append_assoc, SCmd.node, cmdNode, SCmd.endPos] using hr
    | andand =>
      have e : f + ocost (bcost B) ((Op.andand, c) :: cs') =
          (f + ocost (bcost B) cs') + (5 + (3 * c.items.length + 6)) := by
        simp only [ocost]; omega
      rw [e]
      refine andor_step hlen aofAnd hc hl hcur hLc hT' hts' h193 hR hb0 hfetch' ?_
      intro tr2 nl' cons' l' hl' hcur'
      refine ih B _ ts' term' l' iT (c.endPos (a + Op.andand.txt.length) + c.trail.length) f nl'
        cons' tr2 (a + Op.andand.txt.length + c.lead.length, c.endPos (a + Op.andand.txt.length)) _
        hcs' hl' hcur' hhist' hts' hnil' hcons''
        (by rw [total_append, total_append]; exact head_append_ne (head_append_ne hh))
        (by simp [SCmd.node, cmdNode, SCmd.endPos]; rfl) ?_
      intro r l'' T'' hr
      refine h r l'' T'' ?_
      rw [ea, total_append, total_append] at hr
      simpa [orestNodes, olastEnd, List.append_assoc, SCmd.node, cmdNode, SCmd.endPos] using hr
    | oror =>
      have e : f + ocost (bcost B) ((Op.oror, c) :: cs') =
          (f + ocost (bcost B) cs') + (5 + (3 * c.items.length + 6)) := by
        simp only [ocost]; omega
      rw [e]
      refine andor_step hlen aofOr hc hl hcur hLc hT' hts' h194 hR hb0 hfetch' ?_
      intro tr2 nl' cons' l' hl' hcur'
      refine ih B _ ts' term' l' iT (c.endPos (a + Op.oror.txt.length) + c.trail.length) f nl'
        cons' tr2 (a + Op.oror.txt.length + c.lead.length, c.endPos (a + Op.oror.txt.length)) _
        hcs' hl' hcur' hhist' hts' hnil' hcons''
        (by rw [total_append, total_append]; exact head_append_ne (head_append_ne hh))
        (by simp [SCmd.node, cmdNode, SCmd.endPos]; rfl) ?_
      intro r l'' T'' hr
      refine h r l'' T'' ?_
      rw [ea, total_append, total_append] at hr
      simpa [orestNodes, olastEnd, List.append_assoc, SCmd.node, cmdNode, SCmd.endPos] using hr

/-- **the whole line `c₁ op₂ c₂ op₃ c₃ …`** (operators `;`, `&&`, `||`) from an empty stack -/
theorem run_seqO (hlen : L.length + 2 ≤ 1073741824) {c1 : SCmd} {cs : List (Op × SCmd)} {l : Local}
    {i f nl0 : Nat} {cons0 : List Nat} (hc1 : c1.OK) (hcs : ∀ x ∈ cs, x.2.OK) (hl : POK l)
    (hcur : histOK l.currentToken = true)
    (hL : L.drop i = c1.text ++ (orestText cs ++ '\n' :: nlr))
    (h : ∀ r l' T', ResIs (mkSeq (i + c1.lead.length) (olastEnd (c1.endPos i) (i + c1.text.length) cs)
        (c1.node i :: orestNodes (i + c1.text.length) cs)) r → P r l' T') :
    Tot (engineLoop np ((f + ocost 0 cs) + (3 * c1.items.length + 6) + 1)
      { stack := [], la := none, nlShifted := nl0, consumed := cons0 }) l ⟨L, i, adn⟩ P := by
  have hLend := drop_text_end hL
  obtain ⟨ts', term', b0, r0, iT, hT', hts', h193, h194, hR, hb0, hfetch', hhist', hnil', hcons'⟩ :=
    next_termO (adn := adn) hlen cs hcs hc1.trail hLend
  obtain ⟨bb, r', hbr, hb⟩ := after_word' c1.items hc1.items hR hb0
  have hLw := drop_text hL
  have hL1 : L.drop i = c1.lead ++ c1.w1 ++ bb :: r' := by
    rw [hL, ← hbr]; simp [SCmd.text, lineText]
  refine Tot.loop_step ?_
  refine R_fetch0 ?_
  refine tot_nextToken_word hl.wok hcur hl.hist hc1.w1 hb hc1.lead hL1 hlen (fun _ => hc1.nr) ?_
  rw [symOfTok_word]
  refine R_shift0 ?_
  refine cmd_run (base := []) (b := 0) (g93 := 6) rfl base0 hT' hts' hlen hR hb0 hc1.items hc1.w1
    (hl.afterTok hcur _) rfl hLw hfetch' rfl ?_
  intro tr' nl' cons' l' hl' hcur'
  have ea : c1.endPos i + c1.trail.length = i + c1.text.length := endPos_trail c1 i
  refine run_restO (nlr := nlr) (pF := (i + c1.lead.length, c1.endPos i)) hlen cs none _ ts' term' l' iT
    (c1.endPos i + c1.trail.length) f nl' cons' tr' (i + c1.lead.length, c1.endPos i) _
    hcs hl' hcur' hhist' hts' hnil' hcons' rfl rfl ?_
  intro r l'' T'' hr
  refine h r l'' T'' ?_
  rw [ea] at hr
  simpa [total, SCmd.node, cmdNode, SCmd.endPos] using hr

end

end Bashlex.C02
