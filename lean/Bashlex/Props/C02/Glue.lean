/-
  C02 (round trip), part 7: from the engine to `_parser.parse()` (`parserRun`), one top-level
  parser run (`runParser`) and the tree-level helpers (`resolve`, `_endfinder`).
-/
import Bashlex.Props.C02.Run
import Bashlex.Props.C07.Nested

namespace Bashlex.C02
open Bashlex Bashlex.M Bashlex.LR
set_option linter.unusedSimpArgs false
set_option linter.unusedVariables false

/-- a list of word nodes without parts -/
def AllWords (ns : List Node) : Prop := ∀ n ∈ ns, ∃ p s, n = Node.word p s []

theorem nodesI_allWords : ∀ (items : List (Str × Str)) (off : Nat), AllWords (nodesI off items)
  | [], _ => fun _ h => by cases h
  | (g, w) :: r, off => by
    intro n hn
    simp only [nodesI, List.mem_cons] at hn
    rcases hn with rfl | hn
    · exact ⟨_, _, rfl⟩
    · exact nodesI_allWords r _ n hn

theorem AllWords.cons {p : Span} {s : Str} {ns : List Node} (h : AllWords ns) :
    AllWords (Node.word p s [] :: ns) := by
  intro n hn
  simp only [List.mem_cons] at hn
  rcases hn with rfl | hn
  · exact ⟨_, _, rfl⟩
  · exact h n hn

theorem resolveL_words (store : List RedirCell) : ∀ (ns : List Node), AllWords ns →
    resolveL store ns = ns
  | [], _ => by simp [resolveL]
  | n :: r, h => by
    obtain ⟨p, s, rfl⟩ := h n (List.mem_cons_self ..)
    have ih := resolveL_words store r (fun m hm => h m (List.mem_cons_of_mem _ hm))
    simp [resolveL, resolve, ih]

theorem preorderL_words : ∀ (ns : List Node), AllWords ns → Node.preorderL ns = ns
  | [], _ => by simp [Node.preorderL]
  | n :: r, h => by
    obtain ⟨p, s, rfl⟩ := h n (List.mem_cons_self ..)
    have ih := preorderL_words r (fun m hm => h m (List.mem_cons_of_mem _ hm))
    simp [Node.preorderL, Node.preorder, ih]

theorem filterMap_words {β : Type} (f : Node → Option β) (hf : ∀ p s, f (Node.word p s []) = none) :
    ∀ (ns : List Node), AllWords ns → ns.filterMap f = []
  | [], _ => rfl
  | n :: r, h => by
    obtain ⟨p, s, rfl⟩ := h n (List.mem_cons_self ..)
    have ih := filterMap_words f hf r (fun m hm => h m (List.mem_cons_of_mem _ hm))
    simp [List.filterMap_cons, ih, hf]

theorem lastHeredocEnd_command {p : Span} {ns : List Node} (h : AllWords ns) :
    (Node.command p ns).lastHeredocEnd = none := by
  unfold Node.lastHeredocEnd
  simp only [Node.preorder, preorderL_words ns h, List.filterMap_cons]
  rw [filterMap_words _ (fun _ _ => rfl) ns h]

theorem nextIndex_command {p : Span} {ns : List Node} (h : AllWords ns) :
    nextIndex (Node.command p ns) = p.2 := by
  unfold nextIndex
  rw [lastHeredocEnd_command h]
  rfl

/-- the AST of the line: one command node over the word nodes -/
def cmdNode (i : Nat) (g1 w1 : Str) (items : List (Str × Str)) : Node :=
  Node.command (i + g1.length, endI (i + g1.length + w1.length) items)
    (Node.word (i + g1.length, i + g1.length + w1.length) w1 [] ::
      nodesI (i + g1.length + w1.length) items)

theorem cmdNode_words (i : Nat) (g1 w1 : Str) (items : List (Str × Str)) :
    AllWords (Node.word (i + g1.length, i + g1.length + w1.length) w1 [] ::
      nodesI (i + g1.length + w1.length) items) :=
  (nodesI_allWords items _).cons

/-- **`_parser.parse()` on a line of plain words** (any nesting budget ≥ 1): returns the command
    node; no exception -/
theorem tot_parserRun_line {L : Str} {adn : Bool} {tail g1 w1 : Str} {items : List (Str × Str)}
    {l : Local} {i d : Nat}
    (htail : Blank tail) (hlen : L.length + 2 ≤ 1073741824)
    (hg1 : Blank g1) (hw1 : PlainWord w1) (hnr : reservedFirstCommandChars.lookup w1 = none)
    (hi : ItemsOK items) (hl : POK l) (hcur : histOK l.currentToken = true)
    (hL : L.drop i = g1 ++ w1 ++ spellI items ++ tail ++ ['\n'])
    (hf : 3 * items.length + 14 ≤ 1073741824) :
    Tot (parserRun (d + 1)) l ⟨L, i, adn⟩ (fun r _ _ => r = some (cmdNode i g1 w1 items)) := by
  rw [C07.parserRun_succ]
  refine Tot.bind ?_
  show Tot (engineLoop (C07.nestedOf d) 1073741824 {}) _ _ _
  refine run_line htail hlen hg1 hw1 hnr hi hl hcur hL hf ?_
  intro r l' T' hr
  refine Tot.bind (Tot.get ?_)
  cases r with
  | blank a b => exact hr.elim
  | accepted v tr c b =>
    cases v with
    | node n =>
      have hn : n = _ := hr
      subst hn
      refine Tot.pure ?_
      show some (resolve l'.store (cmdNode i g1 w1 items)) = _
      unfold cmdNode
      rw [resolve, resolveL_words _ _ (cmdNode_words i g1 w1 items)]
    | none => exact hr.elim
    | tok _ => exact hr.elim
    | nodes _ => exact hr.elim

/-! ## one top-level parser run -/

theorem blank_ne_nl {y : Char} (h : shellblank y = true) : y ≠ '\n' := by
  intro hy; subst hy; revert h; decide

theorem spellI_noNL : ∀ (items : List (Str × Str)), ItemsOK items → ∀ c ∈ spellI items, c ≠ '\n'
  | [], _ => fun c hc => by cases hc
  | (g, w) :: r, hi => by
    intro c hc
    have hit := hi (g, w) (List.mem_cons_self ..)
    simp only [spellI, List.mem_append] at hc
    rcases hc with (hc | hc) | hc
    · exact blank_ne_nl (hit.1.2 c hc)
    · exact plain_ne' (by decide) (hit.2.2 c hc)
    · exact spellI_noNL r (fun x hx => hi x (List.mem_cons_of_mem _ hx)) c hc

theorem spellI_length : ∀ (items : List (Str × Str)), ItemsOK items →
    items.length ≤ (spellI items).length
  | [], _ => Nat.le_refl _
  | (g, w) :: r, hi => by
    have hit := hi (g, w) (List.mem_cons_self ..)
    have ih := spellI_length r (fun x hx => hi x (List.mem_cons_of_mem _ hx))
    have : 0 < w.length := List.length_pos_iff.mpr hit.2.1
    simp only [spellI, List.length_cons, List.length_append]
    omega

theorem endI_eq : ∀ (items : List (Str × Str)) (off : Nat), endI off items = off + (spellI items).length
  | [], off => by simp [endI, spellI]
  | (g, w) :: r, off => by
    simp only [endI, spellI, List.length_append, endI_eq r]
    omega

theorem ofInput_noNL {s : Str} (hne : s ≠ []) (h : ∀ c ∈ s, c ≠ '\n') :
    Tape.ofInput s = { line := s ++ ['\n'], idx := 0, added := true } := by
  unfold Tape.ofInput
  cases hl : s.getLast? with
  | none => simp [List.getLast?_eq_none_iff] at hl; exact absurd hl hne
  | some c =>
    have hc : c ∈ s := List.mem_of_getLast? hl
    have : (c == '\n') = false := by simpa using h c hc
    simp only [this, Bool.false_eq_true, if_false]

/-- the text of a line: leading blanks, first word, further items, trailing blanks -/
def lineText (g1 w1 : Str) (items : List (Str × Str)) (tail : Str) : Str :=
  g1 ++ w1 ++ spellI items ++ tail

theorem lineText_noNL {g1 w1 : Str} {items : List (Str × Str)} {tail : Str}
    (hg1 : Blank g1) (hw1 : PlainWord w1) (hi : ItemsOK items) (htail : Blank tail) :
    ∀ c ∈ lineText g1 w1 items tail, c ≠ '\n' := by
  intro c hc
  simp only [lineText, List.mem_append] at hc
  rcases hc with ((hc | hc) | hc) | hc
  · exact blank_ne_nl (hg1 c hc)
  · exact plain_ne' (by decide) (hw1.2 c hc)
  · exact spellI_noNL items hi c hc
  · exact blank_ne_nl (htail c hc)

theorem initial_POK (lim : Option Int) : POK { limit := lim } :=
  ⟨⟨rfl, rfl, rfl, rfl, rfl, rfl, rfl⟩, rfl, rfl, rfl, ⟨rfl, rfl, rfl⟩⟩

/-- **one top-level parser run on a line of plain words** returns the command node -/
theorem runParser_line {g1 w1 : Str} {items : List (Str × Str)} {tail : Str} (o : Opts)
    (t : List Char) (hg1 : Blank g1) (hw1 : PlainWord w1)
    (hnr : reservedFirstCommandChars.lookup w1 = none) (hi : ItemsOK items) (htail : Blank tail)
    (hsz : 3 * (lineText g1 w1 items tail).length + 14 ≤ 1073741824) :
    ∃ t', runParser (lineText g1 w1 items tail) o t = (.ok (some (cmdNode 0 g1 w1 items)), t') := by
  have hw : 0 < w1.length := List.length_pos_iff.mpr hw1.1
  have hlenT : (lineText g1 w1 items tail).length =
      g1.length + w1.length + (spellI items).length + tail.length := by
    simp [lineText]; omega
  have hne : lineText g1 w1 items tail ≠ [] := by
    have : 0 < (lineText g1 w1 items tail).length := by rw [hlenT]; omega
    exact List.length_pos_iff.mp this
  have hof := ofInput_noNL hne (lineText_noNL hg1 hw1 hi htail)
  have hil := spellI_length items hi
  have key := tot_parserRun_line (L := lineText g1 w1 items tail ++ ['\n']) (adn := true) (i := 0)
    (d := 63) (l := { limit := o.limit }) htail (by simp; omega) hg1 hw1 hnr hi (initial_POK _) rfl
    (by simp [lineText]) (by omega)
  obtain ⟨a, l', e', hrun, ha⟩ := key.elim
    { tape := Tape.ofInput (lineText g1 w1 items tail), strict := o.strict, proceed := o.proceed,
      touched := t } hof
  refine ⟨e'.touched, ?_⟩
  have hrun' : (parserRun maxDepth).run { limit := o.limit }
      { tape := Tape.ofInput (lineText g1 w1 items tail), strict := o.strict, proceed := o.proceed,
        touched := t } = (.ok (a, l'), e') := hrun
  unfold runParser
  simp only [hrun', ha]
  rfl

/-- `_parser.parse()` on a line of blanks: None -/
theorem tot_parserRun_blank {L : Str} {adn : Bool} {tail : Str} {l : Local} {i d : Nat}
    (htail : Blank tail) (hlen : L.length + 2 ≤ 1073741824) (hl : WOK l)
    (hL : L.drop i = tail ++ ['\n']) :
    Tot (parserRun (d + 1)) l ⟨L, i, adn⟩ (fun r _ _ => r = none) := by
  rw [C07.parserRun_succ]
  refine Tot.bind ?_
  show Tot (engineLoop (C07.nestedOf d) 1073741824 {}) _ _ _
  refine run_blank htail hlen hl hL (by omega) ?_
  intro a b l' T'
  refine Tot.bind (Tot.get ?_)
  exact Tot.pure rfl

/-- one top-level parser run on a non-empty run of blanks returns None -/
theorem runParser_blank {tail : Str} (o : Opts) (t : List Char) (hne : tail ≠ [])
    (htail : Blank tail) (hsz : tail.length + 3 ≤ 1073741824) :
    ∃ t', runParser tail o t = (.ok none, t') := by
  have hof := ofInput_noNL hne (fun c hc => blank_ne_nl (htail c hc))
  have key := tot_parserRun_blank (L := tail ++ ['\n']) (adn := true) (i := 0) (d := 63)
    (l := { limit := o.limit }) htail (by simp; omega) (initial_POK _).wok (by simp)
  obtain ⟨a, l', e', hrun, ha⟩ := key.elim
    { tape := Tape.ofInput tail, strict := o.strict, proceed := o.proceed, touched := t } hof
  refine ⟨e'.touched, ?_⟩
  have hrun' : (parserRun maxDepth).run { limit := o.limit }
      { tape := Tape.ofInput tail, strict := o.strict, proceed := o.proceed, touched := t } =
      (.ok (a, l'), e') := hrun
  unfold runParser
  simp only [hrun', ha]
  rfl

end Bashlex.C02
