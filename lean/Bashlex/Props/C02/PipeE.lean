/-
  C02 (round trip), part 17: a pipeline `c₁ | … | cₙ` (n ≥ 1) as ONE element of a list — over any
  base stack (top state 0, 61, 134, 135), up to any list-level terminator (`;`, `&&`, `||`, NEWLINE),
  in continuation-passing form (the pipeline analogue of `cmd_run`).
-/
import Bashlex.Props.C02.Pipe
import Bashlex.Props.C02.SeqOps

namespace Bashlex.C02
open Bashlex Bashlex.M Bashlex.LR
set_option linter.unusedSimpArgs false
set_option linter.unusedVariables false

/-- the trailing blanks of the last command -/
def ptrail (t0 : Str) : List SCmd → Str
  | [] => t0
  | c :: cs => ptrail c.trail cs

/-- a pipeline of simple commands -/
structure PE where
  c1 : SCmd
  cs : List SCmd

namespace PE
def text (e : PE) : Str := e.c1.text ++ prestText e.cs
def OK (e : PE) : Prop := e.c1.OK ∧ ∀ c ∈ e.cs, c.OK
instance (e : PE) : Decidable e.OK := by unfold OK; exact inferInstance
def endPos (off : Nat) (e : PE) : Nat := lastEnd (e.c1.endPos off) (off + e.c1.text.length) e.cs
def trail (e : PE) : Str := ptrail e.c1.trail e.cs
/-- its AST: the command node (n = 1) or the pipeline node -/
def node (off : Nat) (e : PE) : Node :=
  mkPipe (off + e.c1.lead.length) (e.endPos off)
    (e.c1.node off :: prestNodes (off + e.c1.text.length) e.cs)
end PE

/-- what a pipeline needs of the list-level terminator that ends it -/
structure OutT (ts : Nat) : Prop where
  t : TermOK ts
  a195 : Tab.T.action 195 ts = some (.reduce 161)

theorem outNL : OutT 55 := ⟨termNL, Tab.a195n⟩
theorem Op.out (o : Op) : OutT o.sym := by
  cases o
  · exact ⟨termSEMI, Tab.a195s⟩
  · exact ⟨termAND, Tab.a195a⟩
  · exact ⟨termOR, Tab.a195o⟩

/-- the pending segments over a base stack -/
def pstackB (base : Stack SVal) : List Pend → Stack SVal
  | [] => base
  | p :: r =>
    ⟨136, p.t3, .none⟩ :: ⟨64, p.t2, .tok p.bar⟩ :: ⟨sOf r, p.t1, .nodes [p.n]⟩ :: pstackB base r

def pcostB (k : Nat) : List SCmd → Nat
  | [] => k + 2
  | c :: cs => 3 * c.items.length + 8 + pcostB (k + 1) cs

def PE.cost (e : PE) : Nat := pcostB 0 e.cs + (3 * e.c1.items.length + 2) + 2

section
variable {np : NestedParse} {L : Str} {adn : Bool} {P : Res SVal → Local → Tape → Prop}
  {base : Stack SVal} {b g93 : Nat}

theorem goto_pstackB (hbase : topState base = b) (hB : BaseOK b g93) (r : List Pend) :
    Tab.T.goto (topState (pstackB base r)) 95 = some (sOf r) := by
  cases r with
  | nil => show Tab.T.goto (topState base) 95 = some 8; rw [hbase]; exact hB.g95
  | cons p r' => exact Tab.g136_95

/-- unwinding over a base, on any terminator that reduces in state 195 -/
theorem unwindB (hbase : topState base = b) (hB : BaseOK b g93) {l : Local} {Tp : Tape} {ts : Nat}
    {term : Token} (h195 : Tab.T.action 195 ts = some (.reduce 161)) {nl : Nat} {cons : List Nat}
    {f' : Nat} :
    ∀ (pend : List Pend) (acc : List Node) (tr : Tree),
      (∀ tr', Tot (engineLoop np f'
        { stack := ⟨8, tr', .nodes (flat pend acc)⟩ :: base, la := some (ts, .tok term),
          nlShifted := nl, consumed := cons }) l Tp P) →
      Tot (engineLoop np (f' + pend.length)
        { stack := ⟨sOf pend, tr, .nodes acc⟩ :: pstackB base pend, la := some (ts, .tok term),
          nlShifted := nl, consumed := cons }) l Tp P := by
  intro pend
  induction pend with
  | nil => intro acc tr hk; exact hk tr
  | cons p r ih =>
    intro acc tr hk
    show Tot (engineLoop np ((f' + r.length) + 1) _) _ _ _
    refine Tot.loop_step ?_
    refine R_reduce Tab.d195 rfl h195 Tab.p161 rfl (goto_pstackB hbase hB r) Tab.f161 ?_
    refine act_pipeline4 ?_
    simp only [Bool.false_eq_true, if_false]
    exact ih _ _ hk

/-- from `pipeline` (state 8) over the base: `pipeline_command`, `simple_list1` -/
theorem from8B (hbase : topState base = b) (hB : BaseOK b g93) {l : Local} {Tp : Tape} {ts : Nat}
    {term : Token} (hT : TermOK ts) {FL : List Node} {pF pL : Span} {nF nL : List Node} {tr : Tree}
    {nl f : Nat} {cons : List Nat}
    (hh : FL.head? = some (.command pF nF)) (hla : FL.getLast? = some (.command pL nL))
    (hk : ∀ tr', Tot (engineLoop np f
      { stack := ⟨g93, tr', .nodes [mkPipe pF.1 pL.2 FL]⟩ :: base, la := some (ts, .tok term),
        nlShifted := nl, consumed := cons }) l Tp P) :
    Tot (engineLoop np (f + 2)
      { stack := ⟨8, tr, .nodes FL⟩ :: base, la := some (ts, .tok term), nlShifted := nl,
        consumed := cons }) l Tp P := by
  have rest : ∀ (n : Node) (tr2 : Tree), n = mkPipe pF.1 pL.2 FL →
      Tot (engineLoop np (f + 1)
        { stack := ⟨7, tr2, .node n⟩ :: base, la := some (ts, .tok term), nlShifted := nl,
          consumed := cons }) l Tp P := by
    intro n tr2 hn
    refine Tot.loop_step ?_
    refine R_reduce Tab.d7 rfl hT.a7 Tab.p155 rfl (by rw [hbase]; exact hB.g93) Tab.f155 ?_
    refine act_simple_list1_1 ?_
    simp only [Bool.false_eq_true, if_false]
    rw [hn]
    exact hk _
  refine Tot.loop_step ?_
  refine R_reduce Tab.d8 rfl hT.a8 Tab.p156 rfl (by rw [hbase]; exact hB.g94) Tab.f156 ?_
  match FL, hh, hla with
  | [], hh, _ => cases hh
  | [n], _, _ =>
    refine act_pipeline_command1 ?_
    simp only [Bool.false_eq_true, if_false]
    exact rest n _ rfl
  | x :: y :: rs, hh, hla =>
    refine act_pipeline_command_many hh hla ?_
    simp only [Bool.false_eq_true, if_false]
    exact rest _ _ rfl

/-- what follows a command of a pipeline inside a list: `|`, or the list-level terminator -/
theorem next_termPB (hlen : L.length + 2 ≤ 1073741824) (cs : List SCmd) (hcs : ∀ c ∈ cs, c.OK)
    {trail X : Str} {b0 : Char} {r0 : Str} (htrail : Blank trail) {e : Nat}
    (hL : L.drop e = trail ++ (prestText cs ++ X))
    {tsO : Nat} {termO : Token} {iTO : Nat} (hO : OutT tsO) (htsO : symOfTok termO = tsO)
    (hhO : histOK termO = true)
    (hRO : ptrail trail cs ++ X = b0 :: r0) (hb0 : endChar b0 = true)
    (hfO : FetchTerm L adn termO (lastEnd e (e + trail.length) cs) iTO) :
    ∃ (ts : Nat) (term : Token) (b1 : Char) (r1 : Str) (iT : Nat), TermW ts ∧ symOfTok term = ts ∧
      Tab.T.action 13 ts = some (.reduce 58) ∧ Tab.T.action 11 ts = some (.reduce 163) ∧
      trail ++ (prestText cs ++ X) = b1 :: r1 ∧ endChar b1 = true ∧
      FetchTerm L adn term e iT ∧ histOK term = true ∧
      (cs = [] → ts = tsO ∧ term = termO ∧ iT = iTO) ∧
      (∀ c cs', cs = c :: cs' → ts = 52 ∧ term = barTok (e + trail.length) ∧
          iT = e + trail.length + 1 ∧ L.drop iT = c.text ++ (prestText cs' ++ X)) := by
  have hdrop : ∀ x r, L.drop e = trail ++ x :: r → L.drop (e + trail.length + 1) = r := by
    intro x r h
    have := congrArg (List.drop (trail.length + 1)) h
    rw [List.drop_drop] at this
    rw [Nat.add_assoc, this]
    simp
  cases cs with
  | nil =>
    exact ⟨tsO, termO, b0, r0, iTO, hO.t.w, htsO, hO.t.a13, hO.t.a11,
      by simpa [prestText, ptrail] using hRO, hb0, by simpa [lastEnd] using hfO, hhO,
      fun _ => ⟨rfl, rfl, rfl⟩, fun c cs' h => by cases h⟩
  | cons c cs' =>
    obtain ⟨d, r, hd, hd1, hd2, hd3⟩ := text_headP (hcs c (List.mem_cons_self ..))
    have hL' : L.drop e = trail ++ '|' :: d :: (r ++ (prestText cs' ++ X)) := by
      rw [hL]; simp [prestText, hd]
    have hnext : L.drop (e + trail.length + 1) = c.text ++ (prestText cs' ++ X) := by
      rw [hdrop '|' _ hL', hd]; simp
    obtain ⟨b1, r1, h1, hb1⟩ := head_app htrail (x := '|') (by decide)
      (d :: (r ++ (prestText cs' ++ X)))
    refine ⟨52, barTok (e + trail.length), b1, r1, e + trail.length + 1, termWBAR, Tab.symBAR,
      Tab.a13b, Tab.a11b, ?_, hb1, fetchTerm_bar hlen htrail hL' hd1 hd2 hd3, rfl,
      fun h => (by cases h), ?_⟩
    · rw [← h1]; simp [prestText, hd]
    · intro c2 cs2 h
      cases h
      exact ⟨rfl, rfl, rfl, hnext⟩

variable {tsO : Nat} {termO : Token} {iTO : Nat} {X : Str} {b0 : Char} {r0 : Str}

/-- **the commands after the first of a pipeline inside a list** -/
theorem pipe_fwdB (hbase : topState base = b) (hB : BaseOK b g93) (hO : OutT tsO)
    (htsO : symOfTok termO = tsO) (hhO : histOK termO = true) (hb0 : endChar b0 = true)
    (hlen : L.length + 2 ≤ 1073741824) {pF : Span} {nF : List Node} {f : Nat} :
    ∀ (cs : List SCmd) (pend : List Pend) (pk : Span) (nk : List Node) (ts : Nat) (term : Token)
      (l : Local) (idx a nl : Nat) (cons : List Nat) (tr : Tree),
      (∀ c ∈ cs, c.OK) → POK l → l.currentToken = term → histOK term = true → symOfTok term = ts →
      (cs = [] → ts = tsO ∧ term = termO ∧ idx = iTO) →
      (∀ c cs', cs = c :: cs' → ts = 52 ∧ term = barTok a ∧ idx = a + 1 ∧
        L.drop idx = c.text ++ (prestText cs' ++ X)) →
      (∀ c cs', cs = c :: cs' → ptrail c.trail cs' ++ X = b0 :: r0) →
      FetchTerm L adn termO (lastEnd pk.2 a cs) iTO →
      (∀ Y, (flat pend (Node.command pk nk :: Y)).head? = some (Node.command pF nF)) →
      (∀ tr' nl' cons' l', POK l' → l'.currentToken = termO → Tot (engineLoop np f
        { stack := ⟨g93, tr', .nodes [mkPipe pF.1 (lastEnd pk.2 a cs)
            (flat pend (Node.command pk nk :: prestNodes a cs))]⟩ :: base,
          la := some (tsO, .tok termO), nlShifted := nl', consumed := cons' }) l' ⟨L, iTO, adn⟩ P) →
      Tot (engineLoop np (f + pcostB pend.length cs)
        { stack := ⟨sOf pend, tr, .nodes [Node.command pk nk]⟩ :: pstackB base pend,
          la := some (ts, .tok term), nlShifted := nl, consumed := cons }) l ⟨L, idx, adn⟩ P := by
  intro cs
  induction cs with
  | nil =>
    intro pend pk nk ts term l idx a nl cons tr hcs hl hcur hhist hts hnil hcons hRO hfO hhd hk
    obtain ⟨rfl, rfl, rfl⟩ := hnil rfl
    have e : f + pcostB pend.length [] = (f + 2) + pend.length := by simp only [pcostB]; omega
    rw [e]
    refine unwindB hbase hB hO.a195 pend _ tr ?_
    intro tr'
    refine from8B (pF := pF) (nF := nF) (pL := pk) (nL := nk) hbase hB hO.t (hhd []) ?_ ?_
    · rw [flat_last pend _ (by simp)]; rfl
    · intro tr''
      have := hk tr'' nl cons l hl hcur
      simpa [prestNodes, lastEnd] using this
  | cons c cs' ih =>
    intro pend pk nk ts term l idx a nl cons tr hcs hl hcur hhist hts hnil hcons hRO hfO hhd hk
    obtain ⟨rfl, rfl, rfl, hLc⟩ := hcons c cs' rfl
    have hc := hcs c (List.mem_cons_self ..)
    have hcs' : ∀ x ∈ cs', x.OK := fun x hx => hcs x (List.mem_cons_of_mem _ hx)
    have hLend := drop_text_end hLc
    have ea : c.endPos (a + 1) + c.trail.length = a + 1 + c.text.length := endPos_trail c (a + 1)
    obtain ⟨ts', term', b1, r1, iT, hT', hts', h13, h11, hR, hb1, hfetch', hhist', hnil', hcons'⟩ :=
      next_termPB (adn := adn) hlen cs' hcs' hc.trail hLend hO htsO hhO (hRO c cs' rfl) hb0
        (by rw [ea]; simpa [lastEnd] using hfO)
    obtain ⟨bb, r', hbr, hb⟩ := after_word' c.items hc.items hR hb1
    have hLw := drop_text hLc
    have hL1 : L.drop (a + 1) = c.lead ++ c.w1 ++ bb :: r' := by
      rw [hLc, ← hbr]; simp [SCmd.text, lineText]
    have e : f + pcostB pend.length (c :: cs') =
        ((f + pcostB (pend.length + 1) cs' + 2) + (3 * c.items.length + 2)) + 4 := by
      simp only [pcostB]; omega
    rw [e]
    have hcurh : histOK l.currentToken = true := by rw [hcur]; rfl
    have hsd : Tab.T.dflt (sOf pend) = none := sOf_dflt pend
    refine Tot.loop_step ?_
    refine R_shift (sOf_dflt pend) (sOf_ne0 pend) (sOf_bar pend) ?_
    refine Tot.loop_step ?_
    refine R_fetch Tab.d64 ?_
    refine tot_nextToken_word hl.wok hcurh hl.hist hc.w1 hb hc.lead hL1 hlen (fun _ => hc.nr) ?_
    rw [symOfTok_word]
    refine R_reduce Tab.d64 rfl Tab.a64w Tab.p167 rfl Tab.g64_97 Tab.f167 ?_
    refine act_empty ?_
    simp only [Bool.false_eq_true, if_false]
    refine Tot.loop_step ?_
    refine R_reduce Tab.d81 rfl Tab.a81w Tab.p146 rfl Tab.g64_91 Tab.f146 ?_
    refine act_newline_list ?_
    simp only [Bool.false_eq_true, if_false]
    refine Tot.loop_step ?_
    refine R_shift Tab.d136 rfl Tab.a136w ?_
    refine cmd_run13 (b := 136) rfl base136 hT' hts' hlen hR hb1 hc.items hc.w1
      (hl.afterTok hcurh _) rfl hLw hfetch' rfl ?_
    intro tr' nl' cons' l' hl' hcur'
    obtain ⟨p2, s2, hlast, hp2⟩ := words_last (a + 1 + c.lead.length)
      (a + 1 + c.lead.length + c.w1.length) c.w1 c.items
    refine Tot.loop_step ?_
    refine R_reduce Tab.d13 rfl h13 Tab.p58 rfl Tab.g136_66 Tab.f58 ?_
    refine act_command (p1 := (a + 1 + c.lead.length, a + 1 + c.lead.length + c.w1.length))
      (s1 := c.w1) (q1 := []) rfl hlast ?_
    simp only [Bool.false_eq_true, if_false]
    refine Tot.loop_step ?_
    refine R_reduce Tab.d11 rfl h11 Tab.p163 rfl Tab.g136_95 Tab.f163 ?_
    refine act_pipeline1 ?_
    simp only [Bool.false_eq_true, if_false]
    have hp2' : p2.2 = c.endPos (a + 1) := hp2
    refine ih (⟨Node.command pk nk, barTok a, tr, _, _⟩ :: pend)
      (a + 1 + c.lead.length, p2.2)
      (Node.word (a + 1 + c.lead.length, a + 1 + c.lead.length + c.w1.length) c.w1 [] ::
        nodesI (a + 1 + c.lead.length + c.w1.length) c.items)
      ts' term' l' iT (c.endPos (a + 1) + c.trail.length) nl' cons' _ hcs' hl' hcur' hhist' hts'
      hnil' hcons' (fun c2 cs2 h2 => by
        have := hRO c cs' rfl
        rw [h2] at this
        simpa [ptrail] using this) ?_ ?_ ?_
    · rw [hp2', ea]
      simpa [lastEnd] using hfO
    · intro Y
      have := hhd (Node.pipe ((barTok a).lexpos, (barTok a).endlexpos) (barTok a).valueStr ::
        Node.command (a + 1 + c.lead.length, p2.2)
          (Node.word (a + 1 + c.lead.length, a + 1 + c.lead.length + c.w1.length) c.w1 [] ::
            nodesI (a + 1 + c.lead.length + c.w1.length) c.items) :: Y)
      simpa [flat] using this
    · intro tr'' nl'' cons'' l'' hl'' hcur''
      have := hk tr'' nl'' cons'' l'' hl'' hcur''
      rw [hp2', ea]
      simpa [prestNodes, lastEnd, flat, SCmd.node, cmdNode, SCmd.endPos, barTok, Token.lexpos,
        Token.endlexpos, Token.valueStr, hp2'] using this

/-- **one pipeline as an element of a list**, its first word already shifted (state 29 over
    `base`), up to the list-level terminator; then `k` goes on from `simple_list1` over `base` -/
theorem pe_run (hbase : topState base = b) (hB : BaseOK b g93) (hO : OutT tsO)
    (htsO : symOfTok termO = tsO) (hhO : histOK termO = true) (hb0 : endChar b0 = true)
    (hlen : L.length + 2 ≤ 1073741824)
    {e : PE} {off : Nat} {l : Local} {fuel f' nl : Nat} {cons : List Nat} {tr : Tree}
    (he : e.OK) (hl : POK l)
    (hcur : l.currentToken = wordTok (off + e.c1.lead.length)
      (off + e.c1.lead.length + e.c1.w1.length) e.c1.w1)
    (hLc : L.drop off = e.text ++ X) (hR : e.trail ++ X = b0 :: r0)
    (hfetch : FetchTerm L adn termO (e.endPos off) iTO)
    (hf : fuel = f' + e.cost)
    (hk : ∀ tr' nl' cons' l', POK l' → l'.currentToken = termO → Tot (engineLoop np f'
        { stack := ⟨g93, tr', .nodes [e.node off]⟩ :: base, la := some (tsO, .tok termO),
          nlShifted := nl', consumed := cons' }) l' ⟨L, iTO, adn⟩ P) :
    Tot (engineLoop np fuel
      { stack := ⟨29, tr, .tok (wordTok (off + e.c1.lead.length)
          (off + e.c1.lead.length + e.c1.w1.length) e.c1.w1)⟩ :: base, la := none,
        nlShifted := nl, consumed := cons }) l
      ⟨L, off + e.c1.lead.length + e.c1.w1.length, adn⟩ P := by
  obtain ⟨c1, cs⟩ := e
  have hLc' : L.drop off = c1.text ++ (prestText cs ++ X) := by simpa [PE.text] using hLc
  have hLend := drop_text_end hLc'
  have ea : c1.endPos off + c1.trail.length = off + c1.text.length := endPos_trail c1 off
  obtain ⟨ts', term', b1, r1, iT, hT', hts', h13, h11, hR1, hb1, hfetch', hhist', hnil', hcons'⟩ :=
    next_termPB (adn := adn) hlen cs he.2 he.1.trail hLend hO htsO hhO hR hb0
      (by rw [ea]; exact hfetch)
  have hLw := drop_text hLc'
  subst hf
  have e1 : f' + PE.cost ⟨c1, cs⟩ = ((f' + pcostB 0 cs) + 2) + (3 * c1.items.length + 2) := by
    simp only [PE.cost]; omega
  rw [e1]
  refine cmd_run13 hbase hB.w hT' hts' hlen hR1 hb1 he.1.items he.1.w1 hl hcur hLw hfetch' rfl ?_
  intro tr' nl' cons' l' hl' hcur'
  obtain ⟨p2, s2, hlast, hp2⟩ := words_last (off + c1.lead.length)
    (off + c1.lead.length + c1.w1.length) c1.w1 c1.items
  have hp2' : p2.2 = c1.endPos off := hp2
  refine Tot.loop_step ?_
  refine R_reduce Tab.d13 rfl h13 Tab.p58 rfl (by rw [hbase]; exact hB.g66) Tab.f58 ?_
  refine act_command (p1 := (off + c1.lead.length, off + c1.lead.length + c1.w1.length))
    (s1 := c1.w1) (q1 := []) rfl hlast ?_
  simp only [Bool.false_eq_true, if_false]
  refine Tot.loop_step ?_
  refine R_reduce Tab.d11 rfl h11 Tab.p163 rfl (by rw [hbase]; exact hB.g95) Tab.f163 ?_
  refine act_pipeline1 ?_
  simp only [Bool.false_eq_true, if_false]
  refine pipe_fwdB (pF := (off + c1.lead.length, p2.2)) hbase hB hO htsO hhO hb0 hlen cs []
    (off + c1.lead.length, p2.2) _ ts' term' l' iT (c1.endPos off + c1.trail.length) nl' cons' _
    he.2 hl' hcur' hhist' hts' hnil' hcons' (fun c2 cs2 h2 => by
      have := hR
      simp only [PE.trail, h2] at this
      simpa [ptrail] using this) ?_ (fun Y => rfl) ?_
  · rw [hp2', ea]; exact hfetch
  · intro tr'' nl'' cons'' l'' hl'' hcur''
    have := hk tr'' nl'' cons'' l'' hl'' hcur''
    rw [hp2', ea]
    simpa [PE.node, PE.endPos, flat, SCmd.node, cmdNode, SCmd.endPos, hp2'] using this

end

end Bashlex.C02
