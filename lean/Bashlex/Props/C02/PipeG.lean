/-
  C02 (round trip), part 23: a pipeline of GENERAL simple commands as one element of a list
  (`PipeE` over `GCmd`).
-/
import Bashlex.Props.C02.CmdG
import Bashlex.Props.C02.PipeE

namespace Bashlex.C02
open Bashlex Bashlex.M Bashlex.LR
set_option linter.unusedSimpArgs false
set_option linter.unusedVariables false

def gprestText : List GCmd → Str
  | [] => []
  | c :: cs => '|' :: (c.text ++ gprestText cs)

def gprestNodes (a : Nat) : List GCmd → List Node
  | [] => []
  | c :: cs =>
    Node.pipe (a, a + 1) ['|'] :: c.node (a + 1) :: gprestNodes (a + 1 + c.text.length) cs

def glastEnd (e a : Nat) : List GCmd → Nat
  | [] => e
  | c :: cs => glastEnd (c.endPos (a + 1)) (a + 1 + c.text.length) cs

def gptrail (t0 : Str) : List GCmd → Str
  | [] => t0
  | c :: cs => gptrail c.trail cs

def gpcostB (k : Nat) : List GCmd → Nat
  | [] => k + 2
  | c :: cs => c.cost + 8 + gpcostB (k + 1) cs

/-- a pipeline of general simple commands -/
structure GPE where
  c1 : GCmd
  cs : List GCmd

namespace GPE
def text (e : GPE) : Str := e.c1.text ++ gprestText e.cs
def OK (e : GPE) : Prop := e.c1.OK ∧ ∀ c ∈ e.cs, c.OK
instance (e : GPE) : Decidable e.OK := by unfold OK; exact inferInstance
def endPos (off : Nat) (e : GPE) : Nat := glastEnd (e.c1.endPos off) (off + e.c1.text.length) e.cs
def trail (e : GPE) : Str := gptrail e.c1.trail e.cs
def node (off : Nat) (e : GPE) : Node :=
  mkPipe (off + e.c1.lead.length) (e.endPos off)
    (e.c1.node off :: gprestNodes (off + e.c1.text.length) e.cs)
def cost (e : GPE) : Nat := gpcostB 0 e.cs + (e.c1.cost + 2) + 2
end GPE

section
variable {np : NestedParse} {L : Str} {adn : Bool} {P : Res SVal → Local → Tape → Prop}
  {base : Stack SVal} {b g93 : Nat}

/-- from `simple_command` to `pipeline` (two reductions) -/
theorem g_to_pipe {l : Local} {Tp : Tape} (hbase : topState base = b) {s95 ts : Nat} {term : Token}
    (h13 : Tab.T.action 13 ts = some (.reduce 58)) (h11 : Tab.T.action 11 ts = some (.reduce 163))
    (g66 : Tab.T.goto b 66 = some 11) (g95 : Tab.T.goto b 95 = some s95)
    {c : GCmd} {off : Nat} {tr : Tree} {nl : Nat} {cons : List Nat} {f : Nat}
    (hk : ∀ tr', Tot (engineLoop np f
      { stack := ⟨s95, tr', .nodes [c.node off]⟩ :: base,
        la := some (ts, .tok term), nlShifted := nl, consumed := cons }) l Tp P) :
    Tot (engineLoop np (f + 2)
      { stack := ⟨13, tr, .nodes (c.nodes off)⟩ :: base, la := some (ts, .tok term), nlShifted := nl,
        consumed := cons }) l Tp P := by
  obtain ⟨nl', pl, hlast, hpl, hpl2⟩ := gnodes_lastE (off + c.lead.length) c.first c.items
  refine Tot.loop_step ?_
  refine R_reduce Tab.d13 rfl h13 Tab.p58 rfl (by rw [hbase]; exact g66) Tab.f58 ?_
  refine act_commandG (nh := c.first.node (off + c.lead.length)) rfl hlast
    (Elem.nodePos_node _ _) hpl ?_
  simp only [Bool.false_eq_true, if_false]
  refine Tot.loop_step ?_
  refine R_reduce Tab.d11 rfl h11 Tab.p163 rfl (by rw [hbase]; exact g95) Tab.f163 ?_
  refine act_pipeline1 ?_
  simp only [Bool.false_eq_true, if_false]
  have := hk
  simp only [GCmd.node, GCmd.endPos] at this
  rw [hpl2]
  exact this _

theorem GCmd.text_headP {c : GCmd} (hc : c.OK) :
    ∃ d r, c.text = d :: r ∧ d ≠ '|' ∧ d ≠ '&' ∧ d ≠ '\\' := by
  obtain ⟨d, r, h, _, h2, h3, h4⟩ := GCmd.text_head hc
  exact ⟨d, r, h, h4, h2, h3⟩

/-- what follows a command of a pipeline inside a list: `|`, or the list-level terminator -/
theorem next_termPG (hlen : L.length + 2 ≤ 1073741824) (cs : List GCmd) (hcs : ∀ c ∈ cs, c.OK)
    {trail X : Str} {b0 : Char} {r0 : Str} (htrail : Blank trail) {e : Nat}
    (hL : L.drop e = trail ++ (gprestText cs ++ X))
    {tsO : Nat} {termO : Token} {iTO : Nat} (hO : OutT tsO) (hOG : TermG tsO)
    (htsO : symOfTok termO = tsO) (hhO : histOK termO = true) (hsO : startOK termO = true)
    (hRO : gptrail trail cs ++ X = b0 :: r0) (hb0 : endChar b0 = true)
    (hfO : FetchTerm L adn termO (glastEnd e (e + trail.length) cs) iTO) :
    ∃ (ts : Nat) (term : Token) (b1 : Char) (r1 : Str) (iT : Nat), TermG ts ∧ symOfTok term = ts ∧
      Tab.T.action 13 ts = some (.reduce 58) ∧ Tab.T.action 11 ts = some (.reduce 163) ∧
      trail ++ (gprestText cs ++ X) = b1 :: r1 ∧ endChar b1 = true ∧
      FetchTerm L adn term e iT ∧ histOK term = true ∧ startOK term = true ∧
      (cs = [] → ts = tsO ∧ term = termO ∧ iT = iTO) ∧
      (∀ c cs', cs = c :: cs' → ts = 52 ∧ term = barTok (e + trail.length) ∧
          iT = e + trail.length + 1 ∧ L.drop iT = c.text ++ (gprestText cs' ++ X)) := by
  have hdrop : ∀ x r, L.drop e = trail ++ x :: r → L.drop (e + trail.length + 1) = r := by
    intro x r h
    have := congrArg (List.drop (trail.length + 1)) h
    rw [List.drop_drop] at this
    rw [Nat.add_assoc, this]
    simp
  cases cs with
  | nil =>
    exact ⟨tsO, termO, b0, r0, iTO, hOG, htsO, hO.t.a13, hO.t.a11,
      by simpa [gprestText, gptrail] using hRO, hb0, by simpa [glastEnd] using hfO, hhO, hsO,
      fun _ => ⟨rfl, rfl, rfl⟩, fun c cs' h => by cases h⟩
  | cons c cs' =>
    obtain ⟨d, r, hd, hd1, hd2, hd3⟩ := GCmd.text_headP (hcs c (List.mem_cons_self ..))
    have hL' : L.drop e = trail ++ '|' :: d :: (r ++ (gprestText cs' ++ X)) := by
      rw [hL]; simp [gprestText, hd]
    have hnext : L.drop (e + trail.length + 1) = c.text ++ (gprestText cs' ++ X) := by
      rw [hdrop '|' _ hL', hd]; simp
    obtain ⟨b1, r1, h1, hb1⟩ := head_app htrail (x := '|') (by decide)
      (d :: (r ++ (gprestText cs' ++ X)))
    refine ⟨52, barTok (e + trail.length), b1, r1, e + trail.length + 1, termGBAR, Tab.symBAR,
      Tab.a13b, Tab.a11b, ?_, hb1, fetchTerm_bar hlen htrail hL' hd1 hd2 hd3, rfl, rfl,
      fun h => (by cases h), ?_⟩
    · rw [← h1]; simp [gprestText, hd]
    · intro c2 cs2 h
      cases h
      exact ⟨rfl, rfl, rfl, hnext⟩

variable {tsO : Nat} {termO : Token} {iTO : Nat} {X : Str} {b0 : Char} {r0 : Str}

/-- **the commands after the first of a pipeline inside a list** (general commands) -/
theorem pipe_fwdG (hbase : topState base = b) (hB : BaseOK b g93) (hO : OutT tsO) (hOG : TermG tsO)
    (htsO : symOfTok termO = tsO) (hhO : histOK termO = true) (hsO : startOK termO = true)
    (hb0 : endChar b0 = true)
    (hlen : L.length + 2 ≤ 1073741824) {pF : Span} {nF : List Node} {f : Nat} :
    ∀ (cs : List GCmd) (pend : List Pend) (pk : Span) (nk : List Node) (ts : Nat) (term : Token)
      (l : Local) (idx a nl : Nat) (cons : List Nat) (tr : Tree),
      (∀ c ∈ cs, c.OK) → POK l → l.currentToken = term → histOK term = true →
      startOK term = true → symOfTok term = ts →
      (cs = [] → ts = tsO ∧ term = termO ∧ idx = iTO) →
      (∀ c cs', cs = c :: cs' → ts = 52 ∧ term = barTok a ∧ idx = a + 1 ∧
        L.drop idx = c.text ++ (gprestText cs' ++ X)) →
      (∀ c cs', cs = c :: cs' → gptrail c.trail cs' ++ X = b0 :: r0) →
      FetchTerm L adn termO (glastEnd pk.2 a cs) iTO →
      (∀ Y, (flat pend (Node.command pk nk :: Y)).head? = some (Node.command pF nF)) →
      (∀ tr' nl' cons' l', POK l' → l'.currentToken = termO → Tot (engineLoop np f
        { stack := ⟨g93, tr', .nodes [mkPipe pF.1 (glastEnd pk.2 a cs)
            (flat pend (Node.command pk nk :: gprestNodes a cs))]⟩ :: base,
          la := some (tsO, .tok termO), nlShifted := nl', consumed := cons' }) l' ⟨L, iTO, adn⟩ P) →
      Tot (engineLoop np (f + gpcostB pend.length cs)
        { stack := ⟨sOf pend, tr, .nodes [Node.command pk nk]⟩ :: pstackB base pend,
          la := some (ts, .tok term), nlShifted := nl, consumed := cons }) l ⟨L, idx, adn⟩ P := by
  intro cs
  induction cs with
  | nil =>
    intro pend pk nk ts term l idx a nl cons tr hcs hl hcur hhist hst hts hnil hcons hRO hfO hhd hk
    obtain ⟨rfl, rfl, rfl⟩ := hnil rfl
    have e : f + gpcostB pend.length [] = (f + 2) + pend.length := by simp only [gpcostB]; omega
    rw [e]
    refine unwindB hbase hB hO.a195 pend _ tr ?_
    intro tr'
    refine from8B (pF := pF) (nF := nF) (pL := pk) (nL := nk) hbase hB hO.t (hhd []) ?_ ?_
    · rw [flat_last pend _ (by simp)]; rfl
    · intro tr''
      have := hk tr'' nl cons l hl hcur
      simpa [gprestNodes, glastEnd] using this
  | cons c cs' ih =>
    intro pend pk nk ts term l idx a nl cons tr hcs hl hcur hhist hst hts hnil hcons hRO hfO hhd hk
    obtain ⟨rfl, rfl, rfl, hLc⟩ := hcons c cs' rfl
    have hc := hcs c (List.mem_cons_self ..)
    have hcs' : ∀ x ∈ cs', x.OK := fun x hx => hcs x (List.mem_cons_of_mem _ hx)
    have hLend := GCmd.drop_text_end hLc
    have ea : c.endPos (a + 1) + c.trail.length = a + 1 + c.text.length := GCmd.endPos_trail c (a + 1)
    obtain ⟨ts', term', b1, r1, iT, hT', hts', h13, h11, hR, hb1, hfetch', hhist', hst', hnil',
        hcons'⟩ :=
      next_termPG (adn := adn) hlen cs' hcs' hc.trail hLend hO hOG htsO hhO hsO (hRO c cs' rfl) hb0
        (by rw [ea]; simpa [glastEnd] using hfO)
    obtain ⟨bb, r', hbr, hb⟩ := after_itemJ c.items hc.items hR hb1
    have hLw := GCmd.drop_text hLc
    have hL1 : L.drop (a + 1) = c.lead ++ c.first.text ++ bb :: r' := by
      rw [hLc, ← hbr]; simp [GCmd.text]
    have e : f + gpcostB pend.length (c :: cs') =
        ((((f + gpcostB (pend.length + 1) cs') + 2) + (c.cost + 2)) + 3) + 1 := by
      simp only [gpcostB]; omega
    rw [e]
    have hcurh : histOK l.currentToken = true := by rw [hcur]; rfl
    have hso : startOK l.currentToken = true := by rw [hcur]; rfl
    refine Tot.loop_step ?_
    refine R_shift (sOf_dflt pend) (sOf_ne0 pend) (sOf_bar pend) ?_
    refine nl_first nlg64 hc hl hso hcurh hL1 hb hlen ?_
    intro t2 cons1 l1 hl1 hcur1
    refine g_run13 (b := 136) rfl baseG136 hT' hts' hlen hR hb1 hc hl1 hcur1 hLw
      hfetch' rfl ?_
    intro tr' nl' cons' l' hl' hcur'
    refine g_to_pipe (b := 136) rfl h13 h11 Tab.g136_66 Tab.g136_95 ?_
    intro tr''
    refine ih (⟨Node.command pk nk, barTok a, tr, _, t2⟩ :: pend)
      (a + 1 + c.lead.length, c.endPos (a + 1)) (c.nodes (a + 1))
      ts' term' l' iT (c.endPos (a + 1) + c.trail.length) nl' cons' tr'' hcs' hl' hcur' hhist' hst'
      hts' hnil' hcons' (fun c2 cs2 h2 => by
        have := hRO c cs' rfl
        rw [h2] at this
        simpa [gptrail] using this) ?_ ?_ ?_
    · rw [ea]
      simpa [glastEnd] using hfO
    · intro Y
      have := hhd (Node.pipe ((barTok a).lexpos, (barTok a).endlexpos) (barTok a).valueStr ::
        Node.command (a + 1 + c.lead.length, c.endPos (a + 1)) (c.nodes (a + 1)) :: Y)
      simpa [flat] using this
    · intro tr3 nl3 cons3 l3 hl3 hcur3
      have := hk tr3 nl3 cons3 l3 hl3 hcur3
      rw [ea]
      simpa [gprestNodes, glastEnd, flat, GCmd.node, barTok, Token.lexpos,
        Token.endlexpos, Token.valueStr] using this

/-- **one pipeline of general commands as an element of a list**, its first token already shifted -/
theorem gpe_run (hbase : topState base = b) (hB : BaseOK b g93) (hBG : BaseG b) (hO : OutT tsO) (hOG : TermG tsO)
    (htsO : symOfTok termO = tsO) (hhO : histOK termO = true) (hsO : startOK termO = true)
    (hb0 : endChar b0 = true) (hlen : L.length + 2 ≤ 1073741824)
    {e : GPE} {off : Nat} {l : Local} {fuel f' nl : Nat} {cons : List Nat} {tr : Tree}
    (he : e.OK) (hl : POK l)
    (hcur : l.currentToken = e.c1.first.tok (off + e.c1.lead.length))
    (hLc : L.drop off = e.text ++ X) (hR : e.trail ++ X = b0 :: r0)
    (hfetch : FetchTerm L adn termO (e.endPos off) iTO)
    (hf : fuel = f' + e.cost)
    (hk : ∀ tr' nl' cons' l', POK l' → l'.currentToken = termO → Tot (engineLoop np f'
        { stack := ⟨g93, tr', .nodes [e.node off]⟩ :: base, la := some (tsO, .tok termO),
          nlShifted := nl', consumed := cons' }) l' ⟨L, iTO, adn⟩ P) :
    Tot (engineLoop np fuel
      { stack := ⟨e.c1.first.shB, tr, .tok (e.c1.first.tok (off + e.c1.lead.length))⟩ :: base,
        la := none, nlShifted := nl, consumed := cons }) l
      ⟨L, off + e.c1.lead.length + e.c1.first.tlen, adn⟩ P := by
  obtain ⟨c1, cs⟩ := e
  have hLc' : L.drop off = c1.text ++ (gprestText cs ++ X) := by simpa [GPE.text] using hLc
  have hLend := GCmd.drop_text_end hLc'
  have ea : c1.endPos off + c1.trail.length = off + c1.text.length := GCmd.endPos_trail c1 off
  obtain ⟨ts', term', b1, r1, iT, hT', hts', h13, h11, hR1, hb1, hfetch', hhist', hst', hnil',
      hcons'⟩ :=
    next_termPG (adn := adn) hlen cs he.2 he.1.trail hLend hO hOG htsO hhO hsO hR hb0
      (by rw [ea]; exact hfetch)
  have hLw := GCmd.drop_text hLc'
  subst hf
  have e1 : f' + GPE.cost ⟨c1, cs⟩ = ((f' + gpcostB 0 cs) + 2) + (c1.cost + 2) := by
    simp only [GPE.cost]; omega
  rw [e1]
  refine g_run13 hbase hBG hT' hts' hlen hR1 hb1 he.1 hl hcur hLw hfetch' rfl ?_
  intro tr' nl' cons' l' hl' hcur'
  refine g_to_pipe hbase h13 h11 hB.g66 hB.g95 ?_
  intro tr''
  refine pipe_fwdG (pF := (off + c1.lead.length, c1.endPos off)) hbase hB hO hOG htsO hhO hsO hb0 hlen
    cs [] (off + c1.lead.length, c1.endPos off) (c1.nodes off) ts' term' l' iT
    (c1.endPos off + c1.trail.length) nl' cons' tr''
    he.2 hl' hcur' hhist' hst' hts' hnil' hcons' (fun c2 cs2 h2 => by
      have := hR
      simp only [GPE.trail, h2] at this
      simpa [gptrail] using this) ?_ (fun Y => rfl) ?_
  · rw [ea]; exact hfetch
  · intro tr3 nl3 cons3 l3 hl3 hcur3
    have := hk tr3 nl3 cons3 l3 hl3 hcur3
    rw [ea]
    simpa [GPE.node, GPE.endPos, flat, GCmd.node] using this

end

end Bashlex.C02
