/-
  C02 (round trip), part 25: from the engine to `_parser.parse()`, for lists of pipelines of
  GENERAL simple commands; `resolve` and `_endfinder` on the expected ASTs.
-/
import Bashlex.Props.C02.SeqPG
import Bashlex.Props.C02.PEGlue

namespace Bashlex.C02
open Bashlex Bashlex.M Bashlex.LR
set_option linter.unusedSimpArgs false
set_option linter.unusedVariables false

/-- a part-less word or assignment node -/
def Leaf (n : Node) : Prop :=
  (∃ p s, n = Node.word p s []) ∨ (∃ p s, n = Node.assignment p s []) ∨
    (∃ p i t p' w, n = Node.redirect p i t (some (Node.word p' w [])) .none none none)

def AllLeaf (ns : List Node) : Prop := ∀ n ∈ ns, Leaf n

theorem Item.node_leaf (it : Item) (a : Nat) : Leaf (it.node a) := by
  cases it
  · exact Or.inl ⟨_, _, rfl⟩
  · exact Or.inr (Or.inl ⟨_, _, rfl⟩)

theorem Elem.node_leaf (el : Elem) (a : Nat) : Leaf (el.node a) := by
  cases el with
  | simple it => exact Item.node_leaf it a
  | redir o g2 w => exact Or.inr (Or.inr ⟨_, _, _, _, _, rfl⟩)
  | nredir n o g2 w => exact Or.inr (Or.inr ⟨_, _, _, _, _, rfl⟩)

theorem nodesJ_leaf : ∀ (items : List (Str × Elem)) (off : Nat), AllLeaf (nodesJ off items)
  | [], _ => fun _ h => by cases h
  | (g, it) :: r, off => by
    intro n hn
    simp only [nodesJ, List.mem_cons] at hn
    rcases hn with rfl | hn
    · exact Elem.node_leaf it _
    · exact nodesJ_leaf r _ n hn

theorem GCmd.nodes_leaf (c : GCmd) (off : Nat) : AllLeaf (c.nodes off) := by
  intro n hn
  simp only [GCmd.nodes, List.mem_cons] at hn
  rcases hn with rfl | hn
  · exact Elem.node_leaf _ _
  · exact nodesJ_leaf _ _ n hn

theorem resolveL_leaf (store : List RedirCell) : ∀ (ns : List Node), AllLeaf ns →
    resolveL store ns = ns
  | [], _ => by simp [resolveL]
  | n :: r, h => by
    have ih := resolveL_leaf store r (fun m hm => h m (List.mem_cons_of_mem _ hm))
    rcases h n (List.mem_cons_self ..) with ⟨p, s, rfl⟩ | ⟨p, s, rfl⟩ | ⟨p, i, t, p', w, rfl⟩ <;>
      simp [resolveL, resolve, ih]

/-- a function that is `none` on every node kind of the sub-language -/
structure NoneOn {β : Type} (f : Node → Option β) : Prop where
  w : ∀ p s, f (Node.word p s []) = none
  a : ∀ p s, f (Node.assignment p s []) = none
  c : ∀ p ws, f (Node.command p ws) = none
  o : ∀ p s, f (Node.operator p s) = none
  p : ∀ p s, f (Node.pipe p s) = none
  pl : ∀ p ns, f (Node.pipeline p ns) = none
  r : ∀ p i t o oa h hid, f (Node.redirect p i t o oa h hid) = none

theorem filterMap_preorderL_leaf {β : Type} {f : Node → Option β} (hf : NoneOn f) :
    ∀ (ns : List Node), AllLeaf ns → (Node.preorderL ns).filterMap f = []
  | [], _ => by simp [Node.preorderL]
  | n :: r, h => by
    have ih := filterMap_preorderL_leaf hf r (fun m hm => h m (List.mem_cons_of_mem _ hm))
    rcases h n (List.mem_cons_self ..) with ⟨p, s, rfl⟩ | ⟨p, s, rfl⟩ | ⟨p, i, t, p', w, rfl⟩ <;>
      simp [Node.preorderL, Node.preorder, Node.preorderO, List.filterMap_append, ih, hf.w, hf.a, hf.r]

/-- a part of a pipeline or a flat list: a command over leaves, an operator, a pipe -/
def GPart (n : Node) : Prop :=
  (∃ p ws, n = Node.command p ws ∧ AllLeaf ws) ∨ (∃ p s, n = Node.operator p s) ∨
    (∃ p s, n = Node.pipe p s)

def AllG (ns : List Node) : Prop := ∀ n ∈ ns, GPart n

theorem resolveL_g (store : List RedirCell) : ∀ (ns : List Node), AllG ns → resolveL store ns = ns
  | [], _ => by simp [resolveL]
  | n :: r, h => by
    have ih := resolveL_g store r (fun m hm => h m (List.mem_cons_of_mem _ hm))
    rcases h n (List.mem_cons_self ..) with ⟨p, ws, rfl, hw⟩ | ⟨p, s, rfl⟩ | ⟨p, s, rfl⟩
    · simp [resolveL, resolve, ih, resolveL_leaf store ws hw]
    · simp [resolveL, resolve, ih]
    · simp [resolveL, resolve, ih]

theorem filterMap_preorderL_g {β : Type} {f : Node → Option β} (hf : NoneOn f) :
    ∀ (ns : List Node), AllG ns → (Node.preorderL ns).filterMap f = []
  | [], _ => by simp [Node.preorderL]
  | n :: r, h => by
    have ih := filterMap_preorderL_g hf r (fun m hm => h m (List.mem_cons_of_mem _ hm))
    rcases h n (List.mem_cons_self ..) with ⟨p, ws, rfl, hws⟩ | ⟨p, s, rfl⟩ | ⟨p, s, rfl⟩
    · simp [Node.preorderL, Node.preorder, List.filterMap_append, ih, hf.c,
        filterMap_preorderL_leaf hf ws hws]
    · simp [Node.preorderL, Node.preorder, List.filterMap_append, ih, hf.o]
    · simp [Node.preorderL, Node.preorder, List.filterMap_append, ih, hf.p]

/-- an element of a flat list of pipelines -/
def HPart (n : Node) : Prop := GPart n ∨ ∃ p ns, n = Node.pipeline p ns ∧ AllG ns

def AllH (ns : List Node) : Prop := ∀ n ∈ ns, HPart n

theorem resolve_hpart (store : List RedirCell) {n : Node} (h : HPart n) : resolve store n = n := by
  rcases h with (⟨p, ws, rfl, hw⟩ | ⟨p, s, rfl⟩ | ⟨p, s, rfl⟩) | ⟨p, ns, rfl, hns⟩
  · rw [resolve, resolveL_leaf store ws hw]
  · simp [resolve]
  · simp [resolve]
  · rw [resolve, resolveL_g store ns hns]

theorem resolveL_allH (store : List RedirCell) : ∀ (ns : List Node), AllH ns → resolveL store ns = ns
  | [], _ => by simp [resolveL]
  | n :: r, h => by
    have ih := resolveL_allH store r (fun m hm => h m (List.mem_cons_of_mem _ hm))
    simp [resolveL, ih, resolve_hpart store (h n (List.mem_cons_self ..))]

theorem filterMap_preorder_hpart {β : Type} {f : Node → Option β} (hf : NoneOn f) {n : Node}
    (h : HPart n) : (Node.preorder n).filterMap f = [] := by
  rcases h with (⟨p, ws, rfl, hws⟩ | ⟨p, s, rfl⟩ | ⟨p, s, rfl⟩) | ⟨p, ns, rfl, hns⟩
  · simp [Node.preorder, hf.c, filterMap_preorderL_leaf hf ws hws]
  · simp [Node.preorder, hf.o]
  · simp [Node.preorder, hf.p]
  · simp [Node.preorder, hf.pl, filterMap_preorderL_g hf ns hns]

theorem filterMap_preorderL_allH {β : Type} {f : Node → Option β} (hf : NoneOn f) :
    ∀ (ns : List Node), AllH ns → (Node.preorderL ns).filterMap f = []
  | [], _ => by simp [Node.preorderL]
  | n :: r, h => by
    have ih := filterMap_preorderL_allH hf r (fun m hm => h m (List.mem_cons_of_mem _ hm))
    simp [Node.preorderL, List.filterMap_append, ih,
      filterMap_preorder_hpart hf (h n (List.mem_cons_self ..))]

/-- `_endfinder` finds nothing in a tree of the sub-language -/
theorem nextIndex_hpart {n : Node} (h : HPart n) : nextIndex n = n.pos.2 := by
  unfold nextIndex Node.lastHeredocEnd
  rw [filterMap_preorder_hpart ⟨fun _ _ => rfl, fun _ _ => rfl, fun _ _ => rfl, fun _ _ => rfl,
    fun _ _ => rfl, fun _ _ => rfl, fun _ _ _ _ _ _ _ => rfl⟩ h]

theorem nextIndex_hlist {p : Span} {ns : List Node} (h : AllH ns) :
    nextIndex (Node.list p ns) = p.2 := by
  unfold nextIndex Node.lastHeredocEnd
  simp only [Node.preorder, List.filterMap_cons]
  rw [filterMap_preorderL_allH ⟨fun _ _ => rfl, fun _ _ => rfl, fun _ _ => rfl, fun _ _ => rfl,
    fun _ _ => rfl, fun _ _ => rfl, fun _ _ _ _ _ _ _ => rfl⟩ ns h]
  rfl

theorem GCmd.node_gpart (c : GCmd) (off : Nat) : GPart (c.node off) :=
  Or.inl ⟨_, _, rfl, GCmd.nodes_leaf c off⟩

theorem gprestNodes_allG : ∀ (cs : List GCmd) (a : Nat), AllG (gprestNodes a cs)
  | [], _ => fun _ h => by cases h
  | c :: cs, a => by
    intro n hn
    simp only [gprestNodes, List.mem_cons] at hn
    rcases hn with rfl | rfl | hn
    · exact Or.inr (Or.inr ⟨_, _, rfl⟩)
    · exact GCmd.node_gpart c _
    · exact gprestNodes_allG cs _ n hn

theorem GPE.node_hpart (e : GPE) (off : Nat) : HPart (e.node off) := by
  obtain ⟨c1, cs⟩ := e
  cases cs with
  | nil => exact Or.inl (GCmd.node_gpart c1 off)
  | cons c cs' =>
    refine Or.inr ⟨_, _, rfl, ?_⟩
    intro n hn
    simp only [List.mem_cons] at hn
    rcases hn with rfl | hn
    · exact GCmd.node_gpart c1 off
    · exact gprestNodes_allG (c :: cs') _ n (by simpa using hn)

theorem GPE.node_pos2 (e : GPE) (off : Nat) : (e.node off).pos.2 = e.endPos off := by
  obtain ⟨c1, cs⟩ := e
  cases cs with
  | nil => rfl
  | cons c cs' => rfl

theorem hrestNodes_allH : ∀ (es : List (Op × GPE)) (a : Nat), AllH (hrestNodes a es)
  | [], _ => fun _ h => by cases h
  | (o, e) :: es, a => by
    intro n hn
    simp only [hrestNodes, List.mem_cons] at hn
    rcases hn with rfl | rfl | hn
    · exact Or.inl (Or.inr (Or.inl ⟨_, _, rfl⟩))
    · exact GPE.node_hpart e _
    · exact hrestNodes_allH es _ n hn

theorem hlineNodes_allH (p1 : GPE) (es : List (Op × GPE)) (i a : Nat) :
    AllH (p1.node i :: hrestNodes a es) := by
  intro n hn
  simp only [List.mem_cons] at hn
  rcases hn with rfl | hn
  · exact GPE.node_hpart p1 i
  · exact hrestNodes_allH es a n hn

/-- the AST of a line `p₁ op₂ p₂ …` of pipelines of general commands (n ≥ 1) -/
def hlineNode (i : Nat) (p1 : GPE) (es : List (Op × GPE)) : Node :=
  mkSeq (i + p1.c1.lead.length) (hlastEnd (p1.endPos i) (i + p1.text.length) es)
    (p1.node i :: hrestNodes (i + p1.text.length) es)

theorem resolve_hlineNode (store : List RedirCell) (i : Nat) (p1 : GPE) (es : List (Op × GPE)) :
    resolve store (hlineNode i p1 es) = hlineNode i p1 es := by
  cases es with
  | nil => exact resolve_hpart store (GPE.node_hpart p1 i)
  | cons oe es' =>
    obtain ⟨o, e⟩ := oe
    show resolve store (Node.list _ _) = Node.list _ _
    rw [resolve, resolveL_allH _ _ (hlineNodes_allH p1 ((o, e) :: es') i _)]

theorem nextIndex_hlineNode (i : Nat) (p1 : GPE) (es : List (Op × GPE)) :
    nextIndex (hlineNode i p1 es) = hlastEnd (p1.endPos i) (i + p1.text.length) es := by
  cases es with
  | nil =>
    show nextIndex (p1.node i) = _
    rw [nextIndex_hpart (GPE.node_hpart p1 i), GPE.node_pos2]
    rfl
  | cons oe es' =>
    obtain ⟨o, e⟩ := oe
    show nextIndex (Node.list _ _) = _
    rw [nextIndex_hlist (hlineNodes_allH p1 ((o, e) :: es') i _)]

/-- `_parser.parse()` on a line of pipelines of general commands (n ≥ 1) -/
theorem tot_parserRun_H {L : Str} {adn : Bool} {p1 : GPE} {es : List (Op × GPE)} {l : Local}
    {i d : Nat} {nlr : Str}
    (hlen : L.length + 2 ≤ 1073741824) (hp1 : p1.OK) (hes : ∀ x ∈ es, x.2.OK)
    (hl : POK l) (hcur : histOK l.currentToken = true) (hso : startOK l.currentToken = true)
    (hL : L.drop i = p1.text ++ (hrestText es ++ '\n' :: nlr))
    (hf : hcost 0 es + p1.cost + 2 ≤ 1073741824) :
    Tot (parserRun (d + 1)) l ⟨L, i, adn⟩ (fun r _ _ => r = some (hlineNode i p1 es)) := by
  rw [C07.parserRun_succ]
  refine Tot.bind ?_
  obtain ⟨f, hf'⟩ : ∃ f, 1073741824 = (f + hcost 0 es) + p1.cost + 1 :=
    ⟨1073741824 - (hcost 0 es + p1.cost + 1), by omega⟩
  show Tot (engineLoop (C07.nestedOf d) 1073741824 {}) _ _ _
  rw [hf']
  refine run_seqH (nlr := nlr) hlen hp1 hes hl hcur hso hL ?_
  intro r l' T' hr
  exact finish_parserRun (N := hlineNode i p1 es) hr (fun st => resolve_hlineNode st i p1 es)

/-- the same after the trailing blanks and the newline of the previous line -/
theorem tot_parserRun_H_nl {L : Str} {adn : Bool} {p1 : GPE} {es : List (Op × GPE)} {l : Local}
    {i d : Nat} {nlr pre : Str}
    (hlen : L.length + 2 ≤ 1073741824) (hp1 : p1.OK) (hes : ∀ x ∈ es, x.2.OK)
    (hl : POK l) (hcur : histOK l.currentToken = true) (hpre : Blank pre)
    (hL : L.drop i = pre ++ '\n' :: (p1.text ++ (hrestText es ++ '\n' :: nlr)))
    (hf : hcost 0 es + p1.cost + 3 ≤ 1073741824) :
    Tot (parserRun (d + 1)) l ⟨L, i, adn⟩
      (fun r _ _ => r = some (hlineNode (i + pre.length + 1) p1 es)) := by
  rw [C07.parserRun_succ]
  refine Tot.bind ?_
  obtain ⟨f, hf'⟩ : ∃ f, 1073741824 = ((f + hcost 0 es) + p1.cost + 1) + 1 :=
    ⟨1073741824 - (hcost 0 es + p1.cost + 2), by omega⟩
  show Tot (engineLoop (C07.nestedOf d) 1073741824 {}) _ _ _
  rw [hf']
  refine Tot.loop_step ?_
  refine R_fetch0 ?_
  refine tot_nextToken_nl hl.wok hpre hL hlen ?_
  rw [symOfTok_nl]
  rw [step_nl0 (c := { stack := [], la := some (55, _), nlShifted := 0, consumed := [] })
    (la := (55, _)) rfl Tab.d0 rfl (show ((55 : Nat) == Tab.T.endTok) = false by decide)
    (show ((55 : Nat) == Tab.T.nlTok) = true by decide) Tab.a0n]
  refine Tot.pure ?_
  have hL2 : L.drop (i + pre.length + 1) = p1.text ++ (hrestText es ++ '\n' :: nlr) := by
    have := congrArg (List.drop (pre.length + 1)) hL
    rw [List.drop_drop] at this
    rw [Nat.add_assoc, this]
    simp
  refine run_seqH (nlr := nlr) hlen hp1 hes (hl.afterNL hcur _) rfl rfl hL2 ?_
  intro r l' T' hr
  exact finish_parserRun (N := hlineNode (i + pre.length + 1) p1 es) hr
    (fun st => resolve_hlineNode st _ p1 es)

end Bashlex.C02
