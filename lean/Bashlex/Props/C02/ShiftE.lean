/-
  C02 (round trip), part 20: `posshifter` on the ASTs of pipelines and of lists of pipelines.
-/
import Bashlex.Props.C02.PEGlue

namespace Bashlex.C02
open Bashlex
set_option linter.unusedSimpArgs false
set_option linter.unusedVariables false

theorem prestNodes_shift (k : Nat) : ∀ (cs : List SCmd) (a : Nat),
    Node.mapPosL (sh k) (prestNodes a cs) = prestNodes (a + k) cs
  | [], _ => by simp [prestNodes, Node.mapPosL]
  | c :: cs, a => by
    have ih := prestNodes_shift k cs (a + 1 + c.text.length)
    have hc := cmdNode_shift k (a + 1) c.lead c.w1 c.items
    have e1 : a + 1 + c.text.length + k = a + k + 1 + c.text.length := by omega
    have e2 : a + 1 + k = a + k + 1 := by omega
    simp only [Node.shift] at hc
    simp only [prestNodes, Node.mapPosL, Node.mapPos, sh, SCmd.node, hc, ih, e1, e2]

theorem mkPipe_shift (k s e : Nat) : ∀ (ns : List Node),
    (mkPipe s e ns).shift k = mkPipe (s + k) (e + k) (Node.mapPosL (sh k) ns)
  | [] => by simp [mkPipe, Node.shift, Node.mapPos, Node.mapPosL]
  | [n] => by simp [mkPipe, Node.shift, Node.mapPosL]
  | a :: b :: r => by simp [mkPipe, Node.shift, Node.mapPos, Node.mapPosL]

theorem PE.endPos_shift (e : PE) (k off : Nat) : e.endPos (off + k) = e.endPos off + k := by
  unfold PE.endPos
  have := lastEnd_shift k e.cs (e.c1.endPos off) (off + e.c1.text.length)
  have e1 : off + k + e.c1.text.length = off + e.c1.text.length + k := by omega
  rw [e1, _root_.Bashlex.C02.endPos_shift, this]

theorem PE.node_shift (e : PE) (k off : Nat) : (e.node off).shift k = e.node (off + k) := by
  have hc := cmdNode_shift k off e.c1.lead e.c1.w1 e.c1.items
  simp only [Node.shift] at hc
  have hr := prestNodes_shift k e.cs (off + e.c1.text.length)
  have e1 : off + e.c1.text.length + k = off + k + e.c1.text.length := by omega
  have e2 : off + e.c1.lead.length + k = off + k + e.c1.lead.length := by omega
  unfold PE.node
  rw [mkPipe_shift]
  simp only [Node.mapPosL, SCmd.node, hc, hr, PE.endPos_shift, e1, e2]

theorem erestNodes_shift (k : Nat) : ∀ (es : List (Op × PE)) (a : Nat),
    Node.mapPosL (sh k) (erestNodes a es) = erestNodes (a + k) es
  | [], _ => by simp [erestNodes, Node.mapPosL]
  | (o, e) :: es, a => by
    have ih := erestNodes_shift k es (a + o.txt.length + e.text.length)
    have hc := PE.node_shift e k (a + o.txt.length)
    have e1 : a + o.txt.length + e.text.length + k = a + k + o.txt.length + e.text.length := by omega
    have e2 : a + o.txt.length + k = a + k + o.txt.length := by omega
    simp only [Node.shift] at hc
    simp only [erestNodes, Node.mapPosL, Node.mapPos, sh, hc, ih, e1, e2]

theorem elastEnd_shift (k : Nat) : ∀ (es : List (Op × PE)) (e0 a : Nat),
    elastEnd (e0 + k) (a + k) es = elastEnd e0 a es + k
  | [], _, _ => rfl
  | (o, e) :: es, e0, a => by
    have ih := elastEnd_shift k es (e.endPos (a + o.txt.length)) (a + o.txt.length + e.text.length)
    have e1 : a + k + o.txt.length + e.text.length = a + o.txt.length + e.text.length + k := by omega
    have e2 : a + k + o.txt.length = a + o.txt.length + k := by omega
    show elastEnd (e.endPos (a + k + o.txt.length)) (a + k + o.txt.length + e.text.length) es =
      elastEnd (e.endPos (a + o.txt.length)) (a + o.txt.length + e.text.length) es + k
    rw [e1, e2, PE.endPos_shift e k (a + o.txt.length)]
    exact ih

/-- **shifting the AST of a line of pipelines** -/
theorem elineNode_shift (k i : Nat) (p1 : PE) (es : List (Op × PE)) :
    (elineNode i p1 es).shift k = elineNode (i + k) p1 es := by
  have hc := PE.node_shift p1 k i
  simp only [Node.shift] at hc
  have hr := erestNodes_shift k es (i + p1.text.length)
  have hl := elastEnd_shift k es (p1.endPos i) (i + p1.text.length)
  have e1 : i + p1.text.length + k = i + k + p1.text.length := by omega
  have e2 : i + p1.c1.lead.length + k = i + k + p1.c1.lead.length := by omega
  unfold elineNode
  rw [mkSeq_shift]
  simp only [Node.mapPosL, hc, hr, ← hl, PE.endPos_shift, e1, e2]

end Bashlex.C02
