/-
  C02 (round trip), part 4: the LR engine, one step at a time, as total-correctness rules.
-/
import Bashlex.Props.C02.Tot
import Bashlex.Props.C02.Tables

namespace Bashlex.C02
open Bashlex Bashlex.M Bashlex.LR
set_option linter.unusedSimpArgs false
set_option linter.unusedVariables false

variable {V : Type} {T : Tables} {H : Hooks V} {l : Local} {Tp : Tape}

/-- a reduction -/
theorem tot_doReduce {c : Cfg V} {p lhs : Nat} {rhs : List Nat} {es : List (Entry V)}
    {rest : Stack V} {t : Nat} {P : Cfg V ⊕ Res V → Local → Tape → Prop}
    (hp : T.prods[p]? = some (lhs, rhs)) (hpop : popN rhs.length c.stack = some (es, rest))
    (hg : T.goto (topState rest) lhs = some t)
    (h : Tot (H.act p (es.map (·.val))) l Tp (fun r l' T' =>
      if r.2 = true then
        P (.inr (.accepted r.1 (Tree.node p lhs (es.map (·.tree))) c.consumed false)) l' T'
      else P (.inl { c with stack := { state := t, tree := Tree.node p lhs (es.map (·.tree)), val := r.1 } :: rest }) l' T')) :
    Tot (doReduce T H c p) l Tp P := by
  unfold doReduce
  simp only [hp, hpop]
  refine Tot.bind (h.mono ?_)
  intro r l' T' hr
  obtain ⟨v, acc⟩ := r
  simp only [hg]
  cases acc with
  | true => simp only [if_true] at hr ⊢; exact Tot.pure hr
  | false => simp only [Bool.false_eq_true, if_false] at hr ⊢; exact Tot.pure hr

/-- a defaulted state reduces without looking at the input -/
theorem step_dflt {c : Cfg V} {p : Nat} (hd : T.dflt (topState c.stack) = some p) :
    step T H c = doReduce T H c p := by
  unfold step
  simp only [hd]

/-- a state that needs the look-ahead fetches it -/
theorem step_fetch {c : Cfg V} (hd : T.dflt (topState c.stack) = none) (hla : c.la = none) :
    step T H c = H.next >>= fun la => step T H { c with la := some la } := by
  unfold step
  simp only [hd, hla, pure_bind]

/-- with the look-ahead in hand, outside state 0: shift -/
theorem step_shift {c : Cfg V} {la : Nat × V} {t : Nat} (hd : T.dflt (topState c.stack) = none)
    (hla : c.la = some la) (h0 : (topState c.stack == 0) = false)
    (ha : T.action (topState c.stack) la.1 = some (.shift t)) :
    step T H c = pure (.inl { c with la := none, stack := { state := t, tree := .leaf la.1, val := la.2 } :: c.stack, consumed := c.consumed ++ [la.1] }) := by
  unfold step
  simp only [hd, hla, pure_bind, h0, Bool.false_and, Bool.false_eq_true, if_false, ha]

/-- with the look-ahead in hand, outside state 0: reduce -/
theorem step_reduce {c : Cfg V} {la : Nat × V} {p : Nat} (hd : T.dflt (topState c.stack) = none)
    (hla : c.la = some la) (h0 : (topState c.stack == 0) = false)
    (ha : T.action (topState c.stack) la.1 = some (.reduce p)) :
    step T H c = doReduce T H { c with la := some la } p := by
  unfold step
  simp only [hd, hla, pure_bind, h0, Bool.false_and, Bool.false_eq_true, if_false, ha]

/-- state 0 with a look-ahead that is neither `$end` nor NEWLINE: shift -/
theorem step_shift0 {c : Cfg V} {la : Nat × V} {t : Nat} (hs : c.stack = [])
    (hd : T.dflt 0 = none) (hla : c.la = some la) (he : (la.1 == T.endTok) = false)
    (hn : (la.1 == T.nlTok) = false) (ha : T.action 0 la.1 = some (.shift t)) :
    step T H c = pure (.inl { c with la := none, stack := [{ state := t, tree := .leaf la.1, val := la.2 }], consumed := c.consumed ++ [la.1] }) := by
  unfold step
  simp only [hs, topState, hd, hla, pure_bind, he, hn, Bool.false_and, Bool.and_false,
    Bool.false_eq_true, if_false, ha]

/-- state 0, NEWLINE in hand: counted, not pushed -/
theorem step_nl0 {c : Cfg V} {la : Nat × V} {t : Nat} (hs : c.stack = [])
    (hd : T.dflt 0 = none) (hla : c.la = some la) (he : (la.1 == T.endTok) = false)
    (hn : (la.1 == T.nlTok) = true) (ha : T.action 0 la.1 = some (.shift t)) :
    step T H c = pure (.inl { c with la := none, nlShifted := c.nlShifted + 1, consumed := c.consumed ++ [la.1] }) := by
  unfold step
  simp only [hs, topState, hd, hla, pure_bind, he, hn, Bool.false_and, Bool.and_false,
    Bool.false_eq_true, if_false, ha, beq_self_eq_true, Bool.true_and, if_true]

/-- state 0, `$end` in hand, nothing on the stack: the all-newline return -/
theorem step_blank0 {c : Cfg V} {la : Nat × V} (hs : c.stack = [])
    (hd : T.dflt 0 = none) (hla : c.la = some la) (he : (la.1 == T.endTok) = true) :
    step T H c = pure (.inr (.blank c.nlShifted c.consumed)) := by
  unfold step
  simp only [hs, topState, hd, hla, pure_bind, he, beq_self_eq_true, Bool.true_and, List.all_nil,
    if_true]

/-- with a look-ahead that is neither `$end` nor NEWLINE in hand, in any state: shift -/
theorem step_shiftG {c : Cfg V} {la : Nat × V} {t : Nat} (hd : T.dflt (topState c.stack) = none)
    (hla : c.la = some la) (he : (la.1 == T.endTok) = false) (hn : (la.1 == T.nlTok) = false)
    (ha : T.action (topState c.stack) la.1 = some (.shift t)) :
    step T H c = pure (.inl { c with la := none, stack := { state := t, tree := .leaf la.1, val := la.2 } :: c.stack, consumed := c.consumed ++ [la.1] }) := by
  unfold step
  simp only [hd, hla, pure_bind, he, hn, Bool.false_and, Bool.and_false, Bool.false_eq_true,
    if_false, ha]

end Bashlex.C02
