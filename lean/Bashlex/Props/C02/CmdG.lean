/-
  C02 (round trip), part 22: GENERAL simple commands — a sequence of ITEMS (assignments in command
  position, words — possibly of the form `a=b` outside command position; further kinds are added by
  extending `Item`), and the run of the engine over one such command (the general `cmd_run`).
-/
import Bashlex.Props.C02.Cmd
import Bashlex.Props.C02.TokG
import Bashlex.Props.C02.TokNum
import Bashlex.Props.C02.SeqOps
import Bashlex.Props.C02.TokRedir

namespace Bashlex.C02
open Bashlex Bashlex.M Bashlex.LR
set_option linter.unusedSimpArgs false
set_option linter.unusedVariables false

/-- an element of a simple command -/
inductive Item where
  /-- a WORD: `w` over the class (it may look like an assignment outside command position) -/
  | word (w : Str)
  /-- an ASSIGNMENT_WORD `name=value` (only in command position) -/
  | assign (w : Str)
  deriving DecidableEq, Repr

namespace Item
def text : Item → Str
  | word w => w
  | assign w => w
/-- its node when its text starts at offset `a` -/
def node (a : Nat) : Item → Node
  | word w => Node.word (a, a + w.length) w []
  | assign w => Node.assignment (a, a + w.length) w []
/-- its token -/
def tok (a : Nat) : Item → Token
  | word w => genTok a (a + w.length) w false
  | assign w => awTok a (a + w.length) w
def sym : Item → Nat
  | word _ => 24
  | assign _ => 25
/-- the state after its token is shifted over a base / over `simple_command` (state 13) -/
def shB : Item → Nat
  | word _ => 29
  | assign _ => 33
def sh13 : Item → Nat
  | word _ => 75
  | assign _ => 33
def prod : Item → Nat
  | word _ => 51
  | assign _ => 52
/-- is an assignment acceptable right after it -/
def after : Item → Bool
  | word _ => false
  | assign _ => true
/-- engine steps it takes -/
def cost : Item → Nat
  | word _ => 3
  | assign _ => 3
/-- valid where assignments are (`pos = true`) / are not acceptable -/
def OK (pos : Bool) : Item → Prop
  | word w => GenWord w ∧ (pos = true → looksAssign w = false)
  | assign w => pos = true ∧ GenWord w ∧ looksAssign w = true

instance (pos : Bool) (it : Item) : Decidable (it.OK pos) := by
  cases it <;> (unfold OK; exact inferInstance)

theorem gen {pos : Bool} {it : Item} (h : it.OK pos) : GenWord it.text := by
  cases it with
  | word w => exact h.1
  | assign w => exact h.2.1

theorem tok_eq {pos : Bool} {it : Item} (h : it.OK pos) (a : Nat) :
    genTok a (a + it.text.length) it.text pos = it.tok a := by
  cases it with
  | word w =>
    obtain ⟨_, h2⟩ := h
    cases hl : looksAssign w with
    | false => simp [genTok, tok, text, hl]
    | true =>
      cases pos with
      | false => rfl
      | true => rw [h2 rfl] at hl; cases hl
  | assign w =>
    obtain ⟨rfl, _, h3⟩ := h
    simp [genTok, tok, text, h3]

theorem tok_sym (it : Item) (a : Nat) : symOfTok (it.tok a) = it.sym := by
  cases it with
  | word w =>
    show symOfTok (genTok a (a + w.length) w false) = 24
    unfold genTok
    split
    · exact Tab.symWORD
    · exact Tab.symWORD
  | assign w => exact Tab.symAW

theorem tok_hist (it : Item) (a : Nat) : histOK (it.tok a) = true := by
  cases it with
  | word w =>
    show histOK (genTok a (a + w.length) w false) = true
    unfold genTok
    split <;> rfl
  | assign w => rfl

theorem nodePos_node (it : Item) (a : Nat) : nodePos (it.node a) = pure (a, a + it.text.length) := by
  cases it <;> rfl

theorem sym_ne_end (it : Item) : (it.sym == Tab.T.endTok) = false := by cases it <;> rfl
theorem sym_ne_nl (it : Item) : (it.sym == Tab.T.nlTok) = false := by cases it <;> rfl
theorem d13 (it : Item) : Tab.T.dflt it.sh13 = none := by
  cases it
  · exact Tab.d75
  · exact Tab.d33
theorem dB (it : Item) : Tab.T.dflt it.shB = none := by
  cases it
  · exact Tab.d29
  · exact Tab.d33
theorem ne13 (it : Item) : (it.sh13 == 0) = false := by cases it <;> rfl
theorem neB (it : Item) : (it.shB == 0) = false := by cases it <;> rfl
theorem a13 (it : Item) : Tab.T.action 13 it.sym = some (.shift it.sh13) := by
  cases it
  · exact Tab.a13w
  · exact Tab.a13A
theorem pprod (it : Item) : Tab.T.prods[it.prod]? = some (63, [it.sym]) := by
  cases it
  · exact Tab.p51
  · exact Tab.p52
theorem fprod (it : Item) : Gen.prodFuncs.getD it.prod "" = "p_simple_command_element" := by
  cases it
  · exact Tab.f51
  · exact Tab.f52
end Item

/-- what the word-level states do on a terminal (a terminator, or the first terminal of the next
    item) -/
structure TermG (ts : Nat) : Prop where
  w : TermW ts
  a33 : Tab.T.action 33 ts = some (.reduce 52)
  r118 : Tab.T.action 118 ts = some (.reduce 13)
  r119 : Tab.T.action 119 ts = some (.reduce 14)
  r120 : Tab.T.action 120 ts = some (.reduce 19)
  a34 : Tab.T.action 34 ts = some (.reduce 53)
  r165 : Tab.T.action 165 ts = some (.reduce 15)
  r166 : Tab.T.action 166 ts = some (.reduce 16)
  r167 : Tab.T.action 167 ts = some (.reduce 20)

theorem Item.red13 (it : Item) {ts : Nat} (h : TermG ts) :
    Tab.T.action it.sh13 ts = some (.reduce it.prod) := by
  cases it
  · exact h.w.a75
  · exact h.a33
theorem Item.redB (it : Item) {ts : Nat} (h : TermG ts) :
    Tab.T.action it.shB ts = some (.reduce it.prod) := by
  cases it
  · exact h.w.a29
  · exact h.a33

theorem termG24 : TermG 24 :=
  ⟨⟨Tab.a29w, Tab.a17w, Tab.a75w, Tab.a74w⟩, Tab.a33w, Tab.a118w, Tab.a119w, Tab.a120w, Tab.a34w, Tab.a165w, Tab.a166w, Tab.a167w⟩
theorem termG25 : TermG 25 :=
  ⟨⟨Tab.a29A, Tab.a17A, Tab.a75A, Tab.a74A⟩, Tab.a33A, Tab.a118A, Tab.a119A, Tab.a120A, Tab.a34A, Tab.a165A, Tab.a166A, Tab.a167A⟩
theorem termG57 : TermG 57 :=
  ⟨⟨Tab.a29g, Tab.a17g, Tab.a75g, Tab.a74g⟩, Tab.a33g, Tab.a118g, Tab.a119g, Tab.a120g, Tab.a34g, Tab.a165g, Tab.a166g, Tab.a167g⟩
theorem termG56 : TermG 56 :=
  ⟨⟨Tab.a29l, Tab.a17l, Tab.a75l, Tab.a74l⟩, Tab.a33l, Tab.a118l, Tab.a119l, Tab.a120l, Tab.a34l, Tab.a165l, Tab.a166l, Tab.a167l⟩
theorem termG33 : TermG 33 :=
  ⟨⟨Tab.a29G, Tab.a17G, Tab.a75G, Tab.a74G⟩, Tab.a33G, Tab.a118G, Tab.a119G, Tab.a120G, Tab.a34G, Tab.a165G, Tab.a166G, Tab.a167G⟩
theorem termG27 : TermG 27 :=
  ⟨⟨Tab.a29N, Tab.a17N, Tab.a75N, Tab.a74N⟩, Tab.a33N, Tab.a118N, Tab.a119N, Tab.a120N, Tab.a34N,
    Tab.a165N, Tab.a166N, Tab.a167N⟩
theorem Item.termG (it : Item) : TermG it.sym := by
  cases it
  · exact termG24
  · exact termG25
theorem termGNL : TermG 55 := ⟨termNL.w, Tab.a33n, Tab.a118n, Tab.a119n, Tab.a120n, Tab.a34n, Tab.a165n, Tab.a166n, Tab.a167n⟩
theorem termGBAR : TermG 52 :=
  ⟨⟨Tab.a29b, Tab.a17b, Tab.a75b, Tab.a74b⟩, Tab.a33b, Tab.a118b, Tab.a119b, Tab.a120b, Tab.a34b, Tab.a165b, Tab.a166b, Tab.a167b⟩
theorem Op.termG (o : Op) : TermG o.sym := by
  cases o
  · exact ⟨termSEMI.w, Tab.a33s, Tab.a118s, Tab.a119s, Tab.a120s, Tab.a34s, Tab.a165s, Tab.a166s, Tab.a167s⟩
  · exact ⟨termAND.w, Tab.a33a, Tab.a118a, Tab.a119a, Tab.a120a, Tab.a34a, Tab.a165a, Tab.a166a, Tab.a167a⟩
  · exact ⟨termOR.w, Tab.a33o, Tab.a118o, Tab.a119o, Tab.a120o, Tab.a34o, Tab.a165o, Tab.a166o, Tab.a167o⟩

/-! ## acceptability bookkeeping -/

/-- the token before a command: a reserved word / an assignment is acceptable after it, whatever
    the rest of the parser object says -/
def startOK (t : Token) : Bool := commandTokenPosition ({} : Local) t

theorem start_cmdpos {t : Token} (h : startOK t = true) (l : Local) :
    commandTokenPosition l t = true := by
  unfold startOK commandTokenPosition reservedWordAcceptable at h
  unfold commandTokenPosition reservedWordAcceptable
  simp only [Bool.or_eq_true, Bool.and_eq_true, Bool.not_eq_true'] at h ⊢
  rcases h with (h | h) | ⟨h1, h2⟩
  · exact Or.inl (Or.inl h)
  · cases h
  · refine Or.inr ⟨h1, ?_⟩
    rcases h2 with h2 | h2
    · exact Or.inl h2
    · simp [Token.is, Token.null] at h2

theorem start_acc {t : Token} (h : startOK t = true) {l : Local} (hps : PSOK l) :
    assignmentAcceptable l t = true := by
  unfold assignmentAcceptable
  rw [start_cmdpos h l, hps.cp]; rfl

theorem gen_not_reservedChar {ch : Char} (hc : wordChar ch = true) : ¬ ch ∈ reservedChars := by
  intro hm
  have hcon := List.contains_iff_mem.mpr hm
  have : reservedChars.contains ch = false := by
    simp only [reservedChars, List.contains_cons, List.contains_nil, Bool.or_false,
      wc_ne (by decide : wordChar '\n' = false) hc, wc_ne (by decide : wordChar ';' = false) hc,
      wc_ne (by decide : wordChar '(' = false) hc, wc_ne (by decide : wordChar ')' = false) hc,
      wc_ne (by decide : wordChar '|' = false) hc, wc_ne (by decide : wordChar '&' = false) hc,
      wc_ne (by decide : wordChar '{' = false) hc, wc_ne (by decide : wordChar '}' = false) hc,
      Bool.or_self]
  rw [this] at hcon; cases hcon

/-- after an item no reserved word is acceptable -/
theorem racc_item {pos : Bool} {it : Item} (h : it.OK pos) (a : Nat) {l : Local}
    (hh : histOK l.tokenBeforeThat = true) : reservedWordAcceptable l (it.tok a) = false := by
  obtain ⟨_, _, _, _, _, _, b7, _, _⟩ := histOK_is hh
  obtain ⟨hne, hp⟩ := Item.gen h
  unfold reservedWordAcceptable
  cases it with
  | word w =>
    have e1 : (Item.tok a (.word w)).truthy = true := by
      show (genTok a (a + w.length) w false).truthy = true
      unfold genTok; split <;> rfl
    have e2 : (Item.tok a (.word w)).ttype = some .WORD := by
      show (genTok a (a + w.length) w false).ttype = some .WORD
      unfold genTok; split <;> rfl
    have e3 : (Item.tok a (.word w)).value = .str w := by
      show (genTok a (a + w.length) w false).value = .str w
      unfold genTok; split <;> rfl
    rw [e1, e2, e3, b7]
    simp only [Item.text] at hp
    match w, hp with
    | [], _ => simp [reservedTypes]
    | [ch], hp => simp [reservedTypes, gen_not_reservedChar (hp ch (List.mem_cons_self ..))]
    | _ :: _ :: _, _ => simp [reservedTypes]
  | assign w =>
    have e1 : (Item.tok a (.assign w)).truthy = true := rfl
    have e2 : (Item.tok a (.assign w)).ttype = some .ASSIGNMENT_WORD := rfl
    have e3 : (Item.tok a (.assign w)).value = .str w := rfl
    rw [e1, e2, e3, b7]
    simp only [Item.text] at hp
    match w, hp with
    | [], _ => simp [reservedTypes]
    | [ch], hp => simp [reservedTypes, gen_not_reservedChar (hp ch (List.mem_cons_self ..))]
    | _ :: _ :: _, _ => simp [reservedTypes]

/-- is an assignment acceptable after an item: yes after an assignment, no after a word -/
theorem acc_item {pos : Bool} {it : Item} (h : it.OK pos) (a : Nat) {l : Local} (hps : PSOK l)
    (hh : histOK l.tokenBeforeThat = true) : assignmentAcceptable l (it.tok a) = it.after := by
  have hr := racc_item h a hh
  unfold assignmentAcceptable commandTokenPosition
  rw [hr, hps.rl, hps.cp]
  cases it with
  | word w =>
    have : (Item.tok a (.word w)).is .ASSIGNMENT_WORD = false := by
      show (genTok a (a + w.length) w false).is .ASSIGNMENT_WORD = false
      unfold genTok; split <;> rfl
    rw [this]; simp [Item.after]
  | assign w =>
    have : (Item.tok a (.assign w)).is .ASSIGNMENT_WORD = true := rfl
    rw [this]; simp [Item.after]

theorem lookup_mem {α β : Type} [BEq α] {a : α} {b : β} : ∀ {l : List (α × β)},
    List.lookup a l = some b → ∃ k, (k, b) ∈ l ∧ (a == k) = true
  | [], h => by simp [List.lookup] at h
  | (k, v) :: r, h => by
    rw [List.lookup] at h
    cases hk : a == k with
    | true =>
      rw [hk] at h
      simp only [Option.some.injEq] at h
      subst h
      exact ⟨k, List.mem_cons_self .., hk⟩
    | false =>
      rw [hk] at h
      obtain ⟨k', hm, hk'⟩ := lookup_mem h
      exact ⟨k', List.mem_cons_of_mem _ hm, hk'⟩

/-- no reserved word looks like an assignment -/
theorem looks_not_reserved {w : Str} (h : looksAssign w = true) :
    reservedFirstCommandChars.lookup w = none := by
  cases hl : reservedFirstCommandChars.lookup w with
  | none => rfl
  | some t =>
    obtain ⟨k, hm, hk⟩ := lookup_mem hl
    have : w = k := eq_of_beq hk
    subst this
    have hall : reservedFirstCommandChars.all (fun p => !looksAssign p.1) = true := by decide
    have := List.all_eq_true.mp hall _ hm
    simp [h] at this

/-! ## word expansion and the action on an item -/

theorem noExp_gen : ∀ (w : Str), (∀ x ∈ w, wordChar x = true) → C06.noExp w = true
  | [], _ => rfl
  | c :: r, h => by
    have hc : wordChar c = true := h c (List.mem_cons_self ..)
    rw [C06.noExp_cons]
    refine ⟨?_, noExp_gen r (fun x hx => h x (List.mem_cons_of_mem _ hx))⟩
    simp only [C06.isExpChar, wc_ne (by decide : wordChar '$' = false) hc,
      wc_ne (by decide : wordChar '`' = false) hc, wc_ne (by decide : wordChar '<' = false) hc,
      wc_ne (by decide : wordChar '>' = false) hc, wc_ne (by decide : wordChar '~' = false) hc,
      Bool.or_self]

theorem stripGo_genWord (q : Bool) : ∀ (w : Str), (∀ x ∈ w, wordChar x = true) →
    C06.stripGo q w = some w
  | [], _ => C06.stripGo_nil q
  | c :: r, h => by
    have hc : wordChar c = true := h c (List.mem_cons_self ..)
    rw [C06.stripGo_plain q c r (wc_ne' (by decide) hc) (wc_ne' (by decide) hc)
      (wc_ne' (by decide) hc), stripGo_genWord q r (fun x hx => h x (List.mem_cons_of_mem _ hx))]
    rfl

theorem stripPure_gen (q : Bool) {w : Str} (hw : GenWord w) : C06.stripPure w q = some w := by
  obtain ⟨hne, hp⟩ := hw
  unfold C06.stripPure
  have : C06.wholeSQ w = false := by
    cases w with
    | nil => exact absurd rfl hne
    | cons c r =>
      have hc : wordChar c = true := hp c (List.mem_cons_self ..)
      have := wc_ne' (by decide : wordChar '\'' = false) hc
      simp [C06.wholeSQ, this]
  rw [this]
  simp only [Bool.false_eq_true, if_false]
  exact stripGo_genWord q w hp

/-- `parser._expandword` on an unquoted token over the class -/
theorem tot_expandword_gen {np : NestedParse} {t : Token} {a k : Nat} {w : Str} {l : Local}
    {T : Tape} {P : Node → Local → Tape → Prop} (hw : GenWord w) (hv : t.valueStr = w)
    (hp : t.pos = some (a, k)) (hq : t.flags.contains .QUOTED = false)
    (h : P (.word (a, k) w []) l T) : Tot (expandword np t) l T P := by
  have hlp : t.lexpos = a := by simp [Token.lexpos, hp]
  have hep : t.endlexpos = k := by simp [Token.endlexpos, hp]
  by_cases hl : l.limit = some (-1)
  · unfold expandword
    refine Tot.bind (Tot.get ?_)
    simp only [hl, beq_self_eq_true, if_true, hlp, hep, hv]
    exact Tot.pure h
  · have := fun e => C06.expandword_plain_run np t w (by rw [hv]; exact noExp_gen w hw.2)
      ⟨fun hh => ?_, fun hq' => by rw [hq] at hq'; cases hq'⟩ (by rw [hv]; exact stripPure_gen _ hw) l e hl
    · rw [hlp, hep] at this
      exact Tot.of_run this h
    · rw [hv] at hh
      obtain ⟨hne, hpp⟩ := hw
      cases w with
      | nil => cases hh
      | cons c r =>
        have hc : wordChar c = true := hpp c (List.mem_cons_self ..)
        simp only [List.head?_cons, Option.some.injEq] at hh
        exact absurd hh (wc_ne' (by decide) hc)

theorem act_item {np : NestedParse} {pos : Bool} {it : Item} (hok : it.OK pos) {a : Nat} {l : Local}
    {T : Tape} {P : SVal × Bool → Local → Tape → Prop}
    (h : P (.nodes [it.node a], false) l T) :
    Tot (action np "p_simple_command_element" [.tok (it.tok a)]) l T P := by
  refine tot_action_of_core ?_
  unfold actionCore; simp only []
  simp only [PCtx.slice, PCtx.tokAt, List.getD_cons_zero, Nat.sub_self]
  refine Tot.bind (Tot.pure ?_)
  cases it with
  | word w =>
    have hv : (Item.tok a (.word w)).valueStr = w := by
      show (genTok a (a + w.length) w false).valueStr = w
      unfold genTok; split <;> rfl
    have hp : (Item.tok a (.word w)).pos = some (a, a + w.length) := by
      show (genTok a (a + w.length) w false).pos = _
      unfold genTok; split <;> rfl
    have hq : (Item.tok a (.word w)).flags.contains .QUOTED = false := by
      show (genTok a (a + w.length) w false).flags.contains .QUOTED = false
      unfold genTok; split <;> rfl
    have hi : (Item.tok a (.word w)).is .ASSIGNMENT_WORD = false := by
      show (genTok a (a + w.length) w false).is .ASSIGNMENT_WORD = false
      unfold genTok; split <;> rfl
    refine Tot.bind (tot_expandword_gen hok.1 hv hp hq ?_)
    simp only [hi, Bool.false_eq_true, if_false]
    exact Tot.pure ⟨rfl, h⟩
  | assign w =>
    refine Tot.bind (tot_expandword_gen (t := Item.tok a (.assign w)) hok.2.1 rfl rfl rfl ?_)
    have hi : (Item.tok a (.assign w)).is .ASSIGNMENT_WORD = true := rfl
    simp only [hi, if_true]
    exact Tot.pure ⟨rfl, h⟩

/-- **`tokenizer.token()` on blanks followed by an item** -/
theorem tot_nextToken_item {l : Local} {L : Str} {adn : Bool} {b : Char} {g rest : Str} {i : Nat}
    {pos : Bool} {it : Item} {P : Token → Local → Tape → Prop}
    (hl : POK l) (hok : it.OK pos) (hacc : assignmentAcceptable (shiftH l) l.currentToken = pos)
    (h1 : histOK l.currentToken = true)
    (hb : endChar b = true) (hg : Blank g)
    (hL : L.drop i = g ++ it.text ++ b :: rest) (hlen : L.length + 2 ≤ 1073741824)
    (hres : reservedWordAcceptable (shiftH l) l.currentToken = true →
      reservedFirstCommandChars.lookup it.text = none)
    (h : P (it.tok (i + g.length)) (afterTok l (it.tok (i + g.length)))
      ⟨L, i + g.length + it.text.length, adn⟩) :
    Tot nextToken l ⟨L, i, adn⟩ P := by
  refine tot_nextToken_gen hl.wok hl.ps hacc h1 hl.hist (Item.gen hok) hb hg hL hlen hres ?_
  rw [Item.tok_eq hok]
  exact h

/-! ## redirections and the elements of a command after its first item -/

inductive ROp where
  | gt | lt | gg
  deriving DecidableEq, Repr

namespace ROp
def txt : ROp → Str
  | gt => ['>'] | lt => ['<'] | gg => ['>', '>']
def sym : ROp → Nat
  | gt => 57 | lt => 56 | gg => 33
def s1 : ROp → Nat
  | gt => 46 | lt => 47 | gg => 48
def s2 : ROp → Nat
  | gt => 118 | lt => 119 | gg => 120
def prod : ROp → Nat
  | gt => 13 | lt => 14 | gg => 19
def tok (o : ROp) (a : Nat) : Token :=
  match o with
  | gt => gtTok a | lt => ltTok a | gg => ggTok a
theorem tok_sym (o : ROp) (a : Nat) : symOfTok (o.tok a) = o.sym := by
  cases o
  · exact Tab.symGT
  · exact Tab.symLT
  · exact Tab.symGG
theorem tok_hist (o : ROp) (a : Nat) : histOK (o.tok a) = true := by cases o <;> rfl
theorem tok_lexpos (o : ROp) (a : Nat) : (o.tok a).lexpos = a := by cases o <;> rfl
theorem tok_valueStr (o : ROp) (a : Nat) : (o.tok a).valueStr = o.txt := by cases o <;> rfl
theorem a13 (o : ROp) : Tab.T.action 13 o.sym = some (.shift o.s1) := by
  cases o
  · exact Tab.a13r57
  · exact Tab.a13r56
  · exact Tab.a13r33
theorem d1 (o : ROp) : Tab.T.dflt o.s1 = none := by
  cases o
  · exact Tab.d46
  · exact Tab.d47
  · exact Tab.d48
theorem d2 (o : ROp) : Tab.T.dflt o.s2 = none := by
  cases o
  · exact Tab.d118
  · exact Tab.d119
  · exact Tab.d120
theorem ne1 (o : ROp) : (o.s1 == 0) = false := by cases o <;> rfl
theorem ne2 (o : ROp) : (o.s2 == 0) = false := by cases o <;> rfl
theorem a1w (o : ROp) : Tab.T.action o.s1 24 = some (.shift o.s2) := by
  cases o
  · exact Tab.a46w
  · exact Tab.a47w
  · exact Tab.a48w
theorem pp (o : ROp) : Tab.T.prods[o.prod]? = some (62, [o.sym, 24]) := by
  cases o
  · exact Tab.p13
  · exact Tab.p14
  · exact Tab.p19
theorem fp (o : ROp) : Gen.prodFuncs.getD o.prod "" = "p_redirection" := by
  cases o
  · exact Tab.f13
  · exact Tab.f14
  · exact Tab.f19
theorem red2 (o : ROp) {ts : Nat} (h : TermG ts) : Tab.T.action o.s2 ts = some (.reduce o.prod) := by
  cases o
  · exact h.r118
  · exact h.r119
  · exact h.r120
theorem termG (o : ROp) : TermG o.sym := by
  cases o
  · exact termG57
  · exact termG56
  · exact termG33
theorem txt_pos (o : ROp) : 0 < o.txt.length := by cases o <;> decide
def n1 : ROp → Nat
  | gt => 99 | lt => 100 | gg => 101
def n2 : ROp → Nat
  | gt => 165 | lt => 166 | gg => 167
def nprod : ROp → Nat
  | gt => 15 | lt => 16 | gg => 20
theorem a43 (o : ROp) : Tab.T.action 43 o.sym = some (.shift o.n1) := by
  cases o
  · exact Tab.a43g
  · exact Tab.a43l
  · exact Tab.a43G
theorem dn1 (o : ROp) : Tab.T.dflt o.n1 = none := by
  cases o
  · exact Tab.d99
  · exact Tab.d100
  · exact Tab.d101
theorem dn2 (o : ROp) : Tab.T.dflt o.n2 = none := by
  cases o
  · exact Tab.d165
  · exact Tab.d166
  · exact Tab.d167
theorem nen1 (o : ROp) : (o.n1 == 0) = false := by cases o <;> rfl
theorem nen2 (o : ROp) : (o.n2 == 0) = false := by cases o <;> rfl
theorem an1w (o : ROp) : Tab.T.action o.n1 24 = some (.shift o.n2) := by
  cases o
  · exact Tab.a99w
  · exact Tab.a100w
  · exact Tab.a101w
theorem npp (o : ROp) : Tab.T.prods[o.nprod]? = some (62, [27, o.sym, 24]) := by
  cases o
  · exact Tab.p15
  · exact Tab.p16
  · exact Tab.p20
theorem nfp (o : ROp) : Gen.prodFuncs.getD o.nprod "" = "p_redirection" := by
  cases o
  · exact Tab.f15
  · exact Tab.f16
  · exact Tab.f20
theorem redn2 (o : ROp) {ts : Nat} (h : TermG ts) : Tab.T.action o.n2 ts = some (.reduce o.nprod) := by
  cases o
  · exact h.r165
  · exact h.r166
  · exact h.r167
end ROp

/-- an element of a command after its first item: an item, or a redirection `op w` (blanks
    allowed between the operator and the word) -/
inductive Elem where
  | simple (it : Item)
  | redir (op : ROp) (g2 : Str) (w : Str)
  | nredir (n : Str) (op : ROp) (g2 : Str) (w : Str)
  deriving DecidableEq, Repr

namespace Elem
def text : Elem → Str
  | simple it => it.text
  | redir o g2 w => o.txt ++ g2 ++ w
  | nredir n o g2 w => n ++ o.txt ++ g2 ++ w
def node (a : Nat) : Elem → Node
  | simple it => it.node a
  | redir o g2 w =>
    Node.redirect (a, a + o.txt.length + g2.length + w.length) .none o.txt
      (some (Node.word (a + o.txt.length + g2.length, a + o.txt.length + g2.length + w.length) w []))
      .none none none
  | nredir n o g2 w =>
    Node.redirect (a, a + n.length + o.txt.length + g2.length + w.length) (.num (digitsToNat n)) o.txt
      (some (Node.word (a + n.length + o.txt.length + g2.length,
        a + n.length + o.txt.length + g2.length + w.length) w []))
      .none none none
/-- its first token -/
def tok (a : Nat) : Elem → Token
  | simple it => it.tok a
  | redir o _ _ => o.tok a
  | nredir n _ _ _ => numTok a (a + n.length) n
def sym : Elem → Nat
  | simple it => it.sym
  | redir o _ _ => o.sym
  | nredir _ _ _ _ => 27
/-- the length of the text of its first token, and the rest of its text -/
def tlen : Elem → Nat
  | simple it => it.text.length
  | redir o _ _ => o.txt.length
  | nredir n _ _ _ => n.length
def rest : Elem → Str
  | simple _ => []
  | redir _ g2 w => g2 ++ w
  | nredir _ o g2 w => o.txt ++ g2 ++ w
def after : Elem → Bool
  | simple it => it.after
  | redir _ _ _ => false
  | nredir _ _ _ _ => false
def cost : Elem → Nat
  | simple _ => 3
  | redir _ _ _ => 5
  | nredir _ _ _ _ => 6
def OK (pos : Bool) : Elem → Prop
  | simple it => it.OK pos
  | redir _ g2 w => Blank g2 ∧ GenWord w
  | nredir n _ g2 w => DigWord n ∧ Blank g2 ∧ GenWord w
instance (pos : Bool) (el : Elem) : Decidable (el.OK pos) := by
  cases el <;> (unfold OK; exact inferInstance)
def shB : Elem → Nat
  | simple it => it.shB
  | redir o _ _ => o.s1
  | nredir _ _ _ _ => 43
theorem sym_ne_end (el : Elem) : (el.sym == Tab.T.endTok) = false := by
  cases el with
  | simple it => exact it.sym_ne_end
  | redir o g2 w => cases o <;> rfl
  | nredir n o g2 w => rfl
theorem sym_ne_nl (el : Elem) : (el.sym == Tab.T.nlTok) = false := by
  cases el with
  | simple it => exact it.sym_ne_nl
  | redir o g2 w => cases o <;> rfl
  | nredir n o g2 w => rfl
theorem cost_ge (el : Elem) : 3 ≤ el.cost := by cases el <;> simp [cost]
theorem tok_sym (el : Elem) (a : Nat) : symOfTok (el.tok a) = el.sym := by
  cases el with
  | simple it => exact Item.tok_sym it a
  | redir o g2 w => exact ROp.tok_sym o a
  | nredir n o g2 w => exact Tab.symNUM
theorem tok_hist (el : Elem) (a : Nat) : histOK (el.tok a) = true := by
  cases el with
  | simple it => exact Item.tok_hist it a
  | redir o g2 w => exact ROp.tok_hist o a
  | nredir n o g2 w => rfl
theorem termG (el : Elem) : TermG el.sym := by
  cases el with
  | simple it => exact it.termG
  | redir o g2 w => exact o.termG
  | nredir n o g2 w => exact termG27
theorem text_len (el : Elem) : el.text.length = el.tlen + el.rest.length := by
  cases el <;> simp [text, tlen, rest, Nat.add_assoc]
theorem nodePos_node (el : Elem) (a : Nat) : nodePos (el.node a) = pure (a, a + el.text.length) := by
  cases el with
  | simple it => exact Item.nodePos_node it a
  | redir o g2 w =>
    show pure (a, a + o.txt.length + g2.length + w.length) = pure (a, a + (o.txt ++ g2 ++ w).length)
    simp [Nat.add_assoc]
  | nredir n o g2 w =>
    show pure (a, a + n.length + o.txt.length + g2.length + w.length) =
      pure (a, a + (n ++ o.txt ++ g2 ++ w).length)
    simp [Nat.add_assoc]
theorem text_pos {pos : Bool} {el : Elem} (h : el.OK pos) : 0 < el.text.length := by
  cases el with
  | simple it => exact List.length_pos_iff.mpr (Item.gen h).1
  | redir o g2 w => have := o.txt_pos; simp [text]; omega
  | nredir n o g2 w => have := o.txt_pos; simp [text]; omega
end Elem

/-! ## lists of elements -/

def spellJ : List (Str × Elem) → Str
  | [] => []
  | (g, it) :: r => g ++ it.text ++ spellJ r

def nodesJ (off : Nat) : List (Str × Elem) → List Node
  | [] => []
  | (g, it) :: r => it.node (off + g.length) :: nodesJ (off + g.length + it.text.length) r

def endJ (off : Nat) : List (Str × Elem) → Nat
  | [] => off
  | (g, it) :: r => endJ (off + g.length + it.text.length) r

def icost : List (Str × Elem) → Nat
  | [] => 0
  | (_, it) :: r => it.cost + icost r

/-- the elements are valid from a position where assignments are / are not acceptable; every gap
    is a non-empty run of blanks/tabs -/
def ItemsJ : Bool → List (Str × Elem) → Prop
  | _, [] => True
  | pos, (g, it) :: r => (g ≠ [] ∧ Blank g) ∧ it.OK pos ∧ ItemsJ it.after r

instance : ∀ (pos : Bool) (items : List (Str × Elem)), Decidable (ItemsJ pos items)
  | _, [] => isTrue trivial
  | pos, (g, it) :: r =>
    have := instDecidableItemsJ it.after r
    by unfold ItemsJ; exact inferInstance

theorem endJ_eq : ∀ (items : List (Str × Elem)) (off : Nat), endJ off items = off + (spellJ items).length
  | [], off => by simp [endJ, spellJ]
  | (g, it) :: r, off => by
    simp only [endJ, spellJ, List.length_append, endJ_eq r]
    omega

theorem after_itemJ : ∀ (rest : List (Str × Elem)) {pos : Bool} {R : Str} {b0 : Char} {r0 : Str},
    ItemsJ pos rest → R = b0 :: r0 → endChar b0 = true →
    ∃ b r, spellJ rest ++ R = b :: r ∧ endChar b = true
  | [], _, _, b0, r0, _, hR, hb0 => ⟨b0, r0, by simp [spellJ, hR], hb0⟩
  | (g, it) :: r, _, R, _, _, hi, _, _ => by
    have := hi.1
    cases g with
    | nil => exact absurd rfl this.1
    | cons y g' =>
      exact ⟨y, g' ++ it.text ++ spellJ r ++ R, by simp [spellJ],
        blank_endChar (this.2 y (List.mem_cons_self ..))⟩

theorem drop_into {L : Str} {p : Nat} {g : Str} {el' : Elem} {X : Str}
    (h : L.drop p = g ++ el'.text ++ X) : L.drop (p + g.length + el'.tlen) = el'.rest ++ X := by
  have := congrArg (List.drop (g.length + el'.tlen)) h
  rw [List.drop_drop] at this
  rw [Nat.add_assoc, this]
  have e6 : g ++ el'.text ++ X = (g ++ (el'.text.take el'.tlen)) ++ (el'.rest ++ X) := by
    cases el' <;> simp [Elem.text, Elem.tlen, Elem.rest]
  rw [e6]
  exact List.drop_left' (by cases el' <;> simp [Elem.text, Elem.tlen])

/-! ## the engine over the elements of one command -/

theorem Item.cost3 (it : Item) : it.cost = 3 := by cases it <;> rfl

theorem racc_op (o : ROp) (a : Nat) {l : Local} (hh : histOK l.tokenBeforeThat = true) :
    reservedWordAcceptable l (o.tok a) = false := by
  obtain ⟨_, _, _, _, _, _, b7, _, _⟩ := histOK_is hh
  unfold reservedWordAcceptable
  cases o <;> simp [ROp.tok, gtTok, ltTok, ggTok, Token.truthy, b7, reservedTypes, reservedChars]

theorem acc_op (o : ROp) (a : Nat) {l : Local} (hps : PSOK l) (hh : histOK l.tokenBeforeThat = true) :
    assignmentAcceptable l (o.tok a) = false := by
  have hr := racc_op o a hh
  unfold assignmentAcceptable commandTokenPosition
  rw [hr, hps.rl, hps.cp]
  cases o <;> simp [ROp.tok, gtTok, ltTok, ggTok, Token.is]

theorem bw_ne {d : Char} (h : shellblank d = true ∨ wordChar d = true) :
    d ≠ '>' ∧ d ≠ '<' ∧ d ≠ '&' ∧ d ≠ '|' ∧ d ≠ '(' ∧ d ≠ '\\' := by
  rcases h with h | h
  · refine ⟨?_, ?_, ?_, ?_, ?_, blank_ne_bs h⟩ <;> (intro hd; subst hd; revert h; decide)
  · exact ⟨wc_ne' (by decide) h, wc_ne' (by decide) h, wc_ne' (by decide) h, wc_ne' (by decide) h,
      wc_ne' (by decide) h, wc_ne' (by decide) h⟩

theorem redir_head {g2 w : Str} (hg : Blank g2) (hw : GenWord w) (X : Str) :
    ∃ d r, g2 ++ w ++ X = d :: r ∧ (shellblank d = true ∨ wordChar d = true) := by
  cases g2 with
  | nil =>
    obtain ⟨hne, hp⟩ := hw
    cases w with
    | nil => exact absurd rfl hne
    | cons c r => exact ⟨c, r ++ X, rfl, Or.inr (hp c (List.mem_cons_self ..))⟩
  | cons y t => exact ⟨y, t ++ w ++ X, by simp, Or.inl (hg y (List.mem_cons_self ..))⟩

section
variable {L : Str} {adn : Bool}

/-- **`tokenizer.token()` on blanks followed by an element** (its first token) -/
theorem tot_nextToken_elem {l : Local} {b : Char} {g rest : Str} {i : Nat}
    {pos : Bool} {el : Elem} {P : Token → Local → Tape → Prop}
    (hl : POK l) (hok : el.OK pos) (hacc : assignmentAcceptable (shiftH l) l.currentToken = pos)
    (h1 : histOK l.currentToken = true) (hb : endChar b = true) (hg : Blank g)
    (hL : L.drop i = g ++ el.text ++ b :: rest) (hlen : L.length + 2 ≤ 1073741824)
    (hres : ∀ it, el = .simple it → reservedWordAcceptable (shiftH l) l.currentToken = true →
      reservedFirstCommandChars.lookup it.text = none)
    (h : ∀ l'', POK l'' → l''.currentToken = el.tok (i + g.length) →
      P (el.tok (i + g.length)) l'' ⟨L, i + g.length + el.tlen, adn⟩) :
    Tot nextToken l ⟨L, i, adn⟩ P := by
  cases el with
  | simple it =>
    exact tot_nextToken_item hl hok hacc h1 hb hg hL hlen (hres it rfl)
      (h _ (hl.afterTok h1 _) rfl)
  | redir o g2 w =>
    obtain ⟨d, r, hd, hdw⟩ := redir_head hok.1 hok.2 (b :: rest)
    obtain ⟨d1, d2, d3, d4, d5, d6⟩ := bw_ne hdw
    cases o with
    | gt =>
      have hL' : L.drop i = g ++ '>' :: d :: r := by
        rw [hL, ← hd]; simp [Elem.text, ROp.txt]
      exact tot_nextToken_gt hl.wok hl.dp hg hL' d1 d3 d6 d4 d5 hlen (h _ (hl.afterNL h1 _) rfl)
    | lt =>
      have hL' : L.drop i = g ++ '<' :: d :: r := by
        rw [hL, ← hd]; simp [Elem.text, ROp.txt]
      exact tot_nextToken_lt hl.wok hl.dp hg hL' d2 d3 d6 d1 d5 hlen (h _ (hl.afterNL h1 _) rfl)
    | gg =>
      have hL' : L.drop i = g ++ '>' :: '>' :: (g2 ++ w ++ b :: rest) := by
        rw [hL]; simp [Elem.text, ROp.txt]
      exact tot_nextToken_gg hl.wok hl.dp hg hL' hlen (h _ (hl.afterNL h1 _) rfl)
  | nredir n o g2 w =>
    obtain ⟨d, r, hd, hdw⟩ := redir_head hok.2.1 hok.2.2 (b :: rest)
    obtain ⟨d1, d2, d3, d4, d5, d6⟩ := bw_ne hdw
    cases o with
    | gt =>
      have hL' : L.drop i = g ++ n ++ '>' :: d :: r := by
        rw [hL, ← hd]; simp [Elem.text, ROp.txt]
      exact tot_nextToken_num hl.wok h1 hok.1 (b := '>') rfl d6 d5 hg hL' hlen
        (h _ (hl.afterTok h1 _) rfl)
    | lt =>
      have hL' : L.drop i = g ++ n ++ '<' :: d :: r := by
        rw [hL, ← hd]; simp [Elem.text, ROp.txt]
      exact tot_nextToken_num hl.wok h1 hok.1 (b := '<') rfl d6 d5 hg hL' hlen
        (h _ (hl.afterTok h1 _) rfl)
    | gg =>
      have hL' : L.drop i = g ++ n ++ '>' :: '>' :: (g2 ++ w ++ b :: rest) := by
        rw [hL]; simp [Elem.text, ROp.txt]
      exact tot_nextToken_num hl.wok h1 hok.1 (b := '>') rfl (by decide) (by decide) hg hL' hlen
        (h _ (hl.afterTok h1 _) rfl)

end

section
variable {np : NestedParse} {L : Str} {adn : Bool} {P : Res SVal → Local → Tape → Prop}
  {base : Stack SVal} {b ts : Nat} {term : Token} {iT : Nat}

/-- the token after an element is fetched from a state whose current token is the last token
    (a WORD or an ASSIGNMENT_WORD) of the element -/
def NextTok (L : Str) (adn : Bool) (aft : Bool) (term : Token) (iE iT : Nat) : Prop :=
  ∀ (l1 : Local) (Q : Token → Local → Tape → Prop), POK l1 →
    (∃ itL posL bL, Item.OK posL itL ∧ l1.currentToken = Item.tok bL itL ∧ itL.after = aft) →
    (∀ l'', POK l'' → l''.currentToken = term → Q term l'' ⟨L, iT, adn⟩) →
    Tot nextToken l1 ⟨L, iE, adn⟩ Q

/-- **one element**: its first token in hand in state 13; afterwards `simple_command` holds its
    node too and the next token is in hand -/
theorem elem_step (hbase : topState base = b) (hB : BaseW b) (hlen : L.length + 2 ≤ 1073741824)
    {el : Elem} {pos : Bool} {ns : List Node} {a : Nat} {l : Local} {f' nl : Nat} {cons : List Nat}
    {tr : Tree} {bb : Char} {r' : Str}
    (hok : el.OK pos) (hl : POK l) (hcur : l.currentToken = el.tok a)
    (hLr : L.drop (a + el.tlen) = el.rest ++ bb :: r') (hbb : endChar bb = true)
    (hT : TermG ts) (hts : symOfTok term = ts)
    (hnext : NextTok L adn el.after term (a + el.text.length) iT)
    (hk : ∀ tr' nl' cons' l', POK l' → l'.currentToken = term → Tot (engineLoop np f'
        { stack := ⟨13, tr', .nodes (ns ++ [el.node a])⟩ :: base,
          la := some (ts, .tok term), nlShifted := nl', consumed := cons' }) l' ⟨L, iT, adn⟩ P) :
    Tot (engineLoop np (f' + el.cost)
      { stack := ⟨13, tr, .nodes ns⟩ :: base, la := some (el.sym, .tok (el.tok a)),
        nlShifted := nl, consumed := cons }) l ⟨L, a + el.tlen, adn⟩ P := by
  have hcurh : histOK l.currentToken = true := by rw [hcur]; exact Elem.tok_hist el a
  cases el with
  | simple it =>
    show Tot (engineLoop np (f' + 3) _) _ _ _
    refine Tot.loop_step ?_
    refine R_shift Tab.d13 rfl it.a13 ?_
    refine Tot.loop_step ?_
    refine R_fetch it.d13 ?_
    refine hnext l _ hl ⟨it, pos, a, hok, hcur, rfl⟩ ?_
    intro l'' hl'' hcur''
    rw [hts]
    refine R_reduce it.d13 it.ne13 (it.red13 hT) it.pprod rfl Tab.g13_63 it.fprod ?_
    refine act_item hok ?_
    simp only [Bool.false_eq_true, if_false]
    refine Tot.loop_step ?_
    refine R_reduce Tab.d74 rfl hT.w.a74 Tab.p57 rfl (by rw [hbase]; exact hB.g65) Tab.f57 ?_
    refine act_sc2 ?_
    simp only [Bool.false_eq_true, if_false]
    exact hk _ _ _ l'' hl'' hcur''
  | redir o g2 w =>
    show Tot (engineLoop np (f' + 5) _) _ _ _
    have hwok : (Item.word w).OK false := ⟨hok.2, fun h => by cases h⟩
    have hLw : L.drop (a + o.txt.length) = g2 ++ (Item.word w).text ++ bb :: r' := by
      simpa [Elem.tlen, Elem.rest, Item.text] using hLr
    have hacc : assignmentAcceptable (shiftH l) l.currentToken = false := by
      rw [hcur]; exact acc_op o a ⟨hl.ps.cp, hl.ps.rl, hl.ps.ca⟩ hl.hist
    refine Tot.loop_step ?_
    refine R_shift Tab.d13 rfl o.a13 ?_
    refine Tot.loop_step ?_
    refine R_fetch o.d1 ?_
    refine tot_nextToken_item hl hwok hacc hcurh hbb hok.1 hLw hlen ?_ ?_
    · intro h'
      have hcur' : l.currentToken = o.tok a := hcur
      rw [hcur', racc_op o a (l := shiftH l) hl.hist] at h'
      cases h'
    rw [Item.tok_sym]
    refine R_shift o.d1 o.ne1 o.a1w ?_
    refine Tot.loop_step ?_
    refine R_fetch o.d2 ?_
    have e1 : a + (Elem.redir o g2 w).text.length = a + o.txt.length + g2.length + (Item.word w).text.length := by
      simp [Elem.text, Item.text]; omega
    rw [e1] at hnext
    refine hnext _ _ (hl.afterTok hcurh _) ⟨.word w, false, _, hwok, rfl, rfl⟩ ?_
    intro l'' hl'' hcur''
    rw [hts]
    refine R_reduce o.d2 o.ne2 (o.red2 hT) o.pp rfl Tab.g13_62 o.fp ?_
    refine act_redir (wn := Node.word (a + o.txt.length + g2.length, a + o.txt.length + g2.length + w.length) w [])
      ?_ (fun Q hQ => ?_) ?_
    · show (genTok _ _ w false).is .WORD = true
      unfold genTok; split <;> rfl
    · have hv : (Item.tok (a + o.txt.length + g2.length) (.word w)).valueStr = w := by
        show (genTok _ _ w false).valueStr = w
        unfold genTok; split <;> rfl
      have hp : (Item.tok (a + o.txt.length + g2.length) (.word w)).pos =
          some (a + o.txt.length + g2.length, a + o.txt.length + g2.length + w.length) := by
        show (genTok _ _ w false).pos = _
        unfold genTok; split <;> rfl
      have hq : (Item.tok (a + o.txt.length + g2.length) (.word w)).flags.contains .QUOTED = false := by
        show (genTok _ _ w false).flags.contains .QUOTED = false
        unfold genTok; split <;> rfl
      exact tot_expandword_gen hok.2 hv hp hq hQ
    simp only [Bool.false_eq_true, if_false]
    refine Tot.loop_step ?_
    refine R_reduce Tab.d34 rfl hT.a34 Tab.p53 rfl Tab.g13_63 Tab.f53 ?_
    refine act_sce_node ?_
    simp only [Bool.false_eq_true, if_false]
    refine Tot.loop_step ?_
    refine R_reduce Tab.d74 rfl hT.w.a74 Tab.p57 rfl (by rw [hbase]; exact hB.g65) Tab.f57 ?_
    refine act_sc2 ?_
    simp only [Bool.false_eq_true, if_false]
    have hk' := fun tr9 => hk tr9 nl (cons ++ [o.sym] ++ [24]) l'' hl'' hcur''
    have hend : (Item.tok (a + o.txt.length + g2.length) (.word w)).endlexpos =
        a + o.txt.length + g2.length + w.length := by
      show (genTok _ _ w false).endlexpos = _
      unfold genTok; split <;> rfl
    simp only [Elem.node] at hk'
    have hlx : (Elem.tok a (Elem.redir o g2 w)).lexpos = a := ROp.tok_lexpos o a
    have hvs : (Elem.tok a (Elem.redir o g2 w)).valueStr = o.txt := ROp.tok_valueStr o a
    have hend' : (Item.tok (a + (Elem.redir o g2 w).tlen + g2.length) (.word w)).endlexpos =
        a + o.txt.length + g2.length + w.length := hend
    rw [hlx, hvs, hend']
    exact hk' _
  | nredir n o g2 w =>
    show Tot (engineLoop np (f' + 6) _) _ _ _
    have hwok : (Item.word w).OK false := ⟨hok.2.2, fun h => by cases h⟩
    have etl : (Elem.nredir n o g2 w).tlen = n.length := rfl
    simp only [etl] at hLr ⊢
    have hLo : L.drop (a + n.length) = [] ++ (Elem.redir o g2 w).text ++ bb :: r' := by
      simpa [Elem.tlen, Elem.rest, Elem.text] using hLr
    have hLw0 := drop_into hLo
    have hLw : L.drop (a + n.length + o.txt.length) = g2 ++ (Item.word w).text ++ bb :: r' := by
      simpa [Elem.tlen, Elem.rest, Item.text] using hLw0
    refine Tot.loop_step ?_
    refine R_shift Tab.d13 rfl Tab.a13N ?_
    refine Tot.loop_step ?_
    refine R_fetch Tab.d43 ?_
    refine tot_nextToken_elem (g := []) (pos := assignmentAcceptable (shiftH l) l.currentToken) hl
      (show (Elem.redir o g2 w).OK _ from ⟨hok.2.1, hok.2.2⟩) rfl hcurh hbb (fun _ h => by cases h) hLo hlen
      (fun it e => by cases e) ?_
    intro l1 hl1 hcur1
    have hcur1' : l1.currentToken = o.tok (a + n.length) := by simpa [Elem.tok] using hcur1
    have hcurh1 : histOK l1.currentToken = true := by rw [hcur1']; exact ROp.tok_hist o _
    have hacc1 : assignmentAcceptable (shiftH l1) l1.currentToken = false := by
      rw [hcur1']; exact acc_op o _ ⟨hl1.ps.cp, hl1.ps.rl, hl1.ps.ca⟩ hl1.hist
    have ep : a + n.length + ([] : Str).length + (Elem.redir o g2 w).tlen = a + n.length + o.txt.length := by
      simp [Elem.tlen]
    rw [ep, Elem.tok_sym]
    refine R_shift Tab.d43 rfl o.a43 ?_
    refine Tot.loop_step ?_
    refine R_fetch o.dn1 ?_
    refine tot_nextToken_item hl1 hwok hacc1 hcurh1 hbb hok.2.1 hLw hlen ?_ ?_
    · intro h'
      rw [hcur1', racc_op o _ (l := shiftH l1) hl1.hist] at h'
      cases h'
    rw [Item.tok_sym]
    refine R_shift o.dn1 o.nen1 o.an1w ?_
    refine Tot.loop_step ?_
    refine R_fetch o.dn2 ?_
    have e1 : a + (Elem.nredir n o g2 w).text.length =
        a + n.length + o.txt.length + g2.length + (Item.word w).text.length := by
      simp [Elem.text, Item.text]; omega
    rw [e1] at hnext
    refine hnext _ _ (hl1.afterTok hcurh1 _) ⟨.word w, false, _, hwok, rfl, rfl⟩ ?_
    intro l'' hl'' hcur''
    rw [hts]
    refine R_reduce o.dn2 o.nen2 (o.redn2 hT) o.npp rfl Tab.g13_62 o.nfp ?_
    refine act_redirN (k := digitsToNat n)
      (wn := Node.word (a + n.length + o.txt.length + g2.length,
        a + n.length + o.txt.length + g2.length + w.length) w [])
      ?_ rfl (fun Q hQ => ?_) ?_
    · show (genTok _ _ w false).is .WORD = true
      unfold genTok; split <;> rfl
    · have hv : (Item.tok (a + n.length + o.txt.length + g2.length) (.word w)).valueStr = w := by
        show (genTok _ _ w false).valueStr = w
        unfold genTok; split <;> rfl
      have hp : (Item.tok (a + n.length + o.txt.length + g2.length) (.word w)).pos =
          some (a + n.length + o.txt.length + g2.length,
            a + n.length + o.txt.length + g2.length + w.length) := by
        show (genTok _ _ w false).pos = _
        unfold genTok; split <;> rfl
      have hq : (Item.tok (a + n.length + o.txt.length + g2.length) (.word w)).flags.contains .QUOTED
          = false := by
        show (genTok _ _ w false).flags.contains .QUOTED = false
        unfold genTok; split <;> rfl
      exact tot_expandword_gen hok.2.2 hv hp hq hQ
    simp only [Bool.false_eq_true, if_false]
    refine Tot.loop_step ?_
    refine R_reduce Tab.d34 rfl hT.a34 Tab.p53 rfl Tab.g13_63 Tab.f53 ?_
    refine act_sce_node ?_
    simp only [Bool.false_eq_true, if_false]
    refine Tot.loop_step ?_
    refine R_reduce Tab.d74 rfl hT.w.a74 Tab.p57 rfl (by rw [hbase]; exact hB.g65) Tab.f57 ?_
    refine act_sc2 ?_
    simp only [Bool.false_eq_true, if_false]
    have hk' := fun tr9 cons9 => hk tr9 nl cons9 l'' hl'' hcur''
    have hend : (Item.tok (a + n.length + o.txt.length + g2.length) (.word w)).endlexpos =
        a + n.length + o.txt.length + g2.length + w.length := by
      show (genTok _ _ w false).endlexpos = _
      unfold genTok; split <;> rfl
    simp only [Elem.node] at hk'
    have hlx : (Elem.tok a (Elem.nredir n o g2 w)).lexpos = a := rfl
    have hvs : ((Elem.redir o g2 w).tok (a + n.length + ([] : Str).length)).valueStr = o.txt :=
      ROp.tok_valueStr o _
    rw [hlx, hvs, hend]
    exact hk' _ _

end

section
variable {np : NestedParse} {L : Str} {adn : Bool} {P : Res SVal → Local → Tape → Prop}
  {base : Stack SVal} {b ts : Nat} {term : Token} {iT : Nat}

theorem nextTok_of_fetch {aft : Bool} {iE : Nat} (h : FetchTerm L adn term iE iT) :
    NextTok L adn aft term iE iT := by
  intro l1 Q hl1 ⟨itL, posL, bL, hokL, hcurL, _⟩ hQ
  exact h l1 Q hl1 (by rw [hcurL]; exact Item.tok_hist itL bL) hQ

/-- the token after an element is the first token of the next element -/
theorem nextTok_elem (hlen : L.length + 2 ≤ 1073741824) {aft : Bool} {el' : Elem} (hok' : el'.OK aft)
    {g : Str} (hg : Blank g) {iE : Nat} {bb : Char} {r' : Str}
    (hL : L.drop iE = g ++ el'.text ++ bb :: r') (hbb : endChar bb = true) :
    NextTok L adn aft (el'.tok (iE + g.length)) iE (iE + g.length + el'.tlen) := by
  intro l1 Q hl1 ⟨itL, posL, bL, hokL, hcurL, haft⟩ hQ
  have h1 : histOK l1.currentToken = true := by rw [hcurL]; exact Item.tok_hist itL bL
  have hacc : assignmentAcceptable (shiftH l1) l1.currentToken = aft := by
    rw [hcurL, ← haft]; exact acc_item hokL bL ⟨hl1.ps.cp, hl1.ps.rl, hl1.ps.ca⟩ hl1.hist
  have hres : reservedWordAcceptable (shiftH l1) l1.currentToken = false := by
    rw [hcurL]; exact racc_item hokL bL (l := shiftH l1) hl1.hist
  exact tot_nextToken_elem hl1 hok' hacc h1 hbb hg hL hlen
    (fun _ _ h' => by rw [hres] at h'; cases h') hQ

/-- the elements after the current one (whose first token is in hand in state 13), up to the
    terminator -/
theorem g_items13 (hbase : topState base = b) (hB : BaseW b) (hT : TermG ts)
    (hts : symOfTok term = ts) (hlen : L.length + 2 ≤ 1073741824)
    {R : Str} {b0 : Char} {r0 : Str} (hR : R = b0 :: r0) (hb0 : endChar b0 = true) :
    ∀ (items : List (Str × Elem)) (ns : List Node) (a : Nat) (el : Elem) (pos : Bool) (l : Local)
      (fuel f' nl : Nat) (cons : List Nat) (tr : Tree),
      el.OK pos → ItemsJ el.after items → POK l → l.currentToken = el.tok a →
      L.drop (a + el.tlen) = el.rest ++ (spellJ items ++ R) →
      FetchTerm L adn term (endJ (a + el.text.length) items) iT →
      fuel = f' + (icost items + el.cost) →
      (∀ tr' nl' cons' l', POK l' → l'.currentToken = term → Tot (engineLoop np f'
        { stack := ⟨13, tr', .nodes (ns ++ el.node a :: nodesJ (a + el.text.length) items)⟩ :: base,
          la := some (ts, .tok term), nlShifted := nl', consumed := cons' }) l' ⟨L, iT, adn⟩ P) →
      Tot (engineLoop np fuel
        { stack := ⟨13, tr, .nodes ns⟩ :: base, la := some (el.sym, .tok (el.tok a)),
          nlShifted := nl, consumed := cons }) l ⟨L, a + el.tlen, adn⟩ P := by
  intro items
  induction items with
  | nil =>
    intro ns a el pos l fuel f' nl cons tr hok hi hl hcur hL hfetch hf hk
    subst hf
    have e : f' + (icost [] + el.cost) = f' + el.cost := by simp [icost]
    rw [e]
    have hLr : L.drop (a + el.tlen) = el.rest ++ b0 :: r0 := by rw [hL, hR]; simp [spellJ]
    refine elem_step hbase hB hlen hok hl hcur hLr hb0 hT hts
      (nextTok_of_fetch (by simpa [endJ] using hfetch)) ?_
    intro tr' nl' cons' l' hl' hcur'
    have := hk tr' nl' cons' l' hl' hcur'
    simpa [nodesJ] using this
  | cons gel rest ih =>
    intro ns a el pos l fuel f' nl cons tr hok hi hl hcur hL hfetch hf hk
    obtain ⟨g, el'⟩ := gel
    subst hf
    obtain ⟨hg, hok', hrest⟩ := hi
    obtain ⟨bb, r', hbr, hb⟩ := after_itemJ rest hrest hR hb0
    have e3 : f' + (icost ((g, el') :: rest) + el.cost) = (f' + (icost rest + el'.cost)) + el.cost := by
      simp only [icost]; omega
    rw [e3]
    obtain ⟨y, g', hgy⟩ : ∃ y g', g = y :: g' := by
      cases g with
      | nil => exact absurd rfl hg.1
      | cons y g' => exact ⟨y, g', rfl⟩
    have hLr : L.drop (a + el.tlen) = el.rest ++ y :: (g' ++ el'.text ++ spellJ rest ++ R) := by
      rw [hL, hgy]; simp [spellJ]
    have hLe : L.drop (a + el.text.length) = g ++ el'.text ++ bb :: r' := by
      have := congrArg (List.drop el.rest.length) hL
      rw [List.drop_drop] at this
      rw [Elem.text_len, ← Nat.add_assoc, this, ← hbr]
      simp [spellJ]
    refine elem_step hbase hB hlen hok hl hcur hLr
      (blank_endChar (hg.2 y (by rw [hgy]; exact List.mem_cons_self ..))) el'.termG (Elem.tok_sym el' _)
      (nextTok_elem hlen hok' hg.2 hLe hb) ?_
    intro tr' nl' cons' l' hl' hcur'
    have hLn : L.drop (a + el.text.length + g.length + el'.tlen) = el'.rest ++ (spellJ rest ++ R) := by
      have := congrArg (List.drop (el.rest.length + (g.length + el'.tlen))) hL
      rw [List.drop_drop] at this
      have e5 : a + el.text.length + g.length + el'.tlen =
          a + el.tlen + (el.rest.length + (g.length + el'.tlen)) := by rw [Elem.text_len]; omega
      rw [e5, this]
      have e6 : el.rest ++ (spellJ ((g, el') :: rest) ++ R) =
          (el.rest ++ g ++ (el'.text.take el'.tlen)) ++ (el'.rest ++ (spellJ rest ++ R)) := by
        cases el' <;> simp [spellJ, Elem.text, Elem.tlen, Elem.rest]
      rw [e6]
      exact List.drop_left' (by cases el' <;> simp [Elem.text, Elem.tlen]; all_goals omega)
    refine ih (ns ++ [el.node a]) (a + el.text.length + g.length) el' el.after l' _ f' nl' cons' tr'
      hok' hrest hl' hcur' hLn (by simpa [endJ] using hfetch) rfl ?_
    intro tr2 nl2 cons2 l2 hl2 hcur2
    have := hk tr2 nl2 cons2 l2 hl2 hcur2
    simpa [nodesJ, endJ, List.append_assoc] using this

end

/-- what the state under a command does on the first token of the command -/
structure BaseG (b : Nat) : Prop where
  w : BaseW b
  d : Tab.T.dflt b = none
  a24 : Tab.T.action b 24 = some (.shift 29)
  a25 : Tab.T.action b 25 = some (.shift 33)
  a57 : Tab.T.action b 57 = some (.shift 46)
  a56 : Tab.T.action b 56 = some (.shift 47)
  a33 : Tab.T.action b 33 = some (.shift 48)
  g62 : Tab.T.goto b 62 = some 34
  a27 : Tab.T.action b 27 = some (.shift 43)

theorem baseG0 : BaseG 0 := ⟨base0.w, Tab.d0, Tab.a0w, Tab.a0A, Tab.a0g, Tab.a0l, Tab.a0G, Tab.g0_62, Tab.a0N⟩
theorem baseG61 : BaseG 61 := ⟨base61.w, Tab.d61, Tab.a61w, Tab.a61A, Tab.a61g, Tab.a61l, Tab.a61G, Tab.g61_62, Tab.a61N⟩
theorem baseG134 : BaseG 134 := ⟨⟨Tab.g134_63, Tab.g134_65⟩, Tab.d134, Tab.a134w, Tab.a134A, Tab.a134g, Tab.a134l, Tab.a134G, Tab.g134_62, Tab.a134N⟩
theorem baseG135 : BaseG 135 := ⟨⟨Tab.g135_63, Tab.g135_65⟩, Tab.d135, Tab.a135w, Tab.a135A, Tab.a135g, Tab.a135l, Tab.a135G, Tab.g135_62, Tab.a135N⟩
theorem baseG136 : BaseG 136 := ⟨⟨Tab.g136_63, Tab.g136_65⟩, Tab.d136, Tab.a136w, Tab.a136A, Tab.a136g, Tab.a136l, Tab.a136G, Tab.g136_62, Tab.a136N⟩

theorem Item.shiftB (it : Item) {b : Nat} (h : BaseG b) :
    Tab.T.action b it.sym = some (.shift it.shB) := by
  cases it
  · exact h.a24
  · exact h.a25

/-- the states after an operator that takes a `newline_list` (`|`: 64/136, `&&`: 62/134,
    `||`: 63/135) -/
structure NLG (s1 s2 : Nat) : Prop where
  d1 : Tab.T.dflt s1 = none
  n1 : (s1 == 0) = false
  r24 : Tab.T.action s1 24 = some (.reduce 167)
  r25 : Tab.T.action s1 25 = some (.reduce 167)
  r57 : Tab.T.action s1 57 = some (.reduce 167)
  r56 : Tab.T.action s1 56 = some (.reduce 167)
  r33 : Tab.T.action s1 33 = some (.reduce 167)
  r27 : Tab.T.action s1 27 = some (.reduce 167)
  g97 : Tab.T.goto s1 97 = some 81
  g91 : Tab.T.goto s1 91 = some s2
  n2 : (s2 == 0) = false
  base : BaseG s2

theorem nlg64 : NLG 64 136 := ⟨Tab.d64, rfl, Tab.a64w, Tab.a64A, Tab.a64g, Tab.a64l, Tab.a64G, Tab.a64N, Tab.g64_97, Tab.g64_91, rfl, baseG136⟩
theorem nlg62 : NLG 62 134 := ⟨Tab.d62, rfl, Tab.a62w, Tab.a62A, Tab.a62g, Tab.a62l, Tab.a62G, Tab.a62N, Tab.g62_97, Tab.g62_91, rfl, baseG134⟩
theorem nlg63 : NLG 63 135 := ⟨Tab.d63, rfl, Tab.a63w, Tab.a63A, Tab.a63g, Tab.a63l, Tab.a63G, Tab.a63N, Tab.g63_97, Tab.g63_91, rfl, baseG135⟩

theorem Item.r167 (it : Item) {s1 s2 : Nat} (h : NLG s1 s2) :
    Tab.T.action s1 it.sym = some (.reduce 167) := by
  cases it
  · exact h.r24
  · exact h.r25
theorem Item.r146 (it : Item) : Tab.T.action 81 it.sym = some (.reduce 146) := by
  cases it
  · exact Tab.a81w
  · exact Tab.a81A

theorem Elem.shiftB (el : Elem) {b : Nat} (h : BaseG b) :
    Tab.T.action b el.sym = some (.shift el.shB) := by
  cases el with
  | simple it => exact it.shiftB h
  | redir o g2 w =>
    cases o
    · exact h.a57
    · exact h.a56
    · exact h.a33
  | nredir n o g2 w => exact h.a27
theorem Elem.r167 (el : Elem) {s1 s2 : Nat} (h : NLG s1 s2) :
    Tab.T.action s1 el.sym = some (.reduce 167) := by
  cases el with
  | simple it => exact it.r167 h
  | redir o g2 w =>
    cases o
    · exact h.r57
    · exact h.r56
    · exact h.r33
  | nredir n o g2 w => exact h.r27
theorem Elem.r146 (el : Elem) : Tab.T.action 81 el.sym = some (.reduce 146) := by
  cases el with
  | simple it => exact it.r146
  | redir o g2 w =>
    cases o
    · exact Tab.a81g
    · exact Tab.a81l
    · exact Tab.a81G
  | nredir n o g2 w => exact Tab.a81N

section
variable {np : NestedParse} {L : Str} {adn : Bool} {P : Res SVal → Local → Tape → Prop}
  {base : Stack SVal} {b ts : Nat} {term : Token} {iT : Nat}

/-- **the first element of a command**, its first token already shifted over the base; afterwards
    `simple_command` (state 13) holds its node and the next token is in hand -/
theorem first_step (hbase : topState base = b) (hB : BaseG b) (hlen : L.length + 2 ≤ 1073741824)
    {el : Elem} {pos : Bool} {a : Nat} {l : Local} {f' nl : Nat} {cons : List Nat}
    {tr : Tree} {bb : Char} {r' : Str}
    (hok : el.OK pos) (hl : POK l) (hcur : l.currentToken = el.tok a)
    (hLr : L.drop (a + el.tlen) = el.rest ++ bb :: r') (hbb : endChar bb = true)
    (hT : TermG ts) (hts : symOfTok term = ts)
    (hnext : NextTok L adn el.after term (a + el.text.length) iT)
    (hk : ∀ tr' nl' cons' l', POK l' → l'.currentToken = term → Tot (engineLoop np f'
        { stack := ⟨13, tr', .nodes [el.node a]⟩ :: base,
          la := some (ts, .tok term), nlShifted := nl', consumed := cons' }) l' ⟨L, iT, adn⟩ P) :
    Tot (engineLoop np (f' + (el.cost - 1))
      { stack := ⟨el.shB, tr, .tok (el.tok a)⟩ :: base, la := none,
        nlShifted := nl, consumed := cons }) l ⟨L, a + el.tlen, adn⟩ P := by
  have hcurh : histOK l.currentToken = true := by rw [hcur]; exact Elem.tok_hist el a
  cases el with
  | simple it =>
    show Tot (engineLoop np (f' + 2) _) _ _ _
    refine Tot.loop_step ?_
    refine R_fetch it.dB ?_
    refine hnext l _ hl ⟨it, pos, a, hok, hcur, rfl⟩ ?_
    intro l'' hl'' hcur''
    rw [hts]
    refine R_reduce it.dB it.neB (it.redB hT) it.pprod rfl (by rw [hbase]; exact hB.w.g63) it.fprod ?_
    refine act_item hok ?_
    simp only [Bool.false_eq_true, if_false]
    refine Tot.loop_step ?_
    refine R_reduce Tab.d17 rfl hT.w.a17 Tab.p56 rfl (by rw [hbase]; exact hB.w.g65) Tab.f56 ?_
    refine act_sc1 ?_
    simp only [Bool.false_eq_true, if_false]
    exact hk _ _ _ l'' hl'' hcur''
  | redir o g2 w =>
    show Tot (engineLoop np (f' + 4) _) _ _ _
    have hwok : (Item.word w).OK false := ⟨hok.2, fun h => by cases h⟩
    have hLw : L.drop (a + o.txt.length) = g2 ++ (Item.word w).text ++ bb :: r' := by
      simpa [Elem.tlen, Elem.rest, Item.text] using hLr
    have hacc : assignmentAcceptable (shiftH l) l.currentToken = false := by
      rw [hcur]; exact acc_op o a ⟨hl.ps.cp, hl.ps.rl, hl.ps.ca⟩ hl.hist
    refine Tot.loop_step ?_
    refine R_fetch o.d1 ?_
    refine tot_nextToken_item hl hwok hacc hcurh hbb hok.1 hLw hlen ?_ ?_
    · intro h'
      have hcur' : l.currentToken = o.tok a := hcur
      rw [hcur', racc_op o a (l := shiftH l) hl.hist] at h'
      cases h'
    rw [Item.tok_sym]
    refine R_shift o.d1 o.ne1 o.a1w ?_
    refine Tot.loop_step ?_
    refine R_fetch o.d2 ?_
    have e1 : a + (Elem.redir o g2 w).text.length = a + o.txt.length + g2.length + (Item.word w).text.length := by
      simp [Elem.text, Item.text]; omega
    rw [e1] at hnext
    refine hnext _ _ (hl.afterTok hcurh _) ⟨.word w, false, _, hwok, rfl, rfl⟩ ?_
    intro l'' hl'' hcur''
    rw [hts]
    refine R_reduce o.d2 o.ne2 (o.red2 hT) o.pp rfl (by rw [hbase]; exact hB.g62) o.fp ?_
    refine act_redir (wn := Node.word (a + o.txt.length + g2.length, a + o.txt.length + g2.length + w.length) w [])
      ?_ (fun Q hQ => ?_) ?_
    · show (genTok _ _ w false).is .WORD = true
      unfold genTok; split <;> rfl
    · have hv : (Item.tok (a + o.txt.length + g2.length) (.word w)).valueStr = w := by
        show (genTok _ _ w false).valueStr = w
        unfold genTok; split <;> rfl
      have hp : (Item.tok (a + o.txt.length + g2.length) (.word w)).pos =
          some (a + o.txt.length + g2.length, a + o.txt.length + g2.length + w.length) := by
        show (genTok _ _ w false).pos = _
        unfold genTok; split <;> rfl
      have hq : (Item.tok (a + o.txt.length + g2.length) (.word w)).flags.contains .QUOTED = false := by
        show (genTok _ _ w false).flags.contains .QUOTED = false
        unfold genTok; split <;> rfl
      exact tot_expandword_gen hok.2 hv hp hq hQ
    simp only [Bool.false_eq_true, if_false]
    refine Tot.loop_step ?_
    refine R_reduce Tab.d34 rfl hT.a34 Tab.p53 rfl (by rw [hbase]; exact hB.w.g63) Tab.f53 ?_
    refine act_sce_node ?_
    simp only [Bool.false_eq_true, if_false]
    refine Tot.loop_step ?_
    refine R_reduce Tab.d17 rfl hT.w.a17 Tab.p56 rfl (by rw [hbase]; exact hB.w.g65) Tab.f56 ?_
    refine act_sc1 ?_
    simp only [Bool.false_eq_true, if_false]
    have hk' := fun tr9 => hk tr9 nl (cons ++ [24]) l'' hl'' hcur''
    have hend : (Item.tok (a + o.txt.length + g2.length) (.word w)).endlexpos =
        a + o.txt.length + g2.length + w.length := by
      show (genTok _ _ w false).endlexpos = _
      unfold genTok; split <;> rfl
    simp only [Elem.node] at hk'
    have hlx : (Elem.tok a (Elem.redir o g2 w)).lexpos = a := ROp.tok_lexpos o a
    have hvs : (Elem.tok a (Elem.redir o g2 w)).valueStr = o.txt := ROp.tok_valueStr o a
    have hend' : (Item.tok (a + (Elem.redir o g2 w).tlen + g2.length) (.word w)).endlexpos =
        a + o.txt.length + g2.length + w.length := hend
    rw [hlx, hvs, hend']
    exact hk' _
  | nredir n o g2 w =>
    show Tot (engineLoop np (f' + 5) _) _ _ _
    have hwok : (Item.word w).OK false := ⟨hok.2.2, fun h => by cases h⟩
    have etl : (Elem.nredir n o g2 w).tlen = n.length := rfl
    simp only [etl] at hLr ⊢
    have hLo : L.drop (a + n.length) = [] ++ (Elem.redir o g2 w).text ++ bb :: r' := by
      simpa [Elem.tlen, Elem.rest, Elem.text] using hLr
    have hLw0 := drop_into hLo
    have hLw : L.drop (a + n.length + o.txt.length) = g2 ++ (Item.word w).text ++ bb :: r' := by
      simpa [Elem.tlen, Elem.rest, Item.text] using hLw0
    refine Tot.loop_step ?_
    refine R_fetch Tab.d43 ?_
    refine tot_nextToken_elem (g := []) (pos := assignmentAcceptable (shiftH l) l.currentToken) hl
      (show (Elem.redir o g2 w).OK _ from ⟨hok.2.1, hok.2.2⟩) rfl hcurh hbb (fun _ h => by cases h) hLo hlen
      (fun it e => by cases e) ?_
    intro l1 hl1 hcur1
    have hcur1' : l1.currentToken = o.tok (a + n.length) := by simpa [Elem.tok] using hcur1
    have hcurh1 : histOK l1.currentToken = true := by rw [hcur1']; exact ROp.tok_hist o _
    have hacc1 : assignmentAcceptable (shiftH l1) l1.currentToken = false := by
      rw [hcur1']; exact acc_op o _ ⟨hl1.ps.cp, hl1.ps.rl, hl1.ps.ca⟩ hl1.hist
    have ep : a + n.length + ([] : Str).length + (Elem.redir o g2 w).tlen = a + n.length + o.txt.length := by
      simp [Elem.tlen]
    rw [ep, Elem.tok_sym]
    refine R_shift Tab.d43 rfl o.a43 ?_
    refine Tot.loop_step ?_
    refine R_fetch o.dn1 ?_
    refine tot_nextToken_item hl1 hwok hacc1 hcurh1 hbb hok.2.1 hLw hlen ?_ ?_
    · intro h'
      rw [hcur1', racc_op o _ (l := shiftH l1) hl1.hist] at h'
      cases h'
    rw [Item.tok_sym]
    refine R_shift o.dn1 o.nen1 o.an1w ?_
    refine Tot.loop_step ?_
    refine R_fetch o.dn2 ?_
    have e1 : a + (Elem.nredir n o g2 w).text.length =
        a + n.length + o.txt.length + g2.length + (Item.word w).text.length := by
      simp [Elem.text, Item.text]; omega
    rw [e1] at hnext
    refine hnext _ _ (hl1.afterTok hcurh1 _) ⟨.word w, false, _, hwok, rfl, rfl⟩ ?_
    intro l'' hl'' hcur''
    rw [hts]
    refine R_reduce o.dn2 o.nen2 (o.redn2 hT) o.npp rfl (by rw [hbase]; exact hB.g62) o.nfp ?_
    refine act_redirN (k := digitsToNat n)
      (wn := Node.word (a + n.length + o.txt.length + g2.length,
        a + n.length + o.txt.length + g2.length + w.length) w [])
      ?_ rfl (fun Q hQ => ?_) ?_
    · show (genTok _ _ w false).is .WORD = true
      unfold genTok; split <;> rfl
    · have hv : (Item.tok (a + n.length + o.txt.length + g2.length) (.word w)).valueStr = w := by
        show (genTok _ _ w false).valueStr = w
        unfold genTok; split <;> rfl
      have hp : (Item.tok (a + n.length + o.txt.length + g2.length) (.word w)).pos =
          some (a + n.length + o.txt.length + g2.length,
            a + n.length + o.txt.length + g2.length + w.length) := by
        show (genTok _ _ w false).pos = _
        unfold genTok; split <;> rfl
      have hq : (Item.tok (a + n.length + o.txt.length + g2.length) (.word w)).flags.contains .QUOTED
          = false := by
        show (genTok _ _ w false).flags.contains .QUOTED = false
        unfold genTok; split <;> rfl
      exact tot_expandword_gen hok.2.2 hv hp hq hQ
    simp only [Bool.false_eq_true, if_false]
    refine Tot.loop_step ?_
    refine R_reduce Tab.d34 rfl hT.a34 Tab.p53 rfl (by rw [hbase]; exact hB.w.g63) Tab.f53 ?_
    refine act_sce_node ?_
    simp only [Bool.false_eq_true, if_false]
    refine Tot.loop_step ?_
    refine R_reduce Tab.d17 rfl hT.w.a17 Tab.p56 rfl (by rw [hbase]; exact hB.w.g65) Tab.f56 ?_
    refine act_sc1 ?_
    simp only [Bool.false_eq_true, if_false]
    have hk' := fun tr9 cons9 => hk tr9 nl cons9 l'' hl'' hcur''
    have hend : (Item.tok (a + n.length + o.txt.length + g2.length) (.word w)).endlexpos =
        a + n.length + o.txt.length + g2.length + w.length := by
      show (genTok _ _ w false).endlexpos = _
      unfold genTok; split <;> rfl
    simp only [Elem.node] at hk'
    have hlx : (Elem.tok a (Elem.nredir n o g2 w)).lexpos = a := rfl
    have hvs : ((Elem.redir o g2 w).tok (a + n.length + ([] : Str).length)).valueStr = o.txt :=
      ROp.tok_valueStr o _
    rw [hlx, hvs, hend]
    exact hk' _ _

end

/-! ## general simple commands -/

/-- a first word is no reserved word -/
def Item.nrOK : Item → Prop
  | .word w => reservedFirstCommandChars.lookup w = none
  | .assign _ => True

instance (it : Item) : Decidable it.nrOK := by
  cases it <;> (unfold Item.nrOK; exact inferInstance)

theorem Item.nr_lookup {it : Item} (h1 : it.OK true) (h2 : it.nrOK) :
    reservedFirstCommandChars.lookup it.text = none := by
  cases it with
  | word w => exact h2
  | assign w => exact looks_not_reserved h1.2.2

/-- a simple command with its spelling: leading blanks, first item, (gap, item) pairs, trailing
    blanks -/
def Elem.nrOK : Elem → Prop
  | .simple it => it.nrOK
  | .redir _ _ _ => True
  | .nredir _ _ _ _ => True

instance (el : Elem) : Decidable el.nrOK := by
  cases el <;> (unfold Elem.nrOK; exact inferInstance)

structure GCmd where
  lead : Str
  first : Elem
  items : List (Str × Elem)
  trail : Str

namespace GCmd
def text (c : GCmd) : Str := c.lead ++ c.first.text ++ spellJ c.items ++ c.trail
/-- blanks are blanks; the first item stands in command position (a word there is no reserved
    word and does not look like an assignment); the items are valid in their positions -/
structure OK (c : GCmd) : Prop where
  lead : Blank c.lead
  first : c.first.OK true
  nr : c.first.nrOK
  items : ItemsJ c.first.after c.items
  trail : Blank c.trail

instance (c : GCmd) : Decidable c.OK :=
  decidable_of_iff (Blank c.lead ∧ c.first.OK true ∧ c.first.nrOK ∧
      ItemsJ c.first.after c.items ∧ Blank c.trail)
    ⟨fun ⟨a, b, c', d, e⟩ => ⟨a, b, c', d, e⟩, fun h => ⟨h.lead, h.first, h.nr, h.items, h.trail⟩⟩

/-- the nodes of its items, its text starting at offset `off` -/
def nodes (off : Nat) (c : GCmd) : List Node :=
  c.first.node (off + c.lead.length) ::
    nodesJ (off + c.lead.length + c.first.text.length) c.items
/-- where its last item ends -/
def endPos (off : Nat) (c : GCmd) : Nat := endJ (off + c.lead.length + c.first.text.length) c.items
/-- the command node -/
def node (off : Nat) (c : GCmd) : Node :=
  Node.command (off + c.lead.length, c.endPos off) (c.nodes off)
def cost (c : GCmd) : Nat := icost c.items + (c.first.cost - 3)
end GCmd

/-- the last node of a command's item list is positioned and ends where the items end -/
theorem gnodes_lastE (a : Nat) (el : Elem) : ∀ (items : List (Str × Elem)),
    ∃ nl pl, (el.node a :: nodesJ (a + el.text.length) items).getLast? = some nl ∧
      nodePos nl = pure pl ∧ pl.2 = endJ (a + el.text.length) items := by
  intro items
  induction items generalizing a el with
  | nil => exact ⟨el.node a, (a, a + el.text.length), rfl, Elem.nodePos_node el a, rfl⟩
  | cons git r ih =>
    obtain ⟨g, el'⟩ := git
    obtain ⟨nl, pl, h1, h2, h3⟩ := ih (a + el.text.length + g.length) el'
    exact ⟨nl, pl, by simpa [nodesJ, List.getLast?_cons_cons] using h1, h2, by simpa [endJ] using h3⟩

theorem gnodes_last (a : Nat) (it : Item) (items : List (Str × Elem)) :
    ∃ nl pl, (it.node a :: nodesJ (a + it.text.length) items).getLast? = some nl ∧
      nodePos nl = pure pl ∧ pl.2 = endJ (a + it.text.length) items :=
  gnodes_lastE a (.simple it) items

section
variable {np : NestedParse} {L : Str} {adn : Bool} {P : Res SVal → Local → Tape → Prop}
  {base : Stack SVal} {b g93 ts : Nat} {term : Token} {iT : Nat}

/-- one general simple command, its first token already shifted over `base`, up to its terminator;
    `k` goes on from `simple_command` (state 13) -/
theorem g_run13 (hbase : topState base = b) (hB : BaseG b) (hT : TermG ts)
    (hts : symOfTok term = ts) (hlen : L.length + 2 ≤ 1073741824)
    {R : Str} {b0 : Char} {r0 : Str} (hR : R = b0 :: r0) (hb0 : endChar b0 = true)
    {c : GCmd} {off : Nat} {l : Local} {fuel f' nl : Nat} {cons : List Nat} {tr : Tree}
    (hc : c.OK) (hl : POK l) (hcur : l.currentToken = c.first.tok (off + c.lead.length))
    (hL : L.drop (off + c.lead.length + c.first.tlen) = c.first.rest ++ (spellJ c.items ++ R))
    (hfetch : FetchTerm L adn term (c.endPos off) iT)
    (hf : fuel = f' + (c.cost + 2))
    (hk : ∀ tr' nl' cons' l', POK l' → l'.currentToken = term → Tot (engineLoop np f'
        { stack := ⟨13, tr', .nodes (c.nodes off)⟩ :: base,
          la := some (ts, .tok term), nlShifted := nl', consumed := cons' }) l' ⟨L, iT, adn⟩ P) :
    Tot (engineLoop np fuel
      { stack := ⟨c.first.shB, tr, .tok (c.first.tok (off + c.lead.length))⟩ :: base, la := none,
        nlShifted := nl, consumed := cons }) l
      ⟨L, off + c.lead.length + c.first.tlen, adn⟩ P := by
  obtain ⟨lead, el, items, trail⟩ := c
  simp only [GCmd.cost, GCmd.endPos, GCmd.nodes] at *
  subst hf
  have hok := hc.first
  have hge := el.cost_ge
  cases items with
  | nil =>
    have e : f' + (icost [] + (el.cost - 3) + 2) = f' + (el.cost - 1) := by simp only [icost]; omega
    rw [e]
    have hLr : L.drop (off + lead.length + el.tlen) = el.rest ++ b0 :: r0 := by
      rw [hL, hR]; simp [spellJ]
    refine first_step hbase hB hlen hok hl hcur hLr hb0 hT hts
      (nextTok_of_fetch (by simpa [endJ] using hfetch)) ?_
    intro tr' nl' cons' l' hl' hcur'
    have := hk tr' nl' cons' l' hl' hcur'
    simpa [nodesJ] using this
  | cons gel rest =>
    obtain ⟨g, el'⟩ := gel
    obtain ⟨hg, hok', hrest⟩ := hc.items
    obtain ⟨bb, r', hbr, hb⟩ := after_itemJ rest hrest hR hb0
    have e3 : f' + (icost ((g, el') :: rest) + (el.cost - 3) + 2) =
        (f' + (icost rest + el'.cost)) + (el.cost - 1) := by
      simp only [icost]; omega
    rw [e3]
    obtain ⟨y, g', hgy⟩ : ∃ y g', g = y :: g' := by
      cases g with
      | nil => exact absurd rfl hg.1
      | cons y g' => exact ⟨y, g', rfl⟩
    have hLr : L.drop (off + lead.length + el.tlen) =
        el.rest ++ y :: (g' ++ el'.text ++ spellJ rest ++ R) := by
      rw [hL, hgy]; simp [spellJ]
    have hLe : L.drop (off + lead.length + el.text.length) = g ++ el'.text ++ bb :: r' := by
      have := congrArg (List.drop el.rest.length) hL
      rw [List.drop_drop] at this
      rw [Elem.text_len, ← Nat.add_assoc, this, ← hbr]
      simp [spellJ]
    refine first_step hbase hB hlen hok hl hcur hLr
      (blank_endChar (hg.2 y (by rw [hgy]; exact List.mem_cons_self ..))) el'.termG (Elem.tok_sym el' _)
      (nextTok_elem hlen hok' hg.2 hLe hb) ?_
    intro tr' nl' cons' l' hl' hcur'
    have hLn : L.drop (off + lead.length + el.text.length + g.length + el'.tlen) =
        el'.rest ++ (spellJ rest ++ R) := by
      have := congrArg (List.drop (el.rest.length + (g.length + el'.tlen))) hL
      rw [List.drop_drop] at this
      have e5 : off + lead.length + el.text.length + g.length + el'.tlen =
          off + lead.length + el.tlen + (el.rest.length + (g.length + el'.tlen)) := by
        rw [Elem.text_len]; omega
      rw [e5, this]
      have e6 : el.rest ++ (spellJ ((g, el') :: rest) ++ R) =
          (el.rest ++ g ++ (el'.text.take el'.tlen)) ++ (el'.rest ++ (spellJ rest ++ R)) := by
        cases el' <;> simp [spellJ, Elem.text, Elem.tlen, Elem.rest]
      rw [e6]
      exact List.drop_left' (by cases el' <;> simp [Elem.text, Elem.tlen]; all_goals omega)
    refine g_items13 hbase hB.w hT hts hlen hR hb0 rest [el.node (off + lead.length)]
      (off + lead.length + el.text.length + g.length) el' el.after l' _ f' nl' cons' tr'
      hok' hrest hl' hcur' hLn (by simpa [endJ] using hfetch) rfl ?_
    intro tr2 nl2 cons2 l2 hl2 hcur2
    have := hk tr2 nl2 cons2 l2 hl2 hcur2
    simpa [nodesJ, endJ] using this

/-- the end of a general command: four reductions up to `simple_list1` -/
theorem g_end {l : Local} {Tp : Tape} (hbase : topState base = b) (hB : BaseOK b g93)
    (hT : TermOK ts) {c : GCmd} {off : Nat} {tr : Tree} {nl : Nat} {cons : List Nat} {fuel f' : Nat}
    (hf : fuel = f' + 4)
    (hk : ∀ tr', Tot (engineLoop np f'
      { stack := ⟨g93, tr', .nodes [c.node off]⟩ :: base,
        la := some (ts, .tok term), nlShifted := nl, consumed := cons }) l Tp P) :
    Tot (engineLoop np fuel
      { stack := ⟨13, tr, .nodes (c.nodes off)⟩ :: base, la := some (ts, .tok term), nlShifted := nl,
        consumed := cons }) l Tp P := by
  subst hf
  obtain ⟨nl', pl, hlast, hpl, hpl2⟩ := gnodes_lastE (off + c.lead.length) c.first c.items
  refine Tot.loop_step ?_
  refine R_reduce Tab.d13 rfl hT.a13 Tab.p58 rfl (by rw [hbase]; exact hB.g66) Tab.f58 ?_
  refine act_commandG (nh := c.first.node (off + c.lead.length)) rfl hlast
    (Elem.nodePos_node _ _) hpl ?_
  simp only [Bool.false_eq_true, if_false]
  refine Tot.loop_step ?_
  refine R_reduce Tab.d11 rfl hT.a11 Tab.p163 rfl (by rw [hbase]; exact hB.g95) Tab.f163 ?_
  refine act_pipeline1 ?_
  simp only [Bool.false_eq_true, if_false]
  refine Tot.loop_step ?_
  refine R_reduce Tab.d8 rfl hT.a8 Tab.p156 rfl (by rw [hbase]; exact hB.g94) Tab.f156 ?_
  refine act_pipeline_command1 ?_
  simp only [Bool.false_eq_true, if_false]
  refine Tot.loop_step ?_
  refine R_reduce Tab.d7 rfl hT.a7 Tab.p155 rfl (by rw [hbase]; exact hB.g93) Tab.f155 ?_
  refine act_simple_list1_1 ?_
  simp only [Bool.false_eq_true, if_false]
  have := hk
  simp only [GCmd.node, GCmd.endPos] at this
  rw [hpl2]
  exact this _

end

/-! ## fetching and shifting the first token of a command -/

section
variable {np : NestedParse} {L : Str} {adn : Bool} {l : Local}

/-- the first token of a command, in command position -/
theorem g_first {P : Token → Local → Tape → Prop} {c : GCmd} {off : Nat} {bb : Char} {r' : Str}
    (hc : c.OK) (hl : POK l) (hst : startOK l.currentToken = true)
    (hcurh : histOK l.currentToken = true)
    (hL1 : L.drop off = c.lead ++ c.first.text ++ bb :: r') (hb : endChar bb = true)
    (hlen : L.length + 2 ≤ 1073741824)
    (h : ∀ l'', POK l'' → l''.currentToken = c.first.tok (off + c.lead.length) →
      P (c.first.tok (off + c.lead.length)) l'' ⟨L, off + c.lead.length + c.first.tlen, adn⟩) :
    Tot nextToken l ⟨L, off, adn⟩ P :=
  tot_nextToken_elem hl hc.first
    (start_acc hst (l := shiftH l) ⟨hl.ps.cp, hl.ps.rl, hl.ps.ca⟩) hcurh hb hc.lead hL1 hlen
    (fun it e _ => by
      have h1 := hc.first
      have h2 := hc.nr
      rw [e] at h1 h2
      exact Item.nr_lookup h1 h2) h

variable {P : Cfg SVal ⊕ Res SVal → Local → Tape → Prop} {Tp : Tape}

theorem R_shiftG {st : Stack SVal} {la : Nat × SVal} {t nl : Nat} {cons : List Nat}
    (hd : Tab.T.dflt (topState st) = none) (ha : Tab.T.action (topState st) la.1 = some (.shift t))
    (he : (la.1 == Tab.T.endTok) = false) (hn : (la.1 == Tab.T.nlTok) = false)
    (h : P (.inl { stack := ⟨t, .leaf la.1, la.2⟩ :: st, la := none, nlShifted := nl,
                   consumed := cons ++ [la.1] }) l Tp) :
    Tot (step Tab.T (lrHooks np)
      { stack := st, la := some la, nlShifted := nl, consumed := cons }) l Tp P := by
  rw [step_shiftG (c := { stack := st, la := some la, nlShifted := nl, consumed := cons })
    (la := la) hd rfl he hn ha]
  exact Tot.pure h

end

section
variable {np : NestedParse} {L : Str} {adn : Bool} {P : Res SVal → Local → Tape → Prop}

/-- fetch and shift the first token of a command over a base -/
theorem base_first {st : Stack SVal} {b : Nat} (hst : topState st = b) (hB : BaseG b) {c : GCmd}
    {off : Nat} {bb : Char} {r' : Str} {l : Local} {f nl : Nat} {cons : List Nat}
    (hc : c.OK) (hl : POK l) (hso : startOK l.currentToken = true)
    (hcurh : histOK l.currentToken = true)
    (hL1 : L.drop off = c.lead ++ c.first.text ++ bb :: r') (hb : endChar bb = true)
    (hlen : L.length + 2 ≤ 1073741824)
    (hk : ∀ cons' l', POK l' → l'.currentToken = c.first.tok (off + c.lead.length) →
      Tot (engineLoop np f
      { stack := ⟨c.first.shB, .leaf c.first.sym, .tok (c.first.tok (off + c.lead.length))⟩ :: st,
        la := none, nlShifted := nl, consumed := cons' }) l'
      ⟨L, off + c.lead.length + c.first.tlen, adn⟩ P) :
    Tot (engineLoop np (f + 1) { stack := st, la := none, nlShifted := nl, consumed := cons })
      l ⟨L, off, adn⟩ P := by
  refine Tot.loop_step ?_
  refine R_fetch' (by rw [hst]; exact hB.d) ?_
  refine g_first hc hl hso hcurh hL1 hb hlen ?_
  intro l' hl' hcur'
  rw [Elem.tok_sym]
  refine R_shiftG (by rw [hst]; exact hB.d) (by rw [hst]; exact c.first.shiftB hB)
    c.first.sym_ne_end c.first.sym_ne_nl ?_
  exact hk _ l' hl' hcur'

/-- after an operator that takes a `newline_list`: fetch the first token of the next command,
    reduce the empty `newline_list`, shift the token -/
theorem nl_first {s1 s2 : Nat} (hN : NLG s1 s2) {t1 : Tree} {v1 : SVal} {rest : Stack SVal}
    {c : GCmd} {off : Nat} {bb : Char} {r' : Str} {l : Local} {f nl : Nat} {cons : List Nat}
    (hc : c.OK) (hl : POK l) (hso : startOK l.currentToken = true)
    (hcurh : histOK l.currentToken = true)
    (hL1 : L.drop off = c.lead ++ c.first.text ++ bb :: r') (hb : endChar bb = true)
    (hlen : L.length + 2 ≤ 1073741824)
    (hk : ∀ t2 cons' l', POK l' → l'.currentToken = c.first.tok (off + c.lead.length) →
      Tot (engineLoop np f
      { stack := ⟨c.first.shB, .leaf c.first.sym, .tok (c.first.tok (off + c.lead.length))⟩ ::
          ⟨s2, t2, .none⟩ :: ⟨s1, t1, v1⟩ :: rest,
        la := none, nlShifted := nl, consumed := cons' }) l'
      ⟨L, off + c.lead.length + c.first.tlen, adn⟩ P) :
    Tot (engineLoop np (f + 3)
      { stack := ⟨s1, t1, v1⟩ :: rest, la := none, nlShifted := nl, consumed := cons })
      l ⟨L, off, adn⟩ P := by
  refine Tot.loop_step ?_
  refine R_fetch hN.d1 ?_
  refine g_first hc hl hso hcurh hL1 hb hlen ?_
  intro l' hl' hcur'
  rw [Elem.tok_sym]
  refine R_reduce hN.d1 hN.n1 (c.first.r167 hN) Tab.p167 rfl hN.g97 Tab.f167 ?_
  refine act_empty ?_
  simp only [Bool.false_eq_true, if_false]
  refine Tot.loop_step ?_
  refine R_reduce Tab.d81 rfl c.first.r146 Tab.p146 rfl hN.g91 Tab.f146 ?_
  refine act_newline_list ?_
  simp only [Bool.false_eq_true, if_false]
  refine Tot.loop_step ?_
  refine R_shift hN.base.d hN.n2 (c.first.shiftB hN.base) ?_
  exact hk _ _ l' hl' hcur'

end

/-! ## facts about the text of a general command -/

theorem Item.text_pos {pos : Bool} {it : Item} (h : it.OK pos) : 0 < it.text.length :=
  List.length_pos_iff.mpr (Item.gen h).1

theorem Item.text_head {pos : Bool} {it : Item} (h : it.OK pos) :
    ∃ d r, it.text = d :: r ∧ wordChar d = true := by
  obtain ⟨hne, hp⟩ := Item.gen h
  cases ht : it.text with
  | nil => exact absurd ht hne
  | cons d r => exact ⟨d, r, rfl, hp d (by rw [ht]; exact List.mem_cons_self ..)⟩

theorem Elem.text_head {pos : Bool} {el : Elem} (h : el.OK pos) :
    ∃ d r, el.text = d :: r ∧ d ≠ ';' ∧ d ≠ '&' ∧ d ≠ '\\' ∧ d ≠ '|' := by
  cases el with
  | simple it =>
    obtain ⟨d, r, hd, hw⟩ := Item.text_head h
    exact ⟨d, r, hd, wc_ne' (by decide) hw, wc_ne' (by decide) hw, wc_ne' (by decide) hw,
      wc_ne' (by decide) hw⟩
  | redir o g2 w =>
    cases o
    · exact ⟨'>', g2 ++ w, by simp [Elem.text, ROp.txt], by decide, by decide, by decide, by decide⟩
    · exact ⟨'<', g2 ++ w, by simp [Elem.text, ROp.txt], by decide, by decide, by decide, by decide⟩
    · exact ⟨'>', '>' :: (g2 ++ w), by simp [Elem.text, ROp.txt], by decide, by decide, by decide, by decide⟩
  | nredir n o g2 w =>
    obtain ⟨hne, hp⟩ := h.1
    cases n with
    | nil => exact absurd rfl hne
    | cons d r =>
      have hw : wordChar d = true := by
        have := digit_plain (hp d (List.mem_cons_self ..))
        simp [wordChar, this]
      exact ⟨d, r ++ o.txt ++ g2 ++ w, by simp [Elem.text], wc_ne' (by decide) hw,
        wc_ne' (by decide) hw, wc_ne' (by decide) hw, wc_ne' (by decide) hw⟩

theorem GCmd.text_head {c : GCmd} (hc : c.OK) :
    ∃ d r, c.text = d :: r ∧ d ≠ ';' ∧ d ≠ '&' ∧ d ≠ '\\' ∧ d ≠ '|' := by
  unfold GCmd.text
  cases hl : c.lead with
  | nil =>
    obtain ⟨d, r, hd, h1, h2, h3, h4⟩ := Elem.text_head hc.first
    exact ⟨d, r ++ (spellJ c.items ++ c.trail), by simp [hd], h1, h2, h3, h4⟩
  | cons d r =>
    have hd : shellblank d = true := hc.lead d (by rw [hl]; exact List.mem_cons_self ..)
    refine ⟨d, r ++ (c.first.text ++ (spellJ c.items ++ c.trail)), by simp, ?_, ?_, blank_ne_bs hd, ?_⟩
    · intro h; subst h; revert hd; decide
    · intro h; subst h; revert hd; decide
    · intro h; subst h; revert hd; decide

theorem GCmd.endPos_trail (c : GCmd) (off : Nat) :
    c.endPos off + c.trail.length = off + c.text.length := by
  simp only [GCmd.endPos, endJ_eq, GCmd.text, List.length_append]
  omega

theorem GCmd.endPos_shift (c : GCmd) (k off : Nat) : c.endPos (off + k) = c.endPos off + k := by
  unfold GCmd.endPos
  rw [endJ_eq, endJ_eq]; omega

theorem GCmd.drop_text {L : Str} {c : GCmd} {X : Str} {off : Nat} (h : L.drop off = c.text ++ X) :
    L.drop (off + c.lead.length + c.first.tlen) =
      c.first.rest ++ (spellJ c.items ++ (c.trail ++ X)) :=
  drop_into (p := off) (g := c.lead) (el' := c.first) (by rw [h]; simp [GCmd.text])

theorem GCmd.drop_text_end {L : Str} {c : GCmd} {X : Str} {off : Nat} (h : L.drop off = c.text ++ X) :
    L.drop (c.endPos off) = c.trail ++ X := by
  have := congrArg (List.drop (c.lead.length + c.first.text.length + (spellJ c.items).length)) h
  rw [List.drop_drop] at this
  have e : c.endPos off = off + (c.lead.length + c.first.text.length + (spellJ c.items).length) := by
    simp only [GCmd.endPos, endJ_eq]; omega
  rw [e, this]
  have : c.text ++ X = (c.lead ++ c.first.text ++ spellJ c.items) ++ (c.trail ++ X) := by
    simp [GCmd.text]
  rw [this]
  exact List.drop_left' (by simp; omega)

theorem wc_ne_nl {c : Char} (h : wordChar c = true) : c ≠ '\n' := wc_ne' (by decide) h

theorem Elem.text_noNL {pos : Bool} {el : Elem} (h : el.OK pos) : ∀ c ∈ el.text, c ≠ '\n' := by
  intro c hc
  cases el with
  | simple it => exact wc_ne_nl ((Item.gen h).2 c hc)
  | redir o g2 w =>
    simp only [Elem.text, List.mem_append] at hc
    rcases hc with (hc | hc) | hc
    · intro hn; subst hn; cases o <;> simp [ROp.txt] at hc
    · intro hn; subst hn
      have := h.1 _ hc
      revert this; decide
    · exact wc_ne_nl (h.2.2 c hc)
  | nredir n o g2 w =>
    simp only [Elem.text, List.mem_append] at hc
    rcases hc with ((hc | hc) | hc) | hc
    · have := digit_plain (h.1.2 c hc)
      exact plain_ne' (by decide) this
    · intro hn; subst hn; cases o <;> simp [ROp.txt] at hc
    · intro hn; subst hn
      have := h.2.1 _ hc
      revert this; decide
    · exact wc_ne_nl (h.2.2.2 c hc)

theorem spellJ_noNL : ∀ (items : List (Str × Elem)) (pos : Bool), ItemsJ pos items →
    ∀ c ∈ spellJ items, c ≠ '\n'
  | [], _, _ => fun c hc => by cases hc
  | (g, it) :: r, _, hi => by
    intro c hc
    simp only [spellJ, List.mem_append] at hc
    rcases hc with (hc | hc) | hc
    · intro h; subst h
      have := hi.1.2 _ hc
      revert this; decide
    · exact Elem.text_noNL hi.2.1 c hc
    · exact spellJ_noNL r _ hi.2.2 c hc

theorem GCmd.text_noNL {c : GCmd} (hc : c.OK) : ∀ x ∈ c.text, x ≠ '\n' := by
  intro x hx
  simp only [GCmd.text, List.mem_append] at hx
  rcases hx with ((hx | hx) | hx) | hx
  · intro h; subst h
    have := hc.lead _ hx
    revert this; decide
  · exact Elem.text_noNL hc.first x hx
  · exact spellJ_noNL c.items _ hc.items x hx
  · intro h; subst h
    have := hc.trail _ hx
    revert this; decide

theorem Elem.cost_le {pos : Bool} {el : Elem} (h : el.OK pos) : el.cost + 1 ≤ 3 * el.text.length + 1 ∧
    el.cost ≤ 3 + 3 * el.text.length - 1 := by
  cases el with
  | simple it =>
    have := Elem.text_pos (el := .simple it) h
    simp only [Elem.cost, Elem.text] at *; omega
  | redir o g2 w =>
    have h1 := o.txt_pos
    have h2 : 0 < w.length := List.length_pos_iff.mpr h.2.1
    simp only [Elem.cost, Elem.text, List.length_append]; omega
  | nredir n o g2 w =>
    have h1 := o.txt_pos
    have h2 : 0 < w.length := List.length_pos_iff.mpr h.2.2.1
    have h3 : 0 < n.length := List.length_pos_iff.mpr h.1.1
    simp only [Elem.cost, Elem.text, List.length_append]; omega

theorem icost_le : ∀ (items : List (Str × Elem)) (pos : Bool), ItemsJ pos items →
    icost items ≤ 3 * (spellJ items).length
  | [], _, _ => Nat.le_refl _
  | (g, it) :: r, _, hi => by
    have ih := icost_le r _ hi.2.2
    have h1 := (Elem.cost_le hi.2.1).2
    have hg : 0 < g.length := List.length_pos_iff.mpr hi.1.1
    simp only [icost, spellJ, List.length_append]
    omega

theorem GCmd.cost_le {c : GCmd} (hc : c.OK) : c.cost + 3 ≤ 3 * c.text.length := by
  have h1 := icost_le c.items _ hc.items
  have h2 := (Elem.cost_le hc.first).1
  have h3 := c.first.cost_ge
  simp only [GCmd.cost, GCmd.text, List.length_append]
  omega

theorem GCmd.text_pos {c : GCmd} (hc : c.OK) : 0 < c.text.length := by
  have h2 := Elem.text_pos hc.first
  simp only [GCmd.text, List.length_append]; omega

end Bashlex.C02
