/-
  C02 (round trip), part 9: one simple command in the middle of the engine's run — over any base
  stack whose top state is 0 (start of the line) or 61 (after `simple_list1 ;`), up to any
  terminator token (`;` or NEWLINE), in continuation-passing form.
-/
import Bashlex.Props.C02.Run
import Bashlex.Props.C02.TokOp

namespace Bashlex.C02
open Bashlex Bashlex.M Bashlex.LR
set_option linter.unusedSimpArgs false
set_option linter.unusedVariables false

/-- what the run of a simple command needs of the state under it -/
structure BaseOK (b g93 : Nat) : Prop where
  g63 : Tab.T.goto b 63 = some 17
  g65 : Tab.T.goto b 65 = some 13
  g66 : Tab.T.goto b 66 = some 11
  g95 : Tab.T.goto b 95 = some 8
  g94 : Tab.T.goto b 94 = some 7
  g93 : Tab.T.goto b 93 = some g93

/-- the word-level part -/
structure BaseW (b : Nat) : Prop where
  g63 : Tab.T.goto b 63 = some 17
  g65 : Tab.T.goto b 65 = some 13

theorem BaseOK.w {b g93 : Nat} (h : BaseOK b g93) : BaseW b := ⟨h.g63, h.g65⟩

theorem base0 : BaseOK 0 6 := ⟨Tab.g0_63, Tab.g0_65, Tab.g0_66, Tab.g0_95, Tab.g0_94, Tab.g0_93⟩
theorem base61 : BaseOK 61 133 :=
  ⟨Tab.g61_63, Tab.g61_65, Tab.g61_66, Tab.g61_95, Tab.g61_94, Tab.g61_93⟩

/-- what it needs of the terminal that ends it -/
structure TermOK (ts : Nat) : Prop where
  a29 : Tab.T.action 29 ts = some (.reduce 51)
  a17 : Tab.T.action 17 ts = some (.reduce 56)
  a75 : Tab.T.action 75 ts = some (.reduce 51)
  a74 : Tab.T.action 74 ts = some (.reduce 57)
  a13 : Tab.T.action 13 ts = some (.reduce 58)
  a11 : Tab.T.action 11 ts = some (.reduce 163)
  a8 : Tab.T.action 8 ts = some (.reduce 156)
  a7 : Tab.T.action 7 ts = some (.reduce 155)

/-- the word-level part: what the states 29, 17, 75, 74 do on the terminator -/
structure TermW (ts : Nat) : Prop where
  a29 : Tab.T.action 29 ts = some (.reduce 51)
  a17 : Tab.T.action 17 ts = some (.reduce 56)
  a75 : Tab.T.action 75 ts = some (.reduce 51)
  a74 : Tab.T.action 74 ts = some (.reduce 57)

theorem TermOK.w {ts : Nat} (h : TermOK ts) : TermW ts := ⟨h.a29, h.a17, h.a75, h.a74⟩

theorem termNL : TermOK 55 :=
  ⟨Tab.a29n, Tab.a17n, Tab.a75n, Tab.a74n, Tab.a13n, Tab.a11n, Tab.a8n, Tab.a7n⟩
theorem termSEMI : TermOK 53 :=
  ⟨Tab.a29s, Tab.a17s, Tab.a75s, Tab.a74s, Tab.a13s, Tab.a11s, Tab.a8s, Tab.a7s⟩
theorem termWORD : Tab.T.action 29 24 = some (.reduce 51) ∧ Tab.T.action 17 24 = some (.reduce 56) ∧
    Tab.T.action 75 24 = some (.reduce 51) ∧ Tab.T.action 74 24 = some (.reduce 57) :=
  ⟨Tab.a29w, Tab.a17w, Tab.a75w, Tab.a74w⟩

section
variable {np : NestedParse} {L : Str} {adn : Bool} {P : Res SVal → Local → Tape → Prop}
  {base : Stack SVal} {b g93 ts : Nat} {term : Token} {iT : Nat}

/-- the end of a command: `simple_command` on the stack, the terminator in hand — four reductions
    up to `simple_list1` -/
theorem cmd_end {l : Local} {Tp : Tape} (hbase : topState base = b) (hB : BaseOK b g93)
    (hT : TermOK ts) {ns : List Node} {p1 p2 : Span} {s1 s2 : Str} {q1 q2 : List Node} {tr : Tree}
    {nl : Nat} {cons : List Nat} {fuel f' : Nat}
    (hh : ns.head? = some (.word p1 s1 q1)) (hl : ns.getLast? = some (.word p2 s2 q2))
    (hf : fuel = f' + 4)
    (hk : ∀ tr', Tot (engineLoop np f'
      { stack := ⟨g93, tr', .nodes [Node.command (p1.1, p2.2) ns]⟩ :: base,
        la := some (ts, .tok term), nlShifted := nl, consumed := cons }) l Tp P) :
    Tot (engineLoop np fuel
      { stack := ⟨13, tr, .nodes ns⟩ :: base, la := some (ts, .tok term), nlShifted := nl,
        consumed := cons }) l Tp P := by
  subst hf
  refine Tot.loop_step ?_
  refine R_reduce Tab.d13 rfl hT.a13 Tab.p58 rfl (by rw [hbase]; exact hB.g66) Tab.f58 ?_
  refine act_command hh hl ?_
  simp only [Bool.false_eq_true, if_false]
  refine Tot.loop_step ?_
  refine R_reduce Tab.d11 rfl hT.a11 Tab.p163 rfl (by rw [hbase]; exact hB.g95) Tab.f163 ?_
  refine act_pipeline1 ?_
  simp only [Bool.false_eq_true, if_false]
  refine Tot.loop_step ?_
  refine R_reduce Tab.d8 rfl hT.a8 Tab.p156 rfl (by rw [hbase]; exact hB.g94) Tab.f156 ?_
  refine act_pipeline_command1 ?_
  simp only [Bool.false_eq_true, if_false]
  refine Tot.loop_step ?_
  refine R_reduce Tab.d7 rfl hT.a7 Tab.p155 rfl (by rw [hbase]; exact hB.g93) Tab.f155 ?_
  refine act_simple_list1_1 ?_
  simp only [Bool.false_eq_true, if_false]
  exact hk _

theorem POK.afterNL {l : Local} (h : POK l) (hc : histOK l.currentToken = true) (t : Token) :
    POK (afterNL l t) :=
  ⟨h.wok.afterNL t, h.cs, hc, h.dp, ⟨h.ps.cp, h.ps.rl, h.ps.ca⟩⟩

/-- the tokenizer delivers the terminator `term` after the last word of the command -/
def FetchTerm (L : Str) (adn : Bool) (term : Token) (iE iT : Nat) : Prop :=
  ∀ (l0 : Local) (Q : Token → Local → Tape → Prop), POK l0 → histOK l0.currentToken = true →
    (∀ l'', POK l'' → l''.currentToken = term → Q term l'' ⟨L, iT, adn⟩) →
    Tot nextToken l0 ⟨L, iE, adn⟩ Q

theorem after_word' (rest : List (Str × Str)) {R : Str} {b0 : Char} {r0 : Str} (hi : ItemsOK rest)
    (hR : R = b0 :: r0) (hb0 : endChar b0 = true) :
    ∃ b r, spellI rest ++ R = b :: r ∧ endChar b = true := by
  cases rest with
  | nil => exact ⟨b0, r0, by simp [spellI, hR], hb0⟩
  | cons it r =>
    obtain ⟨g, w⟩ := it
    have := (hi (g, w) (List.mem_cons_self ..)).1
    cases g with
    | nil => exact absurd rfl this.1
    | cons y g' =>
      exact ⟨y, g' ++ w ++ spellI r ++ R, by simp [spellI],
        blank_endChar (this.2 y (List.mem_cons_self ..))⟩

/-- the words after the first of a command, up to its terminator -/
theorem cmd_words13 (hbase : topState base = b) (hB : BaseW b) (hT : TermW ts)
    (hts : symOfTok term = ts) (hlen : L.length + 2 ≤ 1073741824)
    {R : Str} {b0 : Char} {r0 : Str} (hR : R = b0 :: r0) (hb0 : endChar b0 = true)
    :
    ∀ (items : List (Str × Str)) (ns : List Node) (a i : Nat) (w : Str) (l : Local) (fuel f' nl : Nat)
      (cons : List Nat) (tr : Tree),
      ItemsOK items → PlainWord w → POK l → l.currentToken = wordTok a i w →
      L.drop i = spellI items ++ R →
      FetchTerm L adn term (endI i items) iT →
      fuel = f' + (3 * items.length + 3) →
      (∀ tr' nl' cons' l', POK l' → l'.currentToken = term → Tot (engineLoop np f'
        { stack := ⟨13, tr', .nodes (ns ++ Node.word (a, i) w [] :: nodesI i items)⟩ :: base,
          la := some (ts, .tok term), nlShifted := nl', consumed := cons' }) l' ⟨L, iT, adn⟩ P) →
      Tot (engineLoop np fuel
        { stack := ⟨13, tr, .nodes ns⟩ :: base, la := some (24, .tok (wordTok a i w)),
          nlShifted := nl, consumed := cons }) l ⟨L, i, adn⟩ P := by
  intro items
  induction items with
  | nil =>
    intro ns a i w l fuel f' nl cons tr hi hw hl hcur hL hfetch hf hk
    subst hf
    have hcurh : histOK l.currentToken = true := by rw [hcur]; rfl
    refine Tot.loop_step ?_
    refine R_shift Tab.d13 rfl Tab.a13w ?_
    refine Tot.loop_step ?_
    refine R_fetch Tab.d75 ?_
    refine hfetch l _ hl hcurh ?_
    intro l'' hl'' hcur''
    rw [hts]
    refine R_reduce Tab.d75 rfl hT.a75 Tab.p51 rfl Tab.g13_63 Tab.f51 ?_
    refine act_sce hw ?_
    simp only [Bool.false_eq_true, if_false]
    refine Tot.loop_step ?_
    refine R_reduce Tab.d74 rfl hT.a74 Tab.p57 rfl (by rw [hbase]; exact hB.g65) Tab.f57 ?_
    refine act_sc2 ?_
    simp only [Bool.false_eq_true, if_false]
    have hk' := fun tr' => hk tr' nl (cons ++ [24]) l'' hl'' hcur''
    simp only [nodesI, endI] at hk'
    exact hk' _
  | cons it rest ih =>
    intro ns a i w l fuel f' nl cons tr hi hw hl hcur hL hfetch hf hk
    obtain ⟨g, w'⟩ := it
    subst hf
    have hit := hi (g, w') (List.mem_cons_self ..)
    have hrest : ItemsOK rest := fun x hx => hi x (List.mem_cons_of_mem _ hx)
    obtain ⟨bb, r', hbr, hb⟩ := after_word' rest hrest hR hb0
    have e3 : f' + (3 * ((g, w') :: rest).length + 3) = (f' + (3 * rest.length + 3)) + 3 := by
      simp only [List.length_cons]; omega
    rw [e3]
    refine Tot.loop_step ?_
    refine R_shift Tab.d13 rfl Tab.a13w ?_
    refine Tot.loop_step ?_
    refine R_fetch Tab.d75 ?_
    have hL' : L.drop i = g ++ w' ++ bb :: r' := by
      rw [hL, ← hbr]; simp [spellI]
    have hcurh : histOK l.currentToken = true := by rw [hcur]; rfl
    refine tot_nextToken_word hl.wok hcurh hl.hist hit.2 hb hit.1.2 hL' hlen ?_ ?_
    · intro hacc
      rw [hcur, racc_word hw (by exact hl.hist)] at hacc
      cases hacc
    rw [symOfTok_word]
    refine R_reduce Tab.d75 rfl Tab.a75w Tab.p51 rfl Tab.g13_63 Tab.f51 ?_
    refine act_sce hw ?_
    simp only [Bool.false_eq_true, if_false]
    refine Tot.loop_step ?_
    refine R_reduce Tab.d74 rfl Tab.a74w Tab.p57 rfl (by rw [hbase]; exact hB.g65) Tab.f57 ?_
    refine act_sc2 ?_
    simp only [Bool.false_eq_true, if_false]
    have hLn : L.drop (i + g.length + w'.length) = spellI rest ++ R := by
      have := congrArg (List.drop (g.length + w'.length)) hL
      rw [List.drop_drop] at this
      rw [Nat.add_assoc, this]
      simp [spellI]
    refine ih (ns ++ [Node.word (a, i) w []]) (i + g.length) (i + g.length + w'.length) w'
      (afterTok l _) _ f' nl _ _ hrest hit.2 (hl.afterTok hcurh _) rfl hLn
      (by simpa [endI] using hfetch) rfl ?_
    intro tr' nl' cons' l' hl' hcur'
    have := hk tr' nl' cons' l' hl' hcur'
    simpa [nodesI, endI, List.append_assoc] using this

/-- one simple command, its first word already shifted (state 29 over `base`), up to its
    terminator; then `k` goes on from `simple_command` (state 13) over `base` with the terminator
    in hand -/
theorem cmd_run13 (hbase : topState base = b) (hB : BaseW b) (hT : TermW ts)
    (hts : symOfTok term = ts) (hlen : L.length + 2 ≤ 1073741824)
    {R : Str} {b0 : Char} {r0 : Str} (hR : R = b0 :: r0) (hb0 : endChar b0 = true)
    {items : List (Str × Str)} {a i : Nat} {w1 : Str} {l : Local} {fuel f' nl : Nat}
    {cons : List Nat} {tr : Tree}
    (hi : ItemsOK items) (hw : PlainWord w1) (hl : POK l) (hcur : l.currentToken = wordTok a i w1)
    (hL : L.drop i = spellI items ++ R)
    (hfetch : FetchTerm L adn term (endI i items) iT)
    (hf : fuel = f' + (3 * items.length + 2))
    (hk : ∀ tr' nl' cons' l', POK l' → l'.currentToken = term → Tot (engineLoop np f'
        { stack := ⟨13, tr', .nodes (Node.word (a, i) w1 [] :: nodesI i items)⟩ :: base,
          la := some (ts, .tok term), nlShifted := nl', consumed := cons' }) l' ⟨L, iT, adn⟩ P) :
    Tot (engineLoop np fuel
      { stack := ⟨29, tr, .tok (wordTok a i w1)⟩ :: base, la := none,
        nlShifted := nl, consumed := cons }) l ⟨L, i, adn⟩ P := by
  subst hf
  have hcurh : histOK l.currentToken = true := by rw [hcur]; rfl
  cases items with
  | nil =>
    refine Tot.loop_step ?_
    refine R_fetch Tab.d29 ?_
    refine hfetch l _ hl hcurh ?_
    intro l'' hl'' hcur''
    rw [hts]
    refine R_reduce Tab.d29 rfl hT.a29 Tab.p51 rfl (by rw [hbase]; exact hB.g63) Tab.f51 ?_
    refine act_sce hw ?_
    simp only [Bool.false_eq_true, if_false]
    refine Tot.loop_step ?_
    refine R_reduce Tab.d17 rfl hT.a17 Tab.p56 rfl (by rw [hbase]; exact hB.g65) Tab.f56 ?_
    refine act_sc1 ?_
    simp only [Bool.false_eq_true, if_false]
    have hk' := fun tr' => hk tr' nl cons l'' hl'' hcur''
    simp only [nodesI, endI] at hk'
    exact hk' _
  | cons it rest =>
    obtain ⟨g, w'⟩ := it
    have hit := hi (g, w') (List.mem_cons_self ..)
    have hrest : ItemsOK rest := fun x hx => hi x (List.mem_cons_of_mem _ hx)
    obtain ⟨bb, r', hbr, hb⟩ := after_word' rest hrest hR hb0
    have e3 : f' + (3 * ((g, w') :: rest).length + 2) = (f' + (3 * rest.length + 3)) + 2 := by
      simp only [List.length_cons]; omega
    rw [e3]
    have hL' : L.drop i = g ++ w' ++ bb :: r' := by
      rw [hL, ← hbr]; simp [spellI]
    refine Tot.loop_step ?_
    refine R_fetch Tab.d29 ?_
    refine tot_nextToken_word hl.wok hcurh hl.hist hit.2 hb hit.1.2 hL' hlen ?_ ?_
    · intro hacc
      rw [hcur, racc_word hw (by exact hl.hist)] at hacc
      cases hacc
    rw [symOfTok_word]
    refine R_reduce Tab.d29 rfl Tab.a29w Tab.p51 rfl (by rw [hbase]; exact hB.g63) Tab.f51 ?_
    refine act_sce hw ?_
    simp only [Bool.false_eq_true, if_false]
    refine Tot.loop_step ?_
    refine R_reduce Tab.d17 rfl Tab.a17w Tab.p56 rfl (by rw [hbase]; exact hB.g65) Tab.f56 ?_
    refine act_sc1 ?_
    simp only [Bool.false_eq_true, if_false]
    have hLn : L.drop (i + g.length + w'.length) = spellI rest ++ R := by
      have := congrArg (List.drop (g.length + w'.length)) hL
      rw [List.drop_drop] at this
      rw [Nat.add_assoc, this]
      simp [spellI]
    refine cmd_words13 hbase hB hT hts hlen hR hb0 rest [Node.word (a, i) w1 []] (i + g.length)
      (i + g.length + w'.length) w' (afterTok l _) _ f' nl _ _ hrest hit.2 (hl.afterTok hcurh _) rfl
      hLn (by simpa [endI] using hfetch) rfl ?_
    intro tr' nl' cons' l' hl' hcur'
    have := hk tr' nl' cons' l' hl' hcur'
    simpa [nodesI, endI] using this

theorem nodesI_last (w : Node) : ∀ (items : List (Str × Str)) (off : Nat),
    ∃ p2 s2, (w :: nodesI off items).getLast? = some (Node.word p2 s2 []) ∨
      (items = [] ∧ (w :: nodesI off items).getLast? = some w)
  | [], off => ⟨(0, 0), [], Or.inr ⟨rfl, rfl⟩⟩
  | (g, x) :: r, off => by
    obtain ⟨p2, s2, h | ⟨hr, h⟩⟩ := nodesI_last
      (Node.word (off + g.length, off + g.length + x.length) x []) r (off + g.length + x.length)
    · exact ⟨p2, s2, Or.inl (by simpa [nodesI, List.getLast?_cons_cons] using h)⟩
    · exact ⟨_, _, Or.inl (by simpa [nodesI, List.getLast?_cons_cons] using h)⟩

/-- the last node of a command's word list is a word ending where the items end -/
theorem words_last (a i : Nat) (w1 : Str) : ∀ (items : List (Str × Str)),
    ∃ p2 s2, (Node.word (a, i) w1 [] :: nodesI i items).getLast? = some (Node.word p2 s2 []) ∧
      p2.2 = endI i items := by
  intro items
  induction items generalizing a i w1 with
  | nil => exact ⟨(a, i), w1, rfl, rfl⟩
  | cons it r ih =>
    obtain ⟨g, x⟩ := it
    obtain ⟨p2, s2, h1, h2⟩ := ih (i + g.length) (i + g.length + x.length) x
    exact ⟨p2, s2, by simpa [nodesI, List.getLast?_cons_cons] using h1, by simpa [endI] using h2⟩

/-- **one simple command**, its first word already shifted (state 29 over `base`), up to its
    terminator; then `k` goes on from `simple_list1` over `base` with the terminator in hand -/
theorem cmd_run (hbase : topState base = b) (hB : BaseOK b g93) (hT : TermOK ts)
    (hts : symOfTok term = ts) (hlen : L.length + 2 ≤ 1073741824)
    {R : Str} {b0 : Char} {r0 : Str} (hR : R = b0 :: r0) (hb0 : endChar b0 = true)
    {items : List (Str × Str)} {a i : Nat} {w1 : Str} {l : Local} {fuel f' nl : Nat}
    {cons : List Nat} {tr : Tree}
    (hi : ItemsOK items) (hw : PlainWord w1) (hl : POK l) (hcur : l.currentToken = wordTok a i w1)
    (hL : L.drop i = spellI items ++ R)
    (hfetch : FetchTerm L adn term (endI i items) iT)
    (hf : fuel = f' + (3 * items.length + 6))
    (hk : ∀ tr' nl' cons' l', POK l' → l'.currentToken = term → Tot (engineLoop np f'
        { stack := ⟨g93, tr', .nodes [Node.command (a, endI i items)
            (Node.word (a, i) w1 [] :: nodesI i items)]⟩ :: base,
          la := some (ts, .tok term), nlShifted := nl', consumed := cons' }) l' ⟨L, iT, adn⟩ P) :
    Tot (engineLoop np fuel
      { stack := ⟨29, tr, .tok (wordTok a i w1)⟩ :: base, la := none,
        nlShifted := nl, consumed := cons }) l ⟨L, i, adn⟩ P := by
  obtain ⟨p2, s2, hlast, hp2⟩ := words_last a i w1 items
  refine cmd_run13 (f' := f' + 4) hbase hB.w hT.w hts hlen hR hb0 hi hw hl hcur hL hfetch
    (by rw [hf]; omega) ?_
  intro tr' nl' cons' l' hl' hcur'
  refine cmd_end (p1 := (a, i)) (p2 := p2) (s1 := w1) (s2 := s2) (q1 := []) (q2 := [])
    hbase hB hT rfl hlast rfl ?_
  intro tr''
  have := hk tr'' nl' cons' l' hl' hcur'
  rw [hp2]
  exact this

end

end Bashlex.C02
