/-
  C02 (round trip), part 19: from the engine to one `_parser.parse()`, for lists of pipelines;
  `resolve`, `_endfinder` and `posshifter` on the expected ASTs.
-/
import Bashlex.Props.C02.SeqPE
import Bashlex.Props.C02.PipeGlue

namespace Bashlex.C02
open Bashlex Bashlex.M Bashlex.LR
set_option linter.unusedSimpArgs false
set_option linter.unusedVariables false

/-- a part of a flat list of pipelines: a command, an operator, or a pipeline node over commands
    and pipes -/
def EPart (n : Node) : Prop := SeqPart n ∨ ∃ p ns, n = Node.pipeline p ns ∧ AllSeq ns

def AllE (ns : List Node) : Prop := ∀ n ∈ ns, EPart n

theorem resolve_epart (store : List RedirCell) {n : Node} (h : EPart n) : resolve store n = n := by
  rcases h with (⟨p, ws, rfl, hw⟩ | ⟨p, s, rfl⟩ | ⟨p, s, rfl⟩) | ⟨p, ns, rfl, hns⟩
  · rw [resolve, resolveL_words store ws hw]
  · simp [resolve]
  · simp [resolve]
  · rw [resolve, resolveL_seq store ns hns]

theorem resolveL_allE (store : List RedirCell) : ∀ (ns : List Node), AllE ns → resolveL store ns = ns
  | [], _ => by simp [resolveL]
  | n :: r, h => by
    have ih := resolveL_allE store r (fun m hm => h m (List.mem_cons_of_mem _ hm))
    simp [resolveL, ih, resolve_epart store (h n (List.mem_cons_self ..))]

theorem filterMap_preorder_epart {β : Type} (f : Node → Option β)
    (hw : ∀ p s, f (Node.word p s []) = none) (hc : ∀ p ws, f (Node.command p ws) = none)
    (ho : ∀ p s, f (Node.operator p s) = none) (hp : ∀ p s, f (Node.pipe p s) = none)
    (hpl : ∀ p ns, f (Node.pipeline p ns) = none) {n : Node} (h : EPart n) :
    (Node.preorder n).filterMap f = [] := by
  rcases h with (⟨p, ws, rfl, hws⟩ | ⟨p, s, rfl⟩ | ⟨p, s, rfl⟩) | ⟨p, ns, rfl, hns⟩
  · simp [Node.preorder, preorderL_words ws hws, hc, filterMap_words f hw ws hws]
  · simp [Node.preorder, ho]
  · simp [Node.preorder, hp]
  · simp [Node.preorder, hpl, filterMap_preorderL_seq f hw hc ho hp ns hns]

theorem filterMap_preorderL_allE {β : Type} (f : Node → Option β)
    (hw : ∀ p s, f (Node.word p s []) = none) (hc : ∀ p ws, f (Node.command p ws) = none)
    (ho : ∀ p s, f (Node.operator p s) = none) (hp : ∀ p s, f (Node.pipe p s) = none)
    (hpl : ∀ p ns, f (Node.pipeline p ns) = none) :
    ∀ (ns : List Node), AllE ns → (Node.preorderL ns).filterMap f = []
  | [], _ => by simp [Node.preorderL]
  | n :: r, h => by
    have ih := filterMap_preorderL_allE f hw hc ho hp hpl r (fun m hm => h m (List.mem_cons_of_mem _ hm))
    simp [Node.preorderL, List.filterMap_append, ih,
      filterMap_preorder_epart f hw hc ho hp hpl (h n (List.mem_cons_self ..))]

theorem nextIndex_epart_list {p : Span} {ns : List Node} (h : AllE ns) :
    nextIndex (Node.list p ns) = p.2 := by
  unfold nextIndex Node.lastHeredocEnd
  simp only [Node.preorder, List.filterMap_cons]
  rw [filterMap_preorderL_allE _ (fun _ _ => rfl) (fun _ _ => rfl) (fun _ _ => rfl)
    (fun _ _ => rfl) (fun _ _ => rfl) ns h]
  rfl

theorem PE.node_epart (e : PE) (off : Nat) : EPart (e.node off) := by
  obtain ⟨c1, cs⟩ := e
  cases cs with
  | nil => exact Or.inl (Or.inl ⟨_, _, rfl, cmdNode_words _ _ _ _⟩)
  | cons c cs' => exact Or.inr ⟨_, _, rfl, pipeNodes_allSeq c1 (c :: cs') off _⟩

theorem PE.nextIndex_node (e : PE) (off : Nat) : nextIndex (e.node off) = e.endPos off := by
  obtain ⟨c1, cs⟩ := e
  cases cs with
  | nil =>
    show nextIndex (c1.node off) = _
    unfold SCmd.node cmdNode
    rw [nextIndex_command (cmdNode_words off c1.lead c1.w1 c1.items)]
    rfl
  | cons c cs' =>
    show nextIndex (Node.pipeline _ _) = _
    rw [nextIndex_pipeline (pipeNodes_allSeq c1 (c :: cs') off _)]

theorem erestNodes_allE : ∀ (es : List (Op × PE)) (a : Nat), AllE (erestNodes a es)
  | [], _ => fun _ h => by cases h
  | (o, e) :: es, a => by
    intro n hn
    simp only [erestNodes, List.mem_cons] at hn
    rcases hn with rfl | rfl | hn
    · exact Or.inl (Or.inr (Or.inl ⟨_, _, rfl⟩))
    · exact PE.node_epart e _
    · exact erestNodes_allE es _ n hn

theorem elineNodes_allE (p1 : PE) (es : List (Op × PE)) (i a : Nat) :
    AllE (p1.node i :: erestNodes a es) := by
  intro n hn
  simp only [List.mem_cons] at hn
  rcases hn with rfl | hn
  · exact PE.node_epart p1 i
  · exact erestNodes_allE es a n hn

/-- the AST of a line `p₁ op₂ p₂ …` of pipelines (n ≥ 1): the node of the single pipeline, or the
    flat list node -/
def elineNode (i : Nat) (p1 : PE) (es : List (Op × PE)) : Node :=
  mkSeq (i + p1.c1.lead.length) (elastEnd (p1.endPos i) (i + p1.text.length) es)
    (p1.node i :: erestNodes (i + p1.text.length) es)

theorem resolve_elineNode (store : List RedirCell) (i : Nat) (p1 : PE) (es : List (Op × PE)) :
    resolve store (elineNode i p1 es) = elineNode i p1 es := by
  cases es with
  | nil => exact resolve_epart store (PE.node_epart p1 i)
  | cons oe es' =>
    obtain ⟨o, e⟩ := oe
    show resolve store (Node.list _ _) = Node.list _ _
    rw [resolve, resolveL_allE _ _ (elineNodes_allE p1 ((o, e) :: es') i _)]

theorem nextIndex_elineNode (i : Nat) (p1 : PE) (es : List (Op × PE)) :
    nextIndex (elineNode i p1 es) = elastEnd (p1.endPos i) (i + p1.text.length) es := by
  cases es with
  | nil => exact PE.nextIndex_node p1 i
  | cons oe es' =>
    obtain ⟨o, e⟩ := oe
    show nextIndex (Node.list _ _) = _
    rw [nextIndex_epart_list (elineNodes_allE p1 ((o, e) :: es') i _)]

/-- `_parser.parse()` on a line of pipelines (n ≥ 1); any text may follow the newline -/
theorem tot_parserRun_E {L : Str} {adn : Bool} {p1 : PE} {es : List (Op × PE)} {l : Local}
    {i d : Nat} {nlr : Str}
    (hlen : L.length + 2 ≤ 1073741824) (hp1 : p1.OK) (hes : ∀ x ∈ es, x.2.OK)
    (hl : POK l) (hcur : histOK l.currentToken = true)
    (hL : L.drop i = p1.text ++ (erestText es ++ '\n' :: nlr))
    (hf : ecost 0 es + p1.cost + 2 ≤ 1073741824) :
    Tot (parserRun (d + 1)) l ⟨L, i, adn⟩ (fun r _ _ => r = some (elineNode i p1 es)) := by
  rw [C07.parserRun_succ]
  refine Tot.bind ?_
  obtain ⟨f, hf'⟩ : ∃ f, 1073741824 = (f + ecost 0 es) + p1.cost + 1 :=
    ⟨1073741824 - (ecost 0 es + p1.cost + 1), by omega⟩
  show Tot (engineLoop (C07.nestedOf d) 1073741824 {}) _ _ _
  rw [hf']
  refine run_seqE (nlr := nlr) hlen hp1 hes hl hcur hL ?_
  intro r l' T' hr
  exact finish_parserRun (N := elineNode i p1 es) hr (fun st => resolve_elineNode st i p1 es)

/-- the same after the trailing blanks and the newline of the previous line -/
theorem tot_parserRun_E_nl {L : Str} {adn : Bool} {p1 : PE} {es : List (Op × PE)} {l : Local}
    {i d : Nat} {nlr pre : Str}
    (hlen : L.length + 2 ≤ 1073741824) (hp1 : p1.OK) (hes : ∀ x ∈ es, x.2.OK)
    (hl : POK l) (hcur : histOK l.currentToken = true) (hpre : Blank pre)
    (hL : L.drop i = pre ++ '\n' :: (p1.text ++ (erestText es ++ '\n' :: nlr)))
    (hf : ecost 0 es + p1.cost + 3 ≤ 1073741824) :
    Tot (parserRun (d + 1)) l ⟨L, i, adn⟩
      (fun r _ _ => r = some (elineNode (i + pre.length + 1) p1 es)) := by
  rw [C07.parserRun_succ]
  refine Tot.bind ?_
  obtain ⟨f, hf'⟩ : ∃ f, 1073741824 = ((f + ecost 0 es) + p1.cost + 1) + 1 :=
    ⟨1073741824 - (ecost 0 es + p1.cost + 2), by omega⟩
  show Tot (engineLoop (C07.nestedOf d) 1073741824 {}) _ _ _
  rw [hf']
  refine Tot.loop_step ?_
  refine R_fetch0 ?_
  refine tot_nextToken_nl hl.wok hpre hL hlen ?_
  rw [symOfTok_nl]
  rw [step_nl0 (c := { stack := [], la := some (55, _), nlShifted := 0, consumed := [] })
    (la := (55, _)) rfl Tab.d0 rfl (show ((55 : Nat) == Tab.T.endTok) = false by decide)
    (show ((55 : Nat) == Tab.T.nlTok) = true by decide) Tab.a0n]
  refine Tot.pure ?_
  have hL2 : L.drop (i + pre.length + 1) = p1.text ++ (erestText es ++ '\n' :: nlr) := by
    have := congrArg (List.drop (pre.length + 1)) hL
    rw [List.drop_drop] at this
    rw [Nat.add_assoc, this]
    simp
  refine run_seqE (nlr := nlr) hlen hp1 hes (hl.afterNL hcur _) rfl hL2 ?_
  intro r l' T' hr
  exact finish_parserRun (N := elineNode (i + pre.length + 1) p1 es) hr
    (fun st => resolve_elineNode st _ p1 es)

end Bashlex.C02
