/-
  C02 (round trip), part 26: `posshifter` on the ASTs of general commands, their pipelines and lists.
-/
import Bashlex.Props.C02.PGGlue
import Bashlex.Props.C02.ShiftE

namespace Bashlex.C02
open Bashlex
set_option linter.unusedSimpArgs false
set_option linter.unusedVariables false

theorem Item.node_shift (it : Item) (k a : Nat) :
    Node.mapPos (sh k) (it.node a) = it.node (a + k) := by
  have e : a + it.text.length + k = a + k + it.text.length := by omega
  cases it <;> simp only [Item.node, Node.mapPos, Node.mapPosL, sh, Item.text] at * <;> rw [e]

theorem Elem.node_shift (el : Elem) (k a : Nat) :
    Node.mapPos (sh k) (el.node a) = el.node (a + k) := by
  cases el with
  | simple it => exact Item.node_shift it k a
  | redir o g2 w =>
    have e1 : a + o.txt.length + g2.length + w.length + k = a + k + o.txt.length + g2.length + w.length := by
      omega
    have e2 : a + o.txt.length + g2.length + k = a + k + o.txt.length + g2.length := by omega
    simp only [Elem.node, Node.mapPos, Node.mapPosO, Node.mapPosL, sh, e1, e2]
  | nredir n o g2 w =>
    have e1 : a + n.length + o.txt.length + g2.length + w.length + k =
        a + k + n.length + o.txt.length + g2.length + w.length := by omega
    have e2 : a + n.length + o.txt.length + g2.length + k = a + k + n.length + o.txt.length + g2.length := by
      omega
    simp only [Elem.node, Node.mapPos, Node.mapPosO, Node.mapPosL, sh, e1, e2]

theorem nodesJ_shift (k : Nat) : ∀ (items : List (Str × Elem)) (off : Nat),
    Node.mapPosL (sh k) (nodesJ off items) = nodesJ (off + k) items
  | [], _ => by simp [nodesJ, Node.mapPosL]
  | (g, it) :: r, off => by
    have ih := nodesJ_shift k r (off + g.length + it.text.length)
    have e1 : off + g.length + it.text.length + k = off + k + g.length + it.text.length := by omega
    have e2 : off + g.length + k = off + k + g.length := by omega
    simp only [nodesJ, Node.mapPosL, Elem.node_shift, ih, e1, e2]

theorem GCmd.node_shift (c : GCmd) (k off : Nat) : (c.node off).shift k = c.node (off + k) := by
  have ih := nodesJ_shift k c.items (off + c.lead.length + c.first.text.length)
  have e1 : off + c.lead.length + c.first.text.length + k =
      off + k + c.lead.length + c.first.text.length := by omega
  have e2 : off + c.lead.length + k = off + k + c.lead.length := by omega
  simp only [Node.shift, GCmd.node, GCmd.nodes, Node.mapPos, Node.mapPosL, Elem.node_shift, ih, e1, e2,
    GCmd.endPos_shift, sh]

theorem gprestNodes_shift (k : Nat) : ∀ (cs : List GCmd) (a : Nat),
    Node.mapPosL (sh k) (gprestNodes a cs) = gprestNodes (a + k) cs
  | [], _ => by simp [gprestNodes, Node.mapPosL]
  | c :: cs, a => by
    have ih := gprestNodes_shift k cs (a + 1 + c.text.length)
    have hc := GCmd.node_shift c k (a + 1)
    have e1 : a + 1 + c.text.length + k = a + k + 1 + c.text.length := by omega
    have e2 : a + 1 + k = a + k + 1 := by omega
    simp only [Node.shift] at hc
    simp only [gprestNodes, Node.mapPosL, Node.mapPos, sh, hc, ih, e1, e2]

theorem GPE.endPos_shift (e : GPE) (k off : Nat) : e.endPos (off + k) = e.endPos off + k := by
  unfold GPE.endPos
  have := glastEnd_shift k e.cs (e.c1.endPos off) (off + e.c1.text.length)
  have e1 : off + k + e.c1.text.length = off + e.c1.text.length + k := by omega
  rw [e1, GCmd.endPos_shift, this]

theorem GPE.node_shift (e : GPE) (k off : Nat) : (e.node off).shift k = e.node (off + k) := by
  have hc := GCmd.node_shift e.c1 k off
  simp only [Node.shift] at hc
  have hr := gprestNodes_shift k e.cs (off + e.c1.text.length)
  have e1 : off + e.c1.text.length + k = off + k + e.c1.text.length := by omega
  have e2 : off + e.c1.lead.length + k = off + k + e.c1.lead.length := by omega
  unfold GPE.node
  rw [mkPipe_shift]
  simp only [Node.mapPosL, hc, hr, GPE.endPos_shift, e1, e2]

theorem hrestNodes_shift (k : Nat) : ∀ (es : List (Op × GPE)) (a : Nat),
    Node.mapPosL (sh k) (hrestNodes a es) = hrestNodes (a + k) es
  | [], _ => by simp [hrestNodes, Node.mapPosL]
  | (o, e) :: es, a => by
    have ih := hrestNodes_shift k es (a + o.txt.length + e.text.length)
    have hc := GPE.node_shift e k (a + o.txt.length)
    have e1 : a + o.txt.length + e.text.length + k = a + k + o.txt.length + e.text.length := by omega
    have e2 : a + o.txt.length + k = a + k + o.txt.length := by omega
    simp only [Node.shift] at hc
    simp only [hrestNodes, Node.mapPosL, Node.mapPos, sh, hc, ih, e1, e2]

theorem hlastEnd_shift (k : Nat) : ∀ (es : List (Op × GPE)) (e0 a : Nat),
    hlastEnd (e0 + k) (a + k) es = hlastEnd e0 a es + k
  | [], _, _ => rfl
  | (o, e) :: es, e0, a => by
    have ih := hlastEnd_shift k es (e.endPos (a + o.txt.length)) (a + o.txt.length + e.text.length)
    have e1 : a + k + o.txt.length + e.text.length = a + o.txt.length + e.text.length + k := by omega
    have e2 : a + k + o.txt.length = a + o.txt.length + k := by omega
    show hlastEnd (e.endPos (a + k + o.txt.length)) (a + k + o.txt.length + e.text.length) es =
      hlastEnd (e.endPos (a + o.txt.length)) (a + o.txt.length + e.text.length) es + k
    rw [e1, e2, GPE.endPos_shift e k (a + o.txt.length)]
    exact ih

/-- **shifting the AST of a line** -/
theorem hlineNode_shift (k i : Nat) (p1 : GPE) (es : List (Op × GPE)) :
    (hlineNode i p1 es).shift k = hlineNode (i + k) p1 es := by
  have hc := GPE.node_shift p1 k i
  simp only [Node.shift] at hc
  have hr := hrestNodes_shift k es (i + p1.text.length)
  have hl := hlastEnd_shift k es (p1.endPos i) (i + p1.text.length)
  have e1 : i + p1.text.length + k = i + k + p1.text.length := by omega
  have e2 : i + p1.c1.lead.length + k = i + k + p1.c1.lead.length := by omega
  unfold hlineNode
  rw [mkSeq_shift]
  simp only [Node.mapPosL, hc, hr, ← hl, GPE.endPos_shift, e1, e2]

end Bashlex.C02
