/-
  C02 (round trip), part 21: the real tokenizer on words that may contain `=` — ASSIGNMENT_WORD in
  command position (`a=b cmd`), WORD with the ASSIGNMENT flag elsewhere (`cmd a=b`).
-/
import Bashlex.Props.C02.Tok

namespace Bashlex.C02
open Bashlex Bashlex.M
set_option linter.unusedSimpArgs false
set_option linter.unusedVariables false

/-- the safe class plus `=` -/
def wordChar (c : Char) : Bool := plainChar c || c == '='

theorem wc_ne {c d : Char} (hd : wordChar d = false) (hc : wordChar c = true) : (c == d) = false := by
  cases h : c == d with
  | false => rfl
  | true =>
    have := eq_of_beq h
    subst this
    rw [hd] at hc; cases hc

theorem wc_ne' {c d : Char} (hd : wordChar d = false) (hc : wordChar c = true) : c ≠ d := by
  intro h; subst h; rw [hd] at hc; cases hc

theorem wc_syn {c : Char} (hc : wordChar c = true) : synClass c = {} := by
  cases hp : plainChar c with
  | true => exact plain_syn hp
  | false =>
    have : c = '=' := by simpa [wordChar, hp] using hc
    subst this; decide

theorem wc_blank {c : Char} (hc : wordChar c = true) : shellblank c = false := by
  cases hp : plainChar c with
  | true => exact plain_blank hp
  | false =>
    have : c = '=' := by simpa [wordChar, hp] using hc
    subst this; decide

theorem plain_wc {c : Char} (h : plainChar c = true) : wordChar c = true := by simp [wordChar, h]

/-- one iteration on a plain character followed by another character `d` (not a backslash) -/
theorem step_plainG {l : Local} {L : Str} {i : Nat} {adn : Bool} {c d : Char} {ad : Bool} {tw : Str}
    {P : RWState ⊕ RWState → Local → Tape → Prop}
    (ht : l.tape = none) (hl : l.eolLookahead = none) (hc : wordChar c = true)
    (hd : L[i]? = some d) (hdb : d ≠ '\\')
    (h : P (.inl (rwSt (some d) (ad && isDigit c) (tw ++ [c]))) l ⟨L, i + 1, adn⟩) :
    Tot (readtokenwordStep (rwSt (some c) ad tw)) l ⟨L, i, adn⟩ P := by
  rw [C04.TTP.readtokenwordStep_eq]
  simp only [rwSt, Bool.false_eq_true, if_false]
  refine Tot.bind (currentDelimiter_tot ?_)
  simp only [wc_ne (by decide : wordChar '\\' = false) hc, Bool.false_eq_true, if_false]
  refine Tot.bind (tot_shellquote ?_)
  simp only [wc_syn hc, Bool.false_eq_true, if_false]
  refine Tot.bind (tot_shellexp ?_)
  simp only [wc_syn hc, Bool.false_eq_true, if_false]
  unfold C04.TTP.rwBreak
  simp only [Bool.not_false, if_true]
  refine Tot.bind (tot_shellbreak ?_)
  simp only [wc_syn hc, Bool.false_eq_true, if_false]
  unfold C04.TTP.rwTail
  refine Tot.bind (currentDelimiter_tot ?_)
  refine Tot.bind (tot_getc ht hl hd hdb ?_)
  refine Tot.pure ?_
  simp only [handleescapedchar, Bool.not_false, if_true,
    wc_ne (by decide : wordChar '$' = false) hc]
  exact h


/-- **the loop of `_readtokenword`** over a plain word: it collects exactly the word and stops on
    the character after it, which is put back -/
theorem tot_wordLoopG {l : Local} {L : Str} {adn : Bool} {b : Char} {rest : Str}
    {P : RWState → Local → Tape → Prop}
    (ht : l.tape = none) (hl : l.eolLookahead = none) (hb : endChar b = true) :
    ∀ (w' : Str) (tw : Str) (c : Char) (i : Nat) (ad : Bool) (fuel : Nat),
      L.drop i = c :: (w' ++ b :: rest) → wordChar c = true → (∀ x ∈ w', wordChar x = true) →
      w'.length + 2 ≤ fuel →
      (∀ ad1, P (rwSt (some b) ad1 (tw ++ c :: w')) l ⟨L, i + 1 + w'.length, adn⟩) →
      Tot (M.loop "_readtokenword" readtokenwordStep fuel (rwSt (some c) ad tw)) l ⟨L, i + 1, adn⟩ P := by
  intro w'
  induction w' with
  | nil =>
    intro tw c i ad fuel hL hc hw hf h
    obtain ⟨f1, rfl⟩ : ∃ f1, fuel = f1 + 1 := ⟨fuel - 1, by omega⟩
    refine Tot.loop_step ?_
    have hL1 := drop_tail hL
    refine step_plainG ht hl hc (drop_head hL1) (endChar_ne_bs hb) ?_
    obtain ⟨f2, rfl⟩ : ∃ f2, f1 = f2 + 1 := ⟨f1 - 1, by simp at hf; omega⟩
    refine Tot.loop_step ?_
    refine step_end ht hb (drop_lt hL1) ?_
    exact h _
  | cons c' w'' ih =>
    intro tw c i ad fuel hL hc hw hf h
    obtain ⟨f1, rfl⟩ : ∃ f1, fuel = f1 + 1 := ⟨fuel - 1, by omega⟩
    refine Tot.loop_step ?_
    have hL1 := drop_tail hL
    have hc' : wordChar c' = true := hw c' (List.mem_cons_self ..)
    refine step_plainG ht hl hc (drop_head hL1) (wc_ne' (by decide) hc') ?_
    refine ih (tw ++ [c]) c' (i + 1) _ f1 hL1 hc' (fun x hx => hw x (List.mem_cons_of_mem _ hx))
      (by simp at hf; omega) ?_
    intro ad1
    have := h ad1
    simp only [List.length_cons, List.append_assoc, List.singleton_append] at this ⊢
    have e : i + 1 + 1 + w''.length = i + 1 + (w''.length + 1) := by omega
    rw [e]; exact this

/-! ## words over the class -/

def GenWord (w : Str) : Prop := w ≠ [] ∧ ∀ x ∈ w, wordChar x = true
instance (w : Str) : Decidable (GenWord w) := by unfold GenWord; exact inferInstance

theorem PlainWord.gen {w : Str} (h : PlainWord w) : GenWord w := ⟨h.1, fun x hx => plain_wc (h.2 x hx)⟩

/-- `_is_assignment(value)` (truthiness) -/
def looksAssign : Str → Bool
  | [] => false
  | c :: r => (isAlpha c || c == '_') && isAssignmentLoop (c :: r)

theorem isAssignment_gen {w : Str} (hw : GenWord w) : isAssignment w = pure (looksAssign w) := by
  obtain ⟨hne, hp⟩ := hw
  cases w with
  | nil => exact absurd rfl hne
  | cons c r =>
    unfold isAssignment looksAssign
    cases h : (isAlpha c || c == '_') with
    | true =>
      have : (!isAlpha c && c != '_') = false := by
        simp only [Bool.or_eq_true, beq_iff_eq] at h
        rcases h with h | h <;> simp [h]
      simp [this, h]
    | false =>
      have : (!isAlpha c && c != '_') = true := by
        simp only [Bool.or_eq_false_iff, beq_eq_false_iff_ne] at h
        simp [h.1, h.2]
      simp [this, h]

theorem looksAssign_plain {w : Str} (hw : PlainWord w) : looksAssign w = false := by
  obtain ⟨hne, hp⟩ := hw
  cases w with
  | nil => rfl
  | cons c r => simp [looksAssign, isAssignmentLoop_plain _ hp]

theorem gen_ne_single {w : Str} (hw : GenWord w) {d : Char} (hd : wordChar d = false) :
    (w == [d]) = false := by
  cases h : w == [d] with
  | false => rfl
  | true =>
    have := eq_of_beq h
    subst this
    have := hw.2 d (List.mem_cons_self ..)
    rw [hd] at this; cases this

theorem gen_ne_pair {w : Str} (hw : GenWord w) {d d' : Char} (hd : wordChar d = false) :
    (w == [d, d']) = false := by
  cases h : w == [d, d'] with
  | false => rfl
  | true =>
    have := eq_of_beq h
    subst this
    have := hw.2 d (List.mem_cons_self ..)
    rw [hd] at this; cases this

theorem tot_specialG {l : Local} {T : Tape} {w : Str} {P : Option TokType → Local → Tape → Prop}
    (hke : l.esacsNeeded = 0) (hkb : l.ps.allowopnbrc = false)
    (h1 : histOK l.lastReadToken = true) (h2 : histOK l.tokenBeforeThat = true)
    (hw : GenWord w) (h : P none l T) : Tot (specialcasetokens w) l T P := by
  obtain ⟨a1, a2, a3, a4, a5, a6, a7, a8, a9⟩ := histOK_is h1
  obtain ⟨b1, b2, b3, b4, b5, b6, b7, b8, b9⟩ := histOK_is h2
  unfold specialcasetokens
  refine Tot.bind (Tot.get ?_)
  simp only [b1, b2, b3, Bool.or_self, Bool.and_false, Bool.false_and, Bool.false_eq_true, if_false,
    hke, bne_self_eq_false, a4, a5, a6,
    gen_ne_single hw (by decide : wordChar '}' = false),
    gen_ne_single hw (by decide : wordChar '{' = false),
    gen_ne_pair hw (d' := ']') (by decide : wordChar ']' = false)]
  refine Tot.bind (Tot.get ?_)
  simp only [hkb, Bool.false_eq_true, if_false]
  refine Tot.bind (Tot.get ?_)
  exact Tot.pure h

theorem gen_head_brace {w : Str} (hw : GenWord w) : (w.head? == some '{') = false := by
  obtain ⟨hne, hp⟩ := hw
  cases w with
  | nil => rfl
  | cons c r =>
    simp only [List.head?_cons]
    have := wc_ne' (by decide : wordChar '{' = false) (hp c (List.mem_cons_self ..))
    simpa using this

/-- the token `_readtokenword` builds for a word over the class; `acc`: is an assignment
    acceptable here (`_assignment_acceptable(last_read_token)`) -/
def awTok (a k : Nat) (w : Str) : Token :=
  { ttype := some .ASSIGNMENT_WORD, value := .str w, pos := some (a, k), flags := [.ASSIGNMENT, .NOSPLIT] }
/-- the WORD token of a word that looks like an assignment, outside command position -/
def eqTok (a k : Nat) (w : Str) : Token :=
  { ttype := some .WORD, value := .str w, pos := some (a, k), flags := [.ASSIGNMENT] }
def genTok (a k : Nat) (w : Str) (acc : Bool) : Token :=
  if looksAssign w then (if acc then awTok a k w else eqTok a k w) else wordTok a k w


theorem tot_finishWordG {l0 : Local} {T : Tape} {b : Char} {ad1 : Bool} {w : Str} {a : Nat}
    {P : Token → Local → Tape → Prop} {acc : Bool}
    (hk : WOK l0) (hps : PSOK l0) (h1 : histOK l0.lastReadToken = true)
    (h2 : histOK l0.tokenBeforeThat = true)
    (hw : GenWord w) (hb : endChar b = true) (hak : a < T.idx)
    (hres : reservedWordAcceptable l0 l0.lastReadToken = true →
      reservedFirstCommandChars.lookup w = none)
    (hacc : assignmentAcceptable l0 l0.lastReadToken = acc)
    (h : P (genTok a T.idx w acc) l0 T) :
    Tot (finishWord (rwSt (some b) ad1 w)) { l0 with positions := [a] } T P := by
  obtain ⟨a1, a2, a3, a4, a5, a6, a7, a8, a9⟩ := histOK_is h1
  unfold finishWord
  refine Tot.bind (tot_recordpos hk.tape ?_)
  refine Tot.bind (Tot.get ?_)
  simp only [rwSt, endChar_not_redir hb, a8, a9, Bool.or_self, Bool.and_false, Bool.false_and,
    Bool.false_eq_true, if_false, List.singleton_append, Nat.sub_zero]
  refine Tot.bind (tot_specialG (l := { l0 with positions := [a, T.idx] })
    hk.esacs hk.brc h1 h2 hw ?_)
  simp only []
  refine Tot.bind (Tot.get ?_)
  have hres' : reservedWordAcceptable { l0 with positions := [a, T.idx] } l0.lastReadToken = true →
      reservedFirstCommandChars.lookup w = none := hres
  have hacc' : assignmentAcceptable { l0 with positions := [] } l0.lastReadToken = acc := hacc
  have fin : Tot (pure (genTok a T.idx w acc) : M Token) { l0 with positions := [] } T P := by
    rw [pos_eta l0 hk.pos]; exact Tot.pure h
  have e0 : addFlag [] WordFlag.ASSIGNMENT = [WordFlag.ASSIGNMENT] := by decide
  have e1 : addFlag [WordFlag.ASSIGNMENT] WordFlag.NOSPLIT = [WordFlag.ASSIGNMENT, WordFlag.NOSPLIT] := by
    decide
  have e2 : ([WordFlag.ASSIGNMENT, WordFlag.NOSPLIT].contains WordFlag.ASSIGNMENT &&
      [WordFlag.ASSIGNMENT, WordFlag.NOSPLIT].contains WordFlag.NOSPLIT) = true := by decide
  have e3 : ([WordFlag.ASSIGNMENT].contains WordFlag.ASSIGNMENT &&
      [WordFlag.ASSIGNMENT].contains WordFlag.NOSPLIT) = false := by decide
  by_cases hr : reservedWordAcceptable { l0 with positions := [a, T.idx] } l0.lastReadToken = true
  · simp only [hr, hres' hr, Bool.not_false, Bool.and_self, if_true]
    refine Tot.bind (tot_createtoken rfl hak ?_)
    refine Tot.bind (Tot.get ?_)
    rw [isAssignment_gen hw]
    refine Tot.bind (Tot.pure ?_)
    cases hla : looksAssign w with
    | false =>
      simp only [Bool.false_eq_true, if_false, gen_head_brace hw, Bool.false_and, a7,
        List.contains_nil, List.contains]
      have : genTok a T.idx w acc = wordTok a T.idx w := by simp [genTok, hla]
      rw [this] at fin; exact fin
    | true =>
      simp only [if_true]
      split
      · rename_i hA
        have hacc1 : acc = true := hacc.symm.trans hA
        simp only [hps.ca, a7, Bool.false_eq_true, if_false, gen_head_brace hw, Bool.false_and, e0, e1,
          e2, if_true]
        have : genTok a T.idx w acc = awTok a T.idx w := by simp [genTok, hla, hacc1]
        rw [this] at fin; exact fin
      · rename_i hA
        have hacc1 : acc = false := by
          cases acc with
          | false => rfl
          | true => exact absurd hacc hA
        simp only [a7, Bool.false_eq_true, if_false, gen_head_brace hw, Bool.false_and, e0, e3]
        have : genTok a T.idx w acc = eqTok a T.idx w := by simp [genTok, hla, hacc1]
        rw [this] at fin; exact fin
  · simp only [hr, Bool.and_false, Bool.false_eq_true, if_false]
    refine Tot.bind (tot_createtoken rfl hak ?_)
    refine Tot.bind (Tot.get ?_)
    rw [isAssignment_gen hw]
    refine Tot.bind (Tot.pure ?_)
    cases hla : looksAssign w with
    | false =>
      simp only [Bool.false_eq_true, if_false, gen_head_brace hw, Bool.false_and, a7,
        List.contains_nil, List.contains]
      have : genTok a T.idx w acc = wordTok a T.idx w := by simp [genTok, hla]
      rw [this] at fin; exact fin
    | true =>
      simp only [if_true]
      split
      · rename_i hA
        have hacc1 : acc = true := hacc.symm.trans hA
        simp only [hps.ca, a7, Bool.false_eq_true, if_false, gen_head_brace hw, Bool.false_and, e0, e1,
          e2, if_true]
        have : genTok a T.idx w acc = awTok a T.idx w := by simp [genTok, hla, hacc1]
        rw [this] at fin; exact fin
      · rename_i hA
        have hacc1 : acc = false := by
          cases acc with
          | false => rfl
          | true => exact absurd hacc hA
        simp only [a7, Bool.false_eq_true, if_false, gen_head_brace hw, Bool.false_and, e0, e3]
        have : genTok a T.idx w acc = eqTok a T.idx w := by simp [genTok, hla, hacc1]
        rw [this] at fin; exact fin

/-- `_readtokenword(c)` on a word over the class `c :: w'` followed by an end character -/
theorem tot_readtokenwordG {l0 : Local} {L : Str} {adn : Bool} {b c : Char} {w' rest : Str} {a : Nat}
    {P : Token → Local → Tape → Prop}
    (hk : WOK l0) (hps : PSOK l0) {acc : Bool} (hacc : assignmentAcceptable l0 l0.lastReadToken = acc)
    (h1 : histOK l0.lastReadToken = true) (h2 : histOK l0.tokenBeforeThat = true)
    (hw : GenWord (c :: w')) (hb : endChar b = true)
    (hL : L.drop a = c :: (w' ++ b :: rest)) (hlen : w'.length + 2 ≤ 1073741824)
    (hres : reservedWordAcceptable l0 l0.lastReadToken = true →
      reservedFirstCommandChars.lookup (c :: w') = none)
    (h : P (genTok a (a + 1 + w'.length) (c :: w') acc) l0 ⟨L, a + 1 + w'.length, adn⟩) :
    Tot (readtokenword c) { l0 with positions := [a] } ⟨L, a + 1, adn⟩ P := by
  unfold readtokenword loopFuel
  refine Tot.bind (Tot.pure ?_)
  refine Tot.bind ?_
  show Tot (M.loop "_readtokenword" readtokenwordStep 1073741824 (rwSt (some c) (isDigit c) []))
    { l0 with positions := [a] } ⟨L, a + 1, adn⟩ _
  refine tot_wordLoopG (l := { l0 with positions := [a] }) hk.tape hk.eol hb w' [] c a _ _ hL
    (hw.2 c (List.mem_cons_self ..)) (fun x hx => hw.2 x (List.mem_cons_of_mem _ hx)) hlen ?_
  intro ad1
  simp only [List.nil_append]
  exact tot_finishWordG (T := ⟨L, a + 1 + w'.length, adn⟩) hk hps h1 h2 hw hb
    (by show a < a + 1 + w'.length; omega) hres hacc h

/-- `_readtoken` on blanks followed by a word over the class -/
theorem tot_readtoken_wordG {l0 : Local} {L : Str} {adn : Bool} {b c : Char} {g w' rest : Str} {i : Nat}
    {P : TokType ⊕ Token → Local → Tape → Prop}
    (hk : WOK l0) (hps : PSOK l0) {acc : Bool} (hacc : assignmentAcceptable l0 l0.lastReadToken = acc)
    (h1 : histOK l0.lastReadToken = true) (h2 : histOK l0.tokenBeforeThat = true)
    (hw : GenWord (c :: w')) (hb : endChar b = true) (hg : ∀ y ∈ g, shellblank y = true)
    (hL : L.drop i = g ++ c :: (w' ++ b :: rest)) (hlen : L.length + 2 ≤ 1073741824)
    (hres : reservedWordAcceptable l0 l0.lastReadToken = true →
      reservedFirstCommandChars.lookup (c :: w') = none)
    (h : P (.inr (genTok (i + g.length) (i + g.length + 1 + w'.length) (c :: w') acc)) l0
      ⟨L, i + g.length + 1 + w'.length, adn⟩) :
    Tot readtoken l0 ⟨L, i, adn⟩ P := by
  have hc : wordChar c = true := hw.2 c (List.mem_cons_self ..)
  obtain ⟨a1, a2, a3, a4, a5, a6, a7, a8, a9⟩ := histOK_is h1
  have hlenL : (L.drop i).length ≤ L.length := by rw [List.length_drop]; omega
  have hlen2 : g.length + (w'.length + 2) ≤ L.length := by
    rw [hL] at hlenL; simp at hlenL; omega
  rw [C10.readtoken_eq]
  refine Tot.bind (tot_readtokenHead hk.tape hk.eol (wc_blank hc)
    (wc_ne' (by decide) hc) (wc_ne' (by decide) hc) hL hg (by omega) ?_)
  simp only []
  unfold C10.readtokenTail
  refine Tot.bind (tot_recordpos hk.tape ?_)
  simp only [wc_ne (by decide : wordChar '\n' = false) hc, Bool.false_eq_true, if_false,
    hk.pos, List.nil_append, Nat.add_sub_cancel]
  refine Tot.bind (Tot.get ?_)
  simp only [hk.regexp, Bool.false_eq_true, if_false]
  refine Tot.bind (tot_shellmeta ?_)
  refine Tot.bind (Tot.get ?_)
  simp only [wc_syn hc, Bool.false_and, Bool.false_eq_true, if_false]
  refine Tot.bind (Tot.get ?_)
  simp only [a8, a9, Bool.or_self, Bool.and_false, Bool.false_eq_true, if_false]
  have hLa : L.drop (i + g.length) = c :: (w' ++ b :: rest) := by
    have := congrArg (List.drop g.length) hL
    simpa [List.drop_drop, Nat.add_comm] using this
  refine Tot.bind (tot_readtokenwordG hk hps hacc h1 h2 hw hb hLa (by omega) hres ?_)
  exact Tot.pure h

/-- **`tokenizer.token()` on blanks followed by a word over the class**: `WORD w` with the exact span; the
    cursor stands right after the word; the history is shifted -/
theorem tot_nextToken_gen {l : Local} {L : Str} {adn : Bool} {b : Char} {g w rest : Str} {i : Nat}
    {P : Token → Local → Tape → Prop}
    (hk : WOK l) (hps : PSOK l) {acc : Bool}
    (hacc : assignmentAcceptable (shiftH l) l.currentToken = acc)
    (h1 : histOK l.currentToken = true) (h2 : histOK l.lastReadToken = true)
    (hw : GenWord w) (hb : endChar b = true) (hg : ∀ y ∈ g, shellblank y = true)
    (hL : L.drop i = g ++ w ++ b :: rest) (hlen : L.length + 2 ≤ 1073741824)
    (hres : reservedWordAcceptable (shiftH l) l.currentToken = true →
      reservedFirstCommandChars.lookup w = none)
    (h : P (genTok (i + g.length) (i + g.length + w.length) w acc)
      (afterTok l (genTok (i + g.length) (i + g.length + w.length) w acc))
      ⟨L, i + g.length + w.length, adn⟩) :
    Tot nextToken l ⟨L, i, adn⟩ P := by
  obtain ⟨hne, hp⟩ := hw
  cases w with
  | nil => exact absurd rfl hne
  | cons c w' =>
    unfold nextToken
    refine Tot.bind (Tot.modify ?_)
    have hL' : L.drop i = g ++ c :: (w' ++ b :: rest) := by
      rw [hL]; simp
    have e : i + g.length + (c :: w').length = i + g.length + 1 + w'.length := by
      simp only [List.length_cons]; omega
    rw [e] at h
    refine Tot.bind (tot_readtoken_wordG (l0 := shiftH l) hk.shiftH ⟨hps.cp, hps.rl, hps.ca⟩ hacc h1 h2 ⟨hne, hp⟩ hb hg hL'
      hlen hres ?_)
    simp only []
    refine Tot.bind (Tot.pure ?_)
    refine Tot.bind (Tot.modify ?_)
    refine Tot.bind (Tot.modify ?_)
    exact Tot.pure h


end Bashlex.C02
