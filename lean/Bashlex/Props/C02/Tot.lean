/-
  C02 (round trip), part 1: a TOTAL-correctness calculus for the model monad over the pair
  (parser object, tape of the environment).

  `Tot m l T P`: in every environment whose tape is `T`, the run of `m` from the local state `l`
  returns NORMALLY, with a result, final state and final tape satisfying `P`.  The other
  components of the environment (options, the growing key set of `sh_syntaxtab`) are quantified
  away: the fragment of the model the round trip walks through never reads the options.
-/
import Bashlex.Proofs.HoareS
import Bashlex.Model.Parse

namespace Bashlex.C02
open Bashlex Bashlex.M
set_option linter.unusedSimpArgs false
set_option linter.unusedVariables false

def Tot {α : Type} (m : M α) (l : Local) (T : Tape) (P : α → Local → Tape → Prop) : Prop :=
  ∀ e : Env, e.tape = T → match m.run l e with
    | (.ok (a, l'), e') => P a l' e'.tape
    | (.error _, _) => False

variable {α β : Type} {l : Local} {T : Tape}

theorem Tot.pure {P : α → Local → Tape → Prop} {a : α} (h : P a l T) :
    Tot (Pure.pure a : M α) l T P := by
  intro e he; rw [run_pure]; show P a l e.tape; rw [he]; exact h

theorem Tot.bind {m : M α} {f : α → M β} {P : β → Local → Tape → Prop}
    (h : Tot m l T (fun a l' T' => Tot (f a) l' T' P)) : Tot (m >>= f) l T P := by
  intro e he
  rw [run_bind]
  have h1 := h e he
  rcases hr : m.run l e with ⟨r, e'⟩
  rw [hr] at h1
  cases r with
  | ok v => obtain ⟨a, l'⟩ := v; exact h1 e' rfl
  | error x => exact h1

theorem Tot.mono {m : M α} {P Q : α → Local → Tape → Prop} (h : Tot m l T P)
    (hpq : ∀ a l' T', P a l' T' → Q a l' T') : Tot m l T Q := by
  intro e he
  have h1 := h e he
  rcases hr : m.run l e with ⟨r, e'⟩
  rw [hr] at h1
  cases r with
  | ok v => exact hpq _ _ _ h1
  | error x => exact h1

/-- what `Tot` says about a run -/
theorem Tot.elim {m : M α} {P : α → Local → Tape → Prop} (h : Tot m l T P) (e : Env)
    (he : e.tape = T) : ∃ a l' e', m.run l e = (.ok (a, l'), e') ∧ P a l' e'.tape := by
  have h1 := h e he
  rcases hr : m.run l e with ⟨r, e'⟩
  rw [hr] at h1
  cases r with
  | ok v => exact ⟨v.1, v.2, e', rfl, h1⟩
  | error x => exact h1.elim

/-- an equation on runs that leaves the environment alone -/
theorem Tot.of_run {m : M α} {P : α → Local → Tape → Prop} {a : α} {l' : Local}
    (hr : ∀ e : Env, m.run l e = (.ok (a, l'), e)) (h : P a l' T) : Tot m l T P := by
  intro e he; rw [hr e]; show P a l' e.tape; rw [he]; exact h

theorem Tot.get {P : Local → Local → Tape → Prop} (h : P l l T) : Tot (get : M Local) l T P :=
  Tot.of_run (fun _ => rfl) h

theorem Tot.getThe {P : Local → Local → Tape → Prop} (h : P l l T) :
    Tot (getThe Local : M Local) l T P :=
  Tot.of_run (fun _ => rfl) h

theorem Tot.set {P : Unit → Local → Tape → Prop} {l0 : Local} (h : P () l0 T) :
    Tot (set l0 : M Unit) l T P :=
  Tot.of_run (fun _ => rfl) h

theorem Tot.modify {P : Unit → Local → Tape → Prop} {f : Local → Local} (h : P () (f l) T) :
    Tot (modify f : M Unit) l T P :=
  Tot.of_run (fun _ => rfl) h

theorem Tot.ask {q : Query} {P : Answer q → Local → Tape → Prop}
    (h : ∀ e : Env, e.tape = T → P (e.answer q).1 l (e.answer q).2.tape) : Tot (M.ask q) l T P := by
  intro e he; rw [run_ask]; exact h e he

theorem loop_succ {σ α : Type} (site : String) (body : σ → M (σ ⊕ α)) (fuel : Nat) (s : σ) :
    M.loop site body (fuel + 1) s =
      body s >>= fun r => match r with
        | .inl s' => M.loop site body fuel s'
        | .inr a => pure a := rfl

theorem Tot.loop_step {σ : Type} {site : String} {body : σ → M (σ ⊕ α)} {fuel : Nat} {s : σ}
    {P : α → Local → Tape → Prop}
    (h : Tot (body s) l T (fun r l' T' => match r with
        | .inl s' => Tot (M.loop site body fuel s') l' T' P
        | .inr a => P a l' T')) : Tot (M.loop site body (fuel + 1) s) l T P := by
  rw [loop_succ]
  refine Tot.bind (h.mono ?_)
  intro r l' T' hr
  cases r with
  | inl s' => exact hr
  | inr a => exact Tot.pure hr

/-! ## the tape -/

theorem tape_getc_plain {L : Str} {i : Nat} {ad rqn : Bool} {c : Char} (n : Nat)
    (hc : L[i]? = some c) (hb : c ≠ '\\') :
    Tape.getc ⟨L, i, ad⟩ rqn (n + 1) = .ok (some c, ⟨L, i + 1, ad⟩) := by
  have hi : i < L.length := by
    rcases Nat.lt_or_ge i L.length with h | h
    · exact h
    · rw [List.getElem?_eq_none h] at hc; cases hc
  have hb' : (c == '\\') = false := by simpa using hb
  simp only [Tape.getc, hi, if_true, hc, hb', Bool.false_and, Bool.false_eq_true, if_false]

theorem tape_getc_end {L : Str} {i : Nat} {ad rqn : Bool} (n : Nat) (hi : L.length ≤ i) :
    Tape.getc ⟨L, i, ad⟩ rqn (n + 1) = .ok (none, ⟨L, i, ad⟩) := by
  have : ¬ i < L.length := Nat.not_lt.mpr hi
  simp only [Tape.getc, this, if_false]

/-- `_getc` of a top-level parser with an empty look-ahead slot, on a character other than `\` -/
theorem tot_getc {L : Str} {i : Nat} {ad rqn : Bool} {c : Char}
    {P : Option Char → Local → Tape → Prop}
    (ht : l.tape = none) (hl : l.eolLookahead = none) (hc : L[i]? = some c) (hb : c ≠ '\\')
    (h : P (some c) l ⟨L, i + 1, ad⟩) : Tot (getc rqn) l ⟨L, i, ad⟩ P := by
  unfold getc
  refine Tot.bind (Tot.get ?_)
  simp only [hl, ht]
  refine Tot.bind (Tot.ask ?_)
  intro e he
  simp only [Env.answer, he, tape_getc_plain _ hc hb]
  exact Tot.pure h

/-- `_getc` at the end of the line -/
theorem tot_getc_end {L : Str} {i : Nat} {ad rqn : Bool}
    {P : Option Char → Local → Tape → Prop}
    (ht : l.tape = none) (hl : l.eolLookahead = none) (hi : L.length ≤ i)
    (h : P none l ⟨L, i, ad⟩) : Tot (getc rqn) l ⟨L, i, ad⟩ P := by
  unfold getc
  refine Tot.bind (Tot.get ?_)
  simp only [hl, ht]
  refine Tot.bind (Tot.ask ?_)
  intro e he
  simp only [Env.answer, he, tape_getc_end _ hi]
  exact Tot.pure h

/-- `_ungetc` right after a `_getc` that returned a character -/
theorem tot_ungetc {L : Str} {i : Nat} {ad : Bool} {x : Option Char}
    {P : Unit → Local → Tape → Prop}
    (ht : l.tape = none) (hi : i < L.length)
    (h : P () l ⟨L, i, ad⟩) : Tot (ungetc x) l ⟨L, i + 1, ad⟩ P := by
  unfold ungetc
  refine Tot.bind (Tot.get ?_)
  simp only [ht]
  refine Tot.bind (Tot.ask ?_)
  intro e he
  have hne : L.isEmpty = false := by
    cases L with
    | nil => cases hi
    | cons _ _ => rfl
  have hle : i + 1 ≤ L.length := hi
  simp only [Env.answer, he, Tape.ungetc, hne, Bool.not_false, Bool.true_and,
    Nat.add_one_ne_zero, bne_iff_ne, ne_eq, not_false_eq_true, decide_true, hle, if_true,
    Nat.add_sub_cancel, Bool.not_true, Bool.false_eq_true, if_false]
  exact Tot.pure h

theorem tot_curIdx {P : Nat → Local → Tape → Prop} (ht : l.tape = none) (h : P T.idx l T) :
    Tot curIdx l T P := by
  unfold curIdx
  refine Tot.bind (Tot.get ?_)
  simp only [ht]
  refine Tot.ask ?_
  intro e he
  simp only [Env.answer, he]; exact h

theorem tot_syn {c : Char} {P : SynClass → Local → Tape → Prop} (h : P (synClass c) l T) :
    Tot (syn c) l T P := by
  unfold syn
  refine Tot.ask ?_
  intro e he
  simp only [Env.answer]
  split <;> (simp only [he]; exact h)

theorem tot_shellbreak {c : Char} {P : Bool → Local → Tape → Prop} (h : P (synClass c).brk l T) :
    Tot (shellbreak c) l T P := by
  unfold shellbreak; exact Tot.bind (tot_syn (Tot.pure h))
theorem tot_shellquote {c : Char} {P : Bool → Local → Tape → Prop} (h : P (synClass c).quote l T) :
    Tot (shellquote c) l T P := by
  unfold shellquote; exact Tot.bind (tot_syn (Tot.pure h))
theorem tot_shellexp {c : Char} {P : Bool → Local → Tape → Prop} (h : P (synClass c).exp l T) :
    Tot (shellexp c) l T P := by
  unfold shellexp; exact Tot.bind (tot_syn (Tot.pure h))
theorem tot_shellmeta {c : Char} {P : Bool → Local → Tape → Prop} (h : P (synClass c).metac l T) :
    Tot (shellmeta c) l T P := by
  unfold shellmeta; exact Tot.bind (tot_syn (Tot.pure h))

theorem tot_recordpos {rel : Nat} {P : Unit → Local → Tape → Prop} (ht : l.tape = none)
    (h : P () { l with positions := l.positions ++ [T.idx - rel] } T) :
    Tot (recordpos rel) l T P := by
  unfold recordpos
  refine Tot.bind (tot_curIdx ht ?_)
  exact Tot.modify h

end Bashlex.C02

