/-
  C02 (round trip), part 5: the semantic actions on the path of a simple command, as
  total-correctness rules with exact results (generic in the nested parser, which is not called).
-/
import Bashlex.Props.C02.Tok
import Bashlex.Props.C06.Word

namespace Bashlex.C02
open Bashlex Bashlex.M
set_option linter.unusedSimpArgs false
set_option linter.unusedVariables false

/-! ## word expansion on a plain word -/

theorem noExp_plain : ∀ (w : Str), (∀ x ∈ w, plainChar x = true) → C06.noExp w = true
  | [], _ => rfl
  | c :: r, h => by
    have hc : plainChar c = true := h c (List.mem_cons_self ..)
    rw [C06.noExp_cons]
    refine ⟨?_, noExp_plain r (fun x hx => h x (List.mem_cons_of_mem _ hx))⟩
    simp only [C06.isExpChar, plain_ne (by decide : plainChar '$' = false) hc,
      plain_ne (by decide : plainChar '`' = false) hc, plain_ne (by decide : plainChar '<' = false) hc,
      plain_ne (by decide : plainChar '>' = false) hc, plain_ne (by decide : plainChar '~' = false) hc,
      Bool.or_self]

theorem stripGo_plainWord (q : Bool) : ∀ (w : Str), (∀ x ∈ w, plainChar x = true) →
    C06.stripGo q w = some w
  | [], _ => C06.stripGo_nil q
  | c :: r, h => by
    have hc : plainChar c = true := h c (List.mem_cons_self ..)
    rw [C06.stripGo_plain q c r (plain_ne' (by decide) hc) (plain_ne' (by decide) hc)
      (plain_ne' (by decide) hc), stripGo_plainWord q r (fun x hx => h x (List.mem_cons_of_mem _ hx))]
    rfl

theorem stripPure_plain (q : Bool) {w : Str} (hw : PlainWord w) : C06.stripPure w q = some w := by
  obtain ⟨hne, hp⟩ := hw
  unfold C06.stripPure
  have : C06.wholeSQ w = false := by
    cases w with
    | nil => exact absurd rfl hne
    | cons c r =>
      have hc : plainChar c = true := hp c (List.mem_cons_self ..)
      have := plain_ne' (by decide : plainChar '\'' = false) hc
      simp [C06.wholeSQ, this]
  rw [this]
  simp only [Bool.false_eq_true, if_false]
  exact stripGo_plainWord q w hp

/-- `parser._expandword` on the token of a plain word: the word node, no parts; the nested
    parser is not consulted, the state is untouched (for every expansion limit) -/
theorem tot_expandword_plain {np : NestedParse} {a k : Nat} {w : Str} {l : Local} {T : Tape}
    {P : Node → Local → Tape → Prop} (hw : PlainWord w) (h : P (.word (a, k) w []) l T) :
    Tot (expandword np (wordTok a k w)) l T P := by
  by_cases hl : l.limit = some (-1)
  · unfold expandword
    refine Tot.bind (Tot.get ?_)
    simp only [hl, beq_self_eq_true, if_true]
    exact Tot.pure h
  · refine Tot.of_run (fun e => C06.expandword_plain_run np (wordTok a k w) w (noExp_plain w hw.2)
      ⟨fun _ => ?_, fun hq => ?_⟩ (stripPure_plain _ hw) l e hl) h
    · rename_i hh
      have hv : (wordTok a k w).valueStr = w := rfl
      rw [hv] at hh
      obtain ⟨hne, hp⟩ := hw
      cases w with
      | nil => cases hh
      | cons c r =>
        have hc : plainChar c = true := hp c (List.mem_cons_self ..)
        simp only [List.head?_cons, Option.some.injEq] at hh
        exact absurd hh (plain_ne' (by decide) hc)
    · cases hq

/-! ## the actions -/

/-- `action` is `actionCore` when the accept flag comes out `false` -/
theorem tot_action_of_core {np : NestedParse} {f : String} {args : List SVal} {l : Local} {T : Tape}
    {P : SVal × Bool → Local → Tape → Prop}
    (h : Tot (actionCore np f args) l T (fun r l' T' => r.2 = false ∧ P r l' T')) :
    Tot (action np f args) l T P := by
  unfold action
  refine Tot.bind (h.mono ?_)
  intro r l' T' ⟨h1, h2⟩
  simp only [h1, Bool.false_and, Bool.false_eq_true, if_false]
  exact Tot.pure h2

theorem act_sce {np : NestedParse} {a k : Nat} {w : Str} {l : Local} {T : Tape}
    {P : SVal × Bool → Local → Tape → Prop} (hw : PlainWord w)
    (h : P (.nodes [.word (a, k) w []], false) l T) :
    Tot (action np "p_simple_command_element" [.tok (wordTok a k w)]) l T P := by
  refine tot_action_of_core ?_
  unfold actionCore; simp only []
  simp only [PCtx.slice, PCtx.tokAt, List.getD_cons_zero, Nat.sub_self]
  refine Tot.bind (Tot.pure ?_)
  refine Tot.bind (tot_expandword_plain hw ?_)
  have : (wordTok a k w).is TokType.ASSIGNMENT_WORD = false := rfl
  simp only [this, Bool.false_eq_true, if_false]
  exact Tot.pure ⟨rfl, h⟩

theorem act_sc1 {np : NestedParse} {ns : List Node} {l : Local} {T : Tape}
    {P : SVal × Bool → Local → Tape → Prop} (h : P (.nodes ns, false) l T) :
    Tot (action np "p_simple_command" [.nodes ns]) l T P := by
  refine tot_action_of_core ?_
  unfold actionCore; simp only []
  simp only [PCtx.len, PCtx.slice, List.length_cons, List.length_nil, List.getD_cons_zero,
    Nat.sub_self]
  exact Tot.pure ⟨rfl, h⟩

theorem act_sc2 {np : NestedParse} {ns ms : List Node} {l : Local} {T : Tape}
    {P : SVal × Bool → Local → Tape → Prop} (h : P (.nodes (ns ++ ms), false) l T) :
    Tot (action np "p_simple_command" [.nodes ns, .nodes ms]) l T P := by
  refine tot_action_of_core ?_
  unfold actionCore; simp only []
  simp [PCtx.len, PCtx.slice, PCtx.nodesAt]
  exact Tot.pure ⟨rfl, h⟩

theorem nodePos_word (p : Span) (s : Str) (ps : List Node) : nodePos (.word p s ps) = pure p := rfl

theorem act_command {np : NestedParse} {ns : List Node} {p1 p2 : Span} {s1 s2 : Str}
    {q1 q2 : List Node} {l : Local} {T : Tape} {P : SVal × Bool → Local → Tape → Prop}
    (hh : ns.head? = some (.word p1 s1 q1)) (hl : ns.getLast? = some (.word p2 s2 q2))
    (h : P (.node (.command (p1.1, p2.2) ns), false) l T) :
    Tot (action np "p_command" [.nodes ns]) l T P := by
  refine tot_action_of_core ?_
  unfold actionCore; simp only []
  simp only [PCtx.len, PCtx.slice, PCtx.nodesAt, List.length_cons, List.length_nil,
    List.getD_cons_zero, Nat.sub_self, partsspan, hh, hl, nodePos_word, pure_bind]
  exact Tot.pure ⟨rfl, h⟩

theorem act_pipeline1 {np : NestedParse} {n : Node} {l : Local} {T : Tape}
    {P : SVal × Bool → Local → Tape → Prop} (h : P (.nodes [n], false) l T) :
    Tot (action np "p_pipeline" [.node n]) l T P := by
  refine tot_action_of_core ?_
  unfold actionCore; simp only []
  simp [joinLists, PCtx.len, PCtx.slice, PCtx.nodeAt]
  exact Tot.pure ⟨rfl, h⟩

theorem act_pipeline_command1 {np : NestedParse} {n : Node} {l : Local} {T : Tape}
    {P : SVal × Bool → Local → Tape → Prop} (h : P (.node n, false) l T) :
    Tot (action np "p_pipeline_command" [.nodes [n]]) l T P := by
  refine tot_action_of_core ?_
  unfold actionCore; simp only []
  simp [PCtx.len, PCtx.slice, PCtx.nodesAt]
  exact Tot.pure ⟨rfl, h⟩

theorem act_simple_list1_1 {np : NestedParse} {n : Node} {l : Local} {T : Tape}
    {P : SVal × Bool → Local → Tape → Prop} (h : P (.nodes [n], false) l T) :
    Tot (action np "p_simple_list1" [.node n]) l T P := by
  refine tot_action_of_core ?_
  unfold actionCore; simp only []
  simp [joinLists, PCtx.len, PCtx.slice, PCtx.nodeAt]
  exact Tot.pure ⟨rfl, h⟩

theorem act_terminator {np : NestedParse} {args : List SVal} {l : Local} {T : Tape}
    {P : SVal × Bool → Local → Tape → Prop} (h : P (.none, false) l T) :
    Tot (action np "p_simple_list_terminator" args) l T P := by
  refine tot_action_of_core ?_
  unfold actionCore; simp only []
  exact Tot.pure ⟨rfl, h⟩

theorem tot_gather_nil {l : Local} {T : Tape} {P : Unit → Local → Tape → Prop}
    (hr : l.redirstack = []) (h : P () l T) : Tot gatherheredocuments l T P := by
  unfold gatherheredocuments
  refine Tot.bind (Tot.get ?_)
  show Tot (M.loop "gatherheredocuments" _ (l.redirstack.length + 1) ()) _ _ _
  refine Tot.loop_step ?_
  refine Tot.bind (Tot.get ?_)
  simp only [hr]
  exact Tot.pure h

theorem act_simple_list_1 {np : NestedParse} {n : Node} {l : Local} {T : Tape}
    {P : SVal × Bool → Local → Tape → Prop} (hr : l.redirstack = []) (hc : l.ps.cmdsubst = false)
    (h : P (.node n, false) l T) :
    Tot (action np "p_simple_list" [.nodes [n]]) l T P := by
  refine tot_action_of_core ?_
  unfold actionCore; simp only []
  refine Tot.bind (tot_gather_nil hr ?_)
  simp [PCtx.len, PCtx.slice, PCtx.nodesAt]
  rw [map_eq_pure_bind]
  refine Tot.bind (Tot.get ?_)
  simp only [hc, Bool.false_and, Bool.and_false]
  exact Tot.pure ⟨rfl, h⟩

theorem act_inputunit {np : NestedParse} {n : Node} {x : SVal} {l : Local} {T : Tape}
    {P : SVal × Bool → Local → Tape → Prop} (hc : l.ps.cmdsubst = false)
    (h : P (.node n, true) l T) :
    Tot (action np "p_inputunit" [.node n, x]) l T P := by
  unfold action
  refine Tot.bind ?_
  unfold actionCore; simp only []
  refine Tot.bind (Tot.get ?_)
  simp only [hc, Bool.false_eq_true, if_false]
  simp only [PCtx.slice, List.getD_cons_zero, Nat.sub_self]
  refine Tot.pure ?_
  have : acceptingActions.contains "p_inputunit" = true := by decide
  simp only [this, Bool.not_true, Bool.and_false, Bool.false_eq_true, if_false]
  exact Tot.pure h

/-! ## actions for sequences -/

theorem nodePos_command (p : Span) (ps : List Node) : nodePos (.command p ps) = pure p := rfl

theorem act_simple_list1_3 {np : NestedParse} {xs ys : List Node} {t : Token} {l : Local} {T : Tape}
    {P : SVal × Bool → Local → Tape → Prop}
    (h : P (.nodes (xs ++ [Node.operator (t.lexpos, t.endlexpos) t.valueStr] ++ ys), false) l T) :
    Tot (action np "p_simple_list1" [.nodes xs, .tok t, .nodes ys]) l T P := by
  refine tot_action_of_core ?_
  unfold actionCore; simp only []
  simp [joinLists, PCtx.len, PCtx.slice, PCtx.nodesAt, PCtx.strAt, PCtx.tokAt, PCtx.lexspan,
    SVal.lexspan]
  exact Tot.pure ⟨rfl, by simpa using h⟩

theorem act_simple_list_many {np : NestedParse} {ns : List Node} {pF pL : Span}
    {nF nL : List Node} {l : Local} {T : Tape}
    {P : SVal × Bool → Local → Tape → Prop} (hr : l.redirstack = []) (hc : l.ps.cmdsubst = false)
    (hlen : 1 < ns.length) (hh : ns.head? = some (.command pF nF))
    (hl : ns.getLast? = some (.command pL nL))
    (h : P (.node (.list (pF.1, pL.2) ns), false) l T) :
    Tot (action np "p_simple_list" [.nodes ns]) l T P := by
  refine tot_action_of_core ?_
  unfold actionCore; simp only []
  refine Tot.bind (tot_gather_nil hr ?_)
  simp [PCtx.len, PCtx.slice, PCtx.nodesAt, hlen, partsspan, hh, hl, nodePos_command]
  rw [map_eq_pure_bind]
  refine Tot.bind (Tot.get ?_)
  simp only [hc, Bool.false_and, Bool.and_false]
  exact Tot.pure ⟨rfl, h⟩

/-! ## actions for pipelines -/

theorem act_empty {np : NestedParse} {args : List SVal} {l : Local} {T : Tape}
    {P : SVal × Bool → Local → Tape → Prop} (h : P (.none, false) l T) :
    Tot (action np "p_empty" args) l T P := by
  refine tot_action_of_core ?_
  unfold actionCore; simp only []
  exact Tot.pure ⟨rfl, h⟩

theorem act_newline_list {np : NestedParse} {args : List SVal} {l : Local} {T : Tape}
    {P : SVal × Bool → Local → Tape → Prop} (h : P (.none, false) l T) :
    Tot (action np "p_newline_list" args) l T P := by
  refine tot_action_of_core ?_
  unfold actionCore; simp only []
  exact Tot.pure ⟨rfl, h⟩

theorem act_pipeline4 {np : NestedParse} {xs ys : List Node} {t : Token} {x3 : SVal} {l : Local}
    {T : Tape} {P : SVal × Bool → Local → Tape → Prop}
    (h : P (.nodes (xs ++ [Node.pipe (t.lexpos, t.endlexpos) t.valueStr] ++ ys), false) l T) :
    Tot (action np "p_pipeline" [.nodes xs, .tok t, x3, .nodes ys]) l T P := by
  refine tot_action_of_core ?_
  unfold actionCore; simp only []
  simp [joinLists, PCtx.len, PCtx.slice, PCtx.nodesAt, PCtx.strAt, PCtx.tokAt, PCtx.lexspan,
    SVal.lexspan]
  exact Tot.pure ⟨rfl, by simpa using h⟩

theorem act_pipeline_command_many {np : NestedParse} {x y : Node} {rs : List Node} {pF pL : Span}
    {nF nL : List Node} {l : Local} {T : Tape}
    {P : SVal × Bool → Local → Tape → Prop}
    (hh : (x :: y :: rs).head? = some (.command pF nF))
    (hl : (x :: y :: rs).getLast? = some (.command pL nL))
    (h : P (.node (.pipeline (pF.1, pL.2) (x :: y :: rs)), false) l T) :
    Tot (action np "p_pipeline_command" [.nodes (x :: y :: rs)]) l T P := by
  refine tot_action_of_core ?_
  unfold actionCore; simp only []
  simp only [PCtx.len, PCtx.slice, PCtx.nodesAt, List.length_cons, List.length_nil,
    List.getD_cons_zero, Nat.sub_self, if_true, pure_bind, hh, hl, nodePos_command]
  exact Tot.pure ⟨rfl, h⟩

theorem act_simple_list1_4 {np : NestedParse} {xs ys : List Node} {t : Token} {x3 : SVal} {l : Local}
    {T : Tape} {P : SVal × Bool → Local → Tape → Prop}
    (h : P (.nodes (xs ++ [Node.operator (t.lexpos, t.endlexpos) t.valueStr] ++ ys), false) l T) :
    Tot (action np "p_simple_list1" [.nodes xs, .tok t, x3, .nodes ys]) l T P := by
  refine tot_action_of_core ?_
  unfold actionCore; simp only []
  simp [joinLists, PCtx.len, PCtx.slice, PCtx.nodesAt, PCtx.strAt, PCtx.tokAt, PCtx.lexspan,
    SVal.lexspan]
  exact Tot.pure ⟨rfl, by simpa using h⟩

/-! ## general forms (assignments, …) -/

theorem nodePos_assignment (p : Span) (s : Str) (ps : List Node) :
    nodePos (.assignment p s ps) = pure p := rfl

/-- `p_command` on a list of positioned nodes -/
theorem act_commandG {np : NestedParse} {ns : List Node} {nh nl : Node} {ph pl : Span}
    {l : Local} {T : Tape} {P : SVal × Bool → Local → Tape → Prop}
    (hh : ns.head? = some nh) (hl : ns.getLast? = some nl) (hph : nodePos nh = pure ph)
    (hpl : nodePos nl = pure pl)
    (h : P (.node (.command (ph.1, pl.2) ns), false) l T) :
    Tot (action np "p_command" [.nodes ns]) l T P := by
  refine tot_action_of_core ?_
  unfold actionCore; simp only []
  simp only [PCtx.len, PCtx.slice, PCtx.nodesAt, List.length_cons, List.length_nil,
    List.getD_cons_zero, Nat.sub_self, partsspan, hh, hl, hph, hpl, pure_bind]
  exact Tot.pure ⟨rfl, h⟩

/-! ## redirections -/

theorem act_sce_node {np : NestedParse} {n : Node} {l : Local} {T : Tape}
    {P : SVal × Bool → Local → Tape → Prop} (h : P (.nodes [n], false) l T) :
    Tot (action np "p_simple_command_element" [.node n]) l T P := by
  refine tot_action_of_core ?_
  unfold actionCore; simp only []
  simp only [PCtx.slice, List.getD_cons_zero, Nat.sub_self]
  exact Tot.pure ⟨rfl, h⟩

theorem act_redir {np : NestedParse} {t wt : Token} {wn : Node} {l : Local} {T : Tape}
    {P : SVal × Bool → Local → Tape → Prop}
    (hwt : wt.is .WORD = true)
    (hexp : ∀ Q : Node → Local → Tape → Prop, Q wn l T → Tot (expandword np wt) l T Q)
    (h : P (.node (.redirect (t.lexpos, wt.endlexpos) .none t.valueStr (some wn) .none none none),
      false) l T) :
    Tot (action np "p_redirection" [.tok t, .tok wt]) l T P := by
  refine tot_action_of_core ?_
  unfold actionCore; simp only []
  simp only [PCtx.len, PCtx.slice, PCtx.tokAt, List.length_cons, List.length_nil,
    List.getD_cons_zero, List.getD_cons_succ, Nat.sub_self, Nat.add_one_sub_one, pure_bind, hwt, if_true]
  refine Tot.bind (hexp _ ?_)
  simp only [show ((0 + 1 + 1 + 1 : Nat) == 3) = true from rfl, if_true, PCtx.strAt, PCtx.tokAt,
    PCtx.slice, PCtx.lexspan, SVal.lexspan, List.getD_cons_zero, List.getD_cons_succ, Nat.sub_self,
    Nat.add_one_sub_one, pure_bind]
  exact Tot.pure ⟨rfl, h⟩

/-- `p_redirection` on the four-symbol productions `NUMBER op WORD` -/
theorem act_redirN {np : NestedParse} {nt t wt : Token} {wn : Node} {k : Nat} {l : Local} {T : Tape}
    {P : SVal × Bool → Local → Tape → Prop}
    (hwt : wt.is .WORD = true) (hnv : nt.value = .int k)
    (hexp : ∀ Q : Node → Local → Tape → Prop, Q wn l T → Tot (expandword np wt) l T Q)
    (h : P (.node (.redirect (nt.lexpos, wt.endlexpos) (.num k) t.valueStr (some wn) .none none none),
      false) l T) :
    Tot (action np "p_redirection" [.tok nt, .tok t, .tok wt]) l T P := by
  refine tot_action_of_core ?_
  unfold actionCore; simp only []
  simp only [PCtx.len, PCtx.slice, PCtx.tokAt, List.length_cons, List.length_nil,
    List.getD_cons_zero, List.getD_cons_succ, Nat.sub_self, Nat.add_one_sub_one, pure_bind, hwt, if_true]
  refine Tot.bind (hexp _ ?_)
  simp only [show ((0 + 1 + 1 + 1 + 1 : Nat) == 3) = false from rfl, Bool.false_eq_true, if_false,
    PCtx.strAt, PCtx.tokAt,
    PCtx.slice, PCtx.lexspan, SVal.lexspan, List.getD_cons_zero, List.getD_cons_succ, Nat.sub_self,
    Nat.add_one_sub_one, pure_bind, hnv]
  exact Tot.pure ⟨rfl, h⟩

end Bashlex.C02
