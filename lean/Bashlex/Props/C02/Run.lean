/-
  C02 (round trip), part 6: the run of the LR engine over the REAL tables, with the REAL tokenizer
  and the REAL actions, on a line of plain words.
-/
import Bashlex.Props.C02.Engine
import Bashlex.Props.C02.Actions

namespace Bashlex.C02
open Bashlex Bashlex.M Bashlex.LR
set_option linter.unusedSimpArgs false
set_option linter.unusedVariables false

/-! ## the step rules, specialised to the real tables and hooks -/

section
variable {np : NestedParse} {l : Local} {Tp : Tape} {P : Cfg SVal ⊕ Res SVal → Local → Tape → Prop}

theorem R_reduce {s : Nat} {tr : Tree} {v : SVal} {rest : Stack SVal} {la : Nat × SVal}
    {p lhs : Nat} {rhs : List Nat} {es : List (Entry SVal)} {rest' : Stack SVal} {t : Nat}
    {f : String} {nl : Nat} {cons : List Nat}
    (hd : Tab.T.dflt s = none) (hs : (s == 0) = false)
    (ha : Tab.T.action s la.1 = some (.reduce p))
    (hp : Tab.T.prods[p]? = some (lhs, rhs))
    (hpop : popN rhs.length (⟨s, tr, v⟩ :: rest) = some (es, rest'))
    (hg : Tab.T.goto (topState rest') lhs = some t) (hf : Gen.prodFuncs.getD p "" = f)
    (h : Tot (action np f (es.map (·.val))) l Tp (fun r l' T' =>
      if r.2 = true then
        P (.inr (.accepted r.1 (Tree.node p lhs (es.map (·.tree))) cons false)) l' T'
      else P (.inl { stack := ⟨t, Tree.node p lhs (es.map (·.tree)), r.1⟩ :: rest', la := some la,
                     nlShifted := nl, consumed := cons }) l' T')) :
    Tot (step Tab.T (lrHooks np)
      { stack := ⟨s, tr, v⟩ :: rest, la := some la, nlShifted := nl, consumed := cons }) l Tp P := by
  rw [step_reduce (c := { stack := ⟨s, tr, v⟩ :: rest, la := some la, nlShifted := nl, consumed := cons })
    (la := la) hd rfl hs ha]
  refine tot_doReduce hp hpop hg ?_
  show Tot (action np (Gen.prodFuncs.getD p "") _) _ _ _
  rw [hf]
  exact h

theorem R_dflt {s : Nat} {tr : Tree} {v : SVal} {rest : Stack SVal} {la : Option (Nat × SVal)}
    {p lhs : Nat} {rhs : List Nat} {es : List (Entry SVal)} {rest' : Stack SVal} {t : Nat}
    {f : String} {nl : Nat} {cons : List Nat}
    (hd : Tab.T.dflt s = some p)
    (hp : Tab.T.prods[p]? = some (lhs, rhs))
    (hpop : popN rhs.length (⟨s, tr, v⟩ :: rest) = some (es, rest'))
    (hg : Tab.T.goto (topState rest') lhs = some t) (hf : Gen.prodFuncs.getD p "" = f)
    (h : Tot (action np f (es.map (·.val))) l Tp (fun r l' T' =>
      if r.2 = true then
        P (.inr (.accepted r.1 (Tree.node p lhs (es.map (·.tree))) cons false)) l' T'
      else P (.inl { stack := ⟨t, Tree.node p lhs (es.map (·.tree)), r.1⟩ :: rest', la := la,
                     nlShifted := nl, consumed := cons }) l' T')) :
    Tot (step Tab.T (lrHooks np)
      { stack := ⟨s, tr, v⟩ :: rest, la := la, nlShifted := nl, consumed := cons }) l Tp P := by
  rw [step_dflt (c := { stack := ⟨s, tr, v⟩ :: rest, la := la, nlShifted := nl, consumed := cons })
    (p := p) hd]
  refine tot_doReduce hp hpop hg ?_
  show Tot (action np (Gen.prodFuncs.getD p "") _) _ _ _
  rw [hf]
  exact h

theorem R_shift {s : Nat} {tr : Tree} {v : SVal} {rest : Stack SVal} {la : Nat × SVal}
    {t : Nat} {nl : Nat} {cons : List Nat}
    (hd : Tab.T.dflt s = none) (hs : (s == 0) = false)
    (ha : Tab.T.action s la.1 = some (.shift t))
    (h : P (.inl { stack := ⟨t, .leaf la.1, la.2⟩ :: ⟨s, tr, v⟩ :: rest, la := none,
                   nlShifted := nl, consumed := cons ++ [la.1] }) l Tp) :
    Tot (step Tab.T (lrHooks np)
      { stack := ⟨s, tr, v⟩ :: rest, la := some la, nlShifted := nl, consumed := cons }) l Tp P := by
  rw [step_shift (c := { stack := ⟨s, tr, v⟩ :: rest, la := some la, nlShifted := nl, consumed := cons })
    (la := la) hd rfl hs ha]
  exact Tot.pure h

theorem R_fetch' {st : Stack SVal} {nl : Nat} {cons : List Nat}
    (hd : Tab.T.dflt (topState st) = none)
    (h : Tot nextToken l Tp (fun t l' T' => Tot (step Tab.T (lrHooks np)
      { stack := st, la := some (symOfTok t, .tok t), nlShifted := nl, consumed := cons }) l' T' P)) :
    Tot (step Tab.T (lrHooks np)
      { stack := st, la := none, nlShifted := nl, consumed := cons }) l Tp P := by
  rw [step_fetch (c := { stack := st, la := none, nlShifted := nl, consumed := cons }) hd rfl]
  show Tot ((do let t ← nextToken; pure (symOfTok t, SVal.tok t)) >>= _) _ _ _
  rw [bind_assoc]
  refine Tot.bind (h.mono ?_)
  intro t l' T' ht
  rw [pure_bind]
  exact ht

theorem R_fetch {s : Nat} {tr : Tree} {v : SVal} {rest : Stack SVal} {nl : Nat} {cons : List Nat}
    (hd : Tab.T.dflt s = none)
    (h : Tot nextToken l Tp (fun t l' T' => Tot (step Tab.T (lrHooks np)
      { stack := ⟨s, tr, v⟩ :: rest, la := some (symOfTok t, .tok t), nlShifted := nl,
        consumed := cons }) l' T' P)) :
    Tot (step Tab.T (lrHooks np)
      { stack := ⟨s, tr, v⟩ :: rest, la := none, nlShifted := nl, consumed := cons }) l Tp P :=
  R_fetch' (st := ⟨s, tr, v⟩ :: rest) hd h

theorem R_fetch0 {nl : Nat} {cons : List Nat}
    (h : Tot nextToken l Tp (fun t l' T' => Tot (step Tab.T (lrHooks np)
      { stack := [], la := some (symOfTok t, .tok t), nlShifted := nl, consumed := cons }) l' T' P)) :
    Tot (step Tab.T (lrHooks np)
      { stack := [], la := none, nlShifted := nl, consumed := cons }) l Tp P :=
  R_fetch' (st := []) Tab.d0 h

/-- state 0, a WORD in hand: shift -/
theorem R_shift0 {v : SVal} {nl : Nat} {cons : List Nat}
    (h : P (.inl { stack := [⟨29, .leaf 24, v⟩], la := none, nlShifted := nl,
                   consumed := cons ++ [24] }) l Tp) :
    Tot (step Tab.T (lrHooks np)
      { stack := [], la := some (24, v), nlShifted := nl, consumed := cons }) l Tp P := by
  rw [step_shift0 (c := { stack := [], la := some (24, v), nlShifted := nl, consumed := cons })
    (la := (24, v)) rfl Tab.d0 rfl (show ((24 : Nat) == Tab.T.endTok) = false by decide)
    (show ((24 : Nat) == Tab.T.nlTok) = false by decide) Tab.a0w]
  exact Tot.pure h

end

/-- the engine accepted with the node `N` as value -/
def ResIs (N : Node) (r : Res SVal) : Prop :=
  match r with
  | .accepted (.node n) _ _ _ => n = N
  | _ => False

abbrev engineLoop (np : NestedParse) (fuel : Nat) (c : Cfg SVal) : M (Res SVal) :=
  M.loop "LRParser.parse" (step Tab.T (lrHooks np)) fuel c

/-- **the end of the line**: a simple command on the stack, NEWLINE in hand — eight steps to
    acceptance by `p_inputunit`, the value is the command node -/
theorem run_final {np : NestedParse} {l : Local} {Tp : Tape} {P : Res SVal → Local → Tape → Prop}
    {ns : List Node} {p1 p2 : Span} {s1 s2 : Str} {q1 q2 : List Node} {tr : Tree} {nlt : Token}
    {nl : Nat} {cons : List Nat} {fuel : Nat}
    (hr : l.redirstack = []) (hc : l.ps.cmdsubst = false)
    (hh : ns.head? = some (.word p1 s1 q1)) (hl : ns.getLast? = some (.word p2 s2 q2))
    (hf : 8 ≤ fuel)
    (h : ∀ r, ResIs (.command (p1.1, p2.2) ns) r → P r l Tp) :
    Tot (engineLoop np fuel
      { stack := [⟨13, tr, .nodes ns⟩], la := some (55, .tok nlt), nlShifted := nl, consumed := cons })
      l Tp P := by
  obtain ⟨f, rfl⟩ : ∃ f, fuel = f + 8 := ⟨fuel - 8, by omega⟩
  refine Tot.loop_step ?_
  refine R_reduce Tab.d13 rfl Tab.a13n Tab.p58 rfl Tab.g0_66 Tab.f58 ?_
  refine act_command hh hl ?_
  simp only [Bool.false_eq_true, if_false]
  refine Tot.loop_step ?_
  refine R_reduce Tab.d11 rfl Tab.a11n Tab.p163 rfl Tab.g0_95 Tab.f163 ?_
  refine act_pipeline1 ?_
  simp only [Bool.false_eq_true, if_false]
  refine Tot.loop_step ?_
  refine R_reduce Tab.d8 rfl Tab.a8n Tab.p156 rfl Tab.g0_94 Tab.f156 ?_
  refine act_pipeline_command1 ?_
  simp only [Bool.false_eq_true, if_false]
  refine Tot.loop_step ?_
  refine R_reduce Tab.d7 rfl Tab.a7n Tab.p155 rfl Tab.g0_93 Tab.f155 ?_
  refine act_simple_list1_1 ?_
  simp only [Bool.false_eq_true, if_false]
  refine Tot.loop_step ?_
  refine R_reduce Tab.d6 rfl Tab.a6n Tab.p148 rfl Tab.g0_92 Tab.f148 ?_
  refine act_simple_list_1 hr hc ?_
  simp only [Bool.false_eq_true, if_false]
  refine Tot.loop_step ?_
  refine R_shift Tab.d2 rfl Tab.a2n ?_
  refine Tot.loop_step ?_
  refine R_dflt Tab.d57 Tab.p141 rfl Tab.g2_89 Tab.f141 ?_
  refine act_terminator ?_
  simp only [Bool.false_eq_true, if_false]
  refine Tot.loop_step ?_
  refine R_dflt Tab.d56 Tab.p1 rfl Tab.g0_60 Tab.f1 ?_
  refine act_inputunit hc ?_
  simp only [if_true]
  exact h _ rfl

/-! ## the line: items = (gap, word) pairs -/

def spellI : List (Str × Str) → Str
  | [] => []
  | (g, w) :: r => g ++ w ++ spellI r

/-- the word nodes of the items spelled from offset `off` -/
def nodesI (off : Nat) : List (Str × Str) → List Node
  | [] => []
  | (g, w) :: r =>
    .word (off + g.length, off + g.length + w.length) w [] :: nodesI (off + g.length + w.length) r

/-- where the last word ends -/
def endI (off : Nat) : List (Str × Str) → Nat
  | [] => off
  | (g, w) :: r => endI (off + g.length + w.length) r

def Blank (g : Str) : Prop := ∀ y ∈ g, shellblank y = true

instance (g : Str) : Decidable (Blank g) := by unfold Blank; exact inferInstance

/-- every gap is a non-empty run of blanks/tabs, every word is plain -/
def ItemsOK (items : List (Str × Str)) : Prop :=
  ∀ it ∈ items, (it.1 ≠ [] ∧ Blank it.1) ∧ PlainWord it.2

instance (items : List (Str × Str)) : Decidable (ItemsOK items) := by
  unfold ItemsOK; exact inferInstance

theorem WOK.afterTok {l : Local} (h : WOK l) (t : Token) : WOK (afterTok l t) :=
  ⟨h.tape, h.eol, h.pos, h.regexp, h.esacs, h.brc, h.redir⟩

theorem WOK.afterNL {l : Local} (h : WOK l) (t : Token) : WOK (afterNL l t) :=
  ⟨h.tape, h.eol, h.pos, h.regexp, h.esacs, h.brc, h.redir⟩

theorem symOfTok_nl (a : Nat) : symOfTok (nlTok a) = 55 := Tab.symNL
theorem symOfTok_word (a k : Nat) (w : Str) : symOfTok (wordTok a k w) = 24 := Tab.symWORD

theorem blank_endChar {y : Char} (h : shellblank y = true) : endChar y = true := by
  simp only [shellblank, Bool.or_eq_true, beq_iff_eq] at h
  rcases h with rfl | rfl <;> decide

/-- after a plain word, in a plain history, no reserved word is acceptable -/
theorem racc_word {l : Local} {a k : Nat} {w : Str} (hw : PlainWord w)
    (hh : histOK l.tokenBeforeThat = true) : reservedWordAcceptable l (wordTok a k w) = false := by
  obtain ⟨_, _, _, _, _, _, b7, _, _⟩ := histOK_is hh
  obtain ⟨hne, hp⟩ := hw
  match w, hp with
  | [], _ => simp [reservedWordAcceptable, wordTok, Token.truthy, b7, reservedTypes]
  | [ch], hp =>
    have hc : plainChar ch = true := hp ch (List.mem_cons_self ..)
    have hrc : reservedChars.contains ch = false := by
      simp only [reservedChars, List.contains_cons, List.contains_nil, Bool.or_false,
        plain_ne (by decide : plainChar '\n' = false) hc, plain_ne (by decide : plainChar ';' = false) hc,
        plain_ne (by decide : plainChar '(' = false) hc, plain_ne (by decide : plainChar ')' = false) hc,
        plain_ne (by decide : plainChar '|' = false) hc, plain_ne (by decide : plainChar '&' = false) hc,
        plain_ne (by decide : plainChar '{' = false) hc, plain_ne (by decide : plainChar '}' = false) hc,
        Bool.or_self]
    have hrc' : ¬ ch ∈ reservedChars := by
      intro hm
      have := List.contains_iff_mem.mpr hm
      rw [hrc] at this; cases this
    simp [reservedWordAcceptable, wordTok, Token.truthy, b7, reservedTypes, hrc']
  | _ :: _ :: _, _ => simp [reservedWordAcceptable, wordTok, Token.truthy, b7, reservedTypes]

/-- the text after a word starts with a character that ends the word -/
theorem after_word (rest : List (Str × Str)) (tail : Str) (hi : ItemsOK rest) (ht : Blank tail) :
    ∃ b r, spellI rest ++ tail ++ ['\n'] = b :: r ∧ endChar b = true := by
  cases rest with
  | nil =>
    cases tail with
    | nil => exact ⟨'\n', [], rfl, by decide⟩
    | cons y t => exact ⟨y, t ++ ['\n'], rfl, blank_endChar (ht y (List.mem_cons_self ..))⟩
  | cons it r =>
    obtain ⟨g, w⟩ := it
    have := (hi (g, w) (List.mem_cons_self ..)).1
    cases g with
    | nil => exact absurd rfl this.1
    | cons y g' =>
      exact ⟨y, g' ++ w ++ spellI r ++ tail ++ ['\n'], by simp [spellI],
        blank_endChar (this.2 y (List.mem_cons_self ..))⟩

/-- parser-object invariant between the tokens of a plain line -/
structure POK (l : Local) : Prop where
  wok : WOK l
  cs : l.ps.cmdsubst = false
  hist : histOK l.lastReadToken = true
  dp : l.ps.dblparen = false
  ps : PSOK l

theorem head_append_ne {α : Type} {xs ys : List α} {x : α} (h : xs.head? = some x) :
    (xs ++ ys).head? = some x := by
  cases xs with
  | nil => cases h
  | cons a t => exact h

/-- **the words after the first**: with `WORD w` in hand in state 13, the engine shifts it, fetches
    the next token from the real tokenizer, reduces twice, and goes on -/
theorem run_words {np : NestedParse} {L : Str} {adn : Bool} {tail : Str}
    {P : Res SVal → Local → Tape → Prop} (htail : Blank tail) (hlen : L.length + 2 ≤ 1073741824)
    {p1 : Span} {s1 : Str} {q1 : List Node} :
    ∀ (items : List (Str × Str)) (ns : List Node) (a i : Nat) (w : Str) (l : Local) (fuel nl : Nat)
      (cons : List Nat) (tr : Tree),
      ItemsOK items → PlainWord w → POK l → l.currentToken = wordTok a i w →
      L.drop i = spellI items ++ tail ++ ['\n'] →
      3 * items.length + 11 ≤ fuel →
      (ns ++ [Node.word (a, i) w []]).head? = some (Node.word p1 s1 q1) →
      (∀ r l' T', ResIs (Node.command (p1.1, endI i items) (ns ++ Node.word (a, i) w [] :: nodesI i items)) r →
        P r l' T') →
      Tot (engineLoop np fuel { stack := [⟨13, tr, .nodes ns⟩], la := some (24, .tok (wordTok a i w)),
                                nlShifted := nl, consumed := cons }) l ⟨L, i, adn⟩ P := by
  intro items
  induction items with
  | nil =>
    intro ns a i w l fuel nl cons tr hi hw hl hcur hL hf hh h
    obtain ⟨f, rfl⟩ : ∃ f, fuel = f + 3 := ⟨fuel - 3, by simp at hf; omega⟩
    refine Tot.loop_step ?_
    refine R_shift Tab.d13 rfl Tab.a13w ?_
    refine Tot.loop_step ?_
    refine R_fetch Tab.d75 ?_
    have hL' : L.drop i = tail ++ '\n' :: [] := by simpa [spellI] using hL
    refine tot_nextToken_nl hl.wok htail hL' hlen ?_
    rw [symOfTok_nl]
    refine R_reduce Tab.d75 rfl Tab.a75n Tab.p51 rfl Tab.g13_63 Tab.f51 ?_
    refine act_sce hw ?_
    simp only [Bool.false_eq_true, if_false]
    refine Tot.loop_step ?_
    refine R_reduce Tab.d74 rfl Tab.a74n Tab.p57 rfl Tab.g0_65 Tab.f57 ?_
    refine act_sc2 ?_
    simp only [Bool.false_eq_true, if_false]
    refine run_final (p2 := (a, i)) (s2 := w) (q2 := []) (hl.wok.afterNL _).redir hl.cs hh (by simp)
      (by simp at hf; omega) ?_
    intro r hr
    refine h r _ _ ?_
    simpa [nodesI, endI] using hr
  | cons it rest ih =>
    intro ns a i w l fuel nl cons tr hi hw hl hcur hL hf hh h
    obtain ⟨g, w'⟩ := it
    obtain ⟨f, rfl⟩ : ∃ f, fuel = f + 3 := ⟨fuel - 3, by simp at hf; omega⟩
    have hit := hi (g, w') (List.mem_cons_self ..)
    have hrest : ItemsOK rest := fun x hx => hi x (List.mem_cons_of_mem _ hx)
    obtain ⟨b, r', hbr, hb⟩ := after_word rest tail hrest htail
    refine Tot.loop_step ?_
    refine R_shift Tab.d13 rfl Tab.a13w ?_
    refine Tot.loop_step ?_
    refine R_fetch Tab.d75 ?_
    have hL' : L.drop i = g ++ w' ++ b :: r' := by
      rw [hL, ← hbr]; simp [spellI]
    have hcurh : histOK l.currentToken = true := by rw [hcur]; rfl
    refine tot_nextToken_word hl.wok hcurh hl.hist hit.2 hb hit.1.2 hL' hlen ?_ ?_
    · intro hacc
      rw [hcur, racc_word hw (by exact hl.hist)] at hacc
      cases hacc
    rw [symOfTok_word]
    refine R_reduce Tab.d75 rfl Tab.a75w Tab.p51 rfl Tab.g13_63 Tab.f51 ?_
    refine act_sce hw ?_
    simp only [Bool.false_eq_true, if_false]
    refine Tot.loop_step ?_
    refine R_reduce Tab.d74 rfl Tab.a74w Tab.p57 rfl Tab.g0_65 Tab.f57 ?_
    refine act_sc2 ?_
    simp only [Bool.false_eq_true, if_false]
    have hLn : L.drop (i + g.length + w'.length) = spellI rest ++ tail ++ ['\n'] := by
      have := congrArg (List.drop (g.length + w'.length)) hL
      rw [List.drop_drop] at this
      rw [Nat.add_assoc, this]
      simp [spellI]
    refine ih (ns ++ [Node.word (a, i) w []]) (i + g.length) (i + g.length + w'.length) w'
      (afterTok l _) f nl _ _ hrest hit.2
      ⟨hl.wok.afterTok _, hl.cs, by show histOK l.currentToken = true; exact hcurh, hl.dp, ⟨hl.ps.cp, hl.ps.rl, hl.ps.ca⟩⟩ rfl hLn
      (by simp at hf; omega) (head_append_ne hh) ?_
    intro r l' T' hr
    refine h r l' T' ?_
    simpa [nodesI, endI, List.append_assoc] using hr

theorem POK.afterTok {l : Local} (h : POK l) (hc : histOK l.currentToken = true) (t : Token) :
    POK (afterTok l t) :=
  ⟨h.wok.afterTok t, h.cs, hc, h.dp, ⟨h.ps.cp, h.ps.rl, h.ps.ca⟩⟩

/-- **the whole line**: from the initial configuration of the engine, on blanks, a first plain
    word that is no reserved word, further gap-separated plain words, trailing blanks, newline -/
theorem run_line {np : NestedParse} {L : Str} {adn : Bool} {tail : Str}
    {P : Res SVal → Local → Tape → Prop} (htail : Blank tail) (hlen : L.length + 2 ≤ 1073741824)
    {g1 w1 : Str} {items : List (Str × Str)} {l : Local} {i fuel : Nat}
    (hg1 : Blank g1) (hw1 : PlainWord w1) (hnr : reservedFirstCommandChars.lookup w1 = none)
    (hi : ItemsOK items) (hl : POK l) (hcur : histOK l.currentToken = true)
    (hL : L.drop i = g1 ++ w1 ++ spellI items ++ tail ++ ['\n'])
    (hf : 3 * items.length + 14 ≤ fuel)
    (h : ∀ r l' T', ResIs (Node.command (i + g1.length, endI (i + g1.length + w1.length) items)
        (Node.word (i + g1.length, i + g1.length + w1.length) w1 [] ::
          nodesI (i + g1.length + w1.length) items)) r → P r l' T') :
    Tot (engineLoop np fuel {}) l ⟨L, i, adn⟩ P := by
  obtain ⟨f, rfl⟩ : ∃ f, fuel = f + 3 := ⟨fuel - 3, by omega⟩
  obtain ⟨b, r', hbr, hb⟩ := after_word items tail hi htail
  have hL' : L.drop i = g1 ++ w1 ++ b :: r' := by
    rw [hL, ← hbr]; simp
  have hLn : L.drop (i + g1.length + w1.length) = spellI items ++ tail ++ ['\n'] := by
    have := congrArg (List.drop (g1.length + w1.length)) hL
    rw [List.drop_drop] at this
    rw [Nat.add_assoc, this]
    simp
  refine Tot.loop_step ?_
  refine R_fetch0 ?_
  refine tot_nextToken_word hl.wok hcur hl.hist hw1 hb hg1 hL' hlen (fun _ => hnr) ?_
  rw [symOfTok_word]
  refine R_shift0 ?_
  refine Tot.loop_step ?_
  refine R_fetch Tab.d29 ?_
  have hl1 := hl.afterTok hcur (wordTok (i + g1.length) (i + g1.length + w1.length) w1)
  cases items with
  | nil =>
    have hL2 : L.drop (i + g1.length + w1.length) = tail ++ '\n' :: [] := by
      simpa [spellI] using hLn
    refine tot_nextToken_nl hl1.wok htail hL2 hlen ?_
    rw [symOfTok_nl]
    refine R_reduce Tab.d29 rfl Tab.a29n Tab.p51 rfl Tab.g0_63 Tab.f51 ?_
    refine act_sce hw1 ?_
    simp only [Bool.false_eq_true, if_false]
    refine Tot.loop_step ?_
    refine R_reduce Tab.d17 rfl Tab.a17n Tab.p56 rfl Tab.g0_65 Tab.f56 ?_
    refine act_sc1 ?_
    simp only [Bool.false_eq_true, if_false]
    refine run_final (p1 := (i + g1.length, i + g1.length + w1.length))
      (p2 := (i + g1.length, i + g1.length + w1.length)) (s1 := w1) (s2 := w1) (q1 := []) (q2 := [])
      (hl1.wok.afterNL _).redir hl1.cs rfl rfl (by omega) ?_
    intro r hr
    exact h r _ _ (by simpa [nodesI, endI] using hr)
  | cons it rest =>
    obtain ⟨g, w'⟩ := it
    have hit := hi (g, w') (List.mem_cons_self ..)
    have hrest : ItemsOK rest := fun x hx => hi x (List.mem_cons_of_mem _ hx)
    obtain ⟨b2, r2, hbr2, hb2⟩ := after_word rest tail hrest htail
    have hL2 : L.drop (i + g1.length + w1.length) = g ++ w' ++ b2 :: r2 := by
      rw [hLn, ← hbr2]; simp [spellI]
    refine tot_nextToken_word hl1.wok rfl hl1.hist hit.2 hb2 hit.1.2 hL2 hlen ?_ ?_
    · intro hacc
      have : reservedWordAcceptable (shiftH (afterTok l (wordTok (i + g1.length)
          (i + g1.length + w1.length) w1))) (wordTok (i + g1.length)
          (i + g1.length + w1.length) w1) = false := racc_word hw1 (by exact hl1.hist)
      exact absurd (this.symm.trans hacc) (by decide)
    rw [symOfTok_word]
    refine R_reduce Tab.d29 rfl Tab.a29w Tab.p51 rfl Tab.g0_63 Tab.f51 ?_
    refine act_sce hw1 ?_
    simp only [Bool.false_eq_true, if_false]
    refine Tot.loop_step ?_
    refine R_reduce Tab.d17 rfl Tab.a17w Tab.p56 rfl Tab.g0_65 Tab.f56 ?_
    refine act_sc1 ?_
    simp only [Bool.false_eq_true, if_false]
    have hLn2 : L.drop (i + g1.length + w1.length + g.length + w'.length) =
        spellI rest ++ tail ++ ['\n'] := by
      have := congrArg (List.drop (g.length + w'.length)) hLn
      rw [List.drop_drop] at this
      rw [Nat.add_assoc (i + g1.length + w1.length), this]
      simp [spellI]
    refine run_words htail hlen rest [Node.word (i + g1.length, i + g1.length + w1.length) w1 []]
      (i + g1.length + w1.length + g.length) (i + g1.length + w1.length + g.length + w'.length) w'
      (afterTok _ _) f 0 _ _ hrest hit.2 (hl1.afterTok rfl _) rfl hLn2 (by simp at hf; omega) rfl ?_
    intro r l' T' hr
    refine h r l' T' ?_
    simpa [nodesI, endI] using hr

theorem symOfTok_eof : symOfTok eofTok = 0 := by decide

/-- **a line of blanks only**: NEWLINE is counted in state 0, then `$end` gives the all-newline
    return (`_parser.parse()` returns None) -/
theorem run_blank {np : NestedParse} {L : Str} {adn : Bool} {tail : Str}
    {P : Res SVal → Local → Tape → Prop} {l : Local} {i fuel : Nat}
    (htail : Blank tail) (hlen : L.length + 2 ≤ 1073741824) (hl : WOK l)
    (hL : L.drop i = tail ++ ['\n']) (hf : 2 ≤ fuel)
    (h : ∀ a b l' T', P (.blank a b) l' T') :
    Tot (engineLoop np fuel {}) l ⟨L, i, adn⟩ P := by
  obtain ⟨f, rfl⟩ : ∃ f, fuel = f + 2 := ⟨fuel - 2, by omega⟩
  refine Tot.loop_step ?_
  refine R_fetch0 ?_
  refine tot_nextToken_nl hl htail hL hlen ?_
  rw [symOfTok_nl]
  rw [step_nl0 (c := { stack := [], la := some (55, _), nlShifted := 0, consumed := [] })
    (la := (55, _)) rfl Tab.d0 rfl (show ((55 : Nat) == Tab.T.endTok) = false by decide)
    (show ((55 : Nat) == Tab.T.nlTok) = true by decide) Tab.a0n]
  refine Tot.pure ?_
  refine Tot.loop_step ?_
  refine R_fetch0 ?_
  have hend : L.length ≤ i + tail.length + 1 := by
    have := congrArg List.length hL
    simp at this
    omega
  refine tot_nextToken_eof (hl.afterNL _) hend ?_
  rw [symOfTok_eof]
  rw [step_blank0 (c := { stack := [], la := some (0, _), nlShifted := 0 + 1, consumed := [] ++ [55] })
    (la := (0, _)) rfl Tab.d0 rfl (show ((0 : Nat) == Tab.T.endTok) = true by decide)]
  exact Tot.pure (h _ _ _ _)

end Bashlex.C02
