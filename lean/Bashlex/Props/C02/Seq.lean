/-
  C02 (round trip), part 10: sequences `c₁ ; c₂ ; … ; cₙ` of simple commands — the run of the
  engine by induction over the commands.
-/
import Bashlex.Props.C02.Cmd
import Bashlex.Props.C02.Glue

namespace Bashlex.C02
open Bashlex Bashlex.M Bashlex.LR
set_option linter.unusedSimpArgs false
set_option linter.unusedVariables false

/-- a simple command with its spelling: leading blanks, first word, (gap, word) items, trailing
    blanks -/
structure SCmd where
  lead : Str
  w1 : Str
  items : List (Str × Str)
  trail : Str

namespace SCmd
def text (c : SCmd) : Str := lineText c.lead c.w1 c.items c.trail
/-- blanks are blanks, words are plain, the first word is no reserved word -/
structure OK (c : SCmd) : Prop where
  lead : Blank c.lead
  w1 : PlainWord c.w1
  nr : reservedFirstCommandChars.lookup c.w1 = none
  items : ItemsOK c.items
  trail : Blank c.trail
instance (c : SCmd) : Decidable c.OK :=
  decidable_of_iff (Blank c.lead ∧ PlainWord c.w1 ∧ reservedFirstCommandChars.lookup c.w1 = none ∧
      ItemsOK c.items ∧ Blank c.trail)
    ⟨fun ⟨a, b, c', d, e⟩ => ⟨a, b, c', d, e⟩, fun h => ⟨h.lead, h.w1, h.nr, h.items, h.trail⟩⟩

/-- the command node, the command's text starting at offset `off` -/
def node (off : Nat) (c : SCmd) : Node := cmdNode off c.lead c.w1 c.items
/-- where its last word ends -/
def endPos (off : Nat) (c : SCmd) : Nat := endI (off + c.lead.length + c.w1.length) c.items
end SCmd

/-- the text `; c₂ ; c₃ …` -/
def restText : List SCmd → Str
  | [] => []
  | c :: cs => ';' :: (c.text ++ restText cs)

/-- the nodes of `; c₂ ; c₃ …`, the first `;` at offset `a` -/
def restNodes (a : Nat) : List SCmd → List Node
  | [] => []
  | c :: cs =>
    Node.operator (a, a + 1) [';'] :: c.node (a + 1) :: restNodes (a + 1 + c.text.length) cs

/-- the end of the last command (`e`: end of the command before `; c₂ …`) -/
def lastEnd (e a : Nat) : List SCmd → Nat
  | [] => e
  | c :: cs => lastEnd (c.endPos (a + 1)) (a + 1 + c.text.length) cs

theorem text_head {c : SCmd} (hc : c.OK) :
    ∃ d r, c.text = d :: r ∧ d ≠ ';' ∧ d ≠ '&' ∧ d ≠ '\\' := by
  unfold SCmd.text lineText
  cases hl : c.lead with
  | nil =>
    cases hw : c.w1 with
    | nil => exact absurd hw hc.w1.1
    | cons d r =>
      have hd : plainChar d = true := hc.w1.2 d (by rw [hw]; exact List.mem_cons_self ..)
      exact ⟨d, r ++ (spellI c.items ++ c.trail), by simp, plain_ne' (by decide) hd,
        plain_ne' (by decide) hd, plain_ne' (by decide) hd⟩
  | cons d r =>
    have hd : shellblank d = true := hc.lead d (by rw [hl]; exact List.mem_cons_self ..)
    refine ⟨d, r ++ (c.w1 ++ (spellI c.items ++ c.trail)), by simp, ?_, ?_, blank_ne_bs hd⟩
    · intro h; subst h; revert hd; decide
    · intro h; subst h; revert hd; decide

section
variable {L : Str} {adn : Bool}

theorem fetchTerm_nl (hlen : L.length + 2 ≤ 1073741824) {trail nlr : Str} (htrail : Blank trail)
    {e : Nat} (hL : L.drop e = trail ++ '\n' :: nlr) :
    FetchTerm L adn (nlTok (e + trail.length)) e (e + trail.length + 1) := by
  intro l0 Q hl0 hc hQ
  exact tot_nextToken_nl hl0.wok htrail hL hlen (hQ _ (hl0.afterNL hc _) rfl)

theorem fetchTerm_semi (hlen : L.length + 2 ≤ 1073741824) {trail rest : Str} {d : Char}
    (htrail : Blank trail) {e : Nat} (hL : L.drop e = trail ++ ';' :: d :: rest)
    (hd1 : d ≠ ';') (hd2 : d ≠ '&') (hd3 : d ≠ '\\') :
    FetchTerm L adn (semiTok (e + trail.length)) e (e + trail.length + 1) := by
  intro l0 Q hl0 hc hQ
  exact tot_nextToken_semi hl0.wok hl0.dp htrail hL hd1 hd2 hd3 hlen (hQ _ (hl0.afterNL hc _) rfl)

theorem head_app {trail : Str} (htrail : Blank trail) {x : Char} (hx : endChar x = true) (r : Str) :
    ∃ b0 r0, trail ++ x :: r = b0 :: r0 ∧ endChar b0 = true := by
  cases trail with
  | nil => exact ⟨x, r, rfl, hx⟩
  | cons y t => exact ⟨y, t ++ x :: r, rfl, blank_endChar (htrail y (List.mem_cons_self ..))⟩

/-- what follows a command: its trailing blanks, then NEWLINE (last command) or `;` -/
theorem next_term (hlen : L.length + 2 ≤ 1073741824) (cs : List SCmd) (hcs : ∀ c ∈ cs, c.OK)
    {trail nlr : Str} (htrail : Blank trail) {e : Nat}
    (hL : L.drop e = trail ++ (restText cs ++ '\n' :: nlr)) :
    ∃ (ts : Nat) (term : Token) (b0 : Char) (r0 : Str), TermOK ts ∧ symOfTok term = ts ∧
      Tab.T.action 133 ts = some (.reduce 154) ∧
      trail ++ (restText cs ++ '\n' :: nlr) = b0 :: r0 ∧ endChar b0 = true ∧
      FetchTerm L adn term e (e + trail.length + 1) ∧ histOK term = true ∧
      (cs = [] → ts = 55) ∧
      (∀ c cs', cs = c :: cs' → ts = 53 ∧ term = semiTok (e + trail.length) ∧
          L.drop (e + trail.length + 1) = c.text ++ (restText cs' ++ '\n' :: nlr)) := by
  have hdrop : ∀ x r, L.drop e = trail ++ x :: r → L.drop (e + trail.length + 1) = r := by
    intro x r h
    have := congrArg (List.drop (trail.length + 1)) h
    rw [List.drop_drop] at this
    rw [Nat.add_assoc, this]
    simp
  cases cs with
  | nil =>
    have hL' : L.drop e = trail ++ '\n' :: nlr := by simpa [restText] using hL
    obtain ⟨b0, r0, h0, hb0⟩ := head_app htrail (x := '\n') (by decide) nlr
    exact ⟨55, nlTok (e + trail.length), b0, r0, termNL, symOfTok_nl _, Tab.a133n,
      by simpa [restText] using h0, hb0, fetchTerm_nl hlen htrail hL', rfl, fun _ => rfl,
      fun c cs' h => by cases h⟩
  | cons c cs' =>
    obtain ⟨d, r, hd, hd1, hd2, hd3⟩ := text_head (hcs c (List.mem_cons_self ..))
    have hL' : L.drop e = trail ++ ';' :: d :: (r ++ (restText cs' ++ '\n' :: nlr)) := by
      rw [hL]; simp [restText, hd]
    have hnext : L.drop (e + trail.length + 1) = c.text ++ (restText cs' ++ '\n' :: nlr) := by
      rw [hdrop ';' _ hL', hd]; simp
    obtain ⟨b0, r0, h0, hb0⟩ := head_app htrail (x := ';') (by decide)
      (d :: (r ++ (restText cs' ++ '\n' :: nlr)))
    refine ⟨53, semiTok (e + trail.length), b0, r0, termSEMI, Tab.symSEMI, Tab.a133s, ?_, hb0,
      fetchTerm_semi hlen htrail hL' hd1 hd2 hd3, rfl, fun h => (by cases h), ?_⟩
    · rw [← h0]; simp [restText, hd]
    · intro c2 cs2 h
      cases h
      exact ⟨rfl, rfl, hnext⟩

/-- number of engine steps for `; c₂ ; c₃ … NEWLINE` -/
def cost : List SCmd → Nat
  | [] => 4
  | c :: cs => 3 * c.items.length + 9 + cost cs

theorem endPos_trail (c : SCmd) (off : Nat) : c.endPos off + c.trail.length = off + c.text.length := by
  simp only [SCmd.endPos, endI_eq, SCmd.text, lineText, List.length_append]
  omega

theorem drop_text {c : SCmd} {X : Str} {off : Nat} (h : L.drop off = c.text ++ X) :
    L.drop (off + c.lead.length + c.w1.length) = spellI c.items ++ (c.trail ++ X) := by
  have := congrArg (List.drop (c.lead.length + c.w1.length)) h
  rw [List.drop_drop] at this
  rw [Nat.add_assoc, this]
  simp [SCmd.text, lineText]

theorem drop_text_end {c : SCmd} {X : Str} {off : Nat} (h : L.drop off = c.text ++ X) :
    L.drop (c.endPos off) = c.trail ++ X := by
  have := congrArg (List.drop (c.lead.length + c.w1.length + (spellI c.items).length)) h
  rw [List.drop_drop] at this
  have e : c.endPos off = off + (c.lead.length + c.w1.length + (spellI c.items).length) := by
    simp only [SCmd.endPos, endI_eq]; omega
  rw [e, this]
  have : c.text ++ X = (c.lead ++ c.w1 ++ spellI c.items) ++ (c.trail ++ X) := by
    simp [SCmd.text, lineText]
  rw [this]
  exact List.drop_left' (by simp; omega)

variable {np : NestedParse} {P : Res SVal → Local → Tape → Prop} {nlr : Str}

/-- the value of `simple_list`: the single command, or the list node over the flat list -/
def mkSeq (s e : Nat) : List Node → Node
  | [n] => n
  | ns => Node.list (s, e) ns

theorem mkSeq_many {s e : Nat} : ∀ {ns : List Node}, 1 < ns.length → mkSeq s e ns = Node.list (s, e) ns
  | [], h => by simp at h
  | [_], h => by simp at h
  | _ :: _ :: _, _ => rfl

/-- **the commands after the first**: `simple_list1` on the stack (value: the flat list `acc`),
    the terminator in hand -/
theorem run_rest (hlen : L.length + 2 ≤ 1073741824) :
    ∀ (cs : List SCmd) (acc : List Node) (ts : Nat) (term : Token) (l : Local) (idx a f nl : Nat)
      (cons : List Nat) (tr : Tree) (pF pL : Span) (nF nL : List Node),
      (∀ c ∈ cs, c.OK) → POK l → l.currentToken = term → histOK term = true → symOfTok term = ts →
      (cs = [] → ts = 55) →
      (∀ c cs', cs = c :: cs' → ts = 53 ∧ term = semiTok a ∧ idx = a + 1 ∧
        L.drop idx = c.text ++ (restText cs' ++ '\n' :: nlr)) →
      acc.head? = some (Node.command pF nF) → acc.getLast? = some (Node.command pL nL) →
      (∀ r l' T', ResIs (mkSeq pF.1 (lastEnd pL.2 a cs) (acc ++ restNodes a cs)) r → P r l' T') →
      Tot (engineLoop np (f + cost cs)
        { stack := [⟨6, tr, .nodes acc⟩], la := some (ts, .tok term), nlShifted := nl,
          consumed := cons }) l ⟨L, idx, adn⟩ P := by
  intro cs
  induction cs with
  | nil =>
    intro acc ts term l idx a f nl cons tr pF pL nF nL hcs hl hcur hhist hts hnil hcons hh hla h
    have := hnil rfl
    subst this
    have fin : ∀ (n : Node) (tr2 : Tree) (cons2 : List Nat) (f2 : Nat),
        (∀ r l' T', ResIs n r → P r l' T') →
        Tot (engineLoop np (f2 + 3)
          { stack := [⟨2, tr2, .node n⟩], la := some (55, .tok term), nlShifted := nl,
            consumed := cons2 }) l ⟨L, idx, adn⟩ P := by
      intro n tr2 cons2 f2 hn
      refine Tot.loop_step ?_
      refine R_shift Tab.d2 rfl Tab.a2n ?_
      refine Tot.loop_step ?_
      refine R_dflt Tab.d57 Tab.p141 rfl Tab.g2_89 Tab.f141 ?_
      refine act_terminator ?_
      simp only [Bool.false_eq_true, if_false]
      refine Tot.loop_step ?_
      refine R_dflt Tab.d56 Tab.p1 rfl Tab.g0_60 Tab.f1 ?_
      refine act_inputunit hl.cs ?_
      simp only [if_true]
      exact hn _ _ _ rfl
    refine Tot.loop_step ?_
    refine R_reduce Tab.d6 rfl Tab.a6n Tab.p148 rfl Tab.g0_92 Tab.f148 ?_
    match acc, hh, hla, h with
    | [], hh, _, _ => cases hh
    | [n], hh, hla, h =>
      refine act_simple_list_1 hl.wok.redir hl.cs ?_
      simp only [Bool.false_eq_true, if_false]
      refine fin n _ _ f ?_
      intro r l' T' hr
      exact h r l' T' (by simpa [restNodes, lastEnd, mkSeq] using hr)
    | x :: y :: rs, hh, hla, h =>
      refine act_simple_list_many hl.wok.redir hl.cs (by simp) hh hla ?_
      simp only [Bool.false_eq_true, if_false]
      refine fin _ _ _ f ?_
      intro r l' T' hr
      exact h r l' T' (by simpa [restNodes, lastEnd, mkSeq] using hr)
  | cons c cs' ih =>
    intro acc ts term l idx a f nl cons tr pF pL nF nL hcs hl hcur hhist hts hnil hcons hh hla h
    obtain ⟨rfl, rfl, rfl, hLc⟩ := hcons c cs' rfl
    have hc := hcs c (List.mem_cons_self ..)
    have hcs' : ∀ x ∈ cs', x.OK := fun x hx => hcs x (List.mem_cons_of_mem _ hx)
    have hLend := drop_text_end hLc
    obtain ⟨ts', term', b0, r0, hT', hts', h133, hR, hb0, hfetch', hhist', hnil', hcons'⟩ :=
      next_term (adn := adn) hlen cs' hcs' hc.trail hLend
    obtain ⟨bb, r', hbr, hb⟩ := after_word' c.items hc.items hR hb0
    have hLw := drop_text hLc
    have hL1 : L.drop (a + 1) = c.lead ++ c.w1 ++ bb :: r' := by
      rw [hLc, ← hbr]; simp [SCmd.text, lineText]
    have e : f + cost (c :: cs') = ((f + cost cs' + 1) + (3 * c.items.length + 6)) + 2 := by
      simp only [cost]; omega
    rw [e]
    have hcurh : histOK l.currentToken = true := by rw [hcur]; rfl
    refine Tot.loop_step ?_
    refine R_shift Tab.d6 rfl Tab.a6s ?_
    refine Tot.loop_step ?_
    refine R_fetch Tab.d61 ?_
    refine tot_nextToken_word hl.wok hcurh hl.hist hc.w1 hb hc.lead hL1 hlen (fun _ => hc.nr) ?_
    rw [symOfTok_word]
    refine R_shift Tab.d61 rfl Tab.a61w ?_
    refine cmd_run (b := 61) (g93 := 133) rfl base61 hT' hts' hlen hR hb0 hc.items hc.w1
      (hl.afterTok hcurh _) rfl hLw hfetch' rfl ?_
    intro tr' nl' cons' l' hl' hcur'
    refine Tot.loop_step ?_
    refine R_reduce Tab.d133 rfl h133 Tab.p154 rfl Tab.g0_93 Tab.f154 ?_
    refine act_simple_list1_3 ?_
    simp only [Bool.false_eq_true, if_false]
    have ea : c.endPos (a + 1) + c.trail.length = a + 1 + c.text.length := endPos_trail c (a + 1)
    refine ih _ ts' term' l' (c.endPos (a + 1) + c.trail.length + 1) (c.endPos (a + 1) + c.trail.length)
      f nl' cons' _ pF (a + 1 + c.lead.length, c.endPos (a + 1)) nF
      (Node.word (a + 1 + c.lead.length, a + 1 + c.lead.length + c.w1.length) c.w1 [] ::
        nodesI (a + 1 + c.lead.length + c.w1.length) c.items)
      hcs' hl' hcur' hhist' hts' hnil'
      ?_ (head_append_ne (head_append_ne hh)) (by simp [SCmd.endPos]) ?_
    · intro c2 cs2 h2
      obtain ⟨h21, h22, h23⟩ := hcons' c2 cs2 h2
      exact ⟨h21, h22, rfl, h23⟩
    · intro r l'' T'' hr
      refine h r l'' T'' ?_
      rw [ea] at hr
      simpa [restNodes, lastEnd, SCmd.node, cmdNode, SCmd.endPos, semiTok, Token.lexpos,
        Token.endlexpos, Token.valueStr, List.append_assoc] using hr

/-- **the whole line `c₁ ; c₂ ; … ; cₙ`** (n ≥ 1) from a configuration of the engine with an empty
    stack (leading NEWLINE tokens may have been counted); any text may follow the newline -/
theorem run_seq (hlen : L.length + 2 ≤ 1073741824) {c1 : SCmd} {cs : List SCmd} {l : Local}
    {i f nl0 : Nat} {cons0 : List Nat} (hc1 : c1.OK) (hcs : ∀ c ∈ cs, c.OK) (hl : POK l)
    (hcur : histOK l.currentToken = true)
    (hL : L.drop i = c1.text ++ (restText cs ++ '\n' :: nlr))
    (h : ∀ r l' T', ResIs (mkSeq (i + c1.lead.length) (lastEnd (c1.endPos i) (i + c1.text.length) cs)
        (c1.node i :: restNodes (i + c1.text.length) cs)) r → P r l' T') :
    Tot (engineLoop np ((f + cost cs) + (3 * c1.items.length + 6) + 1)
      { stack := [], la := none, nlShifted := nl0, consumed := cons0 }) l ⟨L, i, adn⟩ P := by
  have hLend := drop_text_end hL
  obtain ⟨ts', term', b0, r0, hT', hts', h133, hR, hb0, hfetch', hhist', hnil', hcons'⟩ :=
    next_term (adn := adn) hlen cs hcs hc1.trail hLend
  obtain ⟨bb, r', hbr, hb⟩ := after_word' c1.items hc1.items hR hb0
  have hLw := drop_text hL
  have hL1 : L.drop i = c1.lead ++ c1.w1 ++ bb :: r' := by
    rw [hL, ← hbr]; simp [SCmd.text, lineText]
  refine Tot.loop_step ?_
  refine R_fetch0 ?_
  refine tot_nextToken_word hl.wok hcur hl.hist hc1.w1 hb hc1.lead hL1 hlen (fun _ => hc1.nr) ?_
  rw [symOfTok_word]
  refine R_shift0 ?_
  refine cmd_run (base := []) (b := 0) (g93 := 6) rfl base0 hT' hts' hlen hR hb0 hc1.items hc1.w1
    (hl.afterTok hcur _) rfl hLw hfetch' rfl ?_
  intro tr' nl' cons' l' hl' hcur'
  have ea : c1.endPos i + c1.trail.length = i + c1.text.length := endPos_trail c1 i
  refine run_rest (nlr := nlr) hlen cs _ ts' term' l' (c1.endPos i + c1.trail.length + 1)
    (c1.endPos i + c1.trail.length) f nl' cons' _ (i + c1.lead.length, c1.endPos i)
    (i + c1.lead.length, c1.endPos i) _ _ hcs hl' hcur' hhist' hts' hnil' ?_ rfl rfl ?_
  · intro c2 cs2 h2
    obtain ⟨h21, h22, h23⟩ := hcons' c2 cs2 h2
    exact ⟨h21, h22, rfl, h23⟩
  · intro r l'' T'' hr
    refine h r l'' T'' ?_
    rw [ea] at hr
    simpa [SCmd.node, cmdNode, SCmd.endPos] using hr

end

end Bashlex.C02
