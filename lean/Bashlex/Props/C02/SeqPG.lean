/-
  C02 (round trip), part 24: lists of pipelines of GENERAL simple commands (`SeqPE` over `GCmd`).
-/
import Bashlex.Props.C02.PipeG
import Bashlex.Props.C02.SeqPE

namespace Bashlex.C02
open Bashlex Bashlex.M Bashlex.LR
set_option linter.unusedSimpArgs false
set_option linter.unusedVariables false

theorem Op.tok_start (o : Op) (a : Nat) : startOK (o.tok a) = true := by cases o <;> rfl

theorem glastEnd_shift (k : Nat) : ∀ (cs : List GCmd) (e a : Nat),
    glastEnd (e + k) (a + k) cs = glastEnd e a cs + k
  | [], _, _ => rfl
  | c :: cs, e, a => by
    have ih := glastEnd_shift k cs (c.endPos (a + 1)) (a + 1 + c.text.length)
    have e1 : a + k + 1 + c.text.length = a + 1 + c.text.length + k := by omega
    have e2 : a + k + 1 = a + 1 + k := by omega
    show glastEnd (c.endPos (a + k + 1)) (a + k + 1 + c.text.length) cs =
      glastEnd (c.endPos (a + 1)) (a + 1 + c.text.length) cs + k
    rw [e1, e2, GCmd.endPos_shift c k (a + 1)]
    exact ih

/-! ## facts about one pipeline -/

theorem gptrail_blank : ∀ (cs : List GCmd) (t0 : Str), Blank t0 → (∀ c ∈ cs, c.OK) →
    Blank (gptrail t0 cs)
  | [], _, h, _ => h
  | c :: cs, _, _, hcs =>
    gptrail_blank cs c.trail (hcs c (List.mem_cons_self ..)).trail
      (fun x hx => hcs x (List.mem_cons_of_mem _ hx))

theorem GPE.trail_blank {e : GPE} (he : e.OK) : Blank e.trail := gptrail_blank e.cs _ he.1.trail he.2

theorem gpsplit : ∀ (cs : List GCmd) (pre t0 : Str) (e a : Nat), pre.length = e →
    e + t0.length = a →
    ∃ Y, pre ++ t0 ++ gprestText cs = Y ++ gptrail t0 cs ∧ Y.length = glastEnd e a cs
  | [], pre, t0, e, a, he, _ => ⟨pre, by simp [gprestText, gptrail], by simpa [glastEnd] using he⟩
  | c :: cs, pre, t0, e, a, he, ha => by
    obtain ⟨Y, hY, hYl⟩ := gpsplit cs (pre ++ t0 ++ ['|'] ++ c.lead ++ c.first.text ++ spellJ c.items) c.trail
      (c.endPos (a + 1)) (a + 1 + c.text.length)
      (by simp only [GCmd.endPos, endJ_eq, List.length_append, List.length_cons, List.length_nil]; omega)
      (GCmd.endPos_trail c (a + 1))
    refine ⟨Y, ?_, by simpa [glastEnd] using hYl⟩
    show pre ++ t0 ++ gprestText (c :: cs) = Y ++ gptrail c.trail cs
    rw [← hY]
    simp [gprestText, GCmd.text]

theorem glastEnd_pos : ∀ (cs : List GCmd) (e a : Nat), 1 ≤ e → 1 ≤ glastEnd e a cs
  | [], _, _, h => h
  | c :: cs, _, a, _ => glastEnd_pos cs _ _ (by simp only [GCmd.endPos, endJ_eq]; omega)

/-- a pipeline's text splits into everything up to the end of its last word, and its last
    trailing blanks -/
theorem GPE.split (e : GPE) (he : e.OK) :
    ∃ Y, e.text = Y ++ e.trail ∧ 1 ≤ Y.length ∧ ∀ off, e.endPos off = off + Y.length := by
  have hw : 0 < e.c1.first.text.length := Elem.text_pos he.1.first
  obtain ⟨Y, hY, hYl⟩ := gpsplit e.cs (e.c1.lead ++ e.c1.first.text ++ spellJ e.c1.items) e.c1.trail
    (e.c1.endPos 0) (0 + e.c1.text.length)
    (by simp only [GCmd.endPos, endJ_eq, List.length_append]; omega) (GCmd.endPos_trail e.c1 0)
  refine ⟨Y, ?_, ?_, ?_⟩
  · rw [GPE.trail, ← hY]; simp [GPE.text, GCmd.text]
  · rw [hYl]; exact glastEnd_pos e.cs _ _ (by simp only [GCmd.endPos, endJ_eq]; omega)
  · intro off
    rw [GPE.endPos, hYl]
    have := glastEnd_shift off e.cs (e.c1.endPos 0) (0 + e.c1.text.length)
    have e1 : e.c1.endPos off = e.c1.endPos 0 + off := by rw [← GCmd.endPos_shift]; simp
    have e2 : off + e.c1.text.length = 0 + e.c1.text.length + off := by omega
    rw [e1, e2, this]
    omega

theorem GPE.endPos_trail {e : GPE} (he : e.OK) (off : Nat) :
    e.endPos off + e.trail.length = off + e.text.length := by
  obtain ⟨Y, hY, _, hYe⟩ := GPE.split e he
  rw [hYe off, hY]; simp; omega

theorem GPE.drop_text_end {L : Str} {e : GPE} (he : e.OK) {X : Str} {off : Nat}
    (h : L.drop off = e.text ++ X) : L.drop (e.endPos off) = e.trail ++ X := by
  obtain ⟨Y, hY, _, hYe⟩ := GPE.split e he
  rw [hYe off, ← List.drop_drop, h, hY]
  have : Y ++ e.trail ++ X = Y ++ (e.trail ++ X) := by simp
  rw [this]
  exact List.drop_left' rfl

theorem GPE.text_head {e : GPE} (he : e.OK) :
    ∃ d r, e.text = d :: r ∧ d ≠ ';' ∧ d ≠ '&' ∧ d ≠ '\\' := by
  obtain ⟨d, r, hd, h1, h2, h3, _⟩ := GCmd.text_head he.1
  exact ⟨d, r ++ gprestText e.cs, by simp [GPE.text, hd], h1, h2, h3⟩

/-- after the first word of a pipeline comes a character that ends the word -/
theorem GPE.after_first {e : GPE} (he : e.OK) {X : Str} {x0 : Char} {xr : Str} (hX : X = x0 :: xr)
    (hx0 : endChar x0 = true) :
    ∃ bb r', e.text ++ X = e.c1.lead ++ e.c1.first.text ++ bb :: r' ∧ endChar bb = true := by
  have hrest : ∃ y yr, gprestText e.cs ++ X = y :: yr ∧ endChar y = true := by
    cases hcs : e.cs with
    | nil => exact ⟨x0, xr, by simp [gprestText, hX], hx0⟩
    | cons c cs' => exact ⟨'|', c.text ++ (gprestText cs' ++ X), by simp [gprestText], by decide⟩
  obtain ⟨y, yr, hy, hye⟩ := hrest
  obtain ⟨b1, r1, h1, hb1⟩ := head_app he.1.trail hye yr
  obtain ⟨bb, r', hbr, hb⟩ := after_itemJ e.c1.items he.1.items h1.symm.symm hb1
  refine ⟨bb, r', ?_, hb⟩
  rw [← hbr, ← hy]
  simp [GPE.text, GCmd.text]

/-- the node of a pipeline is positioned: from its first word to the end of its last word -/
theorem GPE.node_pos (e : GPE) (off : Nat) :
    nodePos (e.node off) = pure (off + e.c1.lead.length, e.endPos off) := by
  obtain ⟨c1, cs⟩ := e
  cases cs with
  | nil => rfl
  | cons c cs' => rfl

/-! ## the text and the nodes of the list -/

def hrestText : List (Op × GPE) → Str
  | [] => []
  | (o, e) :: es => o.txt ++ (e.text ++ hrestText es)

def hrestNodes (a : Nat) : List (Op × GPE) → List Node
  | [] => []
  | (o, e) :: es =>
    Node.operator (a, a + o.txt.length) o.txt :: e.node (a + o.txt.length) ::
      hrestNodes (a + o.txt.length + e.text.length) es

def hlastEnd (e0 a : Nat) : List (Op × GPE) → Nat
  | [] => e0
  | (o, e) :: es => hlastEnd (e.endPos (a + o.txt.length)) (a + o.txt.length + e.text.length) es

section
variable {L : Str} {adn : Bool}

/-- what follows a pipeline in a list: trailing blanks, then NEWLINE (last) or an operator -/
theorem next_termH (hlen : L.length + 2 ≤ 1073741824) (es : List (Op × GPE))
    (hes : ∀ x ∈ es, x.2.OK) {trail nlr : Str} (htrail : Blank trail) {e : Nat}
    (hL : L.drop e = trail ++ (hrestText es ++ '\n' :: nlr)) :
    ∃ (ts : Nat) (term : Token) (b0 : Char) (r0 : Str) (x0 : Char) (xr : Str) (iT : Nat),
      OutT ts ∧ TermG ts ∧ startOK term = true ∧ symOfTok term = ts ∧
      Tab.T.action 193 ts = some (.reduce 151) ∧ Tab.T.action 194 ts = some (.reduce 152) ∧
      trail ++ (hrestText es ++ '\n' :: nlr) = b0 :: r0 ∧ endChar b0 = true ∧
      hrestText es ++ '\n' :: nlr = x0 :: xr ∧ endChar x0 = true ∧
      FetchTerm L adn term e iT ∧ histOK term = true ∧
      (es = [] → ts = 55) ∧
      (∀ o p es', es = (o, p) :: es' → ts = o.sym ∧ term = o.tok (e + trail.length) ∧
          iT = e + trail.length + o.txt.length ∧
          L.drop iT = p.text ++ (hrestText es' ++ '\n' :: nlr)) := by
  cases es with
  | nil =>
    have hL' : L.drop e = trail ++ '\n' :: nlr := by simpa [hrestText] using hL
    obtain ⟨b0, r0, h0, hb0⟩ := head_app htrail (x := '\n') (by decide) nlr
    exact ⟨55, nlTok (e + trail.length), b0, r0, '\n', nlr, e + trail.length + 1, outNL, termGNL, rfl,
      symOfTok_nl _, Tab.a193n, Tab.a194n, by simpa [hrestText] using h0, hb0, by simp [hrestText],
      by decide, fetchTerm_nl hlen htrail hL', rfl, fun _ => rfl, fun o p es' h => by cases h⟩
  | cons oc es' =>
    obtain ⟨o, p⟩ := oc
    obtain ⟨d, r, hd, hd1, hd2, hd3⟩ := GPE.text_head (hes (o, p) (List.mem_cons_self ..))
    obtain ⟨x, xr0, hx, hxe⟩ := op_endChar o
    have hL' : L.drop e = trail ++ (o.txt ++ d :: (r ++ (hrestText es' ++ '\n' :: nlr))) := by
      rw [hL]; simp [hrestText, hd]
    have hnext : L.drop (e + trail.length + o.txt.length) =
        p.text ++ (hrestText es' ++ '\n' :: nlr) := by
      have := congrArg (List.drop (trail.length + o.txt.length)) hL'
      rw [List.drop_drop] at this
      rw [Nat.add_assoc, this, hd]
      have e2 : trail ++ (o.txt ++ d :: (r ++ (hrestText es' ++ '\n' :: nlr))) =
          (trail ++ o.txt) ++ (d :: (r ++ (hrestText es' ++ '\n' :: nlr))) := by simp
      rw [e2, List.drop_left' (by simp)]
      simp
    obtain ⟨b0, r0, h0, hb0⟩ := head_app htrail (x := x) hxe
      (xr0 ++ d :: (r ++ (hrestText es' ++ '\n' :: nlr)))
    refine ⟨o.sym, o.tok (e + trail.length), b0, r0, x,
      xr0 ++ d :: (r ++ (hrestText es' ++ '\n' :: nlr)), e + trail.length + o.txt.length, o.out, o.termG,
      Op.tok_start o _, Op.tok_sym o _, o.a193, o.a194, ?_, hb0, ?_, hxe, fetchTerm_op hlen o htrail hL' hd1 hd2 hd3,
      Op.tok_hist o _, fun h => (by cases h), ?_⟩
    · rw [← h0]; simp [hrestText, hd, hx]
    · simp [hrestText, hd, hx]
    · intro o2 p2 es2 h
      cases h
      exact ⟨rfl, rfl, rfl, hnext⟩

end

/-! ## the engine -/

section
variable {np : NestedParse} {L : Str} {adn : Bool} {P : Res SVal → Local → Tape → Prop} {nlr : Str}

/-- **one and-or step** with a pipeline as right operand -/
theorem andor_stepH (hlen : L.length + 2 ≤ 1073741824) {o : Op} {s1 s2 s3 prod : Nat}
    (hA : AOF o s1 s2 s3 prod) (hN : NLG s1 s2) {B : Under} {G : List Node} {e : GPE} {l : Local}
    {a f' n0 : Nat}
    {cons : List Nat} {tr : Tree} {ts' : Nat} {term' : Token} {iT : Nat} {X : Str} {b0 x0 : Char}
    {r0 xr : Str}
    (he : e.OK) (hl : POK l) (hcur : l.currentToken = o.tok a)
    (hLc : L.drop (a + o.txt.length) = e.text ++ X)
    (hO : OutT ts') (hOG : TermG ts') (hts' : symOfTok term' = ts') (hh' : histOK term' = true)
    (hs' : startOK term' = true)
    (h3 : Tab.T.action s3 ts' = some (.reduce prod))
    (hR : e.trail ++ X = b0 :: r0) (hb0 : endChar b0 = true)
    (hX : X = x0 :: xr) (hx0 : endChar x0 = true)
    (hfetch' : FetchTerm L adn term' (e.endPos (a + o.txt.length)) iT)
    (hk : ∀ tr' nl' cons' l', POK l' → l'.currentToken = term' → Tot (engineLoop np f'
      { stack := ⟨slOf B, tr', .nodes (G ++ [Node.operator (a, a + o.txt.length) o.txt] ++
          [e.node (a + o.txt.length)])⟩ :: bstack B,
        la := some (ts', .tok term'), nlShifted := nl', consumed := cons' }) l' ⟨L, iT, adn⟩ P) :
    Tot (engineLoop np (f' + (5 + e.cost))
      { stack := ⟨slOf B, tr, .nodes G⟩ :: bstack B, la := some (o.sym, .tok (o.tok a)),
        nlShifted := n0, consumed := cons }) l ⟨L, a + o.txt.length, adn⟩ P := by
  obtain ⟨bb, r', hbr, hb⟩ := GPE.after_first he hX hx0
  have hL1 : L.drop (a + o.txt.length) = e.c1.lead ++ e.c1.first.text ++ bb :: r' := by rw [hLc, hbr]
  have e1 : f' + (5 + e.cost) = (((f' + 1) + e.cost) + 3) + 1 := by omega
  rw [e1]
  have hcurh : histOK l.currentToken = true := by rw [hcur]; exact Op.tok_hist o a
  have hso : startOK l.currentToken = true := by rw [hcur]; exact Op.tok_start o a
  refine Tot.loop_step ?_
  refine R_shift (slOf_dflt B) (slOf_ne0 B) (slOf_shift hA B) ?_
  refine nl_first hN he.1 hl hso hcurh hL1 hb hlen ?_
  intro t2 cons1 l1 hl1 hcur1
  refine gpe_run (b := s2) (g93 := s3) rfl hA.base hN.base hO hOG hts' hh' hs' hb0 hlen he
    hl1 hcur1 hLc hR hfetch' rfl ?_
  intro tr' nl' cons' l' hl' hcur'
  refine Tot.loop_step ?_
  refine R_reduce hA.d3 hA.n3 h3 hA.p rfl (goto_bstack B) hA.f ?_
  refine act_simple_list1_4 ?_
  simp only [Bool.false_eq_true, if_false]
  have hk' := fun tr'' => hk tr'' nl' cons' l' hl' hcur'
  rw [Op.tok_lexpos, Op.tok_endlexpos, Op.tok_valueStr]
  exact hk' _

/-- **one `;` step** with a pipeline as right operand -/
theorem semi_stepH (hlen : L.length + 2 ≤ 1073741824) {acc : List Node} {e : GPE} {l : Local}
    {a f' n0 : Nat} {cons : List Nat} {tr : Tree} {ts' : Nat} {term' : Token} {iT : Nat} {X : Str}
    {b0 x0 : Char} {r0 xr : Str}
    (he : e.OK) (hl : POK l) (hcur : l.currentToken = semiTok a)
    (hLc : L.drop (a + 1) = e.text ++ X)
    (hO : OutT ts') (hOG : TermG ts') (hts' : symOfTok term' = ts') (hh' : histOK term' = true)
    (hs' : startOK term' = true)
    (hR : e.trail ++ X = b0 :: r0) (hb0 : endChar b0 = true)
    (hX : X = x0 :: xr) (hx0 : endChar x0 = true)
    (hfetch' : FetchTerm L adn term' (e.endPos (a + 1)) iT)
    (hk : ∀ tr' t2 nl' cons' l', POK l' → l'.currentToken = term' → Tot (engineLoop np f'
      { stack := ⟨slOf (some (acc, semiTok a, tr, t2)), tr', .nodes [e.node (a + 1)]⟩ ::
          bstack (some (acc, semiTok a, tr, t2)),
        la := some (ts', .tok term'), nlShifted := nl', consumed := cons' }) l' ⟨L, iT, adn⟩ P) :
    Tot (engineLoop np (f' + (2 + e.cost))
      { stack := [⟨6, tr, .nodes acc⟩], la := some (53, .tok (semiTok a)),
        nlShifted := n0, consumed := cons }) l ⟨L, a + 1, adn⟩ P := by
  obtain ⟨bb, r', hbr, hb⟩ := GPE.after_first he hX hx0
  have hL1 : L.drop (a + 1) = e.c1.lead ++ e.c1.first.text ++ bb :: r' := by rw [hLc, hbr]
  have e1 : f' + (2 + e.cost) = ((f' + e.cost) + 1) + 1 := by omega
  rw [e1]
  have hcurh : histOK l.currentToken = true := by rw [hcur]; rfl
  have hso : startOK l.currentToken = true := by rw [hcur]; rfl
  refine Tot.loop_step ?_
  refine R_shift Tab.d6 rfl Tab.a6s ?_
  refine base_first (b := 61) rfl baseG61 he.1 hl hso hcurh hL1 hb hlen ?_
  intro cons1 l1 hl1 hcur1
  refine gpe_run (b := 61) (g93 := 133) rfl base61 baseG61 hO hOG hts' hh' hs' hb0 hlen he
    hl1 hcur1 hLc hR hfetch' rfl ?_
  intro tr' nl' cons' l' hl' hcur'
  have hk' := fun tr'' t2 => hk tr'' t2 nl' cons' l' hl' hcur'
  simp only [slOf, bstack] at hk'
  exact hk' _ _

def hcost : Nat → List (Op × GPE) → Nat
  | k, [] => k + 4
  | k, (o, e) :: es =>
    match o with
    | .semi => k + (2 + e.cost) + hcost 1 es
    | _ => (5 + e.cost) + hcost k es

/-- **the pipelines after the first**, operators `;`, `&&`, `||` mixed -/
theorem run_restH (hlen : L.length + 2 ≤ 1073741824) {nh : Node} {ph : Span}
    (hph : nodePos nh = pure ph) :
    ∀ (es : List (Op × GPE)) (B : Under) (G : List Node) (ts : Nat) (term : Token) (l : Local)
      (idx a f n0 : Nat) (cons : List Nat) (tr : Tree) (nl : Node) (pl : Span),
      (∀ x ∈ es, x.2.OK) → POK l → l.currentToken = term → histOK term = true → symOfTok term = ts →
      (es = [] → ts = 55) →
      (∀ o p es', es = (o, p) :: es' → ts = o.sym ∧ term = o.tok a ∧ idx = a + o.txt.length ∧
        L.drop idx = p.text ++ (hrestText es' ++ '\n' :: nlr)) →
      (total B G).head? = some nh → G.getLast? = some nl → nodePos nl = pure pl →
      (∀ r l' T', ResIs (mkSeq ph.1 (hlastEnd pl.2 a es) (total B G ++ hrestNodes a es)) r →
        P r l' T') →
      Tot (engineLoop np (f + hcost (bcost B) es)
        { stack := ⟨slOf B, tr, .nodes G⟩ :: bstack B, la := some (ts, .tok term), nlShifted := n0,
          consumed := cons }) l ⟨L, idx, adn⟩ P := by
  intro es
  induction es with
  | nil =>
    intro B G ts term l idx a f n0 cons tr nl pl hes hl hcur hhist hts hnil hcons hh hla hpl h
    have := hnil rfl
    subst this
    have e : f + hcost (bcost B) [] = (f + 4) + bcost B := by simp only [hcost]; omega
    rw [e]
    refine collapse Tab.a133n ?_
    intro tr'
    refine finalE hl hh (total_last hla) hph hpl ?_
    intro r l' T' hr
    exact h r l' T' (by simpa [hrestNodes, hlastEnd] using hr)
  | cons oc es' ih =>
    intro B G ts term l idx a f n0 cons tr nl pl hes hl hcur hhist hts hnil hcons hh hla hpl h
    obtain ⟨o, p⟩ := oc
    obtain ⟨rfl, rfl, rfl, hLc⟩ := hcons o p es' rfl
    have hp : p.OK := hes (o, p) (List.mem_cons_self ..)
    have hes' : ∀ x ∈ es', x.2.OK := fun x hx => hes x (List.mem_cons_of_mem _ hx)
    have hLend := GPE.drop_text_end hp hLc
    obtain ⟨ts', term', b0, r0, x0, xr, iT, hO', hOG', hst', hts', h193, h194, hR, hb0, hX, hx0, hfetch',
        hhist', hnil', hcons'⟩ :=
      next_termH (adn := adn) hlen es' hes' (GPE.trail_blank hp) hLend
    have ea : p.endPos (a + o.txt.length) + p.trail.length = a + o.txt.length + p.text.length :=
      GPE.endPos_trail hp (a + o.txt.length)
    have hcons'' : ∀ o2 p2 es2, es' = (o2, p2) :: es2 → ts' = o2.sym ∧
        term' = o2.tok (p.endPos (a + o.txt.length) + p.trail.length) ∧
        iT = p.endPos (a + o.txt.length) + p.trail.length + o2.txt.length ∧
        L.drop iT = p2.text ++ (hrestText es2 ++ '\n' :: nlr) := hcons'
    cases o with
    | semi =>
      have e : f + hcost (bcost B) ((Op.semi, p) :: es') =
          ((f + hcost 1 es') + (2 + p.cost)) + bcost B := by
        simp only [hcost]; omega
      rw [e]
      refine collapse Tab.a133s ?_
      intro tr'
      refine semi_stepH hlen hp hl hcur hLc hO' hOG' hts' hhist' hst' hR hb0 hX hx0 hfetch' ?_
      intro tr2 t2 nl' cons' l' hl' hcur'
      refine ih (some (total B G, semiTok a, tr', t2)) [p.node (a + 1)] ts' term' l' iT
        (p.endPos (a + 1) + p.trail.length) f nl' cons' tr2 (p.node (a + 1))
        (a + 1 + p.c1.lead.length, p.endPos (a + 1)) hes' hl' hcur' hhist' hts' hnil' hcons''
        (head_append_ne (head_append_ne hh)) rfl (GPE.node_pos p (a + 1)) ?_
      intro r l'' T'' hr
      refine h r l'' T'' ?_
      have ea' : p.endPos (a + 1) + p.trail.length = a + 1 + p.text.length := ea
      rw [ea'] at hr
      simpa [total, hrestNodes, hlastEnd, Op.txt, semiTok, Token.lexpos, Token.endlexpos,
        Token.valueStr, List.append_assoc] using hr
    | andand =>
      have e : f + hcost (bcost B) ((Op.andand, p) :: es') =
          (f + hcost (bcost B) es') + (5 + p.cost) := by
        simp only [hcost]; omega
      rw [e]
      refine andor_stepH hlen aofAnd nlg62 hp hl hcur hLc hO' hOG' hts' hhist' hst' h193 hR hb0 hX hx0 hfetch' ?_
      intro tr2 nl' cons' l' hl' hcur'
      refine ih B _ ts' term' l' iT (p.endPos (a + Op.andand.txt.length) + p.trail.length) f nl'
        cons' tr2 (p.node (a + Op.andand.txt.length))
        (a + Op.andand.txt.length + p.c1.lead.length, p.endPos (a + Op.andand.txt.length))
        hes' hl' hcur' hhist' hts' hnil' hcons''
        (by rw [total_append, total_append]; exact head_append_ne (head_append_ne hh))
        (by simp) (GPE.node_pos p _) ?_
      intro r l'' T'' hr
      refine h r l'' T'' ?_
      rw [ea, total_append, total_append] at hr
      simpa [hrestNodes, hlastEnd, List.append_assoc] using hr
    | oror =>
      have e : f + hcost (bcost B) ((Op.oror, p) :: es') =
          (f + hcost (bcost B) es') + (5 + p.cost) := by
        simp only [hcost]; omega
      rw [e]
      refine andor_stepH hlen aofOr nlg63 hp hl hcur hLc hO' hOG' hts' hhist' hst' h194 hR hb0 hX hx0 hfetch' ?_
      intro tr2 nl' cons' l' hl' hcur'
      refine ih B _ ts' term' l' iT (p.endPos (a + Op.oror.txt.length) + p.trail.length) f nl'
        cons' tr2 (p.node (a + Op.oror.txt.length))
        (a + Op.oror.txt.length + p.c1.lead.length, p.endPos (a + Op.oror.txt.length))
        hes' hl' hcur' hhist' hts' hnil' hcons''
        (by rw [total_append, total_append]; exact head_append_ne (head_append_ne hh))
        (by simp) (GPE.node_pos p _) ?_
      intro r l'' T'' hr
      refine h r l'' T'' ?_
      rw [ea, total_append, total_append] at hr
      simpa [hrestNodes, hlastEnd, List.append_assoc] using hr

/-- **the whole line `p₁ op₂ p₂ …`** of pipelines from an empty stack -/
theorem run_seqH (hlen : L.length + 2 ≤ 1073741824) {p1 : GPE} {es : List (Op × GPE)} {l : Local}
    {i f nl0 : Nat} {cons0 : List Nat} (hp1 : p1.OK) (hes : ∀ x ∈ es, x.2.OK) (hl : POK l)
    (hcur : histOK l.currentToken = true) (hso : startOK l.currentToken = true)
    (hL : L.drop i = p1.text ++ (hrestText es ++ '\n' :: nlr))
    (h : ∀ r l' T', ResIs (mkSeq (i + p1.c1.lead.length) (hlastEnd (p1.endPos i) (i + p1.text.length) es)
        (p1.node i :: hrestNodes (i + p1.text.length) es)) r → P r l' T') :
    Tot (engineLoop np ((f + hcost 0 es) + p1.cost + 1)
      { stack := [], la := none, nlShifted := nl0, consumed := cons0 }) l ⟨L, i, adn⟩ P := by
  have hLend := GPE.drop_text_end hp1 hL
  obtain ⟨ts', term', b0, r0, x0, xr, iT, hO', hOG', hst', hts', h193, h194, hR, hb0, hX, hx0, hfetch',
      hhist', hnil', hcons'⟩ :=
    next_termH (adn := adn) hlen es hes (GPE.trail_blank hp1) hLend
  obtain ⟨bb, r', hbr, hb⟩ := GPE.after_first hp1 hX hx0
  have hL1 : L.drop i = p1.c1.lead ++ p1.c1.first.text ++ bb :: r' := by rw [hL, hbr]
  refine base_first (st := []) (b := 0) rfl baseG0 hp1.1 hl hso hcur hL1 hb hlen ?_
  intro cons1 l1 hl1 hcur1
  refine gpe_run (base := []) (b := 0) (g93 := 6) rfl base0 baseG0 hO' hOG' hts' hhist' hst' hb0 hlen hp1
    hl1 hcur1 hL hR hfetch' rfl ?_
  intro tr' nl' cons' l' hl' hcur'
  have ea : p1.endPos i + p1.trail.length = i + p1.text.length := GPE.endPos_trail hp1 i
  refine run_restH (nlr := nlr) (nh := p1.node i) (ph := (i + p1.c1.lead.length, p1.endPos i)) hlen
    (GPE.node_pos p1 i) es none [p1.node i] ts' term' l' iT
    (p1.endPos i + p1.trail.length) f nl' cons' tr' (p1.node i) (i + p1.c1.lead.length, p1.endPos i)
    hes hl' hcur' hhist' hts' hnil' hcons' rfl rfl (GPE.node_pos p1 i) ?_
  intro r l'' T'' hr
  refine h r l'' T'' ?_
  rw [ea] at hr
  simpa [total] using hr

end

end Bashlex.C02
