/-
  C02 (round trip), part 11: from the engine to `parse` for sequences `c₁ ; c₂ ; … ; cₙ`.
-/
import Bashlex.Props.C02.Seq

namespace Bashlex.C02
open Bashlex Bashlex.M Bashlex.LR
set_option linter.unusedSimpArgs false
set_option linter.unusedVariables false

/-- a part of a flat list: a command over part-less words, or an operator -/
def SeqPart (n : Node) : Prop :=
  (∃ p ws, n = Node.command p ws ∧ AllWords ws) ∨ (∃ p s, n = Node.operator p s) ∨
    (∃ p s, n = Node.pipe p s)

def AllSeq (ns : List Node) : Prop := ∀ n ∈ ns, SeqPart n

theorem restNodes_allSeq : ∀ (cs : List SCmd) (a : Nat), AllSeq (restNodes a cs)
  | [], _ => fun _ h => by cases h
  | c :: cs, a => by
    intro n hn
    simp only [restNodes, List.mem_cons] at hn
    rcases hn with rfl | rfl | hn
    · exact Or.inr (Or.inl ⟨_, _, rfl⟩)
    · exact Or.inl ⟨_, _, rfl, cmdNode_words _ _ _ _⟩
    · exact restNodes_allSeq cs _ n hn

theorem seqNodes_allSeq (c1 : SCmd) (cs : List SCmd) (i a : Nat) :
    AllSeq (c1.node i :: restNodes a cs) := by
  intro n hn
  simp only [List.mem_cons] at hn
  rcases hn with rfl | hn
  · exact Or.inl ⟨_, _, rfl, cmdNode_words _ _ _ _⟩
  · exact restNodes_allSeq cs a n hn

theorem resolveL_seq (store : List RedirCell) : ∀ (ns : List Node), AllSeq ns →
    resolveL store ns = ns
  | [], _ => by simp [resolveL]
  | n :: r, h => by
    have ih := resolveL_seq store r (fun m hm => h m (List.mem_cons_of_mem _ hm))
    rcases h n (List.mem_cons_self ..) with ⟨p, ws, rfl, hw⟩ | ⟨p, s, rfl⟩ | ⟨p, s, rfl⟩
    · simp [resolveL, resolve, ih, resolveL_words store ws hw]
    · simp [resolveL, resolve, ih]
    · simp [resolveL, resolve, ih]

theorem filterMap_preorderL_seq {β : Type} (f : Node → Option β)
    (hw : ∀ p s, f (Node.word p s []) = none) (hc : ∀ p ws, f (Node.command p ws) = none)
    (ho : ∀ p s, f (Node.operator p s) = none) (hp : ∀ p s, f (Node.pipe p s) = none) :
    ∀ (ns : List Node), AllSeq ns → (Node.preorderL ns).filterMap f = []
  | [], _ => by simp [Node.preorderL]
  | n :: r, h => by
    have ih := filterMap_preorderL_seq f hw hc ho hp r (fun m hm => h m (List.mem_cons_of_mem _ hm))
    rcases h n (List.mem_cons_self ..) with ⟨p, ws, rfl, hws⟩ | ⟨p, s, rfl⟩ | ⟨p, s, rfl⟩
    · simp [Node.preorderL, Node.preorder, preorderL_words ws hws, List.filterMap_append, ih, hc,
        filterMap_words f hw ws hws]
    · simp [Node.preorderL, Node.preorder, List.filterMap_append, ih, ho]
    · simp [Node.preorderL, Node.preorder, List.filterMap_append, ih, hp]

theorem nextIndex_list {p : Span} {ns : List Node} (h : AllSeq ns) :
    nextIndex (Node.list p ns) = p.2 := by
  unfold nextIndex Node.lastHeredocEnd
  simp only [Node.preorder, List.filterMap_cons]
  rw [filterMap_preorderL_seq _ (fun _ _ => rfl) (fun _ _ => rfl) (fun _ _ => rfl)
    (fun _ _ => rfl) ns h]
  rfl

theorem nextIndex_pipeline {p : Span} {ns : List Node} (h : AllSeq ns) :
    nextIndex (Node.pipeline p ns) = p.2 := by
  unfold nextIndex Node.lastHeredocEnd
  simp only [Node.preorder, List.filterMap_cons]
  rw [filterMap_preorderL_seq _ (fun _ _ => rfl) (fun _ _ => rfl) (fun _ _ => rfl)
    (fun _ _ => rfl) ns h]
  rfl

/-- the AST of `c₁ ; c₂ ; …` (n ≥ 2) whose text starts at offset `i` -/
def seqNode (i : Nat) (c1 : SCmd) (cs : List SCmd) : Node :=
  Node.list (i + c1.lead.length, lastEnd (c1.endPos i) (i + c1.text.length) cs)
    (c1.node i :: restNodes (i + c1.text.length) cs)

/-- the AST of a line: the command node (n = 1) or the list node (n ≥ 2) -/
def lineNode (i : Nat) (c1 : SCmd) (cs : List SCmd) : Node :=
  mkSeq (i + c1.lead.length) (lastEnd (c1.endPos i) (i + c1.text.length) cs)
    (c1.node i :: restNodes (i + c1.text.length) cs)

theorem lineNode_nil (i : Nat) (c1 : SCmd) : lineNode i c1 [] = c1.node i := rfl

theorem lineNode_of_ne (i : Nat) (c1 : SCmd) {cs : List SCmd} (h : cs ≠ []) :
    lineNode i c1 cs = seqNode i c1 cs := by
  cases cs with
  | nil => exact absurd rfl h
  | cons c cs' => rfl

theorem resolve_lineNode (store : List RedirCell) (i : Nat) (c1 : SCmd) (cs : List SCmd) :
    resolve store (lineNode i c1 cs) = lineNode i c1 cs := by
  cases cs with
  | nil =>
    rw [lineNode_nil]
    unfold SCmd.node cmdNode
    rw [resolve, resolveL_words _ _ (cmdNode_words i c1.lead c1.w1 c1.items)]
  | cons c cs' =>
    rw [lineNode_of_ne i c1 (List.cons_ne_nil _ _)]
    unfold seqNode
    rw [resolve, resolveL_seq _ _ (seqNodes_allSeq c1 (c :: cs') i _)]

theorem nextIndex_lineNode (i : Nat) (c1 : SCmd) (cs : List SCmd) :
    nextIndex (lineNode i c1 cs) = lastEnd (c1.endPos i) (i + c1.text.length) cs := by
  cases cs with
  | nil =>
    rw [lineNode_nil]
    unfold SCmd.node cmdNode
    rw [nextIndex_command (cmdNode_words i c1.lead c1.w1 c1.items)]
    rfl
  | cons c cs' =>
    rw [lineNode_of_ne i c1 (List.cons_ne_nil _ _)]
    unfold seqNode
    rw [nextIndex_list (seqNodes_allSeq c1 (c :: cs') i _)]

/-- what the engine's result becomes in `_parser.parse()` -/
theorem finish_parserRun {N : Node} {l' : Local} {T' : Tape} {r : Res SVal} (hr : ResIs N r)
    (hres : ∀ store, resolve store N = N) :
    Tot (do
      let store := (← get).store
      match r with
      | .accepted (.node n) _ _ _ => pure (some (resolve store n))
      | _ => pure none : M (Option Node)) l' T' (fun r _ _ => r = some N) := by
  refine Tot.bind (Tot.get ?_)
  cases r with
  | blank a b => exact hr.elim
  | accepted v tr c b =>
    cases v with
    | node n =>
      have hn : n = N := hr
      subst hn
      refine Tot.pure ?_
      show some (resolve l'.store n) = _
      rw [hres]
    | none => exact hr.elim
    | tok _ => exact hr.elim
    | nodes _ => exact hr.elim

/-- `_parser.parse()` on a line `c₁ ; … ; cₙ` (n ≥ 1); any text may follow the newline -/
theorem tot_parserRun_seq {L : Str} {adn : Bool} {c1 : SCmd} {cs : List SCmd} {l : Local} {i d : Nat}
    {nlr : Str}
    (hlen : L.length + 2 ≤ 1073741824) (hc1 : c1.OK) (hcs : ∀ c ∈ cs, c.OK)
    (hl : POK l) (hcur : histOK l.currentToken = true)
    (hL : L.drop i = c1.text ++ (restText cs ++ '\n' :: nlr))
    (hf : cost cs + (3 * c1.items.length + 6) + 2 ≤ 1073741824) :
    Tot (parserRun (d + 1)) l ⟨L, i, adn⟩ (fun r _ _ => r = some (lineNode i c1 cs)) := by
  rw [C07.parserRun_succ]
  refine Tot.bind ?_
  obtain ⟨f, hf'⟩ : ∃ f, 1073741824 = (f + cost cs) + (3 * c1.items.length + 6) + 1 :=
    ⟨1073741824 - (cost cs + (3 * c1.items.length + 6) + 1), by omega⟩
  show Tot (engineLoop (C07.nestedOf d) 1073741824 {}) _ _ _
  rw [hf']
  refine run_seq (nlr := nlr) hlen hc1 hcs hl hcur hL ?_
  intro r l' T' hr
  exact finish_parserRun (N := lineNode i c1 cs) hr (fun st => resolve_lineNode st i c1 cs)

/-- the same after the trailing blanks and the newline of the previous line -/
theorem tot_parserRun_seq_nl {L : Str} {adn : Bool} {c1 : SCmd} {cs : List SCmd} {l : Local}
    {i d : Nat} {nlr pre : Str}
    (hlen : L.length + 2 ≤ 1073741824) (hc1 : c1.OK) (hcs : ∀ c ∈ cs, c.OK)
    (hl : POK l) (hcur : histOK l.currentToken = true) (hpre : Blank pre)
    (hL : L.drop i = pre ++ '\n' :: (c1.text ++ (restText cs ++ '\n' :: nlr)))
    (hf : cost cs + (3 * c1.items.length + 6) + 2 ≤ 1073741824) :
    Tot (parserRun (d + 1)) l ⟨L, i, adn⟩
      (fun r _ _ => r = some (lineNode (i + pre.length + 1) c1 cs)) := by
  rw [C07.parserRun_succ]
  refine Tot.bind ?_
  obtain ⟨f, hf'⟩ : ∃ f, 1073741824 = ((f + cost cs) + (3 * c1.items.length + 6) + 1) + 1 :=
    ⟨1073741824 - (cost cs + (3 * c1.items.length + 6) + 2), by omega⟩
  show Tot (engineLoop (C07.nestedOf d) 1073741824 {}) _ _ _
  rw [hf']
  refine Tot.loop_step ?_
  refine R_fetch0 ?_
  refine tot_nextToken_nl hl.wok hpre hL hlen ?_
  rw [symOfTok_nl]
  rw [step_nl0 (c := { stack := [], la := some (55, _), nlShifted := 0, consumed := [] })
    (la := (55, _)) rfl Tab.d0 rfl (show ((55 : Nat) == Tab.T.endTok) = false by decide)
    (show ((55 : Nat) == Tab.T.nlTok) = true by decide) Tab.a0n]
  refine Tot.pure ?_
  have hL2 : L.drop (i + pre.length + 1) = c1.text ++ (restText cs ++ '\n' :: nlr) := by
    have := congrArg (List.drop (pre.length + 1)) hL
    rw [List.drop_drop] at this
    rw [Nat.add_assoc, this]
    simp
  refine run_seq (nlr := nlr) hlen hc1 hcs (hl.afterNL hcur _) rfl hL2 ?_
  intro r l' T' hr
  exact finish_parserRun (N := lineNode (i + pre.length + 1) c1 cs) hr
    (fun st => resolve_lineNode st _ c1 cs)

theorem restText_noNL : ∀ (cs : List SCmd), (∀ c ∈ cs, c.OK) → ∀ x ∈ restText cs, x ≠ '\n'
  | [], _ => fun x hx => by cases hx
  | c :: cs, h => by
    intro x hx
    have hc := h c (List.mem_cons_self ..)
    simp only [restText, List.mem_cons, List.mem_append] at hx
    rcases hx with rfl | hx | hx
    · decide
    · exact lineText_noNL hc.lead hc.w1 hc.items hc.trail x hx
    · exact restText_noNL cs (fun y hy => h y (List.mem_cons_of_mem _ hy)) x hx

/-- the text of the sequence -/
def seqText (c1 : SCmd) (cs : List SCmd) : Str := c1.text ++ restText cs

/-- one top-level parser run on a sequence line -/
theorem runParser_seq {c1 : SCmd} {cs : List SCmd} (o : Opts) (t : List Char)
    (hc1 : c1.OK) (hcs : ∀ c ∈ cs, c.OK)
    (hsz : (seqText c1 cs).length + 3 ≤ 1073741824)
    (hf : cost cs + (3 * c1.items.length + 6) + 2 ≤ 1073741824) :
    ∃ t', runParser (seqText c1 cs) o t = (.ok (some (lineNode 0 c1 cs)), t') := by
  have hw : 0 < c1.w1.length := List.length_pos_iff.mpr hc1.w1.1
  have hne' : seqText c1 cs ≠ [] := by
    have : 0 < (seqText c1 cs).length := by
      simp [seqText, SCmd.text, lineText]; omega
    exact List.length_pos_iff.mp this
  have hnl : ∀ x ∈ seqText c1 cs, x ≠ '\n' := by
    intro x hx
    simp only [seqText, List.mem_append] at hx
    rcases hx with hx | hx
    · exact lineText_noNL hc1.lead hc1.w1 hc1.items hc1.trail x hx
    · exact restText_noNL cs hcs x hx
  have hof := ofInput_noNL hne' hnl
  have key := tot_parserRun_seq (L := seqText c1 cs ++ ['\n']) (adn := true) (i := 0) (d := 63)
    (l := { limit := o.limit }) (nlr := []) (by simp; omega) hc1 hcs (initial_POK _) rfl
    (by simp [seqText]) hf
  obtain ⟨a, l', e', hrun, ha⟩ := key.elim
    { tape := Tape.ofInput (seqText c1 cs), strict := o.strict, proceed := o.proceed,
      touched := t } hof
  refine ⟨e'.touched, ?_⟩
  have hrun' : (parserRun maxDepth).run { limit := o.limit }
      { tape := Tape.ofInput (seqText c1 cs), strict := o.strict, proceed := o.proceed,
        touched := t } = (.ok (a, l'), e') := hrun
  unfold runParser
  simp only [hrun', ha]
  rfl

end Bashlex.C02
