/-
  C02 (round trip), part 14: from the engine to one top-level parser run, for pipelines.
-/
import Bashlex.Props.C02.Pipe
import Bashlex.Props.C02.SeqGlue

namespace Bashlex.C02
open Bashlex Bashlex.M Bashlex.LR
set_option linter.unusedSimpArgs false
set_option linter.unusedVariables false

theorem prestNodes_allSeq : ∀ (cs : List SCmd) (a : Nat), AllSeq (prestNodes a cs)
  | [], _ => fun _ h => by cases h
  | c :: cs, a => by
    intro n hn
    simp only [prestNodes, List.mem_cons] at hn
    rcases hn with rfl | rfl | hn
    · exact Or.inr (Or.inr ⟨_, _, rfl⟩)
    · exact Or.inl ⟨_, _, rfl, cmdNode_words _ _ _ _⟩
    · exact prestNodes_allSeq cs _ n hn

theorem pipeNodes_allSeq (c1 : SCmd) (cs : List SCmd) (i a : Nat) :
    AllSeq (c1.node i :: prestNodes a cs) := by
  intro n hn
  simp only [List.mem_cons] at hn
  rcases hn with rfl | hn
  · exact Or.inl ⟨_, _, rfl, cmdNode_words _ _ _ _⟩
  · exact prestNodes_allSeq cs a n hn

/-- the AST of `c₁ | c₂ | …` (n ≥ 2) whose text starts at offset `i` -/
def pipeNode (i : Nat) (c1 : SCmd) (cs : List SCmd) : Node :=
  Node.pipeline (i + c1.lead.length, lastEnd (c1.endPos i) (i + c1.text.length) cs)
    (c1.node i :: prestNodes (i + c1.text.length) cs)

theorem mkPipe_of_ne (i : Nat) (c1 : SCmd) {cs : List SCmd} (h : cs ≠ []) :
    mkPipe (i + c1.lead.length) (lastEnd (c1.endPos i) (i + c1.text.length) cs)
      (c1.node i :: prestNodes (i + c1.text.length) cs) = pipeNode i c1 cs := by
  cases cs with
  | nil => exact absurd rfl h
  | cons c cs' => rfl

theorem resolve_pipeNode (store : List RedirCell) (i : Nat) (c1 : SCmd) (cs : List SCmd) :
    resolve store (pipeNode i c1 cs) = pipeNode i c1 cs := by
  unfold pipeNode
  rw [resolve, resolveL_seq _ _ (pipeNodes_allSeq c1 cs i _)]

theorem nextIndex_pipeNode (i : Nat) (c1 : SCmd) (cs : List SCmd) :
    nextIndex (pipeNode i c1 cs) = lastEnd (c1.endPos i) (i + c1.text.length) cs := by
  unfold pipeNode
  rw [nextIndex_pipeline (pipeNodes_allSeq c1 cs i _)]

/-- the text of the pipeline -/
def pipeText (c1 : SCmd) (cs : List SCmd) : Str := c1.text ++ prestText cs

theorem prestText_noNL : ∀ (cs : List SCmd), (∀ c ∈ cs, c.OK) → ∀ x ∈ prestText cs, x ≠ '\n'
  | [], _ => fun x hx => by cases hx
  | c :: cs, h => by
    intro x hx
    have hc := h c (List.mem_cons_self ..)
    simp only [prestText, List.mem_cons, List.mem_append] at hx
    rcases hx with rfl | hx | hx
    · decide
    · exact lineText_noNL hc.lead hc.w1 hc.items hc.trail x hx
    · exact prestText_noNL cs (fun y hy => h y (List.mem_cons_of_mem _ hy)) x hx

/-- `_parser.parse()` on a pipeline line (n ≥ 2) -/
theorem tot_parserRun_pipe {L : Str} {adn : Bool} {c1 : SCmd} {cs : List SCmd} {l : Local} {i d : Nat}
    {nlr : Str}
    (hlen : L.length + 2 ≤ 1073741824) (hc1 : c1.OK) (hcs : ∀ c ∈ cs, c.OK) (hne : cs ≠ [])
    (hl : POK l) (hcur : histOK l.currentToken = true)
    (hL : L.drop i = c1.text ++ (prestText cs ++ '\n' :: nlr))
    (hf : pcost 0 cs + (3 * c1.items.length + 2) + 3 ≤ 1073741824) :
    Tot (parserRun (d + 1)) l ⟨L, i, adn⟩ (fun r _ _ => r = some (pipeNode i c1 cs)) := by
  rw [C07.parserRun_succ]
  refine Tot.bind ?_
  obtain ⟨f, hf'⟩ : ∃ f, 1073741824 = ((f + pcost 0 cs) + 2) + (3 * c1.items.length + 2) + 1 :=
    ⟨1073741824 - (pcost 0 cs + (3 * c1.items.length + 2) + 3), by omega⟩
  show Tot (engineLoop (C07.nestedOf d) 1073741824 {}) _ _ _
  rw [hf']
  refine run_pipe (nlr := nlr) hlen hc1 hcs hl hcur hL ?_
  intro r l' T' hr
  rw [mkPipe_of_ne i c1 hne] at hr
  exact finish_parserRun (N := pipeNode i c1 cs) hr (fun st => resolve_pipeNode st i c1 cs)

/-- one top-level parser run on a pipeline line -/
theorem runParser_pipe {c1 : SCmd} {cs : List SCmd} (o : Opts) (t : List Char)
    (hc1 : c1.OK) (hcs : ∀ c ∈ cs, c.OK) (hne : cs ≠ [])
    (hsz : (pipeText c1 cs).length + 3 ≤ 1073741824)
    (hf : pcost 0 cs + (3 * c1.items.length + 2) + 3 ≤ 1073741824) :
    ∃ t', runParser (pipeText c1 cs) o t = (.ok (some (pipeNode 0 c1 cs)), t') := by
  have hw : 0 < c1.w1.length := List.length_pos_iff.mpr hc1.w1.1
  have hne' : pipeText c1 cs ≠ [] := by
    have : 0 < (pipeText c1 cs).length := by
      simp [pipeText, SCmd.text, lineText]; omega
    exact List.length_pos_iff.mp this
  have hnl : ∀ x ∈ pipeText c1 cs, x ≠ '\n' := by
    intro x hx
    simp only [pipeText, List.mem_append] at hx
    rcases hx with hx | hx
    · exact lineText_noNL hc1.lead hc1.w1 hc1.items hc1.trail x hx
    · exact prestText_noNL cs hcs x hx
  have hof := ofInput_noNL hne' hnl
  have key := tot_parserRun_pipe (L := pipeText c1 cs ++ ['\n']) (adn := true) (i := 0) (d := 63)
    (l := { limit := o.limit }) (nlr := []) (by simp; omega) hc1 hcs hne (initial_POK _) rfl
    (by simp [pipeText]) hf
  obtain ⟨a, l', e', hrun, ha⟩ := key.elim
    { tape := Tape.ofInput (pipeText c1 cs), strict := o.strict, proceed := o.proceed,
      touched := t } hof
  refine ⟨e'.touched, ?_⟩
  have hrun' : (parserRun maxDepth).run { limit := o.limit }
      { tape := Tape.ofInput (pipeText c1 cs), strict := o.strict, proceed := o.proceed,
        touched := t } = (.ok (a, l'), e') := hrun
  unfold runParser
  simp only [hrun', ha]
  rfl

end Bashlex.C02
