/-
  C02 (round trip), part 13: pipelines `c₁ | c₂ | … | cₙ` of simple commands.  `|` is
  right-nested on the engine's stack (state 195 shifts a further `|`): the run pushes one pending
  segment `pipeline | newline_list` per command and unwinds them all at the end of the line.
-/
import Bashlex.Props.C02.Seq

namespace Bashlex.C02
open Bashlex Bashlex.M Bashlex.LR
set_option linter.unusedSimpArgs false
set_option linter.unusedVariables false

/-- a pending segment: the command node, the `|` token, and the three ghost trees -/
structure Pend where
  n : Node
  bar : Token
  t1 : Tree
  t2 : Tree
  t3 : Tree

/-- the state on top of a `pipeline`: 8 at the bottom, 195 after `pipeline | newline_list` -/
def sOf : List Pend → Nat
  | [] => 8
  | _ :: _ => 195

/-- the stack of pending segments (most recent first) -/
def pstack : List Pend → Stack SVal
  | [] => []
  | p :: r => ⟨136, p.t3, .none⟩ :: ⟨64, p.t2, .tok p.bar⟩ :: ⟨sOf r, p.t1, .nodes [p.n]⟩ :: pstack r

/-- the flat list the unwinding builds -/
def flat : List Pend → List Node → List Node
  | [], acc => acc
  | p :: r, acc => flat r ([p.n] ++ [Node.pipe (p.bar.lexpos, p.bar.endlexpos) p.bar.valueStr] ++ acc)

theorem goto_pstack (r : List Pend) : Tab.T.goto (topState (pstack r)) 95 = some (sOf r) := by
  cases r with
  | nil => exact Tab.g0_95
  | cons p r' => exact Tab.g136_95

theorem sOf_ne0 (r : List Pend) : (sOf r == 0) = false := by cases r <;> rfl
theorem sOf_dflt (r : List Pend) : Tab.T.dflt (sOf r) = none := by
  cases r with
  | nil => exact Tab.d8
  | cons _ _ => exact Tab.d195
theorem sOf_bar (r : List Pend) : Tab.T.action (sOf r) 52 = some (.shift 64) := by
  cases r with
  | nil => exact Tab.a8b
  | cons _ _ => exact Tab.a195b

theorem base136 : BaseW 136 := ⟨Tab.g136_63, Tab.g136_65⟩

section
variable {np : NestedParse} {L : Str} {adn : Bool} {P : Res SVal → Local → Tape → Prop}

/-- **unwinding** at the end of the line: one `p_pipeline` reduction per pending segment -/
theorem unwind {l : Local} {Tp : Tape} {term : Token} {nl : Nat} {cons : List Nat} {f' : Nat} :
    ∀ (pend : List Pend) (acc : List Node) (tr : Tree),
      (∀ tr', Tot (engineLoop np f'
        { stack := [⟨8, tr', .nodes (flat pend acc)⟩], la := some (55, .tok term),
          nlShifted := nl, consumed := cons }) l Tp P) →
      Tot (engineLoop np (f' + pend.length)
        { stack := ⟨sOf pend, tr, .nodes acc⟩ :: pstack pend, la := some (55, .tok term),
          nlShifted := nl, consumed := cons }) l Tp P := by
  intro pend
  induction pend with
  | nil => intro acc tr hk; exact hk tr
  | cons p r ih =>
    intro acc tr hk
    show Tot (engineLoop np ((f' + r.length) + 1) _) _ _ _
    refine Tot.loop_step ?_
    refine R_reduce Tab.d195 rfl Tab.a195n Tab.p161 rfl (goto_pstack r) Tab.f161 ?_
    refine act_pipeline4 ?_
    simp only [Bool.false_eq_true, if_false]
    exact ih _ _ hk

/-- the value of `pipeline_command`: the single command, or the pipeline node over the flat list -/
def mkPipe (s e : Nat) : List Node → Node
  | [n] => n
  | ns => Node.pipeline (s, e) ns

/-- from `simple_list` (state 2) with NEWLINE in hand: shift, two default reductions, accept -/
theorem run_tail2 {l : Local} {Tp : Tape} {term : Token} {n : Node} {tr : Tree} {nl f : Nat}
    {cons : List Nat} (hc : l.ps.cmdsubst = false) (h : ∀ r l' T', ResIs n r → P r l' T') :
    Tot (engineLoop np (f + 3)
      { stack := [⟨2, tr, .node n⟩], la := some (55, .tok term), nlShifted := nl,
        consumed := cons }) l Tp P := by
  refine Tot.loop_step ?_
  refine R_shift Tab.d2 rfl Tab.a2n ?_
  refine Tot.loop_step ?_
  refine R_dflt Tab.d57 Tab.p141 rfl Tab.g2_89 Tab.f141 ?_
  refine act_terminator ?_
  simp only [Bool.false_eq_true, if_false]
  refine Tot.loop_step ?_
  refine R_dflt Tab.d56 Tab.p1 rfl Tab.g0_60 Tab.f1 ?_
  refine act_inputunit hc ?_
  simp only [if_true]
  exact h _ _ _ rfl

/-- from `pipeline` (state 8) at the bottom with NEWLINE in hand -/
theorem run_from8 {l : Local} {Tp : Tape} {term : Token} {FL : List Node} {pF pL : Span}
    {nF nL : List Node} {tr : Tree} {nl f : Nat} {cons : List Nat}
    (hl : POK l) (hh : FL.head? = some (.command pF nF)) (hla : FL.getLast? = some (.command pL nL))
    (h : ∀ r l' T', ResIs (mkPipe pF.1 pL.2 FL) r → P r l' T') :
    Tot (engineLoop np (f + 6)
      { stack := [⟨8, tr, .nodes FL⟩], la := some (55, .tok term), nlShifted := nl,
        consumed := cons }) l Tp P := by
  have rest : ∀ (n : Node) (tr2 : Tree), (∀ r l' T', ResIs n r → P r l' T') →
      Tot (engineLoop np (f + 5)
        { stack := [⟨7, tr2, .node n⟩], la := some (55, .tok term), nlShifted := nl,
          consumed := cons }) l Tp P := by
    intro n tr2 hn
    refine Tot.loop_step ?_
    refine R_reduce Tab.d7 rfl Tab.a7n Tab.p155 rfl Tab.g0_93 Tab.f155 ?_
    refine act_simple_list1_1 ?_
    simp only [Bool.false_eq_true, if_false]
    refine Tot.loop_step ?_
    refine R_reduce Tab.d6 rfl Tab.a6n Tab.p148 rfl Tab.g0_92 Tab.f148 ?_
    refine act_simple_list_1 hl.wok.redir hl.cs ?_
    simp only [Bool.false_eq_true, if_false]
    exact run_tail2 hl.cs hn
  refine Tot.loop_step ?_
  refine R_reduce Tab.d8 rfl Tab.a8n Tab.p156 rfl Tab.g0_94 Tab.f156 ?_
  match FL, hh, hla, h with
  | [], hh, _, _ => cases hh
  | [n], _, _, h =>
    refine act_pipeline_command1 ?_
    simp only [Bool.false_eq_true, if_false]
    exact rest n _ (by simpa [mkPipe] using h)
  | x :: y :: rs, hh, hla, h =>
    refine act_pipeline_command_many hh hla ?_
    simp only [Bool.false_eq_true, if_false]
    exact rest _ _ (by simpa [mkPipe] using h)

theorem flat_last : ∀ (pend : List Pend) (X : List Node), X ≠ [] →
    (flat pend X).getLast? = X.getLast?
  | [], _, _ => rfl
  | p :: r, X, hX => by
    rw [flat, flat_last r _ (by simp)]
    cases X with
    | nil => exact absurd rfl hX
    | cons x xs => simp [List.getLast?_cons_cons]

/-- the text `| c₂ | c₃ …` -/
def prestText : List SCmd → Str
  | [] => []
  | c :: cs => '|' :: (c.text ++ prestText cs)

/-- the nodes of `| c₂ | c₃ …`, the first `|` at offset `a` -/
def prestNodes (a : Nat) : List SCmd → List Node
  | [] => []
  | c :: cs =>
    Node.pipe (a, a + 1) ['|'] :: c.node (a + 1) :: prestNodes (a + 1 + c.text.length) cs

def pcost (k : Nat) : List SCmd → Nat
  | [] => k + 6
  | c :: cs => 3 * c.items.length + 8 + pcost (k + 1) cs

theorem text_headP {c : SCmd} (hc : c.OK) :
    ∃ d r, c.text = d :: r ∧ d ≠ '|' ∧ d ≠ '&' ∧ d ≠ '\\' := by
  unfold SCmd.text lineText
  cases hl : c.lead with
  | nil =>
    cases hw : c.w1 with
    | nil => exact absurd hw hc.w1.1
    | cons d r =>
      have hd : plainChar d = true := hc.w1.2 d (by rw [hw]; exact List.mem_cons_self ..)
      exact ⟨d, r ++ (spellI c.items ++ c.trail), by simp, plain_ne' (by decide) hd,
        plain_ne' (by decide) hd, plain_ne' (by decide) hd⟩
  | cons d r =>
    have hd : shellblank d = true := hc.lead d (by rw [hl]; exact List.mem_cons_self ..)
    refine ⟨d, r ++ (c.w1 ++ (spellI c.items ++ c.trail)), by simp, ?_, ?_, blank_ne_bs hd⟩
    · intro h; subst h; revert hd; decide
    · intro h; subst h; revert hd; decide

theorem fetchTerm_bar (hlen : L.length + 2 ≤ 1073741824) {trail rest : Str} {d : Char}
    (htrail : Blank trail) {e : Nat} (hL : L.drop e = trail ++ '|' :: d :: rest)
    (hd1 : d ≠ '|') (hd2 : d ≠ '&') (hd3 : d ≠ '\\') :
    FetchTerm L adn (barTok (e + trail.length)) e (e + trail.length + 1) := by
  intro l0 Q hl0 hc hQ
  exact tot_nextToken_bar hl0.wok hl0.dp htrail hL hd1 hd2 hd3 hlen (hQ _ (hl0.afterNL hc _) rfl)

theorem termWNL : TermW 55 := termNL.w
theorem termWBAR : TermW 52 := ⟨Tab.a29b, Tab.a17b, Tab.a75b, Tab.a74b⟩

/-- what follows a command of a pipeline: trailing blanks, then NEWLINE (last command) or `|` -/
theorem next_termP (hlen : L.length + 2 ≤ 1073741824) (cs : List SCmd) (hcs : ∀ c ∈ cs, c.OK)
    {trail nlr : Str} (htrail : Blank trail) {e : Nat}
    (hL : L.drop e = trail ++ (prestText cs ++ '\n' :: nlr)) :
    ∃ (ts : Nat) (term : Token) (b0 : Char) (r0 : Str), TermW ts ∧ symOfTok term = ts ∧
      Tab.T.action 13 ts = some (.reduce 58) ∧ Tab.T.action 11 ts = some (.reduce 163) ∧
      trail ++ (prestText cs ++ '\n' :: nlr) = b0 :: r0 ∧ endChar b0 = true ∧
      FetchTerm L adn term e (e + trail.length + 1) ∧ histOK term = true ∧
      (cs = [] → ts = 55) ∧
      (∀ c cs', cs = c :: cs' → ts = 52 ∧ term = barTok (e + trail.length) ∧
          L.drop (e + trail.length + 1) = c.text ++ (prestText cs' ++ '\n' :: nlr)) := by
  have hdrop : ∀ x r, L.drop e = trail ++ x :: r → L.drop (e + trail.length + 1) = r := by
    intro x r h
    have := congrArg (List.drop (trail.length + 1)) h
    rw [List.drop_drop] at this
    rw [Nat.add_assoc, this]
    simp
  cases cs with
  | nil =>
    have hL' : L.drop e = trail ++ '\n' :: nlr := by simpa [prestText] using hL
    obtain ⟨b0, r0, h0, hb0⟩ := head_app htrail (x := '\n') (by decide) nlr
    exact ⟨55, nlTok (e + trail.length), b0, r0, termWNL, symOfTok_nl _, Tab.a13n, Tab.a11n,
      by simpa [prestText] using h0, hb0, fetchTerm_nl hlen htrail hL', rfl, fun _ => rfl,
      fun c cs' h => by cases h⟩
  | cons c cs' =>
    obtain ⟨d, r, hd, hd1, hd2, hd3⟩ := text_headP (hcs c (List.mem_cons_self ..))
    have hL' : L.drop e = trail ++ '|' :: d :: (r ++ (prestText cs' ++ '\n' :: nlr)) := by
      rw [hL]; simp [prestText, hd]
    have hnext : L.drop (e + trail.length + 1) = c.text ++ (prestText cs' ++ '\n' :: nlr) := by
      rw [hdrop '|' _ hL', hd]; simp
    obtain ⟨b0, r0, h0, hb0⟩ := head_app htrail (x := '|') (by decide)
      (d :: (r ++ (prestText cs' ++ '\n' :: nlr)))
    refine ⟨52, barTok (e + trail.length), b0, r0, termWBAR, Tab.symBAR, Tab.a13b, Tab.a11b, ?_, hb0,
      fetchTerm_bar hlen htrail hL' hd1 hd2 hd3, rfl, fun h => (by cases h), ?_⟩
    · rw [← h0]; simp [prestText, hd]
    · intro c2 cs2 h
      cases h
      exact ⟨rfl, rfl, hnext⟩

/-- **the commands after the first of a pipeline**: the current command's `pipeline` on top of
    the pending segments, the terminator in hand -/
theorem pipe_fwd (hlen : L.length + 2 ≤ 1073741824) {nlr : Str} {pF : Span} {nF : List Node} :
    ∀ (cs : List SCmd) (pend : List Pend) (pk : Span) (nk : List Node) (ts : Nat) (term : Token)
      (l : Local) (idx a f nl : Nat) (cons : List Nat) (tr : Tree),
      (∀ c ∈ cs, c.OK) → POK l → l.currentToken = term → histOK term = true → symOfTok term = ts →
      (cs = [] → ts = 55) →
      (∀ c cs', cs = c :: cs' → ts = 52 ∧ term = barTok a ∧ idx = a + 1 ∧
        L.drop idx = c.text ++ (prestText cs' ++ '\n' :: nlr)) →
      (∀ X, (flat pend (Node.command pk nk :: X)).head? = some (Node.command pF nF)) →
      (∀ r l' T', ResIs (mkPipe pF.1 (lastEnd pk.2 a cs)
        (flat pend (Node.command pk nk :: prestNodes a cs))) r → P r l' T') →
      Tot (engineLoop np (f + pcost pend.length cs)
        { stack := ⟨sOf pend, tr, .nodes [Node.command pk nk]⟩ :: pstack pend,
          la := some (ts, .tok term), nlShifted := nl, consumed := cons }) l ⟨L, idx, adn⟩ P := by
  intro cs
  induction cs with
  | nil =>
    intro pend pk nk ts term l idx a f nl cons tr hcs hl hcur hhist hts hnil hcons hhd h
    have := hnil rfl
    subst this
    have e : f + pcost pend.length [] = (f + 6) + pend.length := by simp only [pcost]; omega
    rw [e]
    refine unwind pend _ tr ?_
    intro tr'
    refine run_from8 (pF := pF) (nF := nF) (pL := pk) (nL := nk) hl (hhd []) ?_ ?_
    · rw [flat_last pend _ (by simp)]; rfl
    · intro r l' T' hr
      exact h r l' T' (by simpa [prestNodes, lastEnd] using hr)
  | cons c cs' ih =>
    intro pend pk nk ts term l idx a f nl cons tr hcs hl hcur hhist hts hnil hcons hhd h
    obtain ⟨rfl, rfl, rfl, hLc⟩ := hcons c cs' rfl
    have hc := hcs c (List.mem_cons_self ..)
    have hcs' : ∀ x ∈ cs', x.OK := fun x hx => hcs x (List.mem_cons_of_mem _ hx)
    have hLend := drop_text_end hLc
    obtain ⟨ts', term', b0, r0, hT', hts', h13, h11, hR, hb0, hfetch', hhist', hnil', hcons'⟩ :=
      next_termP (adn := adn) hlen cs' hcs' hc.trail hLend
    obtain ⟨bb, r', hbr, hb⟩ := after_word' c.items hc.items hR hb0
    have hLw := drop_text hLc
    have hL1 : L.drop (a + 1) = c.lead ++ c.w1 ++ bb :: r' := by
      rw [hLc, ← hbr]; simp [SCmd.text, lineText]
    have e : f + pcost pend.length (c :: cs') =
        ((f + pcost (pend.length + 1) cs' + 2) + (3 * c.items.length + 2)) + 4 := by
      simp only [pcost]; omega
    rw [e]
    have hcurh : histOK l.currentToken = true := by rw [hcur]; rfl
    -- shift `|`
    refine Tot.loop_step ?_
    refine R_shift (sOf_dflt pend) (sOf_ne0 pend) (sOf_bar pend) ?_
    -- fetch the first word of the next command; `newline_list` is empty
    refine Tot.loop_step ?_
    refine R_fetch Tab.d64 ?_
    refine tot_nextToken_word hl.wok hcurh hl.hist hc.w1 hb hc.lead hL1 hlen (fun _ => hc.nr) ?_
    rw [symOfTok_word]
    refine R_reduce Tab.d64 rfl Tab.a64w Tab.p167 rfl Tab.g64_97 Tab.f167 ?_
    refine act_empty ?_
    simp only [Bool.false_eq_true, if_false]
    refine Tot.loop_step ?_
    refine R_reduce Tab.d81 rfl Tab.a81w Tab.p146 rfl Tab.g64_91 Tab.f146 ?_
    refine act_newline_list ?_
    simp only [Bool.false_eq_true, if_false]
    refine Tot.loop_step ?_
    refine R_shift Tab.d136 rfl Tab.a136w ?_
    -- the command
    refine cmd_run13 (b := 136) rfl base136 hT' hts' hlen hR hb0 hc.items hc.w1
      (hl.afterTok hcurh _) rfl hLw hfetch' rfl ?_
    intro tr' nl' cons' l' hl' hcur'
    obtain ⟨p2, s2, hlast, hp2⟩ := words_last (a + 1 + c.lead.length)
      (a + 1 + c.lead.length + c.w1.length) c.w1 c.items
    refine Tot.loop_step ?_
    refine R_reduce Tab.d13 rfl h13 Tab.p58 rfl Tab.g136_66 Tab.f58 ?_
    refine act_command (p1 := (a + 1 + c.lead.length, a + 1 + c.lead.length + c.w1.length))
      (s1 := c.w1) (q1 := []) rfl hlast ?_
    simp only [Bool.false_eq_true, if_false]
    refine Tot.loop_step ?_
    refine R_reduce Tab.d11 rfl h11 Tab.p163 rfl Tab.g136_95 Tab.f163 ?_
    refine act_pipeline1 ?_
    simp only [Bool.false_eq_true, if_false]
    have ea : c.endPos (a + 1) + c.trail.length = a + 1 + c.text.length := endPos_trail c (a + 1)
    refine ih (⟨Node.command pk nk, barTok a, tr, _, _⟩ :: pend)
      (a + 1 + c.lead.length, p2.2)
      (Node.word (a + 1 + c.lead.length, a + 1 + c.lead.length + c.w1.length) c.w1 [] ::
        nodesI (a + 1 + c.lead.length + c.w1.length) c.items)
      ts' term' l' (c.endPos (a + 1) + c.trail.length + 1)
      (c.endPos (a + 1) + c.trail.length) f nl' cons' _ hcs' hl' hcur' hhist' hts' hnil' ?_ ?_ ?_
    · intro c2 cs2 h2
      obtain ⟨h21, h22, h23⟩ := hcons' c2 cs2 h2
      exact ⟨h21, h22, rfl, h23⟩
    · intro X
      have := hhd (Node.pipe ((barTok a).lexpos, (barTok a).endlexpos) (barTok a).valueStr ::
        Node.command (a + 1 + c.lead.length, p2.2)
          (Node.word (a + 1 + c.lead.length, a + 1 + c.lead.length + c.w1.length) c.w1 [] ::
            nodesI (a + 1 + c.lead.length + c.w1.length) c.items) :: X)
      simpa [flat] using this
    · intro r l'' T'' hr
      refine h r l'' T'' ?_
      rw [ea, hp2] at hr
      simpa [prestNodes, lastEnd, flat, SCmd.node, cmdNode, SCmd.endPos, barTok, Token.lexpos,
        Token.endlexpos, Token.valueStr] using hr

/-- **the whole pipeline line `c₁ | c₂ | … | cₙ`** (n ≥ 1) from an empty stack -/
theorem run_pipe (hlen : L.length + 2 ≤ 1073741824) {nlr : Str} {c1 : SCmd} {cs : List SCmd}
    {l : Local} {i f nl0 : Nat} {cons0 : List Nat} (hc1 : c1.OK) (hcs : ∀ c ∈ cs, c.OK) (hl : POK l)
    (hcur : histOK l.currentToken = true)
    (hL : L.drop i = c1.text ++ (prestText cs ++ '\n' :: nlr))
    (h : ∀ r l' T', ResIs (mkPipe (i + c1.lead.length) (lastEnd (c1.endPos i) (i + c1.text.length) cs)
        (c1.node i :: prestNodes (i + c1.text.length) cs)) r → P r l' T') :
    Tot (engineLoop np (((f + pcost 0 cs) + 2) + (3 * c1.items.length + 2) + 1)
      { stack := [], la := none, nlShifted := nl0, consumed := cons0 }) l ⟨L, i, adn⟩ P := by
  have hLend := drop_text_end hL
  obtain ⟨ts', term', b0, r0, hT', hts', h13, h11, hR, hb0, hfetch', hhist', hnil', hcons'⟩ :=
    next_termP (adn := adn) hlen cs hcs hc1.trail hLend
  obtain ⟨bb, r', hbr, hb⟩ := after_word' c1.items hc1.items hR hb0
  have hLw := drop_text hL
  have hL1 : L.drop i = c1.lead ++ c1.w1 ++ bb :: r' := by
    rw [hL, ← hbr]; simp [SCmd.text, lineText]
  refine Tot.loop_step ?_
  refine R_fetch0 ?_
  refine tot_nextToken_word hl.wok hcur hl.hist hc1.w1 hb hc1.lead hL1 hlen (fun _ => hc1.nr) ?_
  rw [symOfTok_word]
  refine R_shift0 ?_
  refine cmd_run13 (base := []) (b := 0) rfl base0.w hT' hts' hlen hR hb0 hc1.items hc1.w1
    (hl.afterTok hcur _) rfl hLw hfetch' rfl ?_
  intro tr' nl' cons' l' hl' hcur'
  obtain ⟨p2, s2, hlast, hp2⟩ := words_last (i + c1.lead.length)
    (i + c1.lead.length + c1.w1.length) c1.w1 c1.items
  refine Tot.loop_step ?_
  refine R_reduce Tab.d13 rfl h13 Tab.p58 rfl Tab.g0_66 Tab.f58 ?_
  refine act_command (p1 := (i + c1.lead.length, i + c1.lead.length + c1.w1.length))
    (s1 := c1.w1) (q1 := []) rfl hlast ?_
  simp only [Bool.false_eq_true, if_false]
  refine Tot.loop_step ?_
  refine R_reduce Tab.d11 rfl h11 Tab.p163 rfl Tab.g0_95 Tab.f163 ?_
  refine act_pipeline1 ?_
  simp only [Bool.false_eq_true, if_false]
  have ea : c1.endPos i + c1.trail.length = i + c1.text.length := endPos_trail c1 i
  refine pipe_fwd (nlr := nlr) (pF := (i + c1.lead.length, p2.2)) hlen cs [] (i + c1.lead.length, p2.2) _
    ts' term' l' (c1.endPos i + c1.trail.length + 1) (c1.endPos i + c1.trail.length) f nl' cons' _
    hcs hl' hcur' hhist' hts' hnil' ?_ (fun X => rfl) ?_
  · intro c2 cs2 h2
    obtain ⟨h21, h22, h23⟩ := hcons' c2 cs2 h2
    exact ⟨h21, h22, rfl, h23⟩
  · intro r l'' T'' hr
    refine h r l'' T'' ?_
    rw [ea, hp2] at hr
    simpa [flat, SCmd.node, cmdNode, SCmd.endPos] using hr

end

end Bashlex.C02
