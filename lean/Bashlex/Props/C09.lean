/-
  C09 / C08 (token level): acceptance by the LR engine with the tables bashlex really uses is
  sound w.r.t. the declared grammar, for every token source and every family of semantic
  actions; the engine never fails internally.
-/
import Bashlex.LR.Real
import Bashlex.Model.Parse

namespace Bashlex.Props
open Bashlex Bashlex.LR

/-- the model's numbering of terminals is the one of the regenerated tables -/
theorem termNames_agree : Gen.termNames = ["$end", "error"] ++ TokType.all.map TokType.name := by
  decide

/-- every production of the regenerated grammar is mapped to a modelled action function -/
def modelledActions : List String :=
  ["p_inputunit", "p_word_list", "p_redirection_heredoc", "p_redirection", "p_simple_command_element",
   "p_redirection_list", "p_simple_command", "p_command", "p_shell_command", "p_for_command",
   "p_arith_for_command", "p_select_command", "p_case_command", "p_function_def", "p_function_body",
   "p_subshell", "p_group_command", "p_coproc", "p_if_command", "p_arith_command", "p_cond_command",
   "p_elif_clause", "p_case_clause", "p_pattern_list", "p_case_clause_sequence", "p_pattern", "p_list",
   "p_compound_list", "p_list0", "p_list1", "p_simple_list_terminator", "p_list_terminator",
   "p_newline_list", "p_simple_list", "p_simple_list1", "p_pipeline_command", "p_pipeline",
   "p_timespec", "p_empty"]

theorem actions_covered : (Gen.prodFuncs.drop 1).all (fun f => modelledActions.contains f) = true := by
  decide

/-- **C09_sound** (⇒ direction of C09; C08 at token level; `lr_safe`): with the real tables, for
    every token source `H.next` and all semantic actions `H.act` (which may accept early), a
    normal return carries a derivation tree that is valid for the declared grammar and whose
    yield is what was consumed after the leading NEWLINEs (up to a prefix still on the stack);
    the engine itself raises nothing but out-of-fuel. -/
theorem C09_sound {V : Type} (H : Hooks V) {VI : Nat → V → Prop} {E : Exn → Prop}
    (hH : HooksRaise realTables H VI E) (fuel : Nat) :
    M.Sat (run realTables H fuel) (Good realTables VI) (EngineExn E) :=
  run_sound real_WF H hH fuel

end Bashlex.Props
