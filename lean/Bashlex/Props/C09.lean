/-
  C09 / C08 (token level): acceptance by the LR engine with the tables bashlex really uses is
  sound w.r.t. the declared grammar, for every token source and every family of semantic
  actions; the engine never fails internally.
-/
import Bashlex.LR.Real
import Bashlex.LR.Exact
import Bashlex.Model.Parse

namespace Bashlex.Props
open Bashlex Bashlex.LR

/-- the model's numbering of terminals is the one of the regenerated tables -/
theorem termNames_agree : Gen.termNames = ["$end", "error"] ++ TokType.all.map TokType.name := by
  decide

/-- every production of the regenerated grammar is mapped to a modelled action function -/
def modelledActions : List String :=
  ["p_inputunit", "p_word_list", "p_redirection_heredoc", "p_redirection", "p_simple_command_element",
   "p_redirection_list", "p_simple_command", "p_command", "p_shell_command", "p_for_command",
   "p_arith_for_command", "p_select_command", "p_case_command", "p_function_def", "p_function_body",
   "p_subshell", "p_group_command", "p_coproc", "p_if_command", "p_arith_command", "p_cond_command",
   "p_elif_clause", "p_case_clause", "p_pattern_list", "p_case_clause_sequence", "p_pattern", "p_list",
   "p_compound_list", "p_list0", "p_list1", "p_simple_list_terminator", "p_list_terminator",
   "p_newline_list", "p_simple_list", "p_simple_list1", "p_pipeline_command", "p_pipeline",
   "p_timespec", "p_empty"]

theorem actions_covered : (Gen.prodFuncs.drop 1).all (fun f => modelledActions.contains f) = true := by
  decide

/-- **C09_sound** (⇒ direction of C09; C08 at token level; `lr_safe`): with the real tables, for
    every token source `H.next` and all semantic actions `H.act` (which may accept early), a
    normal return carries a derivation tree that is valid for the declared grammar and whose
    yield is what was consumed after the leading NEWLINEs (up to a prefix still on the stack);
    the engine itself raises nothing but out-of-fuel. -/
theorem C09_sound {V : Type} (H : Hooks V) {VI : Nat → V → Prop} {E : Exn → Prop}
    (hH : HooksRaise realTables H VI E) (fuel : Nat) :
    M.Sat (run realTables H fuel) (Good realTables VI) (EngineExn E) :=
  run_sound real_WF H hH fuel

/-- productions whose action function may accept have `inputunit` / `simple_list` on the left -/
theorem accepting_lhs :
    ((Gen.prodFuncs.zip Gen.prodTable).all fun (f, (lhs, _)) =>
      !acceptingActions.contains f || acceptSyms.contains lhs) = true := by decide +kernel

theorem action_accepts_only (np : NestedParse) (fname : String) (args : List SVal) :
    M.Sat (action np fname args) (fun r => r.2 = true → acceptingActions.contains fname = true)
      (fun _ => True) := by
  unfold action
  refine M.Sat.bind (M.Sat.trivial _) ?_
  intro r _
  by_cases h : (r.2 && !acceptingActions.contains fname) = true
  · rw [if_pos h]; exact M.Sat.foreign True.intro
  · rw [if_neg h]
    refine M.Sat.pure ?_
    intro hr
    simp only [Bool.and_eq_true, Bool.not_eq_true', not_and, Bool.not_eq_false] at h
    exact h hr

/-- the real hooks accept only at `inputunit` / `simple_list`, for every nested parser -/
theorem real_accepts_only (np : NestedParse) :
    AcceptsOnly realTables (lrHooks np) (· ∈ acceptSyms) (fun _ => True) := by
  intro p lhs rhs args hprod
  show M.Sat (action np (Gen.prodFuncs.getD p "") args) _ _
  refine (action_accepts_only np _ args).weaken ?_ (fun _ h => h)
  intro r hr hacc
  have hcont := hr hacc
  -- `p` is a production of the table, so `(prodFuncs[p], prodTable[p])` is in the zip
  have hall := accepting_lhs
  simp only [List.all_eq_true] at hall
  have hp' : realTables.prods = Gen.prodTable := rfl
  rw [hp'] at hprod
  have hlt : p < Gen.prodTable.length := by
    rcases Nat.lt_or_ge p Gen.prodTable.length with h | h
    · exact h
    · rw [List.getElem?_eq_none h] at hprod; cases hprod
  have hlen : Gen.prodFuncs.length = Gen.prodTable.length := by decide +kernel
  have hf : Gen.prodFuncs.getD p "" = Gen.prodFuncs[p]'(by omega) := by
    simp [List.getD_eq_getElem?_getD, List.getElem?_eq_getElem (show p < Gen.prodFuncs.length by omega)]
  have hmem : (Gen.prodFuncs[p]'(by omega), (lhs, rhs)) ∈ Gen.prodFuncs.zip Gen.prodTable := by
    rw [List.mem_iff_getElem]
    refine ⟨p, by simp [List.length_zip]; omega, ?_⟩
    simp only [List.getElem_zip]
    have : Gen.prodTable[p] = (lhs, rhs) := by
      rw [List.getElem?_eq_getElem hlt] at hprod; exact Option.some.inj hprod
    rw [this]
  have := hall _ hmem
  simp only [Bool.or_eq_true, Bool.not_eq_true'] at this
  rcases this with h | h
  · rw [hf] at hcont; rw [hcont] at h; cases h
  · simpa using h

/-- **C09_exact**: with the real tables and the real semantic actions, for every token source
    `next` (and every nested parser), an accepted run has consumed exactly: leading NEWLINEs,
    then the yield of the returned derivation tree — nothing else. -/
theorem C09_exact (np : NestedParse) (next : M (Nat × SVal)) (fuel : Nat) :
    M.Sat (run realTables { (lrHooks np) with next := next } fuel)
      (GoodExact realTables (fun _ _ => True)) (fun _ => True) := by
  have hH : HooksRaise realTables { (lrHooks np) with next := next } (fun _ _ => True) (fun _ => True) :=
    ⟨(M.Sat.trivial _).weaken (fun _ _ => True.intro) (fun _ h => h),
     fun _ _ _ _ _ _ => (M.Sat.trivial _).weaken (fun _ _ => True.intro) (fun _ h => h),
     fun _ => M.Sat.trivial _⟩
  have hA : AcceptsOnly realTables { (lrHooks np) with next := next } (· ∈ acceptSyms) (fun _ => True) :=
    real_accepts_only np
  exact (run_sound_exact real_WF real_AccOK _ hH hA fuel).weaken (fun _ h => h) (fun _ _ => True.intro)

end Bashlex.Props
