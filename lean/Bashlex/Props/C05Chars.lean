/-
  Property C05, the CHARACTER-LEVEL half, at model level, for the real tokenizer, without
  hypothesis on the token source:
  "… Every character outside all leaf spans is a blank, a newline, a comment or a line
   continuation …"

  `C05_chars_checked`: under the decidable per-input condition `C03.rootEndsChecked s o` (as in
  `Props/C05Checked.lean`) and `|s| + 1 < 2^30` (the model's loop fuel, see
  `Props/C05/TokGapsProof.lean`), every part `parse s o` returns is a parser run's tree `n` moved by
  `k`; `L0 = s[k:]` plus the newline `tokenizer.__init__` appends is the line that run's tokenizer
  reads, and there are: the tokens `ts` the run consumed, at most one look-ahead token `la`, a
  cursor `B` and the run's redirect store `st`, such that
    * every consumed token is a dropped NEWLINE, a `time` token (D19) or lies inside a leaf of `n`
      (`C05_total_tokens_in_leaves_checked`);
    * `B` is at or behind the end of every delivered token (cut at the end of the line), and at
      the end of the line if the look-ahead is the EOF token: the statement is about the whole
      text the run's tokenizer has read;
    * **every position `p < B` of `L0`** lies inside a leaf span of `n`, or is layout
      (`PosLay L0 p`, spelled out per character by `posLay_charLay`: blank, tab, newline, the
      backslash of a backslash-newline pair, or inside a comment `#…` up to its newline), or
      -- the exclusions, all explicit --
        - lies inside a consumed `time` / `-p` / `--` token (D19: with a `time` prefix the parser
          drops these tokens from the tree; witness `time a`:
          `#eval Spec.coverOK "time a".toList …` reports `gap-not-layout`),
        - lies inside the look-ahead token (read, not consumed: it is the first token of the
          next part's run -- the loop of `parse` restarts at `max (nextIndex part) (index+1)` and
          the text up to the next part is the next run's leading `Skip` / dropped NEWLINEs),
        - lies inside a here-document body the tokenizer gathered (recorded in the redirect
          store `st`).  Bodies attached to redirect nodes of the tree are leaves
          (`Spec.leaves` of a redirect); that EVERY cell of the store belongs to a redirect of
          the returned tree -- a conservation fact about the semantic actions, not about the
          tokenizer -- is NOT proved here.  By evaluation (`reportBodies`, `TGValidate.lean`)
          every body of the store lies inside a leaf of the returned tree on all 1234 inputs
          tried, D19 inputs included.
  No exclusion is needed for D31 / D32 (`a<\⏎ b`, `a;\`): the characters `_ungetc` could not give
  back lie INSIDE the span of the token before (C04's residues), not between tokens; none for D11
  (a here-document inside a compound command: the body is gathered one line late AND parsed as
  commands -- the leaves overlap, `leaf-overlap+heredoc-body` in `Spec.coverOK`; overlapping
  leaves leave no character uncovered).
  The statement does not go through `Spec.coverOK`'s `Array.qsort`: it is about positions.
  Link to the specification: `skip_isLayout`: what one call of `token()` skips is layout in the
  sense of `Spec.isLayout` (the predicate `Spec.gapsOK` applies to the gaps); the algebra that
  would glue the segments of a gap (skipped runs, dropped NEWLINE tokens, gathered regions) into
  one `isLayout` text, and `Array.qsort`, are not done.
-/
import Bashlex.Props.C05.TokGapsProof

namespace Bashlex.C05
open Bashlex Bashlex.Spec Bashlex.Node Bashlex.M Bashlex.LR Bashlex.C12 Bashlex.C03
  Bashlex.C03.Tok Bashlex.C10 Bashlex.C11 Bashlex.C05.TG
set_option linter.unusedSimpArgs false
set_option linter.unusedVariables false

/-! ## the nested-parser contract for the pinned invariant -/

section
attribute [local instance] C16.stdEnvRel

/-- the checked nested parser leaves the caller's tape and store alone -/
theorem npK_frame (d : Nat) (s : Str) (b : Bool) (l : Local) (e : Env) :
    match M.run (npK true (parserRunK d) s b) l e with
    | (.ok (_, l'), e') => tapeOf l' e' = tapeOf l e ∧ l'.store = l.store
    | (.error _, _) => True := by
  rw [run_npK]
  rcases hr : M.run (parserRunK d) (C16.nestedInit l s b) e with ⟨r, e'⟩
  cases r with
  | error x => exact True.intro
  | ok v =>
    obtain ⟨r, l'⟩ := v
    simp only []
    by_cases hc : rootOKb s r = true
    · rw [if_pos hc]
      obtain ⟨r₂, l₂', e₂', h2, hr2, hl2, hE2⟩ :=
        parserRunK_plain d _ _ e e rfl (C16.EnvR.refl e) r l' e' hr
      subst hr2; subst hl2
      have hE : C16.EnvR e e₂' := C16.nestedEnv_thm d (C16.nestedInit l s b) e r l' e₂' rfl rfl h2
      have hE' : C16.EnvR e e' := hE.trans hE2.symm
      refine ⟨?_, rfl⟩
      rw [tapeOf_env hE'.1.symm]; rfl
    · rw [if_neg hc]; exact True.intro

theorem npSpans_GL (L0 : Str) (tr : List Token) (d : Nat) :
    NPSpans (TLs (TLogGL L0) tr) (npK true (parserRunK d)) := by
  intro s b len F st
  rintro l e ⟨htl, hst⟩
  obtain ⟨⟨⟨hti, hdel⟩, hcov⟩, hsorted⟩ := htl
  have h := npSpans_npK d (parserRunK_spans d) s b len F st l e ⟨hti, hst⟩
  have hf := npK_frame d s b l e
  revert h hf
  rcases M.run (npK true (parserRunK d) s b) l e with ⟨r, e'⟩
  cases r with
  | error x => intro _ _; exact True.intro
  | ok v =>
    obtain ⟨r, l'⟩ := v
    rintro ⟨⟨h1, h2⟩, h3⟩ ⟨f1, f2⟩
    refine ⟨⟨⟨⟨⟨h1, hdel⟩, fun hlen => ?_⟩, hsorted⟩, h2⟩, h3⟩
    exact (covOK_covL L0).same (hcov hlen) (by rw [f1]) (Or.inl ⟨by rw [f1], rfl⟩)
      (fun p h => by rw [f2]; exact h) (fun t ht => ht)

end

/-- the invariant of the run over `s0` -/
def TLrun (s0 : Str) : List Token → Nat → Nat → Local → Env → Prop :=
  TLs (TLogGL (Tape.ofInput s0).line)

theorem tokLogC_run (s0 : Str) : TokLogC (TLrun s0) := (tokLogGL _).sorted

theorem tlrun_init (s0 : Str) (l : Local) (e : Env) (hi : InitState s0 l e) :
    TLrun s0 [] s0.length 0 l e :=
  ⟨tokLogGL_init s0 l e hi, ⟨⟨List.Pairwise.nil, fun t ht => by cases ht⟩, fun t ht => by cases ht⟩⟩

/-- the parts of `parse`, each with the pinned invariant of its run -/
theorem C05_parts_pinned (s : Str) (o : Opts) (parts : List Node)
    (hc : C03.rootEndsChecked s o = true) (h : (parse s o).1 = .parts parts) :
    PartsC TLrun s 0 parts :=
  parseK_leavesC tokLogC_run (fun s0 tr d => npSpans_GL _ tr d) tlrun_init s o parts
    (C03.parseK_of_checked hc h)

/-! ## the statement per position -/

/-- position `p` lies inside a leaf span -/
def InLeafPos (ls : List (Span × Bool)) (p : Nat) : Prop := ∃ x ∈ ls, x.1.1 ≤ p ∧ p < x.1.2

/-- position `p` lies inside the span of a token of `ts` -/
def InToks (ts : List Token) (p : Nat) : Prop := ∃ t ∈ ts, t.lexpos ≤ p ∧ p < t.endlexpos

/-- what is known of one run, character level (see the header) -/
def CharsOK (L0 : Str) (n : Node) : Prop :=
  ∃ (ts la : List Token) (B : Nat) (st : List RedirCell),
    la.length ≤ 1 ∧ TokSorted ts ∧
    (∀ t ∈ ts, Droppable t ∨ IsTimeTok t ∨ InLeaf t (Spec.leaves n)) ∧
    (∀ t ∈ ts ++ la, t.ttype ≠ some .EOF → min t.endlexpos L0.length ≤ B) ∧
    ((∃ t ∈ la, t.pos = none) → L0.length ≤ B) ∧
    ∀ p, p < B → p < L0.length →
      InLeafPos (Spec.leaves n) p ∨ PosLay L0 p ∨
      (∃ t ∈ ts, IsTimeTok t ∧ t.lexpos ≤ p ∧ p < t.endlexpos) ∨ InToks la p ∨ InBody st p

theorem nn_not_droppable {t : Token} (h : NN t) : ¬ Droppable t := by
  obtain ⟨ty, h1, h2⟩ := h
  rintro (hd | hd)
  · rw [h1] at hd; cases hd; exact h2.1 rfl
  · rw [h1] at hd; cases hd

/-- one run -/
theorem runOK_chars {s0 : Str} {n : Node} (hlen : s0.length + 1 < 1073741824)
    (h : RunOK (TLrun s0) s0 n) : CharsOK (Tape.ofInput s0).line n := by
  obtain ⟨_, ts, la, F, l, e, ⟨htl, hsort⟩, hla, hno, hcv⟩ := h
  have hs : TokSorted ts := by
    have := hsort.1
    rw [List.filter_append, filter_noEOF hno] at this
    exact this.append.1
  have hin := token_in_leaf hcv hs
  obtain ⟨⟨hti, hdel⟩, hcov⟩ := htl
  obtain ⟨hline, hcov, heof⟩ := hcov hlen
  refine ⟨ts, la, (tapeOf l e).idx, l.store, hla, hs, hin, ?_, ?_, ?_⟩
  · -- the cursor is at or behind the end of every delivered token
    intro t ht hne
    have hF : t.endlexpos ≤ F := hsort.2 t ht (by simp [notEOF, hne])
    obtain ⟨L, _, _, hc⟩ := hti
    rcases hc with hc | hc
    · obtain ⟨a1, _, _, _, _, _, a7⟩ := hc
      have hL : L = (Tape.ofInput s0).line := by rw [← a1]; exact hline
      rw [hL] at a7
      simp only [Nat.min_def] at a7 ⊢
      split at a7 <;> split <;> omega
    · have hL : L = (Tape.ofInput s0).line := by rw [← hc.1]; exact hline
      have := hc.2.1
      rw [hL] at this
      simp only [Nat.min_def]
      split <;> omega
  · rintro ⟨t, ht, hp⟩
    exact heof ⟨t, List.mem_append_right _ ht, hp⟩
  · intro p hp1 hp2
    have hcp := hcov p hp1 (by rw [hline]; exact hp2)
    rw [hline] at hcp
    rcases hcp with ⟨t, ht, hnn, h1, h2⟩ | hl | hb
    · rcases List.mem_append.mp ht with ht | ht
      · rcases hin t ht with hd | htime | ⟨x, hx, hx1, hx2⟩
        · exact absurd hd (nn_not_droppable hnn)
        · exact Or.inr (Or.inr (Or.inl ⟨t, ht, htime, h1, h2⟩))
        · exact Or.inl ⟨x, hx, by omega, by omega⟩
      · exact Or.inr (Or.inr (Or.inr (Or.inl ⟨t, ht, h1, h2⟩)))
    · exact Or.inr (Or.inl hl)
    · exact Or.inr (Or.inr (Or.inr (Or.inr hb)))

/-- **C05, character level (model level), `parse`, for the real tokenizer, without hypothesis on
    the token source** (see the header) -/
theorem C05_chars_checked (s : Str) (o : Opts) (parts : List Node)
    (hlen : s.length + 1 < 1073741824)
    (hc : C03.rootEndsChecked s o = true) (h : (parse s o).1 = .parts parts) :
    ∀ part ∈ parts, ∃ k n, k ≤ s.length ∧ part = n.shift k ∧
      Spec.leaves part = (Spec.leaves n).map (shL k) ∧
      CharsOK (Tape.ofInput (s.drop k)).line n := by
  intro part hp
  obtain ⟨k, n, _, hk, rfl, hrun⟩ := (C05_parts_pinned s o parts hc h).mem part hp
  refine ⟨k, n, hk, rfl, leaves_shift k n, runOK_chars ?_ hrun⟩
  rw [List.length_drop]; omega

/-! ## layout, per character -/

/-- **position `p` of the line is a layout character**: a blank, a tab, a newline, the backslash
    of a backslash-newline pair, or a character of a comment (`#` … before the next newline) -/
def CharLay (L : Str) (p : Nat) : Prop :=
  L[p]? = some ' ' ∨ L[p]? = some '\t' ∨ L[p]? = some '\n' ∨
  (L[p]? = some '\\' ∧ L[p + 1]? = some '\n') ∨
  ∃ q, q ≤ p ∧ L[q]? = some '#' ∧ ∀ k, q ≤ k → k ≤ p → L[k]? ≠ some '\n'

theorem del_blank_pos : ∀ {s w : Str}, C04.Del s w → (∀ c ∈ w, shellblank c = true) →
    ∀ i, i < s.length →
      (∃ c, s[i]? = some c ∧ shellblank c = true) ∨
      (s[i]? = some '\\' ∧ s[i + 1]? = some '\n') ∨ s[i]? = some '\n' := by
  intro s w h
  induction h with
  | nil => intro _ i hi; simp at hi
  | @keep c s w h ih =>
    intro hw i hi
    cases i with
    | zero => exact Or.inl ⟨c, rfl, hw c List.mem_cons_self⟩
    | succ j =>
      simp only [List.length_cons] at hi
      have := ih (fun x hx => hw x (List.mem_cons_of_mem _ hx)) j (by omega)
      simpa using this
  | @skip s w h ih =>
    intro hw i hi
    cases i with
    | zero => exact Or.inr (Or.inl ⟨rfl, rfl⟩)
    | succ j =>
      cases j with
      | zero => exact Or.inr (Or.inr rfl)
      | succ j =>
        simp only [List.length_cons] at hi
        have := ih hw j (by omega)
        simpa using this

theorem slice_getElem? (L : Str) {a m i : Nat} (h : a + i < m) :
    (Str.slice L a m)[i]? = L[a + i]? := by
  unfold Str.slice
  rw [List.getElem?_drop, List.getElem?_take, if_pos h]

theorem shellblank_cases {c : Char} (h : shellblank c = true) : c = ' ' ∨ c = '\t' := by
  simpa [shellblank] using h

/-- `PosLay`, spelled out -/
theorem posLay_charLay {L : Str} {p : Nat} (h : PosLay L p) : CharLay L p := by
  rcases h with h | ⟨a, b, h1, h2, m, ⟨b1, b2, w, hd, hw⟩, hm⟩
  · exact Or.inr (Or.inr (Or.inl h))
  · by_cases hpm : p < m
    · have hlen : (Str.slice L a m).length = m - a := C04.slice_length L b2
      have := del_blank_pos hd hw (p - a) (by rw [hlen]; omega)
      have e1 : a + (p - a) = p := by omega
      rcases this with ⟨c, hc, hb⟩ | ⟨hc1, hc2⟩ | hc
      · rw [slice_getElem? L (by omega), e1] at hc
        rcases shellblank_cases hb with rfl | rfl
        · exact Or.inl hc
        · exact Or.inr (Or.inl hc)
      · rw [slice_getElem? L (by omega), e1] at hc1
        have hlt : p - a + 1 < (Str.slice L a m).length := by
          apply Classical.byContradiction
          intro hx
          rw [List.getElem?_eq_none (by omega)] at hc2
          cases hc2
        rw [slice_getElem? L (by rw [hlen] at hlt; omega)] at hc2
        have e2 : a + (p - a + 1) = p + 1 := by omega
        rw [e2] at hc2
        exact Or.inr (Or.inr (Or.inr (Or.inl ⟨hc1, hc2⟩)))
      · rw [slice_getElem? L (by omega), e1] at hc
        exact Or.inr (Or.inr (Or.inl hc))
    · rcases hm with rfl | ⟨c1, c2, c3, c4⟩
      · omega
      · exact Or.inr (Or.inr (Or.inr (Or.inr ⟨m, by omega, c2, fun k hk1 hk2 => c3 k hk1 (by omega)⟩)))

/-! ## link to the specification's `isLayout` -/

theorem isLayout_run : ∀ {s w : Str}, C04.Del s w → (∀ c ∈ w, shellblank c = true) →
    ∀ (t : Str) (k : Nat), (∀ fuel, k ≤ fuel → Spec.isLayout fuel t = true) →
    ∀ fuel, s.length + k ≤ fuel → Spec.isLayout fuel (s ++ t) = true := by
  intro s w h
  induction h with
  | nil => intro _ t k ht fuel hf; exact ht fuel (by simpa using hf)
  | @keep c s w h ih =>
    intro hw t k ht fuel hf
    cases fuel with
    | zero => simp at hf
    | succ f =>
      have hb := hw c List.mem_cons_self
      have hc : (c == ' ' || c == '\t' || c == '\n') = true := by
        rcases shellblank_cases hb with rfl | rfl <;> rfl
      show Spec.isLayout (f + 1) (c :: (s ++ t)) = true
      unfold Spec.isLayout
      rw [if_pos hc]
      exact ih (fun x hx => hw x (List.mem_cons_of_mem _ hx)) t k ht f
        (by simp only [List.length_cons] at hf; omega)
  | @skip s w h ih =>
    intro hw t k ht fuel hf
    cases fuel with
    | zero => simp at hf
    | succ f =>
      show Spec.isLayout (f + 1) ('\\' :: '\n' :: (s ++ t)) = true
      unfold Spec.isLayout
      rw [if_neg (by decide), if_pos (by rfl)]
      exact ih hw t k ht f (by simp only [List.length_cons] at hf; omega)

theorem dropWhile_noNL : ∀ (cm : Str), (∀ c ∈ cm, c ≠ '\n') → cm.dropWhile (· != '\n') = []
  | [], _ => rfl
  | c :: cm, h => by
    have hc : (c != '\n') = true := by simpa using h c List.mem_cons_self
    simp only [List.dropWhile_cons, hc, if_true]
    exact dropWhile_noNL cm (fun x hx => h x (List.mem_cons_of_mem _ hx))

/-- **what one call of `token()` skips is layout in the sense of `Spec.isLayout`** -/
theorem skip_isLayout {L : Str} {a b : Nat} (h : Skip L a b) :
    Spec.isLayout (L.length + 1) (Str.slice L a b) = true := by
  obtain ⟨m, ⟨b1, b2, w, hd, hw⟩, hm⟩ := h
  have hlen : (Str.slice L a m).length = m - a := C04.slice_length L b2
  rcases hm with rfl | ⟨c1, c2, c3, c4⟩
  · have := isLayout_run hd hw [] 0 (fun fuel _ => by cases fuel <;> rfl) (L.length + 1)
      (by rw [hlen]; omega)
    simpa using this
  · have hbL : b < L.length := (List.getElem?_eq_some_iff.mp c4).1
    rw [← C04.slice_cat L b1 (Nat.le_of_lt c1) (Nat.le_of_lt hbL), C04.slice_cons L c2 c1]
    refine isLayout_run hd hw _ 1 (fun fuel hf => ?_) (L.length + 1) (by rw [hlen]; omega)
    cases fuel with
    | zero => omega
    | succ f =>
      unfold Spec.isLayout
      rw [if_neg (by decide), if_neg (by simp), if_neg (by simp), if_pos (by rfl)]
      rw [dropWhile_noNL]
      · cases f <;> rfl
      · intro c hc
        obtain ⟨i, hi⟩ := List.getElem?_of_mem hc
        have hlen2 : (Str.slice L (m + 1) b).length = b - (m + 1) :=
          C04.slice_length L (Nat.le_of_lt hbL)
        have hlt : i < b - (m + 1) := by
          rw [← hlen2]; exact (List.getElem?_eq_some_iff.mp hi).1
        rw [slice_getElem? L (by omega)] at hi
        intro hx
        subst hx
        exact c3 (m + 1 + i) (by omega) (by omega) hi

end Bashlex.C05

#print axioms Bashlex.C05.C05_chars_checked
#print axioms Bashlex.C05.posLay_charLay
#print axioms Bashlex.C05.skip_isLayout
