/-
  C01 / C09: termination of the LR engine loop (`LRParser.parse`).

  RESULT.  `C01_engine_terminates_conditional`: under C03's hypothesis `RootEnds` (the only one),
  for every input with `16·(|s|+1) < 2^30` and all options, neither `parse` nor `parsesingle`
  raises `outOfFuel "LRParser.parse"` — every engine loop (top-level and nested parsers) performs
  at most `16·(|s|+1) + 1` iterations.  `C01_partial_noLRFuel_conditional`: C01's discipline without that
  marker.  Unconditional: `engine_terminates` / `engine_terminates_ord` (every token source, all
  actions, from a budget), `seq_terminates_list` (every terminal sequence: no infinite chain of
  reductions in the tables), `next_budget`, `act_exn`.

  Files
    Gen/Rank.lean                   certificate (per-state weights and ranks), written by
                                    `tools/lrrank.py` from the live tables; UNTRUSTED
    Props/C01Engine/Potential.lean  `Raw.rankCheck` (boolean check of the certificate),
                                    `pot_reduce` (a checked reduction strictly decreases the
                                    potential `Σ weight(state) + rank(top)`), `pot_shift`
    Props/C01Engine/Real.lean       `real_rankCheck` (kernel evaluation on the regenerated
                                    tables), `realK_val : realK = 16 ∧ realRk 0 = 0`, `realBound`
    Props/C01Engine/Engine.lean     `SatS.loop_ghost`, `HooksBudget`, `step_var`,
                                    **`engine_terminates`** (state invariant with a ghost budget)
    Props/C01Engine/EngineOrd.lean  `HooksOrdT`, **`engine_terminates_ord`** (relational invariant,
                                    = `run_sound_ord` + termination)
    Props/C01Engine/Synthetic.lean  `real_engine_terminates`, `seq_terminates(_list)`
    Props/C01Engine/TokCursor.lean  the budget law of the real tokenizer from C03's `TI`:
                                    `next_budget`, `gather_budget`, `TIb`, `tokAct_TIb`, `next_TIb`
    Props/C01Engine/RealOrd.lean    `C03.spans_hooks_core`, `BudFam`, `real_hooksOrdB_fam`,
                                    `real_run_terminates_rootEnds`
    Props/C01Engine/ActExn.lean     `act_exn` (automatic walk `nf_walk`): an action raises the
                                    marker only if the nested parser does on a SHORTER string
    Props/C01Engine/RealLift.lean   token values on the stack fit the line (`SIv`, `lhs_not_tok`),
                                    `real_hooksOrdB_v`, `parserRun_noLRFuel_rootEnds` (+`TokValLen`)
    Props/C01Engine/GoodFam.lean    `TokValLen` discharged from `C04.tokText` via C11's `Good`:
                                    **`parserRun_noLRFuel_rootEnds'`**
    Props/C01Engine/Validate.lean   (not imported here; 64 s) cross-check by evaluation of the
                                    budget law and of `16·n + 1` on 9642 inputs
    Props/C01Engine.lean            (this file) the entry points; also the older
                                    `C01_engine_terminates_budget_conditional` from the abstract
                                    hypothesis `TokBudget` (kept: it does not need `RootEnds`).
-/
import Bashlex.Props.C01Engine.Engine
import Bashlex.Props.C01Engine.Real
import Bashlex.Props.C01Engine.Synthetic
import Bashlex.Props.C01Engine.GoodFam
import Bashlex.Props.C01

namespace Bashlex.C01E
open Bashlex Bashlex.M Bashlex.LR Bashlex.C03 Bashlex.C01
set_option linter.unusedSimpArgs false
set_option linter.unusedVariables false

/-! ## the real tables -/

/-! ## the exception that is excluded (`NoLRFuel`, `Props/C01Engine/ActExn.lean`) -/

theorem noLRFuel_term {x : Exn} (h : TermExn NoLRFuel x) : NoLRFuel x := by
  rcases h with h | h
  · exact h
  · rw [h]; intro h'; cases h'

/-! ## the hypothesis on the token source and the semantic actions -/

/-- what a token costs: nothing for EOF (the `$end` terminal), one unit otherwise -/
def tokCost' (t : Token) : Nat := if t.ttype = some .EOF then 0 else 1

theorem sym_eq_zero (ty : TokType) : ty.sym = 0 ↔ ty = .EOF := by
  unfold TokType.sym
  constructor
  · intro h
    split at h
    · assumption
    · omega
  · intro h; rw [if_pos h]

theorem symOfTok_eq_zero (t : Token) : symOfTok t = 0 ↔ t.ttype = some .EOF := by
  unfold symOfTok
  cases hty : t.ttype with
  | none => simp
  | some ty =>
    simp only [Option.some.injEq]
    exact sym_eq_zero ty

theorem tokCost_sym (t : Token) : tokCost realTables (symOfTok t) = tokCost' t := by
  have hend : realTables.endTok = 0 := rfl
  unfold tokCost tokCost'
  rw [hend]
  by_cases h : t.ttype = some .EOF
  · rw [if_pos ((symOfTok_eq_zero t).mpr h), if_pos h]
  · rw [if_neg (fun h' => h ((symOfTok_eq_zero t).mp h')), if_neg h]

/-- **the hypothesis** (NOT proved here).  `J len n l e`: "the parser object runs over an input
    of length `len` and its tokenizer can deliver at most `n` more tokens other than EOF".
    * `next`: `token()` pays one unit for every token other than EOF, and raises anything but the
      engine's fuel marker;
    * `act`: a semantic action (word expansion, `gatherheredocuments` of `p_simple_list`, queueing
      a here-document, parser-state flags) does not raise the budget, PROVIDED the nested parser
      it is given keeps `J` and does not raise the fuel marker on strings SHORTER than `len`
      (this is how "the text of a substitution is shorter than the input" enters);
    * `frame`: `J` does not depend on the parser-state flags and on the `touched` set of the
      environment (a nested run changes nothing else of its caller, `C16.nestedEnv_thm`);
    * `init`: a fresh parser object over `s` has budget `|s| + 2`.
    Why a hypothesis: a token is non-empty and starts at or after the end of the previous one
    (`C03.tokSpans`, `C05.TG.tokGaps_next`), so `J len n l e := ∃ f, TI len f l e ∧ len + 1 - f ≤ n`
    is the candidate; but `TI` (with the frontier `f` explicit) is carried through the semantic
    actions only together with the whole span invariant of C03 (`spans_hooks`, where `f` is
    existentially hidden and nested parsers need `RootEnds`), and the cursor-only candidate
    `|line| - cursor ≤ n` is FALSE for `gatherheredocuments` at the end of the line without the
    queue invariant (`_getc(); _ungetc(None)` moves the cursor BACK: D32). -/
structure TokBudget (J : Nat → Nat → Local → Env → Prop) : Prop where
  next : ∀ len n, SatS nextToken (J len n)
    (fun t l e => ∃ n', n' + tokCost' t ≤ n ∧ J len n' l e) NoLRFuel
  act : ∀ len n (np : NestedParse) (f : String) (args : List SVal),
    (∀ s b m, s.length < len → SatS (np s b) (J len m) (fun _ l e => J len m l e) NoLRFuel) →
    SatS (action np f args) (J len n) (fun _ l e => ∃ n', n' ≤ n ∧ J len n' l e) NoLRFuel
  frame : ∀ len n l e ps e', J len n l e → Env.EqModStore e e' → J len n { l with ps := ps } e'
  init : ∀ s l e, InitState s l e → J s.length (s.length + 2) l e

/-! ## the hooks of the real parser -/

theorem pError_noLRFuel (t : Token) : Sat (pError t) (fun _ => True) NoLRFuel := by
  unfold pError
  refine sat_bindN noExn_tapeSource (fun src => ?_)
  have hmk : ∀ m s p, NoLRFuel (mkParsingError m s p) := by
    intro m s p
    unfold mkParsingError
    split <;> (intro h; cases h)
  split
  · exact Sat.raise (hmk _ _ _)
  · exact Sat.raise (hmk _ _ _)

theorem hooks_budget {J : Nat → Nat → Local → Env → Prop} (hT : TokBudget J) (len : Nat)
    (np : NestedParse)
    (hnp : ∀ s b m, s.length < len →
      SatS (np s b) (J len m) (fun _ l e => J len m l e) NoLRFuel) :
    HooksBudget realTables (lrHooks np) (J len) NoLRFuel := by
  refine ⟨?_, ?_, ?_⟩
  · intro n
    show SatS (nextToken >>= fun t => pure (symOfTok t, SVal.tok t)) _ _ _
    refine SatS.bind (hT.next len n) (fun t => SatS.pure ?_)
    rintro l e ⟨n', hn, hj⟩
    exact ⟨n', by rw [tokCost_sym]; exact hn, hj⟩
  · intro p args n
    exact hT.act len n np _ args hnp
  · rintro ⟨sym, v⟩ n
    show SatS (match v with
      | .tok t => pError t
      | _ => M.foreign "AssertionError" "p_error") _ _ _
    split
    · exact SatS.of_sat (pError_noLRFuel _) _
    · exact SatS.foreign (by intro h; cases h)

/-! ## one parser run, every nesting depth -/

theorem initState_nested (l : Local) (s : Str) (b : Bool) (e : Env) :
    InitState s (C11.nestedLocal l s b) e :=
  ⟨rfl, rfl, rfl, rfl, Or.inl rfl⟩

/-- **no parser run (top-level or nested, any nesting fuel) over an input `s` with
    `16·(|s|+2) < 2^30` raises `outOfFuel "LRParser.parse"`** -/
theorem parserRun_noLRFuel {J : Nat → Nat → Local → Env → Prop} (hT : TokBudget J) :
    ∀ d s, 16 * (s.length + 2) < 1073741824 →
      SatS (parserRun d) (InitState s) (fun _ _ _ => True) NoLRFuel := by
  intro d
  induction d with
  | zero => intro s _; exact SatS.raise (noLRFuel_site (by decide))
  | succ d ih =>
    intro s hs
    rw [parserRun_succ]
    -- the nested parser: keeps `J`, no fuel marker on shorter strings
    have hnp : ∀ s' b m, s'.length < s.length →
        SatS (npOf (parserRun d) s' b) (J s.length m) (fun _ l e => J s.length m l e)
          NoLRFuel := by
      intro s' b m hlt l e hj
      rw [run_npOf]
      have hin := ih s' (by omega) (C11.nestedLocal l s' b) e (initState_nested l s' b e)
      rcases hr : M.run (parserRun d) (C11.nestedLocal l s' b) e with ⟨r, e'⟩
      rw [hr] at hin
      cases r with
      | error x => exact hin
      | ok v =>
        obtain ⟨r, l'⟩ := v
        have hE := C16.nestedEnv_thm d (C11.nestedLocal l s' b) e r l' e' rfl rfl hr
        exact hT.frame _ _ l e l'.ps e' hj hE
    have hH := hooks_budget hT s.length (npOf (parserRun d)) hnp
    refine SatS.bind (Q := fun _ _ _ => True)
      (((real_engine_terminates hH 1073741824 (s.length + 2) hs).pre
        (fun l e hi => hT.init s l e hi)).weaken (fun _ _ h => h) (fun _ _ _ _ => True.intro)
        (fun _ h => noLRFuel_term h)) (fun res => ?_)
    refine SatS.of_sat (sat_bindN noExn_get (fun l => ?_)) _
    split <;> exact Sat.pure trivial

/-! ## the entry points -/

/-- what the entry points need of the parser runs: no run over a short input raises the marker
    (`K·(|s|+c) < 2^30` with the constants of the run theorem at hand) -/
def RunsOK (short : Str → Prop) : Prop :=
  ∀ d s, short s → SatS (parserRun d) (InitState s) (fun _ _ _ => True) NoLRFuel

theorem runParser_noLRFuel {short : Str → Prop} (hrun : RunsOK short)
    {s : Str} {o : Opts} {t : List Char} {x : Exn} (hs : short s)
    (h : (runParser s o t).1 = .error x) : NoLRFuel x := by
  unfold runParser at h
  simp only [] at h
  have hi : InitState s ({ limit := o.limit } : Local)
      { tape := Tape.ofInput s, strict := o.strict, proceed := o.proceed, touched := t } :=
    ⟨rfl, rfl, rfl, rfl, Or.inr ⟨rfl, rfl⟩⟩
  have hr1 := hrun maxDepth s hs _ _ hi
  rcases hr : (parserRun maxDepth).run { limit := o.limit }
      { tape := Tape.ofInput s, strict := o.strict, proceed := o.proceed, touched := t } with ⟨r, env'⟩
  rw [hr] at h hr1
  cases r with
  | ok v => simp only [Except.map] at h; cases h
  | error y =>
    simp only [Except.map] at h
    cases h
    exact hr1

theorem parseLoop_noLRFuel {short : Str → Prop} (hrun : RunsOK short)
    (s : Str) (o : Opts) (hs : ∀ i, short (s.drop i)) :
    ∀ (fuel index : Nat) (parts : List Node) (touched : List Char) (x : Exn),
      (parseLoop s o fuel index parts touched).1 = .error x → NoLRFuel x := by
  intro fuel
  induction fuel with
  | zero =>
    intro index parts touched x h
    simp only [parseLoop] at h
    cases h
    exact noLRFuel_site (by decide)
  | succ fuel ih =>
    intro index parts touched x h
    unfold parseLoop at h
    split at h
    · rcases hr : runParser (s.drop index) o touched with ⟨r, t⟩
      rw [hr] at h
      cases r with
      | error e =>
        simp only [] at h
        cases h
        exact runParser_noLRFuel hrun (s := s.drop index) (hs index) (by rw [hr])
      | ok v =>
        cases v with
        | none => simp only [] at h; cases h
        | some part =>
          simp only [] at h
          exact ih _ _ _ x h
    · cases h

theorem entry_noLRFuel {short : Str → Prop} (hrun : RunsOK short) (s : Str) (o : Opts)
    (hs : ∀ i, short (s.drop i)) :
    (∀ x, (parse s o).1 = .exn x → x ≠ .outOfFuel "LRParser.parse") ∧
    (∀ x, (parsesingle s o).1 = .exn x → x ≠ .outOfFuel "LRParser.parse") := by
  have hs0 : short s := by simpa using hs 0
  constructor
  · intro x h
    unfold parse at h
    rcases hr : runParser s o [] with ⟨r, t⟩
    rw [hr] at h
    cases r with
    | error e =>
      simp only [] at h
      cases h
      exact runParser_noLRFuel hrun hs0 (by rw [hr])
    | ok v =>
      cases v with
      | none => simp only [] at h; cases h
      | some first =>
        simp only [] at h
        rcases hl : parseLoop s o (s.length + 1) (max (nextIndex first) 1) [first] t with ⟨r2, t2⟩
        rw [hl] at h
        cases r2 with
        | error e =>
          simp only [] at h
          cases h
          exact parseLoop_noLRFuel hrun s o hs _ _ _ _ _ (by rw [hl])
        | ok parts => simp only [] at h; cases h
  · intro x h
    unfold parsesingle at h
    rcases hr : runParser s o [] with ⟨r, t⟩
    rw [hr] at h
    cases r with
    | error e =>
      simp only [] at h
      cases h
      exact runParser_noLRFuel hrun hs0 (by rw [hr])
    | ok v => simp only [] at h; cases h

theorem short_drop {c : Nat} (s : Str) (hs : 16 * (s.length + c) < 1073741824) (i : Nat) :
    16 * ((s.drop i).length + c) < 1073741824 := by
  have : (s.drop i).length ≤ s.length := by simp
  omega

/-- **C01, termination of the LR engine (conditional on `TokBudget`)**: on inputs with
    `16·(|s|+2) < 2^30` (|s| < 67 108 862 characters) neither `parse` nor `parsesingle` raises
    `outOfFuel "LRParser.parse"`, for all options — the engine loop of every parser run,
    top-level and nested, terminates within its fuel. -/
theorem C01_engine_terminates_budget_conditional {J : Nat → Nat → Local → Env → Prop}
    (hT : TokBudget J) (s : Str) (o : Opts) (hs : 16 * (s.length + 2) < 1073741824) :
    (∀ x, (parse s o).1 = .exn x → x ≠ .outOfFuel "LRParser.parse") ∧
    (∀ x, (parsesingle s o).1 = .exn x → x ≠ .outOfFuel "LRParser.parse") :=
  entry_noLRFuel (short := fun s => 16 * (s.length + 2) < 1073741824)
    (fun d s hs => parserRun_noLRFuel hT d s hs) s o (short_drop s hs)

theorem short_drop_rb (s : Str) (hs : realBound (s.length + 1) < 1073741824) (i : Nat) :
    realBound ((s.drop i).length + 1) < 1073741824 := by
  have : (s.drop i).length ≤ s.length := by simp
  exact Nat.lt_of_le_of_lt (realBound_mono (by omega)) hs

/-- **C01, termination of the LR engine, for the real tokenizer and the real semantic actions**
    (constants of the checked certificate): under C03's hypothesis `RootEnds` (the only
    hypothesis), on inputs with `realBound (|s|+1) < 2^30` neither `parse` nor `parsesingle` raises
    `outOfFuel "LRParser.parse"`, for all options. -/
theorem C01_engine_terminates_gen_conditional (hR : RootEnds) (s : Str) (o : Opts)
    (hs : realBound (s.length + 1) < 1073741824) :
    (∀ x, (parse s o).1 = .exn x → x ≠ .outOfFuel "LRParser.parse") ∧
    (∀ x, (parsesingle s o).1 = .exn x → x ≠ .outOfFuel "LRParser.parse") :=
  entry_noLRFuel (short := fun s => realBound (s.length + 1) < 1073741824)
    (fun d s hs => parserRun_noLRFuel_rootEnds' hR d s hs) s o (short_drop_rb s hs)

/-- **C01, termination of the LR engine, for the real tokenizer and the real semantic actions**:
    under C03's hypothesis `RootEnds` (the only hypothesis), on inputs with `16·(|s|+1) < 2^30`
    (|s| ≤ 67 108 862 characters) neither `parse` nor `parsesingle` raises
    `outOfFuel "LRParser.parse"`, for all options: the engine loop of every parser run, top-level
    and nested, performs at most `16·(|s|+1) + 1` iterations. -/
theorem C01_engine_terminates_conditional (hR : RootEnds) (s : Str) (o : Opts)
    (hs : 16 * (s.length + 1) < 1073741824) :
    (∀ x, (parse s o).1 = .exn x → x ≠ .outOfFuel "LRParser.parse") ∧
    (∀ x, (parsesingle s o).1 = .exn x → x ≠ .outOfFuel "LRParser.parse") :=
  C01_engine_terminates_gen_conditional hR s o (by rw [realBound_val]; exact hs)

/-- one top-level parser run -/
theorem C01_engine_terminates_run_conditional (hR : RootEnds) (s : Str) (o : Opts) (t : List Char) (x : Exn)
    (hs : 16 * (s.length + 1) < 1073741824) (h : (runParser s o t).1 = .error x) :
    x ≠ .outOfFuel "LRParser.parse" :=
  runParser_noLRFuel (short := fun s => realBound (s.length + 1) < 1073741824)
    (fun d s hs => parserRun_noLRFuel_rootEnds' hR d s hs) (by rw [realBound_val]; exact hs) h

/-- **C01 without the engine's fuel marker** (under `RootEnds`, input below 2^26 characters):
    `parse` returns a list of nodes or raises a disciplined exception other than
    `outOfFuel "LRParser.parse"` -/
theorem C01_partial_noLRFuel_conditional (hR : RootEnds) (s : Str) (o : Opts)
    (hs : 16 * (s.length + 1) < 1073741824) :
    match (parse s o).1 with
    | .parts _ => True
    | .exn x => C01.Disciplined x ∧ x ≠ .outOfFuel "LRParser.parse"
    | _ => False := by
  have h1 := C01.C01_partial s o
  have h2 := (C01_engine_terminates_conditional hR s o hs).1
  revert h1 h2
  cases (parse s o).1 with
  | parts l => exact fun _ _ => True.intro
  | exn x => exact fun h1 h2 => ⟨h1, h2 x rfl⟩
  | single n => exact fun h1 _ => h1
  | strs l => exact fun h1 _ => h1

end Bashlex.C01E

#print axioms Bashlex.LR.real_rankCheck
#print axioms Bashlex.LR.pot_reduce
#print axioms Bashlex.LR.step_var
#print axioms Bashlex.LR.engine_terminates
#print axioms Bashlex.LR.engine_terminates_measure
#print axioms Bashlex.C01E.real_engine_terminates
#print axioms Bashlex.C01E.seq_terminates
#print axioms Bashlex.C01E.seq_terminates_list
#print axioms Bashlex.C01E.parserRun_noLRFuel
#print axioms Bashlex.C01E.C01_engine_terminates_budget_conditional
#print axioms Bashlex.C01E.act_exn
#print axioms Bashlex.C01E.next_budget
#print axioms Bashlex.LR.engine_terminates_ord
#print axioms Bashlex.C01E.real_run_terminates_rootEnds
#print axioms Bashlex.C01E.parserRun_noLRFuel_rootEnds
#print axioms Bashlex.C01E.parserRun_noLRFuel_rootEnds'
#print axioms Bashlex.C01E.C01_engine_terminates_conditional
#print axioms Bashlex.C01E.C01_engine_terminates_gen_conditional
#print axioms Bashlex.C01E.C01_engine_terminates_run_conditional
#print axioms Bashlex.C01E.C01_partial_noLRFuel_conditional
