/-
  Property C03 ("spans are well-formed") at model level, for the parser above the tokenizer:
  for every input and all options, every signature `Spec.spansWF` raises on a tree returned by
  `parse` / `parsesingle` is one of the known defects `C03_known` (one exact string and the two
  marked families `+heredoc`, `+emptydesc`; `Props/C03/Tree.lean`), *provided* the token source
  delivers ordered, disjoint, non-empty spans that start within the input (`TokSpansAll`, the
  named hypothesis: `Props/C03/Hyp.lean`; it is a statement about the tokenizer only, plus
  `RootEnds` about the last characters of what a nested parser returns).  Nothing is assumed
  about where tokens *end*: that follows from the look-ahead (`la_range`), using kernel-checked
  facts about the tables.

  Architecture (robust against renumbering of productions):
    Proofs/HoareS.lean   state-aware Hoare logic `SatS` / `Keeps` for the model monad
    LR/SoundOrd.lean     `run_sound_ord`: the LR engine maintains a *relational* invariant of the
                         stack (list of (symbol, value) pairs + look-ahead + parser state)
    C03/Tree.lean        `LocOK`, `Strict`, `strict_known` (link to `Spec.spansWF`),
                         `strict_sh` (shift), `strict_resolve` (here-document redirects)
    C03/Chain.lean       values occupying intervals: `NodeIn`, `ListIn`, `mkParent`
    C03/Hyp.lean         `TokSpans` (hypothesis), `Seg`, `Fresh` (values vs. redirect store)
    C03/Vals.lean        `SegV`, the contract of `expandword` (`WordAt`), `nodePos`, `_partsspan`
    C03/Actions.lean     one lemma per action function of parser.py
    C03/Grammar.lean     grammar / table facts decided by the kernel
    C03/Engine.lean      `SI`, `act_spans` (dispatch), `spans_hooks : HooksOrd …`
    C03/Run.lean         `parserRun_spans` (induction on the nesting depth)
    C03/Expand.lean      word expansion: `wordContract`
    C03/Witness.lean     witnesses of the known signatures
-/
import Bashlex.Props.C03.Expand

namespace Bashlex.C03
open Bashlex Bashlex.Spec Bashlex.Node Bashlex.M Bashlex.LR
set_option linter.unusedSimpArgs false
set_option linter.unusedVariables false

/-- **the hypothesis on the token source**, for every parser run involved (top-level runs on
    suffixes of the input and nested runs on substitution bodies): a ghost invariant `TI` of the
    tokenizer's state exists with the properties of `TokSpans`, and nested parsers return roots
    that do not end in two newlines (`RootEnds`). -/
structure TokSpansAll : Prop where
  tok : ∃ TI : Nat → Nat → Local → Env → Prop, TokSpans TI
  rootEnds : RootEnds

section
variable {TI : Nat → Nat → Local → Env → Prop}

theorem runParser_spans (hT : TokSpans TI) (hR : RootEnds) {s : Str} {o : Opts} {t : List Char}
    {n : Node} (h : (runParser s o t).1 = .ok (some n)) : TopOK s.length n := by
  unfold runParser at h
  simp only [] at h
  rcases hrun : (parserRun maxDepth).run { limit := o.limit }
      { tape := Tape.ofInput s, strict := o.strict, proceed := o.proceed, touched := t } with ⟨r, env'⟩
  rw [hrun] at h
  simp only [] at h
  cases r with
  | error x => cases h
  | ok v =>
    obtain ⟨a, l'⟩ := v
    have ha : a = some n := by
      simp only [Except.map] at h
      cases h; rfl
    have hinit : InitState s ({ limit := o.limit } : Local)
        { tape := Tape.ofInput s, strict := o.strict, proceed := o.proceed, touched := t } :=
      ⟨rfl, rfl, rfl, rfl, Or.inr ⟨rfl, rfl⟩⟩
    exact (parserRun_spans hT hR (wordContract hT) maxDepth s).ok hinit hrun n ha

theorem parseLoop_spans (hT : TokSpans TI) (hR : RootEnds) (s : Str) (o : Opts) :
    ∀ (fuel index : Nat) (parts : List Node) (touched : List Char) (ps : List Node),
      (∀ n, n ∈ parts → Strict s.length n) → (parseLoop s o fuel index parts touched).1 = .ok ps →
      ∀ n, n ∈ ps → Strict s.length n := by
  intro fuel
  induction fuel with
  | zero => intro index parts touched ps _ h; simp [parseLoop] at h
  | succ fuel ih =>
    intro index parts touched ps hparts h
    unfold parseLoop at h
    split at h
    · rename_i hidx
      rcases hr : runParser (s.drop index) o touched with ⟨r, t⟩
      rw [hr] at h
      cases r with
      | error e => simp only [] at h; cases h
      | ok v =>
        cases v with
        | none => simp only [] at h; cases h; exact hparts
        | some part =>
          simp only [] at h
          have hp : TopOK (s.drop index).length part := runParser_spans hT hR (by rw [hr])
          refine ih _ _ _ ps ?_ h
          intro n hn
          rcases List.mem_append.mp hn with hn | hn
          · exact hparts n hn
          · simp at hn; subst hn
            -- the part was found in `s.drop index`; `posshifter` moves it by `index`
            refine strict_shift_top hp.strict ?_
            rw [List.length_drop]
            omega
    · cases h; exact hparts

/-- C03 for `parse`, in terms of `Strict`, for every token source satisfying `TokSpans` -/
theorem parse_strict (hT : TokSpans TI) (hR : RootEnds) (s : Str) (o : Opts) (parts : List Node)
    (h : (parse s o).1 = .parts parts) : ∀ n, n ∈ parts → Strict s.length n := by
  unfold parse at h
  rcases hr : runParser s o [] with ⟨r, t⟩
  rw [hr] at h
  cases r with
  | error e => simp only [] at h; cases h
  | ok v =>
    cases v with
    | none => simp only [] at h; cases h; intro n hn; cases hn
    | some first =>
      simp only [] at h
      have hp : TopOK s.length first := runParser_spans hT hR (by rw [hr])
      rcases hl : parseLoop s o (s.length + 1) (max (nextIndex first) 1) [first] t with ⟨r2, t2⟩
      rw [hl] at h
      cases r2 with
      | error e => simp only [] at h; cases h
      | ok ps =>
        simp only [] at h
        cases h
        exact parseLoop_spans hT hR s o (s.length + 1) (max (nextIndex first) 1) [first] t _
          (by intro n hn; simp at hn; subst hn; exact hp.strict)
          (by rw [hl])

end

/-- **C03 (model level), `parse`**: under the hypothesis on the token source, for every input and
    all options, every clause of `Spec.spansWF` violated by a returned tree is a known defect:
    `empty-span:reservedword` (D19), or marked `+emptydesc` (D19), or marked `+heredoc` (D11). -/
theorem C03_partial (s : Str) (o : Opts) (parts : List Node) :
    TokSpansAll → (parse s o).1 = .parts parts →
    ∀ n ∈ parts, ∀ v ∈ Spec.spansWF s.length n, C03_known v = true := by
  rintro ⟨⟨TI, hT⟩, hR⟩ h n hn v hv
  exact strict_known (parse_strict hT hR s o parts h n hn) v hv

/-- the same theorem under the name the ground rules ask for when a hypothesis is left open -/
theorem C03_conditional (s : Str) (o : Opts) (parts : List Node) (h : TokSpansAll)
    (hp : (parse s o).1 = .parts parts) :
    ∀ n ∈ parts, ∀ v ∈ Spec.spansWF s.length n, C03_known v = true :=
  C03_partial s o parts h hp

/-- **C03 (model level), `parsesingle`** -/
theorem C03_partial_single (s : Str) (o : Opts) (n : Node) :
    TokSpansAll → (parsesingle s o).1 = .single (some n) →
    ∀ v ∈ Spec.spansWF s.length n, C03_known v = true := by
  rintro ⟨⟨TI, hT⟩, hR⟩ h v hv
  unfold parsesingle at h
  rcases hr : runParser s o [] with ⟨r, t⟩
  rw [hr] at h
  cases r with
  | error e => simp only [] at h; cases h
  | ok v' =>
    simp only [] at h
    cases h
    exact strict_known (runParser_spans hT hR (by rw [hr])).strict v hv

/-- the single-parser statement in the state-aware logic: from a fresh parser object over `s`
    (top-level or nested, at any nesting fuel), every returned tree is `Strict` -/
theorem parserRun_strict {TI : Nat → Nat → Local → Env → Prop} (hT : TokSpans TI) (hR : RootEnds)
    (d : Nat) (s : Str) :
    SatS (parserRun d) (InitState s) (fun r _ _ => ∀ n, r = some n → Strict s.length n) :=
  SatS.post (parserRun_spans hT hR (wordContract hT) d s) (fun _ _ _ h n hn => (h n hn).strict)

end Bashlex.C03

#print axioms Bashlex.LR.run_sound_ord
#print axioms Bashlex.C03.strict_known
#print axioms Bashlex.C03.strict_resolve
#print axioms Bashlex.C03.spans_hooks
#print axioms Bashlex.C03.parserRun_spans
#print axioms Bashlex.C03.wordContract
#print axioms Bashlex.C03.C03_partial
#print axioms Bashlex.C03.C03_partial_single
