/-
  C13: a simpler sufficient condition for the locality of a parser run.

  `runLocal` (Indep.lean) is stated with `maxCell`, the largest tape cell a run examined.
  Here: a run that was **never told "end of input"** — no `_getc` call returned `None` or raised
  `IndexError` (backslash as the last character) — that never executed the non-strict
  here-document skip `_shell_input_line_index += 1`, and never asked for `source` / the whole
  line / `_added_newline`, is local (`runLocal_of_noEOF`).  (Conversely `_getc` returning `None`
  or raising `IndexError` from a head position inside the tape means that the cell just beyond the
  tape was looked up, so up to the index bump the two conditions coincide; on the test corpus
  they coincide for every accepted run.  Only the direction above is proved.)
-/
import Bashlex.Props.C13.Indep

namespace Bashlex

namespace Tape

/-- a `_getc` that returns a character examined cells inside the line only, and leaves the head
    inside the line -/
theorem getc_some_cells (rqn : Bool) : ∀ (f : Nat) (t : Tape) (c : Char) (u : Tape),
    t.getc rqn f = .ok (some c, u) →
    t.getcCells rqn f ≤ t.line.length ∧ u.idx ≤ t.line.length := by
  intro f
  induction f with
  | zero => intro t c u h; rw [getc_zero] at h; cases h
  | succ f ih =>
    intro t c u h
    rw [getc_succ] at h
    unfold getcCells
    cases h0 : t.line[t.idx]? with
    | none => rw [h0] at h; cases h
    | some c0 =>
      have hi : t.idx < t.line.length := by
        have := List.getElem?_eq_some_iff.1 h0
        exact this.1
      rw [h0] at h
      simp only at h ⊢
      by_cases hb : (c0 == '\\' && rqn) = true
      · rw [if_pos hb] at h ⊢
        cases h1 : t.line[t.idx + 1]? with
        | none => rw [h1] at h; cases h
        | some d =>
          have hi1 : t.idx + 1 < t.line.length := (List.getElem?_eq_some_iff.1 h1).1
          rw [h1] at h
          simp only at h ⊢
          by_cases hd : (d == '\n') = true
          · rw [if_pos hd] at h ⊢
            have := ih { t with idx := t.idx + 2 } c u h
            simp only at this
            exact ⟨Nat.max_le.2 ⟨hi1, this.1⟩, this.2⟩
          · rw [if_neg hd] at h ⊢
            cases h
            exact ⟨hi1, Nat.le_of_lt hi1⟩
      · rw [if_neg hb] at h ⊢
        cases h
        exact ⟨hi, hi⟩

end Tape

/-- the answer tells the program that the input has ended (or the query is one of those a local
    run must not make): `_getc` returned `None` / raised `IndexError`; the index bump; the queries
    for the whole tape -/
def Query.endOfInput : (q : Query) → Answer q → Bool
  | .getc _, .ok (some _) => false
  | .getc _, _ => true
  | .bump, _ => true
  | .source, _ | .line, _ | .added, _ => true
  | _, _ => false

namespace Env

theorem cells_le_of_noEOF (e : Env) (q : Query) (hi : e.tape.idx ≤ e.tape.line.length)
    (h : q.endOfInput (e.answer q).1 = false) :
    e.cells q ≤ e.tape.line.length ∧ (e.answer q).2.tape.idx ≤ e.tape.line.length ∧
    q.readsWhole = false := by
  cases q with
  | getc rqn =>
    simp only [answer] at h ⊢
    cases hg : e.tape.getc rqn (e.tape.line.length + 1) with
    | error u => rw [hg] at h; cases h
    | ok r =>
      obtain ⟨c, u⟩ := r
      rw [hg] at h
      simp only at h ⊢
      cases c with
      | none => cases h
      | some c =>
        have := Tape.getc_some_cells rqn _ _ _ _ hg
        exact ⟨this.1, this.2, rfl⟩
  | ungetc =>
    refine ⟨hi, ?_, rfl⟩
    simp only [answer]
    rw [Tape.ungetc_eq]
    split
    · simp only; omega
    · exact hi
  | idx => exact ⟨Nat.zero_le _, hi, rfl⟩
  | bump => cases h
  | source => cases h
  | line => cases h
  | added => cases h
  | optStrict => exact ⟨Nat.zero_le _, hi, rfl⟩
  | optProceed => exact ⟨Nat.zero_le _, hi, rfl⟩
  | syntab c =>
    refine ⟨Nat.zero_le _, ?_, rfl⟩
    simp only [answer]
    cases e.touched.contains c <;> exact hi

end Env

namespace Q
variable {α : Type}

/-- some answer along the run told the program that the input has ended -/
def sawEOF (p : Q α) (e : Env) : Bool := (trace p e).any (fun qa => qa.1.endOfInput qa.2)

/-- a run that starts inside the tape and is never told "end of input" examines only cells of
    the tape and asks no whole-tape query -/
theorem local_of_noEOF (p : Q α) : ∀ e : Env, e.tape.idx ≤ e.tape.line.length →
    sawEOF p e = false →
    maxCell p e ≤ e.tape.line.length ∧ ∀ q ∈ asked p e, q.readsWhole = false := by
  induction p with
  | pure a => intro e _ _; exact ⟨Nat.zero_le _, fun q hq => by cases hq⟩
  | ask q k ih =>
    intro e hi h
    unfold sawEOF at h
    rw [trace_ask, List.any_cons, Bool.or_eq_false_iff] at h
    obtain ⟨h1, h2, h3⟩ := e.cells_le_of_noEOF q hi h.1
    have hl : (e.answer q).2.tape.line = e.tape.line := (e.answer_frame q).2.2.1
    have := ih (e.answer q).1 (e.answer q).2 (by rw [hl]; exact h2) h.2
    rw [hl] at this
    refine ⟨Nat.max_le.2 ⟨h1, this.1⟩, ?_⟩
    intro q' hq'
    rw [asked_ask] at hq'
    rcases List.mem_cons.1 hq' with rfl | hq'
    · exact h3
    · exact this.2 q' hq'

end Q

namespace C13

/-- the parser run on `s` was never told "end of input" (see `Query.endOfInput`) -/
def runNoEOF (s : Str) (o : Opts) (t : List Char) : Bool :=
  !(Q.sawEOF ((parserRun maxDepth) { limit := o.limit }) (runParserEnv s o t))

/-- **a run that never ran into the end of its input is local** -/
theorem runLocal_of_noEOF {s : Str} {o : Opts} {t : List Char} (h : runNoEOF s o t = true) :
    runLocal s o t = true := by
  unfold runNoEOF at h
  have hi : (runParserEnv s o t).tape.idx ≤ (runParserEnv s o t).tape.line.length := by
    show (Tape.ofInput s).idx ≤ _
    have : (Tape.ofInput s).idx = 0 := by
      unfold Tape.ofInput; split
      · rfl
      · split <;> rfl
    rw [this]; exact Nat.zero_le _
  have := Q.local_of_noEOF ((parserRun maxDepth) { limit := o.limit }) (runParserEnv s o t) hi
    (by simpa using h)
  unfold runLocal
  rw [Bool.and_eq_true, decide_eq_true_eq, List.all_eq_true]
  refine ⟨this.1, fun q hq => ?_⟩
  rw [this.2 q hq]; rfl

end C13

end Bashlex
