/-
  A boolean equality test on `Node` with its soundness (`Node` is a nested inductive type; the
  `DecidableEq` deriving handler does not apply).  Used to make the hypotheses and conclusions of
  the C13 theorems checkable by `decide +kernel` / `#eval` on concrete inputs.
-/
import Bashlex.Basic

namespace Bashlex

namespace Node

mutual
def beq : Node → Node → Bool
  | operator p a, m => match m with
    | operator p' a' => decide (p = p') && decide (a = a') | _ => false
  | reservedword p a, m => match m with
    | reservedword p' a' => decide (p = p') && decide (a = a') | _ => false
  | pipe p a, m => match m with
    | pipe p' a' => decide (p = p') && decide (a = a') | _ => false
  | parameter p a, m => match m with
    | parameter p' a' => decide (p = p') && decide (a = a') | _ => false
  | tilde p a, m => match m with
    | tilde p' a' => decide (p = p') && decide (a = a') | _ => false
  | heredoc p a, m => match m with
    | heredoc p' a' => decide (p = p') && decide (a = a') | _ => false
  | list p ps, m => match m with
    | list p' ps' => decide (p = p') && beqL ps ps' | _ => false
  | pipeline p ps, m => match m with
    | pipeline p' ps' => decide (p = p') && beqL ps ps' | _ => false
  | ifN p ps, m => match m with
    | ifN p' ps' => decide (p = p') && beqL ps ps' | _ => false
  | forN p ps, m => match m with
    | forN p' ps' => decide (p = p') && beqL ps ps' | _ => false
  | whileN p ps, m => match m with
    | whileN p' ps' => decide (p = p') && beqL ps ps' | _ => false
  | untilN p ps, m => match m with
    | untilN p' ps' => decide (p = p') && beqL ps ps' | _ => false
  | caseN p ps, m => match m with
    | caseN p' ps' => decide (p = p') && beqL ps ps' | _ => false
  | pattern p ps, m => match m with
    | pattern p' ps' => decide (p = p') && beqL ps ps' | _ => false
  | command p ps, m => match m with
    | command p' ps' => decide (p = p') && beqL ps ps' | _ => false
  | unimplemented p ps, m => match m with
    | unimplemented p' ps' => decide (p = p') && beqL ps ps' | _ => false
  | compound p l r, m => match m with
    | compound p' l' r' => decide (p = p') && beqL l l' && beqL r r' | _ => false
  | function p a b ps, m => match m with
    | function p' a' b' ps' => decide (p = p') && decide (a = a') && decide (b = b') && beqL ps ps'
    | _ => false
  | redirect p i t o oa h hid, m => match m with
    | redirect p' i' t' o' oa' h' hid' =>
      decide (p = p') && decide (i = i') && decide (t = t') && beqO o o' && decide (oa = oa') &&
        beqO h h' && decide (hid = hid')
    | _ => false
  | word p w ps, m => match m with
    | word p' w' ps' => decide (p = p') && decide (w = w') && beqL ps ps' | _ => false
  | assignment p w ps, m => match m with
    | assignment p' w' ps' => decide (p = p') && decide (w = w') && beqL ps ps' | _ => false
  | commandsubstitution p c, m => match m with
    | commandsubstitution p' c' => decide (p = p') && beq c c' | _ => false
  | processsubstitution p c, m => match m with
    | processsubstitution p' c' => decide (p = p') && beq c c' | _ => false
def beqL : List Node → List Node → Bool
  | [], l => match l with
    | [] => true | _ :: _ => false
  | n :: ns, l => match l with
    | [] => false | m :: ms => beq n m && beqL ns ms
def beqO : Option Node → Option Node → Bool
  | none, o => match o with
    | none => true | some _ => false
  | some n, o => match o with
    | none => false | some m => beq n m
end

mutual
theorem eq_of_beq : ∀ n m : Node, beq n m = true → n = m
  | operator p a, m, h | reservedword p a, m, h | pipe p a, m, h | parameter p a, m, h
  | tilde p a, m, h | heredoc p a, m, h => by
    cases m <;> simp [beq] at h
    obtain ⟨rfl, rfl⟩ := h; rfl
  | list p ps, m, h | pipeline p ps, m, h | ifN p ps, m, h | forN p ps, m, h | whileN p ps, m, h
  | untilN p ps, m, h | caseN p ps, m, h | pattern p ps, m, h | command p ps, m, h
  | unimplemented p ps, m, h => by
    cases m <;> simp [beq] at h
    obtain ⟨rfl, h2⟩ := h
    rw [eq_of_beqL ps _ h2]
  | compound p l r, m, h => by
    cases m <;> simp [beq] at h
    obtain ⟨⟨rfl, h2⟩, h3⟩ := h
    rw [eq_of_beqL l _ h2, eq_of_beqL r _ h3]
  | function p a b ps, m, h => by
    cases m <;> simp [beq] at h
    obtain ⟨⟨⟨rfl, rfl⟩, rfl⟩, h2⟩ := h
    rw [eq_of_beqL ps _ h2]
  | redirect p i t o oa hd hid, m, h => by
    cases m <;> simp [beq] at h
    obtain ⟨⟨⟨⟨⟨⟨rfl, rfl⟩, rfl⟩, h2⟩, rfl⟩, h3⟩, rfl⟩ := h
    rw [eq_of_beqO o _ h2, eq_of_beqO hd _ h3]
  | word p w ps, m, h | assignment p w ps, m, h => by
    cases m <;> simp [beq] at h
    obtain ⟨⟨rfl, rfl⟩, h2⟩ := h
    rw [eq_of_beqL ps _ h2]
  | commandsubstitution p c, m, h | processsubstitution p c, m, h => by
    cases m <;> simp [beq] at h
    obtain ⟨rfl, h2⟩ := h
    rw [eq_of_beq c _ h2]
theorem eq_of_beqL : ∀ l l' : List Node, beqL l l' = true → l = l'
  | [], l', h => by cases l' <;> simp [beqL] at h ⊢
  | n :: ns, l', h => by
    cases l' with
    | nil => simp [beqL] at h
    | cons m ms =>
      simp [beqL] at h
      rw [eq_of_beq n m h.1, eq_of_beqL ns ms h.2]
theorem eq_of_beqO : ∀ o o' : Option Node, beqO o o' = true → o = o'
  | none, o', h => by cases o' <;> simp [beqO] at h ⊢
  | some n, o', h => by
    cases o' with
    | none => simp [beqO] at h
    | some m =>
      simp [beqO] at h
      rw [eq_of_beq n m h]
end

end Node

/-- boolean equality of the results of a parser run (exceptions compared with `DecidableEq Exn`) -/
def runResBeq : Except Exn (Option Node) → Except Exn (Option Node) → Bool
  | .ok a, .ok b => Node.beqO a b
  | .error e, .error e' => decide (e = e')
  | _, _ => false

theorem eq_of_runResBeq {a b : Except Exn (Option Node)} (h : runResBeq a b = true) : a = b := by
  cases a <;> cases b <;> simp [runResBeq] at h
  · rw [h]
  · rw [Node.eq_of_beqO _ _ h]

end Bashlex
