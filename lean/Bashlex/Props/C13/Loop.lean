/-
  C13, part 2: `parse` is the iteration of `runParser` over suffixes of the input.

  `Loop s o i t r`: "entered with restart index `i` and `sh_syntaxtab` content `t`, the `while`
  loop of `bashlex.parse(s)` appends the parts `r.1` (or raises `r.1`) and leaves the table `r.2`"
  — an inductive relation without fuel and without accumulator.  `Loop.det`, `Loop.total`:
  it is a total function.  `parseLoop_eq`: the model's fuelled loop computes it for every
  sufficient fuel (`s.length + 1 - i < fuel`; the index strictly increases), in particular for the
  fuel `parse` supplies.  `Parse s o r` / `parse_unfold`: the same for the entry point;
  `parse_eq_loop`: for a non-empty input `parse` *is* the loop entered at index 0 (the first parser
  run is an ordinary iteration).
-/
import Bashlex.Proofs.QCongr
import Bashlex.Props.C13.Shift

namespace Bashlex.C13
open Bashlex

/-- result of the loop: the further parts or the exception, and the final table -/
abbrev LoopRes := Except Exn (List Node) × List Char

namespace LoopRes
def cons (n : Node) (r : LoopRes) : LoopRes := (r.1.map (n :: ·), r.2)
def prepend (ps : List Node) (r : LoopRes) : LoopRes := (r.1.map (ps ++ ·), r.2)
/-- `posshifter(k)` on every part -/
def shift (k : Nat) (r : LoopRes) : LoopRes := (r.1.map (·.map (Node.shift k)), r.2)
/-- what `parse` returns -/
def outcome (r : LoopRes) : Outcome × List Char :=
  (match r.1 with
   | .ok ps => .parts ps
   | .error e => .exn e, r.2)

@[simp] theorem cons_ok (n : Node) (ps : List Node) (t : List Char) :
    cons n (.ok ps, t) = (.ok (n :: ps), t) := rfl
@[simp] theorem cons_error (n : Node) (e : Exn) (t : List Char) :
    cons n (.error e, t) = (.error e, t) := rfl
@[simp] theorem prepend_ok (qs ps : List Node) (t : List Char) :
    prepend qs (.ok ps, t) = (.ok (qs ++ ps), t) := rfl
@[simp] theorem prepend_error (qs : List Node) (e : Exn) (t : List Char) :
    prepend qs (.error e, t) = (.error e, t) := rfl
@[simp] theorem shift_ok (k : Nat) (ps : List Node) (t : List Char) :
    shift k (.ok ps, t) = (.ok (ps.map (Node.shift k)), t) := rfl
@[simp] theorem shift_error (k : Nat) (e : Exn) (t : List Char) :
    shift k (.error e, t) = (.error e, t) := rfl

theorem prepend_nil (r : LoopRes) : prepend [] r = r := by
  obtain ⟨x, t⟩ := r; cases x <;> simp [prepend, Except.map]

theorem prepend_cons (ps : List Node) (n : Node) (r : LoopRes) :
    prepend (ps ++ [n]) r = prepend ps (cons n r) := by
  obtain ⟨x, t⟩ := r; cases x <;> simp [prepend, cons, Except.map]

theorem prepend_prepend (ps qs : List Node) (r : LoopRes) :
    prepend ps (prepend qs r) = prepend (ps ++ qs) r := by
  obtain ⟨x, t⟩ := r; cases x <;> simp [prepend, Except.map]

theorem prepend_singleton (n : Node) (r : LoopRes) : prepend [n] r = cons n r := by
  obtain ⟨x, t⟩ := r; cases x <;> simp [prepend, cons, Except.map]

theorem shift_cons (k : Nat) (n : Node) (r : LoopRes) :
    shift k (cons n r) = cons (n.shift k) (shift k r) := by
  obtain ⟨x, t⟩ := r; cases x <;> simp [shift, cons, Except.map]

theorem shift_prepend (k : Nat) (ps : List Node) (r : LoopRes) :
    shift k (prepend ps r) = prepend (ps.map (Node.shift k)) (shift k r) := by
  obtain ⟨x, t⟩ := r; cases x <;> simp [shift, prepend, Except.map]

theorem shift_zero (r : LoopRes) : shift 0 r = r := by
  obtain ⟨x, t⟩ := r; cases x <;> simp [shift, Except.map, Node.map_shift_zero]

theorem shift_shift (a b : Nat) (r : LoopRes) : shift a (shift b r) = shift (b + a) r := by
  obtain ⟨x, t⟩ := r; cases x <;> simp [shift, Except.map, Node.shift_shift]
end LoopRes

/-- **the loop of `parse`, as a relation** (no fuel, no accumulator):
    `done`: `index < len(s)` fails; `stop`: the parser run on `s[index:]` returned no node
    (`break`); `raise`: it raised; `step`: it returned `part`, which is shifted by `index` and
    appended, and the loop goes on from `max(part.pos[1], ef.end, index + 1)`. -/
inductive Loop (s : Str) (o : Opts) : Nat → List Char → LoopRes → Prop
  | done {i : Nat} {t : List Char} (h : ¬ i < s.length) : Loop s o i t (.ok [], t)
  | stop {i : Nat} {t t' : List Char} (h : i < s.length)
      (hr : runParser (s.drop i) o t = (.ok none, t')) : Loop s o i t (.ok [], t')
  | raise {i : Nat} {t t' : List Char} {e : Exn} (h : i < s.length)
      (hr : runParser (s.drop i) o t = (.error e, t')) : Loop s o i t (.error e, t')
  | step {i : Nat} {t t' : List Char} {part : Node} {r : LoopRes} (h : i < s.length)
      (hr : runParser (s.drop i) o t = (.ok (some part), t'))
      (hl : Loop s o (max (nextIndex (part.shift i)) (i + 1)) t' r) :
      Loop s o i t (r.cons (part.shift i))

/-- every iteration advances: this is why fuel `len(s) + 1` is enough -/
theorem advance (part : Node) (i : Nat) : i < max (nextIndex part) (i + 1) :=
  Nat.lt_of_lt_of_le (Nat.lt_succ_self i) (Nat.le_max_right _ _)

/-- the relation is functional -/
theorem Loop.det {s : Str} {o : Opts} {i : Nat} {t : List Char} {r r' : LoopRes}
    (h : Loop s o i t r) (h' : Loop s o i t r') : r = r' := by
  induction h generalizing r' with
  | done h =>
    cases h' with
    | done _ => rfl
    | stop g _ => exact absurd g h
    | raise g _ => exact absurd g h
    | step g _ _ => exact absurd g h
  | stop h hr =>
    cases h' with
    | done g => exact absurd h g
    | stop _ hr' => rw [hr] at hr'; cases hr'; rfl
    | raise _ hr' => rw [hr] at hr'; cases hr'
    | step _ hr' _ => rw [hr] at hr'; cases hr'
  | raise h hr =>
    cases h' with
    | done g => exact absurd h g
    | stop _ hr' => rw [hr] at hr'; cases hr'
    | raise _ hr' => rw [hr] at hr'; cases hr'; rfl
    | step _ hr' _ => rw [hr] at hr'; cases hr'
  | step h hr _ ih =>
    cases h' with
    | done g => exact absurd h g
    | stop _ hr' => rw [hr] at hr'; cases hr'
    | raise _ hr' => rw [hr] at hr'; cases hr'
    | step _ hr' hl' =>
      rw [hr] at hr'
      cases hr'
      rw [ih hl']

/-- **the fuelled loop of the model computes the relation** whenever the fuel exceeds the
    distance to `len(s) + 1` -/
theorem parseLoop_spec (s : Str) (o : Opts) : ∀ (fuel i : Nat) (parts : List Node) (t : List Char),
    s.length + 1 - i < fuel →
    ∃ r, Loop s o i t r ∧ parseLoop s o fuel i parts t = r.prepend parts := by
  intro fuel
  induction fuel with
  | zero => intro i parts t h; exact absurd h (Nat.not_lt_zero _)
  | succ fuel ih =>
    intro i parts t hf
    unfold parseLoop
    by_cases h : i < s.length
    · rw [if_pos h]
      rcases hr : runParser (s.drop i) o t with ⟨x, t'⟩
      cases x with
      | error e => exact ⟨(.error e, t'), .raise h hr, rfl⟩
      | ok v =>
        cases v with
        | none => exact ⟨(.ok [], t'), .stop h hr, by simp⟩
        | some part =>
          simp only []
          have hadv := advance (part.shift i) i
          obtain ⟨r, hl, he⟩ := ih (max (nextIndex (part.shift i)) (i + 1))
            (parts ++ [part.shift i]) t' (by omega)
          exact ⟨r.cons (part.shift i), .step h hr hl, by rw [he, LoopRes.prepend_cons]⟩
    · rw [if_neg h]
      exact ⟨(.ok [], t), .done h, by simp⟩

/-- the relation is total -/
theorem Loop.total (s : Str) (o : Opts) (i : Nat) (t : List Char) : ∃ r, Loop s o i t r := by
  obtain ⟨r, h, _⟩ := parseLoop_spec s o (s.length + 2) i [] t (by omega)
  exact ⟨r, h⟩

/-- fuel adequacy: with any fuel `> len(s) + 1 - index` the model's loop returns the accumulated
    parts followed by what the relation gives -/
theorem parseLoop_eq {s : Str} {o : Opts} {i : Nat} {t : List Char} {r : LoopRes}
    (h : Loop s o i t r) (fuel : Nat) (parts : List Node) (hf : s.length + 1 - i < fuel) :
    parseLoop s o fuel i parts t = r.prepend parts := by
  obtain ⟨r', h', he⟩ := parseLoop_spec s o fuel i parts t hf
  rw [he, h.det h']

theorem parseLoop_fuel_irrelevant (s : Str) (o : Opts) (fuel fuel' i : Nat) (parts : List Node)
    (t : List Char) (hf : s.length + 1 - i < fuel) (hf' : s.length + 1 - i < fuel') :
    parseLoop s o fuel i parts t = parseLoop s o fuel' i parts t := by
  obtain ⟨r, h⟩ := Loop.total s o i t
  rw [parseLoop_eq h fuel parts hf, parseLoop_eq h fuel' parts hf']

/-- the loop never runs out of fuel in `parse` -/
theorem parseLoop_ne_outOfFuel (s : Str) (o : Opts) (fuel i : Nat) (parts : List Node)
    (t : List Char) (hf : s.length + 1 - i < fuel) :
    ∃ r, Loop s o i t r ∧ parseLoop s o fuel i parts t = r.prepend parts :=
  parseLoop_spec s o fuel i parts t hf

theorem Loop.iff_parseLoop {s : Str} {o : Opts} {i : Nat} {t : List Char} {r : LoopRes} :
    Loop s o i t r ↔ parseLoop s o (s.length + 2) i [] t = r := by
  obtain ⟨r', h', he⟩ := parseLoop_spec s o (s.length + 2) i [] t (by omega)
  rw [LoopRes.prepend_nil] at he
  constructor
  · intro h; rw [he, h.det h']
  · intro h; rw [← h, he]; exact h'

/-- the table content the loop starts with does not influence the parts -/
theorem Loop.touched_irrelevant {s : Str} {o : Opts} {i : Nat} {t t' : List Char} {r r' : LoopRes}
    (h : Loop s o i t r) (h' : Loop s o i t' r') : r.1 = r'.1 := by
  have e := parseLoop_touched_irrelevant s o (s.length + 2) i [] t t'
  rw [parseLoop_eq h _ _ (by omega), parseLoop_eq h' _ _ (by omega), LoopRes.prepend_nil,
    LoopRes.prepend_nil] at e
  exact e

/-! ### the entry point -/

/-- **`bashlex.parse`, as a relation**: the first parser run on the whole input, then the loop
    entered at `max(parts[0].pos[1], ef.end, 1)` -/
inductive Parse (s : Str) (o : Opts) : Outcome × List Char → Prop
  | raise {e : Exn} {t : List Char} (hr : runParser s o [] = (.error e, t)) : Parse s o (.exn e, t)
  | empty {t : List Char} (hr : runParser s o [] = (.ok none, t)) : Parse s o (.parts [], t)
  | loop {first : Node} {t : List Char} {r : LoopRes}
      (hr : runParser s o [] = (.ok (some first), t))
      (hl : Loop s o (max (nextIndex first) 1) t r) : Parse s o (r.cons first).outcome

/-- **parse_unfold**: `parse s o` is the unique outcome the relation allows -/
theorem parse_spec (s : Str) (o : Opts) : Parse s o (parse s o) := by
  unfold parse
  rcases hr : runParser s o [] with ⟨x, t⟩
  cases x with
  | error e => exact .raise hr
  | ok v =>
    cases v with
    | none => exact .empty hr
    | some first =>
      simp only []
      obtain ⟨r, hl⟩ := Loop.total s o (max (nextIndex first) 1) t
      have hadv := advance first 0
      rw [parseLoop_eq hl (s.length + 1) [first] (by omega), LoopRes.prepend_singleton]
      have := Parse.loop hr hl
      obtain ⟨y, u⟩ := r
      cases y <;> exact this

theorem Parse.det {s : Str} {o : Opts} {r r' : Outcome × List Char}
    (h : Parse s o r) (h' : Parse s o r') : r = r' := by
  cases h with
  | raise hr =>
    cases h' with
    | raise hr' => rw [hr] at hr'; cases hr'; rfl
    | empty hr' => rw [hr] at hr'; cases hr'
    | loop hr' _ => rw [hr] at hr'; cases hr'
  | empty hr =>
    cases h' with
    | raise hr' => rw [hr] at hr'; cases hr'
    | empty hr' => rw [hr] at hr'; cases hr'; rfl
    | loop hr' _ => rw [hr] at hr'; cases hr'
  | loop hr hl =>
    cases h' with
    | raise hr' => rw [hr] at hr'; cases hr'
    | empty hr' => rw [hr] at hr'; cases hr'
    | loop hr' hl' => rw [hr] at hr'; cases hr'; rw [hl.det hl']

theorem parse_unfold (s : Str) (o : Opts) (r : Outcome × List Char) :
    Parse s o r ↔ parse s o = r :=
  ⟨fun h => (parse_spec s o).det h, fun h => h ▸ parse_spec s o⟩

/-- for a non-empty input the first parser run is an ordinary iteration of the loop:
    **`parse s` is the loop entered at index 0 with no parts** -/
theorem parse_eq_loop {s : Str} {o : Opts} (hs : s ≠ []) {r : LoopRes} (h : Loop s o 0 [] r) :
    parse s o = r.outcome := by
  refine (parse_unfold s o _).1 ?_
  have h0 : 0 < s.length := List.length_pos_iff.2 hs
  cases h with
  | done g => exact absurd h0 g
  | stop _ hr => rw [List.drop_zero] at hr; exact .empty hr
  | raise _ hr => rw [List.drop_zero] at hr; exact .raise hr
  | step _ hr hl =>
    rw [List.drop_zero] at hr
    rw [Node.shift_zero] at hl ⊢
    exact .loop hr hl

/-- the same with the table the process already holds (`parseFrom`) -/
theorem parseFrom_eq_loop {s : Str} {o : Opts} {t : List Char} (hs : s ≠ []) {r : LoopRes}
    (h : Loop s o 0 t r) : parseFrom s o t = r.outcome := by
  have h0 : 0 < s.length := List.length_pos_iff.2 hs
  unfold parseFrom
  cases h with
  | done g => exact absurd h0 g
  | stop _ hr => rw [List.drop_zero] at hr; rw [hr]; rfl
  | raise _ hr => rw [List.drop_zero] at hr; rw [hr]; rfl
  | @step _ _ t' part r _ hr hl =>
    rw [List.drop_zero] at hr
    rw [Node.shift_zero] at hl ⊢
    rw [hr]
    simp only []
    have hadv := advance part 0
    rw [parseLoop_eq hl (s.length + 1) [part] (by omega), LoopRes.prepend_singleton]
    obtain ⟨y, u⟩ := r
    cases y <;> rfl

end Bashlex.C13
