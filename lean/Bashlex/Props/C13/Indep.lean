/-
  C13, part 3: top-level commands are parsed independently.

  Setting: `s = A ++ R` where `A` ends in a newline or `R` starts with one (`Joinable A R`).

  1. `ofInput_prefix`: the tape of `A` (`A` plus the newline `tokenizer.__init__` adds) is a prefix
     of the tape of `A ++ R`.  Hence (`runParser_append`, from `runParser_prefix` of QCongr) a
     parser run on `A` that is *local* (`runLocal`: it never asked for the whole line / source /
     `_added_newline`, and never examined a cell beyond the end of its own tape, i.e. never saw
     the end of input) returns the same result and leaves the same table on `A ++ R`.
  2. `Seg`: a segment of node-returning iterations of the loop of `parse`; `Seg.transfer`: a
     segment of the loop on `A` all of whose runs are local is a segment of the loop on `A ++ R`
     (same indices, same parts, same tables) — the step-by-step simulation of the two loops.
  3. `Loop.of_drop`: the loop on a suffix `s.drop k` is the loop on `s` from index `k`, with all
     parts shifted by `k` (spans are absolute because `posshifter(index)` is applied to what a
     run on `s[index:]` returns, and `nextIndex` commutes with the shift).
  4. `indep_core`: after a local segment of `A`'s loop that produced `ps` and arrived at index `j`,
     `parse (A ++ R)` is `ps` followed by what a **fresh** `parse` returns on `(A ++ R).drop j`,
     shifted by `j` (or the exception that fresh `parse` raises): nothing but the index flows from
     one top-level command to the next (the table `sh_syntaxtab` does, but it never influences a
     result: `Loop.touched_irrelevant`).
  5. `walk`: the instrumented loop (parts, index where the loop stopped, locality flag), computable,
     so that the hypotheses of the main theorems can be evaluated on concrete inputs.
  6. `BlankSkip`, `parse_blankSkip`: what is needed (and all that is needed) to replace the fresh
     `parse` on `blank ++ B` by `parse B`: the *first* parser run on `blank ++ B` returns what the
     first run on `B` returns, shifted.  This is translation-equivariance of one parser run under
     a prefix of blanks/comments/newlines; it is NOT proved here (it needs a relational walk
     through the tokenizer) and is false for `B = "time\n\n"` with `proceedonerror` (see C13.lean).
-/
import Bashlex.Props.C13.Loop
import Bashlex.Props.C13.NodeEq

namespace Bashlex.C13
open Bashlex

/-! ### the empty input -/

set_option maxRecDepth 100000 in
/-- a parser run on the empty string returns no node and looks nothing up (kernel evaluation,
    for all options and table contents) -/
theorem runParser_nil (o : Opts) (t : List Char) : runParser [] o t = (.ok none, t) := by
  rfl

theorem parse_nil_input (o : Opts) : parse [] o = (.parts [], []) := by
  unfold parse; rw [runParser_nil]

/-- `parse s` is the loop entered at index 0, for every `s` -/
theorem parse_eq_loop' {s : Str} {o : Opts} {r : LoopRes} (h : Loop s o 0 [] r) :
    parse s o = r.outcome := by
  by_cases hs : s = []
  · subst hs
    rw [parse_nil_input]
    cases h with
    | done _ => rfl
    | stop g _ => exact absurd g (Nat.lt_irrefl 0)
    | raise g _ => exact absurd g (Nat.lt_irrefl 0)
    | step g _ _ => exact absurd g (Nat.lt_irrefl 0)
  · exact parse_eq_loop hs h

/-- inversion of the loop at index 0 in terms of the first parser run (also for `s = []`) -/
theorem Loop.zero_inv {s : Str} {o : Opts} {t : List Char} {r : LoopRes} (h : Loop s o 0 t r) :
    (∃ e t', runParser s o t = (.error e, t') ∧ r = (.error e, t')) ∨
    (∃ t', runParser s o t = (.ok none, t') ∧ r = (.ok [], t')) ∨
    (∃ part t' r', runParser s o t = (.ok (some part), t') ∧
      Loop s o (max (nextIndex part) 1) t' r' ∧ r = r'.cons part) := by
  cases h with
  | done g =>
    have hs : s = [] := by
      cases s with
      | nil => rfl
      | cons c cs => exact absurd (Nat.succ_pos _) g
    subst hs
    exact .inr (.inl ⟨t, runParser_nil o t, rfl⟩)
  | stop _ hr => rw [List.drop_zero] at hr; exact .inr (.inl ⟨_, hr, rfl⟩)
  | raise _ hr => rw [List.drop_zero] at hr; exact .inl ⟨_, _, hr, rfl⟩
  | step _ hr hl =>
    rw [List.drop_zero] at hr
    rw [Node.shift_zero] at hl ⊢
    exact .inr (.inr ⟨_, _, _, hr, hl, rfl⟩)

/-! ### the tape of a prefix -/

theorem ofInput_line (s : Str) :
    (Tape.ofInput s).line = s ∨ (Tape.ofInput s).line = s ++ ['\n'] := by
  unfold Tape.ofInput
  split
  · exact .inl rfl
  · split
    · exact .inl rfl
    · exact .inr rfl

theorem ofInput_line_of_newline {s : Str} (h : s.getLast? = some '\n') :
    (Tape.ofInput s).line = s := by
  unfold Tape.ofInput; rw [h]; rfl

theorem ofInput_line_of_ne {s : Str} {c : Char} (h : s.getLast? = some c) (hc : c ≠ '\n') :
    (Tape.ofInput s).line = s ++ ['\n'] := by
  unfold Tape.ofInput; rw [h]; simp [hc]

/-- `A` can be continued by `R` without changing what a tokenizer over `A` alone sees before the
    end of its tape: `A` ends in a newline, or `R` starts with one (the newline
    `tokenizer.__init__` would add to `A`) -/
def Joinable (A R : Str) : Prop := A.getLast? = some '\n' ∨ R.head? = some '\n'

instance (A R : Str) : Decidable (Joinable A R) := by unfold Joinable; infer_instance

theorem joinable_cons (A R : Str) : Joinable A ('\n' :: R) := .inr rfl

theorem Joinable.drop {A R : Str} (hj : Joinable A R) {i : Nat} (hi : i < A.length) :
    Joinable (A.drop i) R := by
  rcases hj with h | h
  · left
    rw [List.getLast?_drop, if_neg (by omega)]
    exact h
  · exact .inr h

/-- **the tape of `A` is a prefix of the tape of `A ++ R`** -/
theorem ofInput_prefix {A R : Str} (hA : A ≠ []) (hj : Joinable A R) :
    (Tape.ofInput A).line <+: (Tape.ofInput (A ++ R)).line := by
  have hAR := ofInput_line (A ++ R)
  by_cases hl : A.getLast? = some '\n'
  · rw [ofInput_line_of_newline hl]
    rcases hAR with e | e <;> rw [e]
    · exact List.prefix_append A R
    · rw [List.append_assoc]; exact List.prefix_append A _
  · rcases hj with hj | hj
    · exact absurd hj hl
    · obtain ⟨c, hc⟩ : ∃ c, A.getLast? = some c := by
        cases h : A.getLast? with
        | none => exact absurd (List.getLast?_eq_none_iff.1 h) hA
        | some c => exact ⟨c, rfl⟩
      have hcn : c ≠ '\n' := fun h => hl (h ▸ hc)
      rw [ofInput_line_of_ne hc hcn]
      obtain ⟨R', rfl⟩ : ∃ R', R = '\n' :: R' := by
        cases R with
        | nil => cases hj
        | cons x R' =>
          simp only [List.head?_cons, Option.some.injEq] at hj
          exact ⟨R', by rw [hj]⟩
      have e0 : A ++ '\n' :: R' = (A ++ ['\n']) ++ R' := by simp
      rcases hAR with e | e <;> rw [e, e0]
      · exact List.prefix_append _ _
      · rw [List.append_assoc]; exact List.prefix_append _ _

theorem getElem?_of_prefix {l l' : Str} (h : l <+: l') (i : Nat) (hi : i < l.length) :
    l[i]? = l'[i]? := by
  obtain ⟨m, rfl⟩ := h
  exact (List.getElem?_append_left hi).symm

/-! ### local parser runs -/

/-- **locality of one parser run** (a property of the run on `s` alone): it asked none of
    `tokenizer.source`, `_shell_input_line`, `_added_newline`, and examined no cell beyond the end
    of its tape (it never tested for / ran into the end of input). -/
def runLocal (s : Str) (o : Opts) (t : List Char) : Bool :=
  decide ((parserRun maxDepth).maxCell { limit := o.limit } (runParserEnv s o t) ≤
    (Tape.ofInput s).line.length) &&
  (runParserAsked s o t).all (fun q => !q.readsWhole)

/-- a local run on `A` is a run on `A ++ R`: same result, same table -/
theorem runParser_append {A R : Str} {o : Opts} {t : List Char} (hA : A ≠ [])
    (hj : Joinable A R) (hloc : runLocal A o t = true) :
    runParser (A ++ R) o t = runParser A o t := by
  unfold runLocal at hloc
  rw [Bool.and_eq_true, decide_eq_true_eq, List.all_eq_true] at hloc
  refine (runParser_prefix A (A ++ R) o t _ (getElem?_of_prefix (ofInput_prefix hA hj)) ?_
    hloc.1).symm
  intro q hq
  have := hloc.2 q hq
  cases h : q.readsWhole
  · rfl
  · rw [h] at this; cases this

/-! ### segments of the loop and their transfer -/

/-- `Seg L s o i t ps j u`: entered at `(i, t)`, the loop of `parse s` makes `ps.length` iterations
    that each return a node — together the parts `ps` — and arrives at index `j` with table `u`.
    With `L = true` every one of these parser runs is local. -/
inductive Seg (L : Bool) (s : Str) (o : Opts) : Nat → List Char → List Node → Nat → List Char → Prop
  | nil {i : Nat} {t : List Char} : Seg L s o i t [] i t
  | cons {i j : Nat} {t t' u : List Char} {part : Node} {ps : List Node} (h : i < s.length)
      (hr : runParser (s.drop i) o t = (.ok (some part), t'))
      (hloc : L = true → runLocal (s.drop i) o t = true)
      (hs : Seg L s o (max (nextIndex (part.shift i)) (i + 1)) t' ps j u) :
      Seg L s o i t (part.shift i :: ps) j u

theorem Seg.mono {L L' : Bool} (hL : L' = true → L = true) {s : Str} {o : Opts} {i j : Nat}
    {t u : List Char} {ps : List Node} (h : Seg L s o i t ps j u) : Seg L' s o i t ps j u := by
  induction h with
  | nil => exact .nil
  | cons h hr hloc _ ih => exact .cons h hr (fun g => hloc (hL g)) ih

/-- a segment followed by the rest of the loop -/
theorem Seg.loop {L : Bool} {s : Str} {o : Opts} {i j : Nat} {t u : List Char} {ps : List Node}
    {r : LoopRes} (h : Seg L s o i t ps j u) (hl : Loop s o j u r) :
    Loop s o i t (r.prepend ps) := by
  induction h with
  | nil => rw [LoopRes.prepend_nil]; exact hl
  | @cons i j t t' u part ps h hr _ _ ih =>
    have := Loop.step h hr (ih hl)
    have e : LoopRes.prepend (part.shift i :: ps) r = (LoopRes.prepend ps r).cons (part.shift i) := by
      obtain ⟨x, v⟩ := r
      cases x <;> simp [LoopRes.prepend, LoopRes.cons, Except.map]
    rw [e]; exact this

/-- the index only grows along a segment -/
theorem Seg.le {L : Bool} {s : Str} {o : Opts} {i j : Nat} {t u : List Char} {ps : List Node}
    (h : Seg L s o i t ps j u) : i ≤ j := by
  induction h with
  | nil => exact Nat.le_refl _
  | @cons i j t t' u part ps _ _ _ _ ih =>
    have := advance (part.shift i) i
    omega

/-- **the simulation**: a local segment of the loop on `A` is a segment of the loop on `A ++ R`
    — same restart indices, same parts, same tables -/
theorem Seg.transfer {A R : Str} {o : Opts} (hj : Joinable A R) {i j : Nat} {t u : List Char}
    {ps : List Node} (h : Seg true A o i t ps j u) : Seg false (A ++ R) o i t ps j u := by
  induction h with
  | nil => exact .nil
  | @cons i j t t' u part ps h hr hloc _ ih =>
    have hne : A.drop i ≠ [] := by
      intro e
      have := List.drop_eq_nil_iff.1 e
      omega
    have hd : (A ++ R).drop i = A.drop i ++ R := List.drop_append_of_le_length (Nat.le_of_lt h)
    refine .cons (by rw [List.length_append]; omega) ?_ (fun g => by cases g) ih
    rw [hd, runParser_append hne (hj.drop h) (hloc rfl)]
    exact hr

/-! ### suffixes: spans are absolute -/

/-- **the loop on the suffix `s.drop k` is the loop on `s` from index `k`**, all parts shifted
    by `k` -/
theorem Loop.of_drop {s : Str} {o : Opts} {k : Nat} {j : Nat} {t : List Char} {r : LoopRes}
    (h : Loop (s.drop k) o j t r) : Loop s o (k + j) t (r.shift k) := by
  induction h with
  | done h =>
    rw [List.length_drop] at h
    exact .done (by omega)
  | stop h hr =>
    rw [List.length_drop] at h
    rw [List.drop_drop] at hr
    exact .stop (by omega) hr
  | raise h hr =>
    rw [List.length_drop] at h
    rw [List.drop_drop] at hr
    exact .raise (by omega) hr
  | @step j t t' part r h hr _ ih =>
    rw [List.length_drop] at h
    rw [List.drop_drop] at hr
    have e1 : k + max (nextIndex (part.shift j)) (j + 1) =
        max (nextIndex (part.shift (k + j))) (k + j + 1) := by
      rw [nextIndex_shift, nextIndex_shift]; omega
    rw [e1] at ih
    have := Loop.step (by omega) hr ih
    rw [LoopRes.shift_cons, Node.shift_shift, Nat.add_comm j k]
    exact this

/-- gluing: the parts `ps` found so far, then the outcome of `parse` on the rest, which starts at
    offset `k` of the whole input -/
def glue (ps : List Node) (k : Nat) : Outcome → Outcome
  | .parts qs => .parts (ps ++ qs.map (Node.shift k))
  | .exn e => .exn e
  | x => x

theorem outcome_glue (ps : List Node) (k : Nat) (r r0 : LoopRes) (h : r.1 = (r0.shift k).1) :
    (r.prepend ps).outcome.1 = glue ps k r0.outcome.1 := by
  obtain ⟨x, t⟩ := r
  obtain ⟨y, u⟩ := r0
  cases y with
  | error e =>
    simp only [LoopRes.shift, Except.map] at h
    subst h; rfl
  | ok qs =>
    simp only [LoopRes.shift, Except.map] at h
    subst h; rfl

/-- **independence, core form**: after a local segment of the loop on `A` (parts `ps`, arriving
    at index `j`), `parse (A ++ R)` returns `ps` followed by the parts a *fresh* `parse` returns
    on the rest `(A ++ R).drop j`, shifted by `j` — or raises what that fresh `parse` raises -/
theorem indep_core {A R : Str} {o : Opts} {ps : List Node} {j : Nat} {u : List Char}
    (hj : Joinable A R) (hseg : Seg true A o 0 [] ps j u) :
    (parse (A ++ R) o).1 = glue ps j (parse ((A ++ R).drop j) o).1 := by
  have hs := hseg.transfer (R := R) hj
  obtain ⟨r, hr⟩ := Loop.total (A ++ R) o j u
  obtain ⟨r0, hr0⟩ := Loop.total ((A ++ R).drop j) o 0 []
  have h1 := hs.loop hr
  have h2 := hr0.of_drop
  rw [Nat.add_zero] at h2
  have h3 := hr.touched_irrelevant h2
  rw [parse_eq_loop' h1, parse_eq_loop' hr0]
  exact outcome_glue ps j r r0 h3

/-! ### the instrumented loop -/

/-- what `walk` records: the parts, the index at which the loop stopped (`index >= len(s)` or a
    run that returned no node), the table on arrival there, and whether every node-returning run
    was local -/
structure Walk where
  parts : List Node
  stop : Nat
  table : List Char
  loc : Bool

/-- the loop of `parse` with instrumentation; `none`: a run raised -/
def walk (s : Str) (o : Opts) : Nat → Nat → List Char → Option Walk
  | 0, _, _ => none
  | fuel + 1, i, t =>
    if i < s.length then
      match runParser (s.drop i) o t with
      | (.error _, _) => none
      | (.ok none, _) => some ⟨[], i, t, true⟩
      | (.ok (some part), t') =>
        match walk s o fuel (max (nextIndex (part.shift i)) (i + 1)) t' with
        | none => none
        | some w => some ⟨part.shift i :: w.parts, w.stop, w.table,
            runLocal (s.drop i) o t && w.loc⟩
    else some ⟨[], i, t, true⟩

/-- what `walk` returns is a segment of the loop (local if the flag says so) -/
theorem walk_seg (s : Str) (o : Opts) : ∀ (fuel i : Nat) (t : List Char) (w : Walk),
    walk s o fuel i t = some w → Seg w.loc s o i t w.parts w.stop w.table := by
  intro fuel
  induction fuel with
  | zero => intro i t w h; cases h
  | succ fuel ih =>
    intro i t w h
    unfold walk at h
    by_cases hi : i < s.length
    · rw [if_pos hi] at h
      rcases hr : runParser (s.drop i) o t with ⟨x, t'⟩
      rw [hr] at h
      cases x with
      | error e => cases h
      | ok v =>
        cases v with
        | none => simp only [] at h; cases h; exact .nil
        | some part =>
          simp only [] at h
          cases hw : walk s o fuel (max (nextIndex (part.shift i)) (i + 1)) t' with
          | none => rw [hw] at h; cases h
          | some w' =>
            rw [hw] at h
            simp only [Option.some.injEq] at h
            subst h
            have := ih _ _ _ hw
            refine .cons hi hr (fun g => ?_) (this.mono (fun g => ?_))
            · simp only [Bool.and_eq_true] at g; exact g.1
            · simp only [Bool.and_eq_true] at g; exact g.2
    · rw [if_neg hi] at h
      cases h
      exact .nil

/-- `walk` follows the loop: with sufficient fuel it returns the parts of the loop, and fails
    exactly when the loop raises -/
theorem walk_spec (s : Str) (o : Opts) : ∀ (fuel i : Nat) (t : List Char),
    s.length + 1 - i < fuel →
    match walk s o fuel i t with
    | some w => ∃ u, Loop s o i t (.ok w.parts, u)
    | none => ∃ e u, Loop s o i t (.error e, u) := by
  intro fuel
  induction fuel with
  | zero => intro i t h; exact absurd h (Nat.not_lt_zero _)
  | succ fuel ih =>
    intro i t hf
    unfold walk
    by_cases hi : i < s.length
    · rw [if_pos hi]
      rcases hr : runParser (s.drop i) o t with ⟨x, t'⟩
      cases x with
      | error e => exact ⟨e, t', .raise hi hr⟩
      | ok v =>
        cases v with
        | none => exact ⟨t', .stop hi hr⟩
        | some part =>
          simp only []
          have hadv := advance (part.shift i) i
          have := ih (max (nextIndex (part.shift i)) (i + 1)) t' (by omega)
          cases hw : walk s o fuel (max (nextIndex (part.shift i)) (i + 1)) t' with
          | none =>
            rw [hw] at this
            obtain ⟨e, u, hl⟩ := this
            exact ⟨e, u, Loop.step hi hr hl⟩
          | some w' =>
            rw [hw] at this
            obtain ⟨u, hl⟩ := this
            exact ⟨u, Loop.step hi hr hl⟩
    · rw [if_neg hi]
      exact ⟨t, .done hi⟩

/-- index at which the loop of `parse A` stops (0 if `parse A` raises) -/
def parseStop (A : Str) (o : Opts) : Nat :=
  match walk A o (A.length + 2) 0 [] with
  | some w => w.stop
  | none => 0

/-- every node-returning parser run of `parse A` is local (`false` if `parse A` raises) -/
def parseLocal (A : Str) (o : Opts) : Bool :=
  match walk A o (A.length + 2) 0 [] with
  | some w => w.loc
  | none => false

/-- if `parse A` returns `psA`, `walk` returns a record with these parts -/
theorem walk_of_parse {A : Str} {o : Opts} {psA : List Node} (hA : (parse A o).1 = .parts psA) :
    ∃ w, walk A o (A.length + 2) 0 [] = some w ∧ w.parts = psA := by
  obtain ⟨r, hr⟩ := Loop.total A o 0 []
  rw [parse_eq_loop' hr] at hA
  have hw := walk_spec A o (A.length + 2) 0 [] (by omega)
  cases h : walk A o (A.length + 2) 0 [] with
  | none =>
    rw [h] at hw
    obtain ⟨e, u, hl⟩ := hw
    rw [hr.det hl] at hA
    cases hA
  | some w =>
    rw [h] at hw
    obtain ⟨u, hl⟩ := hw
    rw [hr.det hl] at hA
    simp only [LoopRes.outcome, Outcome.parts.injEq] at hA
    exact ⟨w, rfl, hA⟩

/-! ### a blank prefix -/

/-- **translation of the first run under the prefix `pre`** (intended: `pre` consists of blanks,
    comments and newlines and is empty or ends in a newline): the first parser run on `pre ++ B`
    returns what the first run on `B` returns, with spans shifted by `len(pre)`; and the first
    part of `B` does not have an empty extent at offset 0 (needed because `parse` resumes at
    `max(end, 1)` after the first part but at `max(end, index + 1)` later). -/
structure BlankSkip (pre B : Str) (o : Opts) : Prop where
  run : (runParser (pre ++ B) o []).1 =
    (runParser B o []).1.map (fun n => n.map (Node.shift pre.length))
  pos : pre = [] ∨ ∀ part, (runParser B o []).1 = .ok (some part) → 0 < nextIndex part

theorem BlankSkip.nil (B : Str) (o : Opts) : BlankSkip [] B o := by
  refine ⟨?_, .inl rfl⟩
  rw [List.nil_append, List.length_nil]
  rcases runParser B o [] with ⟨x, t⟩
  cases x with
  | error e => rfl
  | ok v => cases v <;> simp [Except.map, Node.shift_zero]

/-- a checker for `BlankSkip` on concrete inputs -/
def blankSkipB (pre B : Str) (o : Opts) : Bool :=
  runResBeq (runParser (pre ++ B) o []).1
    ((runParser B o []).1.map (fun n => n.map (Node.shift pre.length))) &&
  (pre.isEmpty ||
    match (runParser B o []).1 with
    | .ok (some part) => decide (0 < nextIndex part)
    | _ => true)

theorem blankSkip_of_check {pre B : Str} {o : Opts} (h : blankSkipB pre B o = true) :
    BlankSkip pre B o := by
  unfold blankSkipB at h
  rw [Bool.and_eq_true, Bool.or_eq_true] at h
  refine ⟨eq_of_runResBeq h.1, ?_⟩
  rcases h.2 with h2 | h2
  · exact .inl (List.isEmpty_iff.1 h2)
  · refine .inr (fun part hp => ?_)
    rw [hp] at h2
    simpa using h2

/-- under `BlankSkip`, `parse (pre ++ B)` is `parse B` shifted by `len(pre)` — all later parser
    runs are on literally the same suffixes -/
theorem parse_blankSkip {pre B : Str} {o : Opts} (h : BlankSkip pre B o) :
    (parse (pre ++ B) o).1 = glue [] pre.length (parse B o).1 := by
  obtain ⟨rX, hX⟩ := Loop.total (pre ++ B) o 0 []
  obtain ⟨rB, hB⟩ := Loop.total B o 0 []
  rw [parse_eq_loop' hX, parse_eq_loop' hB]
  have key : rX.1 = (rB.shift pre.length).1 := by
    have hrun := h.run
    rcases hB.zero_inv with ⟨e, t', hr, rfl⟩ | ⟨t', hr, rfl⟩ | ⟨part, t', r', hr, hl, rfl⟩
    · rw [hr] at hrun
      rcases hX.zero_inv with ⟨e2, t2, hr2, rfl⟩ | ⟨t2, hr2, rfl⟩ | ⟨part2, t2, r2, hr2, _, rfl⟩
      · rw [hr2] at hrun; simp only [Except.map] at hrun; cases hrun; rfl
      · rw [hr2] at hrun; simp only [Except.map] at hrun; cases hrun
      · rw [hr2] at hrun; simp only [Except.map] at hrun; cases hrun
    · rw [hr] at hrun
      rcases hX.zero_inv with ⟨e2, t2, hr2, rfl⟩ | ⟨t2, hr2, rfl⟩ | ⟨part2, t2, r2, hr2, _, rfl⟩
      · rw [hr2] at hrun; simp only [Except.map] at hrun; cases hrun
      · rfl
      · rw [hr2] at hrun; simp only [Except.map, Option.map] at hrun; cases hrun
    · have hpos : pre = [] ∨ 0 < nextIndex part := by
        rcases h.pos with hp | hp
        · exact .inl hp
        · exact .inr (hp part (by rw [hr]))
      rw [hr] at hrun
      rcases hX.zero_inv with ⟨e2, t2, hr2, rfl⟩ | ⟨t2, hr2, rfl⟩ | ⟨part2, t2, r2, hr2, hl2, rfl⟩
      · rw [hr2] at hrun; simp only [Except.map] at hrun; cases hrun
      · rw [hr2] at hrun; simp only [Except.map, Option.map] at hrun; cases hrun
      · rw [hr2] at hrun
        simp only [Except.map, Option.map, Except.ok.injEq, Option.some.injEq] at hrun
        subst hrun
        -- the loop on `B` from its restart index, seen inside `pre ++ B`
        have hd : (pre ++ B).drop pre.length = B := List.drop_left
        rw [← hd] at hl
        have h2 := hl.of_drop
        have e1 : pre.length + max (nextIndex part) 1 =
            max (nextIndex (part.shift pre.length)) 1 := by
          rw [nextIndex_shift]
          rcases hpos with hp | hp
          · rw [hp]; simp
          · omega
        rw [e1] at h2
        have h3 := hl2.touched_irrelevant h2
        rw [LoopRes.shift_cons]
        obtain ⟨x, v⟩ := r2
        obtain ⟨y, v'⟩ := r'
        simp only at h3
        subst h3
        cases y <;> rfl
  have := outcome_glue [] pre.length rX rB key
  rw [LoopRes.prepend_nil] at this
  exact this

end Bashlex.C13
