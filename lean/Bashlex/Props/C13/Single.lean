/-
  C17 (entry points), part 1: `parsesingle` is the first parser run of `parse`.

  * `parsesingle_eq`: `parsesingle s` *is* the first parser run (outcome and table);
  * `parsesingle_eq_head`: whenever `parse s` returns `ps`, `parsesingle s` returns `ps.head?`
    (`None` exactly when `parse` returns `[]`);
  * `parsesingle_exn_iff`, `parse_exn_of_parsesingle_exn`: `parsesingle` raises exactly when the
    first run raises, and then `parse` raises the same exception;
  * `parsesingle_of_parse_exn`: when `parse` raises, either the first run raised (same exception
    from `parsesingle`) or `parsesingle` returns the first part and a *later* run of the loop
    raised.  Witness for the second case (checked with `#eval`): `"a\n)"`:
    `parse` raises `ParsingError("unexpected token ')'", "\n)", 1)` (message, source and position
    are those of the *suffix* the failing run saw, not of the whole input), `parsesingle`
    returns `command (0,1) [word (0,1) "a"]`.
-/
import Bashlex.Props.C13.Loop

namespace Bashlex.C13
open Bashlex

/-- what `parsesingle` makes of the result of the first parser run -/
def singleOutcome : Except Exn (Option Node) → Outcome
  | .error e => .exn e
  | .ok n => .single n

/-- `parsesingle s` is the first parser run on `s`: same result, same table afterwards -/
theorem parsesingle_eq (s : Str) (o : Opts) :
    parsesingle s o = (singleOutcome (runParser s o []).1, (runParser s o []).2) := by
  unfold parsesingle
  rcases runParser s o [] with ⟨x, t⟩
  cases x <;> rfl

/-- `parsesingle` raises exactly when the first parser run raises -/
theorem parsesingle_exn_iff (s : Str) (o : Opts) (e : Exn) :
    (parsesingle s o).1 = .exn e ↔ (runParser s o []).1 = .error e := by
  rw [parsesingle_eq]
  rcases runParser s o [] with ⟨x, t⟩
  cases x with
  | error e' =>
    simp only [singleOutcome]
    exact ⟨fun h => (by cases h; rfl), fun h => (by cases h; rfl)⟩
  | ok n =>
    simp only [singleOutcome]
    exact ⟨fun h => (by cases h), fun h => (by cases h)⟩

theorem parsesingle_single_iff (s : Str) (o : Opts) (n : Option Node) :
    (parsesingle s o).1 = .single n ↔ (runParser s o []).1 = .ok n := by
  rw [parsesingle_eq]
  rcases runParser s o [] with ⟨x, t⟩
  cases x with
  | error e' =>
    simp only [singleOutcome]
    exact ⟨fun h => (by cases h), fun h => (by cases h)⟩
  | ok n' =>
    simp only [singleOutcome]
    exact ⟨fun h => (by cases h; rfl), fun h => (by cases h; rfl)⟩

/-- **C17**: `parsesingle(s)` is the first element of `parse(s)`, `None` when `parse` returns `[]` -/
theorem parsesingle_eq_head (s : Str) (o : Opts) (ps : List Node)
    (h : (parse s o).1 = .parts ps) : (parsesingle s o).1 = .single ps.head? := by
  rw [parsesingle_eq]
  have hp := parse_spec s o
  generalize parse s o = r at h hp
  cases hp with
  | raise hr => cases h
  | empty hr => cases h; rw [hr]; rfl
  | @loop first t r hr hl =>
    rw [hr]
    obtain ⟨y, u⟩ := r
    cases y with
    | error e => cases h
    | ok more => cases h; rfl

/-- … and the tables agree when `parse` made one parser run only -/
theorem parsesingle_touched_prefix (s : Str) (o : Opts) : (parsesingle s o).2 = (runParser s o []).2 := by
  rw [parsesingle_eq]

/-- if `parsesingle` raises, `parse` raises the same exception (and leaves the same table) -/
theorem parse_exn_of_parsesingle_exn (s : Str) (o : Opts) (e : Exn)
    (h : (parsesingle s o).1 = .exn e) : parse s o = (.exn e, (parsesingle s o).2) := by
  rw [parsesingle_touched_prefix]
  have h1 := (parsesingle_exn_iff s o e).1 h
  refine (parse_unfold s o _).1 ?_
  rcases hr : runParser s o [] with ⟨x, t⟩
  rw [hr] at h1
  simp only [] at h1
  subst h1
  exact .raise hr

/-- **when `parse` raises**: either the first parser run raised and `parsesingle` raises the same
    exception, or `parsesingle` returns the first part and a later run of the loop raised -/
theorem parsesingle_of_parse_exn (s : Str) (o : Opts) (e : Exn) (h : (parse s o).1 = .exn e) :
    ((runParser s o []).1 = .error e ∧ (parsesingle s o).1 = .exn e) ∨
    ∃ first t r, runParser s o [] = (.ok (some first), t) ∧
      (parsesingle s o).1 = .single (some first) ∧
      Loop s o (max (nextIndex first) 1) t r ∧ r.1 = .error e := by
  rw [parsesingle_eq]
  have hp := parse_spec s o
  generalize parse s o = r at h hp
  cases hp with
  | raise hr => cases h; rw [hr]; exact .inl ⟨rfl, rfl⟩
  | empty hr => cases h
  | @loop first t r hr hl =>
    refine .inr ⟨first, t, r, hr, by rw [hr]; rfl, hl, ?_⟩
    obtain ⟨y, u⟩ := r
    cases y with
    | error e' => cases h; rfl
    | ok more => cases h

/-- `parse` returns `[]` exactly when the first parser run returns no node -/
theorem parse_nil_iff (s : Str) (o : Opts) :
    (parse s o).1 = .parts [] ↔ (runParser s o []).1 = .ok none := by
  have hp := parse_spec s o
  generalize parse s o = r at hp
  cases hp with
  | raise hr => rw [hr]; exact ⟨fun h => (by cases h), fun h => (by cases h)⟩
  | empty hr => rw [hr]; exact ⟨fun _ => rfl, fun _ => rfl⟩
  | @loop first t r hr hl =>
    rw [hr]
    obtain ⟨y, u⟩ := r
    cases y with
    | error e => exact ⟨fun h => (by cases h), fun h => (by cases h)⟩
    | ok more => exact ⟨fun h => (by cases h), fun h => (by cases h)⟩

end Bashlex.C13
