/-
  C13, part 4: algebra of the span helpers used by the loop of `parse`.

  * `Node.mapPos_mapPos`, `Node.mapPos_id`, `Node.pos_mapPos`;
  * `Node.shift_shift : shift a (shift b n) = shift (b + a) n`, `Node.shift_zero`;
  * `Node.preorder_mapPos_eq`: the pre-order of a re-spanned tree is the re-spanned pre-order
    (stronger than `Props.preorder_mapPos` of C15, which speaks about the spans only);
  * `Node.lastHeredocEnd_shift`, `nextIndex_shift : nextIndex (shift k n) = nextIndex n + k`.
-/
import Bashlex.Model.Parse

namespace Bashlex

namespace Node

/-! ### `mapPos` is a functor action on spans -/

mutual
theorem mapPos_mapPos (f g : Span → Span) : ∀ n : Node,
    mapPos f (mapPos g n) = mapPos (fun p => f (g p)) n
  | operator .. | reservedword .. | pipe .. | parameter .. | tilde .. | heredoc .. => by
    simp [mapPos]
  | list _ ps | pipeline _ ps | ifN _ ps | forN _ ps | whileN _ ps | untilN _ ps
  | caseN _ ps | pattern _ ps | command _ ps | unimplemented _ ps | function _ _ _ ps
  | word _ _ ps | assignment _ _ ps => by
    simp [mapPos, mapPosL_mapPosL f g ps]
  | compound _ l r => by
    simp [mapPos, mapPosL_mapPosL f g l, mapPosL_mapPosL f g r]
  | redirect _ _ _ o _ h _ => by
    simp [mapPos, mapPosO_mapPosO f g o, mapPosO_mapPosO f g h]
  | commandsubstitution _ c | processsubstitution _ c => by
    simp [mapPos, mapPos_mapPos f g c]
theorem mapPosL_mapPosL (f g : Span → Span) : ∀ l : List Node,
    mapPosL f (mapPosL g l) = mapPosL (fun p => f (g p)) l
  | [] => rfl
  | n :: ns => by simp [mapPosL, mapPos_mapPos f g n, mapPosL_mapPosL f g ns]
theorem mapPosO_mapPosO (f g : Span → Span) : ∀ o : Option Node,
    mapPosO f (mapPosO g o) = mapPosO (fun p => f (g p)) o
  | none => rfl
  | some n => by simp [mapPosO, mapPos_mapPos f g n]
end

mutual
theorem mapPos_id : ∀ n : Node, mapPos (fun p => p) n = n
  | operator .. | reservedword .. | pipe .. | parameter .. | tilde .. | heredoc .. => by
    simp [mapPos]
  | list _ ps | pipeline _ ps | ifN _ ps | forN _ ps | whileN _ ps | untilN _ ps
  | caseN _ ps | pattern _ ps | command _ ps | unimplemented _ ps | function _ _ _ ps
  | word _ _ ps | assignment _ _ ps => by
    simp [mapPos, mapPosL_id ps]
  | compound _ l r => by
    simp [mapPos, mapPosL_id l, mapPosL_id r]
  | redirect _ _ _ o _ h _ => by
    simp [mapPos, mapPosO_id o, mapPosO_id h]
  | commandsubstitution _ c | processsubstitution _ c => by
    simp [mapPos, mapPos_id c]
theorem mapPosL_id : ∀ l : List Node, mapPosL (fun p => p) l = l
  | [] => rfl
  | n :: ns => by simp [mapPosL, mapPos_id n, mapPosL_id ns]
theorem mapPosO_id : ∀ o : Option Node, mapPosO (fun p => p) o = o
  | none => rfl
  | some n => by simp [mapPosO, mapPos_id n]
end

theorem pos_mapPos (f : Span → Span) (n : Node) : (mapPos f n).pos = f n.pos := by
  cases n <;> simp [mapPos, pos]

theorem mapPosL_eq_map (f : Span → Span) : ∀ l : List Node, mapPosL f l = l.map (mapPos f)
  | [] => rfl
  | n :: ns => by simp [mapPosL, mapPosL_eq_map f ns]

/-! ### the pre-order of a re-spanned tree -/

mutual
/-- every node of the pre-order of `mapPos f n` is the `mapPos f` of the corresponding node (a
    subtree) of the pre-order of `n` -/
theorem preorder_mapPos_eq (f : Span → Span) : ∀ n : Node,
    (mapPos f n).preorder = n.preorder.map (mapPos f)
  | operator .. | reservedword .. | pipe .. | parameter .. | tilde .. | heredoc .. => by
    simp [mapPos, preorder]
  | list _ ps | pipeline _ ps | ifN _ ps | forN _ ps | whileN _ ps | untilN _ ps
  | caseN _ ps | pattern _ ps | command _ ps | unimplemented _ ps | function _ _ _ ps
  | word _ _ ps | assignment _ _ ps => by
    simp [mapPos, preorder, preorderL_mapPos_eq f ps]
  | compound _ l r => by
    simp [mapPos, preorder, preorderL_mapPos_eq f l, preorderL_mapPos_eq f r]
  | redirect _ _ _ o _ h _ => by
    simp [mapPos, preorder, preorderO_mapPos_eq f o, preorderO_mapPos_eq f h]
  | commandsubstitution _ c | processsubstitution _ c => by
    simp [mapPos, preorder, preorder_mapPos_eq f c]
theorem preorderL_mapPos_eq (f : Span → Span) : ∀ l : List Node,
    preorderL (mapPosL f l) = (preorderL l).map (mapPos f)
  | [] => rfl
  | n :: ns => by simp [mapPosL, preorderL, preorder_mapPos_eq f n, preorderL_mapPos_eq f ns]
theorem preorderO_mapPos_eq (f : Span → Span) : ∀ o : Option Node,
    preorderO (mapPosO f o) = (preorderO o).map (mapPos f)
  | none => rfl
  | some n => by simp [mapPosO, preorderO, preorder_mapPos_eq f n]
end

/-! ### `shift` -/

theorem shift_shift (a b : Nat) (n : Node) : shift a (shift b n) = shift (b + a) n := by
  unfold shift
  rw [mapPos_mapPos]
  congr 1
  funext p
  simp only [Nat.add_assoc]

theorem shift_zero (n : Node) : shift 0 n = n := by
  unfold shift
  exact mapPos_id n

theorem pos_shift (k : Nat) (n : Node) : (shift k n).pos = (n.pos.1 + k, n.pos.2 + k) :=
  pos_mapPos _ n

theorem map_shift_shift (a b : Nat) (l : List Node) :
    (l.map (shift b)).map (shift a) = l.map (shift (b + a)) := by
  rw [List.map_map]
  congr 1
  funext n
  exact shift_shift a b n

theorem map_shift_zero (l : List Node) : l.map (shift 0) = l := by
  have : (shift 0 : Node → Node) = id := funext shift_zero
  rw [this, List.map_id]

/-- the end of a here-document body node, `none` for every other node -/
def heredocEnd? : Node → Option Nat
  | heredoc p _ => some p.2
  | _ => none

theorem lastHeredocEnd_eq (n : Node) :
    n.lastHeredocEnd =
      match n.preorder.filterMap heredocEnd? with
      | [] => none
      | e :: es => some (es.foldl max e) := rfl

theorem heredocEnd?_shift (k : Nat) (n : Node) :
    heredocEnd? (shift k n) = (heredocEnd? n).map (· + k) := by
  cases n <;> simp [shift, mapPos, heredocEnd?]

theorem filterMap_heredocEnd?_shift (k : Nat) (l : List Node) :
    (l.map (shift k)).filterMap heredocEnd? = (l.filterMap heredocEnd?).map (· + k) := by
  induction l with
  | nil => rfl
  | cons n ns ih =>
    rw [List.map_cons, List.filterMap_cons, List.filterMap_cons, heredocEnd?_shift, ih]
    cases heredocEnd? n <;> simp

theorem foldl_max_add (k : Nat) : ∀ (es : List Nat) (e : Nat),
    (es.map (· + k)).foldl max (e + k) = es.foldl max e + k := by
  intro es
  induction es with
  | nil => intro e; rfl
  | cons x xs ih =>
    intro e
    simp only [List.map_cons, List.foldl_cons]
    have : max (e + k) (x + k) = max e x + k := by omega
    rw [this, ih]

/-- `_endfinder` on a shifted tree: the shifted end -/
theorem lastHeredocEnd_shift (k : Nat) (n : Node) :
    (shift k n).lastHeredocEnd = n.lastHeredocEnd.map (· + k) := by
  rw [lastHeredocEnd_eq, lastHeredocEnd_eq]
  have h : (shift k n).preorder = n.preorder.map (shift k) := preorder_mapPos_eq _ n
  rw [h, filterMap_heredocEnd?_shift]
  cases n.preorder.filterMap heredocEnd? with
  | nil => rfl
  | cons e es => simp only [List.map_cons, Option.map_some, foldl_max_add]

end Node

/-- the restart index of the loop of `parse` moves with the tree -/
theorem nextIndex_shift (k : Nat) (n : Node) : nextIndex (n.shift k) = nextIndex n + k := by
  unfold nextIndex
  rw [Node.lastHeredocEnd_shift, Node.pos_shift]
  cases n.lastHeredocEnd with
  | none => rfl
  | some e => simp only [Option.map_some]; omega

end Bashlex
