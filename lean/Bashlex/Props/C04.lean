/-
  Property C04 ("span text fidelity") at model level, above an explicit hypothesis on the token
  source.

  Property text: slicing the input with a node's span yields that node's own spelling:
  reserved-word, operator and pipe nodes cover exactly their recorded text; word and assignment
  nodes cover exactly one whole shell word; parameter, tilde, command- and process-substitution
  nodes cover exactly `$name`/`${…}`, `~…`, `$(…)` or a backquoted string, `<(…)`/`>(…)`; a
  redirect starts at its file descriptor or operator and its operator and target occur there.
  Executable specification: `Spec.localTextViol` / `Spec.textOK` (`Spec/Tree.lean`).

  ## The statement on the token source (`C04/TokText.lean`) — PROVED: `C04/TokTextProof.lean`

  `TokText.next`: from every `Good` state of a parser object over the line `g.line` (C11's
  invariant: the tape holds that line, cursor inside) whose `_eol_ungetc_lookahead` slot is
  empty, every token `token()` delivers satisfies the decidable relation `TT g.line t`, and the
  slot is empty again.  `TT`: the token's spelling followed by a residue `r` is the text of the
  line under the token's span with some backslash-newline pairs deleted (`Del sl (v ++ r)`,
  `C04/TTDel.lean`: the ghost relation of `_getc`; it gives `stripContinuations sl = v ++ r` when
  the VALUE holds no adjacent backslash-newline, and `sl = v ++ r` when `sl` holds no
  continuation), where the residue `r` is empty or one of the recorded defect shapes, kept as
  explicit alternatives:
    D31      `r = "\"`, the rest of the line is the final newline  (witness `a &\` → `&` spans `&\`)
    D32      `r = "<\"` / `">\"`, next character a newline          (witness `a<\⏎b` → WORD `a` spans `a<\`)
    D31+D32  `r = "<"` / `">"`, the rest of the line is `\⏎`        (witness `a<\` → WORD `a` spans `a<`)
    the NEWLINE token read while here-documents were pending spans their bodies
             (witness `a <<E⏎x⏎E⏎` → NEWLINE at (5,10));
  a NUMBER token spans a string of digits denoting its value; only NEWLINE reaches the last
  character of the line; values with a backslash belong to WORD / ASSIGNMENT_WORD tokens.
  `TokText.gather`: `gatherheredocuments` leaves an empty slot empty.
  (The slot matters: with a character in it that did not come from the tape the relation is
  plainly false, so it is part of the state invariant; `C04/Eol.lean` proves that no semantic
  action touches it — a walk through all action functions, `keepsEol_action`.)
  `theorem tokText : TokText` (`C04/TokTextProof.lean`, files `C04/TT*.lean`) proves it for the
  real tokenizer: a ghost-text argument through `_readtoken`, `_readtokenword`,
  `_parse_matched_pair`, `_parse_comsub`, `gatherheredocuments`.  `Props/C04Total.lean` has the
  theorems below without the hypothesis.  The FIRST version of `TT` (with
  `stripContinuations sl = stripContinuations v ++ r`; validated by evaluation only) was FALSE of
  the model: witnesses `"\\\⏎⏎"` (a WORD whose value holds a backslash-newline that was not
  adjacent in the text) and `<()<\`, see `C04/TokText.lean`; the evaluation (`Validate.lean`,
  extended by a grid with quotes and parentheses) stays as a cross-check of the statement.
  C11's hypothesis `TokLen` is not needed: `TT.tl` (and `Props/C11Total.lean`).

  ## What is proved (all inputs, all options; `C04/*.lean`)

  * **`C04_prov`** (`parse_C04`, `parserRun_C04`): under `TokText`, every *textual* node of every
    tree `parse` returns — reserved word, operator, pipe, redirect, word, assignment, at any
    depth, substitution commands included — satisfies `NodeOK`: it was built from tokens that
    were delivered, on the line of the parser run that built it, and satisfy `TT` on that line
    (`Tk`); its span is the tokens' span moved to its place.  Frames (`Src`): the root frame of
    the parser run over `s.drop J` (the loop of `parse` restarts on suffixes and moves the nodes
    by `J`), and nested frames for the nested parsers that ran over pieces of word token VALUES.
    Second half: the nodes of the *spine* (`spine n`: words are leaves — the nodes outside words,
    which the parser builds itself) are `LeafOK` in the ROOT frame.
    Architecture as C07/C12: one lemma per action function (`C04/ProvActions.lean`, a small walker
    tactic, generic in the traversal `Pred.deep`), dispatch over the generated grammar with a
    kernel-decided check of the production table against C12's sorts (`C04/Engine.lean`: no
    NUMBER / EOF token outside the redirection productions, reserved types in the slots that
    become reserved-word / operator / pipe nodes, BANG in slot 1 of `pipeline_command`, …),
    `LR.run_sound_ord` with the conjunction of C11's state invariant, the empty slot, C12's
    sorts and the two provenance invariants (`C04/Run.lean`), `G_resolve`, induction on the
    nesting budget, the loop of `parse`.
  * **`C04_spine_leaf_text`** (reserved word / operator / pipe outside words): the text of the
    INPUT under the node's span is its recorded word up to the residues above (`TokTextAt`); the
    recorded word holds no backslash.  Exclusion D19: the `!` of a pipeline built from a
    `timespec` sits at an empty span (witness `time -p a` with `proceedonerror`).
    **`C04_leaf_text`**: the same for every such node at any depth, on its frame's line, with
    the transport lemma `Src.slice_eq`: when no enclosing word's value differs from its source
    text (`fr.cont = false`) that text IS `Str.slice s p.1 p.2`.
  * **`C04_spine_operator`**, **`C04_spine_pipe`**: link to `Spec.localTextViol` — for an operator
    / pipe node outside words whose span lies in the input, every signature raised is
    `newline-operator-extended-over-heredoc` or `operator-span-includes-final-backslash`.
    `C04_operator`, `C04_pipe`: at any depth, with the alternative `DeepDefect` (inside a
    substitution: an enclosing word's value differs from its text, or D31 at the end of the
    substitution body).  `reserved_sigs`: every signature the reserved-word clause can raise is a
    recorded defect.
  * **`C04_partial`** (= `C04_conditional`): under `TokText` and C03's `TokSpansAll` (spans lie in
    the input), every signature `Spec.textOK` raises on a tree of `parse` is a recorded defect
    (`C04_known`), or `Unlinked`: it comes from a word / assignment / substitution subtree of the
    spine, or is the local clause of a redirect (`textOK_origin`: where signatures come from).
  * **`C04_redirect`**: a redirect node is built from `first` (its file-descriptor NUMBER or the
    operator), `op`, `out`: `type` is the operator token's value and the operator's text on the
    line is `type` (`TokTextAt`); a numeric `input` is the value of the NUMBER token whose text is
    a string of digits denoting it (`NumTextAt`); the output word sits at `out`'s span, otherwise
    the output is `out`'s value; unless it is a here-document redirect the span is
    `(first.lexpos, out.endlexpos)` moved.
  * **`C04_word_span`**: a word / assignment node sits at the span of one delivered token, whose
    text on the line is its value up to deleted continuations and residues (`TokDelAt`; in the
    `stripContinuations` form `TokTextAt` when the value holds no adjacent backslash-newline —
    in general that form is false: witness `"\\\⏎⏎"`); its parts are `C07.PartsOK`
    with respect to the value of THAT token; `value_slice`: when the value is a prefix of the
    word's text and no enclosing word's value differs from its text, slices of the input inside
    the word are slices of the value — so C07's span formulas (`dollar_span_tight`) speak about
    the input: `dollar_text`: a tight `$(…)` part covers `$(` … `)` of the value.

  ## Not proved (what `Unlinked` leaves open)

  * (`TokText` itself is proved: `C04/TokTextProof.lean`.)
  * The word clauses of `localTextViol` (`word-not-whole`, `word-cut-short`, `word-starts-late`):
    statements about the characters around a WORD token (tokenizer).
  * `redirect-text` needs that the NUMBER token is immediately followed by the operator token
    (a fact about consecutive tokens); `redirect-target-before-operator` needs token order (C03's
    `TokSpans`).  The `pos` of a here-document redirect is read back from the redirect store
    after `makeheredoc` rewrote it: not covered (C03's `TokSpans.gather` assumes its start fixed).
  * Parameter / tilde / substitution nodes: offsets into the token value by C07 (`PartsOK`);
    their text clauses follow from `value_slice` only where the value is the source text.
  * The context marks of `textOKN` (`+cont`, `+mlsub`, …) below words are not related to the
    frames here: the deep provenance invariant is flat (every node of the pre-order).

  ## Observations on the specification / findings
  * `if a; t\⏎hen<\⏎b; fi` → `reservedword-text` without a mark: the D32 excuse of the
    reserved-word clause compares the RAW text (`t == w ++ "<\"`); with a continuation inside
    the word it does not match (kernel-checked: `witness_d32_cont`).  The model-level statement
    `C04_leaf_text` has the stripped text.
  * non-strict mode, pending here-document at the end of the input: the NEWLINE token ends one
    past the line (`a <<E` with `strictmode=False`: NEWLINE at (5,7) on a line of length 6).
  * `a<\` (D31+D32): the WORD `a` spans `a<` and the `<` is lost (no LESS token follows).
-/
import Bashlex.Props.C04.Decomp
import Bashlex.Props.C04.Validate
import Bashlex.Props.C03

namespace Bashlex.C04
open Bashlex Bashlex.M Bashlex.Node Bashlex.Spec
set_option linter.unusedSimpArgs false
set_option linter.unusedVariables false

/-! ## provenance -/

/-- **C04, provenance** — under `TokText`, for every input and all options: every textual node
    of every tree `parse` returns satisfies `NodeOK (s.drop J) J`, where `J` is the offset of the
    suffix of `s` the part was parsed from -/
theorem C04_prov (hT : TokText) (s : Str) (o : Opts) (parts : List Node)
    (h : (parse s o).1 = .parts parts) :
    ∀ n ∈ parts, ∃ J, J ≤ s.length ∧
      (∀ m ∈ n.preorder, isTextual m = true → NodeOK (s.drop J) J m) ∧
      (∀ m ∈ spine n, isTextual m = true → LeafOK (Tape.ofInput (s.drop J)).line J m) := by
  intro n hn
  obtain ⟨J, hJ, h1, h2⟩ := parse_C04 hT s o parts h n hn
  exact ⟨J, hJ, h1, h2⟩

theorem C04_prov_single (hT : TokText) (s : Str) (o : Opts) (n : Node)
    (h : (parsesingle s o).1 = .single (some n)) :
    (∀ m ∈ n.preorder, isTextual m = true → NodeOK s 0 m) ∧
    (∀ m ∈ spine n, isTextual m = true → LeafOK (Tape.ofInput s).line 0 m) := by
  obtain ⟨h1, h2⟩ := parsesingle_C04 hT s o n h
  exact ⟨h1, h2⟩

/-! ## reserved words, operators, pipes -/

/-- **C04, reserved-word / operator / pipe nodes** -/
theorem C04_leaf_text (hT : TokText) (s : Str) (o : Opts) (parts : List Node)
    (h : (parse s o).1 = .parts parts) :
    ∀ n ∈ parts, ∀ m ∈ n.preorder, ∀ p w,
      (m = .reservedword p w ∨ m = .operator p w ∨ m = .pipe p w) →
      (m = .reservedword p ['!'] ∧ p.1 = p.2) ∨
      ∃ J fr, J ≤ s.length ∧ Src (s.drop J) fr ∧ fr.off + J ≤ p.1 ∧ p.1 < p.2 ∧
        w.contains '\\' = false ∧
        TokTextAt fr.line (p.2 - (fr.off + J))
          (Str.slice fr.line (p.1 - (fr.off + J)) (p.2 - (fr.off + J))) w ∧
        (fr.cont = false → p.2 ≤ s.length →
          Str.slice s p.1 p.2 = Str.slice fr.line (p.1 - (fr.off + J)) (p.2 - (fr.off + J))) ∧
        (fr.nested = false →
          fr.line = (Tape.ofInput (s.drop J)).line ∧ fr.off = 0 ∧ fr.cont = false) := by
  intro n hn m hm p w hshape
  obtain ⟨J, hJ, hall, _⟩ := C04_prov hT s o parts h n hn
  have htx : isTextual m = true := by rcases hshape with rfl | rfl | rfl <;> rfl
  rcases leaf_text hshape (hall m hm htx) with h | ⟨fr, hs, h1, h2, h3, h4, h5⟩
  · exact Or.inl h
  · refine Or.inr ⟨J, fr, hJ, hs, h1, h2, h3, h5, ?_, ?_⟩
    · intro hc hin
      refine slice_in_frame hs hc h1 ?_
      cases hnest : fr.nested with
      | true => exact h4 hnest
      | false =>
        obtain ⟨_, _, hlim, _⟩ := hs.root_of hnest
        rw [hlim, List.length_drop]; omega
    · intro hnest
      obtain ⟨a, b, _, c⟩ := hs.root_of hnest
      exact ⟨a, b, c⟩

/-- every signature the reserved-word clause of `localTextViol` can raise is a recorded defect
    (D31; D32; `reservedword-text`: D19, witness `time -p a` with `proceedonerror`, and D32 with a
    continuation inside the word, witness `if a; t\⏎hen<\⏎b; fi`) -/
theorem reserved_sigs (s : Str) (p : Span) (w : Str) :
    ∀ v ∈ localTextViol s (.reservedword p w),
      v = "operator-span-includes-final-backslash" ∨ v = "reservedword-text+redircont" ∨
      v = "reservedword-text" := by
  intro v hv
  have : localTextViol s (.reservedword p w) =
      if stripContinuations (Str.slice s p.1 p.2) == w then []
      else if stripContinuations (Str.slice s p.1 p.2) == w ++ ['\\'] &&
          (s.drop p.2 == [] || s.drop p.2 == ['\n']) then
        ["operator-span-includes-final-backslash"]
      else if (Str.slice s p.1 p.2 == w ++ ['<', '\\'] || Str.slice s p.1 p.2 == w ++ ['>', '\\']) then
        ["reservedword-text+redircont"]
      else ["reservedword-text"] := rfl
  rw [this] at hv
  repeat' split at hv
  all_goals simp_all

theorem listOps_of_schema {p : Span} {op : Str} (h : localSchemaViol (.operator p op) = []) :
    listOps.contains op = true := by
  unfold localSchemaViol at h
  simp only [] at h
  cases hc : listOps.contains op with
  | true => rfl
  | false => rw [hc] at h; simp at h

theorem pipeOps_of_schema {p : Span} {w : Str} (h : localSchemaViol (.pipe p w) = []) :
    pipeOps.contains w = true := by
  unfold localSchemaViol at h
  simp only [] at h
  cases hc : pipeOps.contains w with
  | true => rfl
  | false => rw [hc] at h; simp at h

/-- the node was built by a nested parser (it lies inside a substitution), and an enclosing word's
    value differs from its source text (`+cont`: offsets are offsets into the value), or the node
    shows D31 at the end of the substitution body -/
def DeepDefect (s : Str) (p : Span) (w : Str) : Prop :=
  ∃ J fr, J ≤ s.length ∧ Src (s.drop J) fr ∧ fr.nested = true ∧ fr.off + J ≤ p.1 ∧
    (fr.cont = true ∨ NestedD31 s p w)

/-- **C04, operator nodes** — link to the executable specification -/
theorem C04_operator (hT : TokText) (s : Str) (o : Opts) (parts : List Node)
    (h : (parse s o).1 = .parts parts) :
    ∀ n ∈ parts, ∀ m ∈ n.preorder, ∀ p op, m = .operator p op → p.2 ≤ s.length →
      (∀ v ∈ localTextViol s m, v = "newline-operator-extended-over-heredoc" ∨
        v = "operator-span-includes-final-backslash") ∨ DeepDefect s p op := by
  intro n hn m hm p op hshape hin
  have hops : listOps.contains op = true := by
    have := C12.C12_only_pipelines s o parts h n hn m hm (by rintro q ps rfl; cases hshape)
    rw [hshape] at this
    exact listOps_of_schema this
  rcases C04_leaf_text hT s o parts h n hn m hm p op (Or.inr (Or.inl hshape)) with
    ⟨hd, _⟩ | ⟨J, fr, hJ, hs, h1, h2, _, htext, htr, hroot⟩
  · rw [hshape] at hd; cases hd
  subst hshape
  cases hc : fr.cont with
  | true =>
    cases hnest : fr.nested with
    | true => exact Or.inr ⟨J, fr, hJ, hs, hnest, h1, Or.inl hc⟩
    | false => rw [(hroot hnest).2.2] at hc; cases hc
  | false =>
    rw [← htr hc hin] at htext
    have hsig := operator_sig hops htext
    cases hnest : fr.nested with
    | false =>
      left
      intro v hv
      rcases hsig v hv with h | h | ⟨_, ⟨_, hno⟩, hd⟩
      · exact Or.inl h
      · exact Or.inr h
      · exfalso
        apply hno
        obtain ⟨hl, ho, _⟩ := hroot hnest
        rw [hl, ho] at hd
        simp only [Nat.zero_add] at hd
        have := root_rest (s := s) (J := J) (e := p.2 - J) hJ (by omega) hd
        rw [ho] at h1
        have he : p.2 - J + J = p.2 := by omega
        rwa [he] at this
    | true =>
      by_cases hD : NestedD31 s p op
      · exact Or.inr ⟨J, fr, hJ, hs, hnest, h1, Or.inr hD⟩
      · left
        intro v hv
        rcases hsig v hv with h | h | ⟨_, hD', _⟩
        · exact Or.inl h
        · exact Or.inr h
        · exact absurd hD' hD

/-- **C04, pipe nodes** — link to the executable specification -/
theorem C04_pipe (hT : TokText) (s : Str) (o : Opts) (parts : List Node)
    (h : (parse s o).1 = .parts parts) :
    ∀ n ∈ parts, ∀ m ∈ n.preorder, ∀ p w, m = .pipe p w → p.2 ≤ s.length →
      (∀ v ∈ localTextViol s m, v = "operator-span-includes-final-backslash") ∨
        DeepDefect s p w := by
  intro n hn m hm p w hshape hin
  have hops : pipeOps.contains w = true := by
    have := C12.C12_only_pipelines s o parts h n hn m hm (by rintro q ps rfl; cases hshape)
    rw [hshape] at this
    exact pipeOps_of_schema this
  rcases C04_leaf_text hT s o parts h n hn m hm p w (Or.inr (Or.inr hshape)) with
    ⟨hd, _⟩ | ⟨J, fr, hJ, hs, h1, h2, _, htext, htr, hroot⟩
  · rw [hshape] at hd; cases hd
  subst hshape
  cases hc : fr.cont with
  | true =>
    cases hnest : fr.nested with
    | true => exact Or.inr ⟨J, fr, hJ, hs, hnest, h1, Or.inl hc⟩
    | false => rw [(hroot hnest).2.2] at hc; cases hc
  | false =>
    rw [← htr hc hin] at htext
    have hsig := pipe_sig hops htext
    cases hnest : fr.nested with
    | false =>
      left
      intro v hv
      rcases hsig v hv with h | ⟨_, ⟨_, hno⟩, hd⟩
      · exact h
      · exfalso
        apply hno
        obtain ⟨hl, ho, _⟩ := hroot hnest
        rw [hl, ho] at hd
        simp only [Nat.zero_add] at hd
        have := root_rest (s := s) (J := J) (e := p.2 - J) hJ (by omega) hd
        rw [ho] at h1
        have he : p.2 - J + J = p.2 := by omega
        rwa [he] at this
    | true =>
      by_cases hD : NestedD31 s p w
      · exact Or.inr ⟨J, fr, hJ, hs, hnest, h1, Or.inr hD⟩
      · left
        intro v hv
        rcases hsig v hv with h | ⟨_, hD', _⟩
        · exact h
        · exact absurd hD' hD


/-! ## the spine: the nodes outside words -/

mutual
theorem spine_sub : ∀ (n : Node) (m : Node), m ∈ spine n → m ∈ n.preorder
  | .operator .., m, h | .reservedword .., m, h | .pipe .., m, h | .parameter .., m, h
  | .tilde .., m, h | .heredoc .., m, h => by simpa [spine, preorder] using h
  | .word p w ps, m, h | .assignment p w ps, m, h => by
    simp only [spine, List.mem_cons, List.mem_nil_iff, or_false] at h
    subst h
    exact C12.self_mem_preorder _
  | .list _ ps, m, h | .pipeline _ ps, m, h | .ifN _ ps, m, h | .forN _ ps, m, h
  | .whileN _ ps, m, h | .untilN _ ps, m, h | .caseN _ ps, m, h | .pattern _ ps, m, h
  | .command _ ps, m, h | .unimplemented _ ps, m, h | .function _ _ _ ps, m, h => by
    simp only [spine, preorder, List.mem_cons] at h ⊢
    rcases h with h | h
    · exact Or.inl h
    · exact Or.inr (spineL_sub ps m h)
  | .compound _ l r, m, h => by
    simp only [spine, preorder, List.mem_cons, List.mem_append] at h ⊢
    rcases h with h | h | h
    · exact Or.inl h
    · exact Or.inr (Or.inl (spineL_sub l m h))
    · exact Or.inr (Or.inr (spineL_sub r m h))
  | .redirect _ _ _ o _ hd _, m, h => by
    simp only [spine, preorder, List.mem_cons, List.mem_append] at h ⊢
    rcases h with h | h | h
    · exact Or.inl h
    · exact Or.inr (Or.inl (spineO_sub o m h))
    · exact Or.inr (Or.inr (spineO_sub hd m h))
  | .commandsubstitution _ c, m, h | .processsubstitution _ c, m, h => by
    simp only [spine, preorder, List.mem_cons] at h ⊢
    rcases h with h | h
    · exact Or.inl h
    · exact Or.inr (spine_sub c m h)
theorem spineL_sub : ∀ (l : List Node) (m : Node), m ∈ spineL l → m ∈ preorderL l
  | [], m, h => by simp [spineL] at h
  | n :: ns, m, h => by
    simp only [spineL, preorderL, List.mem_append] at h ⊢
    rcases h with h | h
    · exact Or.inl (spine_sub n m h)
    · exact Or.inr (spineL_sub ns m h)
theorem spineO_sub : ∀ (o : Option Node) (m : Node), m ∈ spineO o → m ∈ preorderO o
  | none, m, h => by simp [spineO] at h
  | some n, m, h => by
    simp only [spineO, preorderO] at h ⊢
    exact spine_sub n m h
end

/-- a span of the part parsed from `s.drop J`, seen on the line of that parser run -/
theorem root_slice {s : Str} {J : Nat} (hJ : J ≤ s.length) {p : Span} (h1 : J ≤ p.1)
    (h2 : p.2 ≤ s.length) :
    Str.slice s p.1 p.2 = Str.slice (Tape.ofInput (s.drop J)).line (p.1 - J) (p.2 - J) := by
  have := slice_in_frame (s := s) (J := J) Src.root rfl (p := p) (by simpa using h1)
    (by simp only [List.length_drop]; omega)
  simpa using this

/-- **C04, reserved-word / operator / pipe nodes outside words**: the text of the input under
    the node's span is the node's recorded word, up to the residues (`TokTextAt`, on the line
    of the parser run that found the part: `s.drop J` plus the newline `tokenizer.__init__`
    appends).  Exclusion D19. -/
theorem C04_spine_leaf_text (hT : TokText) (s : Str) (o : Opts) (parts : List Node)
    (h : (parse s o).1 = .parts parts) :
    ∀ n ∈ parts, ∃ J, J ≤ s.length ∧ ∀ m ∈ spine n, ∀ p w,
      (m = .reservedword p w ∨ m = .operator p w ∨ m = .pipe p w) →
      (m = .reservedword p ['!'] ∧ p.1 = p.2) ∨
      (J ≤ p.1 ∧ p.1 < p.2 ∧ w.contains '\\' = false ∧
        (p.2 ≤ s.length →
          TokTextAt (Tape.ofInput (s.drop J)).line (p.2 - J) (Str.slice s p.1 p.2) w)) := by
  intro n hn
  obtain ⟨J, hJ, _, hsp⟩ := C04_prov hT s o parts h n hn
  refine ⟨J, hJ, ?_⟩
  intro m hm p w hshape
  have htx : isTextual m = true := by rcases hshape with rfl | rfl | rfl <;> rfl
  rcases leaf_text_fr hshape (hsp m hm htx) with h | ⟨h1, h2, h3, h4⟩
  · exact Or.inl h
  · refine Or.inr ⟨h1, h2, h3, fun hin => ?_⟩
    rw [root_slice hJ h1 hin]
    exact h4

/-- **C04, operator nodes outside words** — link to the executable specification: the only
    signatures raised are the two recorded defects -/
theorem C04_spine_operator (hT : TokText) (s : Str) (o : Opts) (parts : List Node)
    (h : (parse s o).1 = .parts parts) :
    ∀ n ∈ parts, ∀ m ∈ spine n, ∀ p op, m = .operator p op → p.2 ≤ s.length →
      ∀ v ∈ localTextViol s m, v = "newline-operator-extended-over-heredoc" ∨
        v = "operator-span-includes-final-backslash" := by
  intro n hn m hm p op hshape hin v hv
  have hmp := spine_sub n m hm
  have hops : listOps.contains op = true := by
    have := C12.C12_only_pipelines s o parts h n hn m hmp (by rintro q ps rfl; cases hshape)
    rw [hshape] at this
    exact listOps_of_schema this
  obtain ⟨J, hJ, hall⟩ := C04_spine_leaf_text hT s o parts h n hn
  rcases hall m hm p op (Or.inr (Or.inl hshape)) with ⟨hd, _⟩ | ⟨h1, h2, _, htext⟩
  · rw [hshape] at hd; cases hd
  subst hshape
  rcases operator_sig hops (htext hin) v hv with h | h | ⟨_, ⟨_, hno⟩, hd⟩
  · exact Or.inl h
  · exact Or.inr h
  · exfalso
    apply hno
    have := root_rest (s := s) (J := J) (e := p.2 - J) hJ (by omega) hd
    have he : p.2 - J + J = p.2 := by omega
    rwa [he] at this

/-- **C04, pipe nodes outside words** -/
theorem C04_spine_pipe (hT : TokText) (s : Str) (o : Opts) (parts : List Node)
    (h : (parse s o).1 = .parts parts) :
    ∀ n ∈ parts, ∀ m ∈ spine n, ∀ p w, m = .pipe p w → p.2 ≤ s.length →
      ∀ v ∈ localTextViol s m, v = "operator-span-includes-final-backslash" := by
  intro n hn m hm p w hshape hin v hv
  have hmp := spine_sub n m hm
  have hops : pipeOps.contains w = true := by
    have := C12.C12_only_pipelines s o parts h n hn m hmp (by rintro q ps rfl; cases hshape)
    rw [hshape] at this
    exact pipeOps_of_schema this
  obtain ⟨J, hJ, hall⟩ := C04_spine_leaf_text hT s o parts h n hn
  rcases hall m hm p w (Or.inr (Or.inr hshape)) with ⟨hd, _⟩ | ⟨h1, h2, _, htext⟩
  · rw [hshape] at hd; cases hd
  subst hshape
  rcases pipe_sig hops (htext hin) v hv with h | ⟨_, ⟨_, hno⟩, hd⟩
  · exact h
  · exfalso
    apply hno
    have := root_rest (s := s) (J := J) (e := p.2 - J) hJ (by omega) hd
    have he : p.2 - J + J = p.2 := by omega
    rwa [he] at this

/-- a leaf of a `Strict` tree (C03) ends within the input -/
theorem leaf_in_range {len : Nat} {n m : Node} (h : C03.Strict len n) (hm : m ∈ n.preorder)
    (hleaf : m.children = []) (hnp : ∀ p ps, m ≠ .pipeline p ps) : m.pos.2 ≤ len := by
  rcases h m hm with ht | hl | ⟨_, hr⟩
  · exfalso
    rw [C03.tainted_iff] at ht
    rcases ht with ht | ⟨c, hc, _⟩
    · cases m <;> simp [C03.isD19] at ht
      exact hnp _ _ rfl
    · rw [hleaf] at hc; cases hc
  · exact hl.rng
  · exact hr

/-- `C04_operator` with the span condition discharged by C03 (under its hypothesis) -/
theorem C04_operator' (hT : TokText) (hS : C03.TokSpansAll) (s : Str) (o : Opts)
    (parts : List Node) (h : (parse s o).1 = .parts parts) :
    ∀ n ∈ parts, ∀ m ∈ n.preorder, ∀ p op, m = .operator p op →
      (∀ v ∈ localTextViol s m, v = "newline-operator-extended-over-heredoc" ∨
        v = "operator-span-includes-final-backslash") ∨ DeepDefect s p op := by
  intro n hn m hm p op hshape
  obtain ⟨⟨TI, hTI⟩, hR⟩ := hS
  have hstrict := C03.parse_strict hTI hR s o parts h n hn
  have := leaf_in_range hstrict hm (by rw [hshape]; rfl) (by rintro q ps rfl; cases hshape)
  rw [hshape] at this
  exact C04_operator hT s o parts h n hn m hm p op hshape this

theorem C04_pipe' (hT : TokText) (hS : C03.TokSpansAll) (s : Str) (o : Opts)
    (parts : List Node) (h : (parse s o).1 = .parts parts) :
    ∀ n ∈ parts, ∀ m ∈ n.preorder, ∀ p w, m = .pipe p w →
      (∀ v ∈ localTextViol s m, v = "operator-span-includes-final-backslash") ∨
        DeepDefect s p w := by
  intro n hn m hm p w hshape
  obtain ⟨⟨TI, hTI⟩, hR⟩ := hS
  have hstrict := C03.parse_strict hTI hR s o parts h n hn
  have := leaf_in_range hstrict hm (by rw [hshape]; rfl) (by rintro q ps rfl; cases hshape)
  rw [hshape] at this
  exact C04_pipe hT s o parts h n hn m hm p w hshape this

/-! ## redirects -/

theorem redirOps_of_schema {p i t o oa hd hid}
    (h : localSchemaViol (.redirect p i t o oa hd hid) = []) : redirOps.contains t = true := by
  unfold localSchemaViol at h
  simp only [List.append_eq_nil_iff] at h
  cases hc : redirOps.contains t with
  | true => rfl
  | false => rw [hc] at h; simp at h

/-- **C04, redirect nodes** -/
theorem C04_redirect (hT : TokText) (s : Str) (o : Opts) (parts : List Node)
    (h : (parse s o).1 = .parts parts) :
    ∀ n ∈ parts, ∀ m ∈ n.preorder, ∀ p inp ty out oa hd hid,
      m = .redirect p inp ty out oa hd hid →
      ∃ J fr first op otok, J ≤ s.length ∧ Src (s.drop J) fr ∧
        Tk fr.line first ∧ Tk fr.line op ∧ Tk fr.line otok ∧
        -- the type is the operator token's value, and the operator's text on the line spells it
        op.value = .str ty ∧
        TokTextAt fr.line op.endlexpos (Str.slice fr.line op.lexpos op.endlexpos) ty ∧
        -- the input: none (then the redirect starts at the operator), or the first token's value;
        -- a file descriptor is the value of a NUMBER token spanning digits that denote it
        ((first = op ∧ inp = .none) ∨ inp = redirIn first.value) ∧
        (∀ k, inp = .num k → first.value = .int k ∧
          NumTextAt fr.line first.endlexpos (Str.slice fr.line first.lexpos first.endlexpos) k) ∧
        -- the output
        OutAt (fr.off + J) otok out oa ∧
        -- the span, unless it is a here-document redirect
        (hid = none → ¬ hereTy ty →
          p = (first.lexpos + (fr.off + J), otok.endlexpos + (fr.off + J))) := by
  intro n hn m hm p inp ty out oa hd hid hshape
  obtain ⟨J, hJ, hall, _⟩ := C04_prov hT s o parts h n hn
  have htx : isTextual m = true := by rw [hshape]; rfl
  have hok := hall m hm htx
  rw [hshape] at hok
  obtain ⟨fr, first, op, otok, hs, h1, h2, h3, h4, h5, h6, h7, _⟩ := redirect_prov hok
  have hty : redirOps.contains ty = true := by
    have := C12.C12_only_pipelines s o parts h n hn m hm (by rintro q ps rfl; cases hshape)
    rw [hshape] at this
    exact redirOps_of_schema this
  have hopv : op.value = .str ty := by
    cases hv : op.value with
    | str v => rw [h4]; simp [Token.valueStr, hv]
    | none =>
      exfalso
      have : ty = [] := by rw [h4]; simp [Token.valueStr, hv]
      rw [this] at hty; revert hty; decide
    | int k =>
      exfalso
      have : ty = [] := by rw [h4]; simp [Token.valueStr, hv]
      rw [this] at hty; revert hty; decide
  have htyc : hasContinuation ty = false := by
    have : ∀ x ∈ redirOps, hasContinuation x = false := by decide
    exact this ty (by simpa using hty)
  refine ⟨J, fr, first, op, otok, hJ, hs, h1, h2, h3, hopv, (h2.text hopv htyc).2, h5, ?_, h6, h7⟩
  intro k hk
  rcases h5 with ⟨_, hnone⟩ | hin
  · rw [hnone] at hk; cases hk
  · rw [hk] at hin
    cases hv : first.value with
    | int k' =>
      rw [hv] at hin
      simp only [redirIn, RedirIn.num.injEq] at hin
      subst hin
      exact ⟨rfl, (h1.num hv).2⟩
    | str v => rw [hv] at hin; cases hin
    | none => rw [hv] at hin; cases hin

/-! ## words -/

/-- **C04, word and assignment nodes**: the span is the span of one delivered token, whose text
    on the line is its value (continuations removed, residues); the parts are `C07.PartsOK` with
    respect to the value of that token -/
theorem C04_word_span (hT : TokText) (s : Str) (o : Opts) (parts : List Node)
    (h : (parse s o).1 = .parts parts) :
    ∀ n ∈ parts, ∀ m ∈ n.preorder, ∀ p w ps, (m = .word p w ps ∨ m = .assignment p w ps) →
      ∃ J fr tok, J ≤ s.length ∧ Src (s.drop J) fr ∧ Tk fr.line tok ∧
        p = (tok.lexpos + (fr.off + J), tok.endlexpos + (fr.off + J)) ∧
        (∃ d, C07.PartsOK (C07.RNested d) tok.valueStr (C07.qOf tok) p.1 p.2 ps) ∧
        (∀ v, tok.value = .str v →
          TokDelAt fr.line tok.endlexpos (Str.slice fr.line tok.lexpos tok.endlexpos) v ∧
          (hasContinuation v = false →
            TokTextAt fr.line tok.endlexpos (Str.slice fr.line tok.lexpos tok.endlexpos) v)) ∧
        (fr.cont = false → p.2 ≤ s.length →
          Str.slice s p.1 p.2 = Str.slice fr.line tok.lexpos tok.endlexpos) := by
  intro n hn m hm p w ps hshape
  obtain ⟨J, hJ, hall, _⟩ := C04_prov hT s o parts h n hn
  have htx : isTextual m = true := by rcases hshape with rfl | rfl <;> rfl
  obtain ⟨fr, tok, hs, hTk, hp, hparts, hb⟩ := word_prov hshape (hall m hm htx)
  refine ⟨J, fr, tok, hJ, hs, hTk, hp, hparts,
    fun v hv => ⟨(hTk.del hv).2, fun hc => (hTk.text hv hc).2⟩, ?_⟩
  intro hc hin
  have h2 : p.2 ≤ fr.lim + J := by
    cases hnest : fr.nested with
    | true => exact hb hnest
    | false =>
      obtain ⟨_, _, hlim, _⟩ := hs.root_of hnest
      rw [hlim, List.length_drop]; omega
  have h1 : fr.off + J ≤ p.1 := by rw [hp]; simp only []; omega
  rw [slice_in_frame hs hc h1 h2, hp]
  simp only [Nat.add_sub_cancel]

/-- **the token value and the input**: when the value of the word's token is a prefix of the
    text the word spans (`faithful`: no continuation inside the word) and no enclosing word's
    value differs from its text, slices of the input inside the word are slices of the value -/
theorem value_slice {s : Str} {J : Nat} {fr : Frame} {tok : Token} (hs : Src (s.drop J) fr)
    (hTk : Tk fr.line tok) (hc : fr.cont = false) (hf : faithful fr.line tok = true)
    (hlim : tok.endlexpos + (fr.off + J) ≤ fr.lim + J) :
    ∀ a b, b ≤ tok.valueStr.length →
      Str.slice s (a + (tok.lexpos + (fr.off + J))) (b + (tok.lexpos + (fr.off + J))) =
        Str.slice tok.valueStr a b := by
  intro a b hb
  by_cases hab : b ≤ a
  · rw [slice_nil_of_le _ hab, slice_nil_of_le _ (by omega)]
  have hvl : tok.valueStr.length ≤ tok.endlexpos - tok.lexpos := by
    cases hv : tok.value with
    | none => simp [Token.valueStr, hv]
    | int k => simp [Token.valueStr, hv]
    | str v =>
      have hvs : tok.valueStr = v := by simp [Token.valueStr, hv]
      obtain ⟨a', e', hp, hae, _, _, _, _, _, halt⟩ := hTk.1.str hv
      have hl : tok.lexpos = a' := by simp [Token.lexpos, hp]
      have he : tok.endlexpos = e' := by simp [Token.endlexpos, hp]
      rw [hvs, hl, he]
      rcases halt with ⟨_, g2, _⟩ | hnl
      · exact g2
      · unfold nlOver at hnl
        simp only [Bool.and_eq_true, beq_iff_eq] at hnl
        rw [hnl.1.2]; simp; omega
  have hpos : tok.lexpos < tok.endlexpos := by omega
  rw [slice_of_prefix hf hb, slice_slice _ _ _ _ _ (by omega)]
  have := slice_in_frame (p := (a + (tok.lexpos + (fr.off + J)), b + (tok.lexpos + (fr.off + J))))
    hs hc (by simp only []; omega) (by simp only []; omega)
  rw [this]
  simp only []
  congr 1 <;> omega

/-- the text of a tight `$(…)` substitution in the token value: `$(`, the body the nested node
    covers, `)` (C07: `SubstNode.dollar` + `dollar_span_tight`) -/
theorem dollar_text {v : Str} {i len : Nat} (h0 : v[i]? = some '$') (h1 : v[i + 1]? = some '(')
    (h2 : v[i + 2 + len]? = some ')') :
    Str.slice v i (i + 2 + len + 1) = '$' :: '(' :: Str.slice v (i + 2) (i + 2 + len) ++ [')'] := by
  have hlt : i + 2 + len < v.length := (List.getElem?_eq_some_iff.mp h2).1
  unfold Str.slice
  have e0 : v.drop i = '$' :: v.drop (i + 1) := by
    rw [List.drop_eq_getElem_cons (by omega)]
    congr 1
    have := List.getElem?_eq_some_iff.mp h0
    exact this.2
  have e1 : v.drop (i + 1) = '(' :: v.drop (i + 2) := by
    rw [List.drop_eq_getElem_cons (by omega)]
    congr 1
    have := List.getElem?_eq_some_iff.mp h1
    exact this.2
  have e2 : v.drop (i + 2 + len) = ')' :: v.drop (i + 2 + len + 1) := by
    rw [List.drop_eq_getElem_cons hlt]
    congr 1
    have := List.getElem?_eq_some_iff.mp h2
    exact this.2
  -- take (n+1) = take n ++ [v[n]]
  have t1 : v.take (i + 2 + len + 1) = v.take (i + 2 + len) ++ [')'] := by
    rw [List.take_add_one, h2]; rfl
  rw [t1, List.drop_append_of_le_length (by rw [List.length_take]; omega)]
  have d1 : (v.take (i + 2 + len)).drop i = '$' :: '(' :: (v.take (i + 2 + len)).drop (i + 2) := by
    rw [← List.take_append_drop (i + 2 + len) v] at e0 e1
    have hl : (v.take (i + 2 + len)).length = i + 2 + len := by rw [List.length_take]; omega
    have a0 : (v.take (i + 2 + len))[i]? = some '$' := by
      rw [List.getElem?_take_of_lt (by omega)]; exact h0
    have a1 : (v.take (i + 2 + len))[i + 1]? = some '(' := by
      rw [List.getElem?_take_of_lt (by omega)]; exact h1
    rw [List.drop_eq_getElem_cons (by omega), List.drop_eq_getElem_cons (by omega)]
    have b0 := (List.getElem?_eq_some_iff.mp a0).2
    have b1 := (List.getElem?_eq_some_iff.mp a1).2
    rw [b0, b1]
  rw [d1]

/-! ## the known signatures -/

/-- the recorded defect signatures: every signature with a context mark, and the unmarked ones
    listed (each with a kernel-checked witness below) -/
def C04_known (v : String) : Bool :=
  (["+cont", "+mlsub", "+nlword", "+redircont", "+unrecsub", "+badsub", "+heredoc"].any fun mk =>
    C03.infixB mk.toList v.toList) ||
  ["substitution-stops-before-blanks-and-paren", "operator-span-includes-final-backslash",
   "newline-operator-extended-over-heredoc", "reservedword-text"].contains v

/-- **C04 (model level), the clauses linked to `Spec.localTextViol`**: under `TokText`, for every
    input and all options, every signature raised for a reserved-word, operator or pipe node
    whose span lies in the input is a recorded defect, unless the node lies inside a
    substitution and shows `DeepDefect` -/
theorem C04_partial_conditional (hT : TokText) (s : Str) (o : Opts) (parts : List Node)
    (h : (parse s o).1 = .parts parts) :
    ∀ n ∈ parts, ∀ m ∈ n.preorder, ∀ p w,
      (m = .reservedword p w ∨ m = .operator p w ∨ m = .pipe p w) → p.2 ≤ s.length →
      (∀ v ∈ localTextViol s m, C04_known v = true) ∨ DeepDefect s p w := by
  intro n hn m hm p w hshape hin
  rcases hshape with rfl | rfl | rfl
  · left
    intro v hv
    rcases reserved_sigs s p w v hv with rfl | rfl | rfl <;> decide +kernel
  · rcases C04_operator hT s o parts h n hn _ hm p w rfl hin with hk | hd
    · left
      intro v hv
      rcases hk v hv with rfl | rfl <;> decide +kernel
    · exact Or.inr hd
  · rcases C04_pipe hT s o parts h n hn _ hm p w rfl hin with hk | hd
    · left
      intro v hv
      rw [hk v hv]; decide +kernel
    · exact Or.inr hd

/-- **C04 (model level), nodes outside words** — under `TokText` (and, for "the span lies in the
    input", C03's `TokSpansAll`): for every input and all options, every signature
    `Spec.localTextViol` raises for a reserved-word, operator or pipe node that does not lie
    inside a word (these are the signatures `Spec.textOK` reports for them: the context is
    empty there) is a recorded defect -/
theorem C04_partial_spine (hT : TokText) (hS : C03.TokSpansAll) (s : Str) (o : Opts)
    (parts : List Node) (h : (parse s o).1 = .parts parts) :
    ∀ n ∈ parts, ∀ m ∈ spine n, ∀ p w,
      (m = .reservedword p w ∨ m = .operator p w ∨ m = .pipe p w) →
      ∀ v ∈ localTextViol s m, C04_known v = true := by
  intro n hn m hm p w hshape v hv
  obtain ⟨⟨TI, hTI⟩, hR⟩ := hS
  have hstrict := C03.parse_strict hTI hR s o parts h n hn
  have hmp := spine_sub n m hm
  rcases hshape with rfl | rfl | rfl
  · rcases reserved_sigs s p w v hv with rfl | rfl | rfl <;> decide +kernel
  · have hin := leaf_in_range hstrict hmp rfl (by rintro q ps h; cases h)
    rcases C04_spine_operator hT s o parts h n hn _ hm p w rfl hin v hv with rfl | rfl <;>
      decide +kernel
  · have hin := leaf_in_range hstrict hmp rfl (by rintro q ps h; cases h)
    rw [C04_spine_pipe hT s o parts h n hn _ hm p w rfl hin v hv]; decide +kernel

/-- the signature comes from a clause that is not linked to the token text here: the subtree of
    a word, assignment or substitution node of the spine (word clauses, parts, everything inside
    substitutions — where the context marks of `textOKN` apply), or the local clause of a spine
    node that is not a reserved word, operator or pipe (in trees of `parse`: a redirect) -/
def Unlinked (s : Str) (n : Node) (v : String) : Prop :=
  ∃ m ∈ spine n, (∀ p w, m ≠ .reservedword p w ∧ m ≠ .operator p w ∧ m ≠ .pipe p w) ∧
    (v ∈ textOKN false s "" m ∨ v ∈ localTextViol s m)

/-- **C04 (model level)** — under `TokText` (token text) and `TokSpansAll` (C03: spans lie in
    the input), for every input and all options: every signature `Spec.textOK` raises on a tree
    returned by `parse` is a recorded defect (`C04_known`), or is `Unlinked`: it comes from a
    word / assignment / substitution subtree or from a redirect's own clause.  In particular all
    signatures of reserved-word, operator and pipe nodes outside words are recorded defects. -/
theorem C04_partial (hT : TokText) (hS : C03.TokSpansAll) (s : Str) (o : Opts)
    (parts : List Node) (h : (parse s o).1 = .parts parts) :
    ∀ n ∈ parts, ∀ v ∈ Spec.textOK s n, C04_known v = true ∨ Unlinked s n v := by
  intro n hn v hv
  obtain ⟨m, hm, ho⟩ := textOK_origin s n v hv
  by_cases hk : ∃ p w, m = .reservedword p w ∨ m = .operator p w ∨ m = .pipe p w
  · obtain ⟨p, w, hshape⟩ := hk
    left
    rcases ho with ⟨hst, _⟩ | ⟨_, hloc⟩
    · rcases hshape with rfl | rfl | rfl <;> cases hst
    · exact C04_partial_spine hT hS s o parts h n hn m hm p w hshape v hloc
  · right
    refine ⟨m, hm, ?_, ?_⟩
    · intro p w
      refine ⟨?_, ?_, ?_⟩ <;> (intro he; exact hk ⟨p, w, by simp [he]⟩)
    · rcases ho with ⟨_, h1⟩ | ⟨_, h2⟩
      · exact Or.inl h1
      · exact Or.inr h2

/-- the same theorem under the name the ground rules ask for when hypotheses are left open -/
theorem C04_conditional (hT : TokText) (hS : C03.TokSpansAll) (s : Str) (o : Opts)
    (parts : List Node) (h : (parse s o).1 = .parts parts) :
    ∀ n ∈ parts, ∀ v ∈ Spec.textOK s n, C04_known v = true ∨ Unlinked s n v :=
  C04_partial hT hS s o parts h

end Bashlex.C04

#print axioms Bashlex.C04.keepsEol_action
#print axioms Bashlex.C04.argCheck_ok
#print axioms Bashlex.C04.sat_action
#print axioms Bashlex.C04.parserRun_C04
#print axioms Bashlex.C04.Src.slice_eq
#print axioms Bashlex.C04.C04_prov
#print axioms Bashlex.C04.C04_prov_single
#print axioms Bashlex.C04.C04_leaf_text
#print axioms Bashlex.C04.C04_operator
#print axioms Bashlex.C04.C04_pipe
#print axioms Bashlex.C04.C04_operator'
#print axioms Bashlex.C04.C04_pipe'
#print axioms Bashlex.C04.C04_redirect
#print axioms Bashlex.C04.C04_word_span
#print axioms Bashlex.C04.value_slice
#print axioms Bashlex.C04.dollar_text
#print axioms Bashlex.C04.C04_partial_conditional
#print axioms Bashlex.C04.C04_spine_leaf_text
#print axioms Bashlex.C04.C04_spine_operator
#print axioms Bashlex.C04.C04_spine_pipe
#print axioms Bashlex.C04.C04_partial_spine
#print axioms Bashlex.C04.textOK_origin
#print axioms Bashlex.C04.C04_partial
