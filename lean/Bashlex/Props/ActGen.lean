/-
  ActGen: the semantic actions by TRANSLATION.  `tools/extract.py` (`gen_actions`) turns the bodies of
  the `p_*` functions of parser.py into terms of a small first-order language (`Gen/Actions.lean`:
  the syntax `ANode/AList/AAttr/ASpan/AStmt/ACond/AProg`, one term `Gen.act_<f>` per function,
  `Gen.actions`, and `Gen.untranslated` for the functions outside the language; the generator raises on
  any statement shape it does not know inside a function it claims).
    `ActGen/Eval.lean`    the interpreter `evalAct` of such terms in the model monad (it knows no action);
    `ActGen/Readers.lean` `_partsspan` only reads the state; slots that are / are not tokens;
    `ActGen/Agree.lean`   `actgen_<f>`: the interpreter on `Gen.act_<f>` is the arm of `actionCore`;
    `ActGen/All.lean`     `actgen_agree` (all of them), `actgen_covered` (every action function a
                          production names is translated or listed as untranslated).
-/
import Bashlex.Props.ActGen.All

namespace Bashlex.ActGen

#print axioms actgen_agree
#print axioms actgen_covered
#print axioms partsspan_dup
#print axioms partsspan_discard
#print axioms actgen_p_redirection
#print axioms actgen_p_shell_command
#print axioms actgen_p_command

end Bashlex.ActGen
