/-
  ActGen: the semantic actions by TRANSLATION.  `tools/extract.py` (`gen_actions`) turns the bodies of
  ALL 39 `p_*` action functions of parser.py (and the helper `_makeparts`) into terms of a small
  first-order language (`Gen/Actions.lean`: the syntax `ANode/AList/AAttr/ASpan/ATest/AElem/AStmt/
  ACond/AProg`, one term `Gen.act_<f>` per function, `Gen.fn_makeparts`, `Gen.actions`,
  `Gen.untranslated` = [`p_error`], which is yacc's error callback and no action); the generator
  raises on any statement shape it does not know.
    `ActGen/Eval.lean`    the interpreter `evalAct` of such terms in the model monad (it knows no action);
    `ActGen/Readers.lean` `_partsspan` only reads the state; slots that are / are not tokens;
    `ActGen/Agree.lean`, `ActGen/Loops.lean`  `actgen_<f>`: the interpreter on `Gen.act_<f>` is the arm of
                          `actionCore`; `makeparts_gen`;
    `ActGen/All.lean`     `actgen_agree` (all 39), `sliceOK`, `actgen_covered`;
    `ActGen/Driver.lean`  the top-level driver: skeleton check + `parseD_gen`, `driver_pieces`.
-/
import Bashlex.Props.ActGen.All
import Bashlex.Props.ActGen.Driver

namespace Bashlex.ActGen

#print axioms actgen_agree
#print axioms actgen_covered
#print axioms makeparts_gen
#print axioms parseD_gen
#print axioms driver_pieces
#print axioms partsspan_dup
#print axioms partsspan_discard
#print axioms actgen_p_redirection
#print axioms actgen_p_shell_command
#print axioms actgen_p_command

end Bashlex.ActGen
