/-
  C01 tight, part 4: tokens (`_readtokenword`, `_readtoken`, `token()`) with the discipline
  `TokExn1`.
-/
import Bashlex.Props.C01.TightMP

namespace Bashlex.C01
open Bashlex Bashlex.M
set_option linter.unusedSimpArgs false
set_option linter.unusedVariables false

macro_rules | `(tactic| t1_bindv) => `(tactic| refine sat_bindE (t1_parseMatchedPair _ _ ?_) (fun _ => ?_))
macro_rules | `(tactic| t1_bindv) => `(tactic| refine sat_bindE (t1_parseComsub _ _ ?_) (fun _ => ?_))

theorem t1_createtoken (ty : TokType) (v : TVal) (flags : WordFlags) : TSat1 (createtoken ty v flags) := by
  unfold createtoken; (try simp only []); t1_walk
macro_rules | `(tactic| t1_atom) => `(tactic| exact t1_createtoken _ _ _)

theorem t1_isAssignment (s : Str) : TSat1 (isAssignment s) := by
  unfold isAssignment; (try simp only []); t1_walk
macro_rules | `(tactic| t1_atom) => `(tactic| exact t1_isAssignment _)

theorem t1_specialcasetokens (s : Str) : TSat1 (specialcasetokens s) := by
  unfold specialcasetokens; (try simp only []); t1_walk
macro_rules | `(tactic| t1_atom) => `(tactic| exact t1_specialcasetokens _)

theorem quote_notDolOpen {c : Char} (h : (synClass c).quote = true) : isDolOpen c = false := by
  simp only [synClass, Bool.or_eq_true, beq_iff_eq] at h
  rcases h with (rfl | rfl) | rfl <;> rfl

/-- `d['compound_assignment']` is never set -/
theorem sat1_handleshellquote (st : RWState) (c : Char) (hq : (synClass c).quote = true) :
    Sat (handleshellquote st c) (fun r => r.compoundAssignment = st.compoundAssignment) TokExn1 := by
  unfold handleshellquote; (try simp only [])
  t1_walkP
  all_goals first
    | rfl
    | (refine ⟨fun h => ⟨rfl, ?_⟩, rfl, fun _ => quote_notDolOpen hq⟩
       have : c = '`' := by simpa using h
       exact ⟨this, this⟩)

theorem sat1_handleshellexp (st : RWState) (c : Char) (cd : Option Char) :
    Sat (handleshellexp st c cd) (fun r => r.1.compoundAssignment = st.compoundAssignment) TokExn1 := by
  unfold handleshellexp; (try simp only [])
  t1_walkP
  all_goals first
    | rfl
    | exact (fun h => by simp at h)
    | (refine ⟨(fun h => by cases h), rfl, fun hoc => ?_⟩
       rename_i p h3 h2 u n
       simp only [Bool.and_eq_true, Bool.or_eq_true, beq_iff_eq] at h2
       rcases h2 with ⟨_, h | h⟩ <;> (subst h; rfl))
    | exact ⟨(fun h => by cases h), rfl, (fun h => by simp at h)⟩

macro_rules | `(tactic| t1_bindv) => `(tactic| refine Sat.bind (sat1_handleshellquote _ _ ?_) (fun _ _ => ?_))
macro_rules | `(tactic| t1_bindv) => `(tactic| refine Sat.bind (sat1_handleshellexp _ _ _) (fun _ _ => ?_))

set_option maxHeartbeats 1000000 in
theorem sat1_readtokenwordStep (st : RWState) (hst : st.compoundAssignment = false) :
    Sat (readtokenwordStep st)
      (Sum.elim (fun s => s.compoundAssignment = false) (fun s => s.compoundAssignment = false))
      TokExn1 := by
  unfold readtokenwordStep; (try simp only [])
  t1_walkP
  all_goals first
    | exact hst
    | (simp_all [handleescapedchar]; done)

set_option maxHeartbeats 1000000 in
theorem t1_finishWord (st : RWState) (hst : st.compoundAssignment = false) : TSat1 (finishWord st) := by
  unfold finishWord; simp only [hst, Bool.false_eq_true, if_false]; t1_walk

theorem t1_readtokenword (c : Char) : TSat1 (readtokenword c) := by
  unfold readtokenword; (try simp only [])
  refine sat_bindE t1_loopFuel (fun fuel => ?_)
  refine Sat.bind (P := fun s => s.compoundAssignment = false) ?_ (fun s hs => t1_finishWord s hs)
  refine Sat.loop (I := fun s => s.compoundAssignment = false) (by tokexn1)
    (fun s hs => sat1_readtokenwordStep s hs) _ _ rfl
macro_rules | `(tactic| t1_atom) => `(tactic| exact t1_readtokenword _)

theorem t1_discardUntil (c : Char) : TSat1 (discardUntil c) := by
  unfold discardUntil; (try simp only []); t1_walk
macro_rules | `(tactic| t1_atom) => `(tactic| exact t1_discardUntil _)

/-- `tokentype(character)` is called on `! ( ) | ; - newline < > &` only: no `ValueError` -/
theorem t1_tokentypeOfChar (c : Char) (h : (TokType.ofChar c).isSome = true) :
    TSat1 (tokentypeOfChar c) := by
  unfold tokentypeOfChar
  split
  · exact Sat.pure True.intro
  · rename_i hn; rw [hn] at h; cases h

theorem meta_ofChar {c : Char} (h : (synClass c).metac = true) : (TokType.ofChar c).isSome = true := by
  simp only [synClass, Bool.or_eq_true, beq_iff_eq] at h
  rcases h with (((((rfl | rfl) | rfl) | rfl) | rfl) | rfl) | rfl <;> rfl

theorem t1_readtokenMeta (c : Char) (h : (synClass c).metac = true) : TSat1 (readtokenMeta c) := by
  have hc := t1_tokentypeOfChar c (meta_ofChar h)
  unfold readtokenMeta; (try simp only []); t1_walk

macro_rules | `(tactic| t1_bindv) => `(tactic| refine sat_bindE (t1_tokentypeOfChar _ ?_) (fun _ => ?_))
macro_rules | `(tactic| t1_bindv) => `(tactic| refine sat_bindE (t1_readtokenMeta _ ?_) (fun _ => ?_))

set_option maxHeartbeats 1000000 in
theorem t1_readtoken : TSat1 readtoken := by
  unfold readtoken; (try simp only [])
  repeat' (first
    | ((with_reducible refine sat_bindE (sat_loopT ?_ (fun _ => ?_) _ _) (fun _ => ?_)); focus tokexn1)
    | t1_stepP)
  all_goals first
    | trivial
    | rfl
    | (simp_all; done)
    | (simp_all [TokType.ofChar]; done)
macro_rules | `(tactic| t1_atom) => `(tactic| exact t1_readtoken)

/-- **hTok**: `nextToken` raises only `TokExn1` -/
theorem t1_nextToken : TSat1 nextToken := by
  unfold nextToken; (try simp only []); t1_walk

end Bashlex.C01
