/-
  C01 tight 2, part 2 (state-agnostic): no value of a delivered token ends in `$(`.
  The loop of `_readtokenword` (restated in `Props/C04/TTWord.lean`) appends: a character that is
  no break character (so not `(`), an escaped character right after its backslash, `$$`, or what a
  scanner returned (which ends in its closing character, `T2Scan.lean`).
-/
import Bashlex.Props.C01.T2Scan
import Bashlex.Props.C03.RE.WWord
import Bashlex.Props.C01.Tokens

namespace Bashlex.C01.T2
open Bashlex Bashlex.M Bashlex.C04 Bashlex.C04.TTP Bashlex.C04.WB Bashlex.C03.RE
set_option linter.unusedSimpArgs false
set_option linter.unusedVariables false

/-- does not end in `$(` -/
def NoDP (s : Str) : Prop := s.getLast? = some '(' → s.dropLast.getLast? ≠ some '$'

theorem nodp_nil : NoDP [] := by intro h; cases h

theorem nodp_of_lp {s : Str} (h : LP s) : NoDP s := by
  obtain ⟨c, h1, h2⟩ := h
  intro hl
  rw [h1] at hl
  simp only [Option.some.injEq] at hl
  exact absurd hl h2

theorem nodp_snoc_ne (s : Str) {c : Char} (h : c ≠ '(') : NoDP (s ++ [c]) := nodp_of_lp (lp_snoc s h)

theorem nodp_snoc_bs {s : Str} (h : s.getLast? = some '\\') (c : Char) : NoDP (s ++ [c]) := by
  intro _
  rw [List.dropLast_concat, h]
  decide

/-- the invariant of the loop -/
def WI (st : RWState) : Prop :=
  NoDP st.tokenword ∧ (st.passNext = true → st.tokenword.getLast? = some '\\')

def WStep (r : RWState ⊕ RWState) : Prop :=
  match r with
  | .inl s => WI s
  | .inr s => NoDP s.tokenword

theorem quote_ne_paren {c : Char} (h : (synClass c).quote = true) : c ≠ '(' := by
  simp only [synClass, Bool.or_eq_true, beq_iff_eq] at h
  rcases h with (rfl | rfl) | rfl <;> decide

/-! ## the closures -/

theorem sat_hsq (st : RWState) (c : Char) (hq : (synClass c).quote = true) :
    Sat (handleshellquote st c) (fun st' => LP st'.tokenword ∧ st'.passNext = st.passNext) := by
  unfold handleshellquote
  refine Sat.bind_any (fun _ => Sat.bind_any (fun fuel => ?_))
  refine Sat.bind (lp_pmp fuel _ (quote_ne_paren hq)) (fun ttok ht => ?_)
  refine Sat.bind_any (fun _ => Sat.pure ⟨?_, rfl⟩)
  show LP (st.tokenword ++ [c] ++ ttok)
  exact lp_append _ ht

set_option maxHeartbeats 1000000 in
theorem sat_hse (st : RWState) (c : Char) (cd : Option Char) :
    Sat (handleshellexp st c cd)
      (fun x => (x.2 = true → x.1 = st) ∧
        (x.2 = false → LP x.1.tokenword ∧ x.1.passNext = st.passNext)) := by
  unfold handleshellexp
  simp only []
  refine Sat.bind_any (fun peek => ?_)
  refine Sat.ite (fun h1 => ?_) (fun h1 => ?_)
  · have fin : ∀ ttok, LP ttok → Sat (pure ({ st with
        tokenword := st.tokenword ++ [c] ++ peek.toList ++ ttok,
        dollarPresent := true, allDigit := false }, false) : M (RWState × Bool))
        (fun x => (x.2 = true → x.1 = st) ∧
          (x.2 = false → LP x.1.tokenword ∧ x.1.passNext = st.passNext)) :=
      fun ttok ht => Sat.pure ⟨fun h => (by cases h), fun _ => ⟨lp_append _ ht, rfl⟩⟩
    repeat' first
      | exact lp_pmp _ _ (by simp)
      | exact lp_pcs _ _ (by simp)
      | refine Sat.bind (P := LP) ?_ (fun ttok ht => fin ttok ht)
      | exact fin _ (by assumption)
      | refine Sat.bind (P := LP) (lp_pmp _ _ ?_) (fun ttok ht => ?_)
      | refine Sat.bind (P := LP) (lp_pcs _ _ ?_) (fun ttok ht => ?_)
      | refine Sat.ite (fun _ => ?_) (fun _ => ?_)
      | exact Sat.pure (by assumption)
      | refine Sat.bind_any (fun _ => ?_)
      | (show _ ≠ _; simp)
  · refine Sat.ite (fun h2 => ?_) (fun h2 => ?_)
    · have hp : peek.getD '"' ≠ '(' := by
        cases peek with
        | none => decide
        | some p =>
          intro hp
          have : p = '(' := hp
          subst this
          simp at h2
      refine Sat.bind_any (fun _ => Sat.bind_any (fun fuel => ?_))
      refine Sat.bind (lp_pmp fuel _ hp) (fun ttok ht => ?_)
      refine Sat.bind_any (fun _ => Sat.pure ⟨fun h => (by cases h), fun _ => ⟨?_, rfl⟩⟩)
      show LP (st.tokenword ++ [c, peek.getD '"'] ++ ttok)
      exact lp_append _ ht
    · refine Sat.ite (fun h3 => ?_) (fun h3 => ?_)
      · refine Sat.pure ⟨fun h => (by cases h), fun _ => ⟨?_, rfl⟩⟩
        show LP (st.tokenword ++ ['$', '$'])
        exact lp_append _ ⟨'$', rfl, by decide⟩
      · exact Sat.bind_any (fun _ => Sat.pure ⟨fun _ => rfl, fun h => (by cases h)⟩)

/-! ## one iteration -/

theorem sat_tail (st : RWState) (h : WI st) : Sat (rwTail st) WStep := by
  unfold rwTail
  exact Sat.bind_any (fun _ => Sat.bind_any (fun nc => Sat.pure h))

theorem sat_break_true (st : RWState) (c : Char) (h : WI st) : Sat (rwBreak st c true) WStep := by
  rw [rwBreak_true]; exact sat_tail st h

theorem brk_paren : (synClass '(').brk = true := by decide

theorem sat_break_false (st : RWState) (c : Char) (h : WI st) (hpn : st.passNext = false) :
    Sat (rwBreak st c false) WStep := by
  unfold rwBreak
  simp only [Bool.not_false, if_true]
  refine Sat.bind (sat_shellbreak c) (fun b hb => ?_)
  subst hb
  refine Sat.ite (fun hbrk => ?_) (fun hbrk => ?_)
  · exact Sat.bind_any (fun _ => Sat.pure h.1)
  · have hbrk' : (synClass c).brk = false := by simpa using hbrk
    refine sat_tail (handleescapedchar st c) ⟨?_, fun hp => ?_⟩
    · show NoDP (st.tokenword ++ [c])
      refine nodp_snoc_ne _ ?_
      intro hc; subst hc
      rw [brk_paren] at hbrk'; cases hbrk'
    · have : (handleescapedchar st c).passNext = st.passNext := rfl
      rw [this, hpn] at hp; cases hp

set_option maxHeartbeats 1000000 in
/-- **one iteration of the loop of `_readtokenword`** keeps `WI` -/
theorem sat_step (st : RWState) (h : WI st) : Sat (readtokenwordStep st) WStep := by
  rw [readtokenwordStep_eq]
  cases hc : st.c with
  | none => exact Sat.pure h.1
  | some c0 =>
    simp only []
    by_cases hp : st.passNext = true
    · rw [if_pos hp]
      refine sat_tail _ ⟨?_, fun hh => by cases hh⟩
      show NoDP (st.tokenword ++ [c0])
      exact nodp_snoc_bs (h.2 hp) c0
    · rw [if_neg hp]
      have hpf : st.passNext = false := by
        cases hh : st.passNext with
        | true => exact absurd hh hp
        | false => rfl
      refine Sat.bind_any (fun cd => ?_)
      refine Sat.ite (fun hbs => ?_) (fun hbs => ?_)
      · have hc0 : c0 = '\\' := by simpa using hbs
        subst hc0
        refine Sat.bind_any (fun peek => ?_)
        refine Sat.ite (fun _ => sat_break_true st _ h) (fun _ => ?_)
        refine Sat.bind_any (fun _ => Sat.bind_any (fun cond => ?_))
        refine Sat.ite (fun _ => ?_) (fun _ => ?_)
        · refine sat_break_true _ _ ⟨?_, fun _ => ?_⟩
          · show NoDP (st.tokenword ++ ['\\'])
            exact nodp_snoc_ne _ (by decide)
          · show (st.tokenword ++ ['\\']).getLast? = some '\\'
            simp
        · exact sat_break_false st '\\' h hpf
      · refine Sat.bind (sat_shellquote c0) (fun b hb => ?_)
        subst hb
        refine Sat.ite (fun hq => ?_) (fun hq => ?_)
        · refine Sat.bind (sat_hsq st c0 hq) (fun st' hst' => ?_)
          exact sat_break_true st' c0 ⟨nodp_of_lp hst'.1, fun hh => by rw [hst'.2, hpf] at hh; cases hh⟩
        · refine Sat.bind (sat_shellexp c0) (fun b hb => ?_)
          subst hb
          refine Sat.ite (fun hx => ?_) (fun hx => ?_)
          · refine Sat.bind (sat_hse st c0 cd) (fun x hx' => ?_)
            obtain ⟨st', r⟩ := x
            cases r with
            | false =>
              show Sat (rwBreak st' c0 (!false)) _
              rw [Bool.not_false]
              have := hx'.2 rfl
              exact sat_break_true st' c0
                ⟨nodp_of_lp this.1, fun hh => by rw [this.2, hpf] at hh; cases hh⟩
            | true =>
              show Sat (rwBreak st' c0 (!true)) _
              rw [Bool.not_true]
              have : st' = st := hx'.1 rfl
              subst this
              exact sat_break_false st' c0 h hpf
          · exact sat_break_false st c0 h hpf

/-! ## tokens -/

/-- the value of the token does not end in `$(` -/
def TP (t : Token) : Prop := NoDP t.valueStr

theorem sat_createtoken_tp {ty : TokType} {v : TVal} {fl : WordFlags} (hv : ∀ s, v = .str s → NoDP s) :
    Sat (createtoken ty v fl) TP := by
  refine C01.sat_createtoken3.weaken (fun t ht => ?_) (fun _ h => h)
  unfold TP Token.valueStr
  rw [ht.2.1]
  cases v with
  | str s => exact hv s rfl
  | int n => exact nodp_nil
  | none => exact nodp_nil

macro "tp_walk" : tactic => `(tactic| repeat' (first
  | with_reducible refine Sat.ite (fun _ => ?_) (fun _ => ?_)
  | with_reducible exact Sat.foreign trivial
  | with_reducible exact Sat.raise trivial
  | with_reducible refine Sat.bind (sat_createtoken_tp ?_) (fun _ _ => ?_)
  | with_reducible refine sat_createtoken_tp ?_
  | with_reducible refine Sat.bind_any (fun _ => ?_)
  | with_reducible refine Sat.pure ?_
  | (show Sat _ _ _; split)))

set_option maxHeartbeats 2000000 in
theorem sat_finishWord_tp (st : RWState) (h : NoDP st.tokenword) : Sat (finishWord st) TP := by
  unfold finishWord
  simp only []
  tp_walk
  all_goals first
    | exact absurd (by assumption : legalIdentifier _ = true) Bool.false_ne_true
    | (intro s hs; cases hs; first | exact h | done)
    | exact (by assumption : TP _)

theorem sat_readtokenword_tp (c : Char) : Sat (readtokenword c) TP := by
  unfold readtokenword
  refine Sat.bind_any (fun fuel => ?_)
  refine Sat.bind (P := fun st => NoDP st.tokenword) ?_ (fun st hst => sat_finishWord_tp st hst)
  refine Sat.loop (I := WI) (R := fun (st : RWState) => NoDP st.tokenword) trivial (fun st hI => ?_) fuel _
    ⟨nodp_nil, fun (h : false = true) => by cases h⟩
  refine (sat_step st hI).weaken (fun r hr => ?_) (fun _ h => h)
  cases r with
  | inl s => exact hr
  | inr s => exact hr

def ReadTP (r : TokType ⊕ Token) : Prop :=
  match r with
  | .inl _ => True
  | .inr t => TP t

theorem sat_readtoken_tp : Sat readtoken ReadTP := by
  unfold readtoken
  refine Sat.bind_any (fun _ => Sat.bind_any (fun _ => Sat.bind_any (fun c1 => ?_)))
  split
  · exact Sat.pure (show NoDP [] from nodp_nil)
  rename_i ch
  refine Sat.bind_any (fun character => ?_)
  extract_lets -underBinder jp1
  have key1 : ∀ r c, Sat (jp1 r c) ReadTP := by
    intro r c
    simp -zeta only [jp1]
    refine Sat.bind_any (fun _ => ?_)
    have hty : Sat (do let t ← tokentypeOfChar c; pure (Sum.inl t) : M (TokType ⊕ Token)) ReadTP :=
      Sat.bind_any (fun t => Sat.pure True.intro)
    have hword : Sat (do let t ← readtokenword c; pure (Sum.inr t) : M (TokType ⊕ Token)) ReadTP :=
      Sat.bind (sat_readtokenword_tp c) (fun t ht => Sat.pure ht)
    refine Sat.ite (fun _ => Sat.bind_any (fun _ => Sat.bind_any (fun _ => hty))) (fun _ => ?_)
    refine Sat.bind_any (fun _ => Sat.ite (fun _ => hword) (fun _ => ?_))
    refine Sat.bind_any (fun _ => Sat.bind_any (fun _ => ?_))
    extract_lets -underBinder jp2
    have key2 : ∀ r, Sat (jp2 r) ReadTP := by
      intro r
      simp -zeta only [jp2]
      exact Sat.bind_any (fun _ => Sat.ite (fun _ => hty) (fun _ => hword))
    refine Sat.ite (fun _ => ?_) (fun _ => key2 ())
    refine Sat.bind_any (fun m => ?_)
    split
    · exact Sat.pure True.intro
    · exact key2 ()
  refine Sat.ite (fun _ => ?_) (fun _ => key1 () _)
  exact Sat.bind_any (fun _ => Sat.bind_any (fun _ => key1 () _))

theorem tp_bare (ty : TokType) : ∀ s, ty.enumValue = .str s → NoDP s := by
  intro s hs
  cases ty <;> simp [TokType.enumValue, TokType.strValueChars] at hs <;> subst hs <;>
    (unfold NoDP; decide)

/-- **no value of a delivered token ends in `$(`** (every state, every environment) -/
theorem sat_nextToken_tp : Sat nextToken TP := by
  unfold nextToken
  refine Sat.bind_any (fun _ => ?_)
  refine Sat.bind sat_readtoken_tp (fun r hr => ?_)
  extract_lets -underBinder jp
  have key : ∀ cur, TP cur → Sat (jp cur) TP := fun cur h =>
    Sat.bind_any (fun _ => Sat.bind_any (fun _ => Sat.pure h))
  split
  · exact Sat.bind_any (fun _ => Sat.bind (sat_createtoken_tp (tp_bare _)) (fun cur h => key cur h))
  · exact Sat.bind (Sat.pure (P := TP) hr) (fun cur h => key cur h)

end Bashlex.C01.T2

#print axioms Bashlex.C01.T2.sat_nextToken_tp
