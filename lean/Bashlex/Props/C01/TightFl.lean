/-
  C01 tight, part 18: the parser-state flags `regexp` and `dblparen` are never set -- frame walk
  with the invariant `Fl` (generated from the frame walk of `TightFuel.lean` by renaming).
-/
import Bashlex.Props.C01.TightFuel

namespace Bashlex.C01
open Bashlex Bashlex.M Bashlex.C10 Bashlex.C11
set_option linter.unusedSimpArgs false
set_option linter.unusedVariables false

def Fl (l : Local) (_ : Env) : Prop := l.ps.regexp = false ∧ l.ps.dblparen = false


abbrev FlSat {α : Type} (m : M α) : Prop := HT Fl m (fun _ => Fl) ETrue

syntax "fl_atom" : tactic
macro_rules | `(tactic| fl_atom) => `(tactic| assumption)

theorem fl_ask (q : Query) : FlSat (M.ask q) := by
  intro l e h; rw [C10.run_ask]; exact h
macro_rules | `(tactic| fl_atom) => `(tactic| exact fl_ask _)

theorem hfl_ask_bind {β : Type} {l0 : Local} {q : Query}
    {k : Answer q → M β} {Q : β → Local → Env → Prop}
    (h : ∀ a, HTQAt Fl l0 (k a) Q ETrue) : HTQAt Fl l0 (M.ask q >>= k) Q ETrue := by
  intro l e ⟨hl, hp⟩
  rw [M.run_bind, C10.run_ask]
  exact h _ l _ ⟨hl, hp⟩

macro "fl_step" : tactic => `(tactic| first
  | with_reducible exact HT.pure (fun _ _ h => h)
  | with_reducible refine HT.ite (fun _ => ?_) (fun _ => ?_)
  | with_reducible refine HTQAt.ite (fun _ => ?_) (fun _ => ?_)
  | with_reducible refine HTQAt.ite_bind (fun _ => ?_) (fun _ => ?_)
  | with_reducible fl_atom
  | with_reducible refine ht_pure_bind ?_
  | with_reducible refine ht_bind_assoc ?_
  | with_reducible refine ht_ite_bind (fun _ => ?_) (fun _ => ?_)
  | ((with_reducible apply HT.bind); (focus (with_reducible fl_atom)); intro _)
  | with_reducible refine HT.get_bind (fun _ => ?_)
  | ((with_reducible refine htq_modify_bind ?_ ?_); focus (intro _ _ h; exact h))
  | ((with_reducible refine HT.modify ?_); (intro _ _ h; exact h))
  | ((with_reducible refine HTQAt.set_bind ?_ ?_); focus (intro _ h; exact h))
  | ((with_reducible refine htq_set ?_); (intro _ h; exact h))
  | ((with_reducible refine HTQAt.foreign_bind ?_); exact True.intro)
  | ((with_reducible refine HTQAt.foreign ?_); exact True.intro)
  | with_reducible refine HTQAt.pure_bind ?_
  | with_reducible refine hfl_ask_bind (fun _ => ?_)
  | with_reducible exact HT.pure (fun _ _ h => h.2)
  | split_head
  | with_reducible refine HTQAt.ofHT ?_
  | ((with_reducible refine ht_foreign_bind ?_); exact True.intro)
  | ((with_reducible refine ht_raise_bind ?_); exact True.intro)
  | ((with_reducible refine HT.raise ?_); exact True.intro)
  | ((with_reducible refine HT.foreign ?_); exact True.intro)
  | ((with_reducible refine HT.bind (Q := fun _ => Fl) (ht_loopI ?_ (fun _ => ?_) _ _) (fun _ => ?_)); focus exact True.intro)
  | ((with_reducible refine ht_loopI ?_ (fun _ => ?_) _ _); focus exact True.intro))

macro "fl_walk" : tactic => `(tactic| repeat' fl_step)

theorem fl_getc (rqn : Bool) : FlSat (getc rqn) := by
  unfold getc; (try simp only []); fl_walk
theorem fl_ungetc (c : Option Char) : FlSat (ungetc c) := by
  unfold ungetc; (try simp only []); fl_walk
theorem fl_bumpIdx : FlSat bumpIdx := by
  unfold bumpIdx; (try simp only []); fl_walk
theorem fl_curIdx : FlSat curIdx := by
  unfold curIdx; (try simp only []); fl_walk
theorem fl_tapeLine : FlSat tapeLine := by
  unfold tapeLine; (try simp only []); fl_walk
theorem fl_optStrict : FlSat optStrict := by
  unfold optStrict; (try simp only []); fl_walk
macro_rules | `(tactic| fl_atom) => `(tactic| exact fl_getc _)
macro_rules | `(tactic| fl_atom) => `(tactic| exact fl_ungetc _)
macro_rules | `(tactic| fl_atom) => `(tactic| exact fl_bumpIdx)
macro_rules | `(tactic| fl_atom) => `(tactic| exact fl_curIdx)
macro_rules | `(tactic| fl_atom) => `(tactic| exact fl_tapeLine)
macro_rules | `(tactic| fl_atom) => `(tactic| exact fl_optStrict)

theorem fl_peekc (rqn : Bool) : FlSat (peekc rqn) := by
  unfold peekc; (try simp only []); fl_walk
macro_rules | `(tactic| fl_atom) => `(tactic| exact fl_peekc _)

theorem fl_loopFuel : FlSat loopFuel := HT.pure (fun _ _ h => h)
macro_rules | `(tactic| fl_atom) => `(tactic| exact fl_loopFuel)

theorem fl_readline (b : Bool) : FlSat (readline b) := by
  unfold readline; (try simp only []); fl_walk
macro_rules | `(tactic| fl_atom) => `(tactic| exact fl_readline _)


theorem fl_recordpos (rel : Nat) : FlSat (recordpos rel) := by
  unfold recordpos; fl_walk
macro_rules | `(tactic| fl_atom) => `(tactic| exact fl_recordpos _)

theorem fl_discardUntil (c : Char) : FlSat (discardUntil c) := by
  unfold discardUntil; (try simp only []); fl_walk
macro_rules | `(tactic| fl_atom) => `(tactic| exact fl_discardUntil _)

end Bashlex.C01
