/-
  C01, part 2: word expansion (`subst.py`).  Exception discipline under a disciplined nested
  parser, and progress: every iteration of the loop of `_expandwordinternal` that continues
  strictly advances the cursor, so the loop never runs out of its fuel.
-/
import Bashlex.Props.C01.Basic

namespace Bashlex.C01
open Bashlex Bashlex.M
set_option linter.unusedSimpArgs false
set_option linter.unusedVariables false

variable {T : Exn → Prop}

/-- the nested parser raises only allowed exceptions -/
def NPE (T : Exn → Prop) (np : NestedParse) : Prop :=
  ∀ s b, Sat (np s b) (fun _ => True) (Allowed T)

/-! ### the pure scanners -/

theorem backOverNewlines_le (s : Str) : ∀ n, backOverNewlines s n ≤ n := by
  intro n
  induction n with
  | zero => simp [backOverNewlines]
  | succ n ih =>
    unfold backOverNewlines
    split
    · omega
    · omega

theorem scanName_ge (s : Str) : ∀ fuel z, z ≤ scanName s fuel z := by
  intro fuel
  induction fuel with
  | zero => intro z; simp [scanName]
  | succ f ih =>
    intro z
    unfold scanName
    split
    · omega
    · split
      · omega
      · have := ih (z + 1); omega

theorem scanName_le (s : Str) : ∀ fuel z, z ≤ s.length → scanName s fuel z ≤ s.length := by
  intro fuel
  induction fuel with
  | zero => intro z h; simpa [scanName] using h
  | succ f ih =>
    intro z h
    unfold scanName
    split
    · exact h
    · rename_i c hc
      have hz : z < s.length := (List.getElem?_eq_some_iff.mp hc).1
      split
      · exact h
      · exact ih (z + 1) hz

theorem tildeScan_ge (s : Str) (b : Bool) : ∀ fuel i, i ≤ (tildeScan s b fuel i).1 := by
  intro fuel
  induction fuel with
  | zero => intro i; simp [tildeScan]
  | succ f ih =>
    intro i
    unfold tildeScan
    split
    · simp
    · split
      · simp
      · split
        · simp
        · split
          · simp
          · have := ih (i + 1); omega

theorem tildeScan_le (s : Str) (b : Bool) : ∀ fuel i, i ≤ s.length → (tildeScan s b fuel i).1 ≤ s.length := by
  intro fuel
  induction fuel with
  | zero => intro i h; simpa [tildeScan] using h
  | succ f ih =>
    intro i h
    unfold tildeScan
    split
    · simpa using h
    · rename_i c hc
      have hz : i < s.length := (List.getElem?_eq_some_iff.mp hc).1
      split
      · simpa using h
      · split
        · simpa using h
        · split
          · simpa using h
          · exact ih (i + 1) hz

/-- standing on a `~`, the tilde scan advances -/
theorem tildeScan_tilde (s : Str) (b : Bool) (f i : Nat) (h : s[i]? = some '~') :
    i < (tildeScan s b (f + 1) i).1 := by
  unfold tildeScan
  simp only [h]
  have h1 : ('~' == '/') = false := by decide
  have h2 : ('~' == '\\' || '~' == '\'' || '~' == '"') = false := by decide
  have h3 : (b && '~' == ':') = false := by simp
  simp only [h1, h2, h3, Bool.false_eq_true, if_false]
  have := tildeScan_ge s b f (i + 1)
  omega

theorem findFrom_go_spec (c : Char) : ∀ (l : Str) (i k : Nat), Str.findFrom.go c l i = some k →
    i ≤ k ∧ k < i + l.length := by
  intro l
  induction l with
  | nil => intro i k h; simp [Str.findFrom.go] at h
  | cons x xs ih =>
    intro i k h
    simp only [Str.findFrom.go] at h
    split at h
    · cases h; simp
    · have := ih (i + 1) k h
      simp only [List.length_cons]; omega

theorem findFrom_spec {s : Str} {c : Char} {start k : Nat} (h : Str.findFrom s c start = some k) :
    start ≤ k ∧ k < s.length := by
  unfold Str.findFrom at h
  have := findFrom_go_spec c _ _ _ h
  simp only [List.length_drop] at this
  by_cases hs : start ≤ s.length
  · omega
  · have hd : s.drop start = [] := List.drop_eq_nil_of_le (by omega)
    rw [hd] at h; simp [Str.findFrom.go] at h

theorem stringextract_go_spec (s : Str) (ch : Char) : ∀ fuel i k,
    stringextract.go s ch fuel i = some k → i ≤ k ∧ k < s.length := by
  intro fuel
  induction fuel with
  | zero => intro i k h; simp [stringextract.go] at h
  | succ f ih =>
    intro i k h
    unfold stringextract.go at h
    split at h
    · cases h
    · rename_i c hc
      have hi : i < s.length := (List.getElem?_eq_some_iff.mp hc).1
      split at h
      · split at h
        · have := ih _ _ h; omega
        · cases h
      · split at h
        · cases h; exact ⟨Nat.le_refl _, hi⟩
        · have := ih _ _ h; omega

theorem stringextract_spec {s : Str} {ch : Char} {i k : Nat} (h : stringextract s i ch = some k) :
    i ≤ k ∧ k < s.length :=
  stringextract_go_spec s ch _ _ _ h

/-! ### exception discipline and cursor bounds -/

theorem sat_adjustpositions (n : Node) (base lim : Nat) :
    Sat (adjustpositions n base lim) (fun _ => True) (Allowed T) := by
  unfold adjustpositions
  split
  · exact Sat.pure trivial
  · exact Sat.foreign known_visitnode

theorem sat_recursiveparse {np : NestedParse} (hnp : NPE T np) (base : Str) (sindex : Nat) (b : Bool) :
    Sat (recursiveparse np base sindex b) (fun _ => True) (Allowed T) := by
  unfold recursiveparse
  refine sat_bindE (hnp _ _) (fun r => ?_)
  split
  · exact Sat.foreign known_recursiveparse
  · simp only []
    exact sat_bindE (sat_adjustpositions _ _ _) (fun _ => Sat.pure trivial)

/-- `_parsedolparen` returns a cursor inside the string, at or after its start -/
theorem sat_parsedolparen {np : NestedParse} (hnp : NPE T np) (base : Str) (sindex : Nat) :
    Sat (parsedolparen np base sindex) (fun r => sindex ≤ r.2 ∧ r.2 < base.length) (Allowed T) := by
  unfold parsedolparen
  simp only []
  refine sat_bindE (sat_recursiveparse hnp _ _ _) (fun r => ?_)
  obtain ⟨node, endp⟩ := r
  simp only []
  split
  · exact Sat.foreign known_parsedolparen
  · rename_i c hc
    have hlt : endp < (base.drop sindex).length := (List.getElem?_eq_some_iff.mp hc).1
    simp only [List.length_drop] at hlt
    refine Sat.pure ?_
    simp only []
    split
    · have := backOverNewlines_le (base.drop sindex) endp
      omega
    · omega

/-- `_paramexpand` on a cursor inside the string returns a cursor strictly further, at most at
    the end of the string -/
theorem sat_paramexpand {np : NestedParse} (hnp : NPE T np) (string : Str) (sindex : Nat)
    (hs : sindex < string.length) :
    Sat (paramexpand np string sindex) (fun r => sindex < r.2 ∧ r.2 ≤ string.length) (Allowed T) := by
  unfold paramexpand
  simp only []
  split
  · -- the `$` is the last character
    refine Sat.pure ?_
    simp only []
    have h1 := scanName_ge string (string.length + 1) (sindex + 1)
    have h2 := scanName_le string (string.length + 1) (sindex + 1) hs
    omega
  · rename_i c hc
    have hz : sindex + 1 < string.length := (List.getElem?_eq_some_iff.mp hc).1
    split
    · refine Sat.pure ?_
      simp only [hz, if_true]; omega
    · split
      · split
        · exact Sat.pure (by simp only []; omega)
        · rename_i z hz'
          have := findFrom_spec hz'
          refine Sat.pure ?_
          simp only []
          split <;> omega
      · split
        · split
          · exact Sat.foreign known_extract
          · split
            · exact Sat.raise allowed_ni
            · refine Sat.bind (sat_parsedolparen hnp _ _) (fun r hr => Sat.pure ?_)
              simp only []
              omega
        · split
          · exact Sat.raise allowed_ni
          · refine Sat.pure ?_
            simp only []
            have h1 := scanName_ge string (string.length + 1) (sindex + 1)
            have h2 := scanName_le string (string.length + 1) (sindex + 1) (by omega)
            omega

/-- what one iteration of the loop of `_expandwordinternal` guarantees when it continues -/
def Progress (string : Str) (st : ExpSt) : ExpSt ⊕ (List Node × Str × Bool) → Prop :=
  Sum.elim (fun st' => st.sindex < st'.sindex ∧ st'.sindex ≤ string.length + 1) (fun _ => True)

/-- **expand_progress**: every iteration of the loop of `_expandwordinternal` that continues
    strictly advances the cursor `sindex`, and leaves it at most one past the end of the string
    (the only branch that can overshoot is the backslash branch, `sindex += 2` on a final
    backslash; the next iteration then fails with `IndexError`). -/
theorem expand_progress {np : NestedParse} (hnp : NPE T np) (tok : Token) (string : Str) (qd : Bool)
    (st : ExpSt) :
    Sat (expandStep np tok string qd st) (Progress string st) (Allowed T) := by
  unfold expandStep
  simp only []
  refine Sat.ite (fun _ => Sat.pure trivial) (fun _ => ?_)
  split
  · exact Sat.foreign known_expint
  rename_i c hc
  have hs : st.sindex < string.length := (List.getElem?_eq_some_iff.mp hc).1
  have adv1 : ∀ {k}, k = st.sindex + 1 → st.sindex < k ∧ k ≤ string.length + 1 := by
    intro k hk; omega
  refine Sat.ite (fun _ => Sat.ite (fun _ => Sat.pure (adv1 rfl)) (fun _ => ?_)) (fun _ => ?_)
  · refine Sat.bind (sat_parsedolparen hnp _ _) (fun r hr => Sat.pure ?_)
    show st.sindex < r.2 + 1 ∧ r.2 + 1 ≤ string.length + 1
    omega
  refine Sat.ite (fun hct => Sat.ite (fun _ => Sat.pure (adv1 rfl)) (fun _ => Sat.pure ?_)) (fun _ => ?_)
  · have hc' : string[st.sindex]? = some '~' := by
      have : c = '~' := by simpa using hct
      rw [← this]; exact hc
    show st.sindex < (tildeScan string _ (string.length + 1) st.sindex).1 ∧
      (tildeScan string _ (string.length + 1) st.sindex).1 ≤ string.length + 1
    have h1 := tildeScan_tilde string
      (st.flags.contains .ASSIGNRHS || st.flags.contains .ASSIGNMENT || st.flags.contains .TILDEEXP)
      string.length st.sindex hc'
    have h2 := tildeScan_le string
      (st.flags.contains .ASSIGNRHS || st.flags.contains .ASSIGNMENT || st.flags.contains .TILDEEXP)
      (string.length + 1) st.sindex (by omega)
    omega
  refine Sat.ite (fun _ => ?_) (fun _ => ?_)
  · refine Sat.bind (sat_paramexpand hnp _ _ hs) (fun r hr => Sat.pure ?_)
    show st.sindex < r.2 ∧ r.2 ≤ string.length + 1
    omega
  refine Sat.ite (fun _ => Sat.ite (fun hbq => Sat.pure ?_) (fun _ => ?_)) (fun _ => ?_)
  · show st.sindex < st.sindex + 1 + 1 ∧ st.sindex + 1 + 1 ≤ string.length + 1
    have : st.sindex + 1 < string.length := by
      rcases Nat.lt_or_ge (st.sindex + 1) string.length with h | h
      · exact h
      · have : string[st.sindex + 1]? = none := List.getElem?_eq_none h
        rw [this] at hbq; simp at hbq
    omega
  · split
    · exact sat_bindN noExn_tapeSource (fun _ => Sat.raise allowed_mkParsingError)
    · rename_i x hx
      have := stringextract_spec hx
      refine sat_bindE (sat_recursiveparse hnp _ _ _) (fun r => ?_)
      refine sat_bindE (sat_adjustpositions _ _ _) (fun cmd => Sat.pure ?_)
      show st.sindex < x + 1 ∧ x + 1 ≤ string.length + 1
      omega
  refine Sat.ite (fun _ => Sat.pure ?_) (fun _ => ?_)
  · show st.sindex < st.sindex + 2 ∧ st.sindex + 2 ≤ string.length + 1
    omega
  refine Sat.ite (fun _ => Sat.pure (adv1 rfl)) (fun _ => ?_)
  exact Sat.ite (fun _ => Sat.ite (fun _ => Sat.pure trivial) (fun _ => Sat.ite (fun _ => Sat.pure (adv1 rfl))
    (fun _ => Sat.pure (adv1 rfl)))) (fun _ => Sat.pure (adv1 rfl))

/-- **fuel adequacy of `_expandwordinternal`**: `Allowed` has no `outOfFuel "_expandwordinternal"`
    disjunct (`fuelSites`), so this says the loop never runs out of its `2·len + 4` fuel -/
theorem sat_expandwordinternal {np : NestedParse} (hnp : NPE T np) (tok : Token) (qd : Bool) :
    Sat (expandwordinternal np tok qd) (fun _ => True) (Allowed T) := by
  unfold expandwordinternal
  simp only []
  refine sat_bindE (sat_loop_measure (I := fun st => st.sindex ≤ tok.valueStr.length + 1)
    (R := fun _ => True) (μ := fun st => tok.valueStr.length + 2 - st.sindex) ?_ _ _ ?_ ?_) ?_
  · intro st hst
    refine (expand_progress hnp tok tok.valueStr qd st).weaken ?_ (fun _ h => h)
    intro r hr
    cases r with
    | inl st' =>
      simp only [Progress, Sum.elim_inl] at hr ⊢
      omega
    | inr _ => trivial
  · show (0 : Nat) ≤ _; omega
  · show tok.valueStr.length + 2 - 0 < _; omega
  · rintro ⟨parts, istring, early⟩
    simp only []
    refine Sat.ite (fun _ => Sat.pure trivial) (fun _ => Sat.ite (fun _ => ?_) (fun _ => Sat.pure trivial))
    exact sat_bindE (Sat.foreign known_visitnode) (fun _ => Sat.pure trivial)

/-- the fact about a token `_expandword` relies on: a QUOTED token is not empty -/
def TokQ (t : Token) : Prop := t.flags.contains .QUOTED = true → t.valueStr ≠ []

theorem sat_expandword {np : NestedParse} (hnp : NPE T np) (tok : Token) (hq : TokQ tok) :
    Sat (expandword np tok) (fun _ => True) (Allowed T) := by
  unfold expandword
  simp only []
  refine sat_bindN noExn_get (fun l => ?_)
  have hfin : ∀ qd, Sat (do
      let x ← expandwordinternal np tok qd
      pure (Node.word (tok.lexpos, tok.endlexpos) x.snd
        (if (l.limit == some 0) = true then List.filter (fun n => !isSubstitution n) x.fst
         else x.fst)) : M Node) (fun _ => True) (Allowed T) :=
    fun qd => sat_bindE (sat_expandwordinternal hnp tok qd) (fun _ => Sat.pure trivial)
  refine Sat.ite (fun _ => Sat.pure trivial) (fun _ => ?_)
  refine Sat.ite (fun hquoted => ?_) (fun _ => sat_bindN (noExn_pure _) (fun _ => hfin _))
  split
  · rename_i hnone
    exfalso
    apply hq hquoted
    cases hv : tok.valueStr with
    | nil => rfl
    | cons a as => rw [hv] at hnone; cases hnone
  · exact sat_bindN (noExn_pure _) (fun _ => hfin _)

end Bashlex.C01
