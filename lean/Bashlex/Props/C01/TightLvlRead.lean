/-
  C01 tight, part 19: `_readtoken` and `token()` from a state with an empty look-ahead slot and the
  flags `regexp` / `dblparen` off: neither `token.__init__` nor `_is_assignment` raises.
-/
import Bashlex.Props.C01.TightLvlWord
import Bashlex.Props.C01.TightFl
import Bashlex.Props.C01.TightMo

namespace Bashlex.C01
open Bashlex Bashlex.M Bashlex.C10 Bashlex.C11 Bashlex.C03.Tok Bashlex.C04.TTP
set_option linter.unusedSimpArgs false
set_option linter.unusedVariables false
set_option linter.unusedSectionVars false

/-! ## `_readtoken`'s meta-character block, after its first look-ahead -/

/-- the part of `readtokenMeta` after `let peek ← getc true` -/
def metaRest (character : Char) (peek : Option Char) : M (Option TokType) := do
  if peek == some character then
    if character == '<' then
      let p ← getc
      if p == some '-' then return some .LESS_LESS_MINUS
      else if p == some '<' then return some .LESS_LESS_LESS
      else
        ungetc p
        return some .LESS_LESS
    else if character == '>' then return some .GREATER_GREATER
    else if character == ';' then
      modify fun l => { l with ps := { l.ps with casepat := true } }
      let p ← getc
      if p == some '&' then return some .SEMI_SEMI_AND
      else
        ungetc p
        return some .SEMI_SEMI
    else if character == '&' then return some .AND_AND
    else if character == '|' then return some .OR_OR
  else if character == '<' && peek == some '&' then return some .LESS_AND
  else if character == '>' && peek == some '&' then return some .GREATER_AND
  else if character == '<' && peek == some '>' then return some .LESS_GREATER
  else if character == '>' && peek == some '|' then return some .GREATER_BAR
  else if character == '&' && peek == some '>' then
    let p ← getc
    if p == some '>' then return some .AND_GREATER_GREATER
    else
      ungetc p
      return some .AND_GREATER
  else if character == '|' && peek == some '&' then return some .BAR_AND
  else if character == ';' && peek == some '&' then return some .SEMI_AND
  ungetc peek
  let l ← get
  if character == ')' && l.lastReadToken.value == .str ['('] && l.tokenBeforeThat.is .WORD then
    modify fun l => { l with ps := { l.ps with allowopnbrc := true } }
  let l ← get
  if character == '(' && !l.ps.casepat then
    set { l with ps := { l.ps with subshell := true } }
  else if l.ps.casepat && character == ')' then
    set { l with ps := { l.ps with casepat := false } }
  else if l.ps.subshell && character == ')' then
    set { l with ps := { l.ps with subshell := false } }
  if !(character == '<' || character == '>') || peek != some '(' then
    return some (← tokentypeOfChar character)
  return none

theorem readtokenMeta_eq (character : Char) : readtokenMeta character = (do
    modify fun l => { l with ps := { l.ps with assignok := false } }
    let peek ← getc true
    metaRest character peek) := by
  unfold readtokenMeta metaRest
  rfl

set_option maxHeartbeats 1000000 in
/-- `none` is returned only for `<(` and `>(` -/
theorem sat_metaRest (c : Char) (peek : Option Char) :
    Sat (metaRest c peek) (fun r => r = none → (c = '<' ∨ c = '>') ∧ peek = some '(') := by
  unfold metaRest
  simp only []
  repeat' (first
    | with_reducible refine Sat.ite (fun h => ?_) (fun h => ?_)
    | with_reducible exact Sat.foreign trivial
    | with_reducible refine Sat.bind_any (fun _ => ?_)
    | with_reducible refine Sat.pure ?_
    | with_reducible split)
  all_goals first
    | (intro hh; cases hh; done)
    | (intro _; simp_all; done)
    | (intro _; simp_all; rename_i h; by_cases hc : c = '<'
       · exact Or.inl hc
       · exact Or.inr (h.1 hc))

section
variable {L : Str} {sr : List RedirCell} {rk : List (Nat × Bool)} {ps : List Nat}

/-- `_ungetc` from a cursor `j + 1` inside the line: exactly one back -/
theorem ungetc_x (c : Option Char) (j : Nat) :
    HT (WX L sr rk ps (j + 1)) (ungetc c) (fun _ => WX L sr rk ps j) ET := by
  intro l e ⟨h, hidx⟩
  have h0 := h
  obtain ⟨a1, a2, a3, a4, a5, a6, a7⟩ := h
  rw [run_ungetc]
  have hu : (tapeOf l e).ungetc = (true, { tapeOf l e with idx := (tapeOf l e).idx - 1 }) := by
    unfold Tape.ungetc
    rw [if_pos]
    rw [a1]
    have hne : L ≠ [] := by
      intro hl; rw [hl] at a2; simp at a2; omega
    simp only [Bool.and_eq_true, Bool.not_eq_true', List.isEmpty_eq_false_iff, ne_eq, bne_iff_ne,
      decide_eq_true_eq]
    exact ⟨⟨hne, by omega⟩, a2⟩
  rw [hu]
  simp only []
  refine ⟨h0.put rfl ?_ ?_, ?_⟩
  · show (tapeOf l e).idx - 1 ≤ _; omega
  · show j ≤ (tapeOf l e).idx - 1; omega
  · rw [tapeOf_put]; show (tapeOf l e).idx - 1 = j; omega

set_option maxHeartbeats 1000000 in
theorem metaRest_paren {c : Char} (hc : c = '<' ∨ c = '>') (j : Nat) :
    HT (WX L sr rk ps (j + 1)) (metaRest c (some '('))
      (fun r l e => r = none ∧ WX L sr rk ps j l e) F8 := by
  rcases hc with rfl | rfl
  all_goals
    unfold metaRest
    simp
    refine HT.bind (lift8 (ungetc_x _ j) (f8_ungetc _)) (fun _ => ?_)
    intro l e h
    simp only [M.run_bind, C10.run_get, map_eq_pure_bind, M.run_pure]
    exact ⟨True.intro, h⟩

variable {a : Nat}

/-- what `readtokenMeta c` leaves, entered right after `c` was read at position `a`: the cursor
    beyond `a`; if it returns `none`, `c` is `<` or `>` and the cursor is exactly on a `(` -/
def MetaQ (L : Str) (sr : List RedirCell) (rk : List (Nat × Bool)) (a : Nat) (c : Char)
    (r : Option TokType) (l : Local) (e : Env) : Prop :=
  W L sr rk [a] (a + 1) l e ∧
  (r = none → (c = '<' ∨ c = '>') ∧ ∃ i, a + 1 ≤ i ∧ WX L sr rk [a] i l e ∧ L[i]? = some '(')

theorem meta_none (c : Char) :
    HT (WX L sr rk [a] (a + 1)) (readtokenMeta c)
      (fun r l e => r = none → (c = '<' ∨ c = '>') ∧
        ∃ i, a + 1 ≤ i ∧ WX L sr rk [a] i l e ∧ L[i]? = some '(') (fun _ => True) := by
  rw [readtokenMeta_eq]
  refine HT.bind (Q := fun _ => WX L sr rk [a] (a + 1)) (HT.modify (fun l e h => h)) (fun _ => ?_)
  refine HT.bind (getc_x true (a + 1)) (fun peek => ?_)
  intro l e ⟨hw, hg⟩
  by_cases hp : peek = some '(' ∧ (c = '<' ∨ c = '>')
  · obtain ⟨hpk, hc⟩ := hp
    subst hpk
    obtain ⟨g1, g2⟩ := hg.some_ '(' rfl
    have hj : (tapeOf l e).idx = ((tapeOf l e).idx - 1) + 1 := by omega
    have hwx : WX L sr rk [a] (((tapeOf l e).idx - 1) + 1) l e := by
      refine ⟨?_, hj⟩
      rw [← hj]; exact hw.self
    have := metaRest_paren (sr := sr) (rk := rk) (ps := [a]) hc ((tapeOf l e).idx - 1) l e hwx
    revert this
    rcases (metaRest c (some '(')).run l e with ⟨r, e'⟩
    cases r with
    | error x => exact fun _ => True.intro
    | ok v =>
      obtain ⟨r, l'⟩ := v
      intro h _
      exact ⟨hc, _, by omega, h.2, g2⟩
  · have := sat_metaRest c peek l e
    revert this
    rcases (metaRest c peek).run l e with ⟨r, e'⟩
    cases r with
    | error x => exact fun _ => True.intro
    | ok v =>
      obtain ⟨r, l'⟩ := v
      intro h hr
      obtain ⟨h1, h2⟩ := h hr
      exact absurd ⟨h2, h1⟩ hp

theorem meta8 (hk : a + 1 < L.length) (c : Char) :
    HT (WX L sr rk [a] (a + 1)) (readtokenMeta c) (MetaQ L sr rk a c) F8 := by
  have h1 : HT (WX L sr rk [a] (a + 1)) (readtokenMeta c) (fun _ l e => W L sr rk [a] (a + 1) l e) F8 :=
    HT.weaken (w8 (w_readtokenMeta hk c) (f8_readtokenMeta c)) (fun l e h => h.1)
      (fun _ _ _ h => h.2) (fun _ h => h)
  exact ht_and h1 (meta_none c)

/-! ## `_readtoken` -/

/-- the state `token()` is entered in -/
def P0 (L : Str) (sr : List RedirCell) (rk : List (Nat × Bool)) (l : Local) (e : Env) : Prop :=
  W L sr rk [] 0 l e ∧ Fl l e

/-- the character in hand was read at `cursor - 1`; a backslash in hand is not followed by a newline -/
def CharAt (L : Str) (c : Option Char) (l : Local) (e : Env) : Prop :=
  ∀ ch, c = some ch → 1 ≤ (tapeOf l e).idx ∧ L[(tapeOf l e).idx - 1]? = some ch ∧
    (ch = '\\' → L[(tapeOf l e).idx]? ≠ some '\n')

theorem getcC : HT (P0 L sr rk) (getc true) (fun c l e => P0 L sr rk l e ∧ CharAt L c l e) F8 := by
  intro l e ⟨hw, hf⟩
  have h1 := getc_x (sr := sr) (rk := rk) (ps := []) (k := 0) true (tapeOf l e).idx l e ⟨hw, rfl⟩
  have h2 := fl_getc true l e hf
  have h3 := f8_getc true l e
  rcases hr : (getc true).run l e with ⟨r, e'⟩
  rw [hr] at h1 h2 h3
  cases r with
  | error x => exact h3
  | ok v =>
    obtain ⟨c, l'⟩ := v
    refine ⟨⟨h1.1, h2⟩, fun ch hch => ?_⟩
    obtain ⟨g1, g2⟩ := h1.2.some_ ch hch
    exact ⟨by omega, g2, fun hbs => h1.2.bs rfl (by rw [hch, hbs])⟩

/-- what `_readtoken` returns: a bare type with the start on the stack and the cursor beyond it,
    or a token -/
def RdQ (r : TokType ⊕ Token) (l : Local) (e : Env) : Prop :=
  match r with
  | .inl _ => ∃ a, Mo a l e
  | .inr _ => True

theorem nlTail {a : Nat} {f : Local → Local} (hf : ∀ l e, Mo a l e → Mo a (f l) e) (c : Char) :
    HT (Mo a) (do
      gatherheredocuments
      modify f
      let t ← tokentypeOfChar c
      pure (Sum.inl t) : M (TokType ⊕ Token)) RdQ F8 := by
  refine HT.bind (lift8 (HT.exn (mo_gatherheredocuments a) (fun _ _ => True.intro)) f8_gatherheredocuments)
    (fun _ => ?_)
  refine HT.bind (Q := fun _ => Mo a) (HT.modify hf) (fun _ => ?_)
  refine HT.bind (Q := fun _ => Mo a) ?_ (fun t => HT.pure (fun l e h => ⟨a, h⟩))
  unfold tokentypeOfChar
  split
  · exact HT.pure (fun _ _ h => h)
  · exact HT.foreign (f8_foreign rfl)

/-- exact cursor, recorded start, flags off -/
def WF (L : Str) (sr : List RedirCell) (rk : List (Nat × Bool)) (a i : Nat) (l : Local) (e : Env) : Prop :=
  WX L sr rk [a] i l e ∧ Fl l e

instance {i : Nat} : EnvStable (WF L sr rk a i) :=
  ⟨fun l e e' h h1 h2 => ⟨EnvStable.env l e e' h.1 h1 h2, h.2⟩⟩

theorem sm_val {I : Local → Env → Prop} [EnvStable I] (c : Char) :
    HT I (shellmeta c) (fun r l e => r = (synClass c).metac ∧ I l e) F8 := by
  unfold shellmeta
  refine HT.bind (w8 (syn_val c) (NoExn.sat (noExn_ask _))) (fun r => HT.pre_pure (fun hr => ?_))
  exact HT.pure (fun l e h => ⟨by rw [hr], h⟩)

theorem mo_of_w {i : Nat} {l : Local} {e : Env} (h : W L sr rk [a] i l e) (hi : a + 1 ≤ i) : Mo a l e := by
  obtain ⟨a1, a2, a3, a4, a5, a6, a7⟩ := h
  exact ⟨a4, a3, by omega⟩

set_option maxHeartbeats 1000000 in
/-- `_readtoken` after `recordpos 1`, on a character that is neither a blank nor a newline -/
theorem afterRec8 (hnl : L[L.length - 1]? = some '\n') (ch : Char) (hch : L[a]? = some ch)
    (hne : ch ≠ '\n') (hbl : shellblank ch = false)
    (hbs : ch = '\\' → L[a + 1]? ≠ some '\n') :
    HT (WF L sr rk a (a + 1)) (do
      let l0 ← get
      if l0.ps.regexp = true then do
          let t ← readtokenword ch
          pure (Sum.inr t)
        else do
          let m ← shellmeta ch
          let l1 ← get
          if (m && !l1.ps.dblparen) = true then do
              let r ← readtokenMeta ch
              match r with
                | some t => pure (Sum.inl t)
                | none => do
                  let l ← get
                  if (ch == '-' && (l.lastReadToken.is TokType.LESS_AND || l.lastReadToken.is TokType.GREATER_AND)) = true then do
                      let t ← tokentypeOfChar ch
                      pure (Sum.inl t)
                    else do
                      let t ← readtokenword ch
                      pure (Sum.inr t)
            else do
              let l ← get
              if (ch == '-' && (l.lastReadToken.is TokType.LESS_AND || l.lastReadToken.is TokType.GREATER_AND)) = true then do
                  let t ← tokentypeOfChar ch
                  pure (Sum.inl t)
                else do
                  let t ← readtokenword ch
                  pure (Sum.inr t) : M (TokType ⊕ Token)) RdQ F8 := by
  have hlen : a + 2 ≤ L.length := by
    have hlt : a < L.length := (List.getElem?_eq_some_iff.mp hch).1
    by_cases heq : a = L.length - 1
    · rw [heq, hnl] at hch
      simp only [Option.some.injEq] at hch
      exact absurd hch.symm hne
    · omega
  refine HT.get_bind (fun l0 => ?_)
  intro l e ⟨hl, hp⟩
  subst hl
  have hr : l.ps.regexp = false := hp.2.1
  simp only [hr, Bool.false_eq_true, if_false]
  refine (?key : HT (WF L sr rk a (a + 1)) _ RdQ F8) l e hp
  refine HT.bind (sm_val (I := WF L sr rk a (a + 1)) ch) (fun m => HT.pre_pure (fun hm => ?_))
  refine HT.get_bind (fun l1 => ?_)
  intro l e ⟨hl, hp⟩
  subst hl
  have hd : l.ps.dblparen = false := hp.2.2
  simp only [hd, Bool.not_false, Bool.and_true]
  refine (?key2 : HT (WF L sr rk a (a + 1)) _ RdQ F8) l e hp
  -- the tail shared by the last two branches
  have dashOrWord : ∀ {i : Nat}, a + 1 ≤ i →
      ((synClass ch).brk = false ∨ ch = '<' ∨ ch = '>') →
      (ch = '\\' → L[i]? ≠ some '\n') → ((ch = '<' ∨ ch = '>') → L[i]? = some '(') →
      HT (WX L sr rk [a] i) (do
        let l ← get
        if (ch == '-' && (l.lastReadToken.is TokType.LESS_AND || l.lastReadToken.is TokType.GREATER_AND)) = true then do
            let t ← tokentypeOfChar ch
            pure (Sum.inl t)
          else do
            let t ← readtokenword ch
            pure (Sum.inr t) : M (TokType ⊕ Token)) RdQ F8 := by
    intro i hi hws hbs' hlt
    refine HT.get_bind (fun l => HTQAt.ofHT ?_)
    refine HT.ite (fun _ => ?_) (fun _ => ?_)
    · refine HT.bind (Q := fun _ => WX L sr rk [a] i) ?_
        (fun t => HT.pure (fun l e h => ⟨a, mo_of_w h.1 hi⟩))
      unfold tokentypeOfChar
      split
      · exact HT.pure (fun _ _ h => h)
      · exact HT.foreign (f8_foreign rfl)
    · exact HT.bind (readtokenword8 hlen hnl hi ch hws hbs' hlt) (fun t => HT.pure (fun _ _ _ => True.intro))
  refine HT.ite (fun hm1 => ?_) (fun hm1 => ?_)
  · -- a meta character
    have hk : a + 1 < L.length := by omega
    refine HT.bind (HT.pre (meta8 hk ch) (fun l e h => h.1)) (fun r => ?_)
    cases r with
    | some t => exact HT.pure (fun l e h => ⟨a, mo_of_w h.1 (Nat.le_refl _)⟩)
    | none =>
      simp only []
      intro l e hq
      obtain ⟨hc, i, hi, hwx, hpar⟩ := hq.2 rfl
      exact dashOrWord hi (Or.inr hc) (fun h => by rcases hc with h' | h' <;> (rw [h'] at h; cases h))
        (fun _ => hpar) l e hwx
  · -- not a meta character: not a break character either
    have hmf : (synClass ch).metac = false := by
      rw [← hm]
      cases hmm : m with
      | true => exact absurd hmm hm1
      | false => rfl
    have hnb : (synClass ch).brk = false := by
      simp only [synClass, Bool.or_eq_false_iff, beq_eq_false_iff_ne, ne_eq] at hmf ⊢
      simp only [shellblank, Bool.or_eq_false_iff, beq_eq_false_iff_ne, ne_eq] at hbl
      obtain ⟨⟨⟨⟨⟨⟨m1, m2⟩, m3⟩, m4⟩, m5⟩, m6⟩, m7⟩ := hmf
      exact ⟨⟨⟨⟨⟨⟨⟨⟨⟨m1, m2⟩, m3⟩, m4⟩, m5⟩, m6⟩, m7⟩, hbl.1⟩, hbl.2⟩, hne⟩
    refine HT.pre (dashOrWord (Nat.le_refl _) (Or.inl hnb) hbs
      (fun h => by rcases h with h | h <;> (rw [h] at hmf; cases hmf))) (fun l e h => h.1)

set_option maxHeartbeats 1000000 in
theorem readtoken8 (hnl : L ≠ [] → L[L.length - 1]? = some '\n') :
    HT (P0 L sr rk) readtoken RdQ F8 := by
  unfold readtoken
  simp only []
  refine HT.bind (Q := fun _ => P0 L sr rk) (HT.pure (fun _ _ h => h)) (fun fuel => ?_)
  refine HT.bind getcC (fun c0 => ?_)
  refine HT.bind (Q := fun c l e => (∀ ch, c = some ch → shellblank ch = false) ∧
      (P0 L sr rk l e ∧ CharAt L c l e)) ?_ (fun c1 => ?_)
  · refine HT.loop (I := fun c l e => P0 L sr rk l e ∧ CharAt L c l e) f8_fuel (fun c => ?_) fuel c0
    cases c with
    | none => exact HT.pure (fun _ _ h => ⟨(fun ch hc => by cases hc), h⟩)
    | some ch =>
      refine HT.ite (fun _ => ?_) (fun hb => HT.pure (fun _ _ h => ⟨fun ch' hc => ?_, h⟩))
      · refine HT.bind (HT.pre getcC (fun l e h => h.1)) (fun c' => HT.pure (fun _ _ h => h))
      · cases hc
        cases hbb : shellblank ch with
        | true => exact absurd hbb hb
        | false => rfl
  refine HT.pre_pure (fun hblank => ?_)
  cases c1 with
  | none => exact HT.pure (fun _ _ _ => True.intro)
  | some ch =>
    simp only [pure_bind]
    have hbl := hblank ch rfl
    refine HT.ite (fun hsharp => ?_) (fun hsharp => ?_)
    · -- a comment
      have hc : ch = '#' := by simpa using hsharp
      subst hc
      suffices key : 1 < L.length → HT (W L sr rk [] 1) _ RdQ F8 by
        intro l e ⟨⟨hw, hf⟩, hca⟩
        obtain ⟨h1, h2, h3⟩ := hca '#' rfl
        have hw1 : W L sr rk [] 1 l e := by
          obtain ⟨a1, a2, a3, a4, a5, a6, a7⟩ := hw
          exact ⟨a1, a2, a3, a4, a5, a6, h1⟩
        have hne : L ≠ [] := by
          intro hl; rw [hl] at h2; simp at h2
        have hlast := hnl hne
        have hlt : (tapeOf l e).idx - 1 < L.length := (List.getElem?_eq_some_iff.mp h2).1
        have hk : 1 < L.length := by
          by_cases heq : (tapeOf l e).idx - 1 = L.length - 1
          · rw [heq, hlast] at h2; simp at h2
          · omega
        exact key hk l e hw1
      intro hk
      refine HT.bind (w8 (w_discardUntil hk '\n') (f8_discardUntil _)) (fun _ => HT.pre_pure (fun _ => ?_))
      refine HT.bind (w8 (getc_keep false) (f8_getc _)) (fun _ => HT.pre_pure (fun _ => ?_))
      refine HT.bind (Q := fun _ l e => ∃ a, Mo a l e) ?_ (fun _ => HT.pre_exists (fun a => ?_))
      · intro l e hw
        rw [C11.run_recordpos]
        obtain ⟨a1, a2, a3, a4, a5, a6, a7⟩ := hw
        refine ⟨(tapeOf l e).idx - 1, ?_, a3, ?_⟩
        · show l.positions ++ _ = _; rw [a4]; rfl
        · show (tapeOf l e).idx - 1 + 1 ≤ (tapeOf l e).idx; omega
      · refine HT.ite (fun _ => ?_) (fun h => absurd rfl h)
        refine nlTail ?_ '\n'
        exact fun l e h => h
    · -- any other character
      suffices key : ∀ a, L[a]? = some ch → (ch = '\\' → L[a + 1]? ≠ some '\n') →
          HT (WF L sr rk a (a + 1)) _ RdQ F8 by
        intro l e ⟨⟨hw, hf⟩, hca⟩
        obtain ⟨h1, h2, h3⟩ := hca ch rfl
        rw [M.run_bind, C11.run_recordpos]
        have hidx : (tapeOf l e).idx - 1 + 1 = (tapeOf l e).idx := by omega
        refine key ((tapeOf l e).idx - 1) h2 (by rw [hidx]; exact h3) _ e ⟨⟨?_, hidx.symm⟩, hf⟩
        obtain ⟨a1, a2, a3, a4, a5, a6, a7⟩ := hw
        refine ⟨a1, a2, a3, ?_, a5, a6, by rw [hidx]; exact Nat.le_refl _⟩
        show l.positions ++ _ = _; rw [a4]; rfl
      intro a hch hbs
      have hne0 : L ≠ [] := by
        intro hl; rw [hl] at hch; simp at hch
      refine HT.ite (fun _ => ?_) (fun hnn => ?_)
      · refine HT.pre (nlTail ?_ ch) (fun l e h => mo_of_w h.1.1 (Nat.le_refl _))
        exact fun l e h => h
      · have hne : ch ≠ '\n' := by
          intro h; apply hnn; rw [h]; rfl
        exact afterRec8 (hnl hne0) ch hch hne hbl hbs

/-- **`token()`** from a state with the cursor inside the line, an empty look-ahead slot, no
    recorded position and the flags off -/
theorem next8 (hnl : L ≠ [] → L[L.length - 1]? = some '\n') :
    HT (P0 L sr rk) nextToken (fun _ => TrueI) F8 := by
  unfold nextToken
  simp only []
  refine HT.bind (Q := fun _ => P0 L sr rk) (HT.modify (fun l e h => h)) (fun _ => ?_)
  refine HT.bind (readtoken8 hnl) (fun r => ?_)
  cases r with
  | inl ty =>
    refine HT.pre_exists (fun a => ?_)
    simp only []
    refine HT.bind (Q := fun _ => Pos2 a) ?_ (fun _ => ?_)
    · intro l e ⟨h1, h2, h3⟩
      rw [C11.run_recordpos]
      refine ⟨(tapeOf l e).idx, by omega, ?_⟩
      show l.positions ++ _ = _
      rw [h1]; rfl
    refine HT.bind (p_createtoken _ _ _ a) (fun cur => ?_)
    refine HT.bind (Q := fun _ => TrueI) (HT.modify (fun _ _ h => h)) (fun _ => ?_)
    exact HT.bind (Q := fun _ => TrueI) (HT.modify (fun _ _ h => h)) (fun _ => HT.pure (fun _ _ h => h))
  | inr t =>
    simp only [pure_bind]
    refine HT.bind (Q := fun _ => TrueI) (HT.modify (fun _ _ _ => True.intro)) (fun _ => ?_)
    exact HT.bind (Q := fun _ => TrueI) (HT.modify (fun _ _ h => h)) (fun _ => HT.pure (fun _ _ h => h))

end

end Bashlex.C01
