/-
  C01 tight, part 20: `gatherheredocuments` never moves the cursor back (invariant `Mo a`: the
  recorded start `a` is on the stack, the look-ahead slot is empty, the cursor is beyond `a`).
-/
import Bashlex.Props.C01.TightLvl
import Bashlex.Props.C01.TightFuel

namespace Bashlex.C01
open Bashlex Bashlex.M Bashlex.C10 Bashlex.C11 Bashlex.C03.Tok
set_option linter.unusedSimpArgs false
set_option linter.unusedVariables false

def Mo (a : Nat) (l : Local) (e : Env) : Prop :=
  l.positions = [a] ∧ l.eolLookahead = none ∧ a + 1 ≤ (tapeOf l e).idx

abbrev MoSat {α : Type} (a : Nat) (m : M α) : Prop := HT (Mo a) m (fun _ => Mo a) ETrue

theorem tapeOf_answer_idx (l : Local) (e : Env) (q : Query) (h : q ≠ .bump) (h1 : ∀ r, q ≠ .getc r)
    (h2 : q ≠ .ungetc) : tapeOf l (e.answer q).2 = tapeOf l e := by
  unfold tapeOf
  split
  · rfl
  · cases q with
    | getc r => exact absurd rfl (h1 r)
    | ungetc => exact absurd rfl h2
    | bump => exact absurd rfl h
    | syntab c => simp only [Env.answer]; split <;> rfl
    | _ => rfl

syntax "mo_atom" : tactic
macro_rules | `(tactic| mo_atom) => `(tactic| assumption)

macro "mo_step" : tactic => `(tactic| first
  | with_reducible exact HT.pure (fun _ _ h => h)
  | with_reducible refine HT.ite (fun _ => ?_) (fun _ => ?_)
  | with_reducible refine HTQAt.ite (fun _ => ?_) (fun _ => ?_)
  | with_reducible refine HTQAt.ite_bind (fun _ => ?_) (fun _ => ?_)
  | with_reducible mo_atom
  | with_reducible refine ht_pure_bind ?_
  | with_reducible refine ht_bind_assoc ?_
  | with_reducible refine ht_ite_bind (fun _ => ?_) (fun _ => ?_)
  | ((with_reducible apply HT.bind); (focus (with_reducible mo_atom)); intro _)
  | with_reducible refine HT.get_bind (fun _ => ?_)
  | ((with_reducible refine htq_modify_bind ?_ ?_); focus (intro _ _ h; exact h))
  | ((with_reducible refine HT.modify ?_); (intro _ _ h; exact h))
  | ((with_reducible refine HTQAt.set_bind ?_ ?_); focus (intro _ h; exact h))
  | ((with_reducible refine htq_set ?_); (intro _ h; exact h))
  | ((with_reducible refine HTQAt.foreign_bind ?_); exact True.intro)
  | ((with_reducible refine HTQAt.foreign ?_); exact True.intro)
  | with_reducible refine HTQAt.pure_bind ?_
  | with_reducible exact HT.pure (fun _ _ h => h.2)
  | split_head
  | with_reducible refine HTQAt.ofHT ?_
  | ((with_reducible refine ht_foreign_bind ?_); exact True.intro)
  | ((with_reducible refine ht_raise_bind ?_); exact True.intro)
  | ((with_reducible refine HT.raise ?_); exact True.intro)
  | ((with_reducible refine HT.foreign ?_); exact True.intro)
  | ((with_reducible refine HT.bind (Q := fun _ => Mo _) (ht_loopI ?_ (fun _ => ?_) _ _) (fun _ => ?_)); focus exact True.intro)
  | ((with_reducible refine ht_loopI ?_ (fun _ => ?_) _ _); focus exact True.intro))

macro "mo_walk" : tactic => `(tactic| repeat' mo_step)


theorem putL_eol' (l : Local) (t : Tape) : (putL l t).eolLookahead = l.eolLookahead := by
  cases l with
  | mk tape => cases tape <;> rfl

theorem mo_getc (rqn : Bool) (a : Nat) : MoSat a (getc rqn) := by
  intro l e ⟨h1, h2, h3⟩
  rw [C10.run_getc rqn l e h2]
  cases hgc : (tapeOf l e).getc rqn ((tapeOf l e).line.length + 1) with
  | error u => cases u; exact True.intro
  | ok v =>
    obtain ⟨c, t'⟩ := v
    obtain ⟨m1, m2⟩ := tape_getc_mono rqn _ _ _ _ hgc
    simp only []
    refine ⟨?_, ?_, ?_⟩
    · rw [putL_positions']; exact h1
    · rw [putL_eol']; exact h2
    · rw [tapeOf_put]; omega
macro_rules | `(tactic| mo_atom) => `(tactic| exact mo_getc _ _)

theorem mo_bumpIdx (a : Nat) : MoSat a bumpIdx := by
  intro l e ⟨h1, h2, h3⟩
  rw [C10.run_bumpIdx]
  refine ⟨?_, ?_, ?_⟩
  · rw [putL_positions']; exact h1
  · rw [putL_eol']; exact h2
  · rw [tapeOf_put]; simp only []; omega
macro_rules | `(tactic| mo_atom) => `(tactic| exact mo_bumpIdx _)

theorem mo_peekc (rqn : Bool) (a : Nat) : MoSat a (peekc rqn) := by
  intro l e ⟨h1, h2, h3⟩
  unfold peekc
  simp only [M.run_bind]
  rw [C10.run_getc rqn l e h2]
  cases hgc : (tapeOf l e).getc rqn ((tapeOf l e).line.length + 1) with
  | error u => cases u; exact True.intro
  | ok v =>
    obtain ⟨c, t'⟩ := v
    obtain ⟨m1, m2⟩ := tape_getc_mono rqn _ _ _ _ hgc
    obtain ⟨b1, b2, b3, b4, b5, b6⟩ := getc_spec rqn _ _ _ _ hgc
    simp only []
    cases c with
    | none =>
      simp only [Option.isSome_none, Bool.false_eq_true, if_false, M.run_bind, M.run_pure]
      refine ⟨?_, ?_, ?_⟩
      · rw [putL_positions']; exact h1
      · rw [putL_eol']; exact h2
      · rw [tapeOf_put]; omega
    | some ch =>
      obtain ⟨n1, n2⟩ := m2 ch rfl
      have hlt : t'.idx - 1 < (tapeOf l e).line.length := (List.getElem?_eq_some_iff.mp n2).1
      simp only [Option.isSome_some, if_true, M.run_bind]
      rw [C10.run_ungetc, tapeOf_put]
      have hu : t'.ungetc = (true, { t' with idx := t'.idx - 1 }) := by
        unfold Tape.ungetc
        rw [if_pos]
        rw [b1]
        have hne : (tapeOf l e).line ≠ [] := by
          intro hl; rw [hl] at hlt; simp at hlt
        simp only [Bool.and_eq_true, Bool.not_eq_true', List.isEmpty_eq_false_iff, ne_eq, bne_iff_ne,
          decide_eq_true_eq]
        exact ⟨⟨hne, by omega⟩, by omega⟩
      rw [hu]
      simp only [M.run_pure]
      refine ⟨?_, ?_, ?_⟩
      · rw [putL_positions', putL_positions']; exact h1
      · rw [putL_eol', putL_eol']; exact h2
      · rw [putL_putL, putE_putE, tapeOf_put]; simp only []; omega
macro_rules | `(tactic| mo_atom) => `(tactic| exact mo_peekc _ _)

theorem mo_curIdx (a : Nat) : MoSat a curIdx := by
  intro l e h; rw [C10.run_curIdx]; exact h
theorem mo_tapeLine (a : Nat) : MoSat a tapeLine := by
  intro l e h; rw [C10.run_tapeLine]; exact h
theorem mo_optStrict (a : Nat) : MoSat a optStrict := by
  intro l e h; rw [C10.run_optStrict]; exact h
macro_rules | `(tactic| mo_atom) => `(tactic| exact mo_curIdx _)
macro_rules | `(tactic| mo_atom) => `(tactic| exact mo_tapeLine _)
macro_rules | `(tactic| mo_atom) => `(tactic| exact mo_optStrict _)

theorem mo_loopFuel (a : Nat) : MoSat a loopFuel := HT.pure (fun _ _ h => h)
macro_rules | `(tactic| mo_atom) => `(tactic| exact mo_loopFuel _)

theorem mo_readline_false (a : Nat) : MoSat a (readline false) := by
  unfold readline; simp only [Bool.and_false, Bool.false_eq_true, if_false]; mo_walk
macro_rules | `(tactic| mo_atom) => `(tactic| exact mo_readline_false _)

theorem mo_makeheredoc (id : Nat) (kill : Bool) (a : Nat) : MoSat a (makeheredoc id kill) := by
  unfold makeheredoc; (try simp only []); mo_walk
macro_rules | `(tactic| mo_atom) => `(tactic| exact mo_makeheredoc _ _ _)

/-- **`gatherheredocuments` never moves the cursor back** -/
theorem mo_gatherheredocuments (a : Nat) : MoSat a gatherheredocuments := by
  unfold gatherheredocuments; (try simp only []); mo_walk

end Bashlex.C01
