/-
  C01 tight, part 7: `_readtokenword`, `_readtoken`, `token()` with the invariant `PD n d`:
  `token()` records two positions before it pops two, from whatever state it is entered in.
-/
import Bashlex.Props.C01.TightStateTok

namespace Bashlex.C01
open Bashlex Bashlex.M Bashlex.C10 Bashlex.C11
set_option linter.unusedSimpArgs false
set_option linter.unusedVariables false

set_option maxHeartbeats 1000000 in
/-- `recordpos`, then exactly one `_createtoken` on every path -/
theorem pd_finishWord (st : RWState) (n : Nat) (d : List Char) :
    HT (PD (n + 1) d) (finishWord st) (fun _ => PD n d) E2 := by
  unfold finishWord; (try simp only []); pd_walk
macro_rules | `(tactic| pd_atom) => `(tactic| exact pd_finishWord _ _ _)

theorem pd_readtokenword (c : Char) (n : Nat) (d : List Char) :
    HT (PD (n + 1) d) (readtokenword c) (fun _ => PD n d) E2 := by
  unfold readtokenword; (try simp only []); pd_walk
macro_rules | `(tactic| pd_atom) => `(tactic| exact pd_readtokenword _ _ _)

/-- a bare token type is returned with its start position on the stack -/
def ReadPD (n : Nat) (d : List Char) (r : TokType ⊕ Token) : Local → Env → Prop :=
  match r with
  | .inl _ => PD (n + 1) d
  | .inr _ => PD n d

set_option maxHeartbeats 1000000 in
theorem pd_readtoken (n : Nat) (d : List Char) : HT (PD n d) readtoken (ReadPD n d) E2 := by
  unfold readtoken; (try simp only []); pd_walk
  all_goals exact HT.pure (fun _ _ h => h)

/-- **`token()`**, entered with any number of recorded positions and any delimiter stack -/
theorem pd_nextToken (n : Nat) (d : List Char) : PSat n d nextToken := by
  unfold nextToken; (try simp only [])
  refine htq_modify_bind (fun _ _ h => h) ?_
  refine HT.bind (pd_readtoken n d) (fun r => ?_)
  cases r with
  | inl ty =>
    show HT (PD (n + 1) d) _ _ _
    pd_walk
  | inr t =>
    show HT (PD n d) _ _ _
    pd_walk
    all_goals (rename_i h _; cases h)

/-- **`token()` and `gatherheredocuments` never raise `AssertionError|_createtoken` or
    `IndexError|_pop_delimiter`**, in the state-agnostic form (all states, all environments) -/
theorem sat2_nextToken : Sat nextToken (fun _ => True) E2 := by
  intro l e
  have h := pd_nextToken 0 l.dstack l e ⟨Nat.zero_le _, rfl⟩
  revert h
  rcases nextToken.run l e with ⟨r, e'⟩
  cases r with
  | ok v => exact fun _ => True.intro
  | error x => exact fun h => h

theorem sat2_gatherheredocuments : Sat gatherheredocuments (fun _ => True) E2 := by
  intro l e
  have h := pd_gatherheredocuments 0 l.dstack l e ⟨Nat.zero_le _, rfl⟩
  revert h
  rcases gatherheredocuments.run l e with ⟨r, e'⟩
  cases r with
  | ok v => exact fun _ => True.intro
  | error x => exact fun h => h

/-- what the tokenizer may raise, tightened further: four foreign sites are left -/
def TokExn2 (x : Exn) : Prop := TokExn1 x ∧ E2 x

/-- two exception disciplines of the same computation hold together -/
theorem sat_andE {α : Type} {m : M α} {P : α → Prop} {E F : Exn → Prop}
    (h1 : Sat m P E) (h2 : Sat m P F) : Sat m P (fun x => E x ∧ F x) := by
  intro l e
  have a1 := h1 l e
  have a2 := h2 l e
  rcases hr : m.run l e with ⟨r, e'⟩
  rw [hr] at a1 a2
  cases r with
  | ok v => exact a1
  | error x => exact ⟨a1, a2⟩

/-- **hTok**, tightened -/
theorem t2_nextToken : Sat nextToken (fun _ => True) TokExn2 := sat_andE t1_nextToken sat2_nextToken
/-- **hGather**, tightened -/
theorem t2_gatherheredocuments : Sat gatherheredocuments (fun _ => True) TokExn2 :=
  sat_andE t1_gatherheredocuments sat2_gatherheredocuments

end Bashlex.C01
