/-
  C01 tight, part 21: nothing in the tokenizer sets the flags `regexp` / `dblparen` (frame walk with
  the invariant `Fl`; generated from `TightStateTok.lean` by renaming).
-/
import Bashlex.Props.C01.TightFl

namespace Bashlex.C01
open Bashlex Bashlex.M Bashlex.C10 Bashlex.C11
set_option linter.unusedSimpArgs false
set_option linter.unusedVariables false

theorem fl_makeheredoc (id : Nat) (kill : Bool) : FlSat (makeheredoc id kill) := by
  unfold makeheredoc; (try simp only []); fl_walk
macro_rules | `(tactic| fl_atom) => `(tactic| exact fl_makeheredoc _ _)

theorem fl_gatherheredocuments : FlSat gatherheredocuments := by
  unfold gatherheredocuments; (try simp only []); fl_walk
macro_rules | `(tactic| fl_atom) => `(tactic| exact fl_gatherheredocuments)

theorem fl_tapeSource : FlSat tapeSource := by
  unfold tapeSource; (try simp only []); fl_walk
theorem fl_tapeAdded : FlSat tapeAdded := by
  unfold tapeAdded; (try simp only []); fl_walk
theorem fl_optProceed : FlSat optProceed := by
  unfold optProceed; (try simp only []); fl_walk
theorem fl_syn (c : Char) : FlSat (syn c) := fl_ask _
macro_rules | `(tactic| fl_atom) => `(tactic| exact fl_tapeSource)
macro_rules | `(tactic| fl_atom) => `(tactic| exact fl_tapeAdded)
macro_rules | `(tactic| fl_atom) => `(tactic| exact fl_optProceed)
macro_rules | `(tactic| fl_atom) => `(tactic| exact fl_syn _)

theorem fl_shellmeta (c : Char) : FlSat (shellmeta c) := by unfold shellmeta; fl_walk
theorem fl_shellquote (c : Char) : FlSat (shellquote c) := by unfold shellquote; fl_walk
theorem fl_shellexp (c : Char) : FlSat (shellexp c) := by unfold shellexp; fl_walk
theorem fl_shellbreak (c : Char) : FlSat (shellbreak c) := by unfold shellbreak; fl_walk
macro_rules | `(tactic| fl_atom) => `(tactic| exact fl_shellmeta _)
macro_rules | `(tactic| fl_atom) => `(tactic| exact fl_shellquote _)
macro_rules | `(tactic| fl_atom) => `(tactic| exact fl_shellexp _)
macro_rules | `(tactic| fl_atom) => `(tactic| exact fl_shellbreak _)

theorem fl_matchedPairError {α : Type} (c : Char) : FlSat (matchedPairError c : M α) := by
  unfold matchedPairError; fl_walk
macro_rules | `(tactic| fl_atom) => `(tactic| exact fl_matchedPairError _)

theorem fl_depthFuel : FlSat depthFuel := HT.pure (fun _ _ h => h)
macro_rules | `(tactic| fl_atom) => `(tactic| exact fl_depthFuel)

theorem fl_createtoken (ty : TokType) (v : TVal) (fl : WordFlags) : FlSat (createtoken ty v fl) := by
  unfold createtoken; (try simp only []); fl_walk
macro_rules | `(tactic| fl_atom) => `(tactic| exact fl_createtoken _ _ _)

theorem fl_pushDelimiter (c : Char) : FlSat (pushDelimiter c) := by unfold pushDelimiter; fl_walk
theorem fl_popDelimiter : FlSat popDelimiter := by unfold popDelimiter; (try simp only []); fl_walk
theorem fl_currentDelimiter : FlSat currentDelimiter := by unfold currentDelimiter; fl_walk
macro_rules | `(tactic| fl_atom) => `(tactic| exact fl_pushDelimiter _)
macro_rules | `(tactic| fl_atom) => `(tactic| exact fl_popDelimiter)
macro_rules | `(tactic| fl_atom) => `(tactic| exact fl_currentDelimiter)

set_option hygiene false in
macro_rules | `(tactic| fl_atom) => `(tactic| exact hpmp _)
set_option hygiene false in
macro_rules | `(tactic| fl_atom) => `(tactic| exact hpcs _)
set_option hygiene false in
macro_rules | `(tactic| fl_atom) => `(tactic| exact hd _ _ _)
set_option hygiene false in
macro_rules | `(tactic| fl_atom) => `(tactic| exact hpost _ _ _ _)
set_option hygiene false in
macro_rules | `(tactic| fl_atom) => `(tactic| exact hcpost _ _ _)

/-! ### `_parse_matched_pair`, `_parse_comsub` -/

theorem fl_mpInit (P : MPParams) : FlSat (mpInit P) := by
  unfold mpInit; (try simp only []); fl_walk
macro_rules | `(tactic| fl_atom) => `(tactic| exact fl_mpInit _)

theorem fl_mpPre (P : MPParams) (lfc : Bool) (st : MPState) :
    FlSat (mpPre P lfc st) := by
  unfold mpPre; (try simp only []); fl_walk
macro_rules | `(tactic| fl_atom) => `(tactic| exact fl_mpPre _ _ _)

theorem fl_handledollarword {pmp : MPParams → M Str} {pcs : CSParams → M Str}
    (hpmp : ∀ P, FlSat (pmp P)) (hpcs : ∀ P, FlSat (pcs P)) (P : MPParams)
    (rdquote : Bool) (c : Char) :
    FlSat (handledollarword pmp pcs P rdquote c) := by
  unfold handledollarword; (try simp only []); fl_walk

theorem fl_mpPost {pmp : MPParams → M Str} {pcs : CSParams → M Str}
    (hpmp : ∀ P, FlSat (pmp P)) (hpcs : ∀ P, FlSat (pcs P)) (P : MPParams)
    (rdquote : Bool) (st : MPState) (c : Char) :
    FlSat (mpPost pmp pcs P rdquote st c) := by
  have hd := fl_handledollarword hpmp hpcs
  unfold mpPost; (try simp only []); fl_walk

theorem fl_csDelimMatches (st : CSState) : FlSat (csDelimMatches st) := by
  unfold csDelimMatches; (try simp only []); fl_walk
macro_rules | `(tactic| fl_atom) => `(tactic| exact fl_csDelimMatches _)

theorem fl_csA (P : CSParams) (st : CSState) : FlSat (csA P st) := by
  unfold csA; (try simp only []); fl_walk
theorem fl_csB (b : Bool) (st : CSState) (c : Char) : FlSat (csB b st c) := by
  unfold csB; (try simp only []); fl_walk
theorem fl_csC (P : CSParams) (b : Bool) (st : CSState) (c : Char) :
    FlSat (csC P b st c) := by
  unfold csC; (try simp only []); fl_walk
theorem fl_csD (P : CSParams) (st : CSState) (c : Char) : FlSat (csD P st c) := by
  unfold csD; (try simp only []); fl_walk
macro_rules | `(tactic| fl_atom) => `(tactic| exact fl_csA _ _)
macro_rules | `(tactic| fl_atom) => `(tactic| exact fl_csB _ _ _)
macro_rules | `(tactic| fl_atom) => `(tactic| exact fl_csC _ _ _ _)
macro_rules | `(tactic| fl_atom) => `(tactic| exact fl_csD _ _ _)

theorem fl_csPre (P : CSParams) (b : Bool) (st : CSState) :
    FlSat (csPre P b st) := by
  unfold csPre; (try simp only []); fl_walk
macro_rules | `(tactic| fl_atom) => `(tactic| exact fl_csPre _ _ _)

theorem fl_csPost {pmp : MPParams → M Str} {pcs : CSParams → M Str}
    (hpmp : ∀ P, FlSat (pmp P)) (hpcs : ∀ P, FlSat (pcs P)) (P : CSParams)
    (st : CSState) (c : Char) : FlSat (csPost pmp pcs P st c) := by
  unfold csPost; (try simp only []); fl_walk

/-- the two mutually recursive scanners, by induction on the depth fuel -/
theorem fl_pmp_pcs : ∀ fuel, (∀ P, FlSat (parseMatchedPair fuel P)) ∧
    (∀ P, FlSat (parseComsub fuel P)) := by
  intro fuel
  induction fuel with
  | zero =>
    refine ⟨fun P => ?_, fun P => ?_⟩
    · unfold parseMatchedPair; fl_walk
    · unfold parseComsub; fl_walk
  | succ fuel ih =>
    obtain ⟨hpmp, hpcs⟩ := ih
    have hpost := fl_mpPost hpmp hpcs
    have hcpost := fl_csPost hpmp hpcs
    refine ⟨fun P => ?_, fun P => ?_⟩
    · unfold parseMatchedPair; (try simp only []); fl_walk
    · unfold parseComsub; (try simp only []); fl_walk

theorem fl_parseMatchedPair (fuel : Nat) (P : MPParams) :
    FlSat (parseMatchedPair fuel P) := (fl_pmp_pcs fuel).1 P
theorem fl_parseComsub (fuel : Nat) (P : CSParams) :
    FlSat (parseComsub fuel P) := (fl_pmp_pcs fuel).2 P
macro_rules | `(tactic| fl_atom) => `(tactic| exact fl_parseMatchedPair _ _)
macro_rules | `(tactic| fl_atom) => `(tactic| exact fl_parseComsub _ _)

/-! ### words -/

theorem fl_isAssignment (s : Str) : FlSat (isAssignment s) := by
  unfold isAssignment; (try simp only []); fl_walk
macro_rules | `(tactic| fl_atom) => `(tactic| exact fl_isAssignment _)

theorem fl_specialcasetokens (s : Str) : FlSat (specialcasetokens s) := by
  unfold specialcasetokens; (try simp only []); fl_walk
macro_rules | `(tactic| fl_atom) => `(tactic| exact fl_specialcasetokens _)

theorem fl_handleshellquote (st : RWState) (c : Char) :
    FlSat (handleshellquote st c) := by
  unfold handleshellquote; (try simp only []); fl_walk
macro_rules | `(tactic| fl_atom) => `(tactic| exact fl_handleshellquote _ _)

theorem fl_handleshellexp (st : RWState) (c : Char) (cd : Option Char) :
    FlSat (handleshellexp st c cd) := by
  unfold handleshellexp; (try simp only []); fl_walk
macro_rules | `(tactic| fl_atom) => `(tactic| exact fl_handleshellexp _ _ _)

set_option maxHeartbeats 1000000 in
theorem fl_readtokenwordStep (st : RWState) : FlSat (readtokenwordStep st) := by
  unfold readtokenwordStep; (try simp only []); fl_walk
macro_rules | `(tactic| fl_atom) => `(tactic| exact fl_readtokenwordStep _)

theorem fl_tokentypeOfChar (c : Char) : FlSat (tokentypeOfChar c) := by
  unfold tokentypeOfChar; (try simp only []); fl_walk
macro_rules | `(tactic| fl_atom) => `(tactic| exact fl_tokentypeOfChar _)

theorem fl_readtokenMeta (c : Char) : FlSat (readtokenMeta c) := by
  unfold readtokenMeta; (try simp only []); fl_walk
macro_rules | `(tactic| fl_atom) => `(tactic| exact fl_readtokenMeta _)

set_option maxHeartbeats 1000000 in
theorem fl_finishWord (st : RWState) : FlSat (finishWord st) := by
  unfold finishWord; (try simp only []); fl_walk
macro_rules | `(tactic| fl_atom) => `(tactic| exact fl_finishWord _)

theorem fl_readtokenword (c : Char) : FlSat (readtokenword c) := by
  unfold readtokenword; (try simp only []); fl_walk
macro_rules | `(tactic| fl_atom) => `(tactic| exact fl_readtokenword _)

set_option maxHeartbeats 1000000 in
theorem fl_readtoken : FlSat readtoken := by
  unfold readtoken; (try simp only []); fl_walk
macro_rules | `(tactic| fl_atom) => `(tactic| exact fl_readtoken)

/-- `token()` never sets `regexp` / `dblparen` -/
theorem fl_nextToken : FlSat nextToken := by
  unfold nextToken; (try simp only []); fl_walk

end Bashlex.C01
